(* DiffProofs.v — proofs about model/Diff.v (C30). *)
From HW Require Import lib.Base model.Diff.
Local Open Scope N_scope.

(* ------------------------------------------------------------------ *)
(* decimal printing / parsing                                           *)

Fixpoint value_le (l : bytes) : N :=
  match l with
  | [] => 0
  | d :: l' => (d - 48) + 10 * value_le l'
  end.

Lemma is_digit_spec c : is_digit c = true <-> 48 <= c <= 57.
Proof.
  unfold is_digit. rewrite andb_true_iff, !N.leb_le. tauto.
Qed.

Lemma parse_digits_snoc : forall l v c,
  parse_digits v (l ++ [c]) =
  match parse_digits v l with
  | Some x => if is_digit c then Some (x * 10 + (c - 48)) else None
  | None => None
  end.
Proof.
  induction l as [|a l IH]; intros v c; cbn [app parse_digits].
  - destruct (is_digit c); reflexivity.
  - destruct (is_digit a); [apply IH | reflexivity].
Qed.

Lemma parse_digits_rev : forall l,
  Forall (fun c => is_digit c = true) l ->
  parse_digits 0 (rev l) = Some (value_le l).
Proof.
  induction l as [|d l IH]; intros HF; cbn [rev value_le].
  - reflexivity.
  - inversion HF as [|? ? Hd Hl]; subst.
    rewrite parse_digits_snoc, (IH Hl), Hd. f_equal. lia.
Qed.

Lemma le_digits_spec : forall f n,
  n < 2 ^ N.of_nat f ->
  Forall (fun c => is_digit c = true) (le_digits 10 f n) /\ value_le (le_digits 10 f n) = n.
Proof.
  induction f as [|f IH]; intros n Hn.
  - cbn in Hn. assert (n = 0) by lia. subst. cbn. split; [constructor | reflexivity].
  - rewrite Nat2N.inj_succ, N.pow_succ_r' in Hn.
    cbn [le_digits].
    assert (Hq : n / 10 < 2 ^ N.of_nat f).
    { apply N.div_lt_upper_bound; [lia|]. remember (2 ^ N.of_nat f) as P. lia. }
    clear Hn.
    assert (Hmod : n mod 10 < 10) by (apply N.mod_lt; discriminate).
    assert (Hdm : n = 10 * (n / 10) + n mod 10) by (apply N.div_mod; discriminate).
    destruct (IH _ Hq) as [HF HV]. clear Hq IH.
    remember (n mod 10) as m eqn:Em. remember (n / 10) as q eqn:Eq.
    assert (Hd : is_digit (48 + m) = true) by (apply is_digit_spec; lia).
    destruct (N.eqb_spec q 0) as [E|E].
    + split; [constructor; [exact Hd | constructor] |].
      cbn [value_le]. lia.
    + split; [constructor; assumption |].
      cbn [value_le]. rewrite HV. lia.
Qed.

Lemma log2_fuel n : n < 2 ^ N.of_nat (S (N.to_nat (N.log2 n))).
Proof.
  rewrite Nat2N.inj_succ, N2Nat.id.
  destruct (N.eq_dec n 0) as [->|Hn]; [cbn; lia|].
  apply N.log2_spec. lia.
Qed.

Lemma print_dec_digits n : Forall (fun c => is_digit c = true) (print_dec n).
Proof.
  unfold print_dec, print_base. apply Forall_rev.
  apply le_digits_spec, log2_fuel.
Qed.

Lemma print_dec_cons n : exists c s, print_dec n = c :: s /\ is_digit c = true.
Proof.
  pose proof (print_dec_digits n) as HF.
  unfold print_dec, print_base in *. cbn [le_digits] in *.
  cbn [rev] in *.
  destruct (rev _ ++ _) as [|c s] eqn:E.
  - apply app_eq_nil in E. destruct E as [_ E]. discriminate.
  - inversion HF; subst. eauto.
Qed.

(* decimal print / parse round trip, for every N *)
Theorem parse_print_dec : forall n, parse_dec (print_dec n) = Some n.
Proof.
  intros n. destruct (print_dec_cons n) as (c & s & E & _).
  unfold parse_dec. rewrite E, <- E.
  unfold print_dec, print_base.
  destruct (le_digits_spec _ _ (log2_fuel n)) as [HF HV].
  rewrite parse_digits_rev by exact HF. rewrite HV. reflexivity.
Qed.

Theorem parse_u32_print_dec : forall n, n <= U32_MAX -> parse_u32 (print_dec n) = Some n.
Proof.
  intros n Hn. pose proof (parse_print_dec n) as HP.
  destruct (print_dec_cons n) as (c & s & E & Hc).
  unfold parse_u32. rewrite E in *.
  apply is_digit_spec in Hc.
  destruct (N.eqb_spec c 43) as [->|_]; [lia|].
  rewrite HP. apply N.leb_le in Hn. rewrite Hn. reflexivity.
Qed.

(* u32 parsing never yields a value out of range *)
Lemma parse_u32_bound s v : parse_u32 s = Some v -> v <= U32_MAX.
Proof.
  unfold parse_u32. destruct s as [|c r]; [discriminate|].
  destruct (parse_dec _) as [x|]; [|discriminate].
  destruct (N.leb_spec x U32_MAX); [|discriminate]. intros [= <-]. assumption.
Qed.

Lemma digits_not_in c l : Forall (fun c => is_digit c = true) l -> ~ (48 <= c <= 57) -> ~ In c l.
Proof.
  intros HF Hc Hin. rewrite Forall_forall in HF. apply HF, is_digit_spec in Hin. tauto.
Qed.

(* ------------------------------------------------------------------ *)
(* str helpers                                                          *)

Lemma read_line_app : forall body rest,
  ~ In 10 body -> read_line (body ++ 10 :: rest) = (body ++ [10], rest).
Proof.
  induction body as [|c body IH]; intros rest Hn; cbn [app read_line].
  - rewrite N.eqb_refl. reflexivity.
  - destruct (N.eqb_spec c 10) as [->|_]; [exfalso; apply Hn; left; reflexivity|].
    rewrite IH by (intros H; apply Hn; right; exact H). reflexivity.
Qed.

Lemma read_line_length s :
  (length (fst (read_line s)) + length (snd (read_line s)) = length s)%nat.
Proof.
  induction s as [|c s IH]; cbn [read_line]; [reflexivity|].
  destruct (c =? 10); cbn [fst snd length]; lia.
Qed.

Lemma strip_prefix_app : forall p s, strip_prefix p (p ++ s) = Some s.
Proof.
  induction p as [|a p IH]; intros s; cbn [app strip_prefix]; [reflexivity|].
  rewrite N.eqb_refl. apply IH.
Qed.

Lemma split_once_eq p s :
  split_once p s =
  match strip_prefix p s with
  | Some r => Some ([], r)
  | None =>
      match s with
      | [] => None
      | c :: s' => match split_once p s' with
                   | Some ab => Some (c :: fst ab, snd ab)
                   | None => None
                   end
      end
  end.
Proof. destruct s; reflexivity. Qed.

Lemma split_once_first : forall c0 p' a b,
  ~ In c0 a -> split_once (c0 :: p') (a ++ (c0 :: p') ++ b) = Some (a, b).
Proof.
  intros c0 p'. induction a as [|x a IH]; intros b Hn; rewrite split_once_eq.
  - cbn [app]. change (c0 :: p' ++ b) with ((c0 :: p') ++ b).
    rewrite strip_prefix_app. reflexivity.
  - rewrite <- app_comm_cons. cbn [strip_prefix].
    destruct (N.eqb_spec c0 x) as [->|_]; [exfalso; apply Hn; left; reflexivity|].
    rewrite IH by (intros H; apply Hn; right; exact H). reflexivity.
Qed.

Lemma split_once_none : forall c0 p' s, ~ In c0 s -> split_once (c0 :: p') s = None.
Proof.
  intros c0 p'. induction s as [|x s IH]; intros Hn; rewrite split_once_eq.
  - reflexivity.
  - cbn [strip_prefix].
    destruct (N.eqb_spec c0 x) as [->|_]; [exfalso; apply Hn; left; reflexivity|].
    rewrite IH by (intros H; apply Hn; right; exact H). reflexivity.
Qed.

Lemma strip_suffix_nl_snoc l : strip_suffix_nl (l ++ [10]) = l.
Proof.
  unfold strip_suffix_nl. rewrite rev_app_distr. cbn [rev app].
  rewrite N.eqb_refl. apply rev_involutive.
Qed.

Lemma drop_nl_noop r : ~ In 10 r -> drop_nl r = r.
Proof.
  destruct r as [|c r]; intros Hn; cbn [drop_nl]; [reflexivity|].
  destruct (N.eqb_spec c 10) as [->|_]; [exfalso; apply Hn; left; reflexivity | reflexivity].
Qed.

Lemma trim_end_nl_snoc l : ~ In 10 l -> trim_end_nl (l ++ [10]) = l.
Proof.
  intros Hn. unfold trim_end_nl. rewrite rev_app_distr. cbn [rev app drop_nl].
  rewrite N.eqb_refl, drop_nl_noop.
  - apply rev_involutive.
  - intros H. apply Hn. apply in_rev. exact H.
Qed.

(* ------------------------------------------------------------------ *)
(* HunkHeader                                                           *)

Definition header_ok (h : hheader) : Prop :=
  old_no h <= U32_MAX /\ old_sz h <= U32_MAX /\ new_no h <= U32_MAX /\ new_sz h <= U32_MAX /\
  ~ In 10 (htext h).

Definition range_char (c : N) : Prop := is_digit c = true \/ c = 44.

Lemma encode_range_chars no sz : Forall range_char (encode_range no sz).
Proof.
  unfold encode_range.
  assert (HD : forall n, Forall range_char (print_dec n)).
  { intros n. eapply Forall_impl; [|apply print_dec_digits]. intros; left; assumption. }
  destruct (sz =? 1); [apply HD|].
  apply Forall_app; split; [apply HD|].
  apply Forall_app; split; [|apply HD].
  constructor; [right; reflexivity | constructor].
Qed.

Lemma range_char_not c l : Forall range_char l -> c <> 44 -> ~ (48 <= c <= 57) -> ~ In c l.
Proof.
  intros HF H1 H2 Hin. rewrite Forall_forall in HF. destruct (HF _ Hin) as [H|H].
  - apply is_digit_spec in H. tauto.
  - tauto.
Qed.

Lemma parse_range_encode no sz :
  no <= U32_MAX -> sz <= U32_MAX -> parse_range (encode_range no sz) = Some (no, sz).
Proof.
  intros Hno Hsz. unfold parse_range, encode_range, COMMA.
  destruct (N.eqb_spec sz 1) as [->|Hne].
  - rewrite split_once_none by (apply digits_not_in; [apply print_dec_digits | lia]).
    cbn [fst snd]. rewrite parse_u32_print_dec by assumption. reflexivity.
  - rewrite split_once_first by (apply digits_not_in; [apply print_dec_digits | lia]).
    cbn [fst snd]. rewrite !parse_u32_print_dec by assumption. reflexivity.
Qed.

Definition header_body (h : hheader) : bytes :=
  AT_AT_MINUS ++ encode_range (old_no h) (old_sz h) ++ SP_PLUS ++
  encode_range (new_no h) (new_sz h) ++ SP_AT_AT ++ text_part (htext h).

Lemma encode_header_body h : encode_header h = header_body h ++ [10].
Proof.
  unfold encode_header, header_body, text_part. repeat rewrite <- app_assoc. reflexivity.
Qed.

Lemma header_body_no_nl h : ~ In 10 (htext h) -> ~ In 10 (header_body h).
Proof.
  intros Ht. unfold header_body. rewrite !in_app_iff.
  pose proof (encode_range_chars (old_no h) (old_sz h)) as H1.
  pose proof (encode_range_chars (new_no h) (new_sz h)) as H2.
  intros [H|[H|[H|[H|[H|H]]]]].
  - cbn in H. lia.
  - revert H. apply range_char_not; [assumption | lia | lia].
  - cbn in H. lia.
  - revert H. apply range_char_not; [assumption | lia | lia].
  - cbn in H. lia.
  - unfold text_part in H. destruct (htext h) as [|t0 t]; [exact H|].
    destruct H as [H|H]; [lia | tauto].
Qed.

Lemma text_part_decode t :
  strip_suffix_nl (strip_space (text_part t ++ [10])) = t.
Proof.
  destruct t as [|t0 t].
  - reflexivity.
  - cbn [text_part app]. change (t0 :: t ++ [10]) with ((t0 :: t) ++ [10]).
    apply strip_suffix_nl_snoc.
Qed.

Lemma decode_header_line_encode keep h rest :
  header_ok h ->
  decode_header_line keep (encode_header h) rest =
  Ok (mkHeader (old_no h) (old_sz h) (new_no h) (new_sz h)
        (let s := strip_space (text_part (htext h) ++ [10]) in
         if keep then s else strip_suffix_nl s), rest).
Proof.
  intros (H1 & H2 & H3 & H4 & Ht).
  unfold decode_header_line, encode_header.
  rewrite strip_prefix_app.
  unfold SP_PLUS at 1 2.
  rewrite split_once_first
    by (apply (range_char_not _ _ (encode_range_chars _ _)); lia).
  rewrite parse_range_encode by assumption.
  unfold SP_AT_AT at 1 2.
  rewrite split_once_first
    by (apply (range_char_not _ _ (encode_range_chars _ _)); lia).
  rewrite parse_range_encode by assumption.
  reflexivity.
Qed.

(* HunkHeader: decode (encode h) = h, and the unread input is untouched *)
Theorem header_roundtrip h rest :
  header_ok h -> decode_header (encode_header h ++ rest) = Ok (h, rest).
Proof.
  intros Hok. pose proof Hok as (_ & _ & _ & _ & Ht).
  unfold decode_header, decode_header_gen.
  rewrite encode_header_body, <- app_assoc. cbn [app].
  rewrite read_line_app by (apply header_body_no_nl; exact Ht).
  cbn [fst snd].
  destruct (header_body h ++ [10]) as [|c l] eqn:E.
  - apply app_eq_nil in E. destruct E as [_ E]; discriminate.
  - rewrite <- E, <- encode_header_body.
    rewrite decode_header_line_encode by exact Hok.
    cbv zeta. rewrite text_part_decode. destruct h; reflexivity.
Qed.

(* the decoder as found: the terminator stays in the text *)
Theorem header_orig_keeps_terminator :
  exists h, header_ok h /\ decode_header_orig (encode_header h) <> Ok (h, []).
Proof.
  exists (mkHeader 1 3 1 4 [102; 111; 111]). split.
  - unfold header_ok, U32_MAX. cbn. repeat split; try lia.
  - vm_compute. discriminate.
Qed.

(* ------------------------------------------------------------------ *)
(* Modification                                                         *)

(* a line of a text file that ends with a newline: any bytes, then '\n' *)
Definition line_ok (l : bytes) : Prop := exists c, l = c ++ [10] /\ ~ In 10 c.

Definition zero_nums (m : modif) : modif :=
  match m with
  | MAdd l _ => MAdd l 0
  | MDel l _ => MDel l 0
  | MCtx l _ _ => MCtx l 0 0
  end.

Lemma modif_sign_not_nl m : modif_sign m <> 10.
Proof. destruct m; cbn; lia. Qed.

Lemma encode_modif_line m c :
  modif_line m = c ++ [10] -> encode_modif m = (modif_sign m :: c) ++ [10].
Proof.
  intros E. unfold encode_modif. rewrite E, strip_suffix_nl_snoc. reflexivity.
Qed.

Theorem modif_roundtrip m rest :
  line_ok (modif_line m) ->
  decode_modif (encode_modif m ++ rest) = Ok (zero_nums m, rest).
Proof.
  intros (c & E & Hc). rewrite (encode_modif_line _ _ E), <- app_assoc. cbn [app].
  unfold decode_modif.
  change (modif_sign m :: c ++ 10 :: rest) with ((modif_sign m :: c) ++ 10 :: rest).
  rewrite read_line_app.
  2:{ intros [H|H]; [apply (modif_sign_not_nl m); exact H | tauto]. }
  cbn [fst snd app].
  destruct m as [l k|l k|l ko kn]; cbn [modif_sign modif_line zero_nums] in *; subst l;
    repeat match goal with |- context [?a =? ?b] =>
      first [ change (a =? b) with true | change (a =? b) with false ] end;
    reflexivity.
Qed.

(* ------------------------------------------------------------------ *)
(* Hunk                                                                 *)

Definition is_add (m : modif) := match m with MAdd _ _ => true | _ => false end.
Definition is_del (m : modif) := match m with MDel _ _ => true | _ => false end.
Definition is_ctx (m : modif) := match m with MCtx _ _ _ => true | _ => false end.

(* number of lines of the old / new side *)
Fixpoint count_old (l : list modif) : N :=
  match l with
  | [] => 0
  | m :: l' => (if is_add m then 0 else 1) + count_old l'
  end.
Fixpoint count_new (l : list modif) : N :=
  match l with
  | [] => 0
  | m :: l' => (if is_del m then 0 else 1) + count_new l'
  end.

(* line numbers run on from the header's start lines *)
Fixpoint numbered (h : hheader) (o n : N) (l : list modif) : Prop :=
  match l with
  | [] => True
  | MAdd _ k :: l' => k = new_no h + n /\ numbered h o (n + 1) l'
  | MDel _ k :: l' => k = old_no h + o /\ numbered h (o + 1) n l'
  | MCtx _ ko kn :: l' => ko = old_no h + o /\ kn = new_no h + n /\ numbered h (o + 1) (n + 1) l'
  end.

Lemma add_u32_ok site a b : a + b <= U32_MAX -> add_u32 site a b = Ok (a + b).
Proof. intros H. unfold add_u32. apply N.leb_le in H. rewrite H. reflexivity. Qed.

Lemma hunk_loop_encode h rest : forall ls fuel o n acc,
  (length ls < fuel)%nat ->
  old_sz h = o + count_old ls ->
  new_sz h = n + count_new ls ->
  numbered h o n ls ->
  Forall (fun m => line_ok (modif_line m)) ls ->
  old_no h + old_sz h <= U32_MAX ->
  new_no h + new_sz h <= U32_MAX ->
  hunk_loop fuel h o n acc (flat_map encode_modif ls ++ rest) = Ok (rev acc ++ ls, rest).
Proof.
  induction ls as [|m ls IH]; intros fuel o n acc Hf Ho Hn Hnum Hok Hmo Hmn.
  - cbn [count_old count_new flat_map app] in *.
    assert (E1 : o <? old_sz h = false) by (apply N.ltb_ge; lia).
    assert (E2 : n <? new_sz h = false) by (apply N.ltb_ge; lia).
    destruct fuel; cbn [hunk_loop]; rewrite E1, E2; cbn [orb]; rewrite app_nil_r; reflexivity.
  - destruct fuel as [|fuel]; [cbn in Hf; lia|].
    inversion Hok as [|? ? Hm Hls]; subst.
    cbn [flat_map]. rewrite <- app_assoc.
    cbn [hunk_loop].
    cbn [count_old count_new] in Ho, Hn.
    assert (Hcond : (o <? old_sz h) || (n <? new_sz h) = true).
    { apply orb_true_iff. rewrite !N.ltb_lt. destruct m; cbn [is_add is_del] in *; lia. }
    rewrite Hcond.
    assert (old_sz h <? o = false) as -> by (apply N.ltb_ge; lia).
    assert (new_sz h <? n = false) as -> by (apply N.ltb_ge; lia).
    rewrite (modif_roundtrip m _ Hm).
    cbn [length] in Hf.
    destruct m as [l k|l k|l ko kn]; cbn [zero_nums is_add is_del numbered] in *.
    + destruct Hnum as [-> Hnum].
      rewrite add_u32_ok by lia. cbn [bind].
      rewrite IH; try assumption; try lia.
      cbn [rev]. rewrite <- app_assoc. reflexivity.
    + destruct Hnum as [-> Hnum].
      rewrite add_u32_ok by lia. cbn [bind].
      rewrite IH; try assumption; try lia.
      cbn [rev]. rewrite <- app_assoc. reflexivity.
    + destruct Hnum as (-> & -> & Hnum).
      rewrite !add_u32_ok by lia. cbn [bind].
      rewrite IH; try assumption; try lia.
      cbn [rev]. rewrite <- app_assoc. reflexivity.
Qed.

Lemma flat_map_encode_length ls : (length ls <= length (flat_map encode_modif ls))%nat.
Proof.
  induction ls as [|m ls IH]; cbn [flat_map length]; [lia|].
  rewrite app_length. unfold encode_modif at 1. cbn [length]. lia.
Qed.

Lemma line_range_ok no sz : no + sz + 1 <= U32_MAX -> line_range no sz = Ok (no, no + sz + 1).
Proof.
  intros H. unfold line_range. rewrite add_u32_ok by lia. cbn [bind].
  rewrite add_u32_ok by lia. reflexivity.
Qed.

(* what the theorem asks of a hunk: a header [hh] that prints to the hunk's
   header line, counts and numbering that match the lines, every line
   terminated by its only '\n'.  Nothing about blanks or '\r'. *)
Record hunk_wf (hh : hheader) (lines : list modif) : Prop := {
  wf_header : header_ok hh;
  wf_old : old_sz hh = count_old lines;
  wf_new : new_sz hh = count_new lines;
  wf_numbered : numbered hh 0 0 lines;
  wf_lines : Forall (fun m => line_ok (modif_line m)) lines;
  wf_old_max : old_no hh + old_sz hh + 1 <= U32_MAX;
  wf_new_max : new_no hh + new_sz hh + 1 <= U32_MAX
}.

(* the ranges Hunk::decode computes (HunkHeader::old_line_range) *)
Definition decoded_ranges (hh : hheader) : (N * N) * (N * N) :=
  ((old_no hh, old_no hh + old_sz hh + 1), (new_no hh, new_no hh + new_sz hh + 1)).

Lemma encode_hunk_header hh lines ro rn :
  ~ In 10 (htext hh) ->
  encode_hunk (mkHunk (encode_header hh) lines ro rn) =
  encode_header hh ++ flat_map encode_modif lines.
Proof.
  intros Ht. unfold encode_hunk. cbn [hline hlines].
  rewrite encode_header_body, trim_end_nl_snoc by (apply header_body_no_nl; exact Ht).
  rewrite <- app_assoc. reflexivity.
Qed.

Theorem hunk_roundtrip hh lines ro rn rest :
  hunk_wf hh lines ->
  decode_hunk (encode_hunk (mkHunk (encode_header hh) lines ro rn) ++ rest) =
  Ok (mkHunk (encode_header hh) lines (fst (decoded_ranges hh)) (snd (decoded_ranges hh)), rest).
Proof.
  intros [Hh Ho Hn Hnum Hl Hmo Hmn].
  pose proof Hh as (_ & _ & _ & _ & Ht).
  rewrite encode_hunk_header by exact Ht.
  unfold decode_hunk, decode_hunk_gen. rewrite <- app_assoc.
  change (decode_header_gen false) with decode_header.
  rewrite header_roundtrip by exact Hh. cbn [bind fst snd].
  rewrite hunk_loop_encode; try assumption; try lia.
  2:{ rewrite app_length. pose proof (flat_map_encode_length lines). lia. }
  cbn [bind fst snd rev app].
  rewrite !line_range_ok by assumption. cbn [bind]. reflexivity.
Qed.

(* the hypotheses are satisfiable, also by a hunk with trailing blanks, '\r'
   and whitespace-only lines *)
Definition ex_header : hheader := mkHeader 1 2 1 3 [102; 110; 32; 102; 40; 41; 32].   (* "fn f() " *)
Definition ex_lines : list modif :=
  [ MCtx [111; 110; 101; 10] 1 1;                 (* " one\n"      *)
    MDel [116; 119; 111; 10] 2;                   (* "-two\n"      *)
    MAdd [116; 119; 111; 32; 32; 10] 2;           (* "+two  \n"    *)
    MAdd [9; 13; 10] 3 ].                         (* "+\t\r\n"     *)

Lemma not_in_small (c : N) (l : bytes) : forallb (fun x => negb (x =? c)) l = true -> ~ In c l.
Proof.
  intros H Hin. rewrite forallb_forall in H. apply H in Hin.
  rewrite N.eqb_refl in Hin. discriminate.
Qed.

Lemma ex_hunk_wf : hunk_wf ex_header ex_lines.
Proof.
  constructor.
  - unfold header_ok, ex_header, U32_MAX; cbn [old_no old_sz new_no new_sz htext].
    repeat split; try lia. apply not_in_small. reflexivity.
  - reflexivity.
  - reflexivity.
  - cbn. repeat split; reflexivity.
  - repeat constructor; cbn [modif_line].
    + exists [111; 110; 101]. split; [reflexivity | apply not_in_small; reflexivity].
    + exists [116; 119; 111]. split; [reflexivity | apply not_in_small; reflexivity].
    + exists [116; 119; 111; 32; 32]. split; [reflexivity | apply not_in_small; reflexivity].
    + exists [9; 13]. split; [reflexivity | apply not_in_small; reflexivity].
  - unfold ex_header, U32_MAX; cbn [old_no old_sz]. lia.
  - unfold ex_header, U32_MAX; cbn [new_no new_sz]. lia.
Qed.

(* the encoder as found (trim_end): the same hunk does not survive *)
Theorem orig_encoder_loses_trailing_whitespace :
  exists hh lines h',
    hunk_wf hh lines /\
    decode_hunk (encode_hunk_orig (mkHunk (encode_header hh) lines (0, 0) (0, 0))) = Ok (h', []) /\
    hlines h' <> lines.
Proof.
  exists ex_header, ex_lines.
  eexists. split; [exact ex_hunk_wf|]. split.
  - vm_compute. reflexivity.
  - cbn [hlines]. unfold ex_lines. intros E. inversion E.
Qed.

(* ------------------------------------------------------------------ *)
(* DiffContent: several hunks                                           *)

(* a hunk in the form the decoder produces: header line printed from [hh],
   ranges as HunkHeader::old_line_range computes them *)
Definition mk_hunk (p : hheader * list modif) : hunk :=
  mkHunk (encode_header (fst p)) (snd p)
    (fst (decoded_ranges (fst p))) (snd (decoded_ranges (fst p))).

Definition total_adds (ps : list (hheader * list modif)) : N :=
  fold_right N.add 0 (map (fun h => count_adds (hlines h)) (map mk_hunk ps)).
Definition total_dels (ps : list (hheader * list modif)) : N :=
  fold_right N.add 0 (map (fun h => count_dels (hlines h)) (map mk_hunk ps)).

Lemma decode_hunk_nil : decode_hunk [] = Err EEof.
Proof. reflexivity. Qed.

Lemma encode_hunk_length h : (1 <= length (encode_hunk h))%nat.
Proof. unfold encode_hunk. rewrite !app_length. cbn [length]. lia. Qed.

Lemma flat_map_hunks_length (ps : list (hheader * list modif)) :
  (length ps <= length (flat_map (fun p => encode_hunk (mk_hunk p)) ps))%nat.
Proof.
  induction ps as [|p ps IH]; cbn [flat_map length]; [lia|].
  rewrite app_length. pose proof (encode_hunk_length (mk_hunk p)). lia.
Qed.

Lemma content_loop_encode : forall ps fuel acc,
  (length ps < fuel)%nat ->
  Forall (fun p => hunk_wf (fst p) (snd p)) ps ->
  content_loop fuel acc (flat_map (fun p => encode_hunk (mk_hunk p)) ps) =
  Ok (rev acc ++ map mk_hunk ps).
Proof.
  induction ps as [|p ps IH]; intros fuel acc Hf Hwf.
  - destruct fuel; [cbn in Hf; lia|].
    cbn [flat_map content_loop map]. rewrite decode_hunk_nil, app_nil_r. reflexivity.
  - destruct fuel; [cbn in Hf; lia|].
    inversion Hwf as [|? ? Hp Hps]; subst.
    cbn [flat_map content_loop]. unfold mk_hunk at 1.
    rewrite hunk_roundtrip by exact Hp.
    cbn [length] in Hf. rewrite IH by (assumption || lia).
    cbn [rev map]. rewrite <- app_assoc. reflexivity.
Qed.

Theorem content_roundtrip ps :
  Forall (fun p => hunk_wf (fst p) (snd p)) ps ->
  decode_content (flat_map (fun p => encode_hunk (mk_hunk p)) ps) =
  Ok (match ps with
      | [] => CEmpty
      | _ => CPlain (map mk_hunk ps) (total_adds ps) (total_dels ps)
      end).
Proof.
  intros Hwf. unfold decode_content.
  rewrite content_loop_encode; [| pose proof (flat_map_hunks_length ps); lia | exact Hwf].
  cbn [rev app bind]. destruct ps; reflexivity.
Qed.

(* ------------------------------------------------------------------ *)
(* the loops never run out of fuel (every iteration consumes input)      *)

Lemma decode_modif_consumes input m rest :
  decode_modif input = Ok (m, rest) -> (length rest < length input)%nat.
Proof.
  unfold decode_modif. pose proof (read_line_length input) as HL.
  destruct (fst (read_line input)) as [|c l] eqn:E; [discriminate|].
  cbn [length] in HL.
  destruct (c =? 43); [intros [= <- <-]; lia|].
  destruct (c =? 45); [intros [= <- <-]; lia|].
  destruct (c =? 32); [intros [= <- <-]; lia | discriminate].
Qed.

Lemma decode_modif_shape input :
  (exists m rest, decode_modif input = Ok (m, rest)) \/ (exists e, decode_modif input = Err e).
Proof.
  unfold decode_modif. destruct (fst (read_line input)) as [|c l]; [right; eauto|].
  destruct (c =? 43); [left; eauto|].
  destruct (c =? 45); [left; eauto|].
  destruct (c =? 32); [left; eauto | right; eauto].
Qed.

Lemma hunk_loop_fuel : forall fuel h o n acc input,
  (length input < fuel)%nat ->
  hunk_loop fuel h o n acc input <> OutOfFuel /\
  (forall ls rest, hunk_loop fuel h o n acc input = Ok (ls, rest) ->
                   (length rest <= length input)%nat).
Proof.
  induction fuel as [|fuel IH]; intros h o n acc input Hf; [lia|].
  cbn [hunk_loop].
  destruct ((o <? old_sz h) || (n <? new_sz h)).
  2:{ split; [discriminate | intros ls rest [= _ <-]; lia]. }
  destruct (old_sz h <? o); [split; [discriminate | discriminate]|].
  destruct (new_sz h <? n); [split; [discriminate | discriminate]|].
  destruct (decode_modif_shape input) as [(m & rest & E)|(e & E)]; rewrite E.
  - pose proof (decode_modif_consumes _ _ _ E) as HL.
    assert (Hf' : (length rest < fuel)%nat) by lia.
    destruct m as [l k|l k|l ko kn].
    + destruct (add_u32 1 (new_no h) n) as [k'| | |] eqn:EA; cbn [bind];
        try (split; [discriminate | discriminate]).
      * destruct (IH h o (n + 1) (MAdd l k' :: acc) rest Hf') as [H1 H2].
        split; [exact H1 | intros ls r Hr; specialize (H2 _ _ Hr); lia].
      * unfold add_u32 in EA. destruct (_ <=? _); discriminate.
    + destruct (add_u32 1 (old_no h) o) as [k'| | |] eqn:EA; cbn [bind];
        try (split; [discriminate | discriminate]).
      * destruct (IH h (o + 1) n (MDel l k' :: acc) rest Hf') as [H1 H2].
        split; [exact H1 | intros ls r Hr; specialize (H2 _ _ Hr); lia].
      * unfold add_u32 in EA. destruct (_ <=? _); discriminate.
    + destruct (add_u32 1 (old_no h) o) as [k1| | |] eqn:EA; cbn [bind];
        try (split; [discriminate | discriminate]).
      * destruct (add_u32 1 (new_no h) n) as [k2| | |] eqn:EB; cbn [bind];
          try (split; [discriminate | discriminate]).
        -- destruct (IH h (o + 1) (n + 1) (MCtx l k1 k2 :: acc) rest Hf') as [H1 H2].
           split; [exact H1 | intros ls r Hr; specialize (H2 _ _ Hr); lia].
        -- unfold add_u32 in EB. destruct (_ <=? _); discriminate.
      * unfold add_u32 in EA. destruct (_ <=? _); discriminate.
  - destruct e; split; discriminate.
Qed.

Lemma decode_header_line_rest keep line rest h r :
  decode_header_line keep line rest = Ok (h, r) -> r = rest.
Proof.
  unfold decode_header_line.
  repeat match goal with
         | |- context [match ?x with _ => _ end] => destruct x
         end; try discriminate.
  all: intros [= _ <-]; reflexivity.
Qed.

Lemma decode_header_shape keep input :
  (exists h rest, decode_header_gen keep input = Ok (h, rest) /\ (length rest < length input)%nat)
  \/ (exists e, decode_header_gen keep input = Err e).
Proof.
  unfold decode_header_gen. pose proof (read_line_length input) as HL.
  destruct (fst (read_line input)) as [|c l] eqn:E; [right; eauto|].
  cbn [length] in HL.
  destruct (decode_header_line keep (c :: l) (snd (read_line input))) as [[h r]|e|p|] eqn:ED.
  - left. apply decode_header_line_rest in ED as ->. exists h, (snd (read_line input)). split; [reflexivity | lia].
  - right. eauto.
  - exfalso. revert ED. unfold decode_header_line.
    repeat match goal with
           | |- context [match ?x with _ => _ end] => destruct x
           end; discriminate.
  - exfalso. revert ED. unfold decode_header_line.
    repeat match goal with
           | |- context [match ?x with _ => _ end] => destruct x
           end; discriminate.
Qed.

Lemma line_range_shape no sz : (exists r, line_range no sz = Ok r) \/ line_range no sz = Panic 1.
Proof.
  unfold line_range, add_u32.
  destruct (no + sz <=? U32_MAX); cbn [bind]; [|right; reflexivity].
  destruct (no + sz + 1 <=? U32_MAX); cbn [bind]; [left; eauto | right; reflexivity].
Qed.

Theorem decode_hunk_fuel keep input :
  decode_hunk_gen keep input <> OutOfFuel /\
  (forall h rest, decode_hunk_gen keep input = Ok (h, rest) -> (length rest < length input)%nat).
Proof.
  unfold decode_hunk_gen.
  destruct (decode_header_shape keep input) as [(hh & r & E & HL)|(e & E)]; rewrite E; cbn [bind fst snd].
  2:{ split; discriminate. }
  destruct (hunk_loop_fuel (S (length r)) hh 0 0 [] r (Nat.lt_succ_diag_r _)) as [H1 H2].
  destruct (hunk_loop (S (length r)) hh 0 0 [] r) as [[ls r']|e|p|] eqn:EL; cbn [bind fst snd];
    try (split; discriminate); [|exfalso; apply H1; reflexivity].
  specialize (H2 _ _ eq_refl).
  destruct (line_range_shape (old_no hh) (old_sz hh)) as [[ro ->]| ->]; cbn [bind]; [|split; discriminate].
  destruct (line_range_shape (new_no hh) (new_sz hh)) as [[rn ->]| ->]; cbn [bind]; [|split; discriminate].
  split; [discriminate|]. intros h rest [= _ <-]. lia.
Qed.

Lemma content_loop_fuel : forall fuel acc input,
  (length input < fuel)%nat -> content_loop fuel acc input <> OutOfFuel.
Proof.
  induction fuel as [|fuel IH]; intros acc input Hf; [lia|].
  cbn [content_loop]. destruct (decode_hunk_fuel false input) as [H1 H2].
  fold decode_hunk in H1, H2.
  destruct (decode_hunk input) as [[h rest]|e|p|]; try discriminate.
  - apply IH. specialize (H2 _ _ eq_refl). lia.
  - destruct e; discriminate.
  - exfalso; apply H1; reflexivity.
Qed.

Theorem decode_content_fuel input : decode_content input <> OutOfFuel.
Proof.
  unfold decode_content.
  pose proof (content_loop_fuel (S (length input)) [] input (Nat.lt_succ_diag_r _)) as H.
  destruct (content_loop _ _ _) as [hs|e|p|]; cbn [bind]; try discriminate.
  - destruct hs; discriminate.
  - exfalso; apply H; reflexivity.
Qed.

(* ------------------------------------------------------------------ *)
(* whole diffs — PARTIAL.                                               *)
(* `Diff::decode` is libgit2's patch parser (git2::Diff::from_buffer)    *)
(* followed by radicle-surf's conversion.  Neither is modelled: they are *)
(* an oracle in two pieces, a file-header parser and a hunk parser, with *)
(* the hypotheses (1) the header parser reads back the headers           *)
(* FileHeader::encode prints for the header class [good_header], and     *)
(* (2) the hunk parser agrees with the Gallina hunk decoder wherever     *)
(* that succeeds.  What is proved is that, given (1) and (2), the hunk   *)
(* codec composes to a whole-diff round trip.  The file-header grammar   *)
(* (paths, quoting, modes, renames) is NOT proved; (1) and (2) are       *)
(* exercised by the harness on every run.                                *)

Definition hunk_core (p : hheader * list modif) : bytes * list modif :=
  (encode_header (fst p), snd p).

Definition content_of (ps : list (hheader * list modif)) : content :=
  CPlain (map mk_hunk ps) (total_adds ps) (total_dels ps).

Lemma encode_fheader_starts f text :
  encode_fheader f = Ok text -> exists t, text = s_diff_git ++ t.
Proof.
  destruct f; cbn [encode_fheader]; try discriminate; intros [= <-];
    unfold ln; rewrite <- !app_assoc; eexists; reflexivity.
Qed.

Lemma encode_fheader_ok f : f <> FCopied -> exists text, encode_fheader f = Ok text.
Proof. destruct f; cbn [encode_fheader]; eauto. intros H; exfalso; apply H; reflexivity. Qed.

Lemma strip_hunk_prefix_diff_git t : strip_prefix AT_AT_MINUS (s_diff_git ++ t) = None.
Proof. reflexivity. Qed.

Section WholeDiff.
  Variable good_header : fheader -> Prop.
  Variable git_header : bytes -> option (fheader * bytes).
  Variable git_hunk : bytes -> option ((bytes * list modif) * bytes).

  (* what may follow a file header / a hunk in an encoded diff *)
  Definition follows_ok (rest : bytes) : Prop :=
    rest = [] \/ (exists t, rest = AT_AT_MINUS ++ t) \/ (exists t, rest = s_diff_git ++ t).

  Hypothesis good_header_not_copied : forall f, good_header f -> f <> FCopied.
  Hypothesis git_header_spec : forall f text rest,
    good_header f -> encode_fheader f = Ok text -> follows_ok rest ->
    git_header (text ++ rest) = Some (f, rest).
  Hypothesis git_hunk_spec : forall input h rest,
    decode_hunk input = Ok (h, rest) -> git_hunk input = Some ((hline h, hlines h), rest).

  (* the structure of the whole-diff parser: per file a header, then hunks for
     as long as the next line starts one *)
  Fixpoint git_hunks (fuel : nat) (input : bytes) : option (list (bytes * list modif) * bytes) :=
    match strip_prefix AT_AT_MINUS input with
    | None => Some ([], input)
    | Some _ =>
        match fuel with
        | O => None
        | S f =>
            match git_hunk input with
            | None => None
            | Some (h, rest) =>
                match git_hunks f rest with
                | None => None
                | Some (hs, r) => Some (h :: hs, r)
                end
            end
        end
    end.

  Fixpoint git_files (fuel : nat) (input : bytes)
    : option (list (fheader * list (bytes * list modif))) :=
    match input with
    | [] => Some []
    | _ :: _ =>
        match fuel with
        | O => None
        | S f =>
            match git_header input with
            | None => None
            | Some (fh, rest) =>
                match git_hunks (length rest) rest with
                | None => None
                | Some (hs, rest') =>
                    match git_files f rest' with
                    | None => None
                    | Some fs => Some ((fh, hs) :: fs)
                    end
                end
            end
        end
    end.

  Definition git_decode (input : bytes) := git_files (length input) input.

  Definition file_ok (f : fheader * list (hheader * list modif)) : Prop :=
    good_header (fst f) /\ Forall (fun p => hunk_wf (fst p) (snd p)) (snd f).

  Definition hunks_text (ps : list (hheader * list modif)) : bytes :=
    flat_map (fun p => encode_hunk (mk_hunk p)) ps.

  Lemma encode_hunk_starts p : hunk_wf (fst p) (snd p) ->
    exists t, encode_hunk (mk_hunk p) = AT_AT_MINUS ++ t.
  Proof.
    intros [Hh _ _ _ _ _ _]. destruct Hh as (_ & _ & _ & _ & Ht).
    unfold mk_hunk. rewrite encode_hunk_header by exact Ht.
    unfold encode_header. repeat rewrite <- app_assoc. eauto.
  Qed.

  Lemma git_hunks_encode : forall ps fuel rest,
    (length ps <= fuel)%nat ->
    Forall (fun p => hunk_wf (fst p) (snd p)) ps ->
    strip_prefix AT_AT_MINUS rest = None ->
    git_hunks fuel (hunks_text ps ++ rest) = Some (map hunk_core ps, rest).
  Proof.
    induction ps as [|p ps IH]; intros fuel rest Hf Hwf Hrest.
    - cbn [hunks_text flat_map app map]. destruct fuel; cbn [git_hunks]; rewrite Hrest; reflexivity.
    - inversion Hwf as [|? ? Hp Hps]; subst.
      destruct fuel as [|fuel]; [cbn in Hf; lia|].
      unfold hunks_text. cbn [flat_map]. rewrite <- app_assoc.
      cbn [git_hunks].
      destruct (encode_hunk_starts p Hp) as [t Et].
      rewrite Et at 1. rewrite <- app_assoc, strip_prefix_app.
      unfold mk_hunk at 1.
      rewrite (git_hunk_spec _ _ _ (hunk_roundtrip _ _ _ _ _ Hp)).
      cbn [hline hlines]. fold (hunks_text ps).
      cbn [length] in Hf. rewrite IH by (assumption || lia).
      reflexivity.
  Qed.

  Definition model_file (f : fheader * list (hheader * list modif)) : fheader * content :=
    (fst f, content_of (snd f)).

  Lemma encode_file_text f : file_ok f ->
    exists htext, encode_fheader (fst f) = Ok htext /\
                  encode_file (model_file f) = Ok (htext ++ hunks_text (snd f)).
  Proof.
    intros [Hg _]. destruct (encode_fheader_ok _ (good_header_not_copied _ Hg)) as [ht Eh].
    exists ht. split; [exact Eh|].
    unfold encode_file, model_file. cbn [fst snd]. rewrite Eh. cbn [bind content_of encode_content].
    unfold hunks_text. rewrite flat_map_concat_map, map_map, <- flat_map_concat_map. reflexivity.
  Qed.

  Lemma hunks_text_follows ps rest :
    Forall (fun p => hunk_wf (fst p) (snd p)) ps -> follows_ok rest -> follows_ok (hunks_text ps ++ rest).
  Proof.
    intros Hwf Hr. destruct ps as [|p ps]; [exact Hr|].
    inversion Hwf as [|? ? Hp _]; subst.
    destruct (encode_hunk_starts p Hp) as [t Et].
    right; left. unfold hunks_text. cbn [flat_map]. rewrite Et. repeat rewrite <- app_assoc. eauto.
  Qed.

  Lemma encode_diff_text : forall d,
    Forall file_ok d ->
    exists text, encode_diff (map model_file d) = Ok text /\
      (text = [] \/ exists t, text = s_diff_git ++ t) /\
      forall fuel, (length d <= fuel)%nat ->
        git_files fuel text = Some (map (fun f => (fst f, map hunk_core (snd f))) d).
  Proof.
    induction d as [|f d IH]; intros Hd.
    - exists []. split; [reflexivity|]. split; [left; reflexivity|].
      intros fuel _. destruct fuel; reflexivity.
    - inversion Hd as [|? ? Hf Hd']; subst.
      destruct (IH Hd') as (tl & Etl & Hstart & Hdec).
      destruct (encode_file_text f Hf) as (ht & Eh & Ef).
      exists ((ht ++ hunks_text (snd f)) ++ tl).
      cbn [map encode_diff]. rewrite Ef, Etl. cbn [bind].
      split; [reflexivity|].
      destruct (encode_fheader_starts _ _ Eh) as [t0 Et0].
      split.
      { right. rewrite Et0. repeat rewrite <- app_assoc. eauto. }
      intros fuel Hfuel. destruct fuel as [|fuel]; [cbn in Hfuel; lia|].
      assert (Htl : follows_ok tl).
      { destruct Hstart as [->|[t ->]]; [left; reflexivity | right; right; eauto]. }
      assert (Hstop : strip_prefix AT_AT_MINUS tl = None).
      { destruct Hstart as [->|[t ->]]; reflexivity. }
      rewrite <- app_assoc.
      destruct Hf as [Hg Hwf].
      assert (Hnonempty : exists c s, ht ++ hunks_text (snd f) ++ tl = c :: s).
      { rewrite Et0. cbn. eauto. }
      destruct Hnonempty as (c & s & Ecs).
      cbn [git_files]. rewrite Ecs, <- Ecs.
      rewrite (git_header_spec _ _ _ Hg Eh) by (apply hunks_text_follows; assumption).
      rewrite git_hunks_encode; [| | exact Hwf | exact Hstop].
      2:{ rewrite app_length. unfold hunks_text.
          pose proof (flat_map_hunks_length (snd f)). lia. }
      cbn [length] in Hfuel. rewrite Hdec by lia. reflexivity.
  Qed.

  Theorem diff_roundtrip_partial : forall d,
    Forall file_ok d ->
    exists text, encode_diff (map model_file d) = Ok text /\
      git_decode text = Some (map (fun f => (fst f, map hunk_core (snd f))) d).
  Proof.
    intros d Hd. destruct (encode_diff_text d Hd) as (text & Et & Hs & Hdec).
    exists text. split; [exact Et|]. unfold git_decode. apply Hdec.
    (* every file contributes at least one byte *)
    clear Hdec Hs. revert text Et. induction Hd as [|f d Hf Hd IH]; intros text Et.
    - cbn; lia.
    - cbn [map encode_diff] in Et.
      destruct (encode_file_text f Hf) as (ht & Eh & Ef). rewrite Ef in Et. cbn [bind] in Et.
      destruct (encode_diff (map model_file d)) as [tl| | |] eqn:Etl; cbn [bind] in Et; try discriminate.
      injection Et as <-. specialize (IH _ eq_refl).
      destruct (encode_fheader_starts _ _ Eh) as [t0 ->].
      rewrite !app_length. cbn [length s_diff_git]. lia.
  Qed.
End WholeDiff.

(* The three hypotheses of the Section are jointly satisfiable with a
   non-empty header class: an oracle that recognises one printed header and
   uses the Gallina hunk decoder. (This shows consistency only; that libgit2
   and radicle-surf satisfy them is what the harness checks.) *)
Definition ex_fheader : fheader :=
  FModified [97; 46; 116; 120; 116] [52; 99; 98; 50; 57; 101; 97] [97; 99; 52; 50; 51; 49; 97] 33188 33188.

Definition ex_good (f : fheader) : Prop := f = ex_fheader.
Definition ex_git_header (input : bytes) : option (fheader * bytes) :=
  match encode_fheader ex_fheader with
  | Ok t => match strip_prefix t input with Some rest => Some (ex_fheader, rest) | None => None end
  | _ => None
  end.
Definition ex_git_hunk (input : bytes) : option ((bytes * list modif) * bytes) :=
  match decode_hunk input with
  | Ok (h, rest) => Some ((hline h, hlines h), rest)
  | _ => None
  end.

Lemma ex_oracle_ok :
  (forall f, ex_good f -> f <> FCopied) /\
  (forall f text rest, ex_good f -> encode_fheader f = Ok text -> follows_ok rest ->
     ex_git_header (text ++ rest) = Some (f, rest)) /\
  (forall input h rest, decode_hunk input = Ok (h, rest) ->
     ex_git_hunk input = Some ((hline h, hlines h), rest)).
Proof.
  split; [|split].
  - intros f ->. discriminate.
  - intros f text rest -> E _. unfold ex_git_header. rewrite E, strip_prefix_app. reflexivity.
  - intros input h rest E. unfold ex_git_hunk. rewrite E. reflexivity.
Qed.

Lemma ex_diff_roundtrip :
  exists text,
    encode_diff (map model_file [(ex_fheader, [(ex_header, ex_lines)])]) = Ok text /\
    git_decode ex_git_header ex_git_hunk text =
    Some [(ex_fheader, [(encode_header ex_header, ex_lines)])].
Proof.
  destruct ex_oracle_ok as (H1 & H2 & H3).
  apply (diff_roundtrip_partial ex_good ex_git_header ex_git_hunk H1 H2 H3
           [(ex_fheader, [(ex_header, ex_lines)])]).
  constructor; [|constructor]. split; [reflexivity|].
  constructor; [exact ex_hunk_wf | constructor].
Qed.

(* ------------------------------------------------------------------ *)
(* the repair changes nothing for lines without trailing whitespace      *)

Lemma trim_end_snoc_nl c : trim_end (c ++ [10]) = trim_end c.
Proof.
  unfold trim_end. rewrite rev_app_distr. cbn [rev app drop_ws].
  change (ascii_ws 10) with true. reflexivity.
Qed.

Theorem fix_preserves_lines m c :
  modif_line m = c ++ [10] -> trim_end c = c -> encode_modif_orig m = encode_modif m.
Proof.
  intros E Hc. rewrite (encode_modif_line _ _ E).
  unfold encode_modif_orig. rewrite E, trim_end_snoc_nl, Hc. reflexivity.
Qed.

Theorem fix_preserves_hunks h body :
  hline h = body ++ [10] -> trim_end body = body -> ~ In 10 body ->
  Forall (fun m => exists c, modif_line m = c ++ [10] /\ trim_end c = c) (hlines h) ->
  encode_hunk_orig h = encode_hunk h.
Proof.
  intros E Hb Hn HF. unfold encode_hunk_orig, encode_hunk.
  rewrite E, trim_end_snoc_nl, Hb, trim_end_nl_snoc by exact Hn.
  f_equal. f_equal.
  induction HF as [|m l (c & Ec & Hc) _ IH]; cbn [flat_map]; [reflexivity|].
  rewrite (fix_preserves_lines _ _ Ec Hc), IH. reflexivity.
Qed.
