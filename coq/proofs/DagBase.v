(* DagBase.v — foundations for the proofs about model/Dag.v:
   membership lemmas for the sorted-list sets and maps of lib/SMap.v, the
   representation invariant [dag_repr], well-formedness [dag_wf], the edge
   relation and reachability. *)
From HW Require Import lib.Base lib.SMap model.Dag.
From Coq Require Import Sorted Permutation Relations.

(* ------------------------------------------------------------------ *)
(** * Sets (sset) and maps (smap) by membership *)

Lemma sorted_insert {V} k (v : V) m : sorted m -> sorted (insert k v m).
Proof. apply sorted_upsert. Qed.

Lemma lookup_insert {V} k (v : V) m k0 : sorted m ->
  lookup k0 (insert k v m) = if N.eqb k0 k then Some v else lookup k0 m.
Proof.
  intros H. unfold insert. rewrite lookup_upsert by exact H.
  destruct (N.eqb k0 k); [|reflexivity]. destruct (lookup k m); reflexivity.
Qed.

Lemma sset_lookup_tt k (s : sset) : lookup k s = if sset_mem k s then Some tt else None.
Proof. unfold sset_mem, mem. destruct (lookup k s) as [[]|]; reflexivity. Qed.

Lemma sorted_sset_add k s : sorted s -> sorted (sset_add k s).
Proof. apply sorted_insert. Qed.

Lemma sset_mem_add k x s : sorted s ->
  sset_mem k (sset_add x s) = N.eqb k x || sset_mem k s.
Proof.
  intros H. unfold sset_mem, mem, sset_add. rewrite lookup_insert by exact H.
  destruct (N.eqb k x); reflexivity.
Qed.

Lemma sorted_sset_remove k s : sorted s -> sorted (sset_remove k s).
Proof. apply sorted_remove. Qed.

Lemma sset_mem_remove k x s : sorted s ->
  sset_mem k (sset_remove x s) = negb (N.eqb k x) && sset_mem k s.
Proof.
  intros H. unfold sset_mem, mem, sset_remove. rewrite lookup_remove by exact H.
  destruct (N.eqb k x); reflexivity.
Qed.

Lemma sset_mem_nil k : sset_mem k [] = false.
Proof. reflexivity. Qed.

Lemma sset_mem_elems k (s : sset) : sset_mem k s = true <-> In k (sset_elems s).
Proof.
  unfold sset_mem, mem, sset_elems. rewrite <- lookup_in_keys.
  destruct (lookup k s); split; congruence.
Qed.

Lemma mem_keys {V} k (m : smap V) : mem k m = true <-> In k (keys m).
Proof.
  unfold mem. rewrite <- lookup_in_keys. destruct (lookup k m); split; congruence.
Qed.

Lemma sset_ext (a b : sset) : sorted a -> sorted b ->
  (forall k, sset_mem k a = sset_mem k b) -> a = b.
Proof.
  intros Ha Hb H. apply smap_ext; try assumption.
  intros k. rewrite !sset_lookup_tt, H. reflexivity.
Qed.

Lemma sset_is_empty_spec (s : sset) : sset_is_empty s = true <-> s = [].
Proof. destruct s; simpl; split; congruence. Qed.

Lemma sset_empty_mem (s : sset) : s = [] <-> (forall k, sset_mem k s = false).
Proof.
  split; [intros -> k; reflexivity|].
  destruct s as [|[k []] s]; [reflexivity|]. intros H. specialize (H k).
  unfold sset_mem, mem in H. simpl in H. rewrite N.eqb_refl in H. discriminate.
Qed.

Lemma sorted_sset_extend l s : sorted s -> sorted (sset_extend l s).
Proof.
  unfold sset_extend. revert s. induction l as [|x l IH]; simpl; intros s H; [exact H|].
  apply IH. apply sorted_sset_add. exact H.
Qed.

Lemma sset_mem_extend l : forall s k, sorted s ->
  sset_mem k (sset_extend l s) = true <-> In k l \/ sset_mem k s = true.
Proof.
  unfold sset_extend. induction l as [|x l IH]; simpl; intros s k H.
  - tauto.
  - rewrite IH by (apply sorted_sset_add; exact H). rewrite sset_mem_add by exact H.
    rewrite orb_true_iff, N.eqb_eq. intuition congruence.
Qed.

Lemma StronglySorted_lt_NoDup (l : list N) : StronglySorted N.lt l -> NoDup l.
Proof.
  induction 1 as [|x l Hs IH Hall]; constructor; [|exact IH].
  intros Hin. rewrite Forall_forall in Hall. specialize (Hall _ Hin). lia.
Qed.

Lemma sorted_keys_NoDup {V} (m : smap V) : sorted m -> NoDup (keys m).
Proof. apply StronglySorted_lt_NoDup. Qed.

Lemma sset_elems_NoDup (s : sset) : sorted s -> NoDup (sset_elems s).
Proof. apply sorted_keys_NoDup. Qed.

Lemma lookup_Some_keys {V} k (v : V) m : lookup k m = Some v -> In k (keys m).
Proof. intros H. apply lookup_in_keys. congruence. Qed.

Lemma keys_lookup_Some {V} k (m : smap V) : In k (keys m) -> exists v, lookup k m = Some v.
Proof. intros H. apply lookup_in_keys in H. destruct (lookup k m) as [v|]; [eauto|congruence]. Qed.

Lemma In_sorted_lookup {V} (m : smap V) k v : sorted m -> In (k, v) m -> lookup k m = Some v.
Proof. apply In_lookup. Qed.

Lemma length_remove_present {V} k (m : smap V) v :
  lookup k m = Some v -> S (length (SMap.remove k m)) = length m.
Proof.
  induction m as [|[k' v'] m IH]; simpl; [discriminate|].
  destruct (N.eqb k k'); [reflexivity|]. intros H. simpl. rewrite IH by exact H. reflexivity.
Qed.

Lemma length_insert_present {V} k (v v0 : V) m : sorted m ->
  lookup k m = Some v0 -> length (insert k v m) = length m.
Proof.
  unfold insert. induction m as [|[k' v'] m IH]; simpl; intros Hs H; [discriminate|].
  apply sorted_cons_inv in Hs. destruct Hs as [Hs Hall].
  destruct (N.compare_spec k k') as [E|L|G]; simpl.
  - reflexivity.
  - destruct (N.eqb_spec k k'); [lia|].
    rewrite (lookup_none_le k k' m) in H by (try lia; assumption). discriminate.
  - destruct (N.eqb_spec k k'); [lia|]. rewrite IH by assumption. reflexivity.
Qed.

(* ------------------------------------------------------------------ *)
(** * The stable sort is a permutation *)

Lemma sort_insert_perm {A} (cmp : A -> A -> comparison) x l :
  Permutation (sort_insert cmp x l) (x :: l).
Proof.
  induction l as [|y l IH]; simpl; [reflexivity|].
  destruct (cmp x y); try reflexivity.
  rewrite IH. apply perm_swap.
Qed.

Lemma sort_by_perm {A} (cmp : A -> A -> comparison) l : Permutation (sort_by cmp l) l.
Proof.
  unfold sort_by. induction l as [|x l IH]; simpl; [reflexivity|].
  rewrite sort_insert_perm. constructor. exact IH.
Qed.

Lemma sort_by_In {A} (cmp : A -> A -> comparison) l x : In x (sort_by cmp l) <-> In x l.
Proof.
  split; apply Permutation_in; [|symmetry]; apply sort_by_perm.
Qed.

(** For a total preorder (the contract of Rust's `sort_by`) the model's sort
    returns the sorted, *stable* arrangement — the one a stable sort must
    return, whatever its algorithm. *)
Definition total_preorder {A} (cmp : A -> A -> comparison) : Prop :=
  (forall a b, cmp a b = CompOpp (cmp b a)) /\
  (forall a b c, cmp a b <> Gt -> cmp b c <> Gt -> cmp a c <> Gt).

Lemma sort_insert_sorted {A} (cmp : A -> A -> comparison) x l : total_preorder cmp ->
  StronglySorted (fun a b => cmp a b <> Gt) l ->
  StronglySorted (fun a b => cmp a b <> Gt) (sort_insert cmp x l).
Proof.
  intros [Hopp Htr]. induction 1 as [|y l Hs IH Hall]; simpl.
  - constructor; constructor.
  - destruct (cmp x y) eqn:E.
    + constructor; [constructor; assumption|]. constructor; [congruence|].
      eapply Forall_impl; [|exact Hall]. intros z Hz. apply (Htr x y z); congruence.
    + constructor; [constructor; assumption|]. constructor; [congruence|].
      eapply Forall_impl; [|exact Hall]. intros z Hz. apply (Htr x y z); congruence.
    + constructor; [exact IH|].
      assert (Hyx : cmp y x <> Gt) by (rewrite Hopp, E; discriminate).
      eapply Permutation_Forall; [symmetry; apply sort_insert_perm|]. constructor; assumption.
Qed.

Lemma sort_by_sorted {A} (cmp : A -> A -> comparison) l : total_preorder cmp ->
  StronglySorted (fun a b => cmp a b <> Gt) (sort_by cmp l).
Proof.
  intros H. unfold sort_by. induction l as [|x l IH]; simpl; [constructor|].
  apply sort_insert_sorted; assumption.
Qed.

Lemma sort_by_stable {A} (cmp : A -> A -> comparison) l a : total_preorder cmp ->
  filter (fun b => match cmp a b with Eq => true | _ => false end) (sort_by cmp l) =
  filter (fun b => match cmp a b with Eq => true | _ => false end) l.
Proof.
  intros [Hopp Htr]. set (p := fun b => match cmp a b with Eq => true | _ => false end).
  assert (Hins : forall x m, filter p (sort_insert cmp x m) = filter p (x :: m)).
  { intros x m. induction m as [|y m IH]; [reflexivity|]. cbn [sort_insert].
    destruct (cmp x y) eqn:E; try reflexivity.
    cbn [filter]. rewrite IH. cbn [filter].
    destruct (p x) eqn:Ex; [|reflexivity]. destruct (p y) eqn:Ey; [|reflexivity]. exfalso.
    unfold p in Ex, Ey. destruct (cmp a x) eqn:Eax; try discriminate. destruct (cmp a y) eqn:Eay; try discriminate.
    apply (Htr x a y); [rewrite Hopp, Eax; discriminate | rewrite Eay; discriminate | exact E]. }
  unfold sort_by. induction l as [|x l IH]; [reflexivity|]. cbn [fold_right].
  rewrite Hins. cbn [filter]. rewrite IH. reflexivity.
Qed.

(* ------------------------------------------------------------------ *)
(** * Graphs *)

Section Graph.
Context {V : Type}.
Implicit Types (g : dag V) (nd : node V).

(** Representation invariant: every BTreeMap/BTreeSet image is sorted.  Holds
    for every graph the API can build, well-formed or not. *)
Record dag_repr g : Prop := {
  repr_graph : sorted (graph g);
  repr_tips : sorted (tips g);
  repr_roots : sorted (roots g);
  repr_nodes : forall k nd, lookup k (graph g) = Some nd -> sorted (ndeps nd) /\ sorted (ndpts nd);
}.

(** [edge g k d]: node [k] is in the graph and lists [d] among its dependents
    (d depends on k). *)
Definition edge g (k d : N) : Prop :=
  exists nd, lookup k (graph g) = Some nd /\ sset_mem d (ndpts nd) = true.
(** [depends g a b]: node [a] is in the graph and lists [b] as a dependency. *)
Definition depends g (a b : N) : Prop :=
  exists nd, lookup a (graph g) = Some nd /\ sset_mem b (ndeps nd) = true.
Definition in_graph g (k : N) : Prop := lookup k (graph g) <> None.

(** reflexive-transitive / transitive closure along dependents *)
Definition reach g : N -> N -> Prop := clos_refl_trans_1n N (edge g).
Definition desc g : N -> N -> Prop := clos_trans_1n N (edge g).

(** Everything about well-formedness except acyclicity:
    - dependents mirror dependencies: d ∈ dependents(k) iff d is a node that
      lists k as a dependency (a *dependency* may point to a missing node —
      `ChangeGraph::load` produces such graphs — a dependent may not);
    - tips / roots are exactly the nodes without dependents / dependencies. *)
Definition edges_sym g : Prop := forall k d, edge g k d <-> (in_graph g k /\ depends g d k).
Definition tips_ok g : Prop :=
  forall k, sset_mem k (tips g) = true <-> exists nd, lookup k (graph g) = Some nd /\ ndpts nd = [].
Definition roots_ok g : Prop :=
  forall k, sset_mem k (roots g) = true <-> exists nd, lookup k (graph g) = Some nd /\ ndeps nd = [].
Record dag_shape g : Prop := {
  shape_repr : dag_repr g;
  shape_dpts : edges_sym g;
  shape_tips : tips_ok g;
  shape_roots : roots_ok g;
}.

(** acyclicity by a rank function that strictly grows along dependents *)
Definition dag_ranked (r : N -> N) g : Prop := forall k d, edge g k d -> (r k < r d)%N.
Definition dag_acyclic g : Prop := exists r, dag_ranked r g.

Record dag_wf g : Prop := { wf_shape : dag_shape g; wf_acyclic : dag_acyclic g }.

(** no dependency points outside the graph *)
Definition dag_closed g : Prop := forall a b, depends g a b -> in_graph g b.

Lemma in_graph_keys g k : in_graph g k <-> In k (keys (graph g)).
Proof. unfold in_graph. apply lookup_in_keys. Qed.

Lemma in_graph_lookup g k : in_graph g k <-> exists nd, lookup k (graph g) = Some nd.
Proof.
  unfold in_graph. destruct (lookup k (graph g)) as [nd|]; split; try congruence; eauto.
  intros [nd H]. discriminate.
Qed.

Lemma edge_source g k d : edge g k d -> in_graph g k.
Proof. intros [nd [H _]]. unfold in_graph. congruence. Qed.

Lemma edge_target g k d : dag_shape g -> edge g k d -> in_graph g d.
Proof.
  intros Hs He. apply (shape_dpts g Hs) in He. destruct He as [_ [nd [H _]]].
  unfold in_graph. congruence.
Qed.

Lemma edge_depends g k d : dag_shape g -> edge g k d -> depends g d k.
Proof. intros Hs He. apply (shape_dpts g Hs) in He. tauto. Qed.

Lemma depends_edge g a b : dag_shape g -> depends g a b -> in_graph g b -> edge g b a.
Proof. intros Hs Hd Hb. apply (shape_dpts g Hs). tauto. Qed.

Lemma reach_in_graph g k x : dag_shape g -> in_graph g k -> reach g k x -> in_graph g x.
Proof.
  intros Hs Hk Hr. induction Hr as [|k d x He _ IH]; [exact Hk|].
  apply IH. eapply edge_target; eassumption.
Qed.

Lemma desc_in_graph g k x : dag_shape g -> desc g k x -> in_graph g k /\ in_graph g x.
Proof.
  intros Hs Hd. induction Hd as [k d He|k d x He _ IH].
  - split; [eapply edge_source | eapply edge_target]; eassumption.
  - split; [eapply edge_source; eassumption | tauto].
Qed.

Lemma desc_reach g k x : desc g k x <-> exists d, edge g k d /\ reach g d x.
Proof.
  split.
  - induction 1 as [k d He|k d x He _ IH].
    + exists d. split; [exact He | constructor].
    + destruct IH as [d' [He' Hr]]. exists d. split; [exact He|].
      econstructor; eassumption.
  - intros [d [He Hr]]. revert k He. induction Hr as [d|d e x He' _ IH]; intros k He.
    + constructor. exact He.
    + eapply Relation_Operators.t1n_trans; [exact He|]. apply IH. exact He'.
Qed.

Lemma reach_desc g k x : reach g k x <-> k = x \/ desc g k x.
Proof.
  split.
  - intros H. destruct H as [|d x He Hr]; [left; reflexivity|].
    right. apply desc_reach. eauto.
  - intros [->|H]; [constructor|]. apply desc_reach in H. destruct H as [d [He Hr]].
    econstructor; eassumption.
Qed.

Lemma reach_trans g a b c : reach g a b -> reach g b c -> reach g a c.
Proof.
  intros H1 H2. induction H1 as [|a d b He _ IH]; [exact H2|].
  econstructor; [exact He | apply IH; exact H2].
Qed.

Lemma reach_step_r g a b c : reach g a b -> edge g b c -> reach g a c.
Proof. intros H1 H2. eapply reach_trans; [exact H1|]. econstructor; [exact H2 | constructor]. Qed.

Lemma desc_trans g a b c : desc g a b -> desc g b c -> desc g a c.
Proof.
  intros H1 H2. induction H1 as [a d He|a d b He _ IH].
  - eapply Relation_Operators.t1n_trans; eassumption.
  - eapply Relation_Operators.t1n_trans; [exact He | apply IH; exact H2].
Qed.

Lemma reach_desc_trans g a b c : reach g a b -> desc g b c -> desc g a c.
Proof.
  intros H1 H2. apply reach_desc in H1. destruct H1 as [->|H1]; [exact H2|].
  eapply desc_trans; eassumption.
Qed.

Lemma ranked_reach r g k x : dag_ranked r g -> reach g k x -> (r k <= r x)%N.
Proof.
  intros Hr H. induction H as [|k d x He _ IH]; [lia|]. specialize (Hr _ _ He). lia.
Qed.

Lemma ranked_desc r g k x : dag_ranked r g -> desc g k x -> (r k < r x)%N.
Proof.
  intros Hr H. apply desc_reach in H. destruct H as [d [He Hd]].
  pose proof (Hr _ _ He). pose proof (ranked_reach r g d x Hr Hd). lia.
Qed.

Lemma acyclic_desc_irrefl g k : dag_acyclic g -> ~ desc g k k.
Proof. intros [r Hr] H. pose proof (ranked_desc r g k k Hr H). lia. Qed.

End Graph.
