(* TermProofs.v — proofs about coq/model/Term.v (C26). *)
From HW Require Import lib.Base model.Term.
Local Open Scope N_scope.

(* ---------- bytes ---------- *)

Lemma utf8_len_pos c : 1 <= utf8_len c.
Proof. unfold utf8_len. repeat (destruct (_ <? _)); lia. Qed.

Lemma blen_app a b : blen (a ++ b) = blen a + blen b.
Proof. induction a as [|c a IH]; cbn [blen app]; [lia | rewrite IH; lia]. Qed.

Lemma byte_split_0 s : byte_split s 0 = Some ([], s).
Proof. destruct s; reflexivity. Qed.

Lemma byte_split_app a b : byte_split (a ++ b) (blen a) = Some (a, b).
Proof.
  induction a as [|c a IH]; cbn [blen app].
  - apply byte_split_0.
  - pose proof (utf8_len_pos c) as Hc.
    cbn [byte_split].
    destruct (N.eqb_spec (utf8_len c + blen a) 0) as [E|_]; [lia|].
    destruct (N.ltb_spec (utf8_len c + blen a) (utf8_len c)) as [E|_]; [lia|].
    replace (utf8_len c + blen a - utf8_len c) with (blen a) by lia.
    rewrite IH. reflexivity.
Qed.

(* a successful slice splits the string (so a slice never invents text) *)
Lemma byte_split_sound s : forall b p r, byte_split s b = Some (p, r) -> s = p ++ r /\ blen p = b.
Proof.
  induction s as [|c s IH]; intros b p r H; cbn [byte_split] in H.
  - destruct (N.eqb_spec b 0) as [->|_]; [|discriminate]. inversion H. split; reflexivity.
  - destruct (N.eqb_spec b 0) as [->|Hb]; [inversion H; split; reflexivity|].
    destruct (N.ltb_spec b (utf8_len c)) as [_|Hle]; [discriminate|].
    destruct (byte_split s (b - utf8_len c)) as [[p' r']|] eqn:E; [|discriminate].
    inversion H; subst. destruct (IH _ _ _ E) as [-> Hl]. split; [reflexivity|].
    cbn [blen]. lia.
Qed.

(* ---------- sums ---------- *)

Lemma sumN_app a b : sumN (a ++ b) = sumN a + sumN b.
Proof. unfold sumN. induction a as [|x a IH]; cbn [app fold_right]; [lia | rewrite IH; lia]. Qed.

Lemma sumN_rev a : sumN (rev a) = sumN a.
Proof.
  induction a as [|x a IH]; [reflexivity|].
  cbn [rev]. rewrite sumN_app, IH. unfold sumN. cbn [fold_right]. lia.
Qed.

Lemma sumN_cons x a : sumN (x :: a) = x + sumN a.
Proof. reflexivity. Qed.

(* ---------- whitespace ---------- *)

Section Trim.
  Variable ws : N -> bool.

  Lemma trim_start_all s : forallb ws s = true -> trim_start ws s = [].
  Proof.
    induction s as [|c s IH]; cbn [forallb trim_start]; [reflexivity|].
    intros H. apply andb_true_iff in H as [-> H]. auto.
  Qed.

  Lemma trim_start_nil_all s : trim_start ws s = [] -> forallb ws s = true.
  Proof.
    induction s as [|c s IH]; cbn [forallb trim_start]; [reflexivity|].
    destruct (ws c); [intros H; rewrite IH by exact H; reflexivity | discriminate].
  Qed.

  (* `s.trim().is_empty()` says exactly that every char of s is whitespace *)
  Lemma trim_empty_iff s : is_empty (trim ws s) = forallb ws s.
  Proof.
    unfold trim, trim_end.
    destruct (forallb ws s) eqn:E.
    - rewrite (trim_start_all _ E). reflexivity.
    - destruct (trim_start ws s) as [|c t] eqn:T.
      + apply trim_start_nil_all in T. congruence.
      + (* the first char of the remainder is not whitespace, so the reversed
           remainder does not trim to nothing *)
        assert (Hc : ws c = false).
        { clear E. induction s as [|x s IH]; cbn [trim_start] in T; [discriminate|].
          destruct (ws x) eqn:Wx; [auto | inversion T; subst; exact Wx]. }
        destruct (rev (trim_start ws (rev (c :: t)))) as [|y u] eqn:R; [|reflexivity].
        exfalso.
        assert (R' : trim_start ws (rev (c :: t)) = []).
        { rewrite <- (rev_involutive (trim_start ws (rev (c :: t)))), R. reflexivity. }
        apply trim_start_nil_all in R'.
        rewrite forallb_forall in R'.
        specialize (R' c). rewrite <- in_rev in R'.
        rewrite R' in Hc by (left; reflexivity). discriminate.
  Qed.
End Trim.

(* ---------- the hypotheses on the Unicode tables ---------- *)

(* What the theorems need from grapheme segmentation and the width table:
   the clusters partition the string, none is empty, and display width is
   sub-additive under concatenation (clusters may merge across the seam, and a
   merged cluster is never wider than its parts together). *)
Definition UnicodeOK (seg : str -> list str) (dw : N -> bool) : Prop :=
  (forall s, concat (seg s) = s) /\
  (forall s g, In g (seg s) -> g <> []) /\
  (forall a b, cwidth seg dw (a ++ b) <= cwidth seg dw a + cwidth seg dw b).

Section Proofs.
  Variable seg : str -> list str.
  Variable dw : N -> bool.
  Variable ws : N -> bool.
  Hypothesis HU : UnicodeOK seg dw.

  Notation cw := (cwidth seg dw).
  Notation lw := (line_width seg dw).

  Lemma seg_concat s : concat (seg s) = s.
  Proof. destruct HU as [H _]. apply H. Qed.

  Lemma cw_sub a b : cw (a ++ b) <= cw a + cw b.
  Proof. destruct HU as [_ [_ H]]. apply H. Qed.

  Lemma seg_nil : seg [] = [].
  Proof.
    destruct HU as [Hc [Hn _]].
    destruct (seg []) as [|g gs] eqn:E; [reflexivity|].
    exfalso. specialize (Hc []). rewrite E in Hc. cbn [concat] in Hc.
    apply app_eq_nil in Hc as [Hg _].
    apply (Hn [] g); [rewrite E; left; reflexivity | exact Hg].
  Qed.

  Lemma cw_nil : cw [] = 0.
  Proof. unfold cwidth. rewrite seg_nil. reflexivity. Qed.

  Lemma cw_concat_le gs : cw (concat gs) <= sumN (map cw gs).
  Proof.
    induction gs as [|g gs IH]; cbn [concat map].
    - rewrite cw_nil. unfold sumN; cbn; lia.
    - rewrite sumN_cons. pose proof (cw_sub g (concat gs)). lia.
  Qed.

  (* ----- the scan loop ----- *)
  Lemma scan_spec w d : forall gs b c,
    c + d <= w ->
    exists pre post,
      gs = pre ++ post /\
      scan seg dw gs w d b c = (b + blen (concat pre), c + sumN (map cw pre)) /\
      c + sumN (map cw pre) + d <= w.
  Proof.
    induction gs as [|g gs IH]; intros b c Hc.
    - exists [], []. cbn. repeat split; try f_equal; lia.
    - cbn [scan].
      destruct (N.ltb_spec w (c + cw g + d)) as [Hlt|Hge].
      + exists [], (g :: gs). cbn. repeat split; try f_equal; lia.
      + destruct (IH (b + blen g) (c + cw g)) as (pre & post & -> & Hs & Hb); [lia|].
        exists (g :: pre), post. cbn [app concat map]. rewrite sumN_cons, blen_app.
        split; [reflexivity|]. split; [rewrite Hs; f_equal; lia | lia].
  Qed.

  (* ----- truncate: never panics, output within the width ----- *)
  Theorem truncate_safe s w dl :
    exists out, truncate seg dw ws s w dl = Ok out /\ cw out <= w.
  Proof.
    unfold truncate.
    destruct (N.ltb_spec w (cw s)) as [Hlong|Hfit]; [|exists s; split; [reflexivity|lia]].
    destruct (N.ltb_spec w (cw dl)) as [Hd|Hd].
    { exists []. split; [reflexivity|]. rewrite cw_nil. lia. }
    destruct (scan_spec w (cw dl) (seg s) 0 0) as (pre & post & Hsplit & Hscan & Hb); [lia|].
    rewrite Hscan. cbn [N.add].
    assert (Hs : s = concat pre ++ concat post).
    { transitivity (concat (seg s)); [symmetry; apply seg_concat | rewrite Hsplit; apply concat_app]. }
    replace (0 + blen (concat pre)) with (blen (concat pre)) by lia.
    replace (0 + sumN (map cw pre)) with (sumN (map cw pre)) in * by lia.
    pose proof (byte_split_app (concat pre) (concat post)) as Eb. rewrite <- Hs in Eb. rewrite Eb.
    pose proof (cw_concat_le pre) as Hpre.
    destruct (is_empty (trim ws (concat post))).
    - destruct (seg (concat post)) as [|g gs'] eqn:Eseg.
      + exists (concat pre). split; [reflexivity|lia].
      + destruct (N.leb_spec (sumN (map cw pre) + cw g) w) as [Hg|Hg].
        * assert (Hr : concat post = g ++ concat gs').
          { rewrite <- (seg_concat (concat post)), Eseg. reflexivity. }
          assert (Hs2 : s = (concat pre ++ g) ++ concat gs').
          { rewrite Hs, Hr, app_assoc. reflexivity. }
          pose proof (byte_split_app (concat pre ++ g) (concat gs')) as Eb2.
          rewrite <- Hs2, blen_app in Eb2. rewrite Eb2.
          exists (concat pre ++ g). split; [reflexivity|].
          pose proof (cw_sub (concat pre) g). lia.
        * exists (concat pre). split; [reflexivity|lia].
    - exists (concat pre ++ dl). split; [reflexivity|].
      pose proof (cw_sub (concat pre) dl). lia.
  Qed.

  Corollary truncate_no_panic s w dl p : truncate seg dw ws s w dl <> Panic p.
  Proof. destruct (truncate_safe s w dl) as (o & -> & _). discriminate. Qed.

  Lemma truncate_fits s w dl : cw s <= w -> truncate seg dw ws s w dl = Ok s.
  Proof.
    intros H. unfold truncate. destruct (N.ltb_spec w (cw s)); [lia|reflexivity].
  Qed.

  (* shape of the output: the text itself, nothing, or a whole number of its
     grapheme clusters, followed by the delimiter exactly when something other
     than whitespace was cut off *)
  Theorem truncate_shape s w dl out :
    truncate seg dw ws s w dl = Ok out ->
    out = s \/ out = [] \/
    exists k, let pre := concat (firstn k (seg s)) in
              let rest := concat (skipn k (seg s)) in
              (forallb ws rest = false /\ out = pre ++ dl) \/
              (forallb ws rest = true /\ exists r', s = out ++ r' /\ forallb ws r' = true
                                               /\ exists e, out = pre ++ e).
  Proof.
    unfold truncate.
    destruct (N.ltb_spec w (cw s)) as [Hlong|Hfit]; [|intros H; inversion H; auto].
    destruct (N.ltb_spec w (cw dl)) as [Hd|Hd]; [intros H; inversion H; auto|].
    destruct (scan_spec w (cw dl) (seg s) 0 0) as (pre & post & Hsplit & Hscan & Hb); [lia|].
    rewrite Hscan.
    assert (Hs : s = concat pre ++ concat post).
    { transitivity (concat (seg s)); [symmetry; apply seg_concat | rewrite Hsplit; apply concat_app]. }
    replace (0 + blen (concat pre)) with (blen (concat pre)) by lia.
    pose proof (byte_split_app (concat pre) (concat post)) as Eb. rewrite <- Hs in Eb. rewrite Eb.
    assert (Hk1 : firstn (length pre) (seg s) = pre).
    { rewrite Hsplit, firstn_app, Nat.sub_diag, firstn_all. cbn. apply app_nil_r. }
    assert (Hk2 : skipn (length pre) (seg s) = post).
    { rewrite Hsplit, skipn_app, Nat.sub_diag, skipn_all. reflexivity. }
    rewrite trim_empty_iff.
    destruct (forallb ws (concat post)) eqn:Ews.
    - intros H. right. right. exists (length pre). cbn zeta. rewrite Hk1, Hk2. right.
      split; [exact Ews|].
      destruct (seg (concat post)) as [|g gs'] eqn:Eseg.
      + injection H as <-. exists (concat post). repeat split; auto.
        exists []. symmetry. apply app_nil_r.
      + destruct (_ <=? w).
        * destruct (byte_split s (blen (concat pre) + blen g)) as [[p r]|] eqn:Eb0; [|discriminate].
          injection H as <-.
          assert (Hr : concat post = g ++ concat gs').
          { rewrite <- (seg_concat (concat post)), Eseg. reflexivity. }
          assert (Hs2 : s = (concat pre ++ g) ++ concat gs').
          { rewrite Hs, Hr, app_assoc. reflexivity. }
          pose proof (byte_split_app (concat pre ++ g) (concat gs')) as Eb2.
          rewrite <- Hs2, blen_app in Eb2. rewrite Eb2 in Eb0.
          injection Eb0 as <- <-.
          exists (concat gs'). split; [exact Hs2|]. split.
          { rewrite Hr, forallb_app in Ews. apply andb_true_iff in Ews. tauto. }
          exists g. reflexivity.
        * injection H as <-. exists (concat post). repeat split; auto.
          exists []. symmetry. apply app_nil_r.
    - intros H. injection H as <-. right. right. exists (length pre). cbn zeta.
      rewrite Hk1, Hk2. left. split; [exact Ews | reflexivity].
  Qed.

  (* ----- Line::truncate ----- *)

  Lemma lw_cons it st : lw (it :: st) = cw it + lw st.
  Proof. reflexivity. Qed.

  (* with more fuel than items the loop returns, within the width; the result
     is a suffix of the stack (= a prefix of the Vec) whose top item may have
     been replaced by a truncation of itself *)
  Theorem line_truncate_safe w dl : forall st fuel,
    (length st < fuel)%nat ->
    exists out, line_truncate seg dw ws fuel st w dl = LOk out /\ lw out <= w /\
      exists k, out = skipn k st \/
        exists it st' it', skipn k st = it :: st' /\ out = it' :: st' /\
                           truncate seg dw ws it (w - lw st') dl = Ok it'.
  Proof.
    unfold line_truncate.
    induction st as [|it st IH]; intros fuel Hf.
    - destruct fuel as [|f]; [lia|]. cbn [line_truncate_with].
      change (line_width seg dw []) with 0.
      destruct (N.ltb_spec w 0); [lia|].
      exists []. split; [reflexivity|]. split; [cbn; lia|]. exists O. left. reflexivity.
    - destruct fuel as [|f]; [lia|]. cbn [line_truncate_with length] in *.
      rewrite lw_cons.
      destruct (N.ltb_spec w (cw it + lw st)) as [Hlong|Hfit].
      2:{ exists (it :: st). split; [reflexivity|]. split; [rewrite lw_cons; lia|].
          exists O. left. reflexivity. }
      destruct (N.ltb_spec (cw it + lw st) (cw it)) as [Hbad|_]; [lia|].
      replace (cw it + lw st - cw it) with (lw st) by lia.
      destruct (N.ltb_spec w (lw st)) as [Hpop|Hcut].
      + cbn [tl]. destruct (IH f) as (out & Hr & Hw & k & Hk); [lia|].
        exists out. split; [exact Hr|]. split; [exact Hw|]. exists (S k). exact Hk.
      + destruct (truncate_safe it (w - lw st) dl) as (it' & Ht & Hw').
        rewrite Ht.
        destruct f as [|f']; [cbn in Hf; lia|].
        cbn [line_truncate_with]. rewrite lw_cons.
        destruct (N.ltb_spec w (cw it' + lw st)) as [Hbad|_]; [lia|].
        exists (it' :: st). split; [reflexivity|]. split; [rewrite lw_cons; lia|].
        exists O. right. exists it, st, it'. repeat split; auto.
  Qed.

  Corollary line_truncate_terminates st w dl :
    exists out, line_truncate seg dw ws (line_fuel st) st w dl = LOk out /\ lw out <= w.
  Proof.
    destruct (line_truncate_safe w dl st (line_fuel st)) as (out & H1 & H2 & _);
      [unfold line_fuel; lia|].
    exists out. auto.
  Qed.

  (* more fuel does not change a result *)
  Lemma line_truncate_fuel_mono tr w dl : forall fuel st out,
    line_truncate_with seg dw tr fuel st w dl = LOk out ->
    line_truncate_with seg dw tr (S fuel) st w dl = LOk out.
  Proof.
    induction fuel as [|f IH]; intros st out H; [discriminate|].
    cbn [line_truncate_with] in H. remember (S f) as sf. cbn [line_truncate_with].
    destruct (w <? lw st); [|exact H].
    destruct (_ <? _); [discriminate|].
    destruct (w <? _).
    - subst sf. apply IH. exact H.
    - destruct st as [|it st']; [subst sf; apply IH; exact H|].
      destruct (_ <? _); [discriminate|]. destruct (_ <? _); [discriminate|].
      destruct (tr it _ dl); [|discriminate]. subst sf. apply IH. exact H.
  Qed.

  Corollary line_truncate_any_fuel st w dl fuel :
    (length st < fuel)%nat ->
    line_truncate seg dw ws fuel st w dl = line_truncate seg dw ws (line_fuel st) st w dl.
  Proof.
    intros Hf. destruct (line_truncate_terminates st w dl) as (out & H & _).
    rewrite H. unfold line_fuel in H.
    replace fuel with ((fuel - S (length st)) + S (length st))%nat by lia.
    induction (fuel - S (length st))%nat as [|n IHn]; [exact H|].
    cbn [Nat.add]. apply line_truncate_fuel_mono. exact IHn.
  Qed.

  (* what is printed is no wider than what Line::width reports *)
  Lemma line_text_width st : cw (line_text st) <= lw st.
  Proof.
    unfold line_text, line_width.
    pose proof (cw_concat_le (rev st)) as H.
    rewrite map_rev, sumN_rev in H. exact H.
  Qed.
End Proofs.

(* ---------- the hypotheses are satisfiable ---------- *)

(* one scalar value per cluster; U+3000 double-wide; space, NBSP, U+3000 white *)
Definition seg1 (s : str) : list str := map (fun c => [c]) s.
Definition dw1 (c : N) : bool := c =? 12288.
Definition ws1 (c : N) : bool := memN c [32; 160; 12288].

Lemma seg1_concat s : concat (seg1 s) = s.
Proof. induction s as [|c s IH]; [reflexivity|]. cbn. f_equal. exact IH. Qed.

Lemma cwidth_seg1 s : cwidth seg1 dw1 s = sumN (map (fun c => gwidth dw1 [c]) s).
Proof.
  unfold cwidth, seg1. rewrite map_map. f_equal. apply map_ext. intros c.
  unfold uwidth, seg1. cbn. lia.
Qed.

Lemma UnicodeOK_seg1 : UnicodeOK seg1 dw1.
Proof.
  split; [exact seg1_concat|]. split.
  - intros s g Hg. unfold seg1 in Hg. apply in_map_iff in Hg as (c & <- & _). discriminate.
  - intros a b. rewrite !cwidth_seg1, map_app, sumN_app. lia.
Qed.

(* ---------- the code as found violates the property ---------- *)

Lemma truncate_orig_panics :
  truncate_orig seg1 dw1 ws1 [97; 160; 160] 2 [8230] = Panic 2.
Proof. vm_compute. reflexivity. Qed.

Lemma truncate_orig_overruns :
  truncate_orig seg1 dw1 ws1 [97; 32; 32] 1 [] = Ok [97; 32] /\
  cwidth seg1 dw1 [97; 32] = 2.
Proof. vm_compute. split; reflexivity. Qed.

Lemma line_truncate_orig_step fuel :
  line_truncate_orig seg1 dw1 ws1 (S fuel) [[97; 32]] 1 [] =
  line_truncate_orig seg1 dw1 ws1 fuel [[97; 32]] 1 [].
Proof. reflexivity. Qed.

Lemma line_truncate_orig_diverges fuel :
  line_truncate_orig seg1 dw1 ws1 fuel [[97; 32; 32]] 1 [] = LOutOfFuel.
Proof.
  assert (H : forall f, line_truncate_orig seg1 dw1 ws1 f [[97; 32]] 1 [] = LOutOfFuel).
  { induction f as [|f IH]; [reflexivity|]. rewrite line_truncate_orig_step. exact IH. }
  destruct fuel as [|f]; [reflexivity|].
  transitivity (line_truncate_orig seg1 dw1 ws1 f [[97; 32]] 1 []); [reflexivity | apply H].
Qed.

Lemma orig_overrun_lt : 1 < cwidth seg1 dw1 [97; 32].
Proof. rewrite (proj2 truncate_orig_overruns). reflexivity. Qed.

(* ---------- the finite tables of the correspondence cases are sufficient ----------
   [trunc_needs] / [line_needs] list every string whose segmentation the model
   consults; two segmentation functions that agree on them give the same run.
   So a case evaluated with the harness's finite table (and not reported
   [OTableIncomplete]) is the run of the model with the full segmentation
   function the table was taken from. *)
Section Ext.
  Variable sa sb : str -> list str.
  Variable dw ws : N -> bool.

  Lemma cwidth_ext x :
    (forall y, In y (cw_needs sa x) -> sa y = sb y) -> cwidth sa dw x = cwidth sb dw x.
  Proof.
    intros H. unfold cwidth, cw_needs in *.
    rewrite <- (H x) by (left; reflexivity).
    f_equal. apply map_ext_in. intros g Hg. unfold uwidth.
    rewrite <- (H g) by (right; exact Hg). reflexivity.
  Qed.

  Lemma scan_ext w d : forall gs b c,
    (forall y, In y (flat_map (cw_needs sa) gs) -> sa y = sb y) ->
    scan sa dw gs w d b c = scan sb dw gs w d b c.
  Proof.
    induction gs as [|g gs IH]; intros b c H; [reflexivity|].
    cbn [scan flat_map] in *.
    rewrite <- (cwidth_ext g) by (intros y Hy; apply H, in_or_app; left; exact Hy).
    destruct (_ <? _); [reflexivity|].
    apply IH. intros y Hy. apply H, in_or_app. right. exact Hy.
  Qed.

  Lemma truncate_ext s w dl :
    (forall y, In y (trunc_needs sa dw s w dl) -> sa y = sb y) ->
    truncate sa dw ws s w dl = truncate sb dw ws s w dl /\
    trunc_needs sa dw s w dl = trunc_needs sb dw s w dl.
  Proof.
    intros H. unfold truncate, trunc_needs in *.
    assert (Hs : cwidth sa dw s = cwidth sb dw s).
    { apply cwidth_ext. intros y Hy. apply H, in_or_app. left. exact Hy. }
    assert (Hd : cwidth sa dw dl = cwidth sb dw dl).
    { apply cwidth_ext. intros y Hy. apply H, in_or_app. right. apply in_or_app. left. exact Hy. }
    assert (Hseg : sa s = sb s).
    { apply H, in_or_app. left. left. reflexivity. }
    assert (Hsdl : sa dl = sb dl).
    { apply H, in_or_app. right. apply in_or_app. left. left. reflexivity. }
    assert (Hfm : flat_map (cw_needs sa) (sa s) = flat_map (cw_needs sb) (sb s)).
    { rewrite <- Hseg. clear - H. 
      assert (K : forall y, In y (flat_map (cw_needs sa) (sa s)) -> sa y = sb y).
      { intros y Hy. apply H. apply in_or_app. right. apply in_or_app. right.
        apply in_or_app. left. exact Hy. }
      revert K. generalize (sa s) as gs. induction gs as [|g gs IH]; intros K; [reflexivity|].
      cbn [flat_map] in *. f_equal.
      - unfold cw_needs. f_equal. apply K. apply in_or_app. left. left. reflexivity.
      - apply IH. intros y Hy. apply K, in_or_app. right. exact Hy. }
    assert (Hscan : scan sa dw (sa s) w (cwidth sa dw dl) 0 0 = scan sb dw (sb s) w (cwidth sb dw dl) 0 0).
    { rewrite <- Hd, <- Hseg. apply scan_ext. intros y Hy. apply H.
      apply in_or_app. right. apply in_or_app. right. apply in_or_app. left. exact Hy. }
    assert (Htail : forall y,
      In y (let '(boundary, _) := scan sa dw (sa s) w (cwidth sa dw dl) 0 0 in
            match byte_split s boundary with
            | Some (_, rest) => rest :: match sa rest with g :: _ => cw_needs sa g | [] => [] end
            | None => []
            end) -> sa y = sb y).
    { intros y Hy. apply H. apply in_or_app. right. apply in_or_app. right.
      apply in_or_app. right. exact Hy. }
    assert (Hcs : cw_needs sa s = cw_needs sb s) by (unfold cw_needs; rewrite Hseg; reflexivity).
    assert (Hcd : cw_needs sa dl = cw_needs sb dl) by (unfold cw_needs; rewrite Hsdl; reflexivity).
    rewrite <- Hscan, <- Hfm, <- Hcs, <- Hcd, <- Hs, <- Hd.
    destruct (scan sa dw (sa s) w (cwidth sa dw dl) 0 0) as [boundary cols].
    destruct (byte_split s boundary) as [[pre rest]|].
    2:{ split; reflexivity. }
    assert (Hrest : sa rest = sb rest) by (apply Htail; left; reflexivity).
    rewrite <- Hrest.
    destruct (sa rest) as [|g gs'] eqn:Er.
    - split; reflexivity.
    - assert (Hg : cwidth sa dw g = cwidth sb dw g).
      { apply cwidth_ext. intros y Hy. apply Htail. right. exact Hy. }
      assert (Hsg : sa g = sb g) by (apply Htail; right; left; reflexivity).
      assert (Hcg : cw_needs sa g = cw_needs sb g) by (unfold cw_needs; rewrite Hsg; reflexivity).
      rewrite <- Hg, <- Hcg. split; reflexivity.
  Qed.

  Lemma line_width_ext st :
    (forall y, In y (flat_map (cw_needs sa) st) -> sa y = sb y) ->
    line_width sa dw st = line_width sb dw st /\
    flat_map (cw_needs sa) st = flat_map (cw_needs sb) st.
  Proof.
    induction st as [|it st IH]; intros H; [split; reflexivity|].
    unfold line_width in *. cbn [map flat_map] in *.
    destruct IH as [IH1 IH2]; [intros y Hy; apply H, in_or_app; right; exact Hy|].
    rewrite !sumN_cons, IH1, IH2.
    rewrite (cwidth_ext it) by (intros y Hy; apply H, in_or_app; left; exact Hy).
    unfold cw_needs. rewrite (H it) by (left; reflexivity). split; reflexivity.
  Qed.

  Lemma line_truncate_ext w dl : forall fuel st,
    (forall y, In y (line_needs sa dw ws fuel st w dl) -> sa y = sb y) ->
    line_truncate sa dw ws fuel st w dl = line_truncate sb dw ws fuel st w dl.
  Proof.
    unfold line_truncate.
    induction fuel as [|f IH]; intros st H; [reflexivity|].
    cbn [line_needs line_truncate_with] in *.
    destruct (line_width_ext st) as [Hw _];
      [intros y Hy; apply H, in_or_app; left; exact Hy|].
    destruct st as [|it st'].
    - change (line_width sa dw []) with 0. change (line_width sb dw []) with 0.
      destruct (N.ltb_spec w 0) as [Hlt|_]; [lia | reflexivity].
    - cbn [tl] in *. rewrite <- Hw.
      assert (Hci : cwidth sa dw it = cwidth sb dw it).
      { apply cwidth_ext. intros y Hy. apply H, in_or_app. left.
        cbn [flat_map]. apply in_or_app. left. exact Hy. }
      rewrite <- Hci.
      assert (Hneeds : forall y,
        In y (if w <? line_width sa dw (it :: st') then
                if w <? line_width sa dw (it :: st') - cwidth sa dw it
                then line_needs sa dw ws f st' w dl
                else trunc_needs sa dw it (w - (line_width sa dw (it :: st') - cwidth sa dw it)) dl ++
                     match truncate sa dw ws it (w - (line_width sa dw (it :: st') - cwidth sa dw it)) dl with
                     | Ok it' => line_needs sa dw ws f (it' :: st') w dl
                     | Panic _ => []
                     end
              else []) -> sa y = sb y).
      { intros y Hy. apply H, in_or_app. right. exact Hy. }
      clear H.
      destruct (w <? line_width sa dw (it :: st')); [|reflexivity].
      destruct (line_width sa dw (it :: st') <? cwidth sa dw it); [reflexivity|].
      destruct (w <? line_width sa dw (it :: st') - cwidth sa dw it).
      + apply IH. exact Hneeds.
      + destruct (truncate_ext it (w - (line_width sa dw (it :: st') - cwidth sa dw it)) dl) as [Ht _].
        { intros y Hy. apply Hneeds, in_or_app. left. exact Hy. }
        rewrite <- Ht.
        destruct (truncate sa dw ws it _ dl) as [it'|p]; [|reflexivity].
        apply IH. intros y Hy. apply Hneeds, in_or_app. right. exact Hy.
  Qed.
End Ext.

(* A finite table that agrees with a segmentation function [seg] on its own
   entries, and that contains everything the run consults, gives the run of
   the model under [seg] itself. *)
Theorem table_sufficient_str (t : tables) seg dw ws s w dl :
  (forall k, in_table t k = true -> tseg t k = seg k) ->
  forallb (in_table t) (trunc_needs (tseg t) dw s w dl) = true ->
  truncate (tseg t) dw ws s w dl = truncate seg dw ws s w dl.
Proof.
  intros Hag Hall. rewrite forallb_forall in Hall.
  apply (truncate_ext (tseg t) seg dw ws s w dl).
  intros y Hy. apply Hag, Hall, Hy.
Qed.

Theorem table_sufficient_line (t : tables) seg dw ws fuel st w dl :
  (forall k, in_table t k = true -> tseg t k = seg k) ->
  forallb (in_table t) (line_needs (tseg t) dw ws fuel st w dl) = true ->
  line_truncate (tseg t) dw ws fuel st w dl = line_truncate seg dw ws fuel st w dl.
Proof.
  intros Hag Hall. rewrite forallb_forall in Hall.
  apply line_truncate_ext. intros y Hy. apply Hag, Hall, Hy.
Qed.
