(* CobIssueProofs.v — authorization guard for issues (C07).

   [iguard priv a entry a0 i i'] says what an op by actor [a] (privileged iff a
   delegate of the document the op refers to) with id [entry] may have done to
   an issue whose author is [a0]. It is proved for every action, for the
   states left behind by failing actions as well, composed over the actions of
   an op, and lifted to arbitrary histories. *)
From HW Require Import lib.Base lib.SMap model.CobThread model.CobIssue proofs.CobThreadProofs.
Local Open Scope N_scope.

(* the issue's author: its first comment sits at the head of the timeline, is
   live, and was written by [a0] *)
Definition troot (rid a0 : N) (t : thread) : Prop :=
  exists c tl, t_timeline t = rid :: tl /\ lookup rid (t_comments t) = Some (Some c) /\ c_author c = a0.
Definition rooted (rid a0 : N) (i : issue) : Prop := troot rid a0 (i_thread i).

Lemma rooted_root rid a0 i : rooted rid a0 i -> exists c, i_root i = Some (rid, c) /\ c_author c = a0.
Proof.
  intros (c & tl & Htl & Hl & Ha). exists c. split; [|exact Ha].
  unfold i_root, live_comments. rewrite Htl. cbn [live_along]. rewrite Hl. reflexivity.
Qed.

Section ThreadRoot.
Variables (dbg : bool) (rid a0 : N).

Lemma troot_push t id : troot rid a0 t -> troot rid a0 (t_push id t).
Proof.
  intros (c & tl & Htl & Hl & Ha). exists c, (tl ++ [id]).
  cbn [t_push t_timeline t_comments]. rewrite Htl. auto.
Qed.

Lemma troot_set_other t cid v : cid <> rid -> troot rid a0 t -> troot rid a0 (t_set cid v t).
Proof.
  intros Hne (c & tl & Htl & Hl & Ha). exists c, tl.
  cbn [t_set t_timeline t_comments]. rewrite lookup_insert_other by congruence. auto.
Qed.

Lemma troot_set_same t c' : c_author c' = a0 -> troot rid a0 t -> troot rid a0 (t_set rid (Some c') t).
Proof.
  intros Hc (c & tl & Htl & Hl & Ha). exists c', tl.
  cbn [t_set t_timeline t_comments]. rewrite lookup_insert_same. auto.
Qed.

Lemma t_comment_root t id author body reply t' :
  id <> rid \/ author = a0 ->
  troot rid a0 t -> leaves (t_comment dbg t id author body reply) t' -> troot rid a0 t'.
Proof.
  unfold t_comment. intros Hid Hr H.
  destruct (body =? 0); [apply leaves_err in H; subst; exact Hr|].
  destruct (match reply with Some r => negb (mem r (t_comments t)) | None => false end);
    [apply leaves_err in H; subst; exact Hr|].
  destruct (dup_id dbg id t); [exfalso; eapply leaves_panic; exact H|].
  apply leaves_ok in H. subst t'.
  destruct (N.eq_dec id rid) as [->|Hne].
  - destruct Hid as [C | ->]; [contradiction|]. apply troot_set_same; [reflexivity|]. apply troot_push. exact Hr.
  - apply troot_set_other; [exact Hne|]. apply troot_push. exact Hr.
Qed.

Lemma t_edit_root t id author cid body t' :
  troot rid a0 t -> leaves (t_edit dbg t id author cid body) t' -> troot rid a0 t'.
Proof.
  unfold t_edit. intros Hr H.
  destruct (body =? 0); [apply leaves_err in H; subst; exact Hr|].
  destruct (dup_id dbg id t); [exfalso; eapply leaves_panic; exact H|].
  destruct (lookup cid (t_comments t)) as [[c|]|] eqn:L.
  - apply leaves_ok in H. subst t'.
    destruct (N.eq_dec cid rid) as [->|Hne].
    + apply troot_set_same; [|apply troot_push; exact Hr].
      cbn [c_author]. destruct Hr as (c0 & tl & _ & Hl & Ha). congruence.
    + apply troot_set_other; [exact Hne|]. apply troot_push. exact Hr.
  - apply leaves_ok in H. subst t'. apply troot_push. exact Hr.
  - apply leaves_err in H. subst t'. apply troot_push. exact Hr.
Qed.

Lemma t_redact_root t id cid t' :
  cid <> rid -> troot rid a0 t -> leaves (t_redact dbg t id cid) t' -> troot rid a0 t'.
Proof.
  unfold t_redact. intros Hne Hr H.
  destruct (lookup cid (t_comments t)) as [oc|].
  - destruct (dup_id dbg id t); [exfalso; eapply leaves_panic; exact H|].
    apply leaves_ok in H. subst t'. apply troot_set_other; [exact Hne|]. apply troot_push. exact Hr.
  - apply leaves_err in H. subst t'. exact Hr.
Qed.

Lemma t_react_root t id author cid reaction active t' :
  troot rid a0 t -> leaves (t_react dbg t id author cid reaction active) t' -> troot rid a0 t'.
Proof.
  unfold t_react. intros Hr H.
  destruct (lookup cid (t_comments t)) as [[c|]|] eqn:L.
  - destruct (dup_id dbg id t); [exfalso; eapply leaves_panic; exact H|].
    apply leaves_ok in H. subst t'.
    destruct (N.eq_dec cid rid) as [->|Hne].
    + apply troot_set_same; [|apply troot_push; exact Hr].
      cbn [c_author]. destruct Hr as (c0 & tl & _ & Hl & Ha). congruence.
    + apply troot_set_other; [exact Hne|]. apply troot_push. exact Hr.
  - apply leaves_ok in H. subst t'. exact Hr.
  - apply leaves_err in H. subst t'. exact Hr.
Qed.

End ThreadRoot.

Section IssueGuard.
Variable priv : bool.
Variables a entry a0 : N.

Definition iguard (i i' : issue) : Prop :=
  (priv = true \/ (i_assignees i' = i_assignees i /\ i_labels i' = i_labels i)) /\
  (priv = true \/ a = a0 \/ (i_title i' = i_title i /\ i_state i' = i_state i)) /\
  tguard priv a entry (i_thread i) (i_thread i').

Lemma iguard_refl i : iguard i i.
Proof. repeat split; auto using tguard_refl. Qed.

Lemma iguard_trans i1 i2 i3 : iguard i1 i2 -> iguard i2 i3 -> iguard i1 i3.
Proof.
  intros (A1 & B1 & C1) (A2 & B2 & C2). repeat split.
  - destruct A1 as [?|[? ?]]; auto. destruct A2 as [?|[? ?]]; auto. right. split; congruence.
  - destruct B1 as [?|[?|[? ?]]]; auto. destruct B2 as [?|[?|[? ?]]]; auto. right; right. split; congruence.
  - eapply tguard_trans; eassumption.
Qed.

Lemma iguard_thread i t' :
  tguard priv a entry (i_thread i) t' -> iguard i (i_with_thread i t').
Proof. intros H. repeat split; auto. Qed.

Variables (dbg : bool) (rid : N).

Lemma keys_eq_sset (x y : sset) : keys x = keys y -> x = y.
Proof.
  revert y. induction x as [|[k []] x IH]; intros [|[k' []] y]; cbn [keys map fst]; intros E; try discriminate.
  - reflexivity.
  - inversion E; subst. f_equal. apply IH. assumption.
Qed.

Lemma sset_eqb_true (x y : sset) : sset_eqb x y = true -> x = y.
Proof.
  intros H. apply keys_eq_sset. unfold sset_eqb in H.
  apply (list_eqb_spec N.eqb N.eqb_eq) in H. exact H.
Qed.

(* one action *)
Lemma i_op_action_guard (d : doc) i act i' :
  priv = is_delegate d a ->
  entry <> rid \/ a = a0 ->
  rooted rid a0 i ->
  leaves (i_op_action dbg i act entry a d) i' ->
  iguard i i' /\ rooted rid a0 i'.
Proof.
  intros Hpriv Hid Hroot H.
  destruct (rooted_root _ _ _ Hroot) as (rc & Hrt & Hrca).
  assert (Hact : forall (own : forall cid, match act with
                                          | ICommentEdit id _ | ICommentRedact id => cid = id
                                          | _ => False end -> owns priv a (i_thread i) cid),
             leaves (i_action dbg i act entry a) i' ->
             (priv = true \/ match act with
                             | IAssign l => sset_of_list l = i_assignees i
                             | ILabel l => sset_of_list l = i_labels i
                             | IEdit _ _ | ILifecycle _ => a = a0
                             | _ => True end) ->
             iguard i i' /\ rooted rid a0 i').
  { clear H. intros Hown H Hcond. destruct act; cbn [i_action] in H.
    - apply leaves_ok in H. subst i'. split; [|exact Hroot].
      repeat split; cbn [i_assignees i_labels i_title i_state i_thread]; auto using tguard_refl.
      destruct Hcond as [?|E]; [auto|]. right. split; [exact E|reflexivity].
    - destruct has_newline.
      + apply leaves_err in H. subst i'. split; [apply iguard_refl | exact Hroot].
      + apply leaves_ok in H. subst i'. split; [|exact Hroot].
        repeat split; cbn [i_assignees i_labels i_title i_state i_thread]; auto using tguard_refl.
        destruct Hcond as [?|E]; auto.
    - apply leaves_ok in H. subst i'. split; [|exact Hroot].
      repeat split; cbn [i_assignees i_labels i_title i_state i_thread]; auto using tguard_refl.
      destruct Hcond as [?|E]; auto.
    - apply leaves_ok in H. subst i'. split; [|exact Hroot].
      repeat split; cbn [i_assignees i_labels i_title i_state i_thread]; auto using tguard_refl.
      destruct Hcond as [?|E]; [auto|]. right. split; [reflexivity|exact E].
    - apply leaves_omap in H. destruct H as (t' & Ht & ->). split.
      + apply iguard_thread. eapply t_comment_guard. exact Ht.
      + unfold rooted. cbn [i_with_thread i_thread]. eapply t_comment_root; [|exact Hroot|exact Ht].
        destruct Hid as [?|?]; [left|right]; assumption.
    - apply leaves_omap in H. destruct H as (t' & Ht & ->). split.
      + apply iguard_thread. eapply t_edit_guard; [|exact Ht]. apply Hown. reflexivity.
      + unfold rooted. cbn [i_with_thread i_thread]. eapply t_edit_root; [exact Hroot|exact Ht].
    - rewrite Hrt in H. destruct (N.eqb_spec id rid) as [E|Hne].
      + apply leaves_err in H. subst i'. split; [apply iguard_refl | exact Hroot].
      + apply leaves_omap in H. destruct H as (t' & Ht & ->). split.
        * apply iguard_thread. eapply t_redact_guard; [|exact Ht]. apply Hown. reflexivity.
        * unfold rooted. cbn [i_with_thread i_thread]. eapply t_redact_root; [exact Hne|exact Hroot|exact Ht].
    - apply leaves_omap in H. destruct H as (t' & Ht & ->). split.
      + apply iguard_thread. eapply t_react_guard. exact Ht.
      + unfold rooted. cbn [i_with_thread i_thread]. eapply t_react_root; [exact Hroot|exact Ht]. }
  unfold i_op_action, i_authz in H. rewrite <- Hpriv in H. destruct priv eqn:P.
  - (* delegate *)
    apply Hact; [|exact H|left; reflexivity].
    intros cid _. left. reflexivity.
  - rewrite Hrt in H. rewrite Hrca in H.
    destruct act.
    + destruct (sset_eqb (sset_of_list assignees) (i_assignees i)) eqn:E.
      * apply Hact; [intros ? []|exact H|]. right. apply sset_eqb_true. exact E.
      * apply leaves_err in H. subst i'. split; [apply iguard_refl|exact Hroot].
    + destruct (N.eqb_spec a a0) as [E|E]; cbn [authz_of_bool] in H.
      * apply Hact; [intros ? []|exact H|]. right. exact E.
      * apply leaves_err in H. subst i'. split; [apply iguard_refl|exact Hroot].
    + destruct (N.eqb_spec a a0) as [E|E]; cbn [authz_of_bool] in H.
      * apply Hact; [intros ? []|exact H|]. right. exact E.
      * apply leaves_err in H. subst i'. split; [apply iguard_refl|exact Hroot].
    + destruct (sset_eqb (sset_of_list labels) (i_labels i)) eqn:E.
      * apply Hact; [intros ? []|exact H|]. right. apply sset_eqb_true. exact E.
      * apply leaves_err in H. subst i'. split; [apply iguard_refl|exact Hroot].
    + apply Hact; [intros ? []|exact H|]. right. exact I.
    + destruct (lookup id (t_comments (i_thread i))) as [[c|]|] eqn:L.
      * destruct (N.eqb_spec a (c_author c)) as [E|E]; cbn [authz_of_bool] in H.
        -- apply Hact; [|exact H|right; exact I].
           intros cid ->. right. intros c0 L0. rewrite L in L0. inversion L0; subst. auto.
        -- apply leaves_err in H. subst i'. split; [apply iguard_refl|exact Hroot].
      * apply leaves_ok in H. subst i'. split; [apply iguard_refl|exact Hroot].
      * apply leaves_err in H. subst i'. split; [apply iguard_refl|exact Hroot].
    + destruct (lookup id (t_comments (i_thread i))) as [[c|]|] eqn:L.
      * destruct (N.eqb_spec a (c_author c)) as [E|E]; cbn [authz_of_bool] in H.
        -- apply Hact; [|exact H|right; exact I].
           intros cid ->. right. intros c0 L0. rewrite L in L0. inversion L0; subst. auto.
        -- apply leaves_err in H. subst i'. split; [apply iguard_refl|exact Hroot].
      * apply leaves_ok in H. subst i'. split; [apply iguard_refl|exact Hroot].
      * apply leaves_err in H. subst i'. split; [apply iguard_refl|exact Hroot].
    + apply Hact; [intros ? []|exact H|]. right. exact I.
Qed.

(* the actions of one op *)
Lemma i_actions_guard (d : doc) acts : forall i i',
  priv = is_delegate d a ->
  entry <> rid \/ a = a0 ->
  rooted rid a0 i ->
  leaves (i_actions dbg i acts entry a d) i' ->
  iguard i i' /\ rooted rid a0 i'.
Proof.
  induction acts as [|act acts IH]; intros i i' Hp Hid Hr H; cbn [i_actions] in H.
  - apply leaves_ok in H. subst i'. split; [apply iguard_refl|exact Hr].
  - destruct (i_op_action dbg i act entry a d) as [i1|e i1|k] eqn:E.
    + assert (L1 : leaves (i_op_action dbg i act entry a d) i1) by (left; exact E).
      destruct (i_op_action_guard d i act i1 Hp Hid Hr L1) as [G1 R1].
      destruct (IH i1 i' Hp Hid R1 H) as [G2 R2]. split; [eapply iguard_trans; eassumption|exact R2].
    + apply leaves_err in H. subst i'.
      assert (L1 : leaves (i_op_action dbg i act entry a d) i1) by (right; eexists; exact E).
      exact (i_op_action_guard d i act i1 Hp Hid Hr L1).
    + exfalso. eapply leaves_panic; exact H.
Qed.

End IssueGuard.

(* ---------- whole ops and histories ---------- *)

Definition op_priv {A} (o : op A) : bool :=
  match op_doc o with Some d => is_delegate d (op_actor o) | None => false end.

Lemma i_apply_guard dbg atomic rid a0 i (o : iop) i' :
  op_id o <> rid ->
  rooted rid a0 i ->
  leaves (i_apply dbg atomic i o) i' ->
  iguard (op_priv o) (op_actor o) (op_id o) a0 i i' /\ rooted rid a0 i'.
Proof.
  intros Hid Hr H. unfold i_apply, i_apply_raw in H. unfold op_priv.
  destruct (op_doc o) as [d|].
  - destruct (i_actions dbg i (op_actions o) (op_id o) (op_actor o) d) as [i1|e i1|k] eqn:E.
    + apply leaves_ok in H. subst i'.
      eapply i_actions_guard with (rid := rid) (d := d); [reflexivity|left; exact Hid|exact Hr|left; exact E].
    + apply leaves_err in H. subst i'. destruct atomic.
      * split; [apply iguard_refl|exact Hr].
      * eapply i_actions_guard with (rid := rid) (d := d); [reflexivity|left; exact Hid|exact Hr|right; eexists; exact E].
    + exfalso. eapply leaves_panic; exact H.
  - apply leaves_err in H. subst i'. destruct atomic; (split; [apply iguard_refl|exact Hr]).
Qed.

Lemma i_init_rooted dbg (o : iop) i :
  i_init dbg o = Ok i -> rooted (op_id o) (op_actor o) i.
Proof.
  unfold i_init. intros H. destruct (op_doc o) as [d|]; [|discriminate].
  destruct (op_actions o) as [|[| | | |body [r|]| | |] rest]; try discriminate.
  set (i0 := mkIssue [] 0 IOpen [] (thread_new (op_id o) (new_comment (op_actor o) body None))) in H.
  assert (R0 : rooted (op_id o) (op_actor o) i0).
  { exists (new_comment (op_actor o) body None), []. cbn. rewrite N.eqb_refl. auto. }
  eapply (i_actions_guard (is_delegate d (op_actor o)) (op_actor o) (op_id o) (op_actor o) dbg (op_id o) d);
    [reflexivity|right; reflexivity|exact R0|left; exact H].
Qed.

(* a freshly created issue: whatever the root op contained, a non-delegate
   author ends up with no assignees and no labels *)
Lemma i_init_guard dbg (o : iop) d i :
  op_doc o = Some d -> is_delegate d (op_actor o) = false ->
  i_init dbg o = Ok i -> i_assignees i = [] /\ i_labels i = [].
Proof.
  unfold i_init. intros Hd Hnd H. rewrite Hd in H.
  destruct (op_actions o) as [|[| | | |body [r|]| | |] rest]; try discriminate.
  set (i0 := mkIssue [] 0 IOpen [] (thread_new (op_id o) (new_comment (op_actor o) body None))) in H.
  assert (R0 : rooted (op_id o) (op_actor o) i0).
  { exists (new_comment (op_actor o) body None), []. cbn. rewrite N.eqb_refl. auto. }
  destruct (i_actions_guard false (op_actor o) (op_id o) (op_actor o) dbg (op_id o) d rest i0 i)
    as [(A & _) _]; [symmetry; exact Hnd|right; reflexivity|exact R0|left; exact H|].
  destruct A as [C|[A1 A2]]; [discriminate|]. exact (conj A1 A2).
Qed.

(* history: every step of the evaluation of any list of ops *)
Lemma i_run_guard dbg atomic rid a0 : forall (pre : list iop) i i1 (o : iop) i2,
  Forall (fun o' => op_id o' <> rid) (pre ++ [o]) ->
  rooted rid a0 i ->
  i_run dbg atomic i pre = Some i1 ->
  i_step dbg atomic i1 o = Some i2 ->
  iguard (op_priv o) (op_actor o) (op_id o) a0 i1 i2 /\ rooted rid a0 i1.
Proof.
  induction pre as [|o' pre IH]; intros i i1 o i2 Hids Hr Hrun Hstep.
  - cbn [i_run] in Hrun. inversion Hrun; subst i1.
    split; [|exact Hr].
    cbn [app] in Hids. inversion Hids as [|? ? Hid _]; subst.
    unfold i_step in Hstep.
    destruct (i_apply dbg atomic i o) as [x|e x|k] eqn:E; inversion Hstep; subst x.
    + eapply i_apply_guard; [exact Hid|exact Hr|left; exact E].
    + eapply i_apply_guard; [exact Hid|exact Hr|right; eexists; exact E].
  - cbn [i_run] in Hrun. cbn [app] in Hids. inversion Hids as [|? ? Hid Hrest]; subst.
    destruct (i_step dbg atomic i o') as [ix|] eqn:S; [|discriminate].
    eapply IH; [exact Hrest| |exact Hrun|exact Hstep].
    unfold i_step in S.
    destruct (i_apply dbg atomic i o') as [x|e x|k] eqn:E; inversion S; subst x.
    + eapply i_apply_guard; [exact Hid|exact Hr|left; exact E].
    + eapply i_apply_guard; [exact Hid|exact Hr|right; eexists; exact E].
Qed.

(* ---------- the statements of C07 for issues, in plain terms ---------- *)

Definition comments_guarded (privileged : bool) (a entry : N) (t t' : thread) : Prop :=
  forall cid, cid <> entry ->
    match lookup cid (t_comments t) with
    | Some (Some c) =>
        privileged = false -> c_author c <> a ->
        exists c', lookup cid (t_comments t') = Some (Some c') /\
                   c_author c' = c_author c /\ c_edits c' = c_edits c
    | Some None => lookup cid (t_comments t') = Some None
    | None => True
    end.

Lemma tguard_comments_guarded priv a entry t t' :
  tguard priv a entry t t' -> comments_guarded priv a entry t t'.
Proof.
  intros H cid Hne. specialize (H cid Hne).
  destruct (lookup cid (t_comments t)) as [[c|]|]; [|exact H|exact I].
  intros Hp Hna. destruct (lookup cid (t_comments t')) as [[c'|]|].
  - destruct H as [A [B|[B|B]]]; [congruence|congruence|]. exists c'. auto.
  - destruct H as [B|B]; congruence.
  - contradiction.
Qed.

Definition issue_step_guarded (author : N) (o : iop) (i1 i2 : issue) : Prop :=
  (op_priv o = false -> i_assignees i2 = i_assignees i1 /\ i_labels i2 = i_labels i1) /\
  (op_priv o = false -> op_actor o <> author -> i_title i2 = i_title i1 /\ i_state i2 = i_state i1) /\
  comments_guarded (op_priv o) (op_actor o) (op_id o) (i_thread i1) (i_thread i2).

Lemma iguard_step_guarded author (o : iop) i1 i2 :
  iguard (op_priv o) (op_actor o) (op_id o) author i1 i2 -> issue_step_guarded author o i1 i2.
Proof.
  intros (A & B & C). split; [|split].
  - intros Hp. destruct A as [A|A]; [congruence|exact A].
  - intros Hp Hna. destruct B as [B|[B|B]]; [congruence|contradiction|exact B].
  - apply tguard_comments_guarded. exact C.
Qed.

Lemma issue_history_guarded dbg atomic (root : iop) (pre : list iop) (o : iop) i0 i1 i2 :
  i_init dbg root = Ok i0 ->
  Forall (fun o' => op_id o' <> op_id root) (pre ++ [o]) ->
  i_run dbg atomic i0 pre = Some i1 ->
  i_step dbg atomic i1 o = Some i2 ->
  issue_step_guarded (op_actor root) o i1 i2.
Proof.
  intros Hinit Hids Hrun Hstep. apply iguard_step_guarded.
  pose proof (i_init_rooted _ _ _ Hinit) as Hr.
  destruct (i_run_guard dbg atomic _ _ pre i0 i1 o i2 Hids Hr Hrun Hstep) as [G _]. exact G.
Qed.

(* a history without any op by a delegate leaves assignees and labels as the
   root op left them; without any op by a delegate or the author, title and
   state as well *)
Lemma issue_history_no_delegate dbg atomic (root : iop) : forall (ops : list iop) i0 i,
  i_init dbg root = Ok i0 ->
  Forall (fun o' => op_id o' <> op_id root) ops ->
  Forall (fun o' => op_priv o' = false) ops ->
  i_run dbg atomic i0 ops = Some i ->
  i_assignees i = i_assignees i0 /\ i_labels i = i_labels i0 /\
  (Forall (fun o' => op_actor o' <> op_actor root) ops -> i_title i = i_title i0 /\ i_state i = i_state i0).
Proof.
  intros ops i0 i Hinit. pose proof (i_init_rooted _ _ _ Hinit) as Hr. clear Hinit.
  revert i0 Hr. induction ops as [|o ops IH]; intros i0 Hr Hids Hnp Hrun.
  - cbn [i_run] in Hrun. inversion Hrun; subst. auto.
  - cbn [i_run] in Hrun. inversion Hids as [|? ? Hid Hids']; subst. inversion Hnp as [|? ? Hp Hnp']; subst.
    destruct (i_step dbg atomic i0 o) as [i1|] eqn:S; [|discriminate].
    assert (G : iguard (op_priv o) (op_actor o) (op_id o) (op_actor root) i0 i1 /\ rooted (op_id root) (op_actor root) i1).
    { unfold i_step in S. destruct (i_apply dbg atomic i0 o) as [x|e x|k] eqn:E; inversion S; subst x.
      - eapply i_apply_guard; [exact Hid|exact Hr|left; exact E].
      - eapply i_apply_guard; [exact Hid|exact Hr|right; eexists; exact E]. }
    destruct G as [G R1]. apply iguard_step_guarded in G. destruct G as (GA & GB & _).
    destruct (IH i1 R1 Hids' Hnp' Hrun) as (A & B & C). destruct (GA Hp) as [GA1 GA2].
    split; [congruence|]. split; [congruence|].
    intros Hna. inversion Hna as [|? ? Hn1 Hna']; subst. destruct (GB Hp Hn1) as [T1 T2].
    destruct (C Hna') as [C1 C2]. split; congruence.
Qed.

(* targets that are unknown or redacted: a non-delegate's edit/redaction is
   ignored (redacted) or rejected (unknown) and the issue is untouched *)
Lemma issue_ignored_targets dbg i id body entry actor d :
  is_delegate d actor = false -> i_root i <> None ->
  (lookup id (t_comments (i_thread i)) = Some None ->
     i_op_action dbg i (ICommentEdit id body) entry actor d = Ok i /\
     i_op_action dbg i (ICommentRedact id) entry actor d = Ok i) /\
  (lookup id (t_comments (i_thread i)) = None ->
     i_op_action dbg i (ICommentEdit id body) entry actor d = Err EMissing i /\
     i_op_action dbg i (ICommentRedact id) entry actor d = Err EMissing i).
Proof.
  intros Hd Hroot. unfold i_op_action, i_authz. rewrite Hd.
  destruct (i_root i) as [[r rc]|]; [|contradiction].
  split; intros L; rewrite L; split; reflexivity.
Qed.

(* ---------- the author of an issue is fixed; release builds never panic ---------- *)

Lemma issue_author_fixed dbg atomic (root : iop) (ops : list iop) i0 i :
  i_init dbg root = Ok i0 ->
  Forall (fun o' => op_id o' <> op_id root) ops ->
  i_run dbg atomic i0 ops = Some i ->
  exists c, i_root i = Some (op_id root, c) /\ c_author c = op_actor root.
Proof.
  intros Hinit Hids Hrun. apply rooted_root.
  pose proof (i_init_rooted _ _ _ Hinit) as Hr. clear Hinit.
  revert i0 Hr Hrun. induction ops as [|o ops IH]; intros i0 Hr Hrun; cbn [i_run] in Hrun.
  - inversion Hrun; subst. exact Hr.
  - inversion Hids as [|? ? Hid Hids']; subst.
    destruct (i_step dbg atomic i0 o) as [i1|] eqn:S; [|discriminate].
    apply (IH Hids' i1); [|exact Hrun].
    unfold i_step in S. destruct (i_apply dbg atomic i0 o) as [x|e x|k] eqn:E; inversion S; subst x.
    + eapply i_apply_guard; [exact Hid|exact Hr|left; exact E].
    + eapply i_apply_guard; [exact Hid|exact Hr|right; eexists; exact E].
Qed.

Definition no_panic {S} (r : outcome S) : Prop := match r with Panic _ => False | _ => True end.

Lemma omap_no_panic {S T} (f : S -> T) r : no_panic r -> no_panic (omap f r).
Proof. destruct r; auto. Qed.

Lemma i_op_action_no_panic rid a0 i act entry a d :
  rooted rid a0 i -> no_panic (i_op_action false i act entry a d).
Proof.
  intros Hr. destruct (rooted_root _ _ _ Hr) as (rc & Hrt & _).
  assert (HA : no_panic (i_action false i act entry a)).
  { destruct act; cbn [i_action]; try exact I.
    - destruct has_newline; exact I.
    - apply omap_no_panic. unfold t_comment, dup_id. cbn [andb].
      destruct (body =? 0); [exact I|].
      destruct (match reply with Some r => negb (mem r (t_comments (i_thread i))) | None => false end); exact I.
    - apply omap_no_panic. unfold t_edit, dup_id. cbn [andb].
      destruct (body =? 0); [exact I|]. destruct (lookup id (t_comments (i_thread i))) as [[c|]|]; exact I.
    - rewrite Hrt. destruct (id =? rid); [exact I|]. apply omap_no_panic. unfold t_redact, dup_id. cbn [andb].
      destruct (lookup id (t_comments (i_thread i))); exact I.
    - apply omap_no_panic. unfold t_react, dup_id. cbn [andb].
      destruct (lookup id (t_comments (i_thread i))) as [[c|]|]; exact I. }
  unfold i_op_action, i_authz. destruct (is_delegate d a); [exact HA|]. rewrite Hrt.
  destruct act; try exact HA.
  - destruct (sset_eqb (sset_of_list assignees) (i_assignees i)); [exact HA|exact I].
  - destruct (a =? c_author rc); [exact HA|exact I].
  - destruct (a =? c_author rc); [exact HA|exact I].
  - destruct (sset_eqb (sset_of_list labels) (i_labels i)); [exact HA|exact I].
  - destruct (lookup id (t_comments (i_thread i))) as [[c|]|]; try exact I.
    destruct (a =? c_author c); [exact HA|exact I].
  - destruct (lookup id (t_comments (i_thread i))) as [[c|]|]; try exact I.
    destruct (a =? c_author c); [exact HA|exact I].
Qed.

Lemma i_actions_no_panic rid a0 acts : forall i entry a d,
  entry <> rid \/ a = a0 ->
  rooted rid a0 i -> no_panic (i_actions false i acts entry a d).
Proof.
  induction acts as [|act acts IH]; intros i entry a d Hid Hr; cbn [i_actions]; [exact I|].
  pose proof (i_op_action_no_panic rid a0 i act entry a d Hr) as NP.
  destruct (i_op_action false i act entry a d) as [i1|e i1|k] eqn:E; [|exact I|exact NP].
  apply IH; [exact Hid|].
  eapply (i_op_action_guard (is_delegate d a) a entry a0 false rid d i act i1); [reflexivity|exact Hid|exact Hr|left; exact E].
Qed.

Lemma issue_release_never_panics atomic (root : iop) (ops : list iop) i0 :
  i_init false root = Ok i0 ->
  Forall (fun o' => op_id o' <> op_id root) ops ->
  i_run false atomic i0 ops <> None.
Proof.
  intros Hinit Hids. pose proof (i_init_rooted _ _ _ Hinit) as Hr. clear Hinit.
  revert i0 Hr. induction ops as [|o ops IH]; intros i0 Hr; cbn [i_run]; [discriminate|].
  inversion Hids as [|? ? Hid Hids']; subst.
  assert (NP : no_panic (i_apply false atomic i0 o)).
  { unfold i_apply, i_apply_raw. destruct (op_doc o) as [d|]; [|exact I].
    pose proof (i_actions_no_panic (op_id root) (op_actor root) (op_actions o) i0 (op_id o) (op_actor o) d (or_introl Hid) Hr) as NP.
    destruct (i_actions false i0 (op_actions o) (op_id o) (op_actor o) d); auto. }
  unfold i_step. destruct (i_apply false atomic i0 o) as [x|e x|k] eqn:E; [| |contradiction].
  - apply IH; [exact Hids'|]. eapply i_apply_guard; [exact Hid|exact Hr|left; exact E].
  - apply IH; [exact Hids'|]. eapply i_apply_guard; [exact Hid|exact Hr|right; eexists; exact E].
Qed.
