(* PktlineProofs.v — totality (no panic) of the git request header parser, the
   refutation witness for the code before the fix, and what a successful parse
   consumed from the stream. *)
From HW Require Import lib.Base model.Pktline.
From HW Require model.TextIds proofs.TextIdsProofs.
Local Open Scope N_scope.

(* ---------------------------------------------------------------- slices *)

Lemma check_slice_ok a b len so sr :
  a <= b -> b <= len -> check_slice a b len so sr = Ok tt.
Proof.
  intros Hab Hbl. unfold check_slice.
  destruct (b <? a) eqn:E1; [apply N.ltb_lt in E1; lia|].
  destruct (len <? b) eqn:E2; [apply N.ltb_lt in E2; lia|]. reflexivity.
Qed.

Lemma check_slice_panics a b len so sr :
  (b < a \/ len < b) <-> exists site, check_slice a b len so sr = Panic site.
Proof.
  unfold check_slice. split.
  - intros H. destruct (b <? a) eqn:E1; [eexists; reflexivity|].
    destruct (len <? b) eqn:E2; [eexists; reflexivity|].
    apply N.ltb_ge in E1, E2. lia.
  - intros [site H]. destruct (b <? a) eqn:E1; [apply N.ltb_lt in E1; lia|].
    destruct (len <? b) eqn:E2; [apply N.ltb_lt in E2; lia|]. discriminate.
Qed.

Lemma read_exact_no_panic n s site : read_exact n s <> Panic site.
Proof. unfold read_exact. destruct (n <=? lenN s); discriminate. Qed.

Lemma read_exact_ok n s a b :
  read_exact n s = Ok (a, b) -> s = a ++ b /\ lenN a = n.
Proof.
  unfold read_exact. destruct (n <=? lenN s) eqn:E; [|discriminate].
  intros H. inversion H; subst. split.
  - symmetry. apply firstn_skipn.
  - apply N.leb_le in E. unfold lenN in *. rewrite firstn_length. lia.
Qed.

(* ---------------------------------------------------------------- parse *)

Lemma rid_total ext s site : TextIds.rid_from_urn ext s <> TextIds.Panic site.
Proof. exact (proj2 (proj2 (proj2 TextIdsProofs.parsers_total)) ext s site). Qed.

Lemma parse_no_panic ext input site : parse ext input <> Panic site.
Proof.
  unfold parse.
  destruct (utf8_decode input) as [s|]; [|discriminate].
  destruct (strip_prefix GIT_UPLOAD_PACK s) as [rest|]; [|discriminate].
  destruct (split_terminator 0 rest) as [|path parts]; [discriminate|].
  destruct path as [|c ridtxt]; [discriminate|].
  destruct (c =? SLASH); [|discriminate].
  destruct (TextIds.rid_from_urn ext ridtxt) as [oid|e|s0] eqn:E.
  - destruct (parse_host _) as [host|]; discriminate.
  - discriminate.
  - exfalso. exact (rid_total ext ridtxt s0 E).
Qed.

(* ---------------------------------------------------------------- read_pktline *)

(* with the guard, a returned length always fits the buffer *)
Lemma read_pktline_guarded buf_len stream :
  HEADER_LEN <= buf_len ->
  (forall site, read_pktline true buf_len stream <> Panic site) /\
  (forall length body rest, read_pktline true buf_len stream = Ok (length, body, rest) ->
     HEADER_LEN <= length /\ length <= buf_len /\ lenN body = length - HEADER_LEN /\
     exists hdr, stream = hdr ++ body ++ rest /\ lenN hdr = HEADER_LEN /\
                 parse_length hdr = Some length).
Proof.
  intros Hb. unfold read_pktline.
  rewrite (check_slice_ok 0 HEADER_LEN buf_len) by (unfold HEADER_LEN in *; lia).
  cbn [bind].
  destruct (read_exact HEADER_LEN stream) as [[hdr s1]|e|s0] eqn:E1;
    [|split; [discriminate|intros; discriminate]|exfalso; exact (read_exact_no_panic _ _ _ E1)].
  cbn [bind].
  destruct (parse_length hdr) as [length|] eqn:EL;
    [|split; [discriminate|intros; discriminate]].
  cbn [andb].
  destruct ((length <? HEADER_LEN) || (buf_len <? length)) eqn:G;
    [split; [discriminate|intros; discriminate]|].
  apply orb_false_iff in G. destruct G as [G1 G2].
  apply N.ltb_ge in G1, G2.
  rewrite (check_slice_ok HEADER_LEN length buf_len) by lia.
  cbn [bind].
  destruct (read_exact (length - HEADER_LEN) s1) as [[body s2]|e|s0] eqn:E2;
    [|split; [discriminate|intros; discriminate]|exfalso; exact (read_exact_no_panic _ _ _ E2)].
  cbn [bind]. split; [discriminate|].
  intros l b r H. inversion H; subst.
  apply read_exact_ok in E1. apply read_exact_ok in E2.
  destruct E1 as [-> L1]. destruct E2 as [-> L2].
  repeat split; try assumption. exists hdr. auto.
Qed.

(* ---------------------------------------------------------------- git_request *)

Theorem pktline_no_panic_gen buf_len ext stream site :
  HEADER_LEN <= buf_len ->
  git_request_gen true buf_len ext stream <> Panic site.
Proof.
  intros Hb. unfold git_request_gen, read_request_pktline.
  destruct (read_pktline_guarded buf_len stream Hb) as [HP HO].
  destruct (read_pktline true buf_len stream) as [[[length body] rest]|e|s0] eqn:E;
    [|discriminate|exfalso; exact (HP s0 eq_refl)].
  cbn [bind].
  destruct (HO _ _ _ eq_refl) as (H1 & H2 & _).
  rewrite (check_slice_ok 4 length buf_len) by (unfold HEADER_LEN in *; lia).
  cbn [bind].
  destruct (parse ext body) as [cmd|e|s0] eqn:EP;
    [|discriminate|exfalso; exact (parse_no_panic _ _ _ EP)].
  cbn [bind]. destruct cmd as [cmd|]; [|discriminate].
  rewrite (check_slice_ok 0 length buf_len) by lia.
  cbn [bind]. discriminate.
Qed.

(* C13, git stream request headers: whatever bytes a remote peer sends as the
   request header (and whatever the data-encoding decoders return), the parser
   returns a value or an io error — it never panics. *)
Theorem pktline_no_panic :
  forall ext bytes site, git_request ext bytes <> Panic site.
Proof.
  intros ext bytes site. unfold git_request.
  apply pktline_no_panic_gen. unfold HEADER_LEN, BUF_LEN. lia.
Qed.

(* what a successful parse consumed: one pkt-line of 4..1024 bytes, nothing more *)
Theorem git_request_consumes ext bytes h rest :
  git_request ext bytes = Ok (h, rest) ->
  exists pkt, bytes = pkt ++ rest /\ HEADER_LEN <= lenN pkt /\ lenN pkt <= BUF_LEN.
Proof.
  unfold git_request, git_request_gen, read_request_pktline. intros H.
  assert (Hb : HEADER_LEN <= BUF_LEN) by (unfold HEADER_LEN, BUF_LEN; lia).
  destruct (read_pktline_guarded BUF_LEN bytes Hb) as [_ HO].
  destruct (read_pktline true BUF_LEN bytes) as [[[length body] r]|e|s0]; try discriminate.
  destruct (HO _ _ _ eq_refl) as (H1 & H2 & H3 & hdr & -> & H4 & _).
  cbn [bind] in H.
  rewrite (check_slice_ok 4 length BUF_LEN) in H by (unfold HEADER_LEN in *; lia).
  cbn [bind] in H.
  destruct (parse ext body) as [[cmd|]|e|s0]; try discriminate.
  cbn [bind] in H.
  rewrite (check_slice_ok 0 length BUF_LEN) in H by lia.
  cbn [bind] in H. inversion H; subst.
  exists (hdr ++ body). rewrite <- app_assoc. split; [reflexivity|].
  unfold lenN in *. rewrite app_length. lia.
Qed.

(* ---------------------------------------------------------------- the code before the fix *)

(* "0000": length 0 < 4 -> buf[4..0] *)
Theorem pktline_unfixed_panics :
  exists bytes site, git_request_unfixed None bytes = Panic site.
Proof. exists [48; 48; 48; 48], SITE_BODY_ORDER. vm_compute. reflexivity. Qed.

(* "ffff": length 65535 > 1024 -> buf[4..65535] *)
Theorem pktline_unfixed_panics_long :
  exists bytes site, git_request_unfixed None bytes = Panic site.
Proof. exists [102; 102; 102; 102], SITE_BODY_RANGE. vm_compute. reflexivity. Qed.

(* exactly which streams crashed the unfixed parser: a readable 4-byte length
   field whose value is below 4 or above the buffer size *)
Theorem pktline_unfixed_panic_iff ext bytes :
  (exists site, git_request_unfixed ext bytes = Panic site) <->
  (exists hdr rest len, bytes = hdr ++ rest /\ lenN hdr = HEADER_LEN /\
     parse_length hdr = Some len /\ (len < HEADER_LEN \/ BUF_LEN < len)).
Proof.
  unfold git_request_unfixed, git_request_gen, read_request_pktline, read_pktline.
  rewrite (check_slice_ok 0 HEADER_LEN BUF_LEN) by (unfold HEADER_LEN, BUF_LEN; lia).
  cbn [bind andb]. split.
  - intros [site H].
    destruct (read_exact HEADER_LEN bytes) as [[hdr s1]|e|s0] eqn:E1; try discriminate.
    2:{ exfalso. exact (read_exact_no_panic _ _ _ E1). }
    cbn [bind] in H. apply read_exact_ok in E1. destruct E1 as [-> L1].
    destruct (parse_length hdr) as [len|] eqn:EL; [|discriminate].
    exists hdr, s1, len. repeat split; try assumption.
    destruct (N.ltb_spec len HEADER_LEN) as [|G1]; [left; assumption|].
    destruct (N.ltb_spec BUF_LEN len) as [|G2]; [right; assumption|].
    exfalso.
    rewrite (check_slice_ok HEADER_LEN len BUF_LEN) in H by lia.
    cbn [bind] in H.
    destruct (read_exact (len - HEADER_LEN) s1) as [[body s2]|e|s0] eqn:E2; try discriminate.
    2:{ exact (read_exact_no_panic _ _ _ E2). }
    cbn [bind] in H.
    rewrite (check_slice_ok 4 len BUF_LEN) in H by (unfold HEADER_LEN in *; lia).
    cbn [bind] in H.
    destruct (parse ext body) as [[cmd|]|e|s0] eqn:EP; try discriminate.
    2:{ exact (parse_no_panic _ _ _ EP). }
    cbn [bind] in H.
    rewrite (check_slice_ok 0 len BUF_LEN) in H by lia.
    discriminate.
  - intros (hdr & rest & len & -> & L & EL & Hbad).
    assert (E1 : read_exact HEADER_LEN (hdr ++ rest) = Ok (hdr, rest)).
    { unfold read_exact, lenN in *. rewrite app_length.
      destruct (HEADER_LEN <=? N.of_nat (length hdr + length rest)) eqn:E;
        [|apply N.leb_gt in E; lia].
      assert (N.to_nat HEADER_LEN = length hdr) as -> by lia.
      rewrite firstn_app, Nat.sub_diag, firstn_all, firstn_O, app_nil_r.
      rewrite skipn_app, Nat.sub_diag, skipn_all. reflexivity. }
    rewrite E1. cbn [bind]. rewrite EL.
    destruct (proj1 (check_slice_panics HEADER_LEN len BUF_LEN SITE_BODY_ORDER SITE_BODY_RANGE) Hbad)
      as [site Hs].
    exists site. rewrite Hs. reflexivity.
Qed.

(* ---------------------------------------------------------------- sanity: the parser accepts real headers *)

(* "003egit-upload-pack /z3gqcJUoA1n9HaHKufZs5FCSGazv5\0\0version=2\0" *)
Example header_accepted :
  exists h, git_request None
    ([48; 48; 51; 101] ++ GIT_UPLOAD_PACK ++
     [47; 122; 51; 103; 113; 99; 74; 85; 111; 65; 49; 110; 57; 72; 97; 72; 75; 117; 102; 90; 115;
      53; 70; 67; 83; 71; 97; 122; 118; 53; 0; 0; 118; 101; 114; 115; 105; 111; 110; 61; 50; 0])
    = Ok (h, []) /\ g_extra h = [([118; 101; 114; 115; 105; 111; 110], Some [50])].
Proof. eexists. vm_compute. split; reflexivity. Qed.
