(* CobIdentityProofs.v — invariants of the identity COB model (C04). *)
From HW Require Import lib.Base lib.SMap model.CobIdentity.
Local Open Scope N_scope.

(* ------------------------------------------------------------------ smap helpers *)

Lemma lookup_insert {V} (k : N) (v : V) (m : smap V) k0 : sorted m ->
  lookup k0 (insert k v m) = if N.eqb k0 k then Some v else lookup k0 m.
Proof.
  intros Hs. unfold insert. rewrite lookup_upsert by exact Hs.
  destruct (N.eqb k0 k); [|reflexivity]. destruct (lookup k m); reflexivity.
Qed.

Lemma sorted_insert {V} (k : N) (v : V) (m : smap V) : sorted m -> sorted (insert k v m).
Proof. apply sorted_upsert. Qed.

Lemma mem_lookup {V} (k : N) (m : smap V) : mem k m = true <-> lookup k m <> None.
Proof. unfold mem. destruct (lookup k m); split; congruence. Qed.

Lemma mem_false_lookup {V} (k : N) (m : smap V) : mem k m = false <-> lookup k m = None.
Proof. unfold mem. destruct (lookup k m); split; congruence. Qed.

Definition map_vals {A B} (f : A -> B) (m : smap A) : smap B := map (fun kv => (fst kv, f (snd kv))) m.

Lemma keys_map_vals {A B} (f : A -> B) m : keys (map_vals f m) = keys m.
Proof. unfold keys, map_vals. rewrite map_map. reflexivity. Qed.

Lemma sorted_map_vals {A B} (f : A -> B) m : sorted m -> sorted (map_vals f m).
Proof. unfold sorted. rewrite keys_map_vals. auto. Qed.

Lemma lookup_map_vals {A B} (f : A -> B) m k :
  lookup k (map_vals f m) = option_map f (lookup k m).
Proof.
  induction m as [|[k' v] m IH]; simpl; [reflexivity|].
  destruct (N.eqb k k'); [reflexivity | exact IH].
Qed.

Lemma sorted_NoDup_keys {V} (m : smap V) : sorted m -> NoDup (keys m).
Proof.
  unfold sorted. induction (keys m) as [|k l IH]; intros H; [constructor|].
  inversion H; subst. constructor; [|apply IH; assumption].
  intros Hin. rewrite Forall_forall in H3. specialize (H3 _ Hin). lia.
Qed.

Lemma filter_keys_NoDup {V} (f : N * V -> bool) (m : smap V) :
  sorted m -> NoDup (keys (filter f m)).
Proof.
  intros Hs. apply sorted_NoDup_keys in Hs. revert Hs. unfold keys.
  induction m as [|kv m IH]; simpl; intros H; [constructor|].
  inversion H; subst. destruct (f kv); simpl; [|apply IH; assumption].
  constructor; [|apply IH; assumption].
  intros Hin. apply H2. apply in_map_iff in Hin. destruct Hin as [x [E Hx]].
  apply filter_In in Hx. destruct Hx as [Hx _]. apply in_map_iff. exists x. split; assumption.
Qed.

Lemma dedupN_In x l : In x (dedupN l) <-> In x l.
Proof.
  induction l as [|y l IH]; simpl; [tauto|].
  destruct (memN y l) eqn:E.
  - rewrite IH. split; [auto|]. intros [->|H]; [apply memN_In; exact E | exact H].
  - simpl. rewrite IH. tauto.
Qed.

(* ------------------------------------------------------------------ basic facts *)

Lemma rstate_eqb_eq a b : rstate_eqb a b = true <-> a = b.
Proof. destruct a, b; simpl; split; congruence. Qed.

Lemma optN_eqb_eq a b : optN_eqb a b = true <-> a = b.
Proof. apply option_eqb_spec. intros; apply N.eqb_eq. Qed.

Lemma majority_strict d votes : is_majority d votes = true -> 2 * votes > ndelegates d.
Proof.
  unfold is_majority, majority. intros H. apply N.leb_le in H.
  pose proof (N.div_mod' (ndelegates d) 2) as E.
  pose proof (N.mod_lt (ndelegates d) 2 ltac:(lia)). lia.
Qed.

Lemma set_state_fields st r :
  r_id (set_state st r) = r_id r /\ r_blob (set_state st r) = r_blob r /\
  r_doc (set_state st r) = r_doc r /\ r_parent (set_state st r) = r_parent r /\
  r_verdicts (set_state st r) = r_verdicts r /\ r_state (set_state st r) = st.
Proof. repeat split. Qed.

Lemma sub_overflow_empty d : ndelegates d <? majority d = true -> d_delegates d = [].
Proof.
  unfold majority, ndelegates. intros H. apply N.ltb_lt in H.
  destruct (d_delegates d) as [|x l]; [reflexivity|]. exfalso.
  set (n := N.of_nat (length (x :: l))) in *.
  assert (1 <= n) by (unfold n; simpl length; rewrite Nat2N.inj_succ; lia).
  pose proof (N.div_mod' n 2) as E. pose proof (N.mod_lt n 2 ltac:(lia)) as M.
  remember (n / 2) as q. remember (n mod 2) as m. lia.
Qed.

Section Proofs.
Variable sig_ok : N -> N -> N -> bool.
Variable blob_store : N -> blob_res.
(* a property of documents that every parsed blob has (instantiated with [True] for the C04
   theorems and with "has a delegate" for the panic-freedom theorem) *)
Variable P : doc -> Prop.
Hypothesis blob_P : forall b d, blob_store b = BDoc d -> P d.

Notation action_step := (action_step sig_ok blob_store).
Notation op_loop := (op_loop sig_ok blob_store).
Notation apply_op := (apply_op sig_ok blob_store).
Notation run_ops := (run_ops sig_ok blob_store).
Notation from_root := (from_root sig_ok).

(* delegate [k] has recorded an accepting verdict on [r] whose signature verifies over r's blob *)
Definition valid_accept (r : revision) (k : N) : bool :=
  match lookup k (r_verdicts r) with
  | Some (VAccept sig) => sig_ok k (r_blob r) sig
  | _ => false
  end.

(* number of distinct delegates of [prev] with a valid accepting verdict on [r] *)
Definition valid_accepts (prev : doc) (r : revision) : N :=
  N.of_nat (length (filter (valid_accept r) (dedupN (d_delegates prev)))).

Definition revs_of (s : identity) (id : N) : option (option revision) := lookup id (i_revisions s).

Record Inv (s : identity) : Prop := {
  inv_sr : sorted (i_revisions s);
  inv_sh : sorted (i_heads s);
  inv_sv : forall id r, revs_of s id = Some (Some r) -> sorted (r_verdicts r);
  inv_cur : exists cur, revs_of s (i_current s) = Some (Some cur) /\ r_state cur = Accepted;
  inv_id : forall id r, revs_of s id = Some (Some r) -> r_id r = id;
  inv_par : forall id r, revs_of s id = Some (Some r) -> r_state r = Active ->
              r_parent r = Some (i_current s);
  inv_hm : forall k id, lookup k (i_heads s) = Some id -> revs_of s id <> None;
  inv_votes : forall k id r cur, lookup k (i_heads s) = Some id ->
              revs_of s id = Some (Some r) -> r_state r = Active ->
              revs_of s (i_current s) = Some (Some cur) ->
              is_delegate (r_doc cur) k = true /\ valid_accept r k = true;
  inv_docs : forall id r, revs_of s id = Some (Some r) -> P (r_doc r) }.

(* what one executed action may do to the identity *)
Definition accepted_kept (pre post : identity) : Prop :=
  forall id r, revs_of pre id = Some (Some r) -> r_state r = Accepted -> revs_of post id = Some (Some r).

Definition adoption_ok (pre post : identity) : Prop :=
  i_current post <> i_current pre ->
  exists prev r, revs_of pre (i_current pre) = Some (Some prev) /\
                 revs_of post (i_current post) = Some (Some r) /\
                 r_parent r = Some (i_current pre) /\ r_state r = Accepted /\
                 2 * valid_accepts (r_doc prev) r > ndelegates (r_doc prev).

Definition step_ok (pre post : identity) : Prop := accepted_kept pre post /\ adoption_ok pre post.

Lemma step_ok_refl s : step_ok s s.
Proof. split; [intros id r H _; exact H | intros H; congruence]. Qed.

Lemma step_ok_trans_same a b c : Inv a -> i_current b = i_current a ->
  accepted_kept a b -> step_ok b c -> step_ok a c.
Proof.
  intros Ia Ecur Hab [Hbc Hadopt]. split.
  - intros id r H1 H2. apply Hbc; [apply Hab; assumption | assumption].
  - intros Hne. rewrite <- Ecur in Hne. destruct (Hadopt Hne) as [prev [r [P1 [P2 [P3 [P4 P5]]]]]].
    exists prev, r. rewrite <- Ecur. repeat split; try assumption.
    destruct (inv_cur a Ia) as [cur [C1 C2]].
    pose proof (Hab _ _ C1 C2) as C3. rewrite <- Ecur in C3. congruence.
Qed.

(* ------------------------------------------------------------------ adopt *)

Lemma votes_bound s id r cur :
  Inv s -> revs_of s id = Some (Some r) -> r_state r = Active ->
  revs_of s (i_current s) = Some (Some cur) ->
  N.of_nat (length (filter (fun kv => N.eqb (snd kv) id) (i_heads s))) <= valid_accepts (r_doc cur) r.
Proof.
  intros I Hr Ha Hc. unfold valid_accepts.
  set (hs := filter (fun kv : N * N => N.eqb (snd kv) id) (i_heads s)).
  assert (Hlen : (length (keys hs) <= length (filter (valid_accept r) (dedupN (d_delegates (r_doc cur)))))%nat).
  { apply NoDup_incl_length.
    - apply filter_keys_NoDup. apply (inv_sh s I).
    - intros k Hk. unfold keys in Hk. apply in_map_iff in Hk. destruct Hk as [[k' v] [E Hin]].
      simpl in E. subst k'. apply filter_In in Hin. destruct Hin as [Hin Hv]. simpl in Hv.
      apply N.eqb_eq in Hv. subst v.
      apply In_lookup in Hin; [|apply (inv_sh s I)].
      destruct (inv_votes s I k id r cur Hin Hr Ha Hc) as [Hd Hva].
      apply filter_In. split; [|exact Hva]. apply dedupN_In. apply memN_In. exact Hd. }
  unfold keys in Hlen. rewrite map_length in Hlen. lia.
Qed.

Lemma adopt_spec s id r :
  Inv s -> revs_of s id = Some (Some r) -> r_state r = Active ->
  exists s', adopt s id = inl s' /\ Inv s' /\ step_ok s s' /\
             i_timeline s' = i_timeline s /\ i_heads s' = i_heads s.
Proof.
  intros I Hr Ha. unfold adopt.
  destruct (inv_cur s I) as [cur [Hc Hcs]].
  destruct (N.eqb_spec (i_current s) id) as [E|NE].
  { exists s. split; [reflexivity|]. split; [exact I|]. split; [apply step_ok_refl|]. split; reflexivity. }
  unfold get_rev. unfold revs_of in *. rewrite Hc.
  destruct (is_majority (r_doc cur) _) eqn:Hmaj.
  2:{ exists s. split; [reflexivity|]. split; [exact I|]. split; [apply step_ok_refl|]. split; reflexivity. }
  rewrite Hr. eexists. split; [reflexivity|].
  set (revs' := map (fun kv => (fst kv, stale_active (snd kv)))
                  (insert id (Some (set_state Accepted r)) (i_revisions s))).
  assert (Hlk : forall x, lookup x revs' =
            option_map stale_active (if N.eqb x id then Some (Some (set_state Accepted r))
                                     else lookup x (i_revisions s))).
  { intros x. unfold revs'. change (map _ ?m) with (map_vals stale_active m).
    rewrite lookup_map_vals, lookup_insert by apply (inv_sr s I). reflexivity. }
  assert (Hna : forall x rx, lookup x revs' = Some (Some rx) -> r_state rx <> Active).
  { intros x rx Hx. rewrite Hlk in Hx. destruct (N.eqb x id).
    - simpl in Hx. inversion Hx; subst. simpl. congruence.
    - destruct (lookup x (i_revisions s)) as [[r0|]|]; simpl in Hx; try discriminate.
      destruct (is_active r0) eqn:Ea; inversion Hx; subst; simpl; [congruence|].
      unfold is_active in Ea. intros Hs0. rewrite Hs0 in Ea. discriminate. }
  assert (Hfrom : forall x rx, lookup x revs' = Some (Some rx) ->
            exists r0 st, lookup x (i_revisions s) = Some (Some r0) /\ rx = set_state st r0).
  { intros x rx Hx. rewrite Hlk in Hx. destruct (N.eqb_spec x id).
    - subst x. simpl in Hx. inversion Hx; subst. exists r, Accepted. split; [exact Hr | reflexivity].
    - destruct (lookup x (i_revisions s)) as [[r0|]|]; simpl in Hx; try discriminate.
      exists r0. destruct (is_active r0); injection Hx as <-.
      + exists Stale. split; reflexivity.
      + exists (r_state r0). split; [reflexivity | destruct r0; reflexivity]. }
  split; [|split; [|split; reflexivity]].
  - constructor; simpl; unfold revs_of; simpl; fold revs'.
    + unfold revs'. change (map _ ?m) with (map_vals stale_active m).
      apply sorted_map_vals, sorted_insert, (inv_sr s I).
    + apply (inv_sh s I).
    + intros x rx Hx. destruct (Hfrom _ _ Hx) as [r0 [st [H0 ->]]]. simpl.
      eapply (inv_sv s I). exact H0.
    + exists (set_state Accepted r). rewrite Hlk, N.eqb_refl. simpl. split; reflexivity.
    + intros x rx Hx. destruct (Hfrom _ _ Hx) as [r0 [st [H0 ->]]]. simpl.
      eapply (inv_id s I). exact H0.
    + intros x rx Hx Hact. exfalso. eapply Hna; eassumption.
    + intros k x Hk. rewrite Hlk. pose proof (inv_hm s I k x Hk) as Hm. unfold revs_of in Hm.
      destruct (N.eqb x id); simpl; [congruence|].
      destruct (lookup x (i_revisions s)); simpl; congruence.
    + intros k x rx cur' Hk Hx Hact. exfalso. eapply Hna; eassumption.
    + intros x rx Hx. destruct (Hfrom _ _ Hx) as [r0 [st [H0 ->]]]. simpl.
      eapply (inv_docs s I). exact H0.
  - split.
    + intros x rx Hx Hacc. unfold revs_of in *. simpl. fold revs'. rewrite Hlk.
      destruct (N.eqb_spec x id).
      * subst x. rewrite Hr in Hx. inversion Hx; subst. congruence.
      * rewrite Hx. simpl. unfold is_active. rewrite Hacc. reflexivity.
    + intros _. simpl. exists cur, (set_state Accepted r). unfold revs_of. simpl. fold revs'.
      rewrite Hlk, N.eqb_refl. simpl. repeat split; try assumption.
      * apply (inv_par s I id r Hr Ha).
      * pose proof (votes_bound s id r cur I Hr Ha Hc) as Hb.
        apply majority_strict in Hmaj.
        assert (valid_accepts (r_doc cur) (set_state Accepted r) = valid_accepts (r_doc cur) r) as ->
          by reflexivity.
        lia.
Qed.

(* ------------------------------------------------------------------ the arms of Identity::action *)

Lemma active_not_current s id r :
  Inv s -> revs_of s id = Some (Some r) -> r_state r = Active -> id <> i_current s.
Proof.
  intros I Hr Ha E. subst id. destruct (inv_cur s I) as [cur [Hc Hs]].
  rewrite Hr in Hc. inversion Hc; subst. congruence.
Qed.

Lemma parent_check_ok s id r cur :
  Inv s -> revs_of s id = Some (Some r) -> r_state r = Active ->
  revs_of s (i_current s) = Some (Some cur) ->
  optN_eqb (r_parent r) (Some (r_id cur)) = true.
Proof.
  intros I Hr Ha Hc. apply optN_eqb_eq.
  rewrite (inv_par s I id r Hr Ha), (inv_id s I _ _ Hc). reflexivity.
Qed.

Lemma is_active_true r : is_active r = true <-> r_state r = Active.
Proof. unfold is_active. apply rstate_eqb_eq. Qed.

(* --- accept: the state just before `adopt` *)
Lemma accept_pre_adopt s id r cur author sig :
  Inv s -> revs_of s id = Some (Some r) -> r_state r = Active ->
  revs_of s (i_current s) = Some (Some cur) ->
  verify_signature sig_ok (r_doc cur) author sig (r_blob r) = true ->
  let r' := set_verdicts (insert author (VAccept sig) (r_verdicts r)) r in
  let s1 := set_heads (insert author id (i_heads s)) s in
  let s2 := set_revisions (insert id (Some r') (i_revisions s1)) s1 in
  Inv s2 /\ accepted_kept s s2 /\ revs_of s2 id = Some (Some r') /\ r_state r' = Active.
Proof.
  intros I Hr Ha Hc Hv r' s1 s2.
  apply andb_true_iff in Hv. destruct Hv as [Hdel Hsig].
  pose proof (active_not_current s id r I Hr Ha) as Hne.
  assert (Hrev : forall x, revs_of s2 x = if N.eqb x id then Some (Some r') else revs_of s x).
  { intros x. unfold revs_of, s2, s1. simpl. apply lookup_insert. apply (inv_sr s I). }
  assert (Hhd : forall k, lookup k (i_heads s2) = if N.eqb k author then Some id else lookup k (i_heads s)).
  { intros k. unfold s2, s1. simpl. apply lookup_insert. apply (inv_sh s I). }
  assert (Hcur2 : revs_of s2 (i_current s2) = Some (Some cur)).
  { rewrite Hrev. change (i_current s2) with (i_current s).
    destruct (N.eqb_spec (i_current s) id); [congruence | exact Hc]. }
  split; [|split; [|split]].
  - constructor.
    + unfold s2, s1; simpl. apply sorted_insert, (inv_sr s I).
    + unfold s2, s1; simpl. apply sorted_insert, (inv_sh s I).
    + intros x rx. rewrite Hrev. destruct (N.eqb_spec x id).
      * intros E; inversion E; subst. simpl. apply sorted_insert. apply (inv_sv s I id r Hr).
      * apply (inv_sv s I).
    + exists cur. split; [exact Hcur2|]. destruct (inv_cur s I) as [c [C1 C2]]. congruence.
    + intros x rx. rewrite Hrev. destruct (N.eqb_spec x id).
      * intros E; inversion E; subst. simpl. apply (inv_id s I _ _ Hr).
      * apply (inv_id s I).
    + intros x rx. rewrite Hrev. change (i_current s2) with (i_current s). destruct (N.eqb_spec x id).
      * intros E; inversion E; subst. simpl. intros _. apply (inv_par s I _ _ Hr Ha).
      * apply (inv_par s I).
    + intros k x. rewrite Hhd, Hrev. destruct (N.eqb_spec k author).
      * intros E; inversion E; subst. rewrite N.eqb_refl. congruence.
      * intros Hk. destruct (N.eqb x id); [congruence | apply (inv_hm s I k x Hk)].
    + intros k x rx cur'. rewrite Hhd, Hcur2. rewrite Hrev. intros Hk Hx Hact Hcur'.
      inversion Hcur'; subst cur'.
      destruct (N.eqb_spec x id) as [->|Nx].
      * inversion Hx; subst rx. destruct (N.eqb_spec k author) as [Ek|Nk]; [subst k|].
        -- split; [exact Hdel|]. unfold valid_accept. simpl.
           rewrite lookup_insert by apply (inv_sv s I id r Hr). rewrite N.eqb_refl. exact Hsig.
        -- destruct (inv_votes s I k id r cur Hk Hr Ha Hc) as [V1 V2]. split; [exact V1|].
           unfold valid_accept in *. simpl.
           rewrite lookup_insert by apply (inv_sv s I id r Hr).
           destruct (N.eqb_spec k author); [congruence | exact V2].
      * destruct (N.eqb_spec k author) as [Ek|Nk]; [subst k|]; [inversion Hk; congruence|].
        apply (inv_votes s I k x rx cur Hk Hx Hact Hc).
    + intros x rx. rewrite Hrev. destruct (N.eqb_spec x id).
      * intros E; inversion E; subst. simpl. apply (inv_docs s I _ _ Hr).
      * apply (inv_docs s I).
  - intros x rx Hx Hacc. rewrite Hrev. destruct (N.eqb_spec x id); [|exact Hx].
    subst x. rewrite Hr in Hx. inversion Hx; subst. congruence.
  - rewrite Hrev, N.eqb_refl. reflexivity.
  - exact Ha.
Qed.

(* --- reject / edit: replace the revision by one with the same id, parent, blob, where every
   verdict of a key other than [author] is kept and [author] has no accepting vote on it *)
Lemma replace_active s id r r' author :
  Inv s -> revs_of s id = Some (Some r) -> r_state r = Active ->
  r_id r' = r_id r -> r_parent r' = r_parent r -> r_blob r' = r_blob r -> r_doc r' = r_doc r ->
  sorted (r_verdicts r') ->
  (forall k, k <> author -> lookup k (r_verdicts r') = lookup k (r_verdicts r)) ->
  (lookup author (r_verdicts r') = lookup author (r_verdicts r) \/ lookup author (r_verdicts r) = None) ->
  r_state r' <> Accepted ->
  let s' := set_revisions (insert id (Some r') (i_revisions s)) s in
  Inv s' /\ step_ok s s'.
Proof.
  intros I Hr Ha Eid Epar Eblob Edoc Hsv Hkeep Hauth Hnacc s'.
  pose proof (active_not_current s id r I Hr Ha) as Hne.
  assert (Hrev : forall x, revs_of s' x = if N.eqb x id then Some (Some r') else revs_of s x).
  { intros x. unfold revs_of, s'. simpl. apply lookup_insert. apply (inv_sr s I). }
  destruct (inv_cur s I) as [cur [Hc Hcs]].
  assert (Hcur2 : revs_of s' (i_current s') = Some (Some cur)).
  { rewrite Hrev. change (i_current s') with (i_current s).
    destruct (N.eqb_spec (i_current s) id); [congruence | exact Hc]. }
  split.
  - constructor.
    + unfold s'; simpl. apply sorted_insert, (inv_sr s I).
    + apply (inv_sh s I).
    + intros x rx. rewrite Hrev. destruct (N.eqb_spec x id).
      * intros E; inversion E; subst. exact Hsv.
      * apply (inv_sv s I).
    + exists cur. split; assumption.
    + intros x rx. rewrite Hrev. destruct (N.eqb_spec x id).
      * intros E; inversion E; subst. rewrite Eid. apply (inv_id s I _ _ Hr).
      * apply (inv_id s I).
    + intros x rx. rewrite Hrev. change (i_current s') with (i_current s). destruct (N.eqb_spec x id).
      * intros E; inversion E; subst. intros _. rewrite Epar. apply (inv_par s I _ _ Hr Ha).
      * apply (inv_par s I).
    + intros k x Hk. change (i_heads s') with (i_heads s) in Hk. rewrite Hrev.
      destruct (N.eqb x id); [congruence | apply (inv_hm s I k x Hk)].
    + intros k x rx cur'. change (i_heads s') with (i_heads s). rewrite Hcur2, Hrev.
      intros Hk Hx Hact Hcur'. inversion Hcur'; subst cur'.
      destruct (N.eqb_spec x id) as [->|Nx].
      * inversion Hx; subst rx.
        destruct (inv_votes s I k id r cur Hk Hr Ha Hc) as [V1 V2]. split; [exact V1|].
        unfold valid_accept in *. rewrite Eblob.
        destruct (N.eqb_spec k author) as [Ek|Nk]; [subst k|].
        -- destruct Hauth as [E|E]; [rewrite E; exact V2 | rewrite E in V2; discriminate].
        -- rewrite Hkeep by exact Nk. exact V2.
      * apply (inv_votes s I k x rx cur Hk Hx Hact Hc).
    + intros x rx. rewrite Hrev. destruct (N.eqb_spec x id).
      * intros E; inversion E; subst. rewrite Edoc. apply (inv_docs s I _ _ Hr).
      * apply (inv_docs s I).
  - split.
    + intros x rx Hx Hacc. rewrite Hrev. destruct (N.eqb_spec x id); [|exact Hx].
      subst x. rewrite Hr in Hx. inversion Hx; subst. congruence.
    + intros Hn. exfalso. apply Hn. reflexivity.
Qed.

(* --- redact *)
Lemma redact_ok s id r :
  Inv s -> revs_of s id = Some (Some r) -> id <> i_current s -> r_state r <> Accepted ->
  let s' := set_revisions (insert id None (i_revisions s)) s in
  Inv s' /\ step_ok s s'.
Proof.
  intros I Hr Hne Hnacc s'.
  assert (Hrev : forall x, revs_of s' x = if N.eqb x id then Some None else revs_of s x).
  { intros x. unfold revs_of, s'. simpl. apply lookup_insert. apply (inv_sr s I). }
  destruct (inv_cur s I) as [cur [Hc Hcs]].
  assert (Hcur2 : revs_of s' (i_current s') = Some (Some cur)).
  { rewrite Hrev. change (i_current s') with (i_current s).
    destruct (N.eqb_spec (i_current s) id); [congruence | exact Hc]. }
  split.
  - constructor.
    + unfold s'; simpl. apply sorted_insert, (inv_sr s I).
    + apply (inv_sh s I).
    + intros x rx. rewrite Hrev. destruct (N.eqb_spec x id); [discriminate | apply (inv_sv s I)].
    + exists cur. split; assumption.
    + intros x rx. rewrite Hrev. destruct (N.eqb_spec x id); [discriminate | apply (inv_id s I)].
    + intros x rx. rewrite Hrev. change (i_current s') with (i_current s).
      destruct (N.eqb_spec x id); [discriminate | apply (inv_par s I)].
    + intros k x Hk. change (i_heads s') with (i_heads s) in Hk. rewrite Hrev.
      destruct (N.eqb x id); [congruence | apply (inv_hm s I k x Hk)].
    + intros k x rx cur'. change (i_heads s') with (i_heads s). rewrite Hcur2, Hrev.
      intros Hk Hx Hact Hcur'. inversion Hcur'; subst cur'.
      destruct (N.eqb_spec x id); [discriminate|].
      apply (inv_votes s I k x rx cur Hk Hx Hact Hc).
    + intros x rx. rewrite Hrev. destruct (N.eqb_spec x id); [discriminate | apply (inv_docs s I)].
  - split.
    + intros x rx Hx Hacc. rewrite Hrev. destruct (N.eqb_spec x id); [|exact Hx].
      subst x. rewrite Hr in Hx. inversion Hx; subst. congruence.
    + intros Hn. exfalso. apply Hn. reflexivity.
Qed.

(* --- revision: the state just before `adopt` (or the final state of a stale proposal) *)
Lemma revision_pre_adopt s entry author text blob d pr p cur sig state :
  Inv s -> P d -> revs_of s entry = None ->
  revs_of s (i_current s) = Some (Some cur) -> is_delegate (r_doc cur) author = true ->
  revs_of s p = Some (Some pr) ->
  verify_signature sig_ok (r_doc pr) author sig blob = true ->
  state = (if N.eqb (r_id pr) (r_id cur) then Active else Stale) ->
  let r := mkRev entry blob text state author d (Some (r_id pr)) [(author, VAccept sig)] in
  let s1 := set_revisions (insert entry (Some r) (i_revisions s))
              (set_heads (insert author entry (i_heads s)) s) in
  Inv s1 /\ accepted_kept s s1 /\ revs_of s1 entry = Some (Some r).
Proof.
  intros I HPd Hfresh Hc Hdel Hp Hv Est r s1.
  apply andb_true_iff in Hv. destruct Hv as [Hdelp Hsig].
  assert (Hrev : forall x, revs_of s1 x = if N.eqb x entry then Some (Some r) else revs_of s x).
  { intros x. unfold revs_of, s1. simpl. apply lookup_insert. apply (inv_sr s I). }
  assert (Hhd : forall k, lookup k (i_heads s1) = if N.eqb k author then Some entry else lookup k (i_heads s)).
  { intros k. unfold s1. simpl. apply lookup_insert. apply (inv_sh s I). }
  assert (Hnecur : i_current s <> entry) by (intros E; rewrite E in Hc; congruence).
  assert (Hcur2 : revs_of s1 (i_current s1) = Some (Some cur)).
  { rewrite Hrev. change (i_current s1) with (i_current s).
    destruct (N.eqb_spec (i_current s) entry); [congruence | exact Hc]. }
  pose proof (inv_id s I _ _ Hp) as Eidp. pose proof (inv_id s I _ _ Hc) as Eidc.
  split; [|split].
  - constructor.
    + unfold s1; simpl. apply sorted_insert, (inv_sr s I).
    + unfold s1; simpl. apply sorted_insert, (inv_sh s I).
    + intros x rx. rewrite Hrev. destruct (N.eqb_spec x entry).
      * intros E; inversion E; subst. simpl. apply sorted_cons; [apply sorted_nil | constructor].
      * apply (inv_sv s I).
    + exists cur. split; [exact Hcur2|]. destruct (inv_cur s I) as [c [C1 C2]]. congruence.
    + intros x rx. rewrite Hrev. destruct (N.eqb_spec x entry).
      * intros E; inversion E; subst. reflexivity.
      * apply (inv_id s I).
    + intros x rx. rewrite Hrev. change (i_current s1) with (i_current s). destruct (N.eqb_spec x entry).
      * intros E; inversion E; subst rx. simpl. intros Hst. rewrite Hst in Est.
        destruct (N.eqb_spec (r_id pr) (r_id cur)) as [E2|]; [|discriminate]. congruence.
      * apply (inv_par s I).
    + intros k x. rewrite Hhd, Hrev. destruct (N.eqb_spec k author).
      * intros E; inversion E; subst. rewrite N.eqb_refl. congruence.
      * intros Hk. destruct (N.eqb x entry); [congruence | apply (inv_hm s I k x Hk)].
    + intros k x rx cur'. rewrite Hhd, Hcur2, Hrev. intros Hk Hx Hact Hcur'.
      inversion Hcur'; subst cur'.
      destruct (N.eqb_spec x entry) as [->|Nx].
      * inversion Hx; subst rx. destruct (N.eqb_spec k author) as [Ek|Nk]; [subst k|].
        -- split; [exact Hdel|]. unfold valid_accept. simpl. rewrite N.eqb_refl.
           exact Hsig.
        -- exfalso. apply (inv_hm s I k entry Hk). exact Hfresh.
      * destruct (N.eqb_spec k author) as [Ek|Nk]; [subst k|]; [inversion Hk; congruence|].
        apply (inv_votes s I k x rx cur Hk Hx Hact Hc).
    + intros x rx. rewrite Hrev. destruct (N.eqb_spec x entry).
      * intros E; inversion E; subst. simpl. exact HPd.
      * apply (inv_docs s I).
  - intros x rx Hx Hacc. rewrite Hrev. destruct (N.eqb_spec x entry); [|exact Hx].
    subst x. rewrite Hfresh in Hx. discriminate.
  - rewrite Hrev, N.eqb_refl. reflexivity.
Qed.

(* ------------------------------------------------------------------ Identity::action *)

Definition action_post (s s' : identity) (o : outcome) : Prop :=
  match o with
  | OOk => Inv s' /\ step_ok s s'
  | OErr EUnexpectedState | OErr ERedacted => s' = s
  | OErr _ => True
  | OPanic p => p = PSubOverflow /\
                exists id r, revs_of s id = Some (Some r) /\ d_delegates (r_doc r) = []
  end.

Lemma action_step_spec s a entry author :
  Inv s -> action_post s (fst (action_step s a entry author)) (snd (action_step s a entry author)).
Proof.
  intros I. unfold CobIdentity.action_step.
  destruct (inv_cur s I) as [cur [Hc Hcs]].
  unfold get_rev. unfold revs_of in Hc. rewrite Hc.
  destruct (is_delegate (r_doc cur) author) eqn:Hdel; simpl; [|reflexivity].
  destruct a as [text blob parent sig | id text | id sig | id | id].
  - (* revision *)
    destruct (mem entry (i_revisions s)) eqn:Hmem; simpl; [exact Logic.I|].
    apply mem_false_lookup in Hmem.
    destruct (blob_store blob) as [d| |] eqn:Hblob; simpl; try exact Logic.I.
    pose proof (blob_P _ _ Hblob) as HPd.
    destruct parent as [p|]; simpl; [|exact Logic.I].
    destruct (lookup p (i_revisions s)) as [[pr|]|] eqn:Hp; simpl; try exact Logic.I; [|reflexivity].
    destruct (N.eqb (r_id pr) (r_id cur) && doc_eqb d (r_doc pr)) eqn:Hun; simpl; [exact Logic.I|].
    destruct (verify_signature sig_ok (r_doc pr) author sig blob) eqn:Hv; simpl; [|exact Logic.I].
    destruct (revision_pre_adopt s entry author text blob d pr p cur sig
                (if N.eqb (r_id pr) (r_id cur) then Active else Stale)
                I HPd Hmem Hc Hdel Hp Hv eq_refl) as [I1 [K1 R1]].
    destruct (N.eqb (r_id pr) (r_id cur)) eqn:Esame.
    + match goal with |- context [adopt ?s1 entry] =>
        destruct (adopt_spec s1 entry _ I1 R1 eq_refl) as [s2 [E2 [I2 [S2 _]]]]; rewrite E2 end.
      simpl. split; [exact I2|]. refine (step_ok_trans_same _ _ _ I _ K1 S2); reflexivity.
    + simpl. split; [exact I1|]. split; [exact K1 | intros Hn; exfalso; apply Hn; reflexivity].
  - (* edit *)
    destruct (N.eqb_spec id (i_current s)) as [E|NE]; simpl; [exact Logic.I|].
    destruct (lookup id (i_revisions s)) as [[r|]|] eqn:Hr; simpl; try exact Logic.I; [|reflexivity].
    destruct (is_active r) eqn:Ha; simpl; [|reflexivity]. apply is_active_true in Ha.
    destruct (N.eqb (r_author r) author); simpl; [|exact Logic.I].
    rewrite (parent_check_ok s id r cur I Hr Ha Hc). simpl.
    apply (replace_active s id r (set_text text r) author I Hr Ha); try reflexivity.
    + apply (inv_sv s I id r Hr).
    + left; reflexivity.
    + simpl. congruence.
  - (* accept *)
    destruct (lookup id (i_revisions s)) as [[r|]|] eqn:Hr; simpl; try exact Logic.I; [|reflexivity].
    destruct (is_active r) eqn:Ha; simpl; [|reflexivity]. apply is_active_true in Ha.
    rewrite (parent_check_ok s id r cur I Hr Ha Hc). simpl.
    destruct (verify_signature sig_ok (r_doc cur) author sig (r_blob r)) eqn:Hv; simpl; [|exact Logic.I].
    destruct (mem author (r_verdicts r)) eqn:Hm; simpl; [exact Logic.I|].
    destruct (accept_pre_adopt s id r cur author sig I Hr Ha Hc Hv) as [I2 [K2 [R2 A2]]].
    match goal with |- context [adopt ?s2 id] =>
      destruct (adopt_spec s2 id _ I2 R2 A2) as [s3 [E3 [I3 [S3 _]]]]; rewrite E3 end.
    simpl. split; [exact I3|]. refine (step_ok_trans_same _ _ _ I _ K2 S3); reflexivity.
  - (* reject *)
    destruct (lookup id (i_revisions s)) as [[r|]|] eqn:Hr; simpl; try exact Logic.I; [|reflexivity].
    destruct (is_active r) eqn:Ha; simpl; [|reflexivity]. apply is_active_true in Ha.
    rewrite (parent_check_ok s id r cur I Hr Ha Hc). simpl.
    destruct (mem author (r_verdicts r)) eqn:Hm; simpl; [exact Logic.I|].
    apply mem_false_lookup in Hm.
    set (r1 := set_verdicts (insert author VReject (r_verdicts r)) r).
    assert (Hk : forall k, k <> author -> lookup k (r_verdicts r1) = lookup k (r_verdicts r)).
    { intros k Hk. unfold r1. simpl. rewrite lookup_insert by apply (inv_sv s I id r Hr).
      destruct (N.eqb_spec k author); [congruence | reflexivity]. }
    assert (Hs1 : sorted (r_verdicts r1)) by (apply sorted_insert, (inv_sv s I id r Hr)).
    destruct (is_active r1) eqn:Ha1.
    2:{ simpl. apply (replace_active s id r r1 author I Hr Ha); try reflexivity; try assumption.
        - right; exact Hm.
        - unfold r1; simpl. congruence. }
    destruct (ndelegates (r_doc r) <? majority (r_doc r)) eqn:Hov; simpl.
    { split; [reflexivity|]. exists id, r. split; [exact Hr | apply sub_overflow_empty; exact Hov]. }
    destruct (ndelegates (r_doc r) - majority (r_doc r) <? count_rejected r1); simpl.
    + apply (replace_active s id r (set_state Rejected r1) author I Hr Ha); try reflexivity; try assumption.
      * right; exact Hm.
      * simpl. congruence.
    + apply (replace_active s id r r1 author I Hr Ha); try reflexivity; try assumption.
      * right; exact Hm.
      * unfold r1; simpl. congruence.
  - (* redact *)
    destruct (N.eqb_spec id (i_current s)) as [E|NE]; simpl; [reflexivity|].
    destruct (lookup id (i_revisions s)) as [[r|]|] eqn:Hr; simpl; try exact Logic.I.
    + destruct (is_accepted r) eqn:Hacc; simpl; [reflexivity|].
      destruct (N.eqb (r_author r) author); simpl; [|exact Logic.I].
      apply (redact_ok s id r I Hr NE).
      unfold is_accepted in Hacc. intros E. rewrite E in Hacc. discriminate.
    + split; [exact I | apply step_ok_refl].
Qed.

(* ------------------------------------------------------------------ Identity::op *)

Notation loop_trace := (loop_trace sig_ok blob_store).
Notation op_trace := (op_trace sig_ok blob_store).
Notation run_trace := (run_trace sig_ok blob_store).

Lemma Inv_push e s : Inv s -> Inv (push_timeline e s).
Proof. intros [H1 H2 H3 H4 H5 H6 H7 H8 H9]. constructor; assumption. Qed.

Definition internal_panic (o : outcome) : Prop :=
  o = OPanic PCurrent \/ o = OPanic PCurrentMut \/ o = OPanic PAssertParent.

Definition astep_ok (x : astep) : Prop :=
  match x with (pre, author, a, post) => Inv pre /\ step_ok pre post end.

Lemma op_decide_none conc o : op_decide conc o = None ->
  o = OOk \/ o = OErr EUnexpectedState \/ o = OErr ERedacted.
Proof.
  destruct o as [|e|p]; simpl; [auto| |discriminate].
  destruct e; try discriminate; auto.
Qed.

Lemma op_decide_some conc o out : op_decide conc o = Some out -> out = o.
Proof.
  destruct o as [|e|p]; simpl; [discriminate| |congruence].
  destruct e; try congruence. destruct conc; congruence.
Qed.

Lemma op_loop_spec dbg id author conc acts : forall s, Inv s ->
  (snd (op_loop dbg s id author conc acts) = OOk -> Inv (fst (op_loop dbg s id author conc acts))) /\
  ~ internal_panic (snd (op_loop dbg s id author conc acts)) /\
  Forall astep_ok (loop_trace dbg s id author conc acts).
Proof.
  induction acts as [|a rest IH]; intros s I; simpl.
  - split; [intros _; exact I|]. split; [|constructor].
    intros [H|[H|H]]; discriminate.
  - pose proof (action_step_spec s a id author I) as Hs.
    destruct (action_step s a id author) as [s1 o]. simpl in Hs.
    destruct (op_decide conc o) as [out|] eqn:Hd.
    + pose proof (op_decide_some _ _ _ Hd) as Eo. subst out. simpl.
      split; [|split; [|constructor]].
      * intros Eok. rewrite Eok in Hd. simpl in Hd. discriminate.
      * destruct o as [|e|p]; [simpl in Hd; discriminate| |].
        -- intros [H|[H|H]]; discriminate.
        -- simpl in Hs. destruct Hs as [-> _]. intros [H|[H|H]]; discriminate.
    + apply op_decide_none in Hd.
      assert (I1 : Inv s1 /\ step_ok s s1).
      { destruct Hd as [->|[->| ->]]; simpl in Hs.
        - exact Hs.
        - subst s1. split; [exact I | apply step_ok_refl].
        - subst s1. split; [exact I | apply step_ok_refl]. }
      destruct I1 as [I1 S1].
      destruct (dbg && memN id (i_timeline s1)); simpl.
      * split; [discriminate|]. split; [intros [H|[H|H]]; discriminate|].
        constructor; [split; assumption | constructor].
      * destruct (IH (push_timeline id s1) (Inv_push id s1 I1)) as [A [B C]].
        split; [exact A|]. split; [exact B|]. constructor; [split; assumption | exact C].
Qed.

Lemma apply_op_spec dbg s o : Inv s ->
  Inv (fst (apply_op dbg s o)) /\ ~ internal_panic (snd (apply_op dbg s o)) /\
  Forall astep_ok (op_trace dbg s o).
Proof.
  intros I. unfold CobIdentity.op_trace. unfold CobIdentity.apply_op.
  destruct (op_loop_spec dbg (o_id o) (o_author o) (o_conc o) (o_actions o) s I) as [A [B C]].
  destruct (op_loop dbg s (o_id o) (o_author o) (o_conc o) (o_actions o)) as [s' out].
  simpl in *. destruct out; simpl.
  - split; [apply A; reflexivity|]. split; [exact B | exact C].
  - split; [exact I|]. split; [exact B | constructor].
  - split; [exact I|]. split; [exact B | constructor].
Qed.

Lemma run_trace_spec dbg ops : forall s, Inv s -> Forall astep_ok (run_trace dbg s ops).
Proof.
  induction ops as [|o rest IH]; intros s I; simpl; [constructor|].
  destruct (apply_op_spec dbg s o I) as [A [B C]].
  destruct (apply_op dbg s o) as [s' out]. simpl in *.
  destruct out; try constructor; apply Forall_app; split; auto.
Qed.

Lemma run_ops_no_internal_panic dbg ops : forall s, Inv s ->
  Forall (fun x => ~ internal_panic (fst x)) (run_ops dbg s ops).
Proof.
  induction ops as [|o rest IH]; intros s I; simpl; [constructor|].
  destruct (apply_op_spec dbg s o I) as [A [B C]].
  destruct (apply_op dbg s o) as [s' out]. simpl in *.
  destruct out; constructor; simpl; auto; constructor.
Qed.

Lemma run_ops_inv dbg ops : forall s, Inv s -> Forall (fun x => Inv (snd x)) (run_ops dbg s ops).
Proof.
  induction ops as [|o rest IH]; intros s I; simpl; [constructor|].
  destruct (apply_op_spec dbg s o I) as [A [B C]].
  destruct (apply_op dbg s o) as [s' out]. simpl in *.
  destruct out; constructor; simpl; auto; constructor.
Qed.

(* ------------------------------------------------------------------ Identity::from_root *)

Lemma fold_insert_heads (v : N) (l : list N) : forall h : smap N,
  sorted h -> (forall k x, lookup k h = Some x -> x = v) ->
  sorted (fold_left (fun h k => insert k v h) l h) /\
  (forall k x, lookup k (fold_left (fun h k => insert k v h) l h) = Some x -> x = v).
Proof.
  induction l as [|k0 l IH]; intros h Hs Hv; simpl; [split; assumption|].
  apply IH; [apply sorted_insert; exact Hs|].
  intros k x. rewrite lookup_insert by exact Hs.
  destruct (N.eqb k k0); [congruence | apply Hv].
Qed.

Lemma from_root_inv n s0 :
  (forall b d, n_load n = LDoc b d -> P d) -> from_root n = inl s0 -> Inv s0.
Proof.
  intros Hroot. unfold CobIdentity.from_root.
  destruct (o_actions (n_op n)) as [|[text blob parent sig| | | |] rest]; try discriminate.
  destruct parent; [discriminate|]. destruct rest; [|discriminate].
  destruct (n_load n) as [rblob rdoc|]; [|discriminate].
  specialize (Hroot rblob rdoc eq_refl).
  destruct (negb (rblob =? blob)); [discriminate|].
  destruct (negb (rblob =? n_repo_id n)); [discriminate|].
  destruct (d_delegates rdoc) as [|founder ds] eqn:Hds; [discriminate|].
  destruct (negb (founder =? o_author (n_op n))); [discriminate|].
  destruct (negb (verify_signature sig_ok rdoc founder sig rblob)); [discriminate|].
  intros E. inversion E; subst s0; clear E.
  set (root := o_id (n_op n)).
  destruct (fold_insert_heads root (founder :: ds) [] sorted_nil ltac:(simpl; discriminate)) as [Hsh Hhv].
  constructor; unfold revs_of; simpl.
  - apply sorted_cons; [apply sorted_nil | constructor].
  - exact Hsh.
  - intros x r. destruct (N.eqb x root); [|discriminate]. intros E; inversion E; subst. simpl.
    apply sorted_cons; [apply sorted_nil | constructor].
  - eexists. rewrite N.eqb_refl. split; reflexivity.
  - intros x r. destruct (N.eqb_spec x root); [|discriminate]. intros E; inversion E; subst. reflexivity.
  - intros x r. destruct (N.eqb x root); [|discriminate]. intros E; inversion E; subst. simpl. discriminate.
  - intros k x Hk. apply Hhv in Hk. subst x. fold root. rewrite N.eqb_refl. discriminate.
  - intros k x r cur Hk. apply Hhv in Hk. subst x. fold root. rewrite N.eqb_refl.
    intros E; inversion E; subst. simpl. discriminate.
  - intros x r. destruct (N.eqb x root); [|discriminate]. intros E; inversion E; subst. exact Hroot.
Qed.

(* ------------------------------------------------------------------ the C04 statements *)

Lemma get_rev_revs_of s id r : get_rev s id = Some r <-> revs_of s id = Some (Some r).
Proof.
  unfold get_rev, revs_of. destruct (lookup id (i_revisions s)) as [[x|]|]; split; congruence.
Qed.

Theorem adoption_needs_majority dbg n s0 ops pre author a post :
  (forall b d, n_load n = LDoc b d -> P d) ->
  from_root n = inl s0 ->
  In (pre, author, a, post) (run_trace dbg s0 ops) ->
  i_current post <> i_current pre ->
  exists prev r, get_rev pre (i_current pre) = Some prev /\
                 get_rev post (i_current post) = Some r /\
                 2 * valid_accepts (r_doc prev) r > ndelegates (r_doc prev).
Proof.
  intros HP Hroot Hin Hne. apply (from_root_inv _ _ HP) in Hroot.
  pose proof (run_trace_spec dbg ops s0 Hroot) as Hall. rewrite Forall_forall in Hall.
  destruct (Hall _ Hin) as [I [_ Had]]. destruct (Had Hne) as [prev [r [P1 [P2 [_ [_ P5]]]]]].
  exists prev, r. rewrite !get_rev_revs_of. auto.
Qed.

Theorem current_stable dbg n s0 ops pre author a post :
  (forall b d, n_load n = LDoc b d -> P d) ->
  from_root n = inl s0 ->
  In (pre, author, a, post) (run_trace dbg s0 ops) ->
  (exists cur, get_rev pre (i_current pre) = Some cur /\ r_state cur = Accepted /\
               get_rev post (i_current pre) = Some cur) /\
  (forall id r, get_rev pre id = Some r -> r_state r = Accepted -> get_rev post id = Some r) /\
  (i_current post <> i_current pre ->
     exists r, get_rev post (i_current post) = Some r /\ r_parent r = Some (i_current pre) /\
               r_state r = Accepted).
Proof.
  intros HP Hroot Hin. apply (from_root_inv _ _ HP) in Hroot.
  pose proof (run_trace_spec dbg ops s0 Hroot) as Hall. rewrite Forall_forall in Hall.
  destruct (Hall _ Hin) as [I [Hk Had]]. split; [|split].
  - destruct (inv_cur pre I) as [cur [C1 C2]]. exists cur. rewrite !get_rev_revs_of.
    repeat split; auto.
  - intros id r. rewrite !get_rev_revs_of. apply Hk.
  - intros Hne. destruct (Had Hne) as [prev [r [P1 [P2 [P3 [P4 _]]]]]].
    exists r. rewrite get_rev_revs_of. auto.
Qed.

Theorem no_internal_panic dbg n s0 ops :
  (forall b d, n_load n = LDoc b d -> P d) ->
  from_root n = inl s0 ->
  Forall (fun x => ~ internal_panic (fst x)) (run_ops dbg s0 ops).
Proof. intros HP H. apply run_ops_no_internal_panic. eapply from_root_inv; eassumption. Qed.

(* --- when every document has a delegate, the only panic left is the debug-only
   timeline assertion *)
Section NonEmpty.
Hypothesis P_nonempty : forall d, P d -> d_delegates d <> [].

Lemma action_no_panic s a entry author p :
  Inv s -> snd (action_step s a entry author) <> OPanic p.
Proof.
  intros I E. pose proof (action_step_spec s a entry author I) as Hs. rewrite E in Hs.
  simpl in Hs. destruct Hs as [_ [id [r [Hr He]]]].
  apply (P_nonempty _ (inv_docs s I id r Hr)). exact He.
Qed.

Lemma op_loop_panic dbg id author conc acts : forall s p, Inv s ->
  snd (op_loop dbg s id author conc acts) = OPanic p -> p = PDebugTimeline /\ dbg = true.
Proof.
  induction acts as [|a rest IH]; intros s p I; simpl; [discriminate|].
  pose proof (action_step_spec s a id author I) as Hs.
  pose proof (action_no_panic s a id author) as Hnp.
  destruct (action_step s a id author) as [s1 o]. simpl in Hs, Hnp.
  destruct (op_decide conc o) as [out|] eqn:Hd.
  - pose proof (op_decide_some _ _ _ Hd) as Eo. subst out. simpl. intros E. exfalso.
    eapply Hnp; [exact I | exact E].
  - apply op_decide_none in Hd.
    assert (I1 : Inv s1).
    { destruct Hd as [->|[->| ->]]; simpl in Hs.
      - apply Hs.
      - subst s1. exact I.
      - subst s1. exact I. }
    destruct dbg; simpl.
    + destruct (memN id (i_timeline s1)); simpl.
      * intros E; inversion E. split; reflexivity.
      * intros E. destruct (IH _ _ (Inv_push id s1 I1) E) as [A _]. split; [exact A | reflexivity].
    + intros E. apply (IH _ _ (Inv_push id s1 I1) E).
Qed.

Lemma run_ops_panic dbg ops : forall s, Inv s ->
  Forall (fun x => forall p, fst x = OPanic p -> p = PDebugTimeline /\ dbg = true) (run_ops dbg s ops).
Proof.
  induction ops as [|o rest IH]; intros s I; simpl; [constructor|].
  destruct (apply_op_spec dbg s o I) as [A _].
  pose proof (op_loop_panic dbg (o_id o) (o_author o) (o_conc o) (o_actions o) s) as Hp.
  unfold CobIdentity.apply_op in *.
  destruct (op_loop dbg s (o_id o) (o_author o) (o_conc o) (o_actions o)) as [s' out]. simpl in *.
  destruct out as [|e|p0]; simpl in *.
  - constructor; [simpl; discriminate | apply IH; exact A].
  - constructor; [simpl; discriminate | apply IH; exact A].
  - constructor; [|constructor]. simpl. intros p E. inversion E; subst. apply Hp; [exact I | reflexivity].
Qed.

End NonEmpty.

(* --- operations by keys that are not delegates of the current document *)

Definition same_core (a b : identity) : Prop :=
  i_current a = i_current b /\ i_revisions a = i_revisions b /\ i_heads a = i_heads b.

Lemma nondelegate_action s a entry author cur :
  get_rev s (i_current s) = Some cur -> is_delegate (r_doc cur) author = false ->
  action_step s a entry author = (s, OErr EUnexpectedState).
Proof. intros Hc Hd. unfold CobIdentity.action_step. rewrite Hc, Hd. reflexivity. Qed.

Lemma nondelegate_loop dbg id author conc acts : forall s cur,
  get_rev s (i_current s) = Some cur -> is_delegate (r_doc cur) author = false ->
  same_core (fst (op_loop dbg s id author conc acts)) s /\
  Forall (fun x => match x with (pre, _, _, post) => post = pre end) (loop_trace dbg s id author conc acts).
Proof.
  induction acts as [|a rest IH]; intros s cur Hc Hd; simpl.
  - split; [repeat split | constructor].
  - rewrite (nondelegate_action s a id author cur Hc Hd). simpl.
    destruct conc; simpl; [|split; [repeat split | constructor]].
    destruct (dbg && memN id (i_timeline s)); simpl.
    + split; [repeat split|]. constructor; [reflexivity | constructor].
    + destruct (IH (push_timeline id s) cur Hc Hd) as [[A [B C]] D].
      split; [repeat split; assumption|]. constructor; [reflexivity | exact D].
Qed.

Theorem non_delegate_no_effect dbg s o cur :
  get_rev s (i_current s) = Some cur -> is_delegate (r_doc cur) (o_author o) = false ->
  same_core (fst (apply_op dbg s o)) s.
Proof.
  intros Hc Hd. unfold CobIdentity.apply_op.
  destruct (nondelegate_loop dbg (o_id o) (o_author o) (o_conc o) (o_actions o) s cur Hc Hd) as [A _].
  destruct (op_loop dbg s (o_id o) (o_author o) (o_conc o) (o_actions o)) as [s' out]. simpl in *.
  destruct out; simpl; [exact A | repeat split | repeat split].
Qed.

Lemma loop_trace_author dbg id author conc acts : forall s,
  Forall (fun x => match x with (_, au, _, _) => au = author end) (loop_trace dbg s id author conc acts).
Proof.
  induction acts as [|a rest IH]; intros s; simpl; [constructor|].
  destruct (action_step s a id author) as [s1 o]. destruct (op_decide conc o); [constructor|].
  constructor; [reflexivity|]. destruct (dbg && memN id (i_timeline s1)); [constructor | apply IH].
Qed.

(* in a whole history: an executed action whose author is not a delegate of the document that
   is current at that moment changes nothing *)
Theorem non_delegate_no_effect_trace dbg n s0 ops pre author a post cur :
  from_root n = inl s0 ->
  In (pre, author, a, post) (run_trace dbg s0 ops) ->
  get_rev pre (i_current pre) = Some cur -> is_delegate (r_doc cur) author = false ->
  post = pre.
Proof.
  intros _ Hin Hc Hd. revert s0 Hin. induction ops as [|o rest IH]; intros s0 Hin; simpl in Hin; [tauto|].
  destruct (apply_op dbg s0 o) as [s' out] eqn:Eop.
  assert (Hcases : In (pre, author, a, post) (op_trace dbg s0 o) \/ In (pre, author, a, post) (run_trace dbg s' rest)).
  { destruct out; try (apply in_app_or in Hin; exact Hin). simpl in Hin. tauto. }
  destruct Hcases as [H|H]; [|eapply IH; exact H].
  unfold CobIdentity.op_trace in H. destruct (snd (apply_op dbg s0 o)); try (simpl in H; tauto).
  clear Eop IH Hin. revert s0 H.
  generalize (o_actions o) as acts. induction acts as [|a0 acts IHa]; intros s0 H; simpl in H; [tauto|].
  destruct (action_step s0 a0 (o_id o) (o_author o)) as [s1 o1] eqn:Ea.
  destruct (op_decide (o_conc o) o1); [simpl in H; tauto|].
  destruct H as [H|H].
  - inversion H; subst. rewrite (nondelegate_action pre a (o_id o) (o_author o) cur Hc Hd) in Ea.
    inversion Ea. reflexivity.
  - destruct (dbg && memN (o_id o) (i_timeline s1)); [simpl in H; tauto|]. eapply IHa. exact H.
Qed.

End Proofs.

(* ------------------------------------------------------------------ instances *)

Definition any_doc (_ : doc) : Prop := True.

Theorem adoption_needs_majority_any sig_ok blob_store dbg n s0 ops pre author a post :
  from_root sig_ok n = inl s0 ->
  In (pre, author, a, post) (run_trace sig_ok blob_store dbg s0 ops) ->
  i_current post <> i_current pre ->
  exists prev r, get_rev pre (i_current pre) = Some prev /\
                 get_rev post (i_current post) = Some r /\
                 2 * valid_accepts sig_ok (r_doc prev) r > ndelegates (r_doc prev).
Proof.
  apply (adoption_needs_majority sig_ok blob_store any_doc (fun _ _ _ => I)). intros; exact I.
Qed.

Theorem current_stable_any sig_ok blob_store dbg n s0 ops pre author a post :
  from_root sig_ok n = inl s0 ->
  In (pre, author, a, post) (run_trace sig_ok blob_store dbg s0 ops) ->
  (exists cur, get_rev pre (i_current pre) = Some cur /\ r_state cur = Accepted /\
               get_rev post (i_current pre) = Some cur) /\
  (forall id r, get_rev pre id = Some r -> r_state r = Accepted -> get_rev post id = Some r) /\
  (i_current post <> i_current pre ->
     exists r, get_rev post (i_current post) = Some r /\ r_parent r = Some (i_current pre) /\
               r_state r = Accepted).
Proof.
  apply (current_stable sig_ok blob_store any_doc (fun _ _ _ => I)). intros; exact I.
Qed.

Theorem no_internal_panic_any sig_ok blob_store dbg n s0 ops :
  from_root sig_ok n = inl s0 ->
  Forall (fun x => ~ internal_panic (fst x)) (run_ops sig_ok blob_store dbg s0 ops).
Proof.
  apply (no_internal_panic sig_ok blob_store any_doc (fun _ _ _ => I)). intros; exact I.
Qed.

Lemma from_root_nonempty sig_ok n s0 : from_root sig_ok n = inl s0 ->
  forall b d, n_load n = LDoc b d -> d_delegates d <> [].
Proof.
  unfold from_root.
  destruct (o_actions (n_op n)) as [|[text blob parent sig| | | |] rest]; try discriminate.
  destruct parent; [discriminate|]. destruct rest; [|discriminate].
  destruct (n_load n) as [rblob rdoc|]; [|discriminate].
  destruct (negb (rblob =? blob)); [discriminate|].
  destruct (negb (rblob =? n_repo_id n)); [discriminate|].
  destruct (d_delegates rdoc) as [|founder ds] eqn:Hds; [discriminate|].
  intros _ b d E. inversion E; subst. rewrite Hds. discriminate.
Qed.

(* every document has a delegate (Delegates::new refuses an empty list): the only panic that
   can happen in any history is the debug-only assertion on the timeline (an operation with
   several actions evaluated by a debug build) *)
Theorem only_debug_panic sig_ok blob_store dbg n s0 ops :
  (forall b d, blob_store b = BDoc d -> d_delegates d <> []) ->
  from_root sig_ok n = inl s0 ->
  Forall (fun x => forall p, fst x = OPanic p -> p = PDebugTimeline /\ dbg = true)
         (run_ops sig_ok blob_store dbg s0 ops).
Proof.
  intros Hb Hroot.
  apply (run_ops_panic sig_ok blob_store (fun d => d_delegates d <> []) Hb (fun d H => H)).
  apply (from_root_inv sig_ok (fun d => d_delegates d <> []) n s0); [|exact Hroot].
  apply (from_root_nonempty sig_ok n s0 Hroot).
Qed.
