(* DagTraverse.v — the depth-first traversal of model/Dag.v ([dfs], i.e. Rust's
   `visit` / `visit_by`):
   - the fuel [S (size g)] always suffices (any graph, cyclic or not);
   - on a well-formed graph the order it produces is duplicate-free, closed
     under dependents, and lists every node before all of its dependents;
   - hence `sorted_by` is a topological order of all keys for ANY comparison. *)
From HW Require Import lib.Base lib.SMap model.Dag proofs.DagBase.
From Coq Require Import Sorted Permutation Relations.

Lemma filter_len_mono {A} (f f' : A -> bool) l :
  (forall x, In x l -> f' x = true -> f x = true) ->
  (length (filter f' l) <= length (filter f l))%nat.
Proof.
  induction l as [|x l IH]; simpl; intros H; [lia|].
  assert (IH' := IH (fun y Hy => H y (or_intror Hy))).
  destruct (f' x) eqn:E'.
  - rewrite (H x (or_introl eq_refl) E'). simpl. lia.
  - destruct (f x); simpl; lia.
Qed.

Lemma filter_len_strict {A} (f f' : A -> bool) l x :
  (forall y, In y l -> f' y = true -> f y = true) ->
  In x l -> f x = true -> f' x = false ->
  (length (filter f' l) < length (filter f l))%nat.
Proof.
  induction l as [|y l IH]; simpl; intros H Hin Hf Hf'; [tauto|].
  assert (Hmono := filter_len_mono f f' l (fun z Hz => H z (or_intror Hz))).
  destruct Hin as [->|Hin].
  - rewrite Hf, Hf'. simpl. lia.
  - assert (IH' := IH (fun z Hz => H z (or_intror Hz)) Hin Hf Hf').
    destruct (f' y) eqn:E'.
    + rewrite (H y (or_introl eq_refl) E'). simpl. lia.
    + destruct (f y); simpl; lia.
Qed.

Section Traverse.
Context {V : Type}.
Implicit Types (g : dag V) (nd : node V) (st : vstate).

(* ------------------------------------------------------------------ *)
(** * Unfolding lemmas *)

Lemma obind_fold_none {A} (F : N -> A -> option A) l :
  fold_left (fun acc k => obind acc (F k)) l None = None.
Proof. induction l; simpl; auto. Qed.

Lemma dfs_list_nil children fuel g st : dfs_list children fuel g [] st = Some st.
Proof. reflexivity. Qed.

Lemma dfs_list_cons children fuel g k ks st :
  dfs_list children fuel g (k :: ks) st =
  match dfs children fuel g k st with
  | Some s => dfs_list children fuel g ks s
  | None => None
  end.
Proof.
  unfold dfs_list. simpl. destruct (dfs children fuel g k st); simpl; [reflexivity|].
  apply obind_fold_none.
Qed.

Lemma dfs_unfold children f g key st :
  dfs children (S f) g key st =
  if sset_mem key (fst st) then Some st
  else match lookup key (graph g) with
       | Some nd =>
           match dfs_list children f g (children nd) (sset_add key (fst st), snd st) with
           | Some s2 => Some (fst s2, key :: snd s2)
           | None => None
           end
       | None => Some (sset_add key (fst st), key :: snd st)
       end.
Proof. reflexivity. Qed.

(* ------------------------------------------------------------------ *)
(** * Fuel: the recursion depth is bounded by the number of unvisited nodes *)

Definition unvisited g (vis : sset) : nat :=
  length (filter (fun k => negb (sset_mem k vis)) (keys (graph g))).

Definition vis_mono st st' : Prop :=
  forall k, sset_mem k (fst st) = true -> sset_mem k (fst st') = true.

Lemma unvisited_mono g (v v' : sset) :
  (forall k, sset_mem k v = true -> sset_mem k v' = true) ->
  (unvisited g v' <= unvisited g v)%nat.
Proof.
  intros H. apply filter_len_mono. intros x _ Hx.
  destruct (sset_mem x v) eqn:E; [|reflexivity]. rewrite (H _ E) in Hx. discriminate.
Qed.

Lemma unvisited_add g (v : sset) key nd : sorted v ->
  lookup key (graph g) = Some nd -> sset_mem key v = false ->
  (unvisited g (sset_add key v) < unvisited g v)%nat.
Proof.
  intros Hs Hl Hm. apply (filter_len_strict _ _ _ key).
  - intros y _ Hy. rewrite sset_mem_add in Hy by exact Hs.
    destruct (sset_mem y v); [|reflexivity]. rewrite orb_true_r in Hy. discriminate.
  - eapply lookup_Some_keys; exact Hl.
  - rewrite Hm. reflexivity.
  - rewrite sset_mem_add by exact Hs. rewrite N.eqb_refl. reflexivity.
Qed.

Definition total_at children f g : Prop :=
  forall key st, sorted (fst st) -> (unvisited g (fst st) < f)%nat ->
  exists st', dfs children f g key st = Some st' /\ sorted (fst st') /\ vis_mono st st'.

Lemma dfs_list_total_aux children f g : total_at children f g ->
  forall ks st, sorted (fst st) -> (unvisited g (fst st) < f)%nat ->
  exists st', dfs_list children f g ks st = Some st' /\ sorted (fst st') /\ vis_mono st st'.
Proof.
  intros Ht ks. induction ks as [|k ks IH]; intros st Hs Hu.
  - exists st. repeat split; auto. intros k Hk; exact Hk.
  - rewrite dfs_list_cons. destruct (Ht k st Hs Hu) as [s1 [E1 [Hs1 Hm1]]]. rewrite E1.
    assert (Hu1 : (unvisited g (fst s1) < f)%nat).
    { pose proof (unvisited_mono g (fst st) (fst s1) Hm1). lia. }
    destruct (IH s1 Hs1 Hu1) as [s2 [E2 [Hs2 Hm2]]].
    exists s2. repeat split; auto. intros x Hx. apply Hm2, Hm1, Hx.
Qed.

Lemma dfs_total children g : forall f, total_at children f g.
Proof.
  induction f as [|f IH]; intros key st Hs Hu; [lia|].
  rewrite dfs_unfold. destruct (sset_mem key (fst st)) eqn:Em.
  - exists st. repeat split; auto. intros k Hk; exact Hk.
  - assert (Hmono1 : forall k, sset_mem k (fst st) = true -> sset_mem k (sset_add key (fst st)) = true).
    { intros k Hk. rewrite sset_mem_add by exact Hs. rewrite Hk. apply orb_true_r. }
    destruct (lookup key (graph g)) as [nd|] eqn:El.
    + pose proof (unvisited_add g (fst st) key nd Hs El Em) as Hlt.
      destruct (dfs_list_total_aux children f g IH (children nd) (sset_add key (fst st), snd st))
        as [s2 [E2 [Hs2 Hm2]]].
      * simpl. apply sorted_sset_add. exact Hs.
      * simpl. lia.
      * rewrite E2. exists (fst s2, key :: snd s2). repeat split; auto.
        intros k Hk. simpl. apply Hm2. simpl. apply Hmono1. exact Hk.
    + exists (sset_add key (fst st), key :: snd st). repeat split.
      * simpl. apply sorted_sset_add. exact Hs.
      * intros k Hk. simpl. apply Hmono1. exact Hk.
Qed.

Lemma unvisited_nil g : unvisited g [] = dag_size g.
Proof.
  unfold unvisited, dag_size, keys. rewrite <- (map_length fst (graph g)).
  induction (map fst (graph g)) as [|x l IH]; [reflexivity|].
  cbn [filter]. change (sset_mem x []) with false. cbn [negb length]. f_equal. exact IH.
Qed.

(** the fuel [visit_fuel g = S (size g)] suffices for a traversal from any
    list of start keys, on any graph *)
Lemma dfs_list_fuel_suffices children g ks :
  exists st', dfs_list children (visit_fuel g) g ks ([], []) = Some st'.
Proof.
  destruct (dfs_list_total_aux children (visit_fuel g) g (dfs_total children g _) ks ([], []))
    as [st' [E _]].
  - simpl. apply sorted_nil.
  - simpl. rewrite unvisited_nil. unfold visit_fuel. lia.
  - eauto.
Qed.

(* ------------------------------------------------------------------ *)
(** * What the traversal computes on a well-formed graph *)

(** every node is followed (later in the list) by all its dependents *)
Fixpoint closed_order g (l : list N) : Prop :=
  match l with
  | [] => True
  | k :: l' => (forall d, edge g k d -> In d l') /\ closed_order g l'
  end.

(** [x] occurs in [l] strictly before an occurrence of [y] *)
Definition before (l : list N) (x y : N) : Prop := exists l1 l2, l = l1 ++ x :: l2 /\ In y l2.

Lemma closed_order_app_r g l1 l2 : closed_order g (l1 ++ l2) -> closed_order g l2.
Proof. induction l1 as [|x l1 IH]; simpl; [auto|]. intros [_ H]. apply IH, H. Qed.

Lemma closed_order_before g l k d :
  closed_order g l -> In k l -> edge g k d -> before l k d.
Proof.
  induction l as [|x l IH]; simpl; intros Hc Hin He; [tauto|].
  destruct Hc as [Hx Hc]. destruct Hin as [->|Hin].
  - exists [], l. split; [reflexivity | apply Hx; exact He].
  - destruct (IH Hc Hin He) as [l1 [l2 [-> H2]]]. exists (x :: l1), l2. split; [reflexivity | exact H2].
Qed.

Lemma closed_order_reach g l k x : closed_order g l -> In k l -> reach g k x -> In x l.
Proof.
  intros Hc Hin Hr. induction Hr as [|k d x He _ IH]; [exact Hin|].
  apply IH. destruct (closed_order_before g l k d Hc Hin He) as [l1 [l2 [-> H2]]].
  apply in_or_app. right. right. exact H2.
Qed.

(** with no duplicates, a transitive dependent never precedes its ancestor *)
Lemma closed_order_desc_later g k l x :
  closed_order g (k :: l) -> NoDup (k :: l) -> In x l -> ~ desc g x k.
Proof.
  intros [_ Hc] Hnd Hin Hd. inversion Hnd as [|? ? Hk _]; subst.
  apply Hk. eapply closed_order_reach; [exact Hc | exact Hin |].
  apply reach_desc. right. exact Hd.
Qed.

Record dfs_pre g st : Prop := {
  pre_sorted : sorted (fst st);
  pre_sub : forall x, In x (snd st) -> sset_mem x (fst st) = true;
  pre_nodup : NoDup (snd st);
  pre_closed : closed_order g (snd st);
}.

(** the nodes that are visited but not yet in the order (the recursion stack)
    all have a rank below [key] *)
Definition gray_below (r : N -> N) st (key : N) : Prop :=
  forall x, sset_mem x (fst st) = true -> ~ In x (snd st) -> (r x < r key)%N.

Record dfs_post g (srcs : N -> Prop) st st' : Prop := {
  post_new : exists new,
      snd st' = new ++ snd st /\
      (forall x, sset_mem x (fst st') = true <-> sset_mem x (fst st) = true \/ In x new) /\
      (forall x, In x new -> sset_mem x (fst st) = false) /\
      (forall x, In x new -> exists s, srcs s /\ reach g s x);
  post_pre : dfs_pre g st';
}.

Lemma post_gray g srcs st st' : dfs_post g srcs st st' ->
  forall x, (sset_mem x (fst st') = true /\ ~ In x (snd st')) <->
            (sset_mem x (fst st) = true /\ ~ In x (snd st)).
Proof.
  intros [[new [Ho [Hv [Hn _]]]] _] x. rewrite Ho, Hv, in_app_iff. split.
  - intros [[Hx|Hx] Hnot]; [tauto | exfalso; tauto].
  - intros [Hx Hnot]. split; [tauto|]. intros [H|H]; [|tauto].
    rewrite (Hn _ H) in Hx. discriminate.
Qed.

Definition children_ok g (children : node V -> list N) : Prop :=
  forall k nd, lookup k (graph g) = Some nd ->
  forall d, In d (children nd) <-> sset_mem d (ndpts nd) = true.

Section Spec.
Variable g : dag V.
Variable children : node V -> list N.
Variable r : N -> N.
Hypothesis Hok : children_ok g children.
Hypothesis Hrank : dag_ranked r g.

Definition spec_at f : Prop :=
  forall key st st', dfs children f g key st = Some st' ->
  dfs_pre g st -> gray_below r st key ->
  dfs_post g (eq key) st st' /\ In key (snd st').

Lemma dfs_list_spec_aux f : spec_at f ->
  forall ks st st', dfs_list children f g ks st = Some st' ->
  dfs_pre g st -> (forall k, In k ks -> gray_below r st k) ->
  dfs_post g (fun s => In s ks) st st' /\ (forall k, In k ks -> In k (snd st')).
Proof.
  intros Hspec ks. induction ks as [|k ks IH]; intros st st' E Hpre Hgray.
  - rewrite dfs_list_nil in E. inversion E; subst. split; [|simpl; tauto].
    split; [|exact Hpre]. exists []. simpl. repeat split; try tauto.
  - rewrite dfs_list_cons in E. destruct (dfs children f g k st) as [s1|] eqn:E1; [|discriminate].
    destruct (Hspec k st s1 E1 Hpre (Hgray k (or_introl eq_refl))) as [Hp1 Hin1].
    assert (Hgray1 : forall k', In k' ks -> gray_below r s1 k').
    { intros k' Hk' x Hx Hnx. apply (Hgray k' (or_intror Hk')); apply (post_gray _ _ _ _ Hp1 x); tauto. }
    destruct (IH s1 st' E (post_pre _ _ _ _ Hp1) Hgray1) as [Hp2 Hin2].
    destruct Hp1 as [[n1 [Ho1 [Hv1 [Hn1 Hr1]]]] Hpre1].
    destruct Hp2 as [[n2 [Ho2 [Hv2 [Hn2 Hr2]]]] Hpre2].
    split; [split; [|exact Hpre2]|].
    + exists (n2 ++ n1). repeat split.
      * rewrite Ho2, Ho1, app_assoc. reflexivity.
      * rewrite Hv2, Hv1, in_app_iff. tauto.
      * rewrite Hv2, Hv1, in_app_iff. tauto.
      * intros x Hx. apply in_app_or in Hx. destruct Hx as [Hx|Hx]; [|apply Hn1; exact Hx].
        specialize (Hn2 _ Hx). destruct (sset_mem x (fst st)) eqn:Ex; [|reflexivity].
        assert (sset_mem x (fst s1) = true) by (apply Hv1; tauto). congruence.
      * intros x Hx. apply in_app_or in Hx. destruct Hx as [Hx|Hx].
        -- destruct (Hr2 _ Hx) as [s [Hs Hrs]]. exists s. split; [right; exact Hs | exact Hrs].
        -- destruct (Hr1 _ Hx) as [s [Hs Hrs]]. exists s. split; [left; exact Hs | exact Hrs].
    + intros k' [->|Hk'].
      * rewrite Ho2. apply in_or_app. right. exact Hin1.
      * apply Hin2. exact Hk'.
Qed.

Lemma dfs_spec : forall f, spec_at f.
Proof.
  induction f as [|f IH]; intros key st st' E Hpre Hgray; [discriminate|].
  rewrite dfs_unfold in E. destruct Hpre as [Hs Hsub Hnd Hcl].
  destruct (sset_mem key (fst st)) eqn:Em.
  - (* already visited: it must already be in the order *)
    inversion E; subst st'. clear E.
    assert (Hin : In key (snd st)).
    { destruct (in_dec N.eq_dec key (snd st)) as [H|H]; [exact H|].
      specialize (Hgray key Em H). lia. }
    split; [|exact Hin]. split; [|constructor; assumption].
    exists []. simpl. repeat split; try tauto.
  - assert (Hnotin : ~ In key (snd st)).
    { intros H. rewrite (Hsub _ H) in Em. discriminate. }
    assert (Hs1 : sorted (sset_add key (fst st))) by (apply sorted_sset_add; exact Hs).
    destruct (lookup key (graph g)) as [nd|] eqn:El.
    + destruct (dfs_list children f g (children nd) (sset_add key (fst st), snd st)) as [s2|] eqn:E2;
        [|discriminate].
      inversion E; subst st'. clear E.
      assert (Hpre1 : dfs_pre g (sset_add key (fst st), snd st)).
      { constructor; simpl; auto. intros x Hx. rewrite sset_mem_add by exact Hs.
        rewrite (Hsub _ Hx). apply orb_true_r. }
      assert (Hgray1 : forall d, In d (children nd) -> gray_below r (sset_add key (fst st), snd st) d).
      { intros d Hd x Hx Hnx. simpl in Hx, Hnx. rewrite sset_mem_add in Hx by exact Hs.
        assert (Hkd : (r key < r d)%N).
        { apply Hrank. exists nd. split; [exact El|]. apply (Hok key nd El). exact Hd. }
        apply orb_true_iff in Hx. destruct Hx as [Hx|Hx].
        - apply N.eqb_eq in Hx. subst x. exact Hkd.
        - specialize (Hgray x Hx Hnx). lia. }
      destruct (dfs_list_spec_aux f IH (children nd) _ s2 E2 Hpre1 Hgray1) as [Hp2 Hin2].
      destruct Hp2 as [[n2 [Ho2 [Hv2 [Hn2 Hr2]]]] [Hs2 Hsub2 Hnd2 Hcl2]]. simpl in *.
      assert (Hkey2 : sset_mem key (fst s2) = true).
      { apply Hv2. left. rewrite sset_mem_add by exact Hs. rewrite N.eqb_refl. reflexivity. }
      assert (Hkn2 : ~ In key (snd s2)).
      { rewrite Ho2. intros H. apply in_app_or in H. destruct H as [H|H]; [|tauto].
        specialize (Hn2 _ H). rewrite sset_mem_add in Hn2 by exact Hs.
        rewrite N.eqb_refl in Hn2. discriminate. }
      split; [|left; reflexivity]. split.
      * exists (key :: n2). simpl. repeat split.
        -- rewrite Ho2. reflexivity.
        -- intros Hx. apply Hv2 in Hx. rewrite sset_mem_add in Hx by exact Hs.
           rewrite orb_true_iff, N.eqb_eq in Hx. intuition (subst; auto).
        -- intros Hx. apply Hv2. rewrite sset_mem_add by exact Hs.
           rewrite orb_true_iff, N.eqb_eq. intuition (subst; auto).
        -- intros x [<-|Hx]; [exact Em|]. specialize (Hn2 _ Hx).
           rewrite sset_mem_add in Hn2 by exact Hs. apply orb_false_iff in Hn2. tauto.
        -- intros x [<-|Hx]; [exists key; split; [reflexivity | constructor]|].
           destruct (Hr2 _ Hx) as [s [Hs' Hrs]]. exists key. split; [reflexivity|].
           econstructor; [|exact Hrs]. exists nd. split; [exact El|]. apply (Hok key nd El). exact Hs'.
      * constructor; simpl.
        -- exact Hs2.
        -- intros x [<-|Hx]; [exact Hkey2 | apply Hsub2; exact Hx].
        -- constructor; assumption.
        -- split; [|exact Hcl2]. intros d [nd' [El' Hd]]. rewrite El in El'. inversion El'; subst nd'.
           apply Hin2. apply (Hok key nd El). exact Hd.
    + inversion E; subst st'. clear E. split; [|left; reflexivity]. split.
      * exists [key]. simpl. repeat split.
        -- intros Hx. rewrite sset_mem_add in Hx by exact Hs.
           rewrite orb_true_iff, N.eqb_eq in Hx. intuition (subst; auto).
        -- intros Hx. rewrite sset_mem_add by exact Hs.
           rewrite orb_true_iff, N.eqb_eq. intuition (subst; auto).
        -- intros x [<-|[]]. exact Em.
        -- intros x [<-|[]]. exists key. split; [reflexivity | constructor].
      * constructor; simpl.
        -- exact Hs1.
        -- intros x [<-|Hx]; rewrite sset_mem_add by exact Hs;
             [rewrite N.eqb_refl; reflexivity | rewrite (Hsub _ Hx); apply orb_true_r].
        -- constructor; assumption.
        -- split; [|exact Hcl]. intros d [nd' [El' _]]. congruence.
Qed.

(** A traversal from the start keys [ks] with empty state: the order is
    duplicate-free, closed under dependents, contains every start key and
    only nodes reachable from them. *)
Lemma traverse_spec ks :
  exists o, option_map snd (dfs_list children (visit_fuel g) g ks ([], [])) = Some o /\
    NoDup o /\ closed_order g o /\
    (forall k, In k ks -> In k o) /\
    (forall x, In x o -> exists s, In s ks /\ reach g s x).
Proof.
  destruct (dfs_list_fuel_suffices children g ks) as [st' E]. rewrite E. simpl.
  exists (snd st'). split; [reflexivity|].
  assert (Hpre0 : dfs_pre g (([], []) : vstate)).
  { constructor; simpl; [apply sorted_nil | tauto | constructor | exact I]. }
  destruct (dfs_list_spec_aux _ (dfs_spec _) ks _ st' E Hpre0) as [Hp Hin].
  { intros k _ x Hx. simpl in Hx. discriminate. }
  destruct Hp as [[new [Ho [_ [_ Hr]]]] [_ _ Hnd Hcl]]. simpl in Ho. rewrite app_nil_r in Ho.
  repeat split; auto. intros x Hx. rewrite Ho in Hx. apply Hr. exact Hx.
Qed.

End Spec.

(* ------------------------------------------------------------------ *)
(** * The two instances: `visit` and `visit_by` *)

Lemma visit_children_ok g : children_ok g visit_children.
Proof.
  intros k nd _ d. unfold visit_children. rewrite <- in_rev. symmetry. apply sset_mem_elems.
Qed.

Lemma present_In g ks k nd :
  In (k, nd) (present g ks) <-> In k ks /\ lookup k (graph g) = Some nd.
Proof.
  unfold present. rewrite in_flat_map. split.
  - intros [x [Hx Hin]]. destruct (lookup x (graph g)) as [n|] eqn:E; simpl in Hin; [|tauto].
    destruct Hin as [Heq|[]]. inversion Heq; subst. auto.
  - intros [Hk Hl]. exists k. split; [exact Hk|]. rewrite Hl. left. reflexivity.
Qed.

Lemma visit_by_children_ok ordering g : dag_shape g -> children_ok g (visit_by_children ordering g).
Proof.
  intros Hs k nd Hl d. unfold visit_by_children. rewrite <- in_rev, in_map_iff. split.
  - intros [[d' v] [Hd Hin]]. simpl in Hd. subst d'.
    apply sort_by_In in Hin. apply in_map_iff in Hin. destruct Hin as [[d' n] [Heq Hin]].
    simpl in Heq. inversion Heq; subst. apply present_In in Hin. apply sset_mem_elems. tauto.
  - intros Hd. assert (He : edge g k d) by (exists nd; auto).
    apply (edge_target g k d Hs), in_graph_lookup in He. destruct He as [n Hn].
    exists (d, nvalue n). split; [reflexivity|]. apply sort_by_In.
    apply in_map_iff. exists (d, n). split; [reflexivity|]. apply present_In.
    split; [apply sset_mem_elems; exact Hd | exact Hn].
Qed.

(** [sorted_by], for any comparison function: the order exists (fuel suffices),
    has no duplicates, is a permutation of the keys and is closed: every node
    is followed by all its dependents. *)
Theorem sorted_by_topological g (compare : N -> N -> comparison) : dag_wf g ->
  exists o, dag_sorted_by compare g = Some o /\ NoDup o /\
    Permutation o (keys (graph g)) /\ closed_order g o.
Proof.
  intros [Hs [r Hr]]. unfold dag_sorted_by.
  set (ks := sort_by (fun a b => CompOpp (compare a b)) (keys (graph g))).
  destruct (traverse_spec g visit_children r (visit_children_ok g) Hr ks)
    as [o [E [Hnd [Hcl [Hin Hreach]]]]].
  exists o. repeat split; auto.
  apply NoDup_Permutation; [exact Hnd | apply sorted_keys_NoDup, Hs |].
  intros x. split.
  - intros Hx. destruct (Hreach _ Hx) as [s [Hs' Hrs]]. apply sort_by_In in Hs'.
    apply in_graph_keys. eapply reach_in_graph; [exact Hs | apply in_graph_keys; exact Hs' | exact Hrs].
  - intros Hx. apply Hin. apply sort_by_In. exact Hx.
Qed.

(** …hence every node comes after each of its dependencies that is in the graph *)
Corollary sorted_by_after_dependencies g compare o : dag_wf g ->
  dag_sorted_by compare g = Some o ->
  forall a b, depends g a b -> in_graph g b -> before o b a.
Proof.
  intros Hwf E a b Hd Hb.
  destruct (sorted_by_topological g compare Hwf) as [o' [E' [_ [Hperm Hcl]]]].
  rewrite E in E'. inversion E'; subst o'.
  apply (closed_order_before g o b a Hcl).
  - eapply Permutation_in; [symmetry; exact Hperm | apply in_graph_keys; exact Hb].
  - apply depends_edge; [apply Hwf | exact Hd | exact Hb].
Qed.

End Traverse.
