(* CleanProofs.v — what storage cleanup may delete (model: coq/model/Clean.v). *)
From HW Require Import lib.Base model.Clean.
Local Open Scope N_scope.

Definition protected (local : N) (delegates : list N) (n : ns) : Prop :=
  ns_id n = local \/ In (ns_id n) delegates.

Lemma doomed_spec local delegates n :
  doomed local delegates n = true <->
  is_remote n = true /\ ns_key n = true /\ ns_id n <> local /\ ~ In (ns_id n) delegates.
Proof.
  unfold doomed. rewrite !andb_true_iff, negb_true_iff, orb_false_iff.
  split.
  - intros [[H1 H2] [H3 H4]]. repeat split; try assumption.
    + intros E. subst. rewrite N.eqb_refl in H3. discriminate.
    + intros Hin. apply memN_In in Hin. congruence.
  - intros [H1 [H2 [H3 H4]]]. repeat split; try assumption.
    + apply N.eqb_neq. congruence.
    + destruct (memN (ns_id n) delegates) eqn:E; [|reflexivity]. apply memN_In in E. contradiction.
Qed.

Lemma doomed_false_of_protected local delegates n :
  protected local delegates n -> doomed local delegates n = false.
Proof.
  intros Hp. destruct (doomed local delegates n) eqn:E; [|reflexivity].
  apply doomed_spec in E. destruct E as [_ [_ [H1 H2]]]. destruct Hp; contradiction.
Qed.

(* Repository::clean *)
Theorem repo_clean_spec local delegates r :
  let (after, deleted) := repo_clean local delegates r in
  (* every deleted id is a remote that is neither local nor a delegate *)
  (forall id, In id deleted ->
     id <> local /\ ~ In id delegates /\
     exists n, In n r /\ ns_id n = id /\ is_remote n = true /\ ns_key n = true) /\
  (* local, delegate, non-remote and malformed namespaces survive, untouched *)
  (forall n, In n r -> protected local delegates n \/ is_remote n = false \/ ns_key n = false -> In n after) /\
  (* nothing is added or modified *)
  (forall n, In n after -> In n r) /\
  (* what disappeared is reported *)
  (forall n, In n r -> ~ In n after -> In (ns_id n) deleted) /\
  (* and nothing reported deleted survives *)
  (forall n, In n after -> In (ns_id n) deleted -> NoDup (map ns_id r) -> False).
Proof.
  unfold repo_clean. repeat split.
  - apply in_map_iff in H. destruct H as [n [E Hn]]. apply filter_In in Hn.
    destruct Hn as [_ Hd]. apply doomed_spec in Hd. subst. tauto.
  - apply in_map_iff in H. destruct H as [n [E Hn]]. apply filter_In in Hn.
    destruct Hn as [_ Hd]. apply doomed_spec in Hd. subst. tauto.
  - apply in_map_iff in H. destruct H as [n [E Hn]]. apply filter_In in Hn.
    destruct Hn as [Hin Hd]. apply doomed_spec in Hd. exists n. subst. tauto.
  - intros n Hin Hp. apply filter_In. split; [exact Hin|]. apply negb_true_iff.
    destruct Hp as [Hp|[Hp|Hp]].
    + apply doomed_false_of_protected. exact Hp.
    + unfold doomed. rewrite Hp. reflexivity.
    + unfold doomed. rewrite Hp. rewrite andb_false_r. reflexivity.
  - intros n Hin. apply filter_In in Hin. tauto.
  - intros n Hin Hnot. apply in_map_iff. exists n. split; [reflexivity|].
    apply filter_In. split; [exact Hin|].
    destruct (doomed local delegates n) eqn:E; [reflexivity|].
    exfalso. apply Hnot. apply filter_In. split; [exact Hin|]. rewrite E. reflexivity.
  - intros n Hin Hdel Hnd. apply filter_In in Hin. destruct Hin as [Hin Hk].
    apply negb_true_iff in Hk.
    apply in_map_iff in Hdel. destruct Hdel as [m [E Hm]]. apply filter_In in Hm.
    destruct Hm as [Hm Hd].
    assert (m = n).
    { clear - Hnd Hin Hm E. induction r as [|x r IH]; simpl in *; [tauto|].
      inversion Hnd as [|? ? Hnin Hnd']; subst.
      destruct Hin as [->|Hin], Hm as [->|Hm]; try reflexivity.
      - exfalso. apply Hnin. rewrite <- E. apply in_map. exact Hm.
      - exfalso. apply Hnin. rewrite E. apply in_map. exact Hin.
      - apply IH; assumption. }
    subst m. congruence.
Qed.

(* local's own namespace is found again after cleaning, with the same sigrefs *)
Lemma local_sig_after local delegates r :
  local_sig local (fst (repo_clean local delegates r)) = local_sig local r.
Proof.
  unfold local_sig, repo_clean. simpl.
  induction r as [|n r IH]; simpl; [reflexivity|].
  destruct (N.eqb (ns_id n) local && ns_key n) eqn:E.
  - assert (doomed local delegates n = false) as Hd.
    { apply doomed_false_of_protected. left. apply andb_true_iff in E. destruct E as [E _].
      apply N.eqb_eq in E. exact E. }
    rewrite Hd. simpl. rewrite E. reflexivity.
  - destruct (doomed local delegates n); simpl; [exact IH|]. rewrite E. exact IH.
Qed.

(* Storage::clean: full case analysis *)
Theorem storage_clean_spec local doc_ok delegates r :
  match storage_clean local doc_ok delegates r with
  | OCleaned after deleted =>
      local_sig local r = SValid /\ doc_ok = true /\ (after, deleted) = repo_clean local delegates r
  | ORemoved remotes =>
      local_sig local r = SNone /\ remotes = map ns_id (filter is_remote r)
  | OErr e =>
      (local_sig local r = SBad /\ e = ESigrefs) \/
      (local_sig local r = SValid /\ doc_ok = false /\ (e = EDoc \/ e = ERemoteId)) \/
      (local_sig local r = SNone /\ e = ERemoteId /\
       exists n, In n r /\ is_remote n = true /\ ns_key n = false)
  end.
Proof.
  unfold storage_clean. destruct (local_sig local r) eqn:Es.
  - destruct (forallb ns_key (filter is_remote r)) eqn:Ef.
    + split; reflexivity.
    + right. right. split; [reflexivity|]. split; [reflexivity|].
      assert (H : ~ forallb ns_key (filter is_remote r) = true) by congruence.
      rewrite forallb_forall in H.
      destruct (existsb (fun n => negb (ns_key n)) (filter is_remote r)) eqn:Ee.
      * apply existsb_exists in Ee. destruct Ee as [n [Hin Hk]]. apply filter_In in Hin.
        apply negb_true_iff in Hk. exists n. tauto.
      * exfalso. apply H. intros n Hin.
        destruct (ns_key n) eqn:Ek; [reflexivity|].
        assert (existsb (fun n => negb (ns_key n)) (filter is_remote r) = true).
        { apply existsb_exists. exists n. rewrite Ek. auto. }
        congruence.
  - destruct doc_ok.
    + destruct (repo_clean local delegates r) as [after deleted] eqn:Er. repeat split; reflexivity.
    + destruct (forallb ns_key (filter is_remote r)); right; left; repeat split; auto.
  - left. split; reflexivity.
Qed.

(* the repository is removed as a whole only if the local node has no signed refs *)
Theorem removed_only_without_local_sigrefs local doc_ok delegates r remotes :
  storage_clean local doc_ok delegates r = ORemoved remotes -> local_sig local r = SNone.
Proof.
  intros H. pose proof (storage_clean_spec local doc_ok delegates r) as S. rewrite H in S. tauto.
Qed.

Theorem removed_if_no_local_sigrefs local doc_ok delegates r :
  local_sig local r = SNone -> forallb ns_key (filter is_remote r) = true ->
  storage_clean local doc_ok delegates r = ORemoved (map ns_id (filter is_remote r)).
Proof. intros H1 H2. unfold storage_clean. rewrite H1, H2. reflexivity. Qed.

(* cleaning is idempotent: a second clean deletes nothing *)
Theorem repo_clean_idempotent local delegates r :
  repo_clean local delegates (fst (repo_clean local delegates r)) = (fst (repo_clean local delegates r), []).
Proof.
  unfold repo_clean. simpl.
  assert (H : forall l, filter (doomed local delegates) (filter (fun n => negb (doomed local delegates n)) l) = []).
  { induction l as [|n l IH]; simpl; [reflexivity|].
    destruct (doomed local delegates n) eqn:E; simpl; [exact IH|]. rewrite E. exact IH. }
  rewrite H. simpl. f_equal.
  induction r as [|n r IH]; simpl; [reflexivity|].
  destruct (doomed local delegates n) eqn:E; simpl; [exact IH|]. rewrite E. simpl. rewrite IH. reflexivity.
Qed.

(* Storage::clean with valid local signed refs is Repository::clean *)
Lemma storage_clean_valid local doc_ok delegates r :
  local_sig local r = SValid -> storage_clean local doc_ok delegates r = repository_clean local doc_ok delegates r.
Proof. intros H. unfold storage_clean, repository_clean. rewrite H. reflexivity. Qed.

(* Repository::clean called directly never removes the repository and obeys the same rule *)
Theorem repository_clean_spec local doc_ok delegates r :
  match repository_clean local doc_ok delegates r with
  | OCleaned after deleted => doc_ok = true /\ (after, deleted) = repo_clean local delegates r
  | ORemoved _ => False
  | OErr e => doc_ok = false /\ (e = EDoc \/ e = ERemoteId)
  end.
Proof.
  unfold repository_clean. destruct doc_ok.
  - destruct (repo_clean local delegates r). split; reflexivity.
  - destruct (forallb ns_key (filter is_remote r)); split; auto.
Qed.
