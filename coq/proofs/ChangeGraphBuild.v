(* ChangeGraphBuild.v — C05, first half.
   (a) A graph built by `Dag::node` calls followed by `Dag::dependency` calls
       has a canonical form that depends only on the *sets* of nodes and edges:
       the construction is insertion-order independent ([canon], [canon_unique],
       [build_perm]).
   (b) `ChangeGraph::load` (the LIFO work list) always terminates within the
       supplied fuel and computes the canonical graph of the closure of its
       tips ([load_loop_spec], [load_canon]); hence its result depends only on
       that closure ([load_closure_only]). *)
From HW Require Import lib.Base lib.SMap model.Dag model.ChangeGraph proofs.DagBase proofs.DagOps.
From Coq Require Import Sorted Permutation.

(* ------------------------------------------------------------------ *)
(** * (a) node/dependency construction: canonical form *)

Section Build.
Context {V : Type}.
Implicit Types (g : dag V) (ns : list (N * V)) (es : list (N * N)).

Definition add_nodes ns g : dag V := fold_left (fun g kv => dag_node g (fst kv) (snd kv)) ns g.
Definition add_deps es g : dag V := fold_left (fun g e => dag_dependency g (fst e) (snd e)) es g.
Definition build_graph ns es : dag V := add_deps es (add_nodes ns dag_new).

(** [g] is the graph with node list [ns] and edge list [es] (both as sets) *)
Record canon ns es g : Prop := {
  cn_repr : dag_repr g;
  cn_nodes : forall k nd, lookup k (graph g) = Some nd ->
      In (k, nvalue nd) ns /\
      (forall t, sset_mem t (ndeps nd) = true <-> In (k, t) es) /\
      (forall f, sset_mem f (ndpts nd) = true <-> In (f, k) es);
  cn_in : forall k, in_graph g k <-> In k (map fst ns);
  cn_tips : forall k, sset_mem k (tips g) = true <-> (In k (map fst ns) /\ ~ exists f, In (f, k) es);
  cn_roots : forall k, sset_mem k (roots g) = true <-> (In k (map fst ns) /\ ~ exists t, In (k, t) es);
}.

Lemma canon_new : canon [] [] (@dag_new V).
Proof.
  constructor.
  - apply repr_new.
  - intros k nd H. discriminate.
  - intros k. unfold in_graph. simpl. split; [congruence | tauto].
  - intros k. simpl. split; [discriminate | tauto].
  - intros k. simpl. split; [discriminate | tauto].
Qed.

Lemma canon_node ns g k v : canon ns [] g -> ~ In k (map fst ns) ->
  canon (ns ++ [(k, v)]) [] (dag_node g k v).
Proof.
  intros [Hr Hn Hi Ht Hro] Hk. constructor.
  - apply node_repr, Hr.
  - intros k0 nd H. rewrite node_lookup in H by exact Hr.
    destruct (N.eqb_spec k0 k) as [->|Hne].
    + inversion H; subst nd. simpl. split; [apply in_or_app; right; left; reflexivity|].
      split; intros x; split; (discriminate || tauto).
    + destruct (Hn k0 nd H) as [H1 [H2 H3]]. split; [apply in_or_app; left; exact H1|]. split; assumption.
  - intros k0. rewrite node_in_graph by exact Hr. rewrite map_app, in_app_iff, Hi. simpl. intuition.
  - intros k0. simpl tips. rewrite sset_mem_add by apply Hr. rewrite orb_true_iff, N.eqb_eq, Ht.
    rewrite map_app, in_app_iff. simpl. split.
    + intros [->|[H1 H2]]; (split; [tauto|]); intros [f []].
    + intros [[H|[H|[]]] _]; [right; split; [exact H|] | left; auto]. intros [f []].
  - intros k0. simpl roots. rewrite sset_mem_add by apply Hr. rewrite orb_true_iff, N.eqb_eq, Hro.
    rewrite map_app, in_app_iff. simpl. split.
    + intros [->|[H1 H2]]; (split; [tauto|]); intros [f []].
    + intros [[H|[H|[]]] _]; [right; split; [exact H|] | left; auto]. intros [f []].
Qed.

Lemma add_nodes_snoc ns k v g :
  add_nodes (ns ++ [(k, v)]) g = dag_node (add_nodes ns g) k v.
Proof. unfold add_nodes. rewrite fold_left_app. reflexivity. Qed.

Lemma add_nodes_canon ns : NoDup (map fst ns) -> canon ns [] (add_nodes ns dag_new).
Proof.
  unfold add_nodes. induction ns as [|[k v] ns IH] using rev_ind; intros Hnd.
  - apply canon_new.
  - rewrite fold_left_app. simpl. rewrite map_app in Hnd. simpl in Hnd.
    apply NoDup_remove in Hnd. rewrite app_nil_r in Hnd. destruct Hnd as [Hnd Hk].
    apply canon_node; [apply IH; exact Hnd | exact Hk].
Qed.

Lemma canon_dep ns es g f t : canon ns es g -> canon ns (es ++ [(f, t)]) (dag_dependency g f t).
Proof.
  intros [Hr Hn Hi Ht Hro].
  assert (Hlast : forall a b, In (a, b) (es ++ [(f, t)]) <-> In (a, b) es \/ (a = f /\ b = t)).
  { intros a b. rewrite in_app_iff. simpl. split.
    - intros [H|[H|[]]]; [left; exact H | right; inversion H; auto].
    - intros [H|[-> ->]]; [left; exact H | right; left; reflexivity]. }
  constructor.
  - apply dep_repr, Hr.
  - intros k nd H. rewrite dep_lookup in H by exact Hr.
    destruct (lookup k (graph g)) as [nk|] eqn:Ek; [|discriminate]. simpl in H. inversion H; subst nd. clear H.
    destruct (Hn k nk Ek) as [H1 [H2 H3]]. destruct (repr_nodes g Hr k nk Ek) as [Hs1 Hs2].
    unfold dep_upd. simpl. split; [exact H1|]. split.
    + intros x. rewrite Hlast. destruct (N.eqb_spec k f) as [->|Hne].
      * rewrite sset_mem_add by exact Hs1. rewrite orb_true_iff, N.eqb_eq, H2. intuition.
      * rewrite H2. intuition congruence.
    + intros x. rewrite Hlast. destruct (N.eqb_spec k t) as [->|Hne].
      * rewrite sset_mem_add by exact Hs2. rewrite orb_true_iff, N.eqb_eq, H3. intuition.
      * rewrite H3. intuition congruence.
  - intros k. rewrite dep_in_graph by exact Hr. apply Hi.
  - intros k. rewrite dep_tips by exact Hr. destruct (mem t (graph g)) eqn:Em.
    + rewrite sset_mem_remove by apply Hr. rewrite andb_true_iff, negb_true_iff, N.eqb_neq, Ht. split.
      * intros [Hne [H1 H2]]. split; [exact H1|]. intros [x Hx]. apply Hlast in Hx.
        destruct Hx as [Hx|[_ Hx]]; [apply H2; eauto | congruence].
      * intros [H1 H2]. split; [|split; [exact H1|]].
        -- intros ->. apply H2. exists f. apply Hlast. auto.
        -- intros [x Hx]. apply H2. exists x. apply Hlast. auto.
    + rewrite Ht. split; intros [H1 H2]; (split; [exact H1|]); intros [x Hx].
      * apply Hlast in Hx. destruct Hx as [Hx|[_ ->]]; [apply H2; eauto|].
        apply Hi in H1. unfold in_graph, mem in *. destruct (lookup t (graph g)); [discriminate | congruence].
      * apply H2. exists x. apply Hlast. auto.
  - intros k. rewrite dep_roots by exact Hr. destruct (mem f (graph g)) eqn:Em.
    + rewrite sset_mem_remove by apply Hr. rewrite andb_true_iff, negb_true_iff, N.eqb_neq, Hro. split.
      * intros [Hne [H1 H2]]. split; [exact H1|]. intros [x Hx]. apply Hlast in Hx.
        destruct Hx as [Hx|[Hx _]]; [apply H2; eauto | congruence].
      * intros [H1 H2]. split; [|split; [exact H1|]].
        -- intros ->. apply H2. exists t. apply Hlast. auto.
        -- intros [x Hx]. apply H2. exists x. apply Hlast. auto.
    + rewrite Hro. split; intros [H1 H2]; (split; [exact H1|]); intros [x Hx].
      * apply Hlast in Hx. destruct Hx as [Hx|[-> _]]; [apply H2; eauto|].
        apply Hi in H1. unfold in_graph, mem in *. destruct (lookup f (graph g)); [discriminate | congruence].
      * apply H2. exists x. apply Hlast. auto.
Qed.

Lemma add_deps_canon ns es : forall es0 g, canon ns es0 g -> canon ns (es0 ++ es) (add_deps es g).
Proof.
  unfold add_deps. induction es as [|[f t] es IH]; intros es0 g Hc; simpl.
  - rewrite app_nil_r. exact Hc.
  - replace (es0 ++ (f, t) :: es) with ((es0 ++ [(f, t)]) ++ es) by (rewrite <- app_assoc; reflexivity).
    apply IH. apply canon_dep. exact Hc.
Qed.

Lemma build_canon ns es : NoDup (map fst ns) -> canon ns es (build_graph ns es).
Proof.
  intros Hnd. unfold build_graph. change es with ([] ++ es) at 1.
  apply add_deps_canon. apply add_nodes_canon. exact Hnd.
Qed.

Lemma NoDup_keys_fun ns k (v v' : V) : NoDup (map fst ns) -> In (k, v) ns -> In (k, v') ns -> v = v'.
Proof.
  induction ns as [|[k0 v0] ns IH]; simpl; intros Hnd H1 H2; [tauto|].
  inversion Hnd as [|? ? Hk Hnd']; subst.
  destruct H1 as [H1|H1]; destruct H2 as [H2|H2].
  - congruence.
  - inversion H1; subst. exfalso. apply Hk. apply in_map_iff. exists (k, v'). auto.
  - inversion H2; subst. exfalso. apply Hk. apply in_map_iff. exists (k, v). auto.
  - apply IH; assumption.
Qed.

(** the canonical form is unique: it depends only on the sets of nodes and edges *)
Lemma canon_unique ns es g ns' es' g' :
  canon ns es g -> canon ns' es' g' -> NoDup (map fst ns) ->
  (forall kv, In kv ns <-> In kv ns') -> (forall e, In e es <-> In e es') -> g = g'.
Proof.
  intros [Hr Hn Hi Ht Hro] [Hr' Hn' Hi' Ht' Hro'] Hnd Hns Hes.
  assert (Hkeys : forall k, In k (map fst ns) <-> In k (map fst ns')).
  { intros k. rewrite !in_map_iff. split; intros [[k0 v] [E H]]; exists (k0, v); (split; [exact E|]); apply Hns; exact H. }
  destruct g as [gr ti ro], g' as [gr' ti' ro']. f_equal.
  - apply smap_ext; [apply Hr | apply Hr' |]. intros k. cbn [graph] in *.
    destruct (lookup k gr) as [nd|] eqn:E; destruct (lookup k gr') as [nd'|] eqn:E'.
    + destruct (Hn k nd E) as [H1 [H2 H3]]. destruct (Hn' k nd' E') as [H1' [H2' H3']].
      destruct (repr_nodes _ Hr k nd E) as [Hs1 Hs2]. destruct (repr_nodes _ Hr' k nd' E') as [Hs1' Hs2'].
      destruct nd as [v d p], nd' as [v' d' p']. simpl in *. f_equal. f_equal.
      * apply Hns in H1'. eapply NoDup_keys_fun; eassumption.
      * apply sset_ext; try assumption. intros x.
        destruct (sset_mem x d) eqn:A; destruct (sset_mem x d') eqn:B; try reflexivity.
        -- apply H2, Hes, H2' in A. congruence.
        -- apply H2', Hes, H2 in B. congruence.
      * apply sset_ext; try assumption. intros x.
        destruct (sset_mem x p) eqn:A; destruct (sset_mem x p') eqn:B; try reflexivity.
        -- apply H3, Hes, H3' in A. congruence.
        -- apply H3', Hes, H3 in B. congruence.
    + exfalso. assert (Hk : in_graph (mkDag gr ti ro) k) by (unfold in_graph; simpl; congruence).
      apply Hi, Hkeys, Hi' in Hk. unfold in_graph in Hk. simpl in Hk. congruence.
    + exfalso. assert (Hk : in_graph (mkDag gr' ti' ro') k) by (unfold in_graph; simpl; congruence).
      apply Hi', Hkeys, Hi in Hk. unfold in_graph in Hk. simpl in Hk. congruence.
    + reflexivity.
  - apply sset_ext; [apply Hr | apply Hr' |]. intros k. cbn [tips] in *.
    destruct (sset_mem k ti) eqn:A; destruct (sset_mem k ti') eqn:B; try reflexivity.
    + apply Ht in A. destruct A as [A1 A2]. assert (sset_mem k ti' = true); [|congruence].
      apply Ht'. split; [apply Hkeys; exact A1|]. intros [f Hf]. apply A2. exists f. apply Hes. exact Hf.
    + apply Ht' in B. destruct B as [B1 B2]. assert (sset_mem k ti = true); [|congruence].
      apply Ht. split; [apply Hkeys; exact B1|]. intros [f Hf]. apply B2. exists f. apply Hes. exact Hf.
  - apply sset_ext; [apply Hr | apply Hr' |]. intros k. cbn [roots] in *.
    destruct (sset_mem k ro) eqn:A; destruct (sset_mem k ro') eqn:B; try reflexivity.
    + apply Hro in A. destruct A as [A1 A2]. assert (sset_mem k ro' = true); [|congruence].
      apply Hro'. split; [apply Hkeys; exact A1|]. intros [f Hf]. apply A2. exists f. apply Hes. exact Hf.
    + apply Hro' in B. destruct B as [B1 B2]. assert (sset_mem k ro = true); [|congruence].
      apply Hro. split; [apply Hkeys; exact B1|]. intros [f Hf]. apply B2. exists f. apply Hes. exact Hf.
Qed.

(** insertion-order independence: any two orders (and multiplicities of
    edges) of the same node and edge sets build the same graph *)
Theorem build_order_irrelevant ns es ns' es' :
  NoDup (map fst ns) -> NoDup (map fst ns') ->
  (forall kv, In kv ns <-> In kv ns') -> (forall e, In e es <-> In e es') ->
  build_graph ns es = build_graph ns' es'.
Proof.
  intros H1 H2 Hn He.
  apply (canon_unique ns es _ ns' es' _ (build_canon ns es H1) (build_canon ns' es' H2) H1 Hn He).
Qed.

Corollary build_perm ns es ns' es' :
  NoDup (map fst ns) -> Permutation ns ns' -> Permutation es es' ->
  build_graph ns es = build_graph ns' es'.
Proof.
  intros Hnd Hp He. apply build_order_irrelevant.
  - exact Hnd.
  - eapply Permutation_NoDup; [|exact Hnd]. apply Permutation_map. exact Hp.
  - intros kv. split; apply Permutation_in; [exact Hp | symmetry; exact Hp].
  - intros e. split; apply Permutation_in; [exact He | symmetry; exact He].
Qed.

End Build.

(* ------------------------------------------------------------------ *)
(** * (b) ChangeGraph::load *)

Section Load.
Context {P : Type}.
Implicit Types (st : cstore P) (g : dag (entry P)) (ns : list (N * entry P)).

(** [p] is listed as a parent by the (loadable) change [c] *)
Definition parent_of st (c p : N) : Prop := exists e, lookup c st = Some e /\ In p (e_parents e).

(** ids reachable from the tips through parents of loadable changes *)
Inductive creach st (tips : list N) : N -> Prop :=
| cr_tip x : In x tips -> creach st tips x
| cr_step y x : creach st tips y -> parent_of st y x -> creach st tips x.

(** the loadable closure of the tips: the change set the object is made of *)
Definition closure st tips (x : N) : Prop := creach st tips x /\ lookup x st <> None.

Lemma add_edges_deps g es : add_edges g es = add_deps es g.
Proof. reflexivity. Qed.

(* ---------- fuel ---------- *)

Definition weight st g : nat :=
  fold_right (fun ke n => ((if dag_contains g (fst ke) then O else length (e_parents (snd ke))) + n)%nat) O st.

Lemma weight_new st : weight st dag_new = total_parents st.
Proof. induction st as [|[k e] st IH]; simpl; [reflexivity|]. rewrite IH. reflexivity. Qed.

Lemma contains_node g c (e : entry P) k : dag_repr g ->
  dag_contains (dag_node g c e) k = N.eqb k c || dag_contains g k.
Proof.
  intros Hr. unfold dag_contains, mem. rewrite node_lookup by exact Hr.
  destruct (N.eqb k c); reflexivity.
Qed.

Lemma weight_mono st g c e : dag_repr g -> (weight st (dag_node g c e) <= weight st g)%nat.
Proof.
  intros Hr. induction st as [|[k e'] st IH]; simpl; [lia|].
  rewrite contains_node by exact Hr. destruct (N.eqb k c); simpl; destruct (dag_contains g k); lia.
Qed.

Lemma weight_node st g c e : dag_repr g -> lookup c st = Some e -> dag_contains g c = false ->
  (weight st (dag_node g c e) + length (e_parents e) <= weight st g)%nat.
Proof.
  intros Hr. induction st as [|[k e'] st IH]; simpl; intros Hl Hc; [discriminate|].
  rewrite contains_node by exact Hr. destruct (N.eqb_spec c k) as [<-|Hne].
  - inversion Hl; subst e'. rewrite N.eqb_refl, Hc. simpl.
    pose proof (weight_mono st g c e Hr). lia.
  - destruct (N.eqb_spec k c) as [E|_]; [congruence|]. simpl. specialize (IH Hl Hc).
    destruct (dag_contains g k); lia.
Qed.

(* ---------- the loop invariant ---------- *)

Record load_inv st (tips stack : list N) ns (edges : list (N * N)) : Prop := {
  li_nodup : NoDup (map fst ns);
  li_nodes : forall k e, In (k, e) ns -> lookup k st = Some e /\ creach st tips k;
  li_edges : forall c p, In (c, p) edges <-> exists e, In (c, e) ns /\ In p (e_parents e);
  li_stack : forall x, In x stack -> creach st tips x;
  li_tips : forall x, In x tips -> In x (map fst ns) \/ In x stack \/ lookup x st = None;
  li_parents : forall c e p, In (c, e) ns -> In p (e_parents e) ->
      In p (map fst ns) \/ In p stack \/ lookup p st = None;
}.

Lemma contains_add_nodes ns k : NoDup (map fst ns) ->
  dag_contains (add_nodes ns dag_new) k = true <-> In k (map fst ns).
Proof.
  intros Hnd. pose proof (add_nodes_canon ns Hnd) as Hc. rewrite <- (cn_in _ _ _ Hc).
  unfold in_graph, dag_contains, mem. destruct (lookup k (graph (add_nodes ns dag_new))); split; congruence.
Qed.

Lemma load_loop_spec st tips : forall fuel stack ns edges,
  load_inv st tips stack ns edges ->
  (length stack + weight st (add_nodes ns dag_new) <= fuel)%nat ->
  exists ns' edges', load_loop fuel st stack (add_nodes ns dag_new) edges = Some (add_nodes ns' dag_new, edges') /\
    load_inv st tips [] ns' edges'.
Proof.
  induction fuel as [|f IH]; intros stack ns edges Hinv Hfuel.
  - destruct stack; [|simpl in Hfuel; lia]. exists ns, edges. split; [reflexivity | exact Hinv].
  - destruct stack as [|c rest]; [exists ns, edges; split; [reflexivity | exact Hinv]|].
    destruct Hinv as [Hnd Hn He Hs Ht Hp]. cbn [load_loop].
    pose proof (cn_repr _ _ _ (add_nodes_canon ns Hnd)) as Hr.
    destruct (dag_contains (add_nodes ns dag_new) c) eqn:Ec.
    + (* already present *)
      apply contains_add_nodes in Ec; [|exact Hnd]. apply IH; [|simpl in Hfuel; lia].
      constructor; auto.
      * intros x Hx. apply Hs. right. exact Hx.
      * intros x Hx. destruct (Ht x Hx) as [H|[[<-|H]|H]]; auto.
      * intros c0 e p H1 H2. destruct (Hp c0 e p H1 H2) as [H|[[<-|H]|H]]; auto.
    + assert (Hck : ~ In c (map fst ns)).
      { intros H. apply contains_add_nodes in H; [|exact Hnd]. congruence. }
      destruct (lookup c st) as [e|] eqn:El.
      * (* a change: add the node, push its parents *)
        rewrite <- add_nodes_snoc.
        assert (Hnd' : NoDup (map fst (ns ++ [(c, e)]))).
        { rewrite map_app. simpl. apply (Permutation_NoDup (l := c :: map fst ns)).
          - apply Permutation_cons_append.
          - constructor; assumption. }
        apply IH.
        -- constructor.
           ++ exact Hnd'.
           ++ intros k e0 H. apply in_app_or in H. destruct H as [H|[H|[]]]; [apply Hn; exact H|].
              inversion H; subst. split; [exact El | apply Hs; left; reflexivity].
           ++ intros c0 p. rewrite in_app_iff, He. unfold push_edges. rewrite in_map_iff. split.
              ** intros [[e0 [H1 H2]]|[p0 [E H]]].
                 --- exists e0. split; [apply in_or_app; left; exact H1 | exact H2].
                 --- inversion E; subst. exists e. split; [apply in_or_app; right; left; reflexivity | exact H].
              ** intros [e0 [H1 H2]]. apply in_app_or in H1. destruct H1 as [H1|[H1|[]]].
                 --- left. eauto.
                 --- inversion H1; subst. right. exists p. auto.
           ++ intros x Hx. apply in_app_or in Hx. destruct Hx as [Hx|Hx].
              ** apply in_rev in Hx. eapply cr_step; [apply Hs; left; reflexivity|]. exists e. auto.
              ** apply Hs. right. exact Hx.
           ++ intros x Hx. rewrite map_app, !in_app_iff. simpl.
              destruct (Ht x Hx) as [H|[[<-|H]|H]]; auto.
           ++ intros c0 e0 p H1 H2. rewrite map_app, !in_app_iff. simpl.
              apply in_app_or in H1. destruct H1 as [H1|[H1|[]]].
              ** destruct (Hp c0 e0 p H1 H2) as [H|[[<-|H]|H]]; auto.
              ** inversion H1; subst. right. left. left. apply in_rev. rewrite rev_involutive. exact H2.
        -- rewrite add_nodes_snoc. pose proof (weight_node st _ c e Hr El Ec).
           rewrite app_length, rev_length. simpl in Hfuel. lia.
      * (* not a change: skipped *)
        apply IH; [|simpl in Hfuel; lia]. constructor; auto.
        -- intros x Hx. apply Hs. right. exact Hx.
        -- intros x Hx. destruct (Ht x Hx) as [H|[[<-|H]|H]]; auto.
        -- intros c0 e p H1 H2. destruct (Hp c0 e p H1 H2) as [H|[[<-|H]|H]]; auto.
Qed.

Lemma load_inv_init st tips : load_inv st tips (rev tips) [] [].
Proof.
  constructor; simpl.
  - constructor.
  - tauto.
  - intros c p. split; [tauto | intros [e [[] _]]].
  - intros x Hx. apply cr_tip. apply in_rev. exact Hx.
  - intros x Hx. right. left. apply in_rev. rewrite rev_involutive. exact Hx.
  - tauto.
Qed.

(** when the work list is empty the nodes are exactly the closure *)
Lemma load_inv_final st tips ns edges : load_inv st tips [] ns edges ->
  forall k e, In (k, e) ns <-> (closure st tips k /\ lookup k st = Some e).
Proof.
  intros [Hnd Hn He Hs Ht Hp] k e. split.
  - intros H. destruct (Hn k e H) as [H1 H2]. split; [split; [exact H2 | congruence] | exact H1].
  - intros [[Hc Hl] Hle].
    assert (Hkeys : forall x, creach st tips x -> lookup x st <> None -> In x (map fst ns)).
    { clear k e Hc Hl Hle. intros x Hx. induction Hx as [x Hx|y x Hy IH [ey [Hly Hpar]]]; intros Hl.
      - destruct (Ht x Hx) as [H|[[]|H]]; [exact H | contradiction].
      - assert (Hyk : In y (map fst ns)) by (apply IH; congruence).
        apply in_map_iff in Hyk. destruct Hyk as [[y0 e0] [E Hin]]. simpl in E. subst y0.
        destruct (Hn y e0 Hin) as [Hl0 _]. rewrite Hly in Hl0. inversion Hl0; subst e0.
        destruct (Hp y ey x Hin Hpar) as [H|[[]|H]]; [exact H | contradiction]. }
    specialize (Hkeys k Hc Hl). apply in_map_iff in Hkeys. destruct Hkeys as [[k0 e0] [E Hin]].
    simpl in E. subst k0. destruct (Hn k e0 Hin) as [Hl0 _]. rewrite Hle in Hl0. inversion Hl0; subst. exact Hin.
Qed.

(** The graph `load` builds before its `roots().next()?` test: fuel always
    suffices, and the graph is canonical for (closure, parent edges of the closure). *)
Definition load_graph st tips : option (dag (entry P)) :=
  match load_loop (load_fuel st tips) st (rev tips) dag_new [] with
  | None => None
  | Some ge => Some (add_edges (fst ge) (snd ge))
  end.

Lemma load_unfold st tips :
  load st tips = match load_graph st tips with
                 | None => LoadFuel
                 | Some g => match dag_roots g with [] => LoadNone | _ :: _ => Loaded g end
                 end.
Proof. unfold load, load_graph. destruct (load_loop _ _ _ _ _); reflexivity. Qed.

Theorem load_canon st tips :
  exists ns edges g, load_graph st tips = Some g /\ canon ns edges g /\ NoDup (map fst ns) /\
    (forall k e, In (k, e) ns <-> (closure st tips k /\ lookup k st = Some e)) /\
    (forall c p, In (c, p) edges <-> (closure st tips c /\ parent_of st c p)).
Proof.
  destruct (load_loop_spec st tips (load_fuel st tips) (rev tips) [] [] (load_inv_init st tips))
    as [ns [edges [E Hinv]]].
  { simpl add_nodes. rewrite weight_new, rev_length. unfold load_fuel. lia. }
  exists ns, edges, (add_deps edges (add_nodes ns dag_new)).
  unfold load_graph. change (add_nodes [] dag_new) with (@dag_new (entry P)) in E. rewrite E. simpl fst. simpl snd.
  split; [reflexivity|]. pose proof (li_nodup _ _ _ _ _ Hinv) as Hnd.
  split; [apply build_canon; exact Hnd|]. split; [exact Hnd|].
  pose proof (load_inv_final st tips ns edges Hinv) as Hfin. split; [exact Hfin|].
  intros c p. rewrite (li_edges _ _ _ _ _ Hinv). split.
  - intros [e [H1 H2]]. apply Hfin in H1. destruct H1 as [Hc Hl]. split; [exact Hc | exists e; auto].
  - intros [Hc [e [Hl H2]]]. exists e. split; [apply Hfin; auto | exact H2].
Qed.

Corollary load_never_out_of_fuel st tips : load st tips <> LoadFuel.
Proof.
  rewrite load_unfold. destruct (load_canon st tips) as [ns [es [g [E _]]]]. rewrite E.
  destruct (dag_roots g); discriminate.
Qed.

(** C05: the loaded graph depends only on the closure of the tips *)
Theorem load_closure_only st tips1 tips2 :
  (forall x, closure st tips1 x <-> closure st tips2 x) -> load st tips1 = load st tips2.
Proof.
  intros Hcl. rewrite !load_unfold.
  destruct (load_canon st tips1) as [ns1 [es1 [g1 [E1 [Hc1 [Hnd1 [Hn1 He1]]]]]]].
  destruct (load_canon st tips2) as [ns2 [es2 [g2 [E2 [Hc2 [Hnd2 [Hn2 He2]]]]]]].
  rewrite E1, E2. assert (g1 = g2) as ->; [|reflexivity].
  eapply canon_unique; try eassumption.
  - intros [k e]. rewrite Hn1, Hn2, Hcl. reflexivity.
  - intros [c p]. rewrite He1, He2, Hcl. reflexivity.
Qed.

(** … and on the store only through what `load(id)` returns: neither the order in
    which the changes were written or received, nor unreachable changes matter *)
Lemma creach_ext st1 st2 tips1 tips2 :
  (forall k, lookup k st1 = lookup k st2) -> (forall x, In x tips1 <-> In x tips2) ->
  forall x, creach st1 tips1 x -> creach st2 tips2 x.
Proof.
  intros Hl Ht x H. induction H as [x Hx|y x _ IH [e [Hy Hp]]].
  - apply cr_tip, Ht, Hx.
  - eapply cr_step; [exact IH|]. exists e. rewrite <- Hl. auto.
Qed.

Theorem load_ext st1 st2 tips1 tips2 :
  (forall k, lookup k st1 = lookup k st2) ->
  (forall x, closure st1 tips1 x <-> closure st2 tips2 x) -> load st1 tips1 = load st2 tips2.
Proof.
  intros Hl Hcl. rewrite !load_unfold.
  destruct (load_canon st1 tips1) as [ns1 [es1 [g1 [E1 [Hc1 [Hnd1 [Hn1 He1]]]]]]].
  destruct (load_canon st2 tips2) as [ns2 [es2 [g2 [E2 [Hc2 [Hnd2 [Hn2 He2]]]]]]].
  rewrite E1, E2. assert (g1 = g2) as ->; [|reflexivity].
  eapply canon_unique; try eassumption.
  - intros [k e]. rewrite Hn1, Hn2, Hcl, Hl. reflexivity.
  - intros [c p]. rewrite He1, He2, Hcl. unfold parent_of. rewrite Hl. reflexivity.
Qed.

Lemma closure_tips_ext st tips1 tips2 : (forall x, In x tips1 <-> In x tips2) ->
  forall x, closure st tips1 x <-> closure st tips2 x.
Proof.
  intros Ht x. unfold closure. split; intros [H1 H2]; (split; [|exact H2]).
  - eapply creach_ext; [reflexivity | exact Ht | exact H1].
  - eapply creach_ext; [reflexivity | intros y; symmetry; apply Ht | exact H1].
Qed.

(** refs in any order, several refs to the same change *)
Corollary load_tips_set st tips1 tips2 : (forall x, In x tips1 <-> In x tips2) -> load st tips1 = load st tips2.
Proof. intros Ht. apply load_closure_only. apply closure_tips_ext. exact Ht. Qed.

Corollary load_tips_perm st tips1 tips2 : Permutation tips1 tips2 -> load st tips1 = load st tips2.
Proof.
  intros Hp. apply load_tips_set. intros x. split; apply Permutation_in; [exact Hp | symmetry; exact Hp].
Qed.

(** an additional ref to a change that is already reachable changes nothing *)
Corollary load_interior_ref st tips x : creach st tips x -> load st (x :: tips) = load st tips.
Proof.
  intros Hx. apply load_closure_only. intros y. unfold closure. split; intros [H1 H2]; (split; [|exact H2]); clear H2.
  - induction H1 as [y [<-|Hy]|z y _ IH Hp]; [exact Hx | apply cr_tip; exact Hy | exact (cr_step st tips z y IH Hp)].
  - induction H1 as [y Hy|z y _ IH Hp]; [apply cr_tip; right; exact Hy | exact (cr_step st (x :: tips) z y IH Hp)].
Qed.

End Load.
