(* LimiterIsolation.v — hosts are isolated from each other: what the limiter
   answers to the requests of one host, and the bucket it keeps for that host,
   are exactly what they would be had no other host ever sent anything.  So no
   peer can use up, refill or reset another peer's allowance. *)
From HW Require Import lib.Base model.Limiter proofs.LimiterProofs.

Definition on_host (h : host) (r : req) : bool := host_eqb h (r_host r).

(* the outcomes of the requests of host [h], in order *)
Fixpoint outs_for (h : host) (rs : list req) (os : list outcome) : list outcome :=
  match rs, os with
  | r :: rs', o :: os' => if on_host h r then o :: outs_for h rs' os' else outs_for h rs' os'
  | _, _ => []
  end.

(* two limiters that cannot be told apart by host [h] *)
Definition agree_on (h : host) (l l' : limiter) : Prop :=
  l_bypass l = l_bypass l' /\ hb h l = hb h l'.

Lemma agree_on_refl h l : agree_on h l l.
Proof. split; reflexivity. Qed.

Lemma limit_agree h l l' r : agree_on h l l' -> on_host h r = true ->
  snd (limit l r) = snd (limit l' r) /\ agree_on h (fst (limit l r)) (fst (limit l' r)).
Proof.
  intros [Hbp Hhb] Hon. unfold on_host in Hon. apply host_eqb_eq in Hon. subst h.
  unfold agree_on, hb in *. unfold limit, req_bypassed. rewrite Hbp, Hhb.
  destruct (match r_nid r with Some n => memN n (l_bypass l') | None => false end).
  { cbn [fst snd]. repeat split; assumption. }
  destruct (host_unroutable (r_host r)).
  { cbn [fst snd]. repeat split; assumption. }
  destruct (bucket_take _ _) as [[b1 ok]|]; cbn [fst snd l_bypass l_buckets];
    rewrite !bk_lookup_set, host_eqb_refl; repeat split; assumption.
Qed.

Lemma limit_skip h l r : on_host h r = false -> agree_on h (fst (limit l r)) l.
Proof.
  intros Hoff. split; [apply limit_bypass_list | apply limit_other_host; exact Hoff].
Qed.

Lemma agree_on_trans h a b c : agree_on h a b -> agree_on h b c -> agree_on h a c.
Proof. intros [A1 A2] [B1 B2]. split; congruence. Qed.

Lemma run_isolated h rs : forall l l', agree_on h l l' ->
  outs_for h rs (snd (run_limiter l rs)) = snd (run_limiter l' (filter (on_host h) rs)) /\
  agree_on h (fst (run_limiter l rs)) (fst (run_limiter l' (filter (on_host h) rs))).
Proof.
  induction rs as [|r rs IH]; intros l l' Hag.
  - cbn. split; [reflexivity | exact Hag].
  - rewrite run_limiter_cons. cbn [filter fst snd outs_for].
    destruct (on_host h r) eqn:Hon.
    + rewrite run_limiter_cons. cbn [fst snd].
      destruct (limit_agree h l l' r Hag Hon) as [Ho Hag'].
      destruct (IH _ _ Hag') as [IH1 IH2].
      rewrite Ho, IH1. split; [reflexivity | exact IH2].
    + apply IH. apply (agree_on_trans h _ l); [apply limit_skip; exact Hon | exact Hag].
Qed.

Theorem host_isolation h rs l :
  outs_for h rs (snd (run_limiter l rs)) = snd (run_limiter l (filter (on_host h) rs)) /\
  hb h (fst (run_limiter l rs)) = hb h (fst (run_limiter l (filter (on_host h) rs))).
Proof.
  destruct (run_isolated h rs l l (agree_on_refl h l)) as [H1 [_ H2]]. split; assumption.
Qed.

(* two timelines that differ only in what OTHER hosts did *)
Corollary host_isolation_two_timelines h rs rs' l :
  filter (on_host h) rs = filter (on_host h) rs' ->
  outs_for h rs (snd (run_limiter l rs)) = outs_for h rs' (snd (run_limiter l rs')) /\
  hb h (fst (run_limiter l rs)) = hb h (fst (run_limiter l rs')).
Proof.
  intros E. destruct (host_isolation h rs l) as [A1 A2]. destruct (host_isolation h rs' l) as [B1 B2].
  rewrite A1, A2, B1, B2, E. split; reflexivity.
Qed.
