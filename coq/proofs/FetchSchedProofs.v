(* FetchSchedProofs.v — invariants of the fetch scheduler model (FetchSched.v).
   Part 1: map lemmas, the structural invariant InvSF and its preservation by
   the primitive state changes. *)
From HW Require Import lib.Base lib.SMap model.FetchSched.
From Coq Require Import Sorted.
Local Open Scope N_scope.

(* ------------------------------------------------------------------ *)
(* sorted-map lemmas (on top of lib/SMap.v) *)

Section MapLemmas.
Context {V : Type}.
Implicit Types m : smap V.

Lemma lookup_insert k v m k0 : sorted m ->
  lookup k0 (insert k v m) = if N.eqb k0 k then Some v else lookup k0 m.
Proof.
  intros Hs. unfold insert. rewrite lookup_upsert by exact Hs.
  destruct (N.eqb k0 k); [|reflexivity]. destruct (lookup k m); reflexivity.
Qed.

Lemma sorted_insert k v m : sorted m -> sorted (insert k v m).
Proof. apply sorted_upsert. Qed.

Lemma length_insert_le k v m : (length (insert k v m) <= S (length m))%nat.
Proof.
  unfold insert. induction m as [|[k' v'] m IH]; simpl; [lia|].
  destruct (N.compare k k'); simpl; lia.
Qed.

Lemma length_remove_le k m : (length (remove k m) <= length m)%nat.
Proof.
  induction m as [|[k' v'] m IH]; simpl; [lia|].
  destruct (N.eqb k k'); simpl; lia.
Qed.

Lemma filter_keys_forall (p : N * V -> bool) (P : N -> Prop) m :
  Forall P (keys m) -> Forall P (keys (filter p m)).
Proof.
  induction m as [|[k v] m IH]; simpl; intros H; [constructor|].
  inversion H; subst. destruct (p (k, v)); simpl; [constructor|]; auto.
Qed.

Lemma sorted_filter (p : N * V -> bool) m : sorted m -> sorted (filter p m).
Proof.
  induction m as [|[k v] m IH]; simpl; intros Hs; [exact Hs|].
  apply sorted_cons_inv in Hs. destruct Hs as [Hs Hall].
  destruct (p (k, v)).
  - apply sorted_cons; [apply IH; exact Hs | apply filter_keys_forall; exact Hall].
  - apply IH; exact Hs.
Qed.

Lemma lookup_filter (p : N * V -> bool) m k : sorted m ->
  lookup k (filter p m) =
  match lookup k m with Some v => if p (k, v) then Some v else None | None => None end.
Proof.
  induction m as [|[k' v'] m IH]; simpl; intros Hs; [reflexivity|].
  apply sorted_cons_inv in Hs. destruct Hs as [Hs Hall].
  destruct (p (k', v')) eqn:Hp; simpl.
  - destruct (N.eqb_spec k k'); [subst; rewrite Hp; reflexivity | apply IH; exact Hs].
  - destruct (N.eqb_spec k k').
    + subst. rewrite Hp.
      apply lookup_none_lt. apply filter_keys_forall. exact Hall.
    + apply IH; exact Hs.
Qed.

Lemma lookup_Some_In k v m : lookup k m = Some v -> In (k, v) m.
Proof. apply lookup_In. Qed.

Lemma sorted_NoDup_keys m : sorted m -> NoDup (keys m).
Proof.
  induction m as [|[k v] m IH]; simpl; intros Hs; [constructor|].
  apply sorted_cons_inv in Hs. destruct Hs as [Hs Hall].
  constructor; [|apply IH; exact Hs].
  intros Hin. rewrite Forall_forall in Hall. specialize (Hall _ Hin). lia.
Qed.

End MapLemmas.

Lemma sset_mem_add r r' (fs : sset) : sorted fs ->
  sset_mem r (sset_add r' fs) = N.eqb r r' || sset_mem r fs.
Proof.
  intros Hs. unfold sset_mem, sset_add, mem. rewrite lookup_insert by exact Hs.
  destruct (N.eqb r r'); reflexivity.
Qed.

Lemma sset_mem_remove r r' (fs : sset) : sorted fs ->
  sset_mem r (sset_remove r' fs) = negb (N.eqb r r') && sset_mem r fs.
Proof.
  intros Hs. unfold sset_mem, sset_remove, mem. rewrite lookup_remove by exact Hs.
  destruct (N.eqb r r'); reflexivity.
Qed.

Lemma lenN_add_le r (fs : sset) : lenN (sset_add r fs) <= lenN fs + 1.
Proof. unfold lenN, sset_add. pose proof (length_insert_le r tt fs). lia. Qed.

Lemma lenN_remove_le r (fs : sset) : lenN (sset_remove r fs) <= lenN fs.
Proof. unfold lenN, sset_remove. pose proof (length_remove_le r fs). lia. Qed.

Lemma lenN_app1 {A} (l : list A) (x : A) : lenN (l ++ [x]) = lenN l + 1.
Proof. unfold lenN. rewrite app_length. simpl. lia. Qed.

(* ------------------------------------------------------------------ *)
(* The structural invariant over (sessions, fetching) *)

Record InvSF (cfg : config) (ss : smap session) (fs : smap fstate) : Prop := {
  inv_ss : sorted ss;
  inv_fs : sorted fs;
  (* representation: every fetching set is a sorted set *)
  inv_set_sorted : forall n s fset, lookup n ss = Some s -> s_state s = Connected fset -> sorted fset;
  (* (a) every fetch in flight is from a session in Connected state *)
  inv_from : forall r f, lookup r fs = Some f ->
     exists s fset, lookup (f_from f) ss = Some s /\ s_state s = Connected fset;
  (* (a, converse) every repository in a session's fetching set is being fetched from that session *)
  inv_set : forall n s fset r, lookup n ss = Some s -> s_state s = Connected fset ->
     sset_mem r fset = true -> exists f, lookup r fs = Some f /\ f_from f = n;
  (* (b) limits *)
  inv_conc : forall n s fset, lookup n ss = Some s -> s_state s = Connected fset ->
     lenN fset <= fetch_concurrency cfg;
  inv_queue : forall n s, lookup n ss = Some s -> lenN (s_queue s) <= max_queue cfg;
  (* a queued fetch sits in the queue of the session it is to be fetched from *)
  inv_qfrom : forall n s q, lookup n ss = Some s -> In q (s_queue s) -> q_from q = n
}.

(* the direction of (a) that a reset of a connected session breaks *)
Definition Fwd (ss : smap session) (fs : smap fstate) : Prop :=
  forall r f, lookup r fs = Some f ->
    exists s fset, lookup (f_from f) ss = Some s /\ s_state s = Connected fset /\ sset_mem r fset = true.

Definition Inv (cfg : config) (st : state) : Prop := InvSF cfg (sessions st) (fetching st).
Definition FwdSt (st : state) : Prop := Fwd (sessions st) (fetching st).

Lemma inv_init cfg : Inv cfg init.
Proof.
  constructor; simpl; try (intros; discriminate); try apply sorted_nil.
Qed.

Lemma fwd_init : FwdSt init.
Proof. intros r f H. discriminate. Qed.

Ltac eqb_cases :=
  repeat match goal with
  | |- context [N.eqb ?a ?b] => destruct (N.eqb_spec a b); subst
  | H : context [N.eqb ?a ?b] |- _ => destruct (N.eqb_spec a b); subst
  end.

(* put (insert or replace) a session *)
Lemma inv_put_session cfg ss fs n s' :
  InvSF cfg ss fs ->
  (forall fset, s_state s' = Connected fset ->
     sorted fset /\ lenN fset <= fetch_concurrency cfg /\
     forall r, sset_mem r fset = true -> exists f, lookup r fs = Some f /\ f_from f = n) ->
  ((exists r f, lookup r fs = Some f /\ f_from f = n) -> exists fset, s_state s' = Connected fset) ->
  lenN (s_queue s') <= max_queue cfg ->
  (forall q, In q (s_queue s') -> q_from q = n) ->
  InvSF cfg (insert n s' ss) fs.
Proof.
  intros I Hset Hconn Hq Hqf. destruct I as [Iss Ifs Isort Ifrom Iset Iconc Iqueue Iqfrom].
  constructor.
  - apply sorted_insert; exact Iss.
  - exact Ifs.
  - intros n0 s fset Hl Hst. rewrite lookup_insert in Hl by exact Iss.
    destruct (N.eqb_spec n0 n).
    + inversion Hl; subst. apply (Hset fset Hst).
    + eapply Isort; eauto.
  - intros r f Hl. rewrite lookup_insert by exact Iss.
    destruct (N.eqb_spec (f_from f) n) as [E|E].
    + destruct Hconn as [fset Hf]; [exists r, f; auto|]. exists s', fset. auto.
    + apply (Ifrom r f Hl).
  - intros n0 s fset r Hl Hst Hm. rewrite lookup_insert in Hl by exact Iss.
    destruct (N.eqb_spec n0 n).
    + inversion Hl; subst. destruct (Hset fset Hst) as [_ [_ H]]. apply H; exact Hm.
    + eapply Iset; eauto.
  - intros n0 s fset Hl Hst. rewrite lookup_insert in Hl by exact Iss.
    destruct (N.eqb_spec n0 n).
    + inversion Hl; subst. apply (Hset fset Hst).
    + eapply Iconc; eauto.
  - intros n0 s Hl. rewrite lookup_insert in Hl by exact Iss.
    destruct (N.eqb_spec n0 n).
    + inversion Hl; subst. exact Hq.
    + eapply Iqueue; eauto.
  - intros n0 s q Hl Hin. rewrite lookup_insert in Hl by exact Iss.
    destruct (N.eqb_spec n0 n).
    + inversion Hl; subst. apply Hqf; exact Hin.
    + eapply Iqfrom; eauto.
Qed.

(* a session update that keeps state and link of the session (queue changes) *)
Lemma inv_put_queue cfg ss fs n s qu :
  InvSF cfg ss fs -> lookup n ss = Some s ->
  lenN qu <= max_queue cfg -> (forall q, In q qu -> q_from q = n) ->
  InvSF cfg (insert n (with_queue s qu) ss) fs.
Proof.
  intros I Hl Hq Hqf. apply inv_put_session; simpl; auto.
  - intros fset Hst. split; [|split].
    + eapply inv_set_sorted; eauto.
    + eapply inv_conc; eauto.
    + intros r Hm. eapply inv_set; eauto.
  - intros [r [f [Hf Hn]]]. destruct (inv_from _ _ _ I r f Hf) as [s0 [fset [Hs0 Hst]]].
    rewrite Hn, Hl in Hs0. inversion Hs0; subst. exists fset; exact Hst.
Qed.

Lemma fwd_put_same_state ss fs n s s' :
  sorted ss -> Fwd ss fs -> lookup n ss = Some s -> s_state s' = s_state s ->
  Fwd (insert n s' ss) fs.
Proof.
  intros Hs F Hl Hst r f Hf. destruct (F r f Hf) as [s0 [fset [H1 [H2 H3]]]].
  rewrite lookup_insert by exact Hs. destruct (N.eqb_spec (f_from f) n) as [E|E].
  - rewrite E, Hl in H1. inversion H1; subst. exists s', fset. rewrite Hst. auto.
  - exists s0, fset. auto.
Qed.

(* replace a fetching entry by one from the same peer (subscribe) *)
Lemma inv_put_fetching cfg ss fs r f f' :
  InvSF cfg ss fs -> lookup r fs = Some f -> f_from f' = f_from f ->
  InvSF cfg ss (insert r f' fs).
Proof.
  intros I Hl Hf. destruct I as [Iss Ifs Isort Ifrom Iset Iconc Iqueue Iqfrom].
  constructor; auto.
  - apply sorted_insert; exact Ifs.
  - intros r0 f0 Hl0. rewrite lookup_insert in Hl0 by exact Ifs.
    destruct (N.eqb_spec r0 r).
    + inversion Hl0; subst. rewrite Hf. apply (Ifrom r f Hl).
    + apply (Ifrom r0 f0 Hl0).
  - intros n s fset r0 Hs Hst Hm. destruct (Iset n s fset r0 Hs Hst Hm) as [f0 [H1 H2]].
    rewrite lookup_insert by exact Ifs. destruct (N.eqb_spec r0 r).
    + subst r0. rewrite Hl in H1. inversion H1; subst. exists f'. split; [reflexivity | exact Hf].
    + exists f0. auto.
Qed.

Lemma fwd_put_fetching ss fs r f f' :
  sorted fs -> Fwd ss fs -> lookup r fs = Some f -> f_from f' = f_from f ->
  Fwd ss (insert r f' fs).
Proof.
  intros Hs F Hl Hf r0 f0 Hl0. rewrite lookup_insert in Hl0 by exact Hs.
  destruct (N.eqb_spec r0 r).
  - inversion Hl0; subst. rewrite Hf. apply (F r f Hl).
  - apply (F r0 f0 Hl0).
Qed.

(* start a fetch: new entry + the rid enters the session's set *)
Lemma inv_start cfg ss fs n s fset r refs i :
  InvSF cfg ss fs -> lookup n ss = Some s -> s_state s = Connected fset ->
  lookup r fs = None -> lenN fset < fetch_concurrency cfg ->
  InvSF cfg (insert n (with_state s (Connected (sset_add r fset))) ss) (insert r (mkF n refs [] i) fs).
Proof.
  intros I Hl Hst Hvac Hcap.
  pose proof (inv_set_sorted _ _ _ I n s fset Hl Hst) as Hsorted.
  destruct I as [Iss Ifs Isort Ifrom Iset Iconc Iqueue Iqfrom].
  constructor.
  - apply sorted_insert; exact Iss.
  - apply sorted_insert; exact Ifs.
  - intros n0 s0 fset0 Hl0 Hst0. rewrite lookup_insert in Hl0 by exact Iss.
    destruct (N.eqb_spec n0 n).
    + inversion Hl0; subst. simpl in Hst0. inversion Hst0; subst.
      apply sorted_insert; exact Hsorted.
    + eapply Isort; eauto.
  - intros r0 f0 Hl0. rewrite lookup_insert in Hl0 by exact Ifs.
    rewrite lookup_insert by exact Iss.
    destruct (N.eqb_spec r0 r).
    + inversion Hl0; subst. simpl. rewrite N.eqb_refl. eexists _, _. split; [reflexivity|]. reflexivity.
    + destruct (Ifrom r0 f0 Hl0) as [s1 [fset1 [H1 H2]]].
      destruct (N.eqb_spec (f_from f0) n) as [E|E].
      * eexists _, _. split; [reflexivity|]. reflexivity.
      * exists s1, fset1. auto.
  - intros n0 s0 fset0 r0 Hl0 Hst0 Hm. rewrite lookup_insert in Hl0 by exact Iss.
    rewrite lookup_insert by exact Ifs.
    destruct (N.eqb_spec n0 n).
    + inversion Hl0; subst. simpl in Hst0. inversion Hst0; subst.
      rewrite sset_mem_add in Hm by exact Hsorted.
      destruct (N.eqb_spec r0 r).
      * eexists. split; reflexivity.
      * simpl in Hm. apply (Iset n s fset r0 Hl Hst Hm).
    + destruct (Iset n0 s0 fset0 r0 Hl0 Hst0 Hm) as [f0 [H1 H2]].
      destruct (N.eqb_spec r0 r); [subst; congruence|]. exists f0; auto.
  - intros n0 s0 fset0 Hl0 Hst0. rewrite lookup_insert in Hl0 by exact Iss.
    destruct (N.eqb_spec n0 n).
    + inversion Hl0; subst. simpl in Hst0. inversion Hst0; subst.
      pose proof (lenN_add_le r fset). lia.
    + eapply Iconc; eauto.
  - intros n0 s0 Hl0. rewrite lookup_insert in Hl0 by exact Iss.
    destruct (N.eqb_spec n0 n).
    + inversion Hl0; subst. simpl. eapply Iqueue; eauto.
    + eapply Iqueue; eauto.
  - intros n0 s0 q Hl0 Hin. rewrite lookup_insert in Hl0 by exact Iss.
    destruct (N.eqb_spec n0 n).
    + inversion Hl0; subst. simpl in Hin. eapply Iqfrom; eauto.
    + eapply Iqfrom; eauto.
Qed.

Lemma fwd_start cfg ss fs n s fset r refs i :
  InvSF cfg ss fs -> Fwd ss fs -> lookup n ss = Some s -> s_state s = Connected fset ->
  Fwd (insert n (with_state s (Connected (sset_add r fset))) ss) (insert r (mkF n refs [] i) fs).
Proof.
  intros I F Hl Hst r0 f0 Hl0.
  pose proof (inv_set_sorted _ _ _ I n s fset Hl Hst) as Hsorted.
  rewrite lookup_insert in Hl0 by apply (inv_fs _ _ _ I).
  rewrite lookup_insert by apply (inv_ss _ _ _ I).
  destruct (N.eqb_spec r0 r).
  - inversion Hl0; subst. simpl. rewrite N.eqb_refl. eexists _, _. split; [reflexivity|]. split; [reflexivity|].
    rewrite sset_mem_add by exact Hsorted. rewrite N.eqb_refl. reflexivity.
  - destruct (F r0 f0 Hl0) as [s1 [fset1 [H1 [H2 H3]]]].
    destruct (N.eqb_spec (f_from f0) n) as [E|E].
    + rewrite E, Hl in H1. inversion H1; subst. rewrite Hst in H2. inversion H2; subst.
      eexists _, _. split; [reflexivity|]. split; [reflexivity|].
      rewrite sset_mem_add by exact Hsorted. rewrite H3. apply orb_true_r.
    + exists s1, fset1. auto.
Qed.

(* complete a fetch: the entry disappears and the rid leaves the session's set *)
Definition finish_sessions (ss : smap session) (remote r : N) : smap session :=
  match lookup remote ss with
  | Some s => insert remote (session_fetched s r) ss
  | None => ss
  end.

Lemma inv_finish cfg ss fs r f :
  InvSF cfg ss fs -> lookup r fs = Some f ->
  InvSF cfg (finish_sessions ss (f_from f) r) (remove r fs).
Proof.
  intros I Hl. destruct (inv_from _ _ _ I r f Hl) as [s [fset [Hs Hst]]].
  pose proof (inv_set_sorted _ _ _ I _ s fset Hs Hst) as Hsorted.
  unfold finish_sessions. rewrite Hs. unfold session_fetched. rewrite Hst.
  destruct I as [Iss Ifs Isort Ifrom Iset Iconc Iqueue Iqfrom].
  constructor.
  - apply sorted_insert; exact Iss.
  - apply sorted_remove; exact Ifs.
  - intros n0 s0 fset0 Hl0 Hst0. rewrite lookup_insert in Hl0 by exact Iss.
    destruct (N.eqb_spec n0 (f_from f)).
    + inversion Hl0; subst. simpl in Hst0. inversion Hst0; subst.
      apply sorted_remove; exact Hsorted.
    + eapply Isort; eauto.
  - intros r0 f0 Hl0. rewrite lookup_remove in Hl0 by exact Ifs.
    destruct (N.eqb_spec r0 r); [discriminate|].
    rewrite lookup_insert by exact Iss.
    destruct (N.eqb_spec (f_from f0) (f_from f)) as [E|E].
    + eexists _, _. split; [reflexivity|]. reflexivity.
    + apply (Ifrom r0 f0 Hl0).
  - intros n0 s0 fset0 r0 Hl0 Hst0 Hm. rewrite lookup_insert in Hl0 by exact Iss.
    rewrite lookup_remove by exact Ifs.
    destruct (N.eqb_spec n0 (f_from f)).
    + inversion Hl0; subst. simpl in Hst0. inversion Hst0; subst.
      rewrite sset_mem_remove in Hm by exact Hsorted.
      destruct (N.eqb_spec r0 r); [discriminate|]. simpl in Hm.
      apply (Iset _ s fset r0 Hs Hst Hm).
    + destruct (Iset n0 s0 fset0 r0 Hl0 Hst0 Hm) as [f0 [H1 H2]].
      destruct (N.eqb_spec r0 r).
      * subst. rewrite Hl in H1. inversion H1; subst. congruence.
      * exists f0; auto.
  - intros n0 s0 fset0 Hl0 Hst0. rewrite lookup_insert in Hl0 by exact Iss.
    destruct (N.eqb_spec n0 (f_from f)).
    + inversion Hl0; subst. simpl in Hst0. inversion Hst0; subst.
      pose proof (lenN_remove_le r fset). pose proof (Iconc _ s fset Hs Hst). lia.
    + eapply Iconc; eauto.
  - intros n0 s0 Hl0. rewrite lookup_insert in Hl0 by exact Iss.
    destruct (N.eqb_spec n0 (f_from f)).
    + inversion Hl0; subst. simpl. eapply Iqueue; eauto.
    + eapply Iqueue; eauto.
  - intros n0 s0 q Hl0 Hin. rewrite lookup_insert in Hl0 by exact Iss.
    destruct (N.eqb_spec n0 (f_from f)).
    + inversion Hl0; subst. simpl in Hin. eapply Iqfrom; eauto.
    + eapply Iqfrom; eauto.
Qed.

Lemma fwd_finish cfg ss fs r f :
  InvSF cfg ss fs -> Fwd ss fs -> lookup r fs = Some f ->
  Fwd (finish_sessions ss (f_from f) r) (remove r fs).
Proof.
  intros I F Hl r0 f0 Hl0. destruct (inv_from _ _ _ I r f Hl) as [s [fset [Hs Hst]]].
  pose proof (inv_set_sorted _ _ _ I _ s fset Hs Hst) as Hsorted.
  unfold finish_sessions. rewrite Hs. unfold session_fetched. rewrite Hst.
  rewrite lookup_remove in Hl0 by apply (inv_fs _ _ _ I).
  destruct (N.eqb_spec r0 r); [discriminate|].
  destruct (F r0 f0 Hl0) as [s1 [fset1 [H1 [H2 H3]]]].
  rewrite lookup_insert by apply (inv_ss _ _ _ I).
  destruct (N.eqb_spec (f_from f0) (f_from f)) as [E|E].
  - rewrite E, Hs in H1. inversion H1; subst. rewrite Hst in H2. inversion H2; subst.
    eexists _, _. split; [reflexivity|]. split; [reflexivity|].
    rewrite sset_mem_remove by exact Hsorted. rewrite H3.
    destruct (N.eqb_spec r0 r); [contradiction | reflexivity].
  - exists s1, fset1. auto.
Qed.

(* disconnection of n: its fetches are dropped, the session is removed or parked *)
Definition drop_from (n : N) (fs : smap fstate) : smap fstate :=
  filter (fun kv => negb (from_is n kv)) fs.

Lemma lookup_drop_from n fs r : sorted fs ->
  lookup r (drop_from n fs) =
  match lookup r fs with Some f => if N.eqb (f_from f) n then None else Some f | None => None end.
Proof.
  intros Hs. unfold drop_from. rewrite lookup_filter by exact Hs.
  destruct (lookup r fs) as [f|]; [|reflexivity]. unfold from_is. simpl.
  destruct (N.eqb (f_from f) n); reflexivity.
Qed.

Lemma inv_disconnect cfg ss fs n s (pers : bool) :
  InvSF cfg ss fs -> lookup n ss = Some s ->
  InvSF cfg (if pers then insert n (with_state s Disconnected) ss else remove n ss) (drop_from n fs).
Proof.
  intros I Hl. destruct I as [Iss Ifs Isort Ifrom Iset Iconc Iqueue Iqfrom].
  assert (Hlk : forall n0, lookup n0 (if pers then insert n (with_state s Disconnected) ss else remove n ss) =
                           if N.eqb n0 n then (if pers then Some (with_state s Disconnected) else None) else lookup n0 ss).
  { intros n0. destruct pers; [rewrite lookup_insert by exact Iss | rewrite lookup_remove by exact Iss]; reflexivity. }
  constructor.
  - destruct pers; [apply sorted_insert | apply sorted_remove]; exact Iss.
  - apply sorted_filter; exact Ifs.
  - intros n0 s0 fset0 Hl0 Hst0. rewrite Hlk in Hl0. destruct (N.eqb_spec n0 n).
    + destruct pers; [|discriminate]. inversion Hl0; subst. discriminate.
    + eapply Isort; eauto.
  - intros r0 f0 Hl0. rewrite lookup_drop_from in Hl0 by exact Ifs.
    destruct (lookup r0 fs) as [f1|] eqn:E1; [|discriminate].
    destruct (N.eqb_spec (f_from f1) n); [discriminate|]. inversion Hl0; subst.
    rewrite Hlk. destruct (N.eqb_spec (f_from f0) n); [contradiction|].
    apply (Ifrom r0 f0 E1).
  - intros n0 s0 fset0 r0 Hl0 Hst0 Hm. rewrite Hlk in Hl0. destruct (N.eqb_spec n0 n).
    + destruct pers; [|discriminate]. inversion Hl0; subst. discriminate.
    + destruct (Iset n0 s0 fset0 r0 Hl0 Hst0 Hm) as [f0 [H1 H2]].
      rewrite lookup_drop_from by exact Ifs. rewrite H1.
      destruct (N.eqb_spec (f_from f0) n); [congruence|]. exists f0; auto.
  - intros n0 s0 fset0 Hl0 Hst0. rewrite Hlk in Hl0. destruct (N.eqb_spec n0 n).
    + destruct pers; [|discriminate]. inversion Hl0; subst. discriminate.
    + eapply Iconc; eauto.
  - intros n0 s0 Hl0. rewrite Hlk in Hl0. destruct (N.eqb_spec n0 n).
    + destruct pers; [|discriminate]. inversion Hl0; subst. simpl. eapply Iqueue; eauto.
    + eapply Iqueue; eauto.
  - intros n0 s0 q Hl0 Hin. rewrite Hlk in Hl0. destruct (N.eqb_spec n0 n).
    + destruct pers; [|discriminate]. inversion Hl0; subst. simpl in Hin. eapply Iqfrom; eauto.
    + eapply Iqfrom; eauto.
Qed.

Lemma fwd_disconnect cfg ss fs n s (pers : bool) :
  InvSF cfg ss fs -> Fwd ss fs -> lookup n ss = Some s ->
  Fwd (if pers then insert n (with_state s Disconnected) ss else remove n ss) (drop_from n fs).
Proof.
  intros I F Hl r0 f0 Hl0.
  rewrite lookup_drop_from in Hl0 by apply (inv_fs _ _ _ I).
  destruct (lookup r0 fs) as [f1|] eqn:E1; [|discriminate].
  destruct (N.eqb_spec (f_from f1) n); [discriminate|]. inversion Hl0; subst.
  destruct (F r0 f0 E1) as [s1 [fset1 [H1 H2]]].
  exists s1, fset1. split; [|exact H2].
  destruct pers; [rewrite lookup_insert by apply (inv_ss _ _ _ I) | rewrite lookup_remove by apply (inv_ss _ _ _ I)];
    destruct (N.eqb_spec (f_from f0) n); try contradiction; exact H1.
Qed.

(* ------------------------------------------------------------------ *)
(* Part 2: every function of the model returns (no Panic) and preserves Inv;
   it also preserves Fwd (the only exception, a reset, is in [connected]). *)

Definition Good (cfg : config) (st : state) (x : res state) : Prop :=
  exists st', x = Ret st' /\ Inv cfg st' /\ (FwdSt st -> FwdSt st').

Lemma good_ret cfg st st' :
  Inv cfg st' -> (FwdSt st -> FwdSt st') -> Good cfg st (Ret st').
Proof. intros. exists st'. auto. Qed.

Lemma good_same cfg st st' :
  sessions st' = sessions st -> fetching st' = fetching st -> Inv cfg st -> Good cfg st (Ret st').
Proof.
  intros Hs Hf I. apply good_ret.
  - unfold Inv. rewrite Hs, Hf. exact I.
  - unfold FwdSt. rewrite Hs, Hf. auto.
Qed.

Lemma good_bind cfg st x f :
  Good cfg st x -> (forall st1, Inv cfg st1 -> Good cfg st1 (f st1)) -> Good cfg st (bind x f).
Proof.
  intros [st1 [E [I1 F1]]] H. subst x. simpl.
  destruct (H st1 I1) as [st2 [E2 [I2 F2]]]. exists st2. auto.
Qed.

Lemma good_trans cfg st st1 x :
  Inv cfg st1 -> (FwdSt st -> FwdSt st1) -> Good cfg st1 x -> Good cfg st x.
Proof. intros I1 F1 [st2 [E [I2 F2]]]. exists st2. auto. Qed.

(* no fetch is in flight from a peer whose session is absent or not connected *)
Lemma no_fetch_from cfg ss fs n :
  InvSF cfg ss fs ->
  (forall s fset, lookup n ss = Some s -> s_state s <> Connected fset) ->
  forall r f, lookup r fs = Some f -> f_from f <> n.
Proof.
  intros I H r f Hl E. destruct (inv_from _ _ _ I r f Hl) as [s [fset [H1 H2]]].
  rewrite E in H1. apply (H s fset H1 H2).
Qed.

(* put a session at n while no fetch from n is in flight *)
Lemma inv_put_idle cfg ss fs n s' :
  InvSF cfg ss fs ->
  (forall r f, lookup r fs = Some f -> f_from f <> n) ->
  (forall fset, s_state s' = Connected fset -> fset = []) ->
  lenN (s_queue s') <= max_queue cfg ->
  (forall q, In q (s_queue s') -> q_from q = n) ->
  InvSF cfg (insert n s' ss) fs /\ (Fwd ss fs -> Fwd (insert n s' ss) fs).
Proof.
  intros I Hno Hst Hq Hqf. split.
  - apply inv_put_session; auto.
    + intros fset E. rewrite (Hst fset E). split; [apply sorted_nil|]. split; [unfold lenN; simpl; lia|].
      intros r Hm. discriminate.
    + intros [r [f [Hl E]]]. exfalso. apply (Hno r f Hl E).
  - intros F r f Hl. destruct (F r f Hl) as [s1 [fset1 [H1 H2]]].
    exists s1, fset1. split; [|exact H2].
    rewrite lookup_insert by apply (inv_ss _ _ _ I).
    destruct (N.eqb_spec (f_from f) n) as [E|E]; [exfalso; apply (Hno r f Hl E) | exact H1].
Qed.

Lemma try_fetch_ok cfg st r from refs :
  Inv cfg st ->
  exists t st', try_fetch cfg st r from refs = Ret (t, st') /\ Inv cfg st' /\ (FwdSt st -> FwdSt st').
Proof.
  intros I. unfold try_fetch.
  destruct (lookup from (sessions st)) as [s|] eqn:Hs; [|eexists _, _; split; [reflexivity|]; auto].
  destruct (lookup r (fetching st)) as [f|] eqn:Hf; [eexists _, _; split; [reflexivity|]; auto|].
  destruct (is_fetching s r) eqn:Hisf.
  { exfalso. unfold is_fetching in Hisf. destruct (s_state s) as [| |fset|] eqn:Hst; try discriminate.
    destruct (inv_set _ _ _ I from s fset r Hs Hst Hisf) as [f [H1 _]]. congruence. }
  destruct (is_connected s) eqn:Hc; simpl; [|eexists _, _; split; [reflexivity|]; auto].
  destruct (is_at_capacity cfg s) eqn:Hcap; [eexists _, _; split; [reflexivity|]; auto|].
  unfold is_connected in Hc. unfold session_fetching.
  destruct (s_state s) as [| |fset|] eqn:Hst; try discriminate.
  unfold is_fetching in Hisf. rewrite Hst in Hisf. rewrite Hisf. simpl.
  unfold is_at_capacity in Hcap. rewrite Hst in Hcap. apply N.leb_gt in Hcap.
  eexists _, _. split; [reflexivity|]. split.
  - unfold Inv; simpl. eapply inv_start; eauto.
  - unfold FwdSt; simpl. intros F. eapply fwd_start; eauto.
Qed.

Lemma subscribe_from sub f : f_from (subscribe sub f) = f_from f.
Proof. unfold subscribe. destruct sub as [c|]; [|reflexivity]. destruct (memN c (f_subs f)); reflexivity. Qed.

Lemma subscribe_at_ok cfg st r sub : Inv cfg st -> Good cfg st (Ret (subscribe_at st r sub)).
Proof.
  intros I. unfold subscribe_at. destruct (lookup r (fetching st)) as [f|] eqn:Hf.
  - apply good_ret.
    + unfold Inv; simpl. eapply inv_put_fetching; eauto. apply subscribe_from.
    + unfold FwdSt; simpl. intros F. eapply fwd_put_fetching; eauto.
      * apply (inv_fs _ _ _ I).
      * apply subscribe_from.
  - apply good_same; auto.
Qed.

Lemma queue_fetch_ok cfg st q : Inv cfg st -> Good cfg st (queue_fetch cfg st q).
Proof.
  intros I. unfold queue_fetch. destruct (lookup (q_from q) (sessions st)) as [s|] eqn:Hs; [|apply good_same; auto].
  unfold session_queue_fetch. rewrite N.eqb_refl. simpl.
  assert (Hsame : Good cfg st (Ret (set_sessions st (insert (q_from q) s (sessions st))))).
  { apply good_ret.
    - unfold Inv; simpl. replace s with (with_queue s (s_queue s)) at 1 by (destruct s; reflexivity).
      eapply inv_put_queue; eauto.
      + eapply inv_queue; eauto.
      + intros q0 Hin. eapply inv_qfrom; eauto.
    - unfold FwdSt; simpl. intros F. eapply fwd_put_same_state; eauto. apply (inv_ss _ _ _ I). }
  destruct (max_queue cfg <=? lenN (s_queue s)) eqn:Hcap; [exact Hsame|].
  destruct (existsb (fun x => qeq x q) (s_queue s)); [exact Hsame|]. simpl.
  apply N.leb_gt in Hcap.
  apply good_ret.
  - unfold Inv; simpl. eapply inv_put_queue; eauto.
    + rewrite lenN_app1. lia.
    + intros q0 Hin. apply in_app_or in Hin. destruct Hin as [Hin|[E|[]]].
      * eapply inv_qfrom; eauto.
      * subst; reflexivity.
  - unfold FwdSt; simpl. intros F. eapply fwd_put_same_state; eauto. apply (inv_ss _ _ _ I).
Qed.

Lemma emit_same cfg st o : Inv cfg st -> Good cfg st (Ret (emit o st)).
Proof. intros I. apply good_same; auto. Qed.

Lemma fetch_ok cfg st r from refs sub : Inv cfg st -> Good cfg st (fetch_ cfg st r from refs sub).
Proof.
  intros I. unfold fetch_.
  destruct (try_fetch_ok cfg st r from refs I) as [t [st1 [E [I1 F1]]]]. rewrite E. simpl.
  apply (good_trans cfg st st1); auto.
  destruct t as [|f| |].
  - apply subscribe_at_ok; exact I1.
  - destruct (N.eqb (f_from f) from && list_eqb N.eqb (f_refs f) refs).
    + apply subscribe_at_ok; exact I1.
    + apply queue_fetch_ok; exact I1.
  - apply queue_fetch_ok; exact I1.
  - destruct sub; [apply emit_same; exact I1 | apply good_same; auto].
Qed.

Lemma fetch_refs_at_ok cfg st r from refs sub : Inv cfg st -> Good cfg st (fetch_refs_at cfg st r from refs sub).
Proof.
  intros I. unfold fetch_refs_at.
  destruct (filter (fun x => negb (is_stored st r x)) refs); [apply good_same; auto | apply fetch_ok; exact I].
Qed.

Lemma dequeue_one_ok cfg st n : Inv cfg st -> Good cfg st (dequeue_one cfg st n).
Proof.
  intros I. unfold dequeue_one.
  destruct (lookup n (sessions st)) as [s|] eqn:Hs; [|apply good_same; auto].
  destruct (negb (is_connected s) || is_at_capacity cfg s); [apply good_same; auto|].
  destruct (s_queue s) as [|q rest] eqn:Hq; [apply good_same; auto|].
  set (st1 := set_sessions st (insert n (with_queue s rest) (sessions st))).
  assert (I1 : Inv cfg st1).
  { unfold Inv, st1; simpl. eapply inv_put_queue; eauto.
    - pose proof (inv_queue _ _ _ I n s Hs) as H. rewrite Hq in H. unfold lenN in *. simpl in H. lia.
    - intros q0 Hin. eapply inv_qfrom; eauto. rewrite Hq. right; exact Hin. }
  assert (F1 : FwdSt st -> FwdSt st1).
  { unfold FwdSt, st1; simpl. intros F. eapply fwd_put_same_state; eauto. apply (inv_ss _ _ _ I). }
  apply (good_trans cfg st st1); auto.
  destruct (q_refs q).
  - apply fetch_ok; exact I1.
  - destruct (sset_mem (q_rid q) (seeded st1)); [apply fetch_refs_at_ok; exact I1 | apply good_same; auto].
Qed.

Lemma dequeue_fetches_ok cfg ord : forall st, Inv cfg st -> Good cfg st (dequeue_fetches cfg st ord).
Proof.
  induction ord as [|n ord IH]; intros st I; simpl.
  - apply good_same; auto.
  - apply good_bind; [apply dequeue_one_ok; exact I | intros st1 I1; apply IH; exact I1].
Qed.

Lemma fetched_ok cfg st i r remote x ord : Inv cfg st -> Good cfg st (fetched cfg st i r remote x ord).
Proof.
  intros I. unfold fetched.
  destruct (lookup r (fetching st)) as [f|] eqn:Hf; [|apply good_same; auto].
  destruct (N.eqb_spec (f_from f) remote) as [E|E]; simpl; [|apply good_same; auto].
  subst remote.
  match goal with |- Good _ _ (dequeue_fetches _ ?s _) => set (st4 := s) end.
  assert (Hs4 : sessions st4 = finish_sessions (sessions st) (f_from f) r).
  { unfold st4. destruct x; reflexivity. }
  assert (Hf4 : fetching st4 = remove r (fetching st)).
  { unfold st4. destruct x; reflexivity. }
  assert (I4 : Inv cfg st4). { unfold Inv. rewrite Hs4, Hf4. eapply inv_finish; eauto. }
  assert (F4 : FwdSt st -> FwdSt st4). { unfold FwdSt. rewrite Hs4, Hf4. intros F. eapply fwd_finish; eauto. }
  apply (good_trans cfg st st4); auto. apply dequeue_fetches_ok; exact I4.
Qed.

Lemma disconnected_ok cfg st n l ord : Inv cfg st -> Good cfg st (disconnected cfg st n l ord).
Proof.
  intros I. unfold disconnected.
  destruct (lookup n (sessions st)) as [s|] eqn:Hs; [|apply good_same; auto].
  destruct (negb (link_eqb (s_link s) l)); [apply good_same; auto|].
  match goal with |- Good _ _ (dequeue_fetches _ ?s _) => set (st1 := s) end.
  assert (I1 : Inv cfg st1). { unfold Inv, st1; simpl. apply inv_disconnect; auto. }
  assert (F1 : FwdSt st -> FwdSt st1).
  { unfold FwdSt, st1; simpl. intros F. eapply fwd_disconnect; eauto. }
  apply (good_trans cfg st st1); auto. apply dequeue_fetches_ok; exact I1.
Qed.

Lemma inv_state_irrelevant cfg st st' :
  sessions st' = sessions st -> fetching st' = fetching st -> Inv cfg st -> Inv cfg st'.
Proof. intros Hs Hf I. unfold Inv. rewrite Hs, Hf. exact I. Qed.

(* sessions that are not in Connected state have no fetch in flight *)
Lemma idle_if_not_connected cfg st n :
  Inv cfg st ->
  (forall s, lookup n (sessions st) = Some s -> is_connected s = false) ->
  forall r f, lookup r (fetching st) = Some f -> f_from f <> n.
Proof.
  intros I H. eapply no_fetch_from; eauto.
  intros s fset Hs Hst. specialize (H s Hs). unfold is_connected in H. rewrite Hst in H. discriminate.
Qed.

Lemma attempted_ok cfg st n s :
  Inv cfg st -> lookup n (sessions st) = Some s -> s_state s = Initial ->
  Good cfg st (attempted st n).
Proof.
  intros I Hs Hst. unfold attempted. rewrite Hs. unfold to_attempted. rewrite Hst. simpl.
  assert (Hidle : forall r f, lookup r (fetching st) = Some f -> f_from f <> n).
  { eapply idle_if_not_connected; eauto. intros s0 H0. rewrite Hs in H0. inversion H0; subst.
    unfold is_connected. rewrite Hst. reflexivity. }
  destruct (inv_put_idle cfg (sessions st) (fetching st) n (with_state s Attempted) I Hidle) as [I1 F1].
  - simpl. discriminate.
  - simpl. eapply inv_queue; eauto.
  - simpl. intros q Hin. eapply inv_qfrom; eauto.
  - apply good_ret; [exact I1 | exact F1].
Qed.

Lemma connect_cmd_ok cfg st n pers att : Inv cfg st -> Good cfg st (connect_cmd st n pers att).
Proof.
  intros I. unfold connect_cmd.
  match goal with |- context [lookup n (sessions ?s)] => set (st0 := s) end.
  assert (Hs0 : sessions st0 = sessions st) by (unfold st0; destruct pers; reflexivity).
  assert (Hf0 : fetching st0 = fetching st) by (unfold st0; destruct pers; reflexivity).
  assert (I0 : Inv cfg st0) by (eapply inv_state_irrelevant; eauto).
  assert (F0 : FwdSt st -> FwdSt st0) by (unfold FwdSt; rewrite Hs0, Hf0; auto).
  apply (good_trans cfg st st0); auto.
  destruct (lookup n (sessions st0)) as [s|] eqn:Hs; [apply good_same; auto|].
  assert (Hidle : forall r f, lookup r (fetching st0) = Some f -> f_from f <> n).
  { eapply idle_if_not_connected; eauto. intros s0 H0. congruence. }
  destruct (inv_put_idle cfg (sessions st0) (fetching st0) n (mkS Outbound Initial []) I0 Hidle) as [I1 F1].
  - simpl. discriminate.
  - unfold lenN; simpl. lia.
  - simpl. intros q [].
  - set (st1 := emit (OConnect n) (set_sessions st0 (insert n (mkS Outbound Initial []) (sessions st0)))).
    assert (I1' : Inv cfg st1) by exact I1.
    assert (F1' : FwdSt st0 -> FwdSt st1) by exact F1.
    destruct att; [|apply good_ret; auto].
    apply (good_trans cfg st0 st1); auto.
    eapply attempted_ok; eauto.
    + unfold st1; simpl. rewrite lookup_insert by apply (inv_ss _ _ _ I0). rewrite N.eqb_refl. reflexivity.
    + reflexivity.
Qed.

Lemma to_connected_state s :
  (exists fset, s_state s = Connected fset /\ s_state (to_connected s) = Connected fset) \/
  (is_connected s = false /\ s_state (to_connected s) = Connected []).
Proof.
  unfold to_connected, is_connected. destruct (s_state s) as [| |fset|]; simpl; auto.
  left. exists fset. auto.
Qed.

(* put at n a session [s'] obtained from the session [s0] at n by to_connected
   (queue of s0 kept; s' connected with s0's set if s0 was connected, else empty) *)
Lemma put_connected cfg ss fs n s0 s' :
  InvSF cfg ss fs -> lookup n ss = Some s0 -> s_queue s' = s_queue s0 ->
  ((exists fset, s_state s0 = Connected fset /\ s_state s' = Connected fset) \/
   (is_connected s0 = false /\ s_state s' = Connected [])) ->
  InvSF cfg (insert n s' ss) fs /\ (Fwd ss fs -> Fwd (insert n s' ss) fs).
Proof.
  intros I Hs Hq [[fset [H0 H1]]|[H0 H1]].
  - split.
    + apply inv_put_session; auto.
      * intros fset' E. rewrite H1 in E. inversion E; subst fset'. split; [|split].
        -- eapply inv_set_sorted; eauto.
        -- eapply inv_conc; eauto.
        -- intros r Hm. eapply inv_set; eauto.
      * intros _. exists fset; exact H1.
      * rewrite Hq. eapply inv_queue; eauto.
      * rewrite Hq. intros q Hin. eapply inv_qfrom; eauto.
    + intros F. eapply fwd_put_same_state; eauto; [apply (inv_ss _ _ _ I) | congruence].
  - apply inv_put_idle; auto.
    + eapply no_fetch_from; eauto. intros s fset Hl Hst. rewrite Hs in Hl. inversion Hl; subst s.
      unfold is_connected in H0. rewrite Hst in H0. discriminate.
    + intros fset E. rewrite H1 in E. inversion E; reflexivity.
    + rewrite Hq. eapply inv_queue; eauto.
    + rewrite Hq. intros q Hin. eapply inv_qfrom; eauto.
Qed.

Lemma connected_ok cfg st n l : Inv cfg st -> Good cfg st (Ret (connected st n l)).
Proof.
  intros I. unfold connected.
  destruct l; destruct (lookup n (sessions st)) as [s|] eqn:Hs; try (apply good_same; auto; fail).
  - (* inbound, occupied *)
    destruct (put_connected cfg (sessions st) (fetching st) n s
                (to_connected (mkS Inbound (s_state s) (s_queue s))) I Hs eq_refl) as [I1 F1].
    { destruct (to_connected_state (mkS Inbound (s_state s) (s_queue s))) as [[fset [A B]]|[A B]]; simpl in *.
      - left. exists fset. auto.
      - right. split; [exact A | exact B]. }
    apply good_ret; [exact I1 | exact F1].
  - (* inbound, vacant *)
    assert (Hidle : forall r f, lookup r (fetching st) = Some f -> f_from f <> n).
    { eapply no_fetch_from; eauto. intros s0 fset Hl. congruence. }
    destruct (inv_put_idle cfg (sessions st) (fetching st) n (mkS Inbound (Connected []) []) I Hidle) as [I1 F1].
    + simpl. intros fset E. inversion E; reflexivity.
    + unfold lenN; simpl; lia.
    + simpl. intros q [].
    + apply good_ret; [exact I1 | exact F1].
  - (* outbound, occupied *)
    destruct (put_connected cfg (sessions st) (fetching st) n s (to_connected s) I Hs eq_refl) as [I1 F1].
    { apply to_connected_state. }
    apply good_ret; [exact I1 | exact F1].
Qed.

Lemma recv_prelude_ok cfg st n st1 :
  Inv cfg st -> recv_prelude st n = Some st1 -> Inv cfg st1 /\ (FwdSt st -> FwdSt st1).
Proof.
  intros I. unfold recv_prelude.
  destruct (lookup n (sessions st)) as [s|] eqn:Hs; [|discriminate].
  assert (Hput : Inv cfg (set_sessions st (insert n (to_connected s) (sessions st))) /\
                 (FwdSt st -> FwdSt (set_sessions st (insert n (to_connected s) (sessions st))))).
  { apply (put_connected cfg (sessions st) (fetching st) n s (to_connected s) I Hs eq_refl).
    apply to_connected_state. }
  destruct (s_state s) eqn:Hst; intros E; inversion E; subst; auto.
Qed.

Lemma recv_refs_ok cfg st relayer announcer r refs :
  Inv cfg st -> Good cfg st (recv_refs cfg st relayer announcer r refs).
Proof.
  intros I. unfold recv_refs.
  destruct (recv_prelude st relayer) as [st1|] eqn:Hp; [|apply good_same; auto].
  destruct (recv_prelude_ok cfg st relayer st1 I Hp) as [I1 F1].
  apply (good_trans cfg st st1); auto.
  destruct refs; [apply good_same; auto|].
  destruct (negb (sset_mem r (seeded st1))); [apply good_same; auto|].
  destruct (lookup announcer (sessions st1)); [apply fetch_refs_at_ok; exact I1 | apply good_same; auto].
Qed.

Lemma reconnect_due_ok cfg due : forall st, Inv cfg st -> Good cfg st (reconnect_due st due).
Proof.
  induction due as [|[n att] due IH]; intros st I; simpl; [apply good_same; auto|].
  destruct (lookup n (sessions st)) as [s|] eqn:Hs; [|apply IH; exact I].
  destruct (sset_mem n (persistent st) && match s_state s with Disconnected => true | _ => false end) eqn:Hc;
    [|apply IH; exact I].
  apply andb_true_iff in Hc. destruct Hc as [_ Hd].
  unfold to_initial. destruct (s_state s) eqn:Hst; try discriminate. simpl.
  assert (Hidle : forall r f, lookup r (fetching st) = Some f -> f_from f <> n).
  { eapply idle_if_not_connected; eauto. intros s0 H0. rewrite Hs in H0. inversion H0; subst.
    unfold is_connected. rewrite Hst. reflexivity. }
  destruct (inv_put_idle cfg (sessions st) (fetching st) n (with_state s Initial) I Hidle) as [I1 F1].
  - simpl; discriminate.
  - simpl. eapply inv_queue; eauto.
  - simpl. intros q Hin. eapply inv_qfrom; eauto.
  - set (st1 := emit (OConnect n) (set_sessions st (insert n (with_state s Initial) (sessions st)))).
    assert (I1' : Inv cfg st1) by exact I1.
    assert (F1' : FwdSt st -> FwdSt st1) by exact F1.
    apply (good_trans cfg st st1); auto.
    apply good_bind.
    + destruct att; [|apply good_same; auto].
      eapply attempted_ok; eauto.
      * unfold st1; simpl. rewrite lookup_insert by apply (inv_ss _ _ _ I). rewrite N.eqb_refl. reflexivity.
      * reflexivity.
    + intros st2 I2. apply IH; exact I2.
Qed.

(* one step: never panics, preserves Inv and Fwd *)
Lemma step_ok cfg st e : Inv cfg st -> Good cfg st (step cfg st e).
Proof.
  intros I.
  assert (G : forall x, Good cfg st x -> Good cfg st x) by auto.
  destruct e as [n pers att|n l|n l ord|n|a b r refs|r n sub|i x fwd ord|idle due ord|r on|r x]; simpl.
  - apply G. apply connect_cmd_ok; exact I.
  - apply connected_ok; exact I.
  - apply G. apply disconnected_ok; exact I.
  - apply G. destruct (recv_prelude st n) as [st1|] eqn:Hp; [|apply good_same; auto].
    destruct (recv_prelude_ok cfg st n st1 I Hp). apply good_ret; auto.
  - apply G. apply recv_refs_ok; exact I.
  - apply G. apply fetch_ok; exact I.
  - apply G. destruct (lookup i (inflight st)) as [[[r n] ep]|]; [|apply good_same; auto].
    destruct fwd; [|apply good_same; auto].
    match goal with |- Good _ _ (fetched _ ?s _ _ _ _ _) => set (st1 := s) end.
    apply (good_trans cfg st st1); [exact I | auto | apply fetched_ok; exact I].
  - apply G. apply good_bind.
    + destruct idle; [apply dequeue_fetches_ok; exact I | apply good_same; auto].
    + intros st1 I1. apply reconnect_due_ok; exact I1.
  - apply G. apply good_same; auto.
  - apply G. apply good_same; auto.
Qed.

(* ---------- reachable states ---------- *)

Lemma run_from_ok cfg evs : forall st, Inv cfg st -> Good cfg st (run_from cfg st evs).
Proof.
  induction evs as [|e evs IH]; intros st I; simpl.
  - apply good_same; auto.
  - apply good_bind; [apply step_ok; exact I | intros st1 I1; apply IH; exact I1].
Qed.

Theorem no_panic cfg evs : exists st, run cfg evs = Ret st.
Proof. destruct (run_from_ok cfg evs init (inv_init cfg)) as [st [E _]]. exists st; exact E. Qed.

Theorem fwd_reachable cfg evs st : run cfg evs = Ret st -> FwdSt st.
Proof.
  intros E. destruct (run_from_ok cfg evs init (inv_init cfg)) as [st' [E' [_ F]]].
  unfold run in E. rewrite E in E'. inversion E'; subst. apply F. apply fwd_init.
Qed.

Theorem inv_reachable cfg evs st : run cfg evs = Ret st -> Inv cfg st.
Proof.
  intros E. destruct (run_from_ok cfg evs init (inv_init cfg)) as [st' [E' [I _]]].
  unfold run in E. rewrite E in E'. inversion E'; subst. exact I.
Qed.

(* ------------------------------------------------------------------ *)
(* Part 3: ghost instances and attribution of worker results *)

(* every worker instance that is in flight and was started in the current
   epoch of its peer (no disconnection of that peer since) owns the fetching
   entry of its repository *)
Record GhostC (fs : smap fstate) (infl : smap (N * N * N)) (eps : smap N) : Prop := {
  g_fs : sorted fs;
  g_infl : sorted infl;
  g_eps : sorted eps;
  g_own : forall i r n e, lookup i infl = Some (r, n, e) ->
     let cur := match lookup n eps with Some x => x | None => 0 end in
     e <= cur /\ (e = cur -> exists f, lookup r fs = Some f /\ f_inst f = i /\ f_from f = n)
}.

Definition Ghost (st : state) : Prop := GhostC (fetching st) (inflight st) (epochs st).

Lemma ghost_init : Ghost init.
Proof. constructor; simpl; try apply sorted_nil. intros; discriminate. Qed.

Section Attribution.
(* a property of outputs that every output except OApplied has *)
Variable P : out -> bool.
(* w = true: also carry the ghost invariant (which only holds outside KnownClass) *)
Variable w : bool.
Hypothesis P_other : forall o, match o with OApplied _ _ _ _ _ => True | _ => P o = true end.

Definition GP (st : state) : Prop := (w = true -> Ghost st) /\ Forall (fun o => P o = true) (outs st).

Lemma gp_same st st' :
  fetching st' = fetching st -> inflight st' = inflight st -> epochs st' = epochs st -> outs st' = outs st ->
  GP st -> GP st'.
Proof. intros H1 H2 H3 H4 [G F]. split; [intros Hw; unfold Ghost; rewrite H1, H2, H3; exact (G Hw) | rewrite H4; exact F]. Qed.

Lemma gp_emit st o : P o = true -> GP st -> GP (emit o st).
Proof.
  intros Ho [G F]. split; [exact G|]. simpl. apply Forall_app. split; [exact F | constructor; [exact Ho | constructor]].
Qed.

Lemma gp_set_sessions st v : GP st -> GP (set_sessions st v).
Proof. apply gp_same; reflexivity. Qed.

Lemma gp_try_fetch cfg st r from refs t st' :
  GP st -> try_fetch cfg st r from refs = Ret (t, st') -> GP st'.
Proof.
  intros [G F]. unfold try_fetch.
  destruct (lookup from (sessions st)) as [s|]; [|intros E; inversion E; subst; split; auto].
  destruct (lookup r (fetching st)) as [f|] eqn:Hvac; [intros E; inversion E; subst; split; auto|].
  destruct (is_fetching s r); [discriminate|].
  destruct (negb (is_connected s)); [intros E; inversion E; subst; split; auto|].
  destruct (is_at_capacity cfg s); [intros E; inversion E; subst; split; auto|].
  destruct (session_fetching s r) as [s'|]; simpl; [|discriminate].
  intros E; inversion E; subst; clear E. split.
  - intros Hw. destruct (G Hw) as [Gfs Ginfl Geps Gown]. constructor; simpl.
    + apply sorted_insert; exact Gfs.
    + apply sorted_insert; exact Ginfl.
    + exact Geps.
    + intros i r0 n e Hl. rewrite lookup_insert in Hl by exact Ginfl.
      destruct (N.eqb_spec i (next_inst st)).
      * inversion Hl; subst. unfold epoch_of. split; [lia|]. intros _.
        rewrite lookup_insert by exact Gfs. rewrite N.eqb_refl. eexists. split; [reflexivity|]. split; reflexivity.
      * destruct (Gown i r0 n e Hl) as [H1 H2]. split; [exact H1|]. intros Ee.
        destruct (H2 Ee) as [f [Hf [Hi Hn]]].
        rewrite lookup_insert by exact Gfs. destruct (N.eqb_spec r0 r); [subst; congruence|].
        exists f. auto.
  - simpl. apply Forall_app. split; [exact F|]. constructor; [|constructor].
    apply (P_other (OFetch r from refs (next_inst st))).
Qed.

Lemma subscribe_inst sub f : f_inst (subscribe sub f) = f_inst f.
Proof. unfold subscribe. destruct sub as [c|]; [|reflexivity]. destruct (memN c (f_subs f)); reflexivity. Qed.

Lemma gp_subscribe_at st r sub : GP st -> GP (subscribe_at st r sub).
Proof.
  intros [G F]. unfold subscribe_at. destruct (lookup r (fetching st)) as [f|] eqn:Hf; [|split; auto].
  split; [|exact F]. intros Hw. destruct (G Hw) as [Gfs Ginfl Geps Gown]. constructor; simpl; auto.
  - apply sorted_insert; exact Gfs.
  - intros i r0 n e Hl. destruct (Gown i r0 n e Hl) as [H1 H2]. split; [exact H1|]. intros Ee.
    destruct (H2 Ee) as [f0 [Hf0 [Hi Hn]]].
    rewrite lookup_insert by exact Gfs. destruct (N.eqb_spec r0 r).
    + subst. rewrite Hf in Hf0. inversion Hf0; subst. eexists. split; [reflexivity|].
      rewrite subscribe_inst, subscribe_from. auto.
    + exists f0. auto.
Qed.

Lemma gp_queue_fetch cfg st q st' : GP st -> queue_fetch cfg st q = Ret st' -> GP st'.
Proof.
  intros G. unfold queue_fetch. destruct (lookup (q_from q) (sessions st)) as [s|]; [|intros E; inversion E; subst; exact G].
  destruct (session_queue_fetch cfg (q_from q) s q); simpl; [|discriminate].
  intros E; inversion E; subst. apply gp_set_sessions; exact G.
Qed.

Lemma gp_fetch cfg st r from refs sub st' : GP st -> fetch_ cfg st r from refs sub = Ret st' -> GP st'.
Proof.
  intros G. unfold fetch_. destruct (try_fetch cfg st r from refs) as [[t st1]|] eqn:E; simpl; [|discriminate].
  pose proof (gp_try_fetch _ _ _ _ _ _ _ G E) as G1.
  destruct t as [|f| |].
  - intros E2; inversion E2; subst. apply gp_subscribe_at; exact G1.
  - destruct (N.eqb (f_from f) from && list_eqb N.eqb (f_refs f) refs).
    + intros E2; inversion E2; subst. apply gp_subscribe_at; exact G1.
    + apply gp_queue_fetch; exact G1.
  - apply gp_queue_fetch; exact G1.
  - destruct sub as [c|]; intros E2; inversion E2; subst; [|exact G1].
    apply gp_emit; [apply (P_other (ONotify c NFailed)) | exact G1].
Qed.

Lemma gp_fetch_refs_at cfg st r from refs sub st' : GP st -> fetch_refs_at cfg st r from refs sub = Ret st' -> GP st'.
Proof.
  intros G. unfold fetch_refs_at. destruct (filter (fun x => negb (is_stored st r x)) refs).
  - intros E; inversion E; subst; exact G.
  - apply gp_fetch; exact G.
Qed.

Lemma gp_dequeue_one cfg st n st' : GP st -> dequeue_one cfg st n = Ret st' -> GP st'.
Proof.
  intros G. unfold dequeue_one. destruct (lookup n (sessions st)) as [s|]; [|intros E; inversion E; subst; exact G].
  destruct (negb (is_connected s) || is_at_capacity cfg s); [intros E; inversion E; subst; exact G|].
  destruct (s_queue s) as [|q rest]; [intros E; inversion E; subst; exact G|].
  pose proof (gp_set_sessions st (insert n (with_queue s rest) (sessions st)) G) as G1.
  destruct (q_refs q).
  - apply gp_fetch; exact G1.
  - destruct (sset_mem (q_rid q) _).
    + apply gp_fetch_refs_at; exact G1.
    + intros E; inversion E; subst; exact G1.
Qed.

Lemma gp_dequeue_fetches cfg ord : forall st st', GP st -> dequeue_fetches cfg st ord = Ret st' -> GP st'.
Proof.
  induction ord as [|n ord IH]; intros st st' G; simpl.
  - intros E; inversion E; subst; exact G.
  - destruct (dequeue_one cfg st n) as [st1|] eqn:E1; simpl; [|discriminate].
    apply IH. eapply gp_dequeue_one; eauto.
Qed.

Lemma forall_notify (os : list N) (k : notif) :
  Forall (fun o => P o = true) (map (fun c => ONotify c k) os).
Proof. induction os; simpl; constructor; auto. apply (P_other (ONotify a k)). Qed.

(* Service::fetched: [Hown] says what the delivered instance relates to *)
Lemma gp_fetched cfg st i r remote x ord st' :
  GP st ->
  (* the instance i has already been taken out of the in-flight set *)
  (forall f, lookup r (fetching st) = Some f -> f_from f = remote ->
     P (OApplied i r remote (f_inst f) (f_from f)) = true /\
     (w = true -> forall i' n' e', lookup i' (inflight st) = Some (r, n', e') -> f_inst f <> i' \/ f_from f <> n')) ->
  fetched cfg st i r remote x ord = Ret st' -> GP st'.
Proof.
  intros [G F] Hown. unfold fetched.
  destruct (lookup r (fetching st)) as [f|] eqn:Hf; [|intros E; inversion E; subst; split; auto].
  destruct (N.eqb_spec (f_from f) remote) as [E|E]; simpl; [|intros E2; inversion E2; subst; split; auto].
  destruct (Hown f eq_refl E) as [HP Hother].
  apply gp_dequeue_fetches.
  assert (G3 : GP (emit (OApplied i r remote (f_inst f) (f_from f))
                 (emits (map (fun c => ONotify c (NResult i x)) (f_subs f))
                    (set_fetching (set_sessions st
                       match lookup remote (sessions st) with
                       | Some s => insert remote (session_fetched s r) (sessions st)
                       | None => sessions st
                       end) (remove r (fetching st)))))).
  { split.
    - intros Hw. destruct (G Hw) as [Gfs Ginfl Geps Gown]. constructor; simpl; auto.
      + apply sorted_remove; exact Gfs.
      + intros i0 r0 n e Hl. destruct (Gown i0 r0 n e Hl) as [H1 H2]. split; [exact H1|]. intros Ee.
        destruct (H2 Ee) as [f0 [Hf0 [Hi Hn]]].
        rewrite lookup_remove by exact Gfs. destruct (N.eqb_spec r0 r).
        * subst r0. rewrite Hf in Hf0. inversion Hf0; subst f0.
          destruct (Hother Hw i0 n e Hl) as [H|H]; contradiction.
        * exists f0. auto.
    - simpl. rewrite <- app_assoc. apply Forall_app. split; [exact F|].
      apply Forall_app. split; [apply forall_notify|]. constructor; [exact HP | constructor]. }
  destruct x; [exact G3 | exact G3 |].
  apply gp_emit; [apply (P_other (ODisconnect remote)) | exact G3].
Qed.

Lemma forall_disc_notes n (fs : smap fstate) :
  Forall (fun o => P o = true)
    (flat_map (fun kv => if from_is n kv then map (fun c => ONotify c NDisconnected) (f_subs (snd kv)) else []) fs).
Proof.
  induction fs as [|kv fs IH]; simpl; [constructor|].
  apply Forall_app. split; [|exact IH]. destruct (from_is n kv); [apply forall_notify | constructor].
Qed.

Lemma gp_disconnected cfg st n l ord st' : GP st -> disconnected cfg st n l ord = Ret st' -> GP st'.
Proof.
  intros [G F]. unfold disconnected.
  destruct (lookup n (sessions st)) as [s|]; [|intros E; inversion E; subst; split; auto].
  destruct (negb (link_eqb (s_link s) l)); [intros E; inversion E; subst; split; auto|].
  apply gp_dequeue_fetches. split.
  - intros Hw. destruct (G Hw) as [Gfs Ginfl Geps Gown]. constructor; simpl; auto.
    + apply sorted_filter; exact Gfs.
    + apply sorted_insert; exact Geps.
    + intros i r n0 e Hl. destruct (Gown i r n0 e Hl) as [H1 H2].
      rewrite lookup_insert by exact Geps. unfold epoch_of.
      destruct (N.eqb_spec n0 n).
      * subst n0. split; [lia|]. intros Ee. exfalso. lia.
      * split; [exact H1|]. intros Ee. destruct (H2 Ee) as [f [Hf [Hi Hn]]].
        exists f. split; [|auto].
        change (filter (fun kv => negb (from_is n kv)) (fetching st)) with (drop_from n (fetching st)).
        rewrite lookup_drop_from by exact Gfs. rewrite Hf.
        destruct (N.eqb_spec (f_from f) n); [congruence | reflexivity].
  - simpl. apply Forall_app. split; [exact F | apply forall_disc_notes].
Qed.

Lemma gp_attempted st n st' : GP st -> attempted st n = Ret st' -> GP st'.
Proof.
  intros G. unfold attempted. destruct (lookup n (sessions st)) as [s|]; [|discriminate].
  destruct (to_attempted s); simpl; [|discriminate]. intros E; inversion E; subst. apply gp_set_sessions; exact G.
Qed.

Lemma gp_connect_cmd st n pers att st' : GP st -> connect_cmd st n pers att = Ret st' -> GP st'.
Proof.
  intros G. unfold connect_cmd.
  match goal with |- context [lookup n (sessions ?s)] => set (st0 := s) end.
  assert (G0 : GP st0) by (unfold st0; destruct pers; [revert G; apply gp_same; reflexivity | exact G]).
  destruct (lookup n (sessions st0)); [intros E; inversion E; subst; exact G0|].
  assert (G1 : GP (emit (OConnect n) (set_sessions st0 (insert n (mkS Outbound Initial []) (sessions st0))))).
  { apply gp_emit; [apply (P_other (OConnect n)) | apply gp_set_sessions; exact G0]. }
  destruct att; [apply gp_attempted; exact G1 | intros E; inversion E; subst; exact G1].
Qed.

Lemma gp_connected st n l : GP st -> GP (connected st n l).
Proof.
  intros G. unfold connected.
  destruct l; destruct (lookup n (sessions st)); try exact G; apply gp_set_sessions; exact G.
Qed.

Lemma gp_recv_prelude st n st1 : GP st -> recv_prelude st n = Some st1 -> GP st1.
Proof.
  intros G. unfold recv_prelude. destruct (lookup n (sessions st)) as [s|]; [|discriminate].
  destruct (s_state s); intros E; inversion E; subst; try exact G; apply gp_set_sessions; exact G.
Qed.

Lemma gp_recv_refs cfg st a b r refs st' : GP st -> recv_refs cfg st a b r refs = Ret st' -> GP st'.
Proof.
  intros G. unfold recv_refs. destruct (recv_prelude st a) as [st1|] eqn:Hp; [|intros E; inversion E; subst; exact G].
  pose proof (gp_recv_prelude _ _ _ G Hp) as G1.
  destruct refs; [intros E; inversion E; subst; exact G1|].
  destruct (negb (sset_mem r (seeded st1))); [intros E; inversion E; subst; exact G1|].
  destruct (lookup b (sessions st1)); [apply gp_fetch_refs_at; exact G1 | intros E; inversion E; subst; exact G1].
Qed.

Lemma gp_reconnect_due due : forall st st', GP st -> reconnect_due st due = Ret st' -> GP st'.
Proof.
  induction due as [|[n att] due IH]; intros st st' G; simpl; [intros E; inversion E; subst; exact G|].
  destruct (lookup n (sessions st)) as [s|]; [|apply IH; exact G].
  destruct (sset_mem n (persistent st) && _); [|apply IH; exact G].
  destruct (to_initial s) as [s'|]; simpl; [|discriminate].
  assert (G1 : GP (emit (OConnect n) (set_sessions st (insert n s' (sessions st))))).
  { apply gp_emit; [apply (P_other (OConnect n)) | apply gp_set_sessions; exact G]. }
  destruct att.
  - destruct (attempted _ n) as [st2|] eqn:E2; simpl; [|discriminate].
    apply IH. eapply gp_attempted; eauto.
  - simpl. apply IH; exact G1.
Qed.

(* one step: the condition on the (at most one) OApplied output is [Happ] *)
Lemma gp_step cfg st e st' :
  GP st ->
  (forall i x ord r n ep f, e = EResult i x true ord -> lookup i (inflight st) = Some (r, n, ep) ->
     lookup r (fetching st) = Some f -> f_from f = n ->
     P (OApplied i r n (f_inst f) (f_from f)) = true /\ (w = true -> kc_step st e = false -> f_inst f = i)) ->
  (w = true -> kc_step st e = false) ->
  step cfg st e = Ret st' -> GP st'.
Proof.
  intros G Happ Hkc.
  destruct e as [n pers att|n l|n l ord|n|a b r refs|r n sub|i x fwd ord|idle due ord|r on|r x]; simpl.
  - apply gp_connect_cmd; exact G.
  - intros E; inversion E; subst. apply gp_connected; exact G.
  - apply gp_disconnected; exact G.
  - destruct (recv_prelude st n) as [st1|] eqn:Hp; intros E; inversion E; subst; [|exact G].
    eapply gp_recv_prelude; eauto.
  - apply gp_recv_refs; exact G.
  - apply gp_fetch; exact G.
  - destruct (lookup i (inflight st)) as [[[r n] ep]|] eqn:Hi; [|intros E; inversion E; subst; exact G].
    set (st1 := mkSt (sessions st) (fetching st) (persistent st) (seeded st) (stored st)
                     (next_inst st) (remove i (inflight st)) (epochs st) (outs st)).
    assert (G1 : GP st1).
    { destruct G as [G F]. split; [|exact F]. intros Hw. destruct (G Hw) as [Gfs Ginfl Geps Gown]. constructor; simpl; auto.
      - apply sorted_remove; exact Ginfl.
      - intros i0 r0 n0 e0 Hl. rewrite lookup_remove in Hl by exact Ginfl.
        destruct (N.eqb_spec i0 i); [discriminate|]. apply (Gown i0 r0 n0 e0 Hl). }
    destruct fwd; [|intros E; inversion E; subst; exact G1].
    apply gp_fetched; [exact G1|].
    intros f Hf Hfrom. simpl in Hf.
    destruct (Happ i x ord r n ep f eq_refl Hi Hf Hfrom) as [HP Hinst]. split; [exact HP|].
    intros Hw i' n' e' Hl'. simpl in Hl'.
    destruct G as [G F]. destruct (G Hw) as [Gfs Ginfl Geps Gown].
    rewrite lookup_remove in Hl' by exact Ginfl.
    destruct (N.eqb_spec i' i); [discriminate|].
    left. rewrite (Hinst Hw (Hkc Hw)). auto.
  - destruct idle.
    + destruct (dequeue_fetches cfg st ord) as [st1|] eqn:E1; simpl; [|discriminate].
      apply gp_reconnect_due. eapply gp_dequeue_fetches; eauto.
    + simpl. apply gp_reconnect_due; exact G.
  - intros E; inversion E; subst. revert G; apply gp_same; reflexivity.
  - intros E; inversion E; subst. revert G; apply gp_same; reflexivity.
Qed.

End Attribution.

(* ------------------------------------------------------------------ *)
(* Part 4: the theorems about runs *)

Lemma applied_ok_other o : match o with OApplied _ _ _ _ _ => True | _ => applied_ok o = true end.
Proof. destruct o; simpl; auto. Qed.
Lemma applied_same_peer_other o : match o with OApplied _ _ _ _ _ => True | _ => applied_same_peer o = true end.
Proof. destruct o; simpl; auto. Qed.

(* (d) outside KnownClass: every result completes exactly its own fetch *)
Lemma run_from_attributed cfg evs : forall st st',
  GP applied_ok true st -> any_step kc_step cfg st evs = false ->
  run_from cfg st evs = Ret st' -> GP applied_ok true st'.
Proof.
  induction evs as [|e evs IH]; intros st st' G Hkc E; simpl in *.
  - inversion E; subst; exact G.
  - apply orb_false_iff in Hkc. destruct Hkc as [Hkc1 Hkc2].
    destruct (step cfg st e) as [st1|] eqn:E1; simpl in E; [|discriminate].
    apply (IH st1 st'); auto.
    eapply (gp_step applied_ok true applied_ok_other); eauto.
    intros i x ord r n ep f He Hi Hf Hfrom.
    assert (Hinst : f_inst f = i).
    { subst e. simpl in Hkc1. rewrite Hi, Hf in Hkc1.
      destruct G as [G _]. destruct (G eq_refl) as [_ _ _ Gown].
      destruct (Gown i r n ep Hi) as [H1 H2].
      apply andb_false_iff in Hkc1. destruct Hkc1 as [Hk|Hk].
      - apply N.ltb_ge in Hk. unfold epoch_of in Hk.
        destruct H2 as [f0 [Hf0 [Hi0 _]]]; [lia|]. rewrite Hf in Hf0. inversion Hf0; subst. reflexivity.
      - apply N.eqb_neq in Hk. contradiction. }
    split; [simpl; rewrite Hinst; apply N.eqb_refl | intros _ _; exact Hinst].
Qed.

Lemma gp_init P w : GP P w init.
Proof. split; [intros _; apply ghost_init | constructor]. Qed.

Theorem attribution_outside_known_class cfg evs st :
  known_class cfg evs = false -> run cfg evs = Ret st ->
  Forall (fun o => applied_ok o = true) (outs st).
Proof.
  intros Hkc E. eapply run_from_attributed; eauto. apply gp_init.
Qed.

Theorem ghost_outside_known_class cfg evs st :
  known_class cfg evs = false -> run cfg evs = Ret st -> Ghost st.
Proof.
  intros Hkc E. destruct (run_from_attributed cfg evs init st (gp_init _ _) Hkc E) as [G _]. exact (G eq_refl).
Qed.

(* whatever the schedule: a result only ever completes a fetch from the peer it came from *)
Lemma run_from_same_peer cfg evs : forall st st',
  GP applied_same_peer false st -> run_from cfg st evs = Ret st' -> GP applied_same_peer false st'.
Proof.
  induction evs as [|e evs IH]; intros st st' G E; simpl in *.
  - inversion E; subst; exact G.
  - destruct (step cfg st e) as [st1|] eqn:E1; simpl in E; [|discriminate].
    apply (IH st1 st'); auto.
    eapply (gp_step applied_same_peer false applied_same_peer_other); eauto.
    + intros i x ord r n ep f He Hi Hf Hfrom. split; [|discriminate].
      simpl. rewrite Hfrom. apply N.eqb_refl.
    + discriminate.
Qed.

Theorem applied_same_peer_always cfg evs st :
  run cfg evs = Ret st -> Forall (fun o => applied_same_peer o = true) (outs st).
Proof. intros E. eapply run_from_same_peer; eauto. apply gp_init. Qed.

(* at most one live (current-epoch) worker instance per repository *)
Theorem one_live_fetch_per_repo cfg evs st i i' r n n' :
  known_class cfg evs = false -> run cfg evs = Ret st ->
  lookup i (inflight st) = Some (r, n, epoch_of st n) ->
  lookup i' (inflight st) = Some (r, n', epoch_of st n') -> i = i'.
Proof.
  intros Hkc E Hi Hi'. destruct (ghost_outside_known_class cfg evs st Hkc E) as [_ _ _ Gown].
  destruct (Gown i r n _ Hi) as [_ H]. destruct (Gown i' r n' _ Hi') as [_ H'].
  destruct (H eq_refl) as [f [Hf [Hfi _]]]. destruct (H' eq_refl) as [f' [Hf' [Hfi' _]]].
  rewrite Hf in Hf'. inversion Hf'; subst. reflexivity.
Qed.

(* per-peer number of fetches in flight, given the full agreement Fwd *)
Definition fetches_from (st : state) (n : N) : list (N * fstate) := filter (from_is n) (fetching st).

Lemma fetches_from_bound cfg st n :
  Inv cfg st -> FwdSt st -> lenN (fetches_from st n) <= fetch_concurrency cfg.
Proof.
  intros I F. unfold fetches_from.
  destruct (lookup n (sessions st)) as [s|] eqn:Hs.
  2:{ assert (H : filter (from_is n) (fetching st) = []).
      { destruct (filter (from_is n) (fetching st)) as [|[r f] l] eqn:E; [reflexivity|]. exfalso.
        assert (Hin : In (r, f) (filter (from_is n) (fetching st))) by (rewrite E; left; reflexivity).
        apply filter_In in Hin. destruct Hin as [Hin Hp]. unfold from_is in Hp; simpl in Hp. apply N.eqb_eq in Hp.
        apply In_lookup in Hin; [|apply (inv_fs _ _ _ I)].
        destruct (inv_from _ _ _ I r f Hin) as [s [fset [H1 _]]]. congruence. }
      rewrite H. unfold lenN; simpl. lia. }
  destruct (s_state s) as [| |fset|] eqn:Hst.
  1,2,4: assert (H : filter (from_is n) (fetching st) = []);
    [ destruct (filter (from_is n) (fetching st)) as [|[r f] l] eqn:E; [reflexivity|]; exfalso;
      assert (Hin : In (r, f) (filter (from_is n) (fetching st))) by (rewrite E; left; reflexivity);
      apply filter_In in Hin; destruct Hin as [Hin Hp]; unfold from_is in Hp; simpl in Hp; apply N.eqb_eq in Hp;
      apply In_lookup in Hin; [|apply (inv_fs _ _ _ I)];
      destruct (inv_from _ _ _ I r f Hin) as [s0 [fset0 [H1 H2]]]; congruence
    | rewrite H; unfold lenN; simpl; lia ].
  pose proof (inv_conc _ _ _ I n s fset Hs Hst) as Hc.
  assert (Hlen : (length (map fst (filter (from_is n) (fetching st))) <= length (keys fset))%nat).
  { apply NoDup_incl_length.
    - pose proof (sorted_NoDup_keys (fetching st) (inv_fs _ _ _ I)) as Hnd. unfold keys in Hnd.
      clear -Hnd. induction (fetching st) as [|[k v] m IH]; simpl; [constructor|].
      inversion Hnd; subst. destruct (from_is n (k, v)); simpl; [|apply IH; assumption].
      constructor; [|apply IH; assumption].
      intros Hin. apply H1. apply in_map_iff in Hin. destruct Hin as [[k' v'] [Ek Hin]]. simpl in Ek; subst.
      apply filter_In in Hin. apply in_map_iff. exists (k, v'). split; [reflexivity | apply Hin].
    - intros r Hin. apply in_map_iff in Hin. destruct Hin as [[r' f] [Er Hin]]. simpl in Er; subst r'.
      apply filter_In in Hin. destruct Hin as [Hin Hp]. unfold from_is in Hp; simpl in Hp. apply N.eqb_eq in Hp.
      apply In_lookup in Hin; [|apply (inv_fs _ _ _ I)].
      destruct (F r f Hin) as [s0 [fset0 [H1 [H2 H3]]]]. rewrite Hp, Hs in H1. inversion H1; subst s0.
      rewrite Hst in H2. inversion H2; subst fset0.
      unfold sset_mem, mem in H3. apply lookup_in_keys. destruct (lookup r fset); [discriminate | discriminate]. }
  rewrite map_length in Hlen. unfold keys in Hlen. rewrite map_length in Hlen. unfold lenN in *. lia.
Qed.

Theorem per_peer_bound cfg evs st n :
  run cfg evs = Ret st -> lenN (fetches_from st n) <= fetch_concurrency cfg.
Proof.
  intros E. apply fetches_from_bound; [eapply inv_reachable; eauto | eapply fwd_reachable; eauto].
Qed.

(* ---------- KnownClass is real: witness ---------- *)

Definition kc_witness : list event :=
  [EConnect 1 false true; EConnected 1 Outbound; EFetch 1 1 (Some 0);
   EDisconnected 1 Outbound []; EConnect 1 false true; EConnected 1 Outbound; EFetch 1 1 (Some 1);
   EResult 0 RErr true [1]].

Lemma kc_witness_refutes :
  known_class (mkCfg 1 128) kc_witness = true /\
  exists st, run (mkCfg 1 128) kc_witness = Ret st /\
             existsb (fun o => negb (applied_ok o)) (outs st) = true /\
             In (ONotify 1 (NResult 0 RErr)) (outs st).
Proof.
  split; [vm_compute; reflexivity|].
  eexists. split; [vm_compute; reflexivity|]. split; [vm_compute; reflexivity|].
  vm_compute. tauto.
Qed.

(* ---------- the invariant spelled out ---------- *)

Definition Inv16 (cfg : config) (st : state) : Prop :=
  (* (a) at most one entry per repository ... *)
  NoDup (keys (fetching st)) /\
  (* ... every fetch in flight is from a session in Connected state that holds the
     repository in its fetching set ... *)
  (forall r f, lookup r (fetching st) = Some f ->
     exists s fset, lookup (f_from f) (sessions st) = Some s /\ s_state s = Connected fset /\
                    sset_mem r fset = true) /\
  (* ... and every repository in a session's fetching set is being fetched from that session *)
  (forall n s fset r, lookup n (sessions st) = Some s -> s_state s = Connected fset ->
     sset_mem r fset = true -> exists f, lookup r (fetching st) = Some f /\ f_from f = n) /\
  (* (b) per-session limits ... *)
  (forall n s, lookup n (sessions st) = Some s ->
     lenN (s_queue s) <= max_queue cfg /\
     forall fset, s_state s = Connected fset -> lenN fset <= fetch_concurrency cfg) /\
  (* ... and per-peer limit on the fetches in flight *)
  (forall n, lenN (fetches_from st n) <= fetch_concurrency cfg).

Theorem inv16_reachable cfg evs st : run cfg evs = Ret st -> Inv16 cfg st.
Proof.
  intros E. pose proof (inv_reachable cfg evs st E) as I. unfold Inv16. repeat split.
  - apply sorted_NoDup_keys. apply (inv_fs _ _ _ I).
  - apply (fwd_reachable cfg evs st E).
  - apply (inv_set _ _ _ I).
  - eapply inv_queue; eauto.
  - intros fset Hst. eapply inv_conc; eauto.
  - intros n. eapply per_peer_bound; eauto.
Qed.

Theorem attribution_refuted :
  exists cfg evs st, known_class cfg evs = true /\
    run cfg evs = Ret st /\ ~ Forall (fun o => applied_ok o = true) (outs st).
Proof.
  destruct kc_witness_refutes as [H1 [st [H3 [H4 _]]]].
  exists (mkCfg 1 128), kc_witness, st. repeat split; auto.
  intros F. apply existsb_exists in H4. destruct H4 as [o [Hin Ho]].
  rewrite Forall_forall in F. rewrite (F o Hin) in Ho. discriminate.
Qed.
