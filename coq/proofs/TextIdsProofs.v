(* TextIdsProofs.v — proofs about model/TextIds.v (C21). *)
From HW Require Import lib.Base model.TextIds.
Local Open Scope N_scope.

(* ================================================================ digits *)

Section Digits.
Variable b : N.
Hypothesis Hb : 2 <= b.

Lemma tdf_app f : forall n acc,
  to_digits_fuel f b n acc = to_digits_fuel f b n [] ++ acc.
Proof.
  induction f as [|f IH]; intros n acc; cbn [to_digits_fuel]; [reflexivity|].
  destruct (n =? 0); [reflexivity|].
  rewrite (IH (n / b) (n mod b :: acc)), (IH (n / b) [n mod b]).
  rewrite <- app_assoc. reflexivity.
Qed.

Lemma div_lt_pow2 n f : n < 2 ^ N.of_nat (S f) -> n / b < 2 ^ N.of_nat f.
Proof.
  intros H. rewrite Nat2N.inj_succ, N.pow_succ_r' in H.
  apply N.div_lt_upper_bound; [lia|].
  assert (0 < 2 ^ N.of_nat f) by (apply N.neq_0_lt_0, N.pow_nonzero; lia).
  nia.
Qed.

Lemma tdf_indep f1 : forall f2 n acc,
  n < 2 ^ N.of_nat f1 -> n < 2 ^ N.of_nat f2 ->
  to_digits_fuel f1 b n acc = to_digits_fuel f2 b n acc.
Proof.
  induction f1 as [|f1 IH]; intros f2 n acc H1 H2.
  - cbn in H1. assert (n = 0) by lia. subst n.
    destruct f2; reflexivity.
  - destruct f2 as [|f2].
    + cbn in H2. assert (n = 0) by lia. subst n. reflexivity.
    + cbn [to_digits_fuel]. destruct (n =? 0); [reflexivity|].
      apply IH; apply div_lt_pow2; assumption.
Qed.

Lemma size_fuel n : n < 2 ^ N.of_nat (N.to_nat (N.size n)).
Proof. rewrite N2Nat.id. apply N.size_gt. Qed.

Lemma to_digits_0 : to_digits b 0 = [].
Proof. reflexivity. Qed.

Lemma to_digits_step n : n <> 0 ->
  to_digits b n = to_digits b (n / b) ++ [n mod b].
Proof.
  intros Hn. unfold to_digits.
  pose proof (size_fuel n) as Hs.
  destruct (N.to_nat (N.size n)) as [|f] eqn:E.
  - cbn in Hs. lia.
  - cbn [to_digits_fuel]. destruct (N.eqb_spec n 0) as [|_]; [contradiction|].
    rewrite tdf_app. f_equal.
    apply tdf_indep; [apply div_lt_pow2; exact Hs | apply size_fuel].
Qed.

Lemma of_digits_app ds d : of_digits b (ds ++ [d]) = of_digits b ds * b + d.
Proof. unfold of_digits. rewrite fold_left_app. reflexivity. Qed.

Lemma of_to_digits n : of_digits b (to_digits b n) = n.
Proof.
  induction n as [n IH] using (well_founded_induction N.lt_wf_0).
  destruct (N.eq_dec n 0) as [->|Hn]; [reflexivity|].
  rewrite to_digits_step by exact Hn.
  rewrite of_digits_app, IH.
  - pose proof (N.div_mod n b). lia.
  - apply N.div_lt; lia.
Qed.

Lemma to_digits_lt n : Forall (fun d => d < b) (to_digits b n).
Proof.
  induction n as [n IH] using (well_founded_induction N.lt_wf_0).
  destruct (N.eq_dec n 0) as [->|Hn]; [constructor|].
  rewrite to_digits_step by exact Hn.
  apply Forall_app. split.
  - apply IH. apply N.div_lt; lia.
  - constructor; [apply N.mod_lt; lia | constructor].
Qed.

(* no leading zero digit *)
Definition nolead (ds : list N) : Prop := hd_error ds <> Some 0.

Lemma nolead_app_nonempty ds d : ds <> [] -> nolead ds -> nolead (ds ++ [d]).
Proof. destruct ds; [congruence|]. intros _ H. exact H. Qed.

Lemma to_digits_nonempty n : n <> 0 -> to_digits b n <> [].
Proof.
  intros Hn. rewrite to_digits_step by exact Hn.
  destruct (to_digits b (n / b)); discriminate.
Qed.

Lemma to_digits_nolead n : nolead (to_digits b n).
Proof.
  induction n as [n IH] using (well_founded_induction N.lt_wf_0).
  destruct (N.eq_dec n 0) as [->|Hn]; [cbn; discriminate|].
  rewrite to_digits_step by exact Hn.
  destruct (N.eq_dec (n / b) 0) as [E|E].
  - rewrite E, to_digits_0. cbn. intros H. inversion H as [H0].
    pose proof (N.div_mod n b). rewrite E in *. lia.
  - apply nolead_app_nonempty; [apply to_digits_nonempty; exact E|].
    apply IH. apply N.div_lt; lia.
Qed.

Lemma of_digits_zero ds : of_digits b ds = 0 -> Forall (fun d => d = 0) ds.
Proof.
  induction ds as [|d ds IH] using rev_ind; intros H; [constructor|].
  rewrite of_digits_app in H.
  apply Forall_app. split.
  - apply IH. nia.
  - constructor; [lia | constructor].
Qed.

Lemma nolead_prefix ds d : nolead (ds ++ [d]) -> ds <> [] -> nolead ds.
Proof. destruct ds; [congruence|]. intros H _. exact H. Qed.

Lemma to_of_digits ds :
  Forall (fun d => d < b) ds -> nolead ds -> to_digits b (of_digits b ds) = ds.
Proof.
  induction ds as [|d ds IH] using rev_ind; intros Hlt Hnl; [reflexivity|].
  apply Forall_app in Hlt. destruct Hlt as [Hlt Hd]. inversion Hd as [|? ? Hd' _]; subst.
  rewrite of_digits_app.
  set (v := of_digits b ds).
  assert (Hne : v * b + d <> 0).
  { intros E. assert (v = 0 /\ d = 0) as [Ev ->] by nia.
    apply of_digits_zero in Ev.
    destruct ds as [|x ds]; [apply Hnl; reflexivity|].
    inversion Ev; subst. apply Hnl. reflexivity. }
  rewrite to_digits_step by exact Hne.
  assert (Hdiv : (v * b + d) / b = v).
  { rewrite N.mul_comm. symmetry. apply (N.div_unique (b * v + d) b v d); lia. }
  assert (Hmod : (v * b + d) mod b = d).
  { rewrite N.mul_comm. symmetry. apply (N.mod_unique (b * v + d) b v d); lia. }
  rewrite Hdiv, Hmod. f_equal.
  destruct ds as [|x ds]; [reflexivity|].
  apply IH; [exact Hlt | eapply nolead_prefix; [exact Hnl | discriminate]].
Qed.

Lemma of_digits_from_zeros k : forall ds,
  of_digits b (repeat 0 k ++ ds) = of_digits b ds.
Proof.
  induction k as [|k IH]; intros ds; [reflexivity|].
  cbn [repeat app]. unfold of_digits in *. cbn [fold_left].
  replace (0 * b + 0) with 0 by lia. apply IH.
Qed.

End Digits.

(* ================================================================ leading runs *)

Lemma count_leading_split x l :
  exists rest, l = repeat x (count_leading x l) ++ rest /\ hd_error rest <> Some x.
Proof.
  induction l as [|y l IH].
  - exists []. split; [reflexivity | discriminate].
  - cbn [count_leading]. destruct (N.eqb_spec y x) as [->|Hne].
    + destruct IH as [rest [E Hh]]. exists rest. split; [cbn; f_equal; exact E | exact Hh].
    + exists (y :: l). split; [reflexivity|]. cbn. congruence.
Qed.

Lemma count_leading_repeat x k rest :
  hd_error rest <> Some x -> count_leading x (repeat x k ++ rest) = k.
Proof.
  intros Hh. induction k as [|k IH].
  - destruct rest as [|y rest]; [reflexivity|]. cbn.
    destruct (N.eqb_spec y x) as [->|]; [exfalso; apply Hh; reflexivity | reflexivity].
  - cbn. rewrite N.eqb_refl. f_equal. exact IH.
Qed.

(* ================================================================ alphabets *)

Section Alphabet.
Variable al : list N.
Hypothesis Hnd : NoDup al.
Hypothesis Hlen : 2 <= alen al.

Lemma index_of_lt c : forall d, index_of c al = Some d -> d < alen al /\ alpha_at al d = c.
Proof.
  unfold alen, alpha_at. clear Hnd Hlen.
  induction al as [|a l IH]; intros d H; [discriminate|].
  cbn [index_of] in H. destruct (N.eqb_spec a c) as [->|Hne].
  - inversion H; subst. cbn. split; [lia | reflexivity].
  - destruct (index_of c l) as [i|] eqn:E; [|discriminate]. inversion H; subst.
    destruct (IH i eq_refl) as [Hi Ha]. split.
    + cbn [length]. lia.
    + rewrite N2Nat.inj_succ. cbn [nth]. exact Ha.
Qed.

Lemma index_of_alpha d : d < alen al -> index_of (alpha_at al d) al = Some d.
Proof.
  unfold alen, alpha_at. clear Hlen. revert d.
  induction al as [|a l IH]; intros d Hd; [cbn in Hd; lia|].
  inversion Hnd as [|? ? Hnotin Hnd']; subst.
  cbn [index_of].
  destruct (N.eq_dec d 0) as [->|Hd0].
  - cbn. rewrite N.eqb_refl. reflexivity.
  - assert (Hs : N.to_nat d = S (N.to_nat (N.pred d))) by lia.
    rewrite Hs. cbn [nth].
    assert (Hp : N.pred d < N.of_nat (length l)) by (cbn [length] in Hd; lia).
    destruct (N.eqb_spec a (nth (N.to_nat (N.pred d)) l 0)) as [E|_].
    + exfalso. apply Hnotin. rewrite E. apply nth_In. lia.
    + rewrite (IH Hnd' _ Hp). f_equal. lia.
Qed.

Lemma alpha_inj d1 d2 : d1 < alen al -> d2 < alen al ->
  alpha_at al d1 = alpha_at al d2 -> d1 = d2.
Proof.
  intros H1 H2 E. apply index_of_alpha in H1. apply index_of_alpha in H2.
  rewrite E in H1. congruence.
Qed.

Lemma map_opt_index_alpha ds : Forall (fun d => d < alen al) ds ->
  map_opt (fun c => index_of c al) (map (alpha_at al) ds) = Some ds.
Proof.
  induction 1 as [|d ds Hd _ IH]; [reflexivity|].
  cbn [map map_opt]. rewrite (index_of_alpha d Hd), IH. reflexivity.
Qed.

Lemma map_opt_index_inv s : forall ds,
  map_opt (fun c => index_of c al) s = Some ds ->
  Forall (fun d => d < alen al) ds /\ map (alpha_at al) ds = s.
Proof.
  induction s as [|c s IH]; intros ds H.
  - inversion H; subst. split; [constructor | reflexivity].
  - cbn [map_opt] in H. destruct (index_of c al) as [d|] eqn:E; [|discriminate].
    destruct (map_opt (fun c => index_of c al) s) as [ds'|]; [|discriminate].
    inversion H; subst. destruct (IH ds' eq_refl) as [Hlt Hm].
    apply index_of_lt in E. destruct E as [Hd Ha].
    split; [constructor; assumption | cbn; rewrite Ha, Hm; reflexivity].
Qed.

Lemma zero_lt_alen : 0 < alen al.
Proof. lia. Qed.

Lemma map_alpha_repeat k : map (alpha_at al) (repeat 0 k) = repeat (alpha_at al 0) k.
Proof. induction k; cbn; [reflexivity | f_equal; assumption]. Qed.

Lemma hd_map_alpha ds : Forall (fun d => d < alen al) ds -> nolead ds ->
  hd_error (map (alpha_at al) ds) <> Some (alpha_at al 0).
Proof.
  destruct ds as [|d ds]; intros Hlt Hnl; [discriminate|].
  cbn. intros E. inversion E as [E']. inversion Hlt; subst.
  apply alpha_inj in E'; [|assumption | apply zero_lt_alen].
  apply Hnl. cbn. congruence.
Qed.

Lemma Forall_repeat_zero k : Forall (fun d => d < alen al) (repeat 0 k).
Proof. induction k as [|k IHk]; cbn; constructor; [apply zero_lt_alen | exact IHk]. Qed.

Definition bytes_ok (bs : list N) : Prop := Forall (fun x => x < 256) bs.

(* decode . encode = id, for every byte string *)
Theorem basex_roundtrip bs : bytes_ok bs ->
  basex_decode al (basex_encode al bs) = Some bs.
Proof.
  intros Hb. unfold basex_encode, basex_decode.
  destruct (count_leading_split 0 bs) as [rest [Ebs Hrest]].
  set (k := count_leading 0 bs) in *.
  set (ds := to_digits (alen al) (of_digits 256 bs)).
  assert (Hds : Forall (fun d => d < alen al) ds) by (apply to_digits_lt; exact Hlen).
  assert (Hnl : nolead ds) by (apply to_digits_nolead; exact Hlen).
  rewrite <- map_alpha_repeat, <- map_app.
  rewrite map_opt_index_alpha.
  2:{ apply Forall_app. split; [|exact Hds].
      apply Forall_repeat_zero. }
  rewrite map_app, map_alpha_repeat.
  rewrite count_leading_repeat by (apply hd_map_alpha; assumption).
  rewrite of_digits_from_zeros.
  unfold ds. rewrite of_to_digits by exact Hlen.
  rewrite Ebs at 1. rewrite of_digits_from_zeros.
  rewrite to_of_digits.
  - rewrite <- Ebs. reflexivity.
  - lia.
  - rewrite Ebs in Hb. apply Forall_app in Hb. tauto.
  - exact Hrest.
  - lia.
  - exact Hlen.
Qed.

Lemma map_alpha_leaders k : forall ds rest,
  Forall (fun d => d < alen al) ds ->
  map (alpha_at al) ds = repeat (alpha_at al 0) k ++ rest ->
  exists dr, ds = repeat 0 k ++ dr /\ map (alpha_at al) dr = rest.
Proof.
  induction k as [|k IH]; intros ds rest Hlt Hm.
  - exists ds. split; [reflexivity | exact Hm].
  - cbn [repeat app] in Hm. destruct ds as [|d ds]; [discriminate|].
    cbn [map] in Hm. injection Hm as Hd Hm'. inversion Hlt as [|? ? Hdlt Hlt']; subst.
    destruct (IH ds rest Hlt' Hm') as [dr [E1 E2]].
    exists dr. split; [|exact E2].
    cbn [repeat app]. f_equal; [|exact E1].
    apply alpha_inj; [exact Hdlt | apply zero_lt_alen | exact Hd].
Qed.

(* encode . decode = id on every text the decoder accepts: the base-x text of
   a byte string is unique *)
Theorem basex_decode_encode s bs :
  basex_decode al s = Some bs -> basex_encode al bs = s.
Proof.
  unfold basex_decode, basex_encode.
  destruct (map_opt (fun c => index_of c al) s) as [ds|] eqn:E; [|discriminate].
  intros H. inversion H as [Hbs]. clear H.
  destruct (map_opt_index_inv s ds E) as [Hlt Hmap].
  destruct (count_leading_split (alpha_at al 0) s) as [rest [Es Hrest]].
  set (k := count_leading (alpha_at al 0) s) in *.
  rewrite Es in Hmap.
  destruct (map_alpha_leaders k ds rest Hlt Hmap) as [dr [Eds Edr]].
  assert (Hdr : Forall (fun d => d < alen al) dr).
  { rewrite Eds in Hlt. apply Forall_app in Hlt. tauto. }
  assert (Hnl : nolead dr).
  { destruct dr as [|d dr]; [cbn; discriminate|].
    intros Hh. cbn in Hh. inversion Hh; subst d.
    apply Hrest. rewrite <- Edr. reflexivity. }
  rewrite count_leading_repeat by (apply to_digits_nolead; lia).
  rewrite of_digits_from_zeros, of_to_digits by lia.
  rewrite Eds, of_digits_from_zeros, to_of_digits by (try exact Hlen; assumption).
  rewrite Edr. symmetry. exact Es.
Qed.

Lemma basex_decode_bytes s bs : basex_decode al s = Some bs -> bytes_ok bs.
Proof.
  clear Hnd Hlen.
  unfold basex_decode. destruct (map_opt _ s); [|discriminate].
  intros H. inversion H. apply Forall_app. split.
  - clear. induction (count_leading (alpha_at al 0) s); cbn; constructor; [lia | assumption].
  - apply to_digits_lt. lia.
Qed.

Lemma basex_encode_in_alphabet bs : Forall (fun c => In c al) (basex_encode al bs).
Proof.
  assert (Ha : forall d, d < alen al -> In (alpha_at al d) al).
  { intros d Hd. unfold alpha_at. apply nth_In. unfold alen in Hd. lia. }
  unfold basex_encode. apply Forall_app. split.
  - induction (count_leading 0 bs); cbn; constructor; [apply Ha, zero_lt_alen | assumption].
  - pose proof (to_digits_lt (alen al) Hlen (of_digits 256 bs)) as H.
    induction H; cbn; constructor; [apply Ha; assumption | assumption].
Qed.

End Alphabet.

(* ================================================================ concrete alphabets *)

Fixpoint nodupb (l : list N) : bool :=
  match l with [] => true | x :: l' => negb (memN x l') && nodupb l' end.

Lemma nodupb_sound l : nodupb l = true -> NoDup l.
Proof.
  induction l as [|x l IH]; cbn [nodupb]; intros H; [constructor|].
  apply andb_true_iff in H. destruct H as [H1 H2].
  constructor; [|apply IH; exact H2].
  intros Hin. apply memN_In in Hin. rewrite Hin in H1. discriminate.
Qed.

Lemma forallb_Forall {A} (f : A -> bool) l : forallb f l = true -> Forall (fun x => f x = true) l.
Proof.
  induction l as [|x l IH]; cbn; intros H; [constructor|].
  apply andb_true_iff in H. destruct H. constructor; auto.
Qed.

Lemma B58_nodup : NoDup B58BTC.
Proof. apply nodupb_sound. vm_compute. reflexivity. Qed.

Lemma B58_len : 2 <= alen B58BTC.
Proof. vm_compute. discriminate. Qed.

Lemma B58_ascii c : In c B58BTC -> c < 128.
Proof.
  assert (H : Forall (fun x => (x <? 128) = true) B58BTC) by (apply forallb_Forall; vm_compute; reflexivity).
  rewrite Forall_forall in H. intros Hin. apply N.ltb_lt. apply H. exact Hin.
Qed.

Theorem b58_roundtrip bs : bytes_ok bs -> b58_decode (b58_encode bs) = Some bs.
Proof. apply basex_roundtrip; [exact B58_nodup | exact B58_len]. Qed.

Theorem b58_decode_encode s bs : b58_decode s = Some bs -> b58_encode bs = s.
Proof. apply basex_decode_encode; [exact B58_nodup | exact B58_len]. Qed.

Lemma b58_encode_inj a b : bytes_ok a -> bytes_ok b -> b58_encode a = b58_encode b -> a = b.
Proof.
  intros Ha Hb E. apply b58_roundtrip in Ha. apply b58_roundtrip in Hb.
  rewrite E in Ha. congruence.
Qed.

Lemma b58_encode_ascii bs : Forall (fun c => c < 128) (b58_encode bs).
Proof.
  pose proof (basex_encode_in_alphabet B58BTC B58_len bs) as H.
  eapply Forall_impl; [|exact H]. intros c Hc. apply B58_ascii. exact Hc.
Qed.

(* ================================================================ UTF-8 facts *)

Lemma utf8_ascii s : Forall (fun c => c < 128) s -> utf8_encode s = s.
Proof.
  induction 1 as [|c s Hc _ IH]; [reflexivity|].
  unfold utf8_encode in *. cbn [flat_map]. rewrite IH.
  unfold utf8_char. destruct (N.ltb_spec c 128); [reflexivity | lia].
Qed.

Lemma utf8_char_high c : 128 <= c -> exists x rest, utf8_char c = x :: rest /\ 192 <= x.
Proof.
  intros Hc. unfold utf8_char.
  destruct (N.ltb_spec c 128); [lia|].
  destruct (c <? 2048); [eexists; eexists; split; [reflexivity | apply N.le_add_r]|].
  destruct (c <? 65536); eexists; eexists; (split; [reflexivity |]).
  - pose proof (N.le_0_l (c / 4096)). lia.
  - pose proof (N.le_0_l (c / 262144)). lia.
Qed.

(* if all bytes of the encoding are ASCII, the text is its own encoding *)
Lemma utf8_all_ascii s : Forall (fun x => x < 128) (utf8_encode s) -> utf8_encode s = s.
Proof.
  induction s as [|c s IH]; intros H; [reflexivity|].
  unfold utf8_encode in *. cbn [flat_map] in *.
  apply Forall_app in H. destruct H as [Hc Hs].
  rewrite (IH Hs).
  destruct (N.ltb_spec c 128) as [Hlt|Hge].
  - unfold utf8_char. destruct (N.ltb_spec c 128); [reflexivity | lia].
  - destruct (utf8_char_high c Hge) as [x [rest [E Hx]]].
    rewrite E in Hc. inversion Hc; subst. lia.
Qed.

Lemma len_utf8_pos c : 1 <= len_utf8 c.
Proof. unfold len_utf8. destruct (c <? 128), (c <? 2048), (c <? 65536); lia. Qed.

Lemma str_slice_from_0 s : str_slice_from s 0 = Ok s.
Proof. destruct s; reflexivity. Qed.

(* the only str slice in the parsers is at the end of the first char: never panics *)
Lemma str_slice_first c t : str_slice_from (c :: t) (len_utf8 c) = Ok t.
Proof.
  pose proof (len_utf8_pos c) as Hp.
  cbn [str_slice_from].
  destruct (N.eqb_spec (len_utf8 c) 0); [lia|].
  rewrite N.leb_refl, N.sub_diag. apply str_slice_from_0.
Qed.

Lemma strip_prefix_app p s : strip_prefix p (p ++ s) = Some s.
Proof. induction p as [|a p IH]; cbn; [reflexivity|]. rewrite N.eqb_refl. exact IH. Qed.

Lemma strip_prefix_inv p : forall s t, strip_prefix p s = Some t -> s = p ++ t.
Proof.
  induction p as [|a p IH]; intros s t H; cbn in H.
  - inversion H. reflexivity.
  - destruct s as [|b s]; [discriminate|].
    destruct (N.eqb_spec a b) as [->|]; [|discriminate].
    cbn. f_equal. apply IH. exact H.
Qed.

(* ================================================================ multibase *)

Lemma multibase_decode_total ext s : forall site, multibase_decode ext s <> Panic site.
Proof.
  intros site. unfold multibase_decode.
  destruct s as [|c t]; [discriminate|].
  destruct (base_of_code c) as [b|]; [|discriminate].
  rewrite str_slice_first. cbn [bind]. unfold base_decode. cbv zeta.
  destruct b as [| al | [|] |]; [discriminate | | | |];
    match goal with |- context [match ?r with Some _ => _ | None => _ end] => destruct r end;
    discriminate.
Qed.

Lemma multibase_decode_z ext t :
  multibase_decode ext (CODE_Z :: t) =
  match b58_decode (utf8_encode t) with Some bs => Ok bs | None => Err EInvalidBaseString end.
Proof.
  unfold multibase_decode.
  replace (base_of_code CODE_Z) with (Some (MBaseX B58BTC)) by (vm_compute; reflexivity).
  rewrite str_slice_first. reflexivity.
Qed.

Lemma multibase_roundtrip ext bs : bytes_ok bs ->
  multibase_decode ext (multibase_encode_b58 bs) = Ok bs.
Proof.
  intros Hb. unfold multibase_encode_b58. rewrite multibase_decode_z.
  rewrite utf8_ascii by apply b58_encode_ascii.
  rewrite b58_roundtrip by exact Hb. reflexivity.
Qed.

(* a base58btc ('z') text that decodes is the canonical text of its bytes *)
Lemma multibase_z_canonical ext t bs :
  multibase_decode ext (CODE_Z :: t) = Ok bs -> multibase_encode_b58 bs = CODE_Z :: t.
Proof.
  rewrite multibase_decode_z.
  destruct (b58_decode (utf8_encode t)) as [bs'|] eqn:E; [|discriminate].
  intros H. inversion H; subst bs'.
  pose proof (b58_decode_encode _ _ E) as Henc.
  unfold multibase_encode_b58. f_equal.
  rewrite Henc. apply utf8_all_ascii. rewrite <- Henc. apply b58_encode_ascii.
Qed.

(* decoded payloads are byte strings, provided the observed external decoder
   results are *)

Lemma utf8_char_bytes c : c < 1114112 -> bytes_ok (utf8_char c).
Proof.
  intros Hc. unfold utf8_char.
  destruct (N.ltb_spec c 128); [repeat constructor; lia|].
  destruct (N.ltb_spec c 2048).
  { assert (c / 64 < 32) by (apply N.div_lt_upper_bound; lia).
    pose proof (N.mod_lt c 64). repeat constructor; lia. }
  destruct (N.ltb_spec c 65536).
  { assert (c / 4096 < 16) by (apply N.div_lt_upper_bound; lia).
    pose proof (N.mod_lt c 64). pose proof (N.mod_lt (c / 64) 64). repeat constructor; lia. }
  assert (c / 262144 < 8) by (apply N.div_lt_upper_bound; lia).
  pose proof (N.mod_lt c 64). pose proof (N.mod_lt (c / 64) 64). pose proof (N.mod_lt (c / 4096) 64).
  repeat constructor; lia.
Qed.

(* ================================================================ identifiers *)

Definition pk_wf (k : list N) : Prop := N.of_nat (length k) = KEY_BYTES /\ bytes_ok k.
Definition oid_wf (o : list N) : Prop := N.of_nat (length o) = OID_BYTES /\ bytes_ok o.

Definition pk_text (k : list N) : list N := multibase_encode_b58 (MULTICODEC ++ k).

Lemma multicodec_bytes : bytes_ok MULTICODEC.
Proof. repeat constructor; lia. Qed.

Lemma pk_to_human_ok k : pk_wf k -> pk_to_human k = Ok (pk_text k).
Proof.
  intros [Hl _]. unfold pk_to_human, copy_from_slice.
  rewrite Hl. cbn [length]. rewrite !N.eqb_refl. reflexivity.
Qed.

Lemma pk_from_str_text ext k : pk_wf k -> pk_from_str ext (pk_text k) = Ok k.
Proof.
  intros [Hl Hb]. unfold pk_from_str, pk_text.
  rewrite multibase_roundtrip by (apply Forall_app; split; [exact multicodec_bytes | exact Hb]).
  cbn [bind]. rewrite strip_prefix_app, Hl, N.eqb_refl. reflexivity.
Qed.

Theorem pk_roundtrip k : pk_wf k ->
  exists s, pk_to_human k = Ok s /\ (forall ext, pk_from_str ext s = Ok k) /\
            s = CODE_Z :: b58_encode (MULTICODEC ++ k).
Proof.
  intros H. exists (pk_text k). split; [apply pk_to_human_ok; exact H|].
  split; [intros ext; apply pk_from_str_text; exact H | reflexivity].
Qed.

Lemma pk_from_str_inv ext s k : pk_from_str ext s = Ok k ->
  multibase_decode ext s = Ok (MULTICODEC ++ k) /\ N.of_nat (length k) = KEY_BYTES.
Proof.
  unfold pk_from_str. destruct (multibase_decode ext s) as [bytes|e|p]; cbn [bind]; try discriminate.
  destruct (strip_prefix MULTICODEC bytes) as [rest|] eqn:E; [|discriminate].
  destruct (N.eqb_spec (N.of_nat (length rest)) KEY_BYTES) as [Hl|]; [|discriminate].
  intros H. inversion H; subst rest. apply strip_prefix_inv in E. subst bytes. split; [reflexivity | exact Hl].
Qed.

(* within base58btc the text of a key is unique: parse then print is the identity *)
Theorem pk_parse_print ext t k :
  pk_from_str ext (CODE_Z :: t) = Ok k -> pk_to_human k = Ok (CODE_Z :: t).
Proof.
  intros H. apply pk_from_str_inv in H. destruct H as [Hd Hl].
  pose proof (multibase_z_canonical _ _ _ Hd) as Hc.
  unfold pk_to_human, copy_from_slice. rewrite Hl. cbn [length]. rewrite !N.eqb_refl.
  cbn [bind]. f_equal. exact Hc.
Qed.

Lemma pk_from_str_wf ext s k :
  (forall bs, ext = Some bs -> bytes_ok bs) ->
  Forall (fun c => c < 1114112) s ->
  pk_from_str ext s = Ok k -> pk_wf k.
Proof.
  intros Hext Hs H. apply pk_from_str_inv in H. destruct H as [Hd Hl]. split; [exact Hl|].
  assert (Hb : bytes_ok (MULTICODEC ++ k)).
  { revert Hd. generalize (MULTICODEC ++ k). intros target.
    unfold multibase_decode. destruct s as [|c t]; [discriminate|].
    destruct (base_of_code c) as [b|]; [|discriminate].
    rewrite str_slice_first. cbn [bind]. unfold base_decode. cbv zeta.
    inversion Hs as [|? ? _ Ht]; subst.
    assert (Hu : bytes_ok (utf8_encode t)).
    { clear - Ht. induction Ht as [|x t Hx _ IH]; [constructor|].
      unfold utf8_encode. cbn [flat_map]. apply Forall_app. split; [apply utf8_char_bytes; exact Hx | exact IH]. }
    destruct b as [| al | [|] |].
    - intros E. inversion E; subst. exact Hu.
    - destruct (basex_decode al (utf8_encode t)) as [bs|] eqn:E; [|discriminate].
      intros E'. inversion E'; subst. eapply basex_decode_bytes; exact E.
    - destruct (basex_decode B36U _) as [bs|] eqn:E; [|discriminate].
      intros E'. inversion E'; subst. eapply basex_decode_bytes; exact E.
    - destruct (basex_decode B36L _) as [bs|] eqn:E; [|discriminate].
      intros E'. inversion E'; subst. eapply basex_decode_bytes; exact E.
    - destruct ext as [bs|]; [|discriminate]. intros E. inversion E; subst. apply Hext. reflexivity. }
  apply Forall_app in Hb. tauto.
Qed.

(* ---- Did *)

Theorem did_roundtrip k : pk_wf k ->
  exists s, did_encode k = Ok s /\ (forall ext, did_decode ext s = Ok k) /\
            s = DID_PREFIX ++ CODE_Z :: b58_encode (MULTICODEC ++ k).
Proof.
  intros H. exists (DID_PREFIX ++ pk_text k). split; [|split; [|reflexivity]].
  - unfold did_encode. rewrite pk_to_human_ok by exact H. reflexivity.
  - intros ext. unfold did_decode. rewrite strip_prefix_app. apply pk_from_str_text. exact H.
Qed.

Theorem did_parse_print ext t k :
  did_decode ext (DID_PREFIX ++ CODE_Z :: t) = Ok k -> did_encode k = Ok (DID_PREFIX ++ CODE_Z :: t).
Proof.
  unfold did_decode, did_encode. rewrite strip_prefix_app. intros H.
  rewrite (pk_parse_print _ _ _ H). reflexivity.
Qed.

(* ---- RepoId *)

Lemma rid_from_canonical_text ext o : oid_wf o -> rid_from_canonical ext (rid_canonical o) = Ok o.
Proof.
  intros [Hl Hb]. unfold rid_from_canonical, rid_canonical.
  rewrite multibase_roundtrip by exact Hb. cbn [bind]. rewrite Hl, N.eqb_refl. reflexivity.
Qed.

Theorem rid_roundtrip o : oid_wf o ->
  (forall ext, rid_from_urn ext (rid_urn o) = Ok o) /\
  (forall ext, rid_from_canonical ext (rid_canonical o) = Ok o) /\
  (forall ext, rid_from_urn ext (rid_canonical o) = Ok o) /\
  rid_urn o = RAD_PREFIX ++ CODE_Z :: b58_encode o.
Proof.
  intros H. repeat split; intros.
  - unfold rid_from_urn, rid_urn. rewrite strip_prefix_app. apply rid_from_canonical_text. exact H.
  - apply rid_from_canonical_text. exact H.
  - unfold rid_from_urn. unfold rid_canonical at 1, multibase_encode_b58.
    replace (strip_prefix RAD_PREFIX (CODE_Z :: b58_encode o)) with (@None (list N)) by reflexivity.
    apply rid_from_canonical_text. exact H.
Qed.

Theorem rid_parse_print ext t o :
  rid_from_canonical ext (CODE_Z :: t) = Ok o -> rid_canonical o = CODE_Z :: t.
Proof.
  unfold rid_from_canonical.
  destruct (multibase_decode ext (CODE_Z :: t)) as [bytes|e|p] eqn:E; cbn [bind]; try discriminate.
  destruct (N.of_nat (length bytes) =? OID_BYTES); [|discriminate].
  intros H. inversion H; subst. eapply multibase_z_canonical. exact E.
Qed.

(* ---- totality: no parser ever panics *)

Theorem parsers_total :
  (forall ext s site, pk_from_str ext s <> Panic site) /\
  (forall ext s site, did_decode ext s <> Panic site) /\
  (forall ext s site, rid_from_canonical ext s <> Panic site) /\
  (forall ext s site, rid_from_urn ext s <> Panic site).
Proof.
  assert (Hpk : forall ext s site, pk_from_str ext s <> Panic site).
  { intros ext s site. unfold pk_from_str.
    pose proof (multibase_decode_total ext s) as Hm.
    destruct (multibase_decode ext s) as [bytes|e|p]; cbn [bind]; [|discriminate | exfalso; eapply Hm; reflexivity].
    destruct (strip_prefix MULTICODEC bytes); [|discriminate].
    destruct (_ =? _); discriminate. }
  assert (Hrc : forall ext s site, rid_from_canonical ext s <> Panic site).
  { intros ext s site. unfold rid_from_canonical.
    pose proof (multibase_decode_total ext s) as Hm.
    destruct (multibase_decode ext s) as [bytes|e|p]; cbn [bind]; [|discriminate | exfalso; eapply Hm; reflexivity].
    destruct (_ =? _); discriminate. }
  repeat split.
  - exact Hpk.
  - intros ext s site. unfold did_decode. destruct (strip_prefix DID_PREFIX s); [apply Hpk | discriminate].
  - exact Hrc.
  - intros ext s site. unfold rid_from_urn. apply Hrc.
Qed.

(* ================================================================ Alias / UserAgent *)

Section Classes.
Variable is_control is_whitespace is_ascii_graphic : N -> bool.

Definition alias_valid (s : list N) : Prop :=
  s <> [] /\ Forall (fun c => is_control c = false /\ is_whitespace c = false) s /\
  str_len s <= MAX_ALIAS_LENGTH.

Lemma alias_from_str_spec s a :
  alias_from_str is_control is_whitespace s = Ok a <-> a = s /\ alias_valid s.
Proof.
  unfold alias_from_str, alias_valid. split.
  - destruct s as [|c s']; [discriminate|]. cbn [is_nil].
    destruct (existsb _ (c :: s')) eqn:Ex; [discriminate|].
    destruct (N.ltb_spec MAX_ALIAS_LENGTH (str_len (c :: s'))) as [|Hle]; [discriminate|].
    intros Hok. inversion Hok; subst. split; [reflexivity|]. split; [discriminate|]. split; [|assumption].
    apply Forall_forall. intros x Hx.
    destruct (is_control x || is_whitespace x) eqn:E.
    + assert (existsb (fun c0 => is_control c0 || is_whitespace c0) (c :: s') = true)
        by (apply existsb_exists; exists x; split; assumption). congruence.
    + apply orb_false_iff in E. exact E.
  - intros [-> [Hne [Hall Hlen]]].
    destruct s as [|c s']; [congruence|]. cbn [is_nil].
    assert (Ex : existsb (fun c0 => is_control c0 || is_whitespace c0) (c :: s') = false).
    { destruct (existsb _ (c :: s')) eqn:E; [|reflexivity].
      apply existsb_exists in E. destruct E as [x [Hx Hb]].
      rewrite Forall_forall in Hall. destruct (Hall x Hx) as [H1 H2]. rewrite H1, H2 in Hb. discriminate. }
    rewrite Ex. destruct (N.ltb_spec MAX_ALIAS_LENGTH (str_len (c :: s'))); [lia | reflexivity].
Qed.

(* print (parse s) = s, and the printed text re-parses to the same alias *)
Theorem alias_roundtrip s a :
  alias_from_str is_control is_whitespace s = Ok a ->
  alias_display a = s /\
  alias_from_str is_control is_whitespace (alias_display a) = Ok a.
Proof.
  intros H. pose proof H as H'. apply alias_from_str_spec in H'. destruct H' as [-> _].
  split; [reflexivity | exact H].
Qed.

Theorem alias_valid_roundtrip a : alias_valid a ->
  alias_from_str is_control is_whitespace (alias_display a) = Ok a.
Proof. intros H. apply alias_from_str_spec. split; [reflexivity | exact H]. Qed.

Lemma alias_total s site : alias_from_str is_control is_whitespace s <> Panic site.
Proof.
  unfold alias_from_str. destruct (is_nil s); [discriminate|].
  destruct (existsb _ s); [discriminate|]. destruct (_ <? _); discriminate.
Qed.

Lemma agent_from_str_ok s a : agent_from_str is_ascii_graphic s = Ok a -> a = s.
Proof.
  unfold agent_from_str. destruct (_ <? _); [discriminate|].
  destruct (strip_prefix_char SLASH s) as [s1|]; [|discriminate].
  destruct (strip_suffix_char SLASH s1) as [s2|]; [|discriminate].
  destruct (is_nil s2); [discriminate|]. destruct (forallb _ _); [|discriminate].
  intros H. inversion H. reflexivity.
Qed.

Theorem agent_roundtrip s a :
  agent_from_str is_ascii_graphic s = Ok a ->
  agent_display a = s /\ agent_from_str is_ascii_graphic (agent_display a) = Ok a.
Proof.
  intros H. pose proof (agent_from_str_ok s a H) as ->. split; [reflexivity | exact H].
Qed.

Lemma agent_total s site : agent_from_str is_ascii_graphic s <> Panic site.
Proof.
  unfold agent_from_str. destruct (_ <? _); [discriminate|].
  destruct (strip_prefix_char SLASH s) as [s1|]; [|discriminate].
  destruct (strip_suffix_char SLASH s1) as [s2|]; [|discriminate].
  destruct (is_nil s2); [discriminate|]. destruct (forallb _ _); discriminate.
Qed.

End Classes.

(* ================================================================ Alias from a node id, wire array *)

Lemma of_digits_fold b ds : forall a,
  fold_left (fun a d => a * b + d) ds a = a * b ^ N.of_nat (length ds) + of_digits b ds.
Proof.
  unfold of_digits. induction ds as [|d ds IH]; intros a.
  - cbn. lia.
  - cbn [fold_left length]. rewrite (IH (a * b + d)), (IH (0 * b + d)).
    rewrite Nat2N.inj_succ, N.pow_succ_r'. lia.
Qed.

Lemma of_digits_cons b d ds :
  of_digits b (d :: ds) = d * b ^ N.of_nat (length ds) + of_digits b ds.
Proof.
  unfold of_digits at 1. cbn [fold_left]. rewrite of_digits_fold. lia.
Qed.

Lemma of_digits_lt_pow b ds : 2 <= b -> Forall (fun d => d < b) ds ->
  of_digits b ds < b ^ N.of_nat (length ds).
Proof.
  intros Hb. induction ds as [|d ds IH] using rev_ind; intros H.
  - cbn. lia.
  - apply Forall_app in H. destruct H as [H1 H2]. inversion H2; subst.
    rewrite of_digits_app, app_length. cbn [length].
    replace (N.of_nat (length ds + 1)) with (N.succ (N.of_nat (length ds))) by lia.
    rewrite N.pow_succ_r'. specialize (IH H1). nia.
Qed.

Lemma to_digits_length_lower b n m : 2 <= b ->
  b ^ N.of_nat m <= n -> (m < length (to_digits b n))%nat.
Proof.
  intros Hb Hn.
  pose proof (of_digits_lt_pow b (to_digits b n) Hb (to_digits_lt b Hb n)) as H.
  rewrite of_to_digits in H by exact Hb.
  destruct (Nat.lt_ge_cases m (length (to_digits b n))) as [Hlt|Hge]; [exact Hlt|].
  assert (b ^ N.of_nat (length (to_digits b n)) <= b ^ N.of_nat m) by (apply N.pow_le_mono_r; lia).
  lia.
Qed.

Lemma str_len_ascii s : Forall (fun c => c < 128) s -> str_len s = N.of_nat (length s).
Proof.
  induction 1 as [|c l Hc _ IH]; [reflexivity|].
  cbn [str_len length]. rewrite IH. unfold len_utf8. destruct (N.ltb_spec c 128); lia.
Qed.

(* the text of every node id has more than 33 characters: the unchecked
   Alias(nid.to_string()) of the original code was never a valid alias *)
Theorem nid_text_exceeds_alias_limit k : pk_wf k ->
  (33 < length (pk_text k))%nat /\ MAX_ALIAS_LENGTH < str_len (pk_text k).
Proof.
  intros [Hl Hb].
  assert (Hlen : (33 < length (pk_text k))%nat).
  { unfold pk_text, multibase_encode_b58, b58_encode, basex_encode.
    cbn [length]. rewrite app_length, map_length.
    assert (Hd : (32 < length (to_digits (alen B58BTC) (of_digits 256 (MULTICODEC ++ k))))%nat).
    { apply to_digits_length_lower; [exact B58_len|].
      unfold MULTICODEC. cbn [app]. rewrite of_digits_cons. cbn [length].
      assert (E : N.of_nat (S (length k)) = 33) by (unfold KEY_BYTES in Hl; lia).
      rewrite E.
      assert (alen B58BTC ^ N.of_nat 32 <= 237 * 256 ^ 33) by (vm_compute; discriminate).
      lia. }
    lia. }
  split; [exact Hlen|].
  assert (Hs : str_len (pk_text k) = N.of_nat (length (pk_text k))).
  { apply str_len_ascii. unfold pk_text, multibase_encode_b58.
    constructor; [vm_compute; reflexivity | apply b58_encode_ascii]. }
  rewrite Hs. unfold MAX_ALIAS_LENGTH. lia.
Qed.

Lemma b58_chars_plain c : In c B58BTC ->
  std_is_control c = false /\ std_is_whitespace c = false.
Proof.
  assert (H : Forall (fun x => (negb (std_is_control x) && negb (std_is_whitespace x)) = true) B58BTC)
    by (apply forallb_Forall; vm_compute; reflexivity).
  rewrite Forall_forall in H. intros Hin. specialize (H c Hin).
  apply andb_true_iff in H. destruct H as [H1 H2].
  apply negb_true_iff in H1. apply negb_true_iff in H2. split; assumption.
Qed.

Lemma pk_text_in_alphabet k : Forall (fun c => In c B58BTC) (pk_text k).
Proof.
  unfold pk_text, multibase_encode_b58. constructor.
  - vm_compute. repeat (first [left; reflexivity | right]).
  - apply basex_encode_in_alphabet. exact B58_len.
Qed.

Lemma Forall_firstn {A} (P : A -> Prop) n l : Forall P l -> Forall P (firstn n l).
Proof.
  intros H. revert n. induction H as [|x l Hx _ IH]; intros [|n]; cbn; constructor; auto.
Qed.

(* (after the fix) the alias made from any node id is a valid alias: it prints,
   re-parses to itself, and converts to the 32-byte wire array without panic *)
Theorem alias_of_nid_valid k : pk_wf k ->
  exists a, alias_of_nid k = Ok a /\
            alias_valid std_is_control std_is_whitespace a /\
            alias_from_str std_is_control std_is_whitespace (alias_display a) = Ok a.
Proof.
  intros Hk. exists (firstn (N.to_nat MAX_ALIAS_LENGTH) (pk_text k)).
  assert (Hv : alias_valid std_is_control std_is_whitespace (firstn (N.to_nat MAX_ALIAS_LENGTH) (pk_text k))).
  { pose proof (pk_text_in_alphabet k) as Hin.
    assert (Hin' := Forall_firstn _ (N.to_nat MAX_ALIAS_LENGTH) _ Hin).
    split; [|split].
    - unfold pk_text, multibase_encode_b58. cbn. discriminate.
    - eapply Forall_impl; [|exact Hin']. intros c Hc. apply b58_chars_plain. exact Hc.
    - rewrite str_len_ascii.
      + pose proof (firstn_le_length (N.to_nat MAX_ALIAS_LENGTH) (pk_text k)). unfold MAX_ALIAS_LENGTH in *. lia.
      + eapply Forall_impl; [|exact Hin']. intros c Hc. apply B58_ascii. exact Hc. }
  split; [|split; [exact Hv | apply alias_valid_roundtrip; exact Hv]].
  unfold alias_of_nid. rewrite pk_to_human_ok by exact Hk. reflexivity.
Qed.

Lemma utf8_char_length c : N.of_nat (length (utf8_char c)) = len_utf8 c.
Proof.
  unfold utf8_char, len_utf8. destruct (c <? 128), (c <? 2048), (c <? 65536); reflexivity.
Qed.

Lemma utf8_encode_length s : N.of_nat (length (utf8_encode s)) = str_len s.
Proof.
  induction s as [|c s IH]; [reflexivity|].
  unfold utf8_encode in *. cbn [flat_map str_len]. rewrite app_length, Nat2N.inj_add, IH, utf8_char_length.
  reflexivity.
Qed.

(* From<&Alias> for [u8;32] never panics on a valid alias (whatever the char classes) *)
Theorem alias_to_array_total ic iw a : alias_valid ic iw a ->
  exists arr, alias_to_array a = Ok arr /\ length arr = 32%nat.
Proof.
  intros [_ [_ Hlen]]. unfold alias_to_array, copy_from_slice.
  unfold MAX_ALIAS_LENGTH in Hlen.
  destruct (N.ltb_spec 32 (str_len a)); [lia|].
  rewrite utf8_encode_length, N.eqb_refl. cbn [bind].
  eexists. split; [reflexivity|].
  rewrite app_length, repeat_length.
  pose proof (utf8_encode_length a). lia.
Qed.

(* ================================================================ parse-print-parse for DID / RepoId *)

(* decoded payloads are byte strings (given that the observed external results are) *)
Lemma multibase_decode_bytes ext s bs :
  (forall b, ext = Some b -> bytes_ok b) -> Forall (fun c => c < 1114112) s ->
  multibase_decode ext s = Ok bs -> bytes_ok bs.
Proof.
  intros Hext Hs. unfold multibase_decode. destruct s as [|c t]; [discriminate|].
  destruct (base_of_code c) as [b|]; [|discriminate].
  rewrite str_slice_first. cbn [bind]. unfold base_decode. cbv zeta.
  inversion Hs as [|? ? _ Ht]; subst.
  assert (Hu : bytes_ok (utf8_encode t)).
  { clear - Ht. induction Ht as [|x t Hx _ IH]; [constructor|].
    unfold utf8_encode. cbn [flat_map]. apply Forall_app. split; [apply utf8_char_bytes; exact Hx | exact IH]. }
  destruct b as [| al | [|] |].
  - intros E. inversion E; subst. exact Hu.
  - destruct (basex_decode al (utf8_encode t)) as [x|] eqn:E; [|discriminate].
    intros E'. inversion E'; subst. eapply basex_decode_bytes; exact E.
  - destruct (basex_decode B36U _) as [x|] eqn:E; [|discriminate].
    intros E'. inversion E'; subst. eapply basex_decode_bytes; exact E.
  - destruct (basex_decode B36L _) as [x|] eqn:E; [|discriminate].
    intros E'. inversion E'; subst. eapply basex_decode_bytes; exact E.
  - destruct ext as [x|]; [|discriminate]. intros E. inversion E; subst. apply Hext. reflexivity.
Qed.

Lemma Forall_strip_prefix (P : N -> Prop) p : forall s t, strip_prefix p s = Some t -> Forall P s -> Forall P t.
Proof.
  intros s t H Hs. apply strip_prefix_inv in H. subst s. apply Forall_app in Hs. tauto.
Qed.

(* a parsed DID / repository id (from any accepted spelling, any multibase base)
   is a well-formed value: printing it and parsing the print returns it *)
Theorem did_parse_print_parse ext s k :
  (forall b, ext = Some b -> bytes_ok b) -> Forall (fun c => c < 1114112) s ->
  did_decode ext s = Ok k ->
  exists s', did_encode k = Ok s' /\ forall ext', did_decode ext' s' = Ok k.
Proof.
  intros Hext Hs H. unfold did_decode in H.
  destruct (strip_prefix DID_PREFIX s) as [t|] eqn:E; [|discriminate].
  assert (Hk : pk_wf k).
  { eapply pk_from_str_wf; [exact Hext | | exact H]. eapply Forall_strip_prefix; eassumption. }
  destruct (did_roundtrip k Hk) as [s' [H1 [H2 _]]]. exists s'. split; assumption.
Qed.

Theorem rid_parse_print_parse ext s o :
  (forall b, ext = Some b -> bytes_ok b) -> Forall (fun c => c < 1114112) s ->
  rid_from_urn ext s = Ok o ->
  oid_wf o /\ (forall ext', rid_from_urn ext' (rid_urn o) = Ok o) /\
  (forall ext', rid_from_canonical ext' (rid_canonical o) = Ok o).
Proof.
  intros Hext Hs H. unfold rid_from_urn, rid_from_canonical in H.
  set (t := match strip_prefix RAD_PREFIX s with Some t => t | None => s end) in H.
  assert (Ht : Forall (fun c => c < 1114112) t).
  { unfold t. destruct (strip_prefix RAD_PREFIX s) as [t'|] eqn:E; [|exact Hs].
    eapply Forall_strip_prefix; eassumption. }
  destruct (multibase_decode ext t) as [bytes|e|p] eqn:E; cbn [bind] in H; try discriminate.
  destruct (N.eqb_spec (N.of_nat (length bytes)) OID_BYTES) as [Hl|]; [|discriminate].
  inversion H; subst o.
  assert (Hw : oid_wf bytes) by (split; [exact Hl | eapply multibase_decode_bytes; eassumption]).
  destruct (rid_roundtrip bytes Hw) as [H1 [H2 _]]. split; [exact Hw | split; assumption].
Qed.
