(* DagMerge.v — `Dag::merge` (after the fix: every node of `other` is merged):
   the result has the union of the nodes and the union of the dependencies;
   nodes already present keep their value; tips/roots stay exact; edge symmetry
   is kept as long as `other` does not supply a node that `self` only referred
   to through a dangling dependency. *)
From HW Require Import lib.Base lib.SMap model.Dag proofs.DagBase proofs.DagOps.
From Coq Require Import Sorted Relations.

Section Merge.
Context {V : Type}.
Implicit Types (g a b c : dag V) (nd : node V).

(** [g'] is [g] plus the dependencies [D x y] (x depends on y), each half being
    recorded only where the endpoint exists — what a batch of
    `dependency` calls does *)
Record ext_by g g' (D : N -> N -> Prop) : Prop := {
  eb_repr : dag_repr g';
  eb_in : forall x, in_graph g' x <-> in_graph g x;
  eb_dep : forall x y, depends g' x y <-> (depends g x y \/ (D x y /\ in_graph g x));
  eb_edge : forall y x, edge g' y x <-> (edge g y x \/ (D x y /\ in_graph g y));
  eb_val : forall x, option_map nvalue (lookup x (graph g')) = option_map nvalue (lookup x (graph g));
  eb_tips : tips_ok g -> tips_ok g';
  eb_roots : roots_ok g -> roots_ok g';
}.

Lemma ext_by_refl g : dag_repr g -> ext_by g g (fun _ _ => False).
Proof. intros Hr. constructor; auto; try tauto. Qed.

Lemma ext_by_ext g g' (D D' : N -> N -> Prop) :
  (forall x y, D x y <-> D' x y) -> ext_by g g' D -> ext_by g g' D'.
Proof.
  intros He [H1 H2 H3 H4 H5 H6 H7]. constructor; auto.
  - intros x y. rewrite H3, He. tauto.
  - intros y x. rewrite H4, He. tauto.
Qed.

Lemma ext_by_dep g f t : dag_repr g ->
  ext_by g (dag_dependency g f t) (fun x y => x = f /\ y = t).
Proof.
  intros Hr. constructor.
  - apply dep_repr, Hr.
  - intros x. apply dep_in_graph, Hr.
  - intros x y. rewrite dep_depends by exact Hr. split.
    + intros [H|[-> [-> H]]]; auto.
    + intros [H|[[-> ->] H]]; auto.
  - intros y x. rewrite dep_edge by exact Hr. split.
    + intros [H|[-> [-> H]]]; auto.
    + intros [H|[[-> ->] H]]; auto.
  - intros x. apply dep_value, Hr.
  - apply dep_tips_ok, Hr.
  - apply dep_roots_ok, Hr.
Qed.

Lemma ext_by_trans g g1 g2 D1 D2 : ext_by g g1 D1 -> ext_by g1 g2 D2 ->
  ext_by g g2 (fun x y => D1 x y \/ D2 x y).
Proof.
  intros [A1 A2 A3 A4 A5 A6 A7] [B1 B2 B3 B4 B5 B6 B7]. constructor; auto.
  - intros x. rewrite B2, A2. tauto.
  - intros x y. rewrite B3, A3, A2. tauto.
  - intros y x. rewrite B4, A4, A2. tauto.
  - intros x. rewrite B5, A5. reflexivity.
Qed.

Lemma depsA_ext k l : forall g, dag_repr g ->
  ext_by g (fold_left (fun a d => dag_dependency a d k) l g) (fun x y => In x l /\ y = k).
Proof.
  induction l as [|d l IH]; intros g Hr; cbn [fold_left].
  - eapply ext_by_ext; [|apply ext_by_refl; exact Hr]. simpl. tauto.
  - eapply ext_by_ext; [|eapply ext_by_trans; [apply (ext_by_dep g d k Hr) | apply IH, dep_repr, Hr]].
    intros x y. simpl. intuition congruence.
Qed.

Lemma depsB_ext k l : forall g, dag_repr g ->
  ext_by g (fold_left (fun a d => dag_dependency a k d) l g) (fun x y => x = k /\ In y l).
Proof.
  induction l as [|d l IH]; intros g Hr; cbn [fold_left].
  - eapply ext_by_ext; [|apply ext_by_refl; exact Hr]. simpl. tauto.
  - eapply ext_by_ext; [|eapply ext_by_trans; [apply (ext_by_dep g k d Hr) | apply IH, dep_repr, Hr]].
    intros x y. simpl. intuition congruence.
Qed.

(* ------------------------------------------------------------------ *)
(** * One iteration of the loop *)

Section Step.
Variables (b : dag V).
Hypothesis Hsb : dag_shape b.

Lemma merge_node_ext c k nd : dag_repr c -> lookup k (graph b) = Some nd ->
  let c1 := if dag_contains c k then c else dag_node c k (nvalue nd) in
  ext_by c1 (merge_node c (k, nd)) (fun x y => depends b x y /\ (x = k \/ y = k)).
Proof.
  intros Hr El c1. unfold merge_node. cbn [fst snd]. fold c1.
  assert (Hr1 : dag_repr c1) by (unfold c1; destruct (dag_contains c k); [exact Hr | apply node_repr, Hr]).
  eapply ext_by_ext; [|eapply ext_by_trans; [apply depsA_ext; exact Hr1 | apply depsB_ext]].
  2:{ apply (eb_repr _ _ _ (depsA_ext k (sset_elems (ndpts nd)) c1 Hr1)). }
  intros x y. cbn beta. rewrite <- !sset_mem_elems. split.
  - intros [[Hx ->]|[-> Hy]].
    + split; [|auto]. apply (edge_depends b k x Hsb). exists nd. auto.
    + split; [|auto]. exists nd. auto.
  - intros [[nx [Ex Hm]] [-> | ->]].
    + right. split; [reflexivity|]. rewrite El in Ex. inversion Ex; subst nx. exact Hm.
    + left. split; [|reflexivity].
      assert (He : edge b k x).
      { apply (depends_edge b x k Hsb); [exists nx; auto | unfold in_graph; congruence]. }
      destruct He as [nd' [El' Hm']]. rewrite El in El'. inversion El'; subst nd'. exact Hm'.
Qed.

End Step.

(* ------------------------------------------------------------------ *)
(** * The loop invariant *)

Definition inP (P : list (N * node V)) (x : N) : Prop := exists nd, In (x, nd) P.

Record merge_inv a b c (P : list (N * node V)) : Prop := {
  mi_repr : dag_repr c;
  mi_tips : tips_ok a -> tips_ok c;
  mi_roots : roots_ok a -> roots_ok c;
  mi_in : forall x, in_graph c x <-> (in_graph a x \/ inP P x);
  mi_dep : forall x y, depends c x y <->
             (depends a x y \/ (depends b x y /\ in_graph c x /\ (inP P x \/ inP P y)));
  mi_edge : forall y x, edge c y x <->
             (edge a y x \/ (depends b x y /\ in_graph c y /\ (inP P x \/ inP P y)));
  mi_val_a : forall x n, lookup x (graph a) = Some n ->
             option_map nvalue (lookup x (graph c)) = Some (nvalue n);
  mi_val_b : forall x n, lookup x (graph a) = None -> In (x, n) P ->
             option_map nvalue (lookup x (graph c)) = Some (nvalue n);
}.

Lemma in_graph_dec g x : in_graph g x \/ ~ in_graph g x.
Proof. unfold in_graph. destruct (lookup x (graph g)); [left; congruence | right; congruence]. Qed.

Lemma contains_in_graph g k : dag_contains g k = true <-> in_graph g k.
Proof. unfold dag_contains, mem, in_graph. destruct (lookup k (graph g)); split; congruence. Qed.

Lemma merge_step a b c P k nd : dag_shape b -> dag_repr a ->
  lookup k (graph b) = Some nd -> ~ inP P k ->
  merge_inv a b c P -> merge_inv a b (merge_node c (k, nd)) (P ++ [(k, nd)]).
Proof.
  intros Hsb Hra El HkP [Hr Ht Hro Hin Hdep Hedge Hva Hvb].
  pose proof (merge_node_ext b Hsb c k nd Hr El) as Hext. cbn zeta in Hext.
  set (c1 := if dag_contains c k then c else dag_node c k (nvalue nd)) in *.
  set (c' := merge_node c (k, nd)) in *.
  assert (Hr1 : dag_repr c1) by (unfold c1; destruct (dag_contains c k); [exact Hr | apply node_repr, Hr]).
  assert (Hin1 : forall x, in_graph c1 x <-> (in_graph c x \/ x = k)).
  { intros x. unfold c1. destruct (dag_contains c k) eqn:Ec.
    - apply contains_in_graph in Ec. split; [auto|]. intros [H| ->]; assumption.
    - rewrite node_in_graph by exact Hr. tauto. }
  assert (Hfresh : dag_contains c k = false -> ~ in_graph c k).
  { intros Ec H. apply contains_in_graph in H. congruence. }
  assert (Hdep1 : forall x y, depends c1 x y <-> depends c x y).
  { intros x y. unfold c1. destruct (dag_contains c k) eqn:Ec; [tauto|].
    rewrite node_depends by exact Hr. split; [tauto|]. intros H. split; [|exact H].
    intros ->. apply (Hfresh eq_refl). destruct H as [n [H _]]. unfold in_graph. congruence. }
  assert (Hedge1 : forall y x, edge c1 y x <-> edge c y x).
  { intros y x. unfold c1. destruct (dag_contains c k) eqn:Ec; [tauto|].
    rewrite node_edge by exact Hr. split; [tauto|]. intros H. split; [|exact H].
    intros ->. apply (Hfresh eq_refl). eapply edge_source. exact H. }
  assert (HinP' : forall x, inP (P ++ [(k, nd)]) x <-> (inP P x \/ x = k)).
  { intros x. unfold inP. split.
    - intros [n H]. apply in_app_or in H. destruct H as [H|[H|[]]]; [left; eauto | inversion H; auto].
    - intros [[n H]| ->]; [exists n; apply in_or_app; auto | exists nd; apply in_or_app; right; left; reflexivity]. }
  assert (Hin' : forall x, in_graph c' x <-> (in_graph c x \/ x = k)).
  { intros x. rewrite (eb_in _ _ _ Hext x). apply Hin1. }
  constructor.
  - apply (eb_repr _ _ _ Hext).
  - intros Hta. apply (eb_tips _ _ _ Hext). unfold c1. destruct (dag_contains c k); [auto|].
    apply node_tips_ok; auto.
  - intros Hra'. apply (eb_roots _ _ _ Hext). unfold c1. destruct (dag_contains c k); [auto|].
    apply node_roots_ok; auto.
  - intros x. rewrite Hin', HinP', Hin. tauto.
  - intros x y. rewrite (eb_dep _ _ _ Hext x y), Hdep1, Hin1, Hin', !HinP', Hdep.
    destruct (in_graph_dec c x) as [Hcx|Hcx]; split; intros H; tauto.
  - intros y x. rewrite (eb_edge _ _ _ Hext y x), Hedge1, Hin1, Hin', !HinP', Hedge.
    destruct (in_graph_dec c y) as [Hcy|Hcy]; split; intros H; tauto.
  - intros x n Ea. rewrite (eb_val _ _ _ Hext x). unfold c1.
    destruct (dag_contains c k) eqn:Ec; [apply Hva; exact Ea|].
    rewrite node_lookup by exact Hr. destruct (N.eqb_spec x k) as [->|Hne]; [|apply Hva; exact Ea].
    exfalso. apply (Hfresh eq_refl). apply Hin. left. unfold in_graph. congruence.
  - intros x n Ea Hp. rewrite (eb_val _ _ _ Hext x). unfold c1.
    apply in_app_or in Hp. destruct Hp as [Hp|[Hp|[]]].
    + assert (Hxk : x <> k) by (intros ->; apply HkP; exists n; exact Hp).
      destruct (dag_contains c k); [apply (Hvb x n Ea Hp)|].
      rewrite node_lookup by exact Hr. destruct (N.eqb_spec x k); [contradiction|]. apply (Hvb x n Ea Hp).
    + inversion Hp; subst x n. destruct (dag_contains c k) eqn:Ec.
      * exfalso. apply contains_in_graph, Hin in Ec. destruct Ec as [Ec|Ec]; [|contradiction].
        apply Ec. exact Ea.
      * rewrite node_lookup by exact Hr. rewrite N.eqb_refl. reflexivity.
Qed.

Lemma merge_loop a b : dag_shape b -> dag_repr a ->
  forall rest P c, graph b = P ++ rest -> merge_inv a b c P ->
  merge_inv a b (fold_left merge_node rest c) (P ++ rest).
Proof.
  intros Hsb Hra rest. induction rest as [|[k nd] rest IH]; intros P c Hg Hinv.
  - rewrite app_nil_r. exact Hinv.
  - cbn [fold_left]. replace (P ++ (k, nd) :: rest) with ((P ++ [(k, nd)]) ++ rest)
      by (rewrite <- app_assoc; reflexivity).
    pose proof (repr_graph b (shape_repr b Hsb)) as Hsorted.
    assert (Hnd : NoDup (keys (graph b))) by (apply sorted_keys_NoDup; exact Hsorted).
    apply IH; [rewrite <- app_assoc; exact Hg|].
    apply merge_step; auto.
    + apply In_lookup; [exact Hsorted|]. rewrite Hg. apply in_or_app. right. left. reflexivity.
    + intros [n Hn]. rewrite Hg in Hnd. unfold keys in Hnd. rewrite map_app in Hnd. simpl in Hnd.
      apply NoDup_remove_2 in Hnd. apply Hnd. apply in_or_app. left.
      apply in_map_iff. exists (k, n). auto.
Qed.

Lemma merge_inv_init a b : dag_repr a -> merge_inv a b a [].
Proof.
  intros Hr. constructor; auto.
  - intros x. split; [auto|]. intros [H|[n []]]. exact H.
  - intros x y. split; [auto|]. intros [H|[_ [_ [[n []]|[n []]]]]]. exact H.
  - intros y x. split; [auto|]. intros [H|[_ [_ [[n []]|[n []]]]]]. exact H.
  - intros x n E. rewrite E. reflexivity.
  - intros x n _ [].
Qed.

(** merge a b = union of nodes and of dependencies, for every [a] the API can
    build and every [b] with symmetric edges (no bound on sizes, any number of
    roots, overlapping or not) *)
Theorem merge_union a b : dag_repr a -> dag_shape b ->
  let m := dag_merge a b in
  dag_repr m /\
  (forall x, in_graph m x <-> (in_graph a x \/ in_graph b x)) /\
  (forall x y, depends m x y <-> (depends a x y \/ depends b x y)) /\
  (forall y x, edge m y x <-> (edge a y x \/ (in_graph m y /\ depends b x y))) /\
  (forall x n, lookup x (graph a) = Some n -> option_map nvalue (lookup x (graph m)) = Some (nvalue n)) /\
  (forall x n, lookup x (graph a) = None -> lookup x (graph b) = Some n ->
               option_map nvalue (lookup x (graph m)) = Some (nvalue n)) /\
  (tips_ok a -> tips_ok m) /\ (roots_ok a -> roots_ok m).
Proof.
  intros Hra Hsb m.
  pose proof (merge_loop a b Hsb Hra (graph b) [] a eq_refl (merge_inv_init a b Hra)) as Hinv.
  simpl app in Hinv. fold (dag_merge a b) in Hinv. fold m in Hinv.
  destruct Hinv as [Hr Ht Hro Hin Hdep Hedge Hva Hvb].
  pose proof (repr_graph b (shape_repr b Hsb)) as Hsorted.
  assert (HP : forall x, inP (graph b) x <-> in_graph b x).
  { intros x. unfold inP. rewrite in_graph_lookup. split; intros [n H]; exists n.
    - apply In_lookup; assumption.
    - apply lookup_In. exact H. }
  split; [exact Hr|]. split; [intros x; rewrite Hin, HP; tauto|].
  split.
  { intros x y. rewrite Hdep, Hin, !HP. split; [tauto|]. intros [H|H]; [tauto|]. right.
    assert (in_graph b x) by (destruct H as [n [H _]]; unfold in_graph; congruence). tauto. }
  split.
  { intros y x. rewrite Hedge, !HP. split; [tauto|]. intros [H|[H1 H2]]; [tauto|]. right.
    assert (in_graph b x) by (destruct H2 as [n [H _]]; unfold in_graph; congruence). tauto. }
  split; [exact Hva|]. split; [|tauto].
  intros x n Ea Eb. apply (Hvb x n Ea). apply lookup_In. exact Eb.
Qed.

(** the merged graph has symmetric edges and exact tips/roots when [a] does,
    provided [b] does not contain a node that [a] refers to but lacks *)
Theorem merge_shape a b : dag_shape a -> dag_shape b ->
  (forall x y, depends a x y -> in_graph b y -> in_graph a y) ->
  dag_shape (dag_merge a b).
Proof.
  intros Hsa Hsb Hdang.
  destruct (merge_union a b (shape_repr a Hsa) Hsb) as [Hr [Hin [Hdep [Hedge [_ [_ [Ht Hro]]]]]]].
  constructor; [exact Hr| |apply Ht, Hsa|apply Hro, Hsa].
  intros y x. rewrite Hedge, Hdep, (shape_dpts a Hsa y x), Hin. split.
  - intros [[Hy Hd]|[Hy Hd]]; tauto.
  - intros [Hy [Hd|Hd]]; [|right; tauto].
    left. split; [|exact Hd]. destruct Hy as [Hy|Hy]; [exact Hy|]. eapply Hdang; eassumption.
Qed.

(** acyclicity is kept when one rank function fits both graphs (the union of
    two DAGs can be cyclic otherwise) *)
Theorem merge_ranked r a b : dag_repr a -> dag_shape b ->
  dag_ranked r a -> (forall x y, depends b x y -> (r y < r x)%N) ->
  dag_ranked r (dag_merge a b).
Proof.
  intros Hra Hsb Hr Hb y x He.
  destruct (merge_union a b Hra Hsb) as [_ [_ [_ [Hedge _]]]].
  apply Hedge in He. destruct He as [He|[_ Hd]]; [apply Hr; exact He | apply Hb; exact Hd].
Qed.

End Merge.
