(* ChangeGraphEval.v — `ChangeGraph::evaluate`.
   - [chronological] is a total preorder;
   - the graph `load` builds from a store without parent cycles is well-formed;
   - on a well-formed graph `evaluate` neither runs out of fuel nor trips the
     `History::new` assertion (the root is never pruned);
   - C06: if `apply` is atomic and does not look at its siblings, evaluating
     the pruned history again (any well-formed graph that is the loaded graph
     without the rejected changes and their dependents) yields the same object
     and the same history, and rejects nothing. *)
From HW Require Import lib.Base lib.SMap model.Dag model.ChangeGraph proofs.DagBase proofs.DagOps
  proofs.DagTraverse proofs.DagBfs proofs.DagRemove proofs.DagFold proofs.DagPrune proofs.DagFuel
  proofs.ChangeGraphBuild proofs.ChangeGraphOrder.
From Coq Require Import Sorted Permutation Relations.

(* ------------------------------------------------------------------ *)
(** * chronological *)

Lemma chronological_total {P} : total_preorder (@chronological P).
Proof.
  split.
  - intros [k1 e1] [k2 e2]. unfold chronological. simpl.
    destruct (N.compare_spec (e_ts e1) (e_ts e2)); destruct (N.compare_spec (e_ts e2) (e_ts e1));
      try lia; try reflexivity.
    destruct (N.compare_spec k1 k2); destruct (N.compare_spec k2 k1); try lia; reflexivity.
  - intros [k1 e1] [k2 e2] [k3 e3]. unfold chronological. simpl.
    destruct (N.compare_spec (e_ts e1) (e_ts e2)); destruct (N.compare_spec (e_ts e2) (e_ts e3));
      destruct (N.compare_spec (e_ts e1) (e_ts e3)); try lia; try congruence;
      destruct (N.compare_spec k1 k2); destruct (N.compare_spec k2 k3); destruct (N.compare_spec k1 k3);
      try lia; congruence.
Qed.

(* ------------------------------------------------------------------ *)
(** * canonical graphs are well-formed *)

Section CanonWf.
Context {V : Type}.
Implicit Types (g : dag V).

Lemma canon_edge ns es g k d : canon ns es g -> edge g k d <-> (In k (map fst ns) /\ In (d, k) es).
Proof.
  intros Hc. unfold edge. split.
  - intros [nd [Hl Hm]]. split.
    + apply (cn_in _ _ _ Hc). unfold in_graph. congruence.
    + apply (cn_nodes _ _ _ Hc k nd Hl). exact Hm.
  - intros [Hk He]. apply (cn_in _ _ _ Hc), in_graph_lookup in Hk. destruct Hk as [nd Hl].
    exists nd. split; [exact Hl|]. apply (cn_nodes _ _ _ Hc k nd Hl). exact He.
Qed.

Lemma canon_depends ns es g a b : canon ns es g -> depends g a b <-> (In a (map fst ns) /\ In (a, b) es).
Proof.
  intros Hc. unfold depends. split.
  - intros [nd [Hl Hm]]. split.
    + apply (cn_in _ _ _ Hc). unfold in_graph. congruence.
    + apply (cn_nodes _ _ _ Hc a nd Hl). exact Hm.
  - intros [Hk He]. apply (cn_in _ _ _ Hc), in_graph_lookup in Hk. destruct Hk as [nd Hl].
    exists nd. split; [exact Hl|]. apply (cn_nodes _ _ _ Hc a nd Hl). exact He.
Qed.

(** every edge starts at a node (true for `load`: a change is added together with its edges) *)
Lemma canon_shape ns es g : canon ns es g -> (forall f t, In (f, t) es -> In f (map fst ns)) -> dag_shape g.
Proof.
  intros Hc Hfrom. constructor.
  - apply Hc.
  - intros k d. rewrite (canon_edge ns es g k d Hc), (canon_depends ns es g d k Hc), (cn_in _ _ _ Hc).
    split; [intros [H1 H2] | intros [H1 [_ H2]]]; auto. split; [exact H1|]. split; [eapply Hfrom; exact H2 | exact H2].
  - intros k. rewrite (cn_tips _ _ _ Hc). split.
    + intros [Hk Hno]. apply (cn_in _ _ _ Hc), in_graph_lookup in Hk. destruct Hk as [nd Hl].
      exists nd. split; [exact Hl|]. apply sset_empty_mem. intros f.
      destruct (sset_mem f (ndpts nd)) eqn:E; [|reflexivity]. exfalso. apply Hno. exists f.
      apply (cn_nodes _ _ _ Hc k nd Hl). exact E.
    + intros [nd [Hl He]]. split; [apply (cn_in _ _ _ Hc); unfold in_graph; congruence|].
      intros [f Hf]. apply (cn_nodes _ _ _ Hc k nd Hl) in Hf. rewrite He in Hf. discriminate.
  - intros k. rewrite (cn_roots _ _ _ Hc). split.
    + intros [Hk Hno]. apply (cn_in _ _ _ Hc), in_graph_lookup in Hk. destruct Hk as [nd Hl].
      exists nd. split; [exact Hl|]. apply sset_empty_mem. intros t.
      destruct (sset_mem t (ndeps nd)) eqn:E; [|reflexivity]. exfalso. apply Hno. exists t.
      apply (cn_nodes _ _ _ Hc k nd Hl). exact E.
    + intros [nd [Hl He]]. split; [apply (cn_in _ _ _ Hc); unfold in_graph; congruence|].
      intros [t Ht]. apply (cn_nodes _ _ _ Hc k nd Hl) in Ht. rewrite He in Ht. discriminate.
Qed.

Lemma canon_ranked r ns es g : canon ns es g -> (forall f t, In (f, t) es -> (r t < r f)%N) -> dag_ranked r g.
Proof. intros Hc Hr k d He. apply (canon_edge ns es g k d Hc) in He. apply Hr, He. Qed.

End CanonWf.

(* ------------------------------------------------------------------ *)
(** * the loaded graph *)

Section LoadWf.
Context {P : Type}.
Implicit Types (st : cstore P) (g : dag (entry P)).

(** no parent cycles: commit ids are hashes of their parents' ids *)
Definition store_ranked (r : N -> N) st : Prop := forall c p, parent_of st c p -> (r p < r c)%N.

Lemma load_graph_spec st tips g : load_graph st tips = Some g ->
  dag_shape g /\
  (forall k, in_graph g k <-> closure st tips k) /\
  (forall k nd, lookup k (graph g) = Some nd ->
     lookup k st = Some (nvalue nd) /\ forall p, sset_mem p (ndeps nd) = true <-> In p (e_parents (nvalue nd))) /\
  (forall r, store_ranked r st -> dag_ranked r g).
Proof.
  intros E. destruct (load_canon st tips) as [ns [es [g0 [E0 [Hc [Hnd [Hn He]]]]]]].
  rewrite E in E0. inversion E0; subst g0. clear E0.
  assert (Hkeys : forall k, In k (map fst ns) <-> closure st tips k).
  { intros k. rewrite in_map_iff. split.
    - intros [[k0 e] [<- H]]. apply Hn in H. apply H.
    - intros Hk. pose proof Hk as [_ Hl]. destruct (lookup k st) as [e|] eqn:El; [|congruence].
      exists (k, e). split; [reflexivity|]. apply Hn. auto. }
  split; [|split; [|split]].
  - apply (canon_shape ns es g Hc). intros f t H. apply He in H. apply Hkeys, H.
  - intros k. rewrite (cn_in _ _ _ Hc). apply Hkeys.
  - intros k nd Hl. destruct (cn_nodes _ _ _ Hc k nd Hl) as [H1 [H2 _]]. apply Hn in H1.
    destruct H1 as [Hk Hle]. split; [exact Hle|]. intros p. rewrite H2, He. split.
    + intros [_ [e [Hl' Hp]]]. rewrite Hle in Hl'. inversion Hl'; subst. exact Hp.
    + intros Hp. split; [exact Hk|]. exists (nvalue nd). auto.
  - intros r Hr. apply (canon_ranked r ns es g Hc). intros f t H. apply He in H. apply Hr, H.
Qed.

Lemma load_wf r st tips g : store_ranked r st -> load st tips = Loaded g -> dag_wf g.
Proof.
  intros Hr E. rewrite load_unfold in E. destruct (load_graph st tips) as [g0|] eqn:E0; [|discriminate].
  destruct (dag_roots g0); [discriminate|]. inversion E; subst g0.
  destruct (load_graph_spec st tips g E0) as [Hs [_ [_ Hrk]]].
  constructor; [exact Hs|]. exists r. apply Hrk, Hr.
Qed.

End LoadWf.

(* ------------------------------------------------------------------ *)
(** * small list facts *)

Lemma filter_subseq_eq {A} (p : A -> bool) (s l : list A) : subseq s l -> NoDup l ->
  (forall x, In x l -> p x = true -> In x s) -> filter p l = filter p s.
Proof.
  induction 1 as [l|y s l Hsub IH|y s l Hsub IH]; intros Hnd Hp.
  - induction l as [|x l IHl]; [reflexivity|]. simpl. destruct (p x) eqn:E.
    + destruct (Hp x (or_introl eq_refl) E).
    + apply IHl; [inversion Hnd; assumption|]. intros z Hz. apply Hp. right. exact Hz.
  - inversion Hnd as [|? ? Hy Hnd']; subst. simpl. destruct (p y) eqn:E.
    + exfalso. apply Hy. eapply subseq_incl; [exact Hsub|]. apply Hp; [left; reflexivity | exact E].
    + apply IH; [exact Hnd'|]. intros x Hx. apply Hp. right. exact Hx.
  - inversion Hnd as [|? ? Hy Hnd']; subst. simpl. destruct (p y).
    + f_equal. apply IH; [exact Hnd'|]. intros x Hx Hpx.
      destruct (Hp x (or_intror Hx) Hpx) as [->|H]; [contradiction | exact H].
    + apply IH; [exact Hnd'|]. intros x Hx Hpx.
      destruct (Hp x (or_intror Hx) Hpx) as [->|H]; [contradiction | exact H].
Qed.

Lemma bool_iff (a b : bool) : (a = true <-> b = true) -> a = b.
Proof. destruct a, b; intros [H1 H2]; try reflexivity; [symmetry; apply H1 | apply H2]; reflexivity. Qed.

Lemma NoDup_map_inj {A B} (f : A -> B) l a b : NoDup (map f l) -> In a l -> In b l -> f a = f b -> a = b.
Proof.
  induction l as [|x l IH]; simpl; intros Hnd Ha Hb E; [tauto|].
  inversion Hnd as [|? ? Hx Hnd']; subst.
  destruct Ha as [->|Ha]; destruct Hb as [->|Hb]; try reflexivity.
  - exfalso. apply Hx. rewrite E. apply in_map. exact Hb.
  - exfalso. apply Hx. rewrite <- E. apply in_map. exact Ha.
  - apply IH; assumption.
Qed.

(* ------------------------------------------------------------------ *)
(** * uniqueness of "g without R" *)

Section RemovedUnique.
Context {V : Type}.
Implicit Types (g : dag V).

Lemma removed_unique g g1 g2 R : removed g g1 R -> removed g g2 R -> dag_shape g1 -> dag_shape g2 -> g1 = g2.
Proof.
  intros H1 H2 Hs1 Hs2.
  assert (Hlk : forall k, lookup k (graph g1) = lookup k (graph g2)).
  { intros k. destruct (lookup k (graph g1)) as [n1|] eqn:E1.
    - assert (Hk : in_graph g1 k) by (unfold in_graph; congruence).
      apply (removed_in_graph g g1 R k H1) in Hk. destruct Hk as [Hk HR].
      apply in_graph_lookup in Hk. destruct Hk as [nd El].
      destruct (rm_kept _ _ _ H1 k nd El HR) as [n1' [E1' [Hv1 [Hd1 Hp1]]]].
      destruct (rm_kept _ _ _ H2 k nd El HR) as [n2 [E2 [Hv2 [Hd2 Hp2]]]].
      rewrite E1 in E1'. inversion E1'; subst n1'. rewrite E2. f_equal.
      destruct (repr_nodes g1 (shape_repr g1 Hs1) k n1 E1) as [_ Hsp1].
      destruct (repr_nodes g2 (shape_repr g2 Hs2) k n2 E2) as [_ Hsp2].
      destruct n1 as [v1 d1 p1], n2 as [v2 d2 p2]. simpl in *. f_equal; try congruence.
      apply sset_ext; try assumption. intros x.
      destruct (sset_mem x p1) eqn:A; destruct (sset_mem x p2) eqn:B; try reflexivity.
      + apply Hp1, Hp2 in A. congruence.
      + apply Hp2, Hp1 in B. congruence.
    - destruct (lookup k (graph g2)) as [n2|] eqn:E2; [|reflexivity]. exfalso.
      assert (Hk : in_graph g2 k) by (unfold in_graph; congruence).
      apply (removed_in_graph g g2 R k H2), (removed_in_graph g g1 R k H1) in Hk.
      unfold in_graph in Hk. congruence. }
  assert (Hg : graph g1 = graph g2).
  { apply smap_ext; [apply Hs1 | apply Hs2 | exact Hlk]. }
  destruct g1 as [gr1 t1 r1], g2 as [gr2 t2 r2]. simpl in Hg. subst gr2. f_equal.
  - apply sset_ext; [apply Hs1 | apply Hs2 |]. intros k.
    pose proof (shape_tips _ Hs1 k) as A. pose proof (shape_tips _ Hs2 k) as B. simpl in A, B.
    apply bool_iff. rewrite A, B. reflexivity.
  - apply sset_ext; [apply Hs1 | apply Hs2 |]. intros k.
    pose proof (shape_roots _ Hs1 k) as A. pose proof (shape_roots _ Hs2 k) as B. simpl in A, B.
    apply bool_iff. rewrite A, B. reflexivity.
Qed.

End RemovedUnique.

(* ------------------------------------------------------------------ *)
(** * evaluate *)

Section Eval.
Context {P S : Type}.
Variable init : N -> entry P -> option S.
Variable apply : S -> N -> entry P -> list (N * entry P) -> bool * S.
Implicit Types (g : dag (entry P)) (log : plog).

Local Notation filt := (eval_filter apply).
Local Notation evaluate := (evaluate init apply).

(** the set of changes rejected in a run, with their transitive dependents *)
Definition rejected g log (x : N) : Prop := exists b, pbroke log b /\ reach g b x.

Lemma rejected_dclosed g log : dclosed g (rejected g log).
Proof. intros k d [b [Hb Hr]] He. exists b. split; [exact Hb | eapply reach_step_r; eassumption]. Qed.

Definition accepted_keys log : list N :=
  map (fun e => fst (fst e)) (filter (fun e : N * list N * flow => flow_eqb (snd e) Continue) log).
Definition all_continue log : Prop := forall e, In e log -> snd e = Continue.

(** what a successful evaluation is made of *)
Lemma evaluate_ok_inv oid g m a h log : evaluate oid g = EvOk m a h log ->
  exists root obj0, lookup oid (graph g) = Some root /\ e_sigok (nvalue root) = true /\
    init oid (nvalue root) = Some obj0 /\ m = e_manifest (nvalue root) /\
    dag_prune_by_log g (sset_elems (ndpts root)) obj0 filt chronological = Some (a, h, log) /\
    dag_contains h oid = true.
Proof.
  unfold ChangeGraph.evaluate, dag_get. destruct (lookup oid (graph g)) as [root|]; [|discriminate].
  destruct (e_sigok (nvalue root)) eqn:Es; [|discriminate].
  destruct (init oid (nvalue root)) as [obj0|] eqn:Ei; [|discriminate].
  destruct (dag_prune_by_log g (sset_elems (ndpts root)) obj0 filt chronological) as [[[a' h'] log']|] eqn:Ep;
    [|discriminate].
  simpl. destruct (dag_contains h' oid) eqn:Ec; [|discriminate].
  intros E. inversion E; subst. exists root, obj0. repeat split; auto.
Qed.

(** on a well-formed graph: no fuel exhaustion, and the root survives the
    pruning, so `History::new` cannot panic *)
Theorem evaluate_total oid g : dag_wf g ->
  evaluate oid g <> EvFuel /\ evaluate oid g <> EvHistoryPanic.
Proof.
  intros Hwf. unfold ChangeGraph.evaluate, dag_get.
  destruct (lookup oid (graph g)) as [root|] eqn:El; [|split; discriminate].
  destruct (e_sigok (nvalue root)); [|split; discriminate].
  destruct (init oid (nvalue root)) as [obj0|]; [|split; discriminate].
  destruct (prune_by_spec g (sset_elems (ndpts root)) obj0 filt chronological Hwf)
    as [o [a [h [log [Eo [Ep [Hnd [Hcl [Hin [Hsub [Hrun [Hiff [Hwf' Hrm]]]]]]]]]]]]].
  rewrite Ep. simpl.
  assert (Hroot : in_graph h oid).
  { apply (removed_in_graph g h _ oid Hrm). split; [unfold in_graph; congruence|].
    intros [b [Hb Hr]]. apply pbroke_keys in Hb. apply (subseq_incl _ _ _ Hsub), Hin in Hb.
    destruct Hb as [s [Hs Hrs]]. destruct Hwf as [Hsh Hac].
    apply (acyclic_desc_irrefl g oid Hac). apply desc_reach. exists s. split.
    - exists root. split; [exact El | apply sset_mem_elems; exact Hs].
    - eapply reach_trans; eassumption. }
  unfold in_graph in Hroot. unfold dag_contains, mem.
  destruct (lookup oid (graph h)); [split; discriminate | congruence].
Qed.

(* ---------- C06 ---------- *)

(** `apply` is atomic: when it fails it leaves the state as it was *)
Definition atomic : Prop := forall s k e sibs, fst (apply s k e sibs) = false -> snd (apply s k e sibs) = s.
(** `apply` does not look at the concurrent entries it is handed *)
Definition sibling_blind : Prop := forall s k e l l', apply s k e l = apply s k e l'.

Hypothesis Hatomic : atomic.
Hypothesis Hblind : sibling_blind.

Lemma filt_break acc k nd sibs : fst (filt acc k nd sibs) = Break -> snd (filt acc k nd sibs) = acc.
Proof.
  unfold eval_filter. destruct (e_sigok (nvalue nd)); [|reflexivity]. simpl.
  destruct (fst (apply acc k (nvalue nd) _)) eqn:E; [discriminate|]. intros _. apply Hatomic. exact E.
Qed.

Lemma filt_value acc k nd nd' sibs sibs' : nvalue nd = nvalue nd' ->
  filt acc k nd sibs = filt acc k nd' sibs'.
Proof.
  intros Hv. unfold eval_filter. rewrite Hv. destruct (e_sigok (nvalue nd')); [|reflexivity].
  rewrite (Hblind acc k (nvalue nd') _ (map (fun kn => (fst kn, nvalue (snd kn))) sibs')). reflexivity.
Qed.

Definition same_values (ga gb : dag (entry P)) : Prop :=
  forall k na nb, lookup k (graph ga) = Some na -> lookup k (graph gb) = Some nb -> nvalue na = nvalue nb.

Lemma removed_same_values (ga gb gc : dag (entry P)) R : removed ga gb R -> same_values ga gc -> same_values gb gc.
Proof.
  intros Hrm Hsv k nb nc Hb Hc.
  assert (Hk : in_graph gb k) by (unfold in_graph; congruence).
  apply (removed_in_graph ga gb R k Hrm) in Hk. destruct Hk as [Hk HR].
  apply in_graph_lookup in Hk. destruct Hk as [na Ha].
  destruct (rm_kept _ _ _ Hrm k na Ha HR) as [nb' [Hb' [Hv _]]].
  rewrite Hb in Hb'. inversion Hb'; subst nb'. rewrite Hv. eapply Hsv; eassumption.
Qed.

(** replaying the accepted entries on the final graph gives the same state
    and prunes nothing *)
Lemma replay_on_final gfin : forall gc acc log a,
  prune_run filt gc acc log a gfin -> dag_shape gc -> same_values gc gfin ->
  (forall k sib, In (k, sib, Continue) log -> in_graph gfin k) ->
  exists log', prune_loop filt (accepted_keys log) gfin acc = Some (a, gfin, log') /\ all_continue log' /\
    pkeys log' = accepted_keys log.
Proof.
  intros gc acc log a Hrun. induction Hrun as [gc acc|gc acc k nd sib g1 log a gfin El Esib Hstep Hrun IH];
    intros Hs Hsv Hin.
  - exists []. split; [reflexivity|]. split; [intros e []|reflexivity].
  - remember (filt acc k nd (present gc sib)) as r eqn:Er.
    destruct (fst r) eqn:Ef.
    + (* accepted *)
      subst g1. unfold accepted_keys. cbn [filter snd flow_eqb map fst]. fold (accepted_keys log).
      destruct (IH Hs Hsv) as [log' [E' [Hall Hk']]].
      { intros k0 s0 H0. eapply Hin. right. exact H0. }
      assert (Hkf : in_graph gfin k) by (eapply Hin; left; reflexivity).
      apply in_graph_lookup in Hkf. destruct Hkf as [nf Elf].
      destruct (siblings_total gfin k nf) as [sib' Esib'].
      cbn [prune_loop]. rewrite Elf, Esib'. cbn [obind].
      rewrite <- (filt_value acc k nd nf (present gc sib) (present gfin sib') (Hsv k nd nf El Elf)).
      rewrite <- Er, Ef. cbn [obind]. rewrite E'. simpl.
      eexists. split; [reflexivity|]. split.
      * intros e [<-|He]; [reflexivity | apply Hall; exact He].
      * simpl. rewrite Hk'. reflexivity.
    + (* rejected: state unchanged, graph shrinks *)
      assert (Hacc : snd r = acc) by (rewrite Er; apply filt_break; rewrite <- Er; exact Ef).
      rewrite Hacc in *. unfold accepted_keys. cbn [filter snd flow_eqb]. fold (accepted_keys log).
      destruct (remove_exact gc k Hs) as [g1' [E1 [Hs1 [Hrm1 _]]]]. rewrite Hstep in E1. inversion E1; subst g1'.
      apply IH; [exact Hs1 | eapply removed_same_values; eassumption |].
      intros k0 s0 H0. eapply Hin. right. exact H0.
Qed.

(** C06 (generic): re-evaluating the pruned history — the loaded graph without
    the rejected changes and their dependents — gives the same object, the same
    history, and rejects nothing. *)
Theorem prune_equiv oid g m a h log : dag_wf g ->
  evaluate oid g = EvOk m a h log ->
  dag_wf h /\ removed g h (rejected g log) /\
  exists log', evaluate oid h = EvOk m a h log' /\ all_continue log' /\ pkeys log' = accepted_keys log.
Proof.
  intros Hwf Hev.
  destruct (evaluate_ok_inv oid g m a h log Hev) as [root [obj0 [El [Hsig [Hinit [Hm [Hp Hc]]]]]]].
  destruct (prune_by_spec g (sset_elems (ndpts root)) obj0 filt chronological Hwf)
    as [o [a' [h' [log0 [Eo [Ep [Hnd [Hcl [Hin [Hsub [Hrun [Hiff [Hwf' Hrm]]]]]]]]]]]]].
  rewrite Hp in Ep. inversion Ep; subst a' h' log0. clear Ep.
  fold (rejected g log) in Hrm. split; [exact Hwf'|]. split; [exact Hrm|].
  destruct Hwf as [Hs Hac]. destruct Hwf' as [Hs' Hac'].
  pose proof (rejected_dclosed g log) as Hdc.
  set (kp := keep h).
  assert (Hkp : forall x, kp x = true <-> (in_graph g x /\ ~ rejected g log x))
    by (intros x; apply (keep_in g h _ Hrm)).
  (* the root of the pruned graph *)
  assert (Hroot' : in_graph h oid).
  { unfold in_graph. unfold dag_contains, mem in Hc. destruct (lookup oid (graph h)); [congruence | discriminate]. }
  apply in_graph_lookup in Hroot'. destruct Hroot' as [root' El'].
  destruct (dpts_filter g h _ Hs Hs' Hrm oid root root' El El') as [Hv [_ Hdp]].
  (* entries of the log: accepted <-> kept *)
  assert (Hndk : NoDup (pkeys log)) by (eapply subseq_NoDup; eassumption).
  assert (Hent : forall e, In e log -> kp (fst (fst e)) = flow_eqb (snd e) Continue).
  { intros [[k sib] fl] He. simpl.
    assert (Hko : In k o). { eapply subseq_incl; [exact Hsub|]. unfold pkeys. apply in_map_iff. exists (k, sib, fl). auto. }
    assert (Hkl : In k (pkeys log)). { unfold pkeys. apply in_map_iff. exists (k, sib, fl). auto. }
    destruct fl; simpl.
    - apply Hkp. apply (Hiff k Hko) in Hkl. destruct Hkl as [Hg Hno]. split; [exact Hg|].
      intros [b [Hb Hr]]. apply reach_desc in Hr. destruct Hr as [->|Hd]; [|apply Hno; eauto].
      destruct Hb as [sib' Hb].
      pose proof (NoDup_map_inj (fun e : N * list N * flow => fst (fst e)) log _ _ Hndk He Hb eq_refl) as Heq.
      inversion Heq.
    - destruct (kp k) eqn:Ek; [|reflexivity]. exfalso. apply Hkp in Ek. apply (proj2 Ek).
      exists k. split; [exists sib; exact He | constructor]. }
  assert (Hord : filter kp o = accepted_keys log).
  { rewrite (filter_subseq_eq kp (pkeys log) o Hsub Hnd).
    - unfold accepted_keys, pkeys. clear -Hent. induction log as [|e l IH]; [reflexivity|]. simpl.
      rewrite (Hent e (or_introl eq_refl)). destruct (flow_eqb (snd e) Continue); simpl; f_equal;
        apply IH; intros e0 H0; apply Hent; right; exact H0.
    - intros x Hx Hpx. apply Hkp in Hpx. destruct Hpx as [Hg Hno]. apply (Hiff x Hx). split; [exact Hg|].
      intros [b [Hb Hd]]. apply Hno. exists b. split; [exact Hb|]. apply reach_desc. right. exact Hd. }
  (* the traversal order of the pruned graph *)
  assert (Ho' : prune_order chronological h (sset_elems (ndpts root')) = Some (accepted_keys log)).
  { rewrite Hdp, <- Hord. apply (prune_order_removed g h _ chronological chronological_total Hs Hs' Hrm Hdc).
    - intros s Hs0. apply (edge_target g oid s Hs). exists root. split; [exact El | apply sset_mem_elems; exact Hs0].
    - exact Eo. }
  (* the loop *)
  destruct (replay_on_final h g obj0 log a Hrun Hs) as [log' [Eloop [Hall Hkeys]]].
  { intros k na nb Ha Hb.
    assert (Hk : in_graph h k) by (unfold in_graph; congruence).
    apply (removed_in_graph g h _ k Hrm) in Hk. destruct Hk as [_ HR].
    destruct (rm_kept _ _ _ Hrm k na Ha HR) as [nb' [Hb' [Hvk _]]]. rewrite Hb in Hb'. inversion Hb'; subst. symmetry. exact Hvk. }
  { intros k sib He. apply (keep_spec h). pose proof (Hent _ He) as H0. simpl in H0. exact H0. }
  exists log'. split; [|split; assumption].
  unfold ChangeGraph.evaluate, dag_get. rewrite El', Hv, Hsig, Hinit.
  unfold dag_prune_by_log. rewrite Ho'. cbn [obind]. rewrite Eloop. simpl. rewrite Hc, Hm. reflexivity.
Qed.

(** the final state is the sequential application of the accepted entries
    alone: a rejected change contributes nothing *)
Definition accepted_entries g log : list (N * entry P) :=
  flat_map (fun e : N * list N * flow =>
              match snd e, lookup (fst (fst e)) (graph g) with
              | Continue, Some nd => [(fst (fst e), nvalue nd)]
              | _, _ => []
              end) log.
Fixpoint apply_seq (s : S) (l : list (N * entry P)) : S :=
  match l with
  | [] => s
  | ke :: l' => apply_seq (snd (apply s (fst ke) (snd ke) [])) l'
  end.

Definition sub_values (ga gb : dag (entry P)) : Prop :=
  forall k na, lookup k (graph ga) = Some na -> exists nb, lookup k (graph gb) = Some nb /\ nvalue nb = nvalue na.

Lemma run_state g0 : forall gc acc log a gfin,
  prune_run filt gc acc log a gfin -> dag_shape gc -> sub_values gc g0 ->
  a = apply_seq acc (accepted_entries g0 log).
Proof.
  intros gc acc log a gfin Hrun. induction Hrun as [gc acc|gc acc k nd sib g1 log a gfin El Esib Hstep Hrun IH];
    intros Hs Hsv; [reflexivity|].
  remember (filt acc k nd (present gc sib)) as r eqn:Er.
  unfold accepted_entries. cbn [flat_map fst snd]. fold (accepted_entries g0 log).
  destruct (fst r) eqn:Ef.
  - subst g1. destruct (Hsv k nd El) as [n0 [El0 Hv0]]. rewrite El0. cbn [app apply_seq fst snd].
    rewrite (IH Hs Hsv). f_equal. rewrite Er. unfold eval_filter. rewrite Hv0.
    unfold eval_filter in Er. destruct (e_sigok (nvalue nd)).
    + simpl. f_equal. apply Hblind.
    + rewrite Er in Ef. discriminate.
  - assert (Hacc : snd r = acc) by (rewrite Er; apply filt_break; rewrite <- Er; exact Ef).
    rewrite Hacc in *. simpl.
    destruct (remove_exact gc k Hs) as [g1' [E1 [Hs1 [Hrm1 _]]]]. rewrite Hstep in E1. inversion E1; subst g1'.
    apply IH; [exact Hs1|]. intros k0 n1 H1.
    assert (Hk : in_graph g1 k0) by (unfold in_graph; congruence).
    apply (removed_in_graph gc g1 _ k0 Hrm1) in Hk. destruct Hk as [Hk HR].
    apply in_graph_lookup in Hk. destruct Hk as [nc Hc].
    destruct (rm_kept _ _ _ Hrm1 k0 nc Hc HR) as [n1' [H1' [Hv _]]]. rewrite H1 in H1'. inversion H1'; subst n1'.
    destruct (Hsv k0 nc Hc) as [n0 [H0 Hv0]]. exists n0. split; [exact H0 | congruence].
Qed.

Theorem evaluate_state_is_fold oid g m a h log : dag_wf g ->
  evaluate oid g = EvOk m a h log ->
  exists root obj0, lookup oid (graph g) = Some root /\ init oid (nvalue root) = Some obj0 /\
    a = apply_seq obj0 (accepted_entries g log).
Proof.
  intros Hwf Hev.
  destruct (evaluate_ok_inv oid g m a h log Hev) as [root [obj0 [El [Hsig [Hinit [Hm [Hp Hc]]]]]]].
  destruct (prune_by_spec g (sset_elems (ndpts root)) obj0 filt chronological Hwf)
    as [o [a' [h' [log0 [Eo [Ep [Hnd [Hcl [Hin [Hsub [Hrun _]]]]]]]]]]].
  rewrite Hp in Ep. inversion Ep; subst a' h' log0.
  exists root, obj0. split; [exact El|]. split; [exact Hinit|].
  apply (run_state g g obj0 log a h Hrun (wf_shape g Hwf)).
  intros k na H. exists na. auto.
Qed.

(** … for ANY well-formed graph that is the loaded graph without the rejected
    changes and their dependents *)
Corollary prune_equiv_any oid g m a h log g' : dag_wf g ->
  evaluate oid g = EvOk m a h log ->
  dag_shape g' -> removed g g' (rejected g log) ->
  g' = h /\ exists log', evaluate oid g' = EvOk m a h log' /\ all_continue log'.
Proof.
  intros Hwf Hev Hs' Hrm'. destruct (prune_equiv oid g m a h log Hwf Hev) as [Hwfh [Hrm [log' [E [Hall _]]]]].
  assert (g' = h) as -> by (eapply removed_unique; [exact Hrm' | exact Hrm | exact Hs' | apply Hwfh]).
  split; [reflexivity|]. exists log'. auto.
Qed.

End Eval.

(* ------------------------------------------------------------------ *)
(** * statements about `get` used by props/C05.v, C06.v *)

Lemma load_is_closure_graph {P} (st : cstore P) tips :
  load st tips <> LoadFuel /\
  exists ns edges g, load_graph st tips = Some g /\ canon ns edges g /\ NoDup (map fst ns) /\
    (forall k e, In (k, e) ns <-> (closure st tips k /\ lookup k st = Some e)) /\
    (forall c p, In (c, p) edges <-> (closure st tips c /\ parent_of st c p)) /\
    load st tips = match dag_roots g with [] => LoadNone | _ :: _ => Loaded g end.
Proof.
  split; [apply load_never_out_of_fuel|].
  destruct (load_canon st tips) as [ns [es [g [E [Hc [Hnd [Hn He]]]]]]].
  exists ns, es, g. rewrite load_unfold, E.
  split; [reflexivity|]. split; [exact Hc|]. split; [exact Hnd|]. split; [exact Hn|]. split; [exact He | reflexivity].
Qed.

Lemma get_function_of_changes {P S} (init : N -> entry P -> option S)
  (apply : S -> N -> entry P -> list (N * entry P) -> bool * S) (st1 st2 : cstore P) tips1 tips2 oid :
  (forall k, lookup k st1 = lookup k st2) ->
  (forall x, closure st1 tips1 x <-> closure st2 tips2 x) ->
  get init apply st1 tips1 oid = get init apply st2 tips2 oid.
Proof. intros Hl Hc. unfold get. rewrite (load_ext st1 st2 tips1 tips2 Hl Hc). reflexivity. Qed.

Lemma get_total {P S} (init : N -> entry P -> option S)
  (apply : S -> N -> entry P -> list (N * entry P) -> bool * S) (r : N -> N) (st : cstore P) tips oid :
  store_ranked r st ->
  get init apply st tips oid <> GFuel /\
  get init apply st tips oid <> GEval EvFuel /\
  get init apply st tips oid <> GEval EvHistoryPanic /\
  (forall g, load st tips = Loaded g -> dag_wf g).
Proof.
  intros Hr.
  assert (Hwf : forall g, load st tips = Loaded g -> dag_wf g) by (intros g; apply (load_wf r); exact Hr).
  unfold get. destruct (load st tips) as [| |g] eqn:E.
  - exfalso. exact (load_never_out_of_fuel st tips E).
  - split; [discriminate|]. split; [discriminate|]. split; [discriminate | exact Hwf].
  - destruct (evaluate_total init apply oid g (Hwf g eq_refl)) as [H1 H2].
    split; [discriminate|]. split; [intros H; inversion H; congruence|].
    split; [intros H; inversion H; congruence | exact Hwf].
Qed.
