(* DagRemove.v — `Dag::remove`: the fuel [S (size g)] suffices, exactly the
   node and its transitive dependents disappear, the remaining nodes keep
   their value and dependencies and lose exactly the removed dependents, and
   the shape (edge symmetry, tips, roots) and acyclicity are preserved. *)
From HW Require Import lib.Base lib.SMap model.Dag proofs.DagBase proofs.DagOps.
From Coq Require Import Sorted Relations.

Lemma sset_remove_absent k (s : sset) : sorted s -> sset_mem k s = false -> sset_remove k s = s.
Proof.
  intros Hs Hm. apply sset_ext; [apply sorted_sset_remove; exact Hs | exact Hs|].
  intros x. rewrite sset_mem_remove by exact Hs. destruct (N.eqb_spec x k) as [->|]; simpl; congruence.
Qed.

Lemma lookup_remove_graph {V} k (m : smap V) k0 : sorted m ->
  lookup k0 (SMap.remove k m) = if N.eqb k0 k then None else lookup k0 m.
Proof. apply lookup_remove. Qed.

Section Remove.
Context {V : Type}.
Implicit Types (g : dag V) (nd : node V).

Lemma node_eta nd : mkNode (nvalue nd) (ndeps nd) (ndpts nd) = nd.
Proof. destruct nd; reflexivity. Qed.

(* ------------------------------------------------------------------ *)
(** * "g' is g with exactly the nodes R removed" *)

Definition strip (R : N -> Prop) nd nd' : Prop :=
  nvalue nd' = nvalue nd /\ ndeps nd' = ndeps nd /\
  forall d, sset_mem d (ndpts nd') = true <-> (sset_mem d (ndpts nd) = true /\ ~ R d).

Record removed g g' (R : N -> Prop) : Prop := {
  rm_sub : forall k, R k -> in_graph g k;
  rm_dec : forall k, in_graph g k -> R k \/ ~ R k;
  rm_gone : forall k, R k -> lookup k (graph g') = None;
  rm_kept : forall k nd, lookup k (graph g) = Some nd -> ~ R k ->
            exists nd', lookup k (graph g') = Some nd' /\ strip R nd nd';
  rm_none : forall k, lookup k (graph g) = None -> lookup k (graph g') = None;
}.

Lemma removed_refl g : removed g g (fun _ => False).
Proof.
  constructor; try tauto.
  intros k nd H _. exists nd. split; [exact H|]. split; [reflexivity|]. split; [reflexivity|].
  intros d. tauto.
Qed.

Lemma removed_ext g g' (R R' : N -> Prop) :
  (forall k, R k <-> R' k) -> removed g g' R -> removed g g' R'.
Proof.
  intros He [H1 H2 H3 H4 H5]. constructor.
  - intros k Hk. apply H1, He, Hk.
  - intros k Hk. destruct (H2 k Hk) as [H|H]; [left | right]; rewrite <- He; exact H.
  - intros k Hk. apply H3, He, Hk.
  - intros k nd Hl Hk. destruct (H4 k nd Hl) as [nd' [Hl' [Hv [Hd Hp]]]]; [rewrite He; exact Hk|].
    exists nd'. split; [exact Hl'|]. split; [exact Hv|]. split; [exact Hd|].
    intros d. specialize (Hp d). specialize (He d). tauto.
  - exact H5.
Qed.

Lemma removed_in_graph g g' R k : removed g g' R -> in_graph g' k <-> (in_graph g k /\ ~ R k).
Proof.
  intros Hrm. unfold in_graph. split.
  - intros H. split.
    + intros Hn. apply H. apply (rm_none _ _ _ Hrm). exact Hn.
    + intros Hk. apply H. apply (rm_gone _ _ _ Hrm). exact Hk.
  - intros [H Hk]. destruct (lookup k (graph g)) as [nd|] eqn:E; [|congruence].
    destruct (rm_kept _ _ _ Hrm k nd E Hk) as [nd' [E' _]]. congruence.
Qed.

Lemma removed_edge g g' R k d : removed g g' R ->
  edge g' k d <-> (edge g k d /\ ~ R k /\ ~ R d).
Proof.
  intros Hrm. split.
  - intros [nd' [E' Hm]].
    assert (Hk : ~ R k) by (intros Hk; rewrite (rm_gone _ _ _ Hrm k Hk) in E'; discriminate).
    destruct (lookup k (graph g)) as [nd|] eqn:E;
      [|rewrite (rm_none _ _ _ Hrm k E) in E'; discriminate].
    destruct (rm_kept _ _ _ Hrm k nd E Hk) as [nd'' [E'' [_ [_ Hp]]]].
    rewrite E' in E''. inversion E''; subst nd''. apply Hp in Hm.
    split; [exists nd; tauto | tauto].
  - intros [[nd [E Hm]] [Hk Hd]].
    destruct (rm_kept _ _ _ Hrm k nd E Hk) as [nd' [E' [_ [_ Hp]]]].
    exists nd'. split; [exact E' | apply Hp; tauto].
Qed.

Lemma removed_depends g g' R a b : removed g g' R ->
  depends g' a b <-> (depends g a b /\ ~ R a).
Proof.
  intros Hrm. split.
  - intros [nd' [E' Hm]].
    assert (Hk : ~ R a) by (intros Hk; rewrite (rm_gone _ _ _ Hrm a Hk) in E'; discriminate).
    destruct (lookup a (graph g)) as [nd|] eqn:E;
      [|rewrite (rm_none _ _ _ Hrm a E) in E'; discriminate].
    destruct (rm_kept _ _ _ Hrm a nd E Hk) as [nd'' [E'' [_ [Hd _]]]].
    rewrite E' in E''. inversion E''; subst nd''. rewrite Hd in Hm.
    split; [exists nd; tauto | exact Hk].
  - intros [[nd [E Hm]] Hk].
    destruct (rm_kept _ _ _ Hrm a nd E Hk) as [nd' [E' [_ [Hd _]]]].
    exists nd'. split; [exact E' | rewrite Hd; exact Hm].
Qed.

Lemma removed_reach_sub g g' R k x : removed g g' R -> reach g' k x -> reach g k x.
Proof.
  intros Hrm H. induction H as [|k d x He _ IH]; [constructor|].
  apply (removed_edge g g' R k d Hrm) in He. econstructor; [apply He | exact IH].
Qed.

Definition dclosed g (R : N -> Prop) : Prop := forall k d, R k -> edge g k d -> R d.

Lemma dclosed_reach g R k x : dclosed g R -> R k -> reach g k x -> R x.
Proof. intros Hc Hk H. induction H as [|k d x He _ IH]; [exact Hk|]. apply IH. eapply Hc; eassumption. Qed.

Lemma removed_reach g g' R k x : removed g g' R -> dclosed g R -> ~ R k ->
  reach g' k x <-> (reach g k x /\ ~ R x).
Proof.
  intros Hrm Hc Hk. split.
  - intros H. split; [eapply removed_reach_sub; eassumption|].
    induction H as [|k d x He _ IH]; [exact Hk|].
    apply IH. apply (removed_edge g g' R k d Hrm) in He. tauto.
  - intros [H Hx]. induction H as [|k d x He Hr IH]; [constructor|].
    assert (Hd : ~ R d) by (intros Hd; apply Hx; eapply dclosed_reach; eassumption).
    econstructor; [apply (removed_edge g g' R k d Hrm); tauto | apply IH; assumption].
Qed.

Lemma removed_trans g g1 g2 R1 R2 : removed g g1 R1 -> removed g1 g2 R2 ->
  removed g g2 (fun k => R1 k \/ R2 k).
Proof.
  intros H1 H2. constructor.
  - intros k [Hk|Hk]; [apply (rm_sub _ _ _ H1); exact Hk|].
    apply (rm_sub _ _ _ H2) in Hk. apply (removed_in_graph g g1 R1 k H1) in Hk. tauto.
  - intros k Hk. destruct (rm_dec _ _ _ H1 k Hk) as [Hr|Hr]; [tauto|].
    assert (Hk1 : in_graph g1 k) by (apply (removed_in_graph g g1 R1 k H1); tauto).
    destruct (rm_dec _ _ _ H2 k Hk1) as [Hr2|Hr2]; tauto.
  - intros k [Hk|Hk].
    + apply (rm_none _ _ _ H2). apply (rm_gone _ _ _ H1). exact Hk.
    + apply (rm_gone _ _ _ H2). exact Hk.
  - intros k nd E Hk.
    destruct (rm_kept _ _ _ H1 k nd E) as [n1 [E1 [Hv1 [Hd1 Hp1]]]]; [tauto|].
    destruct (rm_kept _ _ _ H2 k n1 E1) as [n2 [E2 [Hv2 [Hd2 Hp2]]]]; [tauto|].
    exists n2. split; [exact E2|]. split; [congruence|]. split; [congruence|].
    intros d. specialize (Hp1 d). specialize (Hp2 d). tauto.
  - intros k E. apply (rm_none _ _ _ H2). apply (rm_none _ _ _ H1). exact E.
Qed.

Lemma removed_ranked r g g' R : removed g g' R -> dag_ranked r g -> dag_ranked r g'.
Proof. intros Hrm Hr k d He. apply (removed_edge g g' R k d Hrm) in He. apply Hr. tauto. Qed.

(* ------------------------------------------------------------------ *)
(** * The non-recursive part of `remove` *)

Definition strip1 (key : N) nd : node V :=
  mkNode (nvalue nd) (ndeps nd) (sset_remove key (ndpts nd)).

Lemma unlink_lookup key g k k0 : dag_repr g ->
  lookup k0 (graph (unlink_dep key g k)) =
  if N.eqb k0 k then option_map (strip1 key) (lookup k (graph g)) else lookup k0 (graph g).
Proof.
  intros Hr. unfold unlink_dep. destruct (lookup k (graph g)) as [dep|] eqn:E; cbn [graph].
  - rewrite lookup_insert by apply Hr. destruct (N.eqb k0 k); reflexivity.
  - destruct (N.eqb_spec k0 k) as [->|]; [rewrite E|]; reflexivity.
Qed.

Lemma unlink_repr key g k : dag_repr g -> dag_repr (unlink_dep key g k).
Proof.
  intros Hr. unfold unlink_dep. destruct (lookup k (graph g)) as [dep|] eqn:E; [|exact Hr].
  destruct (repr_nodes g Hr k dep E) as [H1 H2]. constructor; cbn [graph tips roots].
  - apply sorted_insert, Hr.
  - destruct (sset_is_empty _); [apply sorted_sset_add|]; apply Hr.
  - apply Hr.
  - intros k0 nd H. rewrite lookup_insert in H by apply Hr. destruct (N.eqb k0 k).
    + inversion H; subst nd. simpl. split; [exact H1 | apply sorted_sset_remove; exact H2].
    + eapply repr_nodes; eassumption.
Qed.

Lemma unlink_size key g k : dag_repr g -> dag_size (unlink_dep key g k) = dag_size g.
Proof.
  intros Hr. unfold unlink_dep, dag_size. destruct (lookup k (graph g)) as [dep|] eqn:E; [|reflexivity].
  cbn [graph]. eapply length_insert_present; [apply Hr | exact E].
Qed.

Lemma unlink_roots key g k : roots (unlink_dep key g k) = roots g.
Proof. unfold unlink_dep. destruct (lookup k (graph g)); reflexivity. Qed.

Lemma unlink_tips key g k k0 : dag_repr g ->
  sset_mem k0 (tips (unlink_dep key g k)) = true <->
  (sset_mem k0 (tips g) = true \/
   (k0 = k /\ exists n, lookup k (graph g) = Some n /\ sset_remove key (ndpts n) = [])).
Proof.
  intros Hr. unfold unlink_dep. destruct (lookup k (graph g)) as [dep|] eqn:E; cbn [tips].
  - destruct (sset_is_empty (sset_remove key (ndpts dep))) eqn:Ee.
    + apply sset_is_empty_spec in Ee. rewrite sset_mem_add by apply Hr.
      rewrite orb_true_iff, N.eqb_eq. split; [intros [->|H]; eauto|].
      intros [H|[-> _]]; auto.
    + split; [auto|]. intros [H|[-> [n [Hn He]]]]; [exact H|].
      inversion Hn; subst n. apply sset_is_empty_spec in He. congruence.
  - split; [auto|]. intros [H|[_ [n [Hn _]]]]; [exact H | discriminate].
Qed.

Lemma unlink_fold_repr key l : forall g, dag_repr g -> dag_repr (fold_left (unlink_dep key) l g).
Proof. induction l as [|x l IH]; simpl; intros g Hr; [exact Hr|]. apply IH, unlink_repr, Hr. Qed.

Lemma unlink_fold_size key l : forall g, dag_repr g ->
  dag_size (fold_left (unlink_dep key) l g) = dag_size g.
Proof.
  induction l as [|x l IH]; simpl; intros g Hr; [reflexivity|].
  rewrite IH by (apply unlink_repr; exact Hr). apply unlink_size, Hr.
Qed.

Lemma unlink_fold_roots key l : forall g, roots (fold_left (unlink_dep key) l g) = roots g.
Proof. induction l as [|x l IH]; simpl; intros g; [reflexivity|]. rewrite IH. apply unlink_roots. Qed.

Lemma unlink_fold_lookup key l k0 : NoDup l -> forall g, dag_repr g ->
  lookup k0 (graph (fold_left (unlink_dep key) l g)) =
  if memN k0 l then option_map (strip1 key) (lookup k0 (graph g)) else lookup k0 (graph g).
Proof.
  induction 1 as [|x l Hx Hnd IH]; intros g Hr; [reflexivity|].
  cbn [fold_left]. rewrite IH by (apply unlink_repr; exact Hr).
  rewrite unlink_lookup by exact Hr. unfold memN at 2. cbn [existsb]. fold (memN k0 l).
  destruct (N.eqb_spec k0 x) as [->|Hne]; simpl.
  - destruct (memN x l) eqn:Em; [apply memN_In in Em; contradiction | reflexivity].
  - reflexivity.
Qed.

Lemma unlink_fold_tips key l k0 : NoDup l -> forall g, dag_repr g ->
  sset_mem k0 (tips (fold_left (unlink_dep key) l g)) = true <->
  (sset_mem k0 (tips g) = true \/
   (In k0 l /\ exists n, lookup k0 (graph g) = Some n /\ sset_remove key (ndpts n) = [])).
Proof.
  induction 1 as [|x l Hx Hnd IH]; intros g Hr; [simpl; tauto|].
  cbn [fold_left]. rewrite IH by (apply unlink_repr; exact Hr).
  rewrite unlink_tips by exact Hr. rewrite unlink_lookup by exact Hr. simpl In.
  split.
  - intros [[H|[-> H]]|[Hin [n [Hn He]]]]; auto.
    destruct (N.eqb_spec k0 x) as [->|Hne]; [contradiction|]. right. split; [auto|]. eauto.
  - intros [H|[[<-|Hin] [n [Hn He]]]]; auto.
    + left. right. split; [reflexivity|]. eauto.
    + right. split; [exact Hin|]. destruct (N.eqb_spec k0 x) as [->|Hne]; [contradiction|]. eauto.
Qed.

Definition cut g (key : N) : dag V :=
  mkDag (SMap.remove key (graph g)) (sset_remove key (tips g)) (sset_remove key (roots g)).

Lemma cut_repr g key : dag_repr g -> dag_repr (cut g key).
Proof.
  intros Hr. constructor; simpl.
  - apply sorted_remove, Hr.
  - apply sorted_sset_remove, Hr.
  - apply sorted_sset_remove, Hr.
  - intros k n H. rewrite lookup_remove in H by apply Hr. destruct (N.eqb k key); [discriminate|].
    eapply repr_nodes; eassumption.
Qed.

Lemma remove_node_repr g key nd : dag_repr g -> dag_repr (remove_node key nd g).
Proof. intros Hr. apply unlink_fold_repr, (cut_repr g key Hr). Qed.

Lemma remove_node_size g key nd : dag_repr g -> lookup key (graph g) = Some nd ->
  S (dag_size (remove_node key nd g)) = dag_size g.
Proof.
  intros Hr Hl. unfold remove_node. fold (cut g key). rewrite unlink_fold_size by apply cut_repr, Hr.
  unfold dag_size, cut. cbn [graph]. eapply length_remove_present. exact Hl.
Qed.

Section Node.
Variables (g : dag V) (key : N) (nd : node V).
Hypothesis Hs : dag_shape g.
Hypothesis Hl : lookup key (graph g) = Some nd.

Let Hr : dag_repr g := shape_repr g Hs.
Let g0 : dag V := cut g key.

Lemma g0_repr : dag_repr g0.
Proof. apply cut_repr, Hr. Qed.

Lemma remove_node_lookup k0 :
  lookup k0 (graph (remove_node key nd g)) =
  if N.eqb k0 key then None else option_map (strip1 key) (lookup k0 (graph g)).
Proof.
  unfold remove_node. fold g0.
  rewrite unlink_fold_lookup; [|apply sset_elems_NoDup; eapply repr_nodes; eassumption | apply g0_repr].
  try unfold g0; try unfold cut. cbn [graph]. rewrite lookup_remove by apply Hr.
  destruct (N.eqb_spec k0 key) as [->|Hne]; [destruct (memN key _); reflexivity|].
  destruct (memN k0 (sset_elems (ndeps nd))) eqn:Em; [reflexivity|].
  destruct (lookup k0 (graph g)) as [n|] eqn:E; [|reflexivity]. simpl. f_equal.
  unfold strip1. rewrite sset_remove_absent; [symmetry; apply node_eta | eapply repr_nodes; eassumption |].
  destruct (sset_mem key (ndpts n)) eqn:Ek; [|reflexivity]. exfalso.
  assert (He : edge g k0 key) by (exists n; auto).
  apply (shape_dpts g Hs) in He. destruct He as [_ [n' [Hn' Hm]]]. rewrite Hl in Hn'. inversion Hn'; subst n'.
  apply sset_mem_elems, memN_In in Hm. congruence.
Qed.

Lemma remove_node_removed : removed g (remove_node key nd g) (eq key).
Proof.
  constructor.
  - intros k <-. unfold in_graph. congruence.
  - intros k _. destruct (N.eq_dec key k); auto.
  - intros k <-. rewrite remove_node_lookup, N.eqb_refl. reflexivity.
  - intros k n E Hk. rewrite remove_node_lookup. destruct (N.eqb_spec k key); [congruence|].
    rewrite E. simpl. eexists. split; [reflexivity|]. unfold strip, strip1. simpl.
    split; [reflexivity|]. split; [reflexivity|]. intros d.
    rewrite sset_mem_remove by (eapply repr_nodes; eassumption).
    destruct (N.eqb_spec d key) as [->|Hd]; simpl.
    + split; [discriminate | intros [_ H]; exfalso; apply H; reflexivity].
    + split; [intros H; split; [exact H | congruence] | tauto].
  - intros k E. rewrite remove_node_lookup. rewrite E. destruct (N.eqb k key); reflexivity.
Qed.

Lemma remove_node_shape : dag_shape (remove_node key nd g).
Proof.
  pose proof remove_node_removed as Hrm.
  constructor.
  - apply remove_node_repr, Hr.
  - intros k d. rewrite (removed_edge _ _ _ k d Hrm), (removed_in_graph _ _ _ k Hrm),
      (removed_depends _ _ _ d k Hrm). rewrite (shape_dpts g Hs k d). tauto.
  - intros k. unfold remove_node. fold g0.
    rewrite unlink_fold_tips; [|apply sset_elems_NoDup; eapply repr_nodes; eassumption | apply g0_repr].
    fold (remove_node key nd g). rewrite remove_node_lookup.
    try unfold g0; try unfold cut. cbn [tips graph]. rewrite sset_mem_remove by apply Hr.
    rewrite lookup_remove by apply Hr.
    destruct (N.eqb_spec k key) as [->|Hne]; simpl.
    + split; [intros [H|[_ [n [H _]]]]; discriminate | intros [n [H _]]; discriminate].
    + rewrite (shape_tips g Hs k). split.
      * intros [[n [E Hd]]|[Hin [n [E He]]]]; rewrite E; simpl; eexists; (split; [reflexivity|]);
          unfold strip1; simpl; [rewrite Hd; reflexivity | exact He].
      * intros [n' [E' Hd]]. destruct (lookup k (graph g)) as [n|] eqn:E; [|discriminate].
        simpl in E'. inversion E'; subst n'. unfold strip1 in Hd. simpl in Hd.
        destruct (sset_mem key (ndpts n)) eqn:Ek.
        -- right. split; [|eauto].
           assert (He : edge g k key) by (exists n; auto).
           apply (shape_dpts g Hs) in He. destruct He as [_ [n' [Hn' Hm]]].
           rewrite Hl in Hn'. inversion Hn'; subst n'. apply sset_mem_elems. exact Hm.
        -- left. exists n. split; [reflexivity|].
           rewrite sset_remove_absent in Hd; [exact Hd | eapply repr_nodes; eassumption | exact Ek].
  - intros k. unfold remove_node at 1. fold g0. rewrite unlink_fold_roots. try unfold g0; try unfold cut. cbn [roots].
    rewrite sset_mem_remove by apply Hr. rewrite remove_node_lookup.
    destruct (N.eqb_spec k key) as [->|Hne]; simpl.
    + split; [discriminate | intros [n [H _]]; discriminate].
    + rewrite (shape_roots g Hs k). destruct (lookup k (graph g)) as [n|]; simpl.
      * split; intros [n' [E Hd]]; inversion E; subst n'; eexists; (split; [reflexivity | exact Hd]).
      * split; intros [n' [E _]]; discriminate.
Qed.

End Node.

(* ------------------------------------------------------------------ *)
(** * The recursion *)

(** the set `remove(key)` deletes: key and everything reachable along dependents *)
Definition removal g (key : N) : N -> Prop := fun x => in_graph g key /\ reach g key x.

Lemma removal_dclosed g key : dclosed g (removal g key).
Proof. intros k d [Hk Hr] He. split; [exact Hk | eapply reach_step_r; eassumption]. Qed.

Lemma remove_unfold f g key :
  dag_remove_fuel (S f) g key =
  match lookup key (graph g) with
  | None => Some g
  | Some nd => fold_left (fun og k => obind og (fun g' => dag_remove_fuel f g' k))
                 (sset_elems (ndpts nd)) (Some (remove_node key nd g))
  end.
Proof. reflexivity. Qed.

(** the fuel suffices on every graph the API can build (cyclic, asymmetric, …):
    each level of the recursion has first taken a node out of the graph *)
Lemma remove_total : forall f g key, dag_repr g -> (dag_size g < f)%nat ->
  exists g', dag_remove_fuel f g key = Some g' /\ dag_repr g' /\ (dag_size g' <= dag_size g)%nat.
Proof.
  induction f as [|f IH]; intros g key Hr Hsz; [lia|].
  rewrite remove_unfold. destruct (lookup key (graph g)) as [nd|] eqn:El; [|exists g; auto].
  pose proof (remove_node_repr g key nd Hr) as Hr2.
  pose proof (remove_node_size g key nd Hr El) as Hsz2.
  set (g2 := remove_node key nd g) in *.
  assert (Hfold : forall ds gc, dag_repr gc -> (dag_size gc < f)%nat ->
    exists g', fold_left (fun og k => obind og (fun g' => dag_remove_fuel f g' k)) ds (Some gc) = Some g' /\
               dag_repr g' /\ (dag_size g' <= dag_size gc)%nat).
  { induction ds as [|d ds IHds]; intros gc Hrc Hszc; [exists gc; auto|].
    cbn [fold_left obind]. destruct (IH gc d Hrc Hszc) as [g1 [E1 [Hr1 Hsz1]]]. rewrite E1.
    destruct (IHds g1 Hr1 ltac:(lia)) as [g' [E' [Hr' Hsz']]]. exists g'. split; [exact E'|]. split; [exact Hr'|]. lia. }
  destruct (Hfold (sset_elems (ndpts nd)) g2 Hr2 ltac:(lia)) as [g' [E' [Hr' Hsz']]].
  exists g'. split; [exact E'|]. split; [exact Hr'|]. lia.
Qed.

Lemma remove_fuel_suffices g key : dag_repr g -> exists g', dag_remove g key = Some g' /\ dag_repr g'.
Proof.
  intros Hr. destruct (remove_total (S (dag_size g)) g key Hr ltac:(lia)) as [g' [E [Hr' _]]]. eauto.
Qed.

Definition remove_ok f : Prop :=
  forall g key, dag_shape g -> (dag_size g < f)%nat ->
  exists g', dag_remove_fuel f g key = Some g' /\ dag_shape g' /\
    removed g g' (removal g key) /\ (dag_size g' <= dag_size g)%nat.

Lemma remove_fold f (IH : remove_ok f) g0 : dag_shape g0 ->
  forall ds gc (Rc : N -> Prop), dag_shape gc -> (dag_size gc < f)%nat ->
  removed g0 gc Rc -> dclosed g0 Rc ->
  exists g', fold_left (fun og k => obind og (fun g' => dag_remove_fuel f g' k)) ds (Some gc) = Some g' /\
    dag_shape g' /\ (dag_size g' <= dag_size gc)%nat /\
    removed g0 g' (fun x => Rc x \/ exists d, In d ds /\ removal g0 d x).
Proof.
  intros Hs0 ds. induction ds as [|d ds IHds]; intros gc Rc Hsc Hsz Hrm Hcl.
  - exists gc. simpl. split; [reflexivity|]. split; [exact Hsc|]. split; [lia|].
    eapply removed_ext; [|exact Hrm]. intros k. split; [auto|]. intros [H|[d [[] _]]]. exact H.
  - cbn [fold_left obind].
    destruct (IH gc d Hsc Hsz) as [g1 [E1 [Hs1 [Hrm1 Hsz1]]]]. rewrite E1.
    set (R1 := fun x => Rc x \/ removal g0 d x).
    assert (Hrm01 : removed g0 g1 R1).
    { eapply removed_ext; [|eapply removed_trans; [exact Hrm | exact Hrm1]].
      intros x. unfold R1. split.
      - intros [Hx|[Hd Hr]]; [left; exact Hx|].
        apply (removed_in_graph g0 gc Rc d Hrm) in Hd. destruct Hd as [Hd Hnd].
        apply (removed_reach g0 gc Rc d x Hrm Hcl Hnd) in Hr. right. split; tauto.
      - intros [Hx|[Hd Hr]]; [left; exact Hx|].
        assert (Hxg : in_graph g0 x) by (eapply reach_in_graph; eassumption).
        destruct (rm_dec _ _ _ Hrm x Hxg) as [Hx|Hx]; [left; exact Hx|]. right.
        assert (Hnd : ~ Rc d) by (intros H; apply Hx; eapply dclosed_reach; eassumption).
        split; [apply (removed_in_graph g0 gc Rc d Hrm); tauto|].
        apply (removed_reach g0 gc Rc d x Hrm Hcl Hnd). tauto. }
    assert (Hcl1 : dclosed g0 R1).
    { intros k e [Hk|Hk] He; [left; eapply Hcl; eassumption | right; eapply removal_dclosed; eassumption]. }
    destruct (IHds g1 R1 Hs1 ltac:(lia) Hrm01 Hcl1) as [g' [E' [Hs' [Hsz' Hrm']]]].
    exists g'. split; [exact E'|]. split; [exact Hs'|]. split; [lia|].
    eapply removed_ext; [|exact Hrm']. intros x. unfold R1. split.
    + intros [[H|H]|[e [He Hx]]]; [left; exact H | right; exists d; simpl; auto | right; exists e; simpl; auto].
    + intros [H|[e [[<-|He] Hx]]]; [left; left; exact H | left; right; exact Hx | right; eauto].
Qed.

(** a path from [key] either ends at [key] or leaves [key] for good through
    one of its dependents *)
Lemma reach_last_visit g g2 key : removed g g2 (eq key) ->
  forall a x, reach g a x -> x <> key ->
  (a <> key /\ reach g2 a x) \/ (exists d, edge g key d /\ d <> key /\ reach g2 d x).
Proof.
  intros Hrm a x H. induction H as [a|a b x He _ IH]; intros Hx.
  - left. split; [exact Hx | constructor].
  - destruct (IH Hx) as [[Hb Hr]|Hright]; [|right; exact Hright].
    destruct (N.eq_dec a key) as [->|Ha].
    + right. exists b. auto.
    + left. split; [exact Ha|]. econstructor; [|exact Hr].
      apply (removed_edge g g2 (eq key) a b Hrm). split; [exact He|]. split; congruence.
Qed.

Lemma remove_spec : forall f, remove_ok f.
Proof.
  induction f as [|f IH]; intros g key Hs Hsz; [lia|].
  rewrite remove_unfold. destruct (lookup key (graph g)) as [nd|] eqn:El.
  - pose proof (remove_node_shape g key nd Hs El) as Hs2.
    pose proof (remove_node_removed g key nd Hs El) as Hrm2.
    pose proof (remove_node_size g key nd (shape_repr g Hs) El) as Hsz2.
    set (g2 := remove_node key nd g) in *.
    destruct (remove_fold f IH g2 Hs2 (sset_elems (ndpts nd)) g2 (fun _ => False) Hs2 ltac:(lia)
                (removed_refl g2)) as [g' [E' [Hs' [Hsz' Hrm']]]].
    { intros k d []. }
    exists g'. split; [exact E'|]. split; [exact Hs'|]. split; [|lia].
    eapply removed_ext; [|eapply removed_trans; [exact Hrm2 | exact Hrm']].
    intros x. unfold removal. split.
    + intros [<-|[[]|[d [Hd [Hdg Hr]]]]].
      * split; [unfold in_graph; congruence | constructor].
      * split; [unfold in_graph; congruence|]. econstructor.
        -- exists nd. split; [exact El | apply sset_mem_elems; exact Hd].
        -- eapply removed_reach_sub; eassumption.
    + intros [_ Hr]. destruct (N.eq_dec x key) as [->|Hx]; [left; reflexivity|]. right. right.
      destruct (reach_last_visit g g2 key Hrm2 key x Hr Hx) as [[Hk _]|[d [He [Hd Hrd]]]]; [congruence|].
      exists d. destruct He as [nd' [El' Hm]]. rewrite El in El'. inversion El'; subst nd'.
      split; [apply sset_mem_elems; exact Hm|]. split; [|exact Hrd].
      apply (removed_in_graph g g2 (eq key) d Hrm2). split; [|congruence].
      eapply edge_target; [exact Hs | exists nd; eauto].
  - exists g. split; [reflexivity|]. split; [exact Hs|]. split; [|lia].
    eapply removed_ext; [|apply removed_refl]. intros x. unfold removal, in_graph. rewrite El. tauto.
Qed.

(** `remove` is exact: the fuel suffices; exactly [key] and its transitive
    dependents disappear (nothing, if [key] is not a node); every other node
    keeps its value and dependencies and loses exactly the removed dependents;
    shape and acyclicity are preserved. *)
Theorem remove_exact g key : dag_shape g ->
  exists g', dag_remove g key = Some g' /\ dag_shape g' /\ removed g g' (removal g key) /\
    (dag_acyclic g -> dag_acyclic g').
Proof.
  intros Hs. destruct (remove_spec (S (dag_size g)) g key Hs ltac:(lia)) as [g' [E [Hs' [Hrm _]]]].
  exists g'. split; [exact E|]. split; [exact Hs'|]. split; [exact Hrm|].
  intros [r Hr]. exists r. eapply removed_ranked; eassumption.
Qed.

Corollary remove_wf g key g' : dag_wf g -> dag_remove g key = Some g' -> dag_wf g'.
Proof.
  intros [Hs Ha] E. destruct (remove_exact g key Hs) as [g'' [E' [Hs' [_ Ha']]]].
  rewrite E in E'. inversion E'; subst g''. constructor; auto.
Qed.

End Remove.
