(* CobThreadProofs.v — map facts that need no sortedness, and the guard
   relation on threads: what an actor who is neither a delegate nor the author
   of a comment can have done to it (nothing), proved for every thread
   operation. *)
From HW Require Import lib.Base lib.SMap model.CobThread.
Local Open Scope N_scope.

(* ---------- association-list facts without sortedness ---------- *)

Lemma lookup_insert_any {V} (k : N) (v : V) (m : smap V) (k0 : N) :
  lookup k0 (insert k v m) = if k0 =? k then Some v else lookup k0 m.
Proof.
  unfold insert. induction m as [|[k' v'] m IH]; cbn [upsert lookup].
  - destruct (N.eqb_spec k0 k); reflexivity.
  - destruct (N.compare_spec k k') as [E|L|G].
    + subst k'. cbn [lookup]. destruct (N.eqb_spec k0 k); reflexivity.
    + cbn [lookup]. destruct (N.eqb_spec k0 k); [reflexivity|]. reflexivity.
    + cbn [lookup]. rewrite IH.
      destruct (N.eqb_spec k0 k'); destruct (N.eqb_spec k0 k); try reflexivity. lia.
Qed.

Lemma lookup_insert_same {V} (k : N) (v : V) (m : smap V) : lookup k (insert k v m) = Some v.
Proof. rewrite lookup_insert_any, N.eqb_refl. reflexivity. Qed.

Lemma lookup_insert_other {V} (k : N) (v : V) (m : smap V) (k0 : N) :
  k0 <> k -> lookup k0 (insert k v m) = lookup k0 m.
Proof. intros H. rewrite lookup_insert_any. destruct (N.eqb_spec k0 k); [contradiction|reflexivity]. Qed.

Lemma lookup_remove_other {V} (k : N) (m : smap V) (k0 : N) :
  k0 <> k -> lookup k0 (remove k m) = lookup k0 m.
Proof.
  intros H. induction m as [|[k' v'] m IH]; cbn [remove lookup]; [reflexivity|].
  destruct (N.eqb_spec k k').
  - subst k'. destruct (N.eqb_spec k0 k); [contradiction|reflexivity].
  - cbn [lookup]. rewrite IH. reflexivity.
Qed.

Lemma pair_eqb_eq (x y : N * N) : pair_eqb x y = true <-> x = y.
Proof.
  destruct x as [a b], y as [c d]. unfold pair_eqb. cbn [fst snd].
  rewrite andb_true_iff, !N.eqb_eq. split; [intros [-> ->]; reflexivity | intros E; inversion E; auto].
Qed.

Lemma pair_eqb_refl (x : N * N) : pair_eqb x x = true.
Proof. apply pair_eqb_eq. reflexivity. Qed.

Lemma pset_add_in (x p : N * N) (l : list (N * N)) : In x (pset_add p l) <-> x = p \/ In x l.
Proof.
  induction l as [|q l IH]; cbn [pset_add].
  - simpl. split; [intros [E|[]]; left; congruence | intros [E|[]]; left; congruence].
  - destruct (pair_eqb p q) eqn:E.
    + apply pair_eqb_eq in E. subst q. simpl. split; [tauto|]. intros [->|H]; tauto.
    + destruct (pair_ltb p q).
      * simpl. split; intros H; intuition congruence.
      * simpl. rewrite IH. split; intros H; intuition congruence.
Qed.

(* ---------- outcomes ---------- *)

(* the call returned (Ok or Err) and left the state [s'] behind *)
Definition leaves {S} (r : outcome S) (s' : S) : Prop := r = Ok s' \/ exists e, r = Err e s'.

Lemma leaves_ok {S} (s s' : S) : leaves (Ok s) s' -> s = s'.
Proof. intros [E|[e E]]; congruence. Qed.
Lemma leaves_err {S} e (s s' : S) : leaves (Err e s) s' -> s = s'.
Proof. intros [E|[e' E]]; congruence. Qed.
Lemma leaves_panic {S} k (s' : S) : ~ leaves (Panic k) s'.
Proof. intros [E|[e' E]]; discriminate. Qed.

Lemma leaves_omap {S T} (f : S -> T) (r : outcome S) (t' : T) :
  leaves (omap f r) t' -> exists s', leaves r s' /\ t' = f s'.
Proof.
  destruct r as [s|e s|k]; cbn [omap]; intros H.
  - apply leaves_ok in H. exists s. split; [left; reflexivity | auto].
  - apply leaves_err in H. exists s. split; [right; eexists; reflexivity | auto].
  - exfalso. eapply leaves_panic; exact H.
Qed.

(* ---------- the guard relation on threads ---------- *)

Section Guard.
Variable priv : bool.   (* the actor is a delegate of the document the op refers to *)
Variable a : N.         (* the actor *)
Variable entry : N.     (* the id of the op being applied *)

Definition cguard (c c' : comment) : Prop :=
  c_author c' = c_author c /\ (priv = true \/ c_author c = a \/ c_edits c' = c_edits c).

(* every comment other than the ones this very op creates: a redacted comment
   stays redacted; a live comment stays, keeps its author, and keeps its edits
   and stays live unless the actor is privileged or its author *)
Definition tguard (t t' : thread) : Prop :=
  forall cid, cid <> entry ->
    match lookup cid (t_comments t) with
    | None => True
    | Some None => lookup cid (t_comments t') = Some None
    | Some (Some c) =>
        match lookup cid (t_comments t') with
        | Some (Some c') => cguard c c'
        | Some None => priv = true \/ c_author c = a
        | None => False
        end
    end.

Lemma cguard_refl c : cguard c c.
Proof. split; auto. Qed.

Lemma cguard_trans c1 c2 c3 : cguard c1 c2 -> cguard c2 c3 -> cguard c1 c3.
Proof.
  intros [A1 B1] [A2 B2]. split; [congruence|].
  destruct B1 as [?|[?|E1]]; auto. destruct B2 as [?|[?|E2]]; auto.
  - right; left. congruence.
  - right; right. congruence.
Qed.

Lemma tguard_refl t : tguard t t.
Proof.
  intros cid _. destruct (lookup cid (t_comments t)) as [[c|]|]; auto using cguard_refl.
Qed.

Lemma tguard_trans t1 t2 t3 : tguard t1 t2 -> tguard t2 t3 -> tguard t1 t3.
Proof.
  intros H12 H23 cid Hne. specialize (H12 cid Hne). specialize (H23 cid Hne).
  destruct (lookup cid (t_comments t1)) as [[c1|]|]; [| |exact I].
  - destruct (lookup cid (t_comments t2)) as [[c2|]|]; [| |contradiction].
    + destruct (lookup cid (t_comments t3)) as [[c3|]|]; [| |contradiction].
      * eapply cguard_trans; eassumption.
      * destruct H12 as [A _]. destruct H23 as [?|?]; [auto|right; congruence].
    + rewrite H23. exact H12.
  - rewrite H12 in H23. exact H23.
Qed.

(* a thread whose comment map changed at one key only *)
Lemma tguard_one_key t t' k :
  (forall cid, cid <> k -> lookup cid (t_comments t') = lookup cid (t_comments t)) ->
  (k <> entry ->
     match lookup k (t_comments t) with
     | None => True
     | Some None => lookup k (t_comments t') = Some None
     | Some (Some c) =>
         match lookup k (t_comments t') with
         | Some (Some c') => cguard c c'
         | Some None => priv = true \/ c_author c = a
         | None => False
         end
     end) ->
  tguard t t'.
Proof.
  intros Hother Hk cid Hne. destruct (N.eq_dec cid k) as [->|Hck].
  - apply Hk. exact Hne.
  - rewrite (Hother cid Hck).
    destruct (lookup cid (t_comments t)) as [[c|]|]; auto using cguard_refl.
Qed.

Lemma tguard_same_comments t t' : t_comments t' = t_comments t -> tguard t t'.
Proof.
  intros E cid _. rewrite E.
  destruct (lookup cid (t_comments t)) as [[c|]|]; auto using cguard_refl.
Qed.

Variable dbg : bool.

Lemma t_comment_guard t author body reply t' :
  leaves (t_comment dbg t entry author body reply) t' -> tguard t t'.
Proof.
  unfold t_comment. intros H.
  destruct (body =? 0); [apply leaves_err in H; subst; apply tguard_refl|].
  destruct (match reply with Some r => negb (mem r (t_comments t)) | None => false end);
    [apply leaves_err in H; subst; apply tguard_refl|].
  destruct (dup_id dbg entry t); [exfalso; eapply leaves_panic; exact H|].
  apply leaves_ok in H. subst t'.
  apply tguard_one_key with (k := entry).
  - intros cid Hne. cbn [t_set t_push t_comments]. apply lookup_insert_other. exact Hne.
  - intros C. contradiction.
Qed.

Definition owns (t : thread) (cid : N) : Prop :=
  priv = true \/ forall c, lookup cid (t_comments t) = Some (Some c) -> c_author c = a.

Lemma t_edit_guard t author cid body t' :
  owns t cid -> leaves (t_edit dbg t entry author cid body) t' -> tguard t t'.
Proof.
  unfold t_edit. intros Hown H.
  destruct (body =? 0); [apply leaves_err in H; subst; apply tguard_refl|].
  destruct (dup_id dbg entry t); [exfalso; eapply leaves_panic; exact H|].
  destruct (lookup cid (t_comments t)) as [[c|]|] eqn:L.
  - apply leaves_ok in H. subst t'.
    apply tguard_one_key with (k := cid).
    + intros k Hne. cbn [t_set t_push t_comments]. apply lookup_insert_other. exact Hne.
    + intros _. rewrite L. cbn [t_set t_push t_comments]. rewrite lookup_insert_same.
      split; [reflexivity|]. cbn [c_author].
      destruct Hown as [?|Hown]; [auto|]. right; left. apply Hown. exact L.
  - apply leaves_ok in H. subst t'. apply tguard_same_comments. reflexivity.
  - apply leaves_err in H. subst t'. apply tguard_same_comments. reflexivity.
Qed.

Lemma t_redact_guard t cid t' :
  owns t cid -> leaves (t_redact dbg t entry cid) t' -> tguard t t'.
Proof.
  unfold t_redact. intros Hown H.
  destruct (lookup cid (t_comments t)) as [oc|] eqn:L.
  - destruct (dup_id dbg entry t); [exfalso; eapply leaves_panic; exact H|].
    apply leaves_ok in H. subst t'.
    apply tguard_one_key with (k := cid).
    + intros k Hne. cbn [t_set t_push t_comments]. apply lookup_insert_other. exact Hne.
    + intros _. rewrite L. cbn [t_set t_push t_comments]. rewrite lookup_insert_same.
      destruct oc as [c|]; [|reflexivity].
      destruct Hown as [?|Hown]; [auto|]. right. apply Hown. exact L.
  - apply leaves_err in H. subst t'. apply tguard_refl.
Qed.

Lemma t_react_guard t author cid reaction active t' :
  leaves (t_react dbg t entry author cid reaction active) t' -> tguard t t'.
Proof.
  unfold t_react. intros H.
  destruct (lookup cid (t_comments t)) as [[c|]|] eqn:L.
  - destruct (dup_id dbg entry t); [exfalso; eapply leaves_panic; exact H|].
    apply leaves_ok in H. subst t'.
    apply tguard_one_key with (k := cid).
    + intros k Hne. cbn [t_set t_push t_comments]. apply lookup_insert_other. exact Hne.
    + intros _. rewrite L. cbn [t_set t_push t_comments]. rewrite lookup_insert_same.
      split; [reflexivity|]. right; right. reflexivity.
  - apply leaves_ok in H. subst t'. apply tguard_refl.
  - apply leaves_err in H. subst t'. apply tguard_refl.
Qed.

Lemma t_resolve_guard t cid v t' :
  leaves (t_resolve dbg t entry cid v) t' -> tguard t t'.
Proof.
  unfold t_resolve. intros H.
  destruct (lookup cid (t_comments t)) as [[c|]|] eqn:L.
  - destruct (dup_id dbg entry t); [exfalso; eapply leaves_panic; exact H|].
    apply leaves_ok in H. subst t'.
    apply tguard_one_key with (k := cid).
    + intros k Hne. cbn [t_set t_push t_comments]. apply lookup_insert_other. exact Hne.
    + intros _. rewrite L. cbn [t_set t_push t_comments]. rewrite lookup_insert_same.
      split; [reflexivity|]. right; right. reflexivity.
  - apply leaves_ok in H. subst t'. apply tguard_refl.
  - apply leaves_err in H. subst t'. apply tguard_refl.
Qed.

End Guard.

(* t_get in terms of lookup *)
Lemma t_get_some t cid c : t_get t cid = Some c <-> lookup cid (t_comments t) = Some (Some c).
Proof.
  unfold t_get. destruct (lookup cid (t_comments t)) as [[c0|]|]; split; intros H; congruence.
Qed.
