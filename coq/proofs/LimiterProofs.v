(* LimiterProofs.v — proofs about model/Limiter.v (C17). *)
From HW Require Import lib.Base model.Limiter.
From Coq Require Import QArith.
Local Open Scope Z_scope.

(* ---------- hosts and the bucket map ---------- *)

Lemma host_eqb_eq a b : host_eqb a b = true <-> a = b.
Proof.
  destruct a, b; simpl; try (split; intros H; discriminate H);
    rewrite N.eqb_eq; split; intros H; try (subst; reflexivity); inversion H; reflexivity.
Qed.

Lemma host_eqb_refl a : host_eqb a a = true.
Proof. apply host_eqb_eq. reflexivity. Qed.

Lemma host_eqb_sym a b : host_eqb a b = host_eqb b a.
Proof.
  destruct (host_eqb a b) eqn:E1, (host_eqb b a) eqn:E2; try reflexivity.
  - apply host_eqb_eq in E1. subst. rewrite host_eqb_refl in E2. discriminate.
  - apply host_eqb_eq in E2. subst. rewrite host_eqb_refl in E1. discriminate.
Qed.

Lemma bk_lookup_set h h' b m :
  bk_lookup h (bk_set h' b m) = if host_eqb h h' then Some b else bk_lookup h m.
Proof.
  induction m as [|[k v] m IH]; simpl.
  - destruct (host_eqb h h'); reflexivity.
  - destruct (host_eqb h' k) eqn:E1; simpl.
    + destruct (host_eqb h h') eqn:E2; [reflexivity|].
      apply host_eqb_eq in E1. subst k. rewrite E2. reflexivity.
    + destruct (host_eqb h k) eqn:E3.
      * destruct (host_eqb h h') eqn:E2; [|reflexivity].
        apply host_eqb_eq in E2. apply host_eqb_eq in E3. subst.
        rewrite host_eqb_refl in E1. discriminate.
      * exact IH.
Qed.

(* ---------- one bucket ---------- *)

Definition same_params (a b : bucket) : Prop :=
  b_num a = b_num b /\ b_den a = b_den b /\ b_cap a = b_cap b.

Lemma same_params_refl b : same_params b b.
Proof. repeat split. Qed.

Lemma same_params_trans a b c : same_params a b -> same_params b c -> same_params a c.
Proof. unfold same_params. intros (H1 & H2 & H3) (H4 & H5 & H6). repeat split; congruence. Qed.

Lemma cap_scaled_params a b : same_params a b -> cap_scaled a = cap_scaled b.
Proof. unfold same_params, cap_scaled. intros (_ & H2 & H3). rewrite H2, H3. reflexivity. Qed.

Lemma as_secs_le n : (as_secs n <= n / 1000)%N.
Proof. unfold as_secs. apply N.mod_le. discriminate. Qed.

Lemma cap_scaled_nonneg b : 0 <= cap_scaled b.
Proof. unfold cap_scaled. apply Z.mul_nonneg_nonneg; lia. Qed.

Lemma bucket_new_tokens t now : b_tokens (bucket_new t now) = cap_scaled (bucket_new t now).
Proof. reflexivity. Qed.

(* a fresh bucket never panics at its own creation time *)
Lemma bucket_new_take t now : bucket_take (bucket_new t now) now <> None.
Proof.
  unfold bucket_take, bucket_refill. cbn [b_refilled bucket_new].
  rewrite N.ltb_irrefl. destruct (Z.leb _ _); discriminate.
Qed.

Lemma bucket_take_none b now : bucket_take b now = None <-> (now < b_refilled b)%N.
Proof.
  unfold bucket_take, bucket_refill.
  destruct (N.ltb now (b_refilled b)) eqn:E.
  - apply N.ltb_lt in E. split; [intros _; exact E | reflexivity].
  - apply N.ltb_ge in E. cbn. destruct (Z.leb _ _); split; intros H; try discriminate H; lia.
Qed.

(* everything the theorems need to know about one `take` *)
Lemma bucket_take_spec b now b1 ok :
  bucket_take b now = Some (b1, ok) ->
  same_params b b1 /\
  (b_refilled b <= now)%N /\ b_refilled b1 = now /\
  (b_tokens b <= cap_scaled b -> b_tokens b1 <= cap_scaled b1) /\
  (if ok then Zpos (b_den b) else 0) + b_tokens b1 <= cap_scaled b /\
  (ok = false -> b_tokens b1 < Zpos (b_den b)) /\
  (0 <= b_num b ->
     (0 <= b_tokens b -> 0 <= b_tokens b1) /\
     (if ok then Zpos (b_den b) else 0) + b_tokens b1
       <= b_tokens b + b_num b * Z.of_N ((now - b_refilled b) / 1000)).
Proof.
  unfold bucket_take, bucket_refill.
  destruct (N.ltb now (b_refilled b)) eqn:E; [discriminate|].
  apply N.ltb_ge in E. cbn [b_den b_tokens b_num b_cap b_refilled].
  pose proof (as_secs_le (now - b_refilled b)) as Hs.
  set (secs := as_secs (now - b_refilled b)) in *.
  set (m := Z.min (b_tokens b + Z.of_N secs * b_num b) (cap_scaled b)).
  assert (Hm1 : m <= cap_scaled b) by (unfold m; lia).
  assert (Hm2 : m <= b_tokens b + Z.of_N secs * b_num b) by (unfold m; lia).
  pose proof (cap_scaled_nonneg b) as Hc.
  destruct (Z.leb (Zpos (b_den b)) m) eqn:El; intros H; inversion H; subst b1 ok; clear H;
    [apply Z.leb_le in El | apply Z.leb_gt in El];
    unfold same_params, cap_scaled in *; cbn [b_den b_tokens b_num b_cap b_refilled];
    (split; [repeat split|]); (split; [exact E|]); (split; [reflexivity|]).
  - split; [intros _; lia|]. split; [lia|]. split; [discriminate|].
    intros Hn. assert (Hx : Z.of_N secs * b_num b <= b_num b * Z.of_N ((now - b_refilled b) / 1000)) by nia.
    split; [intros _; lia | lia].
  - split; [intros _; lia|]. split; [lia|]. split; [intros _; lia|].
    intros Hn. assert (Hx : Z.of_N secs * b_num b <= b_num b * Z.of_N ((now - b_refilled b) / 1000)) by nia.
    assert (Hy : 0 <= Z.of_N secs * b_num b) by nia.
    split; [intros Hz; unfold m; lia | lia].
Qed.

(* ---------- one call of `limit`, seen from a fixed host ---------- *)

Definition hb (h : host) (l : limiter) : option bucket := bk_lookup h (l_buckets l).

Definition reaches (l : limiter) (r : req) : bool :=
  negb (req_bypassed l r) && negb (host_unroutable (r_host r)).

Lemma limit_bypass_list l r : l_bypass (fst (limit l r)) = l_bypass l.
Proof.
  unfold limit. destruct (req_bypassed l r); [reflexivity|].
  destruct (host_unroutable (r_host r)); [reflexivity|].
  destruct (bucket_take _ _) as [[b1 ok]|]; reflexivity.
Qed.

Lemma limit_not_reaching l r :
  reaches l r = false ->
  fst (limit l r) = l /\ (snd (limit l r) = Bypassed \/ snd (limit l r) = Unroutable).
Proof.
  unfold reaches, limit. destruct (req_bypassed l r); simpl.
  - intros _. split; [reflexivity | left; reflexivity].
  - destruct (host_unroutable (r_host r)); simpl; [|discriminate].
    intros _. split; [reflexivity | right; reflexivity].
Qed.

Lemma limit_other_host l r h :
  host_eqb h (r_host r) = false -> hb h (fst (limit l r)) = hb h l.
Proof.
  intros Hne. unfold limit, hb.
  destruct (req_bypassed l r); [reflexivity|].
  destruct (host_unroutable (r_host r)); [reflexivity|].
  destruct (bucket_take _ _) as [[b1 ok]|]; cbn [fst l_buckets]; rewrite bk_lookup_set, Hne; reflexivity.
Qed.

(* the bucket the call works on: the existing one or a fresh full one *)
Definition entry_bucket (l : limiter) (r : req) : bucket :=
  match hb (r_host r) l with
  | Some b => b
  | None => bucket_new (r_tok r) (r_now r)
  end.

Lemma limit_reaching l r :
  reaches l r = true ->
  match bucket_take (entry_bucket l r) (r_now r) with
  | None => hb (r_host r) (fst (limit l r)) = Some (entry_bucket l r) /\ snd (limit l r) = ClockPanic
  | Some (b1, ok) =>
      hb (r_host r) (fst (limit l r)) = Some b1 /\
      snd (limit l r) = (if ok then Passed else Limited)
  end.
Proof.
  unfold reaches, limit, entry_bucket, hb.
  destruct (req_bypassed l r); [discriminate|].
  destruct (host_unroutable (r_host r)); [discriminate|]. intros _.
  destruct (bucket_take _ _) as [[b1 ok]|]; cbn [fst snd l_buckets];
    rewrite bk_lookup_set, host_eqb_refl; split; reflexivity.
Qed.

(* ---------- invariant of every bucket of a limiter ---------- *)

Definition bucket_ok (b : bucket) : Prop :=
  b_tokens b <= cap_scaled b /\ (0 <= b_num b -> 0 <= b_tokens b).

Definition lim_ok (l : limiter) : Prop := forall h b, hb h l = Some b -> bucket_ok b.

Lemma lim_ok_new bypass : lim_ok (limiter_new bypass).
Proof. intros h b H. discriminate H. Qed.

Lemma bucket_new_ok t now : bucket_ok (bucket_new t now).
Proof.
  split; [rewrite bucket_new_tokens; lia|]. intros _.
  rewrite bucket_new_tokens. apply cap_scaled_nonneg.
Qed.

Lemma entry_bucket_ok l r : lim_ok l -> bucket_ok (entry_bucket l r).
Proof.
  intros Hl. unfold entry_bucket. destruct (hb (r_host r) l) as [b|] eqn:E.
  - exact (Hl _ _ E).
  - apply bucket_new_ok.
Qed.

Lemma bucket_take_ok b now b1 ok : bucket_ok b -> bucket_take b now = Some (b1, ok) -> bucket_ok b1.
Proof.
  intros [H1 H2] Ht. destruct (bucket_take_spec _ _ _ _ Ht) as ((Pn & Pd & Pc) & _ & _ & Hc & _ & _ & Hn).
  split; [exact (Hc H1)|]. intros Hnum. rewrite <- Pn in Hnum.
  destruct (Hn Hnum) as [Hz _]. exact (Hz (H2 Hnum)).
Qed.

Lemma limit_ok l r : lim_ok l -> lim_ok (fst (limit l r)).
Proof.
  intros Hl. destruct (reaches l r) eqn:Er.
  - pose proof (limit_reaching l r Er) as Hr. intros h b Hb.
    destruct (host_eqb h (r_host r)) eqn:Eh.
    + apply host_eqb_eq in Eh. subst h.
      destruct (bucket_take (entry_bucket l r) (r_now r)) as [[b1 ok]|] eqn:Et.
      * destruct Hr as [Hr _]. rewrite Hr in Hb. inversion Hb; subst b1.
        exact (bucket_take_ok _ _ _ _ (entry_bucket_ok l r Hl) Et).
      * destruct Hr as [Hr _]. rewrite Hr in Hb. inversion Hb; subst b.
        exact (entry_bucket_ok l r Hl).
    + rewrite (limit_other_host l r h Eh) in Hb. exact (Hl _ _ Hb).
  - destruct (limit_not_reaching l r Er) as [E _]. rewrite E. exact Hl.
Qed.

Lemma run_limiter_cons l r rs :
  run_limiter l (r :: rs) =
  (fst (run_limiter (fst (limit l r)) rs), snd (limit l r) :: snd (run_limiter (fst (limit l r)) rs)).
Proof.
  cbn [run_limiter]. destruct (limit l r) as [l1 o]. cbn [fst snd].
  destruct (run_limiter l1 rs) as [l2 os]. reflexivity.
Qed.

Lemma run_limiter_ok rs : forall l, lim_ok l -> lim_ok (fst (run_limiter l rs)).
Proof.
  induction rs as [|r rs IH]; intros l Hl; [exact Hl|].
  rewrite run_limiter_cons. cbn [fst]. apply IH. apply limit_ok. exact Hl.
Qed.

Lemma run_limiter_bypass rs : forall l, l_bypass (fst (run_limiter l rs)) = l_bypass l.
Proof.
  induction rs as [|r rs IH]; intros l; [reflexivity|].
  rewrite run_limiter_cons. cbn [fst]. rewrite IH. apply limit_bypass_list.
Qed.

Lemma run_limiter_app l xs ys :
  run_limiter l (xs ++ ys) =
  (fst (run_limiter (fst (run_limiter l xs)) ys),
   snd (run_limiter l xs) ++ snd (run_limiter (fst (run_limiter l xs)) ys)).
Proof.
  revert l. induction xs as [|x xs IH]; intros l.
  - cbn [app run_limiter fst snd]. destruct (run_limiter l ys); reflexivity.
  - rewrite <- app_comm_cons, !run_limiter_cons, IH. reflexivity.
Qed.

Lemma run_limiter_length rs : forall l, length (snd (run_limiter l rs)) = length rs.
Proof.
  induction rs as [|r rs IH]; intros l; [reflexivity|].
  rewrite run_limiter_cons. cbn [snd length]. rewrite IH. reflexivity.
Qed.

(* ---------- the times of the calls of one host ---------- *)

Definition htimes (h : host) (rs : list req) : list N :=
  map r_now (filter (fun r => host_eqb (r_host r) h) rs).

Lemma htimes_cons_same h r rs : host_eqb (r_host r) h = true -> htimes h (r :: rs) = r_now r :: htimes h rs.
Proof. intros E. unfold htimes. cbn [filter]. rewrite E. reflexivity. Qed.

Lemma htimes_cons_other h r rs : host_eqb (r_host r) h = false -> htimes h (r :: rs) = htimes h rs.
Proof. intros E. unfold htimes. cbn [filter]. rewrite E. reflexivity. Qed.

Lemma htimes_In h rs t : In t (htimes h rs) <-> exists r, In r rs /\ r_host r = h /\ r_now r = t.
Proof.
  unfold htimes. rewrite in_map_iff. split.
  - intros (r & Ht & Hin). apply filter_In in Hin. destruct Hin as [Hin He].
    apply host_eqb_eq in He. exists r. auto.
  - intros (r & Hin & Hh & Ht). exists r. split; [exact Ht|]. apply filter_In.
    split; [exact Hin|]. apply host_eqb_eq. exact Hh.
Qed.

Lemma passed_for_cons h r rs o os :
  passed_for h (r :: rs) (o :: os) =
  (if host_eqb (r_host r) h && is_passed o then 1 else 0) + passed_for h rs os.
Proof. reflexivity. Qed.

Lemma passed_for_nonneg h rs : forall os, 0 <= passed_for h rs os.
Proof.
  induction rs as [|r rs IH]; intros [|o os]; cbn [passed_for]; try lia.
  specialize (IH os). destruct (host_eqb (r_host r) h && is_passed o); lia.
Qed.

(* ---------- Lemma A: accounting from an existing bucket ---------- *)

Lemma floor_sum (a b c : N) :
  (a <= b <= c)%N -> Z.of_N ((b - a) / 1000) + Z.of_N ((c - b) / 1000) <= Z.of_N ((c - a) / 1000).
Proof.
  intros H.
  assert (Hn : ((b - a) / 1000 + (c - b) / 1000 <= (c - a) / 1000)%N).
  { apply N.div_le_lower_bound; [discriminate|].
    pose proof (N.mul_div_le (b - a) 1000). pose proof (N.mul_div_le (c - b) 1000). lia. }
  lia.
Qed.

Lemma run_from_bucket h rs : forall l b,
  hb h l = Some b -> bucket_ok b ->
  exists b',
    hb h (fst (run_limiter l rs)) = Some b' /\ same_params b b' /\
    (b_refilled b <= b_refilled b')%N /\
    (b_refilled b' = b_refilled b \/ In (b_refilled b') (htimes h rs)) /\
    (0 <= b_num b -> 0 <= b_tokens b ->
       0 <= b_tokens b' /\
       passed_for h rs (snd (run_limiter l rs)) * Zpos (b_den b) + b_tokens b'
         <= b_tokens b + b_num b * Z.of_N ((b_refilled b' - b_refilled b) / 1000)).
Proof.
  induction rs as [|r rs IH]; intros l b Hb Hok.
  - exists b. cbn [run_limiter fst snd passed_for]. split; [exact Hb|]. split; [apply same_params_refl|].
    split; [lia|]. split; [left; reflexivity|]. intros Hn H0. split; [exact H0|].
    rewrite N.sub_diag. cbn. lia.
  - rewrite run_limiter_cons. cbn [fst snd].
    destruct (host_eqb (r_host r) h) eqn:Eh.
    + (* a call of this host *)
      pose proof Eh as Eh'. apply host_eqb_eq in Eh'.
      rewrite (htimes_cons_same h r rs Eh), passed_for_cons, Eh. cbn [andb].
      destruct (reaches l r) eqn:Er.
      * pose proof (limit_reaching l r Er) as Hr.
        assert (Ee : entry_bucket l r = b) by (unfold entry_bucket; rewrite Eh', Hb; reflexivity).
        rewrite Ee, Eh' in Hr.
        destruct (bucket_take b (r_now r)) as [[b1 ok]|] eqn:Et.
        -- destruct Hr as [Hr1 Hr2]. rewrite Hr2.
           destruct (bucket_take_spec _ _ _ _ Et) as (Hp & Hle & Hre & _ & _ & _ & Hn).
           destruct (IH _ _ Hr1 (bucket_take_ok _ _ _ _ Hok Et)) as (b' & Hb' & Hp' & Hle' & Hin' & Hacc).
           exists b'. split; [exact Hb'|]. split; [exact (same_params_trans _ _ _ Hp Hp')|].
           split; [lia|]. split.
           { right. destruct Hin' as [E|Hin']; [left; congruence | right; exact Hin']. }
           intros Hnum H0. destruct (Hn Hnum) as [Hz Hstep]. specialize (Hz H0).
           destruct Hp as (Pn & Pd & Pc). rewrite <- Pn, <- Pd in Hacc.
           destruct (Hacc Hnum Hz) as [Hz' Hrest]. split; [exact Hz'|].
           rewrite Hre in *.
           assert (Hdiv : Z.of_N ((r_now r - b_refilled b) / 1000) + Z.of_N ((b_refilled b' - r_now r) / 1000)
                          <= Z.of_N ((b_refilled b' - b_refilled b) / 1000)) by (apply floor_sum; lia).
           assert (Hmul : b_num b * (Z.of_N ((r_now r - b_refilled b) / 1000) + Z.of_N ((b_refilled b' - r_now r) / 1000))
                          <= b_num b * Z.of_N ((b_refilled b' - b_refilled b) / 1000))
             by (apply Z.mul_le_mono_nonneg_l; [exact Hnum | exact Hdiv]).
           destruct ok; cbn [is_passed]; lia.
        -- destruct Hr as [Hr1 Hr2]. rewrite Hr2. cbn [is_passed].
           destruct (IH _ _ Hr1 Hok) as (b' & Hb' & Hp' & Hle' & Hin' & Hacc).
           exists b'. split; [exact Hb'|]. split; [exact Hp'|]. split; [exact Hle'|].
           split; [destruct Hin' as [E|Hin']; [left; exact E | right; right; exact Hin']|].
           intros Hnum H0. destruct (Hacc Hnum H0) as [Hz' Hrest]. split; [exact Hz' | lia].
      * destruct (limit_not_reaching l r Er) as [El Ho]. rewrite El.
        destruct (IH _ _ Hb Hok) as (b' & Hb' & Hp' & Hle' & Hin' & Hacc).
        exists b'. split; [exact Hb'|]. split; [exact Hp'|]. split; [exact Hle'|].
        split; [destruct Hin' as [E|Hin']; [left; exact E | right; right; exact Hin']|].
        intros Hnum H0. destruct (Hacc Hnum H0) as [Hz' Hrest]. split; [exact Hz'|].
        destruct Ho as [Ho|Ho]; rewrite Ho; cbn [is_passed]; lia.
    + (* a call of another host: this host's bucket is untouched *)
      rewrite (htimes_cons_other h r rs Eh), passed_for_cons, Eh. cbn [andb].
      assert (Hne : host_eqb h (r_host r) = false) by (rewrite host_eqb_sym; exact Eh).
      assert (Hb1 : hb h (fst (limit l r)) = Some b) by (rewrite (limit_other_host l r h Hne); exact Hb).
      destruct (IH _ _ Hb1 Hok) as (b' & Hb' & Hrest). exists b'. split; [exact Hb'|].
      rewrite Z.add_0_l. exact Hrest.
Qed.

(* ---------- Lemma B: the window bound, from any reachable state ---------- *)

Lemma window_bound h rs : forall l lo hi,
  lim_ok l ->
  (forall t, In t (htimes h rs) -> (lo <= t <= hi)%N) ->
  forall b', hb h (fst (run_limiter l rs)) = Some b' -> 0 <= b_num b' ->
  passed_for h rs (snd (run_limiter l rs)) * Zpos (b_den b')
    <= cap_scaled b' + b_num b' * Z.of_N ((hi - lo) / 1000).
Proof.
  induction rs as [|r rs IH]; intros l lo hi Hl Hw b' Hb' Hnum.
  - cbn [run_limiter snd passed_for]. pose proof (cap_scaled_nonneg b').
    assert (Hx : 0 <= b_num b' * Z.of_N ((hi - lo) / 1000))
      by (apply Z.mul_nonneg_nonneg; [exact Hnum | apply N2Z.is_nonneg]).
    lia.
  - rewrite run_limiter_cons in *. cbn [fst snd] in *.
    destruct (host_eqb (r_host r) h) eqn:Eh.
    + pose proof Eh as Eh'. apply host_eqb_eq in Eh'.
      rewrite (htimes_cons_same h r rs Eh) in Hw. rewrite passed_for_cons, Eh. cbn [andb].
      assert (Hw' : forall t, In t (htimes h rs) -> (lo <= t <= hi)%N) by (intros t Ht; apply Hw; right; exact Ht).
      destruct (reaches l r) eqn:Er.
      * pose proof (limit_reaching l r Er) as Hr. rewrite Eh' in Hr.
        destruct (bucket_take (entry_bucket l r) (r_now r)) as [[b1 ok]|] eqn:Et.
        -- destruct Hr as [Hr1 Hr2]. rewrite Hr2.
           pose proof (entry_bucket_ok l r Hl) as Hok0.
           destruct (bucket_take_spec _ _ _ _ Et) as (Hp & _ & Hre & _ & Hcap & _ & _).
           pose proof (bucket_take_ok _ _ _ _ Hok0 Et) as Hok1.
           destruct (run_from_bucket h rs _ _ Hr1 Hok1) as (b'' & Hb'' & Hp' & Hle' & Hin' & Hacc).
           rewrite Hb'' in Hb'. inversion Hb'; subst b''. clear Hb'.
           destruct Hp' as (Pn & Pd & Pc). destruct Hp as (Qn & Qd & Qc).
           assert (Hnum1 : 0 <= b_num b1) by congruence.
           destruct Hok1 as [_ Hz1]. specialize (Hz1 Hnum1).
           destruct (Hacc Hnum1 Hz1) as [Hz' Hrest].
           assert (Hc : cap_scaled (entry_bucket l r) = cap_scaled b')
             by (unfold cap_scaled; rewrite Qd, Qc, Pd, Pc; reflexivity).
           rewrite Qd, Pd in Hcap. rewrite Hc in Hcap. rewrite Pn, Pd in Hrest.
           assert (Hr_now : (lo <= r_now r <= hi)%N) by (apply Hw; left; reflexivity).
           assert (Hlast : (lo <= b_refilled b' <= hi)%N).
           { destruct Hin' as [E|Hin']; [rewrite E, Hre; exact Hr_now | apply Hw'; exact Hin']. }
           rewrite Hre in *.
           assert (Hdiv : Z.of_N ((b_refilled b' - r_now r) / 1000) <= Z.of_N ((hi - lo) / 1000)).
           { apply N2Z.inj_le. apply N.div_le_mono; [discriminate | lia]. }
           assert (Hmul : b_num b' * Z.of_N ((b_refilled b' - r_now r) / 1000)
                          <= b_num b' * Z.of_N ((hi - lo) / 1000))
             by (apply Z.mul_le_mono_nonneg_l; [exact Hnum | exact Hdiv]).
           destruct ok; cbn [is_passed]; lia.
        -- destruct Hr as [Hr1 Hr2]. rewrite Hr2. cbn [is_passed]. rewrite Z.add_0_l.
           exact (IH _ lo hi (limit_ok l r Hl) Hw' b' Hb' Hnum).
      * destruct (limit_not_reaching l r Er) as [El Ho]. rewrite El in *.
        assert (Hz : is_passed (snd (limit l r)) = false) by (destruct Ho as [Ho|Ho]; rewrite Ho; reflexivity).
        rewrite Hz, Z.add_0_l. exact (IH _ lo hi Hl Hw' b' Hb' Hnum).
    + rewrite (htimes_cons_other h r rs Eh) in Hw. rewrite passed_for_cons, Eh. cbn [andb].
      rewrite Z.add_0_l. exact (IH _ lo hi (limit_ok l r Hl) Hw b' Hb' Hnum).
Qed.

(* ---------- buckets are never removed; parameters never change ---------- *)

Lemma limit_keeps_bucket l r h b :
  hb h l = Some b -> exists b', hb h (fst (limit l r)) = Some b' /\ same_params b b'.
Proof.
  intros Hb. destruct (host_eqb h (r_host r)) eqn:Eh.
  - apply host_eqb_eq in Eh. subst h. destruct (reaches l r) eqn:Er.
    + pose proof (limit_reaching l r Er) as Hr.
      assert (Ee : entry_bucket l r = b) by (unfold entry_bucket; rewrite Hb; reflexivity).
      rewrite Ee in Hr.
      destruct (bucket_take b (r_now r)) as [[b1 ok]|] eqn:Et; destruct Hr as [Hr _].
      * exists b1. split; [exact Hr|]. exact (proj1 (bucket_take_spec _ _ _ _ Et)).
      * exists b. split; [exact Hr | apply same_params_refl].
    + destruct (limit_not_reaching l r Er) as [El _]. rewrite El. exists b.
      split; [exact Hb | apply same_params_refl].
  - exists b. rewrite (limit_other_host l r h Eh). split; [exact Hb | apply same_params_refl].
Qed.

Lemma run_keeps_bucket h rs : forall l b,
  hb h l = Some b -> exists b', hb h (fst (run_limiter l rs)) = Some b' /\ same_params b b'.
Proof.
  induction rs as [|r rs IH]; intros l b Hb.
  - exists b. split; [exact Hb | apply same_params_refl].
  - rewrite run_limiter_cons. cbn [fst].
    destruct (limit_keeps_bucket l r h b Hb) as (b1 & Hb1 & Hp1).
    destruct (IH _ _ Hb1) as (b' & Hb' & Hp'). exists b'.
    split; [exact Hb' | exact (same_params_trans _ _ _ Hp1 Hp')].
Qed.

(* a host without a bucket has not passed anything *)
Lemma no_bucket_nothing_passed h rs : forall l,
  hb h (fst (run_limiter l rs)) = None -> passed_for h rs (snd (run_limiter l rs)) = 0.
Proof.
  induction rs as [|r rs IH]; intros l Hn; [reflexivity|].
  rewrite run_limiter_cons in *. cbn [fst snd] in *. rewrite passed_for_cons.
  rewrite (IH _ Hn), Z.add_0_r.
  destruct (host_eqb (r_host r) h) eqn:Eh; [|reflexivity]. cbn [andb].
  apply host_eqb_eq in Eh.
  destruct (reaches l r) eqn:Er.
  - exfalso. pose proof (limit_reaching l r Er) as Hr. rewrite Eh in Hr.
    assert (Hex : exists b, hb h (fst (limit l r)) = Some b).
    { destruct (bucket_take _ _) as [[b1 ok]|]; destruct Hr as [Hr _]; eauto. }
    destruct Hex as [b Hb]. destruct (run_keeps_bucket h rs _ _ Hb) as (b' & Hb' & _). congruence.
  - destruct (limit_not_reaching l r Er) as [_ [Ho|Ho]]; rewrite Ho; reflexivity.
Qed.

(* the bucket of a host carries the tokens of the first call that reached it *)
Definition first_reaching (bypass : list N) (h : host) (rs : list req) : option req :=
  find (fun r => host_eqb (r_host r) h
                 && negb (match r_nid r with Some n => memN n bypass | None => false end)
                 && negb (host_unroutable (r_host r))) rs.

Definition tokens_of (b : bucket) : tokens := {| t_cap := b_cap b; t_num := b_num b; t_den := b_den b |}.

Lemma tokens_of_params a b : same_params a b -> tokens_of a = tokens_of b.
Proof. unfold same_params, tokens_of. intros (H1 & H2 & H3). rewrite H1, H2, H3. reflexivity. Qed.

Lemma tokens_of_new t now : tokens_of (bucket_new t now) = t.
Proof. destruct t; reflexivity. Qed.

Lemma bucket_created_by_first h rs : forall l,
  hb h l = None ->
  option_map tokens_of (hb h (fst (run_limiter l rs)))
  = option_map r_tok (first_reaching (l_bypass l) h rs).
Proof.
  induction rs as [|r rs IH]; intros l Hn.
  - cbn [run_limiter fst first_reaching find]. rewrite Hn. reflexivity.
  - rewrite run_limiter_cons. cbn [fst first_reaching find].
    destruct (host_eqb (r_host r) h) eqn:Eh; cbn [andb].
    + apply host_eqb_eq in Eh.
      destruct (reaches l r) eqn:Er.
      * unfold reaches, req_bypassed in Er. rewrite Er. cbn [option_map].
        assert (Er' : reaches l r = true) by exact Er.
        pose proof (limit_reaching l r Er') as Hr. rewrite Eh in Hr.
        assert (Ee : entry_bucket l r = bucket_new (r_tok r) (r_now r))
          by (unfold entry_bucket; rewrite Eh, Hn; reflexivity).
        rewrite Ee in Hr.
        destruct (bucket_take (bucket_new (r_tok r) (r_now r)) (r_now r)) as [[b1 ok]|] eqn:Et.
        -- destruct Hr as [Hr _].
           destruct (run_keeps_bucket h rs _ _ Hr) as (b' & Hb' & Hp'). rewrite Hb'. cbn [option_map].
           rewrite <- (tokens_of_params _ _ Hp').
           rewrite <- (tokens_of_params _ _ (proj1 (bucket_take_spec _ _ _ _ Et))).
           rewrite tokens_of_new. reflexivity.
        -- exfalso. exact (bucket_new_take _ _ Et).
      * destruct (limit_not_reaching l r Er) as [El _]. rewrite El.
        unfold reaches, req_bypassed in Er. rewrite Er. fold (first_reaching (l_bypass l) h rs).
        exact (IH l Hn).
    + assert (Hne : host_eqb h (r_host r) = false) by (rewrite host_eqb_sym; exact Eh).
      fold (first_reaching (l_bypass l) h rs). rewrite <- (limit_bypass_list l r).
      apply IH. rewrite (limit_other_host l r h Hne). exact Hn.
Qed.

(* ---------- the property-level statements ---------- *)

(* C17 (window bound).  Any timeline at all: any interleaving of hosts, node
   ids and token configurations, any clock readings (panics caught).  [pre] is
   the history, [win] any run of consecutive calls after it.  If every call of
   host [h] inside the window was made at a time in [lo, hi], then the number of
   calls of [h] that took a token in the window, times den, is at most
   capacity*den + num * floor((hi - lo) / 1000). *)
Theorem window_bound_any_timeline :
  forall (bypass : list N) (pre win : list req) (h : host) (lo hi : N),
  let l0 := fst (run_limiter (limiter_new bypass) pre) in
  let l1 := fst (run_limiter l0 win) in
  let outs := snd (run_limiter l0 win) in
  (forall r, In r win -> r_host r = h -> (lo <= r_now r <= hi)%N) ->
  match bk_lookup h (l_buckets l1) with
  | Some b =>
      0 <= b_num b ->
      passed_for h win outs * Zpos (b_den b)
        <= Z.of_N (b_cap b) * Zpos (b_den b) + b_num b * Z.of_N ((hi - lo) / 1000)
  | None => passed_for h win outs = 0
  end.
Proof.
  intros bypass pre win h lo hi l0 l1 outs Hw.
  destruct (bk_lookup h (l_buckets l1)) as [b|] eqn:Eb.
  - intros Hnum. apply (window_bound h win l0 lo hi).
    + apply run_limiter_ok. apply lim_ok_new.
    + intros t Ht. apply htimes_In in Ht. destruct Ht as (r & Hin & Hh & Ht). subst t. exact (Hw r Hin Hh).
    + exact Eb.
    + exact Hnum.
  - apply no_bucket_nothing_passed. exact Eb.
Qed.

(* the same bound in rationals: passed <= capacity + rate * whole seconds *)
Lemma window_bound_Q_form (passed cap num secs : Z) (den : positive) :
  passed * Zpos den <= cap * Zpos den + num * secs ->
  (inject_Z passed <= inject_Z cap + (num # den) * inject_Z secs)%Q.
Proof.
  intros H. unfold Qle, Qplus, Qmult, inject_Z. cbn [Qnum Qden].
  rewrite !Pos.mul_1_r, !Z.mul_1_r. exact H.
Qed.

(* monotone clock (as `Service` provides): times never decrease *)
Fixpoint monotone_from (t0 : N) (rs : list req) : Prop :=
  match rs with
  | [] => True
  | r :: rs' => (t0 <= r_now r)%N /\ monotone_from (r_now r) rs'
  end.

Lemma last_cons {A} (l : list A) : forall x d, last (x :: l) d = last l x.
Proof.
  induction l as [|a l IH]; intros x d; [reflexivity|].
  change (last (x :: a :: l) d) with (last (a :: l) d). rewrite (IH a d), (IH a x). reflexivity.
Qed.

Lemma monotone_from_weaken rs : forall t0 t1, (t1 <= t0)%N -> monotone_from t0 rs -> monotone_from t1 rs.
Proof. destruct rs as [|r rs]; intros t0 t1 Hle; cbn [monotone_from]; [auto|]. intros [H1 H2]. split; [lia | exact H2]. Qed.

Lemma monotone_from_app xs : forall t0 ys,
  monotone_from t0 (xs ++ ys) ->
  monotone_from t0 xs /\ monotone_from (last (map r_now xs) t0) ys.
Proof.
  induction xs as [|x xs IH]; intros t0 ys H.
  - split; [exact I | exact H].
  - cbn [app monotone_from] in H. destruct H as [H1 H2]. destruct (IH _ _ H2) as [H3 H4].
    split; [split; assumption|].
    cbn [map]. rewrite last_cons. exact H4.
Qed.

Lemma monotone_from_bounds rs : forall t0,
  monotone_from t0 rs -> forall r, In r rs -> (t0 <= r_now r <= last (map r_now rs) t0)%N.
Proof.
  induction rs as [|x rs IH]; intros t0 H r Hin; [contradiction|].
  cbn [monotone_from] in H. destruct H as [H1 H2].
  assert (Hl : last (map r_now (x :: rs)) t0 = last (map r_now rs) (r_now x))
    by (cbn [map]; apply last_cons).
  rewrite Hl. destruct Hin as [->|Hin].
  - split; [exact H1|]. destruct rs as [|y rs']; [cbn; lia|].
    assert (Hy : In y (y :: rs')) by (left; reflexivity).
    pose proof (IH _ H2 y Hy) as Hb. destruct H2 as [H2 _]. lia.
  - pose proof (IH _ H2 r Hin). lia.
Qed.

Definition all_buckets_before (l : limiter) (t : N) : Prop :=
  forall h b, hb h l = Some b -> (b_refilled b <= t)%N.

Lemma limit_before l r t :
  all_buckets_before l t -> (t <= r_now r)%N ->
  all_buckets_before (fst (limit l r)) (r_now r) /\ snd (limit l r) <> ClockPanic.
Proof.
  intros Hb Hle. destruct (reaches l r) eqn:Er.
  - pose proof (limit_reaching l r Er) as Hr.
    assert (He : (b_refilled (entry_bucket l r) <= r_now r)%N).
    { unfold entry_bucket. destruct (hb (r_host r) l) as [b|] eqn:E; [pose proof (Hb _ _ E); lia | cbn; lia]. }
    destruct (bucket_take (entry_bucket l r) (r_now r)) as [[b1 ok]|] eqn:Et.
    + destruct Hr as [Hr1 Hr2]. split; [|rewrite Hr2; destruct ok; discriminate].
      intros h b Hh. destruct (host_eqb h (r_host r)) eqn:Eh.
      * apply host_eqb_eq in Eh. subst h. rewrite Hr1 in Hh. inversion Hh; subst b1.
        destruct (bucket_take_spec _ _ _ _ Et) as (_ & _ & Hre & _). lia.
      * rewrite (limit_other_host l r h Eh) in Hh. pose proof (Hb _ _ Hh). lia.
    + exfalso. apply bucket_take_none in Et. lia.
  - destruct (limit_not_reaching l r Er) as [El Ho]. rewrite El. split.
    + intros h b Hh. pose proof (Hb _ _ Hh). lia.
    + destruct Ho as [Ho|Ho]; rewrite Ho; discriminate.
Qed.

Lemma monotone_no_panic rs : forall l t0,
  all_buckets_before l t0 -> monotone_from t0 rs ->
  ~ In ClockPanic (snd (run_limiter l rs)) /\
  all_buckets_before (fst (run_limiter l rs)) (last (map r_now rs) t0).
Proof.
  induction rs as [|r rs IH]; intros l t0 Hb Hm.
  - split; [intros []| exact Hb].
  - rewrite run_limiter_cons. cbn [fst snd]. cbn [monotone_from] in Hm. destruct Hm as [H1 H2].
    destruct (limit_before l r t0 Hb H1) as [Hb1 Hnp].
    destruct (IH _ _ Hb1 H2) as [Hno Hb2]. split.
    + intros [E|Hin]; [exact (Hnp E) | exact (Hno Hin)].
    + assert (Hl : last (map r_now (r :: rs)) t0 = last (map r_now rs) (r_now r))
        by (cbn [map]; apply last_cons).
      rewrite Hl. exact Hb2.
Qed.

Theorem monotone_timeline_never_panics :
  forall (bypass : list N) (rs : list req),
  monotone_from 0 rs -> ~ In ClockPanic (snd (run_limiter (limiter_new bypass) rs)).
Proof.
  intros bypass rs Hm. apply (monotone_no_panic rs (limiter_new bypass) 0%N).
  - intros h b H. discriminate H.
  - exact Hm.
Qed.

(* the window bound for monotone timelines, window length = last - first time
   of the window (all calls of the window, whatever their host) *)
Theorem window_bound_monotone :
  forall (bypass : list N) (pre win : list req) (h : host) (first : req) (rest : list req),
  win = first :: rest ->
  monotone_from 0 (pre ++ win) ->
  let l0 := fst (run_limiter (limiter_new bypass) pre) in
  let l1 := fst (run_limiter l0 win) in
  let outs := snd (run_limiter l0 win) in
  let len := (last (map r_now win) 0 - r_now first)%N in
  ~ In ClockPanic outs /\
  match bk_lookup h (l_buckets l1) with
  | Some b =>
      0 <= b_num b ->
      passed_for h win outs * Zpos (b_den b)
        <= Z.of_N (b_cap b) * Zpos (b_den b) + b_num b * Z.of_N (len / 1000)
  | None => passed_for h win outs = 0
  end.
Proof.
  intros bypass pre win h first rest Ew Hm l0 l1 outs len.
  destruct (monotone_from_app _ _ _ Hm) as [Hpre Hwin].
  split.
  - pose proof (monotone_timeline_never_panics bypass (pre ++ win) Hm) as Hno.
    rewrite run_limiter_app in Hno. cbn [snd] in Hno. intros Hin. apply Hno.
    apply in_or_app. right. exact Hin.
  - subst win. cbn [monotone_from] in Hwin. destruct Hwin as [Hf Hrest].
    assert (Hmw : monotone_from (r_now first) (first :: rest)) by (split; [lia | exact Hrest]).
    pose proof (monotone_from_bounds _ _ Hmw) as Hb.
    assert (Hl : last (map r_now (first :: rest)) 0%N = last (map r_now (first :: rest)) (r_now first))
      by (cbn [map]; rewrite !last_cons; reflexivity).
    unfold len. rewrite Hl.
    apply (window_bound_any_timeline bypass pre (first :: rest) h (r_now first)
             (last (map r_now (first :: rest)) (r_now first))).
    intros r Hin _. exact (Hb r Hin).
Qed.

(* bypassed nodes and non-routable addresses are never limited: the call
   returns false and no bucket is created or touched, in any state *)
Theorem bypass_and_lan_never_limited :
  forall (l : limiter) (r : req),
  (match r_nid r with Some n => In n (l_bypass l) | None => False end) \/
  host_unroutable (r_host r) = true ->
  fst (limit l r) = l /\ (snd (limit l r) = Bypassed \/ snd (limit l r) = Unroutable).
Proof.
  intros l r H. apply limit_not_reaching. unfold reaches, req_bypassed.
  destruct H as [H|H].
  - destruct (r_nid r) as [n|]; [|contradiction]. apply memN_In in H. rewrite H. reflexivity.
  - rewrite H. apply andb_false_r.
Qed.

Lemma oct0_build a b c d : (a < 256 -> b < 256 -> c < 256 -> d < 256 ->
  oct0 (a * 16777216 + b * 65536 + c * 256 + d) = a)%N.
Proof.
  intros Ha Hb Hc Hd. unfold oct0.
  replace (a * 16777216 + b * 65536 + c * 256 + d)%N with ((b * 65536 + c * 256 + d) + a * 16777216)%N by lia.
  rewrite N.div_add by discriminate. rewrite (N.div_small (b * 65536 + c * 256 + d)) by lia.
  rewrite N.add_0_l. apply N.mod_small. exact Ha.
Qed.

Lemma oct1_build a b c d : (a < 256 -> b < 256 -> c < 256 -> d < 256 ->
  oct1 (a * 16777216 + b * 65536 + c * 256 + d) = b)%N.
Proof.
  intros Ha Hb Hc Hd. unfold oct1.
  replace (a * 16777216 + b * 65536 + c * 256 + d)%N with ((c * 256 + d) + (a * 256 + b) * 65536)%N by lia.
  rewrite N.div_add by discriminate. rewrite (N.div_small (c * 256 + d)) by lia.
  rewrite N.add_0_l. rewrite N.add_comm, N.mod_add by discriminate. apply N.mod_small. exact Hb.
Qed.

(* the private / loopback / link-local / "this network" ranges are non-routable *)
Theorem lan_ranges_unroutable :
  forall a b c d : N, (a < 256 -> b < 256 -> c < 256 -> d < 256 ->
  a = 10 \/ (a = 172 /\ 16 <= b <= 31) \/ (a = 192 /\ b = 168) \/ a = 127 \/ (a = 169 /\ b = 254) \/ a = 0 ->
  host_unroutable (HIp4 (a * 16777216 + b * 65536 + c * 256 + d)) = true)%N.
Proof.
  intros a b c d Ha Hb Hc Hd H. cbn [host_unroutable]. unfold ipv4_is_routable.
  set (ip := (a * 16777216 + b * 65536 + c * 256 + d)%N).
  assert (H0 : oct0 ip = a) by (apply oct0_build; assumption).
  assert (H1 : oct1 ip = b) by (apply oct1_build; assumption).
  assert (Hne1 : N.eqb ip 3221225481 = false).
  { apply N.eqb_neq. intros E. assert (Hx : oct0 ip = 192%N /\ oct1 ip = 0%N) by (rewrite E; split; reflexivity).
    rewrite H0, H1 in Hx. lia. }
  assert (Hne2 : N.eqb ip 3221225482 = false).
  { apply N.eqb_neq. intros E. assert (Hx : oct0 ip = 192%N /\ oct1 ip = 0%N) by (rewrite E; split; reflexivity).
    rewrite H0, H1 in Hx. lia. }
  destruct (ipv4_is_routable ip) eqn:E; [exfalso | unfold ipv4_is_routable in E; rewrite E; reflexivity].
  unfold ipv4_is_routable in E. rewrite Hne1, Hne2 in E. cbn [orb] in E.
  rewrite !andb_true_iff, !negb_true_iff in E.
  destruct E as (((((P1 & P2) & P3) & _) & _) & P6).
  unfold ipv4_is_private in P1. unfold ipv4_is_loopback in P2. unfold ipv4_is_link_local in P3.
  rewrite H0, H1 in *.
  rewrite !orb_false_iff, !andb_false_iff, !N.eqb_neq, !N.leb_gt in P1.
  rewrite N.eqb_neq in P2. rewrite andb_false_iff, !N.eqb_neq in P3. rewrite N.eqb_neq in P6.
  lia.
Qed.

(* the panic: exactly when the call reaches an existing bucket whose
   refilled_at is later than now; nothing changes, nothing is let through *)
Theorem clock_panic_exactly :
  forall (l : limiter) (r : req),
  snd (limit l r) = ClockPanic <->
  (reaches l r = true /\ exists b, hb (r_host r) l = Some b /\ (r_now r < b_refilled b)%N).
Proof.
  intros l r. split.
  - intros Hp. destruct (reaches l r) eqn:Er.
    + split; [reflexivity|]. pose proof (limit_reaching l r Er) as Hr.
      destruct (bucket_take (entry_bucket l r) (r_now r)) as [[b1 ok]|] eqn:Et.
      * destruct Hr as [_ Hr]. rewrite Hr in Hp. destruct ok; discriminate.
      * unfold entry_bucket in Et. destruct (hb (r_host r) l) as [b|] eqn:E.
        -- exists b. split; [reflexivity|]. apply bucket_take_none. exact Et.
        -- exfalso. exact (bucket_new_take _ _ Et).
    + destruct (limit_not_reaching l r Er) as [_ [Ho|Ho]]; rewrite Ho in Hp; discriminate.
  - intros [Er (b & Hb & Hlt)]. pose proof (limit_reaching l r Er) as Hr.
    assert (Ee : entry_bucket l r = b) by (unfold entry_bucket; rewrite Hb; reflexivity).
    rewrite Ee in Hr. apply bucket_take_none in Hlt. rewrite Hlt in Hr. exact (proj2 Hr).
Qed.

Theorem clock_panic_changes_nothing :
  forall (l : limiter) (r : req), snd (limit l r) = ClockPanic ->
  forall h, hb h (fst (limit l r)) = hb h l.
Proof.
  intros l r Hp h. apply clock_panic_exactly in Hp. destruct Hp as [Er (b & Hb & Hlt)].
  destruct (host_eqb h (r_host r)) eqn:Eh.
  - apply host_eqb_eq in Eh. subst h. pose proof (limit_reaching l r Er) as Hr.
    assert (Ee : entry_bucket l r = b) by (unfold entry_bucket; rewrite Hb; reflexivity).
    rewrite Ee in Hr. apply bucket_take_none in Hlt. rewrite Hlt in Hr. rewrite (proj1 Hr). symmetry. exact Hb.
  - apply limit_other_host. exact Eh.
Qed.

(* a token is taken exactly when at least one whole token is available after
   the refill: the limiter does not refuse a host that has tokens *)
Theorem passes_iff_token_available :
  forall (l : limiter) (r : req) (b1 : bucket),
  reaches l r = true -> bucket_refill (entry_bucket l r) (r_now r) = Some b1 ->
  (snd (limit l r) = Passed <-> Zpos (b_den b1) <= b_tokens b1) /\
  (snd (limit l r) = Limited <-> b_tokens b1 < Zpos (b_den b1)).
Proof.
  intros l r b1 Er Hf. pose proof (limit_reaching l r Er) as Hr.
  unfold bucket_take in Hr. rewrite Hf in Hr.
  destruct (Z.leb (Zpos (b_den b1)) (b_tokens b1)) eqn:El; destruct Hr as [_ Hr]; rewrite Hr;
    [apply Z.leb_le in El | apply Z.leb_gt in El]; (split; split; intros H; try discriminate H; try reflexivity; lia).
Qed.

Theorem window_bound_rational :
  forall (bypass : list N) (pre win : list req) (h : host) (lo hi : N) (b : bucket),
  let l0 := fst (run_limiter (limiter_new bypass) pre) in
  let l1 := fst (run_limiter l0 win) in
  let outs := snd (run_limiter l0 win) in
  (forall r, In r win -> r_host r = h -> (lo <= r_now r <= hi)%N) ->
  bk_lookup h (l_buckets l1) = Some b -> 0 <= b_num b ->
  (inject_Z (passed_for h win outs)
     <= inject_Z (Z.of_N (b_cap b)) + (b_num b # b_den b) * inject_Z (Z.of_N ((hi - lo) / 1000)))%Q.
Proof.
  intros bypass pre win h lo hi b l0 l1 outs Hw Hb Hnum.
  apply window_bound_Q_form.
  pose proof (window_bound_any_timeline bypass pre win h lo hi Hw) as H.
  fold l0 in H. fold l1 in H. rewrite Hb in H. exact (H Hnum).
Qed.

Theorem bucket_keeps_first_tokens :
  forall (bypass : list N) (rs : list req) (h : host),
  option_map tokens_of (bk_lookup h (l_buckets (fst (run_limiter (limiter_new bypass) rs))))
  = option_map r_tok (first_reaching bypass h rs).
Proof. intros bypass rs h. apply (bucket_created_by_first h rs (limiter_new bypass)). reflexivity. Qed.

Theorem clock_panic_grants_nothing :
  forall (l : limiter) (r : req), snd (limit l r) = ClockPanic ->
  is_passed (snd (limit l r)) = false /\ forall h, hb h (fst (limit l r)) = hb h l.
Proof.
  intros l r Hp. split; [rewrite Hp; reflexivity | exact (clock_panic_changes_nothing l r Hp)].
Qed.
