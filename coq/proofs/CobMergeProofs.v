(* CobMergeProofs.v — C08: a patch is reported merged only on the strength of
   at least threshold-many distinct delegates' recorded merges of that very
   (revision, commit), each commit having passed the branch oracle; lifecycle
   actions cannot move a merged patch. *)
From HW Require Import lib.Base lib.SMap model.CobThread model.CobIssue model.CobPatch
  proofs.CobThreadProofs proofs.CobIssueProofs proofs.CobPatchProofs.
Local Open Scope N_scope.

Ltac crush H :=
  repeat match type of H with
  | leaves (match ?x with _ => _ end) _ => destruct x eqn:?
  | leaves (if ?x then _ else _) _ => destruct x eqn:?
  | leaves (omap _ _) _ => apply leaves_omap in H; destruct H as (? & ? & ->)
  | leaves (Ok _) _ => apply leaves_ok in H; subst
  | leaves (Err _ _) _ => apply leaves_err in H; subst
  | leaves (Panic _) _ => exfalso; eapply leaves_panic; exact H
  end.

Definition is_merge (a : paction) : bool := match a with PMerge _ _ => true | _ => false end.
Definition is_lifecycle (a : paction) : bool := match a with PLifecycle _ => true | _ => false end.

Section Merge.
Variables (dbg : bool) (orc : N -> N -> bres).

(* what an action other than Merge does to the merge table and the state *)
Lemma p_action_frame p act entry actor d p' :
  is_merge act = false ->
  leaves (p_action dbg orc p act entry actor d) p' ->
  p_merges p' = p_merges p /\
  (p_state p' = p_state p \/
   (is_lifecycle act = true /\ lifecycle_valid (p_state p) = true /\
    forall r c, p_state p' <> PMerged r c)).
Proof.
  intros Hm H. destruct act; try discriminate; cbn [p_action] in H;
    unfold on_discussion, on_review_comments, lookup_revision in H; crush H;
    try (split; [reflexivity|left; reflexivity]).
  - split; [reflexivity|]. right. split; [reflexivity|]. split; [reflexivity|].
    intros r c. cbn. destruct st; discriminate.
Qed.

Lemma lifecycle_valid_not_merged s r c : s = PMerged r c -> lifecycle_valid s = false.
Proof. intros ->. reflexivity. Qed.

(* ----- merge tally ----- *)

Lemma count_pair_length x (m : smap (N * N)) :
  count_pair x m = N.of_nat (length (filter (fun kv => pair_eqb x (snd kv)) m)).
Proof.
  unfold count_pair. f_equal. induction m as [|[k v] m IH]; cbn; [reflexivity|].
  destruct (pair_eqb x v); cbn; rewrite IH; reflexivity.
Qed.

Lemma fold_pset_in x l : In x (fold_right pset_add [] l) -> In x l.
Proof.
  induction l as [|y l IH]; cbn; [tauto|]. intros H. apply pset_add_in in H.
  destruct H as [->|H]; auto.
Qed.

Lemma winners_in thr m x : In x (winners thr m) -> thr <= count_pair x m.
Proof.
  unfold winners. intros H. apply fold_pset_in in H. apply filter_In in H.
  destruct H as [_ H]. apply N.leb_le. exact H.
Qed.

Lemma sorted_keys_nodup {V} (m : smap V) : sorted m -> NoDup (keys m).
Proof.
  induction m as [|[k v] m IH]; intros S; cbn; [constructor|].
  apply sorted_cons_inv in S. destruct S as [S F]. constructor; [|apply IH; exact S].
  intros HI. rewrite Forall_forall in F. specialize (F k HI). lia.
Qed.

Lemma nodup_filter_keys {V} (f : N * V -> bool) (m : smap V) :
  NoDup (keys m) -> NoDup (keys (filter f m)).
Proof.
  induction m as [|[k v] m IH]; intros ND; cbn; [constructor|].
  inversion ND as [|? ? Hn ND']; subst.
  destruct (f (k, v)); cbn; [|apply IH; exact ND'].
  constructor; [|apply IH; exact ND'].
  intros HI. apply Hn. unfold keys in *. apply in_map_iff in HI. destruct HI as ([k' v'] & E & HI).
  cbn in E. subst k'. apply filter_In in HI. destruct HI as [HI _].
  apply in_map_iff. exists (k, v'). auto.
Qed.

(* ----- the invariant ----- *)

Definition backed (hist : list pop) (k r c : N) : Prop :=
  exists o dk, In o hist /\ op_actor o = k /\ op_doc o = Some dk /\ is_delegate dk k = true /\
               In (PMerge r c) (op_actions o) /\ orc k c = BrOk.

(* at least threshold-many distinct actors, each backed by a Merge of (r, c) *)
Definition wit_at (d : doc) (hist : list pop) (r c : N) : Prop :=
  exists ks, NoDup ks /\ d_threshold d <= N.of_nat (length ks) /\
             forall k, In k ks -> backed hist k r c.

Definition witnessed (hist : list pop) (r c : N) : Prop :=
  exists d, In (Some d) (map op_doc hist) /\ wit_at d hist r c.

Definition minv (hist : list pop) (p : patch) : Prop :=
  sorted (p_merges p) /\
  (forall k r c, lookup k (p_merges p) = Some (r, c) -> backed hist k r c) /\
  (forall r c, p_state p = PMerged r c -> witnessed hist r c).

Lemma backed_mono h h' k r c : incl h h' -> backed h k r c -> backed h' k r c.
Proof. intros I (o & dk & A & B). exists o, dk. split; [apply I; exact A|exact B]. Qed.

Lemma wit_at_mono d h h' r c : incl h h' -> wit_at d h r c -> wit_at d h' r c.
Proof.
  intros I (ks & B & C & D). exists ks. split; [exact B|]. split; [exact C|].
  intros k Hk. eapply backed_mono; [exact I|apply D; exact Hk].
Qed.

Lemma witnessed_mono h h' r c : incl h h' -> witnessed h r c -> witnessed h' r c.
Proof.
  intros I (d & A & W). exists d. split.
  - apply in_map_iff in A. destruct A as (o & E & HI). apply in_map_iff. exists o. split; [exact E|apply I; exact HI].
  - eapply wit_at_mono; eassumption.
Qed.

Lemma minv_mono h h' p : incl h h' -> minv h p -> minv h' p.
Proof.
  intros I (A & B & C). split; [exact A|]. split.
  - intros k r c L. eapply backed_mono; [exact I|eapply B; exact L].
  - intros r c E. eapply witnessed_mono; [exact I|eapply C; exact E].
Qed.

Lemma minv_same hist p p' :
  p_merges p' = p_merges p -> p_state p' = p_state p -> minv hist p -> minv hist p'.
Proof. intros E1 E2 (A & B & C). unfold minv. rewrite E1, E2. auto. Qed.

(* the state is Merged r c afterwards only if it was before or this step,
   under document [d], found the threshold *)
Definition became (d : doc) (hist : list pop) (p p' : patch) : Prop :=
  forall r c, p_state p' = PMerged r c -> p_state p = PMerged r c \/ wit_at d hist r c.

Lemma became_refl d hist p : became d hist p p.
Proof. intros r c E. left. exact E. Qed.

Lemma became_trans d hist p1 p2 p3 : became d hist p1 p2 -> became d hist p2 p3 -> became d hist p1 p3.
Proof.
  intros H12 H23 r c E. destruct (H23 r c E) as [E2|W]; [|right; exact W]. apply H12. exact E2.
Qed.

(* one action of op [o] *)
Lemma p_op_action_minv hist (o : pop) d p act p' :
  In o hist -> op_doc o = Some d -> In act (op_actions o) ->
  minv hist p ->
  leaves (p_op_action dbg orc p act (op_id o) (op_actor o) d) p' ->
  minv hist p' /\ became d hist p p'.
Proof.
  intros Ho Hd Hact Hinv H. unfold p_op_action in H.
  destruct (p_authz dbg p act (op_actor o) d) as [[| |]|e|k] eqn:EA; crush H;
    try (split; [exact Hinv|apply became_refl]).
  destruct (is_merge act) eqn:IM.
  - destruct act; try discriminate.
    (* the author is a delegate, or authorization would have said Deny *)
    assert (Hdel : is_delegate d (op_actor o) = true).
    { unfold p_authz in EA. destruct (is_delegate d (op_actor o)); [reflexivity|discriminate]. }
    cbn [p_action] in H. unfold lookup_revision in H.
    destruct (lookup revision (p_revisions p)) as [[r0|]|];
      [|apply leaves_ok in H; subst p'; split; [exact Hinv|apply became_refl]
       |apply leaves_err in H; subst p'; split; [exact Hinv|apply became_refl]].
    destruct (orc (op_actor o) commit) eqn:EO;
      [apply leaves_ok in H; subst p'; split; [exact Hinv|apply became_refl]|
      |apply leaves_ok in H; subst p'; split; [exact Hinv|apply became_refl]
      |apply leaves_err in H; subst p'; split; [exact Hinv|apply became_refl]].
    destruct Hinv as (S & B & C).
    set (m := insert (op_actor o) (revision, commit) (p_merges p)) in *.
    assert (Sm : sorted m) by (apply sorted_upsert; exact S).
    assert (Bm : forall k r c, lookup k m = Some (r, c) -> backed hist k r c).
    { intros k r c L. unfold m in L. rewrite lookup_insert_any in L.
      destruct (N.eqb_spec k (op_actor o)) as [->|_].
      - inversion L; subst. exists o, d. repeat split; auto.
      - eapply B. exact L. }
    assert (Wm : forall r c, In (r, c) (winners (d_threshold d) m) -> wit_at d hist r c).
    { intros r c Hw. apply winners_in in Hw. rewrite count_pair_length in Hw.
      exists (keys (filter (fun kv => pair_eqb (r, c) (snd kv)) m)).
      split; [apply nodup_filter_keys; apply sorted_keys_nodup; exact Sm|].
      split; [unfold keys; rewrite map_length; exact Hw|].
      intros k Hk. unfold keys in Hk. apply in_map_iff in Hk. destruct Hk as ([k' v'] & E & Hk).
      cbn in E. subst k'. apply filter_In in Hk. destruct Hk as [Hk Hv]. cbn in Hv.
      apply pair_eqb_eq in Hv. subst v'. apply Bm. apply In_lookup; assumption. }
    assert (Hdoc : In (Some d) (map op_doc hist)) by (apply in_map_iff; exists o; auto).
    destruct (winners (d_threshold d) m) as [|[r1 c1] [|x w]] eqn:EW; apply leaves_ok in H; subst p'.
    + split; [|intros r c E; left; exact E]. split; [exact Sm|]. split; [exact Bm|]. cbn. exact C.
    + assert (W1 : wit_at d hist r1 c1) by (apply Wm; left; reflexivity).
      split; [|intros r c E; cbn in E; inversion E; subst; right; exact W1].
      split; [exact Sm|]. split; [exact Bm|]. cbn. intros r c E. inversion E; subst.
      exists d. split; [exact Hdoc|exact W1].
    + split; [|intros r c E; cbn in E; discriminate].
      split; [exact Sm|]. split; [exact Bm|]. cbn. intros r c E. discriminate.
  - destruct (p_action_frame p act (op_id o) (op_actor o) d p' IM H) as [E1 E2].
    destruct E2 as [E2|(_ & V & NM)].
    + split; [eapply minv_same; eassumption|]. intros r c E. left. congruence.
    + split; [|intros r c E; exfalso; eapply NM; exact E].
      destruct Hinv as (S & B & C). split; [rewrite E1; exact S|]. split; [rewrite E1; exact B|].
      intros r c E. exfalso. eapply NM. exact E.
Qed.

Lemma p_actions_minv hist (o : pop) d acts : forall p p',
  In o hist -> op_doc o = Some d -> incl acts (op_actions o) ->
  minv hist p ->
  leaves (p_actions dbg orc p acts (op_id o) (op_actor o) d) p' ->
  minv hist p' /\ became d hist p p'.
Proof.
  induction acts as [|act acts IH]; intros p p' Ho Hd Hi Hinv H; cbn [p_actions] in H.
  - apply leaves_ok in H. subst. split; [exact Hinv|apply became_refl].
  - assert (Ha : In act (op_actions o)) by (apply Hi; left; reflexivity).
    assert (Hi' : incl acts (op_actions o)) by (intros x Hx; apply Hi; right; exact Hx).
    destruct (p_op_action dbg orc p act (op_id o) (op_actor o) d) as [p1|e p1|k] eqn:E.
    + destruct (p_op_action_minv hist o d p act p1 Ho Hd Ha Hinv) as [I1 B1]; [left; exact E|].
      destruct (IH p1 p' Ho Hd Hi' I1 H) as [I2 B2]. split; [exact I2|eapply became_trans; eassumption].
    + apply leaves_err in H. subst p'.
      apply (p_op_action_minv hist o d p act p1 Ho Hd Ha Hinv). right; eexists; exact E.
    + exfalso. eapply leaves_panic; exact H.
Qed.

Lemma minv_push hist p id : minv hist p -> minv hist (p_push_timeline p id).
Proof. intros H. eapply minv_same; [| |exact H]; reflexivity. Qed.

Variable atomic : bool.

Lemma p_apply_minv hist (o : pop) p p' :
  In o hist -> minv hist p -> leaves (p_apply dbg atomic orc p o) p' ->
  minv hist p' /\
  (forall r c, p_state p' = PMerged r c ->
     p_state p = PMerged r c \/ exists d, op_doc o = Some d /\ wit_at d hist r c).
Proof.
  intros Ho Hinv H. unfold p_apply, p_apply_raw in H.
  destruct (dbg && memN (op_id o) (p_timeline p)); [exfalso; eapply leaves_panic; exact H|].
  destruct (op_doc o) as [d|] eqn:Hd.
  - assert (G : forall p1, leaves (p_actions dbg orc (p_push_timeline p (op_id o)) (op_actions o) (op_id o) (op_actor o) d) p1 ->
                minv hist p1 /\
                (forall r c, p_state p1 = PMerged r c ->
                   p_state p = PMerged r c \/ exists d0, Some d = Some d0 /\ wit_at d0 hist r c)).
    { intros p1 L.
      destruct (p_actions_minv hist o d (op_actions o) (p_push_timeline p (op_id o)) p1 Ho Hd (incl_refl _)
                  (minv_push hist p (op_id o) Hinv) L) as [I B].
      split; [exact I|]. intros r c E. destruct (B r c E) as [E'|W]; [left; exact E'|right; exists d; auto]. }
    destruct (p_actions dbg orc (p_push_timeline p (op_id o)) (op_actions o) (op_id o) (op_actor o) d)
      as [p1|e p1|k] eqn:E.
    + apply leaves_ok in H. subst p'. apply G. left; reflexivity.
    + apply leaves_err in H. subst p'. destruct atomic; [split; [exact Hinv|intros r c E'; left; exact E']|].
      apply G. right; eexists; reflexivity.
    + exfalso. eapply leaves_panic; exact H.
  - apply leaves_err in H. subst p'. destruct atomic.
    + split; [exact Hinv|intros r c E'; left; exact E'].
    + split; [apply minv_push; exact Hinv|intros r c E'; left; exact E'].
Qed.

Lemma p_init_minv (root : pop) p : p_init dbg orc root = Ok p -> minv [root] p.
Proof.
  unfold p_init. intros H. destruct (op_doc root) as [d|] eqn:Hd; [|discriminate].
  destruct (op_actions root) as [|[] l] eqn:Ha; try discriminate.
  destruct l as [|[] l]; try discriminate.
  match type of H with p_actions _ _ ?P _ _ _ _ = _ => set (p0 := P) in H end.
  assert (I0 : minv [root] p0).
  { split; [apply sorted_nil|]. split; [intros k r c L; discriminate|intros r c E; discriminate]. }
  assert (Hi : incl l (op_actions root)) by (rewrite Ha; intros x Hx; right; right; exact Hx).
  destruct (p_actions_minv [root] root d l p0 p (or_introl eq_refl) Hd Hi I0) as [I _]; [left; exact H|exact I].
Qed.

Lemma p_run_minv : forall (ops : list pop) hist p p',
  minv hist p -> p_run dbg atomic orc p ops = Some p' -> minv (hist ++ ops) p'.
Proof.
  induction ops as [|o ops IH]; intros hist p p' Hinv R; cbn [p_run] in R.
  - inversion R; subst. rewrite app_nil_r. exact Hinv.
  - destruct (p_step dbg atomic orc p o) as [p1|] eqn:S; [|discriminate].
    replace (hist ++ o :: ops) with ((hist ++ [o]) ++ ops) by (rewrite <- app_assoc; reflexivity).
    apply (IH (hist ++ [o]) p1 p'); [|exact R].
    assert (Hinv' : minv (hist ++ [o]) p) by (eapply minv_mono; [apply incl_appl, incl_refl|exact Hinv]).
    assert (Ho : In o (hist ++ [o])) by (apply in_or_app; right; left; reflexivity).
    unfold p_step in S. destruct (p_apply dbg atomic orc p o) as [x|e x|k] eqn:E; inversion S; subst x.
    + eapply (p_apply_minv (hist ++ [o]) o p p1 Ho Hinv'). left; exact E.
    + eapply (p_apply_minv (hist ++ [o]) o p p1 Ho Hinv'). right; eexists; exact E.
Qed.

(* C08, main statement *)
Lemma merged_needs_threshold (root : pop) (ops : list pop) p0 p r c :
  p_init dbg orc root = Ok p0 ->
  p_run dbg atomic orc p0 ops = Some p ->
  p_state p = PMerged r c ->
  witnessed (root :: ops) r c.
Proof.
  intros Hi Hr Hs. pose proof (p_run_minv ops [root] p0 p (p_init_minv _ _ Hi) Hr) as (_ & _ & C).
  apply C. exact Hs.
Qed.

Lemma merges_backed (root : pop) (ops : list pop) p0 p k r c :
  p_init dbg orc root = Ok p0 ->
  p_run dbg atomic orc p0 ops = Some p ->
  lookup k (p_merges p) = Some (r, c) ->
  backed (root :: ops) k r c.
Proof.
  intros Hi Hr L. pose proof (p_run_minv ops [root] p0 p (p_init_minv _ _ Hi) Hr) as (_ & B & _).
  eapply B. exact L.
Qed.

(* the transition: the op at which a patch becomes Merged r c refers to a
   document whose threshold is met by distinct backers *)
Lemma becomes_merged_at_op (root : pop) (pre : list pop) (o : pop) p0 p1 p2 r c :
  p_init dbg orc root = Ok p0 ->
  p_run dbg atomic orc p0 pre = Some p1 ->
  p_step dbg atomic orc p1 o = Some p2 ->
  p_state p2 = PMerged r c -> p_state p1 <> PMerged r c ->
  exists d, op_doc o = Some d /\ wit_at d (root :: pre ++ [o]) r c.
Proof.
  intros Hi Hr Hs E2 N1.
  pose proof (p_run_minv pre [root] p0 p1 (p_init_minv _ _ Hi) Hr) as I1.
  assert (I1' : minv (([root] ++ pre) ++ [o]) p1) by (eapply minv_mono; [apply incl_appl, incl_refl|exact I1]).
  assert (Ho : In o (([root] ++ pre) ++ [o])) by (apply in_or_app; right; left; reflexivity).
  unfold p_step in Hs.
  assert (L : leaves (p_apply dbg atomic orc p1 o) p2).
  { destruct (p_apply dbg atomic orc p1 o) as [x|e x|k]; inversion Hs; subst; [left; reflexivity|right; eexists; reflexivity]. }
  destruct (p_apply_minv _ o p1 p2 Ho I1' L) as [_ B].
  destruct (B r c E2) as [C|W]; [contradiction|]. exact W.
Qed.

(* if every op refers to the same document, the backers are delegates of it *)
Lemma merged_needs_threshold_one_doc (root : pop) (ops : list pop) d p0 p r c :
  Forall (fun o => op_doc o = Some d \/ op_doc o = None) (root :: ops) ->
  p_init dbg orc root = Ok p0 ->
  p_run dbg atomic orc p0 ops = Some p ->
  p_state p = PMerged r c ->
  exists ks, NoDup ks /\ d_threshold d <= N.of_nat (length ks) /\
    forall k, In k ks ->
      is_delegate d k = true /\ orc k c = BrOk /\
      exists o, In o (root :: ops) /\ op_actor o = k /\ In (PMerge r c) (op_actions o).
Proof.
  intros Hdocs Hi Hr Hs. destruct (merged_needs_threshold root ops p0 p r c Hi Hr Hs) as (d' & A & ks & B & C & D).
  rewrite Forall_forall in Hdocs.
  assert (d' = d).
  { apply in_map_iff in A. destruct A as (o & E & HI). destruct (Hdocs o HI) as [E'|E']; congruence. }
  subst d'. exists ks. split; [exact B|]. split; [exact C|].
  intros k Hk. destruct (D k Hk) as (o & dk & O1 & O2 & O3 & O4 & O5 & O6).
  assert (dk = d) by (destruct (Hdocs o O1) as [E'|E']; congruence). subst dk.
  split; [exact O4|]. split; [exact O6|]. exists o. auto.
Qed.

(* lifecycle cannot unmerge; more generally nothing but a Merge moves a merged patch *)
Lemma lifecycle_cannot_unmerge p st entry actor d r c :
  p_state p = PMerged r c ->
  exists p', p_action dbg orc p (PLifecycle st) entry actor d = Ok p' /\ p_state p' = PMerged r c.
Proof.
  intros E. cbn [p_action]. rewrite E. cbn [lifecycle_valid]. exists p. auto.
Qed.

Lemma only_merge_moves_merged (o : pop) p p' r c :
  forallb (fun a => negb (is_merge a)) (op_actions o) = true ->
  p_state p = PMerged r c ->
  leaves (p_apply dbg atomic orc p o) p' ->
  p_state p' = PMerged r c /\ p_merges p' = p_merges p.
Proof.
  intros Hnm Hs H. unfold p_apply, p_apply_raw in H.
  destruct (dbg && memN (op_id o) (p_timeline p)); [exfalso; eapply leaves_panic; exact H|].
  assert (G : forall d acts q q', forallb (fun a => negb (is_merge a)) acts = true ->
              p_state q = PMerged r c ->
              leaves (p_actions dbg orc q acts (op_id o) (op_actor o) d) q' ->
              p_state q' = PMerged r c /\ p_merges q' = p_merges q).
  { intros d acts. induction acts as [|act acts IH]; intros q q' Hf Hq Hl; cbn [p_actions] in Hl.
    - apply leaves_ok in Hl. subst. auto.
    - cbn [forallb] in Hf. apply andb_true_iff in Hf. destruct Hf as [Hf1 Hf2].
      apply negb_true_iff in Hf1.
      assert (Step : forall q1, leaves (p_op_action dbg orc q act (op_id o) (op_actor o) d) q1 ->
                                p_state q1 = PMerged r c /\ p_merges q1 = p_merges q).
      { intros q1 L1. unfold p_op_action in L1.
        destruct (p_authz dbg q act (op_actor o) d) as [[| |]|e|k]; crush L1; auto.
        destruct (p_action_frame q act _ _ _ _ Hf1 L1) as [E1 [E2|(_ & V & _)]].
        - split; congruence.
        - rewrite (lifecycle_valid_not_merged _ _ _ Hq) in V. discriminate. }
      destruct (p_op_action dbg orc q act (op_id o) (op_actor o) d) as [q1|e q1|k] eqn:E.
      + destruct (Step q1) as [S1 S2]; [left; reflexivity|].
        destruct (IH q1 q' Hf2 S1 Hl) as [T1 T2]. split; congruence.
      + apply leaves_err in Hl. subst q'. apply Step. right; eexists; reflexivity.
      + exfalso. eapply leaves_panic; exact Hl. }
  destruct (op_doc o) as [d|].
  - destruct (p_actions dbg orc (p_push_timeline p (op_id o)) (op_actions o) (op_id o) (op_actor o) d)
      as [p1|e p1|k] eqn:E.
    + apply leaves_ok in H. subst p'. apply (G d (op_actions o) (p_push_timeline p (op_id o)) p1 Hnm Hs). left; exact E.
    + apply leaves_err in H. subst p'. destruct atomic; [auto|].
      apply (G d (op_actions o) (p_push_timeline p (op_id o)) p1 Hnm Hs). right; eexists; exact E.
    + exfalso. eapply leaves_panic; exact H.
  - apply leaves_err in H. subst p'. destruct atomic; auto.
Qed.

End Merge.
