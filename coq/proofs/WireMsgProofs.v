(* WireMsgProofs.v — proofs about the gossip message codec model (model/WireMsg.v):
   round trip, frame fit, canonical (unique) encoding.  Everything here holds for ANY
   string / onion validity predicates (Section variables without hypotheses). *)
From HW Require Import lib.Base model.WireVarint gen.ConstsWire model.WireMsg proofs.WireVarintProofs.
Local Open Scope N_scope.

Arguments be_bytes : simpl never.
Arguments rpt : simpl never.

(* [Some a = Some x] with [x] a variable: substitute without any reduction *)
Ltac some_inv H :=
  match type of H with
  | Some ?a = Some ?b => assert (b = a) as -> by congruence; clear H
  end.
Ltac rok_inv H :=
  match type of H with
  | ROk ?a ?r = ROk ?b ?r' =>
      let H1 := fresh "Hrka" in let H2 := fresh "Hrkb" in
      assert (H1 : a = b) by congruence; assert (H2 : r = r') by congruence; clear H;
      try subst a; try subst b; try subst r; try subst r'
  end.

(* ------------------------------------------------------------------ bytes *)

Lemma bytes_ok_app a b : bytes_ok (a ++ b) <-> bytes_ok a /\ bytes_ok b.
Proof. unfold bytes_ok. apply Forall_app. Qed.

Lemma bytes_ok_cons b l : bytes_ok (b :: l) <-> b < 256 /\ bytes_ok l.
Proof. unfold bytes_ok. split; [intros H; inversion H; auto | intros [H1 H2]; constructor; auto]. Qed.

Lemma len_length {A} (l : list A) : N.to_nat (len l) = length l.
Proof. unfold len. apply Nat2N.id. Qed.

Lemma length_len {A} (l : list A) n : length l = N.to_nat n -> len l = n.
Proof. unfold len. intros ->. apply N2Nat.id. Qed.

Lemma len_length_eq {A} (l : list A) n : len l = n -> length l = N.to_nat n.
Proof. intros <-. symmetry. apply len_length. Qed.

(* ------------------------------------------------------------------ take_opt *)

Lemma take_opt_app a r : take_opt (length a) (a ++ r) = Some (a, r).
Proof. induction a as [|x a IH]; cbn [take_opt length app]; [reflexivity|now rewrite IH]. Qed.

Lemma take_opt_inv k : forall inp a r, take_opt k inp = Some (a, r) -> inp = a ++ r /\ length a = k.
Proof.
  induction k as [|k IH]; intros inp a r H; cbn [take_opt] in H.
  - inversion H; subst. split; reflexivity.
  - destruct inp as [|b inp]; [discriminate|].
    destruct (take_opt k inp) as [[a' r']|] eqn:E; [|discriminate].
    inversion H; subst. apply IH in E. destruct E as [-> <-]. split; reflexivity.
Qed.

(* ------------------------------------------------------------------ big endian *)

Lemma be_from_split l : forall acc, be_from acc l = acc * 256 ^ len l + be l.
Proof.
  induction l as [|x l IH]; intros acc.
  - unfold be, be_from. cbn [fold_left]. rewrite len_nil. cbn. lia.
  - rewrite be_cons. unfold be_from in *. cbn [fold_left].
    rewrite (IH (acc * 256 + x)), (IH x), len_cons.
    rewrite N.add_1_l, N.pow_succ_r'. ring.
Qed.

Lemma be_cons_split b l : be (b :: l) = b * 256 ^ len l + be l.
Proof. rewrite be_cons. apply be_from_split. Qed.

Lemma be_lt l : bytes_ok l -> be l < 256 ^ len l.
Proof.
  induction l as [|b l IH]; intros H.
  - unfold be, be_from. cbn. lia.
  - apply bytes_ok_cons in H. destruct H as [Hb Hl]. specialize (IH Hl).
    rewrite be_cons_split, len_cons, N.add_1_l, N.pow_succ_r'. nia.
Qed.

Lemma be_inj l : forall l', length l = length l' -> bytes_ok l -> bytes_ok l' -> be l = be l' -> l = l'.
Proof.
  induction l as [|b l IH]; intros [|b' l'] HL H1 H2 E; try discriminate; [reflexivity|].
  cbn [length] in HL. injection HL as HL.
  apply bytes_ok_cons in H1. apply bytes_ok_cons in H2. destruct H1 as [Hb H1], H2 as [Hb' H2].
  rewrite !be_cons_split in E.
  assert (HP : len l = len l') by (unfold len; now rewrite HL).
  pose proof (be_lt l H1) as B1. pose proof (be_lt l' H2) as B2. rewrite HP in *.
  set (P := 256 ^ len l') in *.
  assert (b = b') by nia. subst b'.
  assert (be l = be l') by nia.
  f_equal. apply IH; assumption.
Qed.

Lemma pow256_of_nat k : 256 ^ N.of_nat k = 256 ^ N.of_nat k. Proof. reflexivity. Qed.

Lemma be_be_bytes k x : x < 256 ^ N.of_nat k -> be (be_bytes k x) = x.
Proof.
  intros H. unfold be. rewrite be_from_be_bytes. rewrite N.mod_small by exact H. lia.
Qed.

Lemma be_bytes_be bs : bytes_ok bs -> be_bytes (length bs) (be bs) = bs.
Proof.
  intros H. apply be_inj.
  - apply be_bytes_length.
  - apply be_bytes_ok.
  - exact H.
  - apply be_be_bytes. pose proof (be_lt bs H) as B. unfold len in B. exact B.
Qed.

Lemma len_be_bytes k x : len (be_bytes k x) = N.of_nat k.
Proof. unfold len. now rewrite be_bytes_length. Qed.

Lemma enc_u8_small x : x < 256 -> enc_u8 x = [x].
Proof.
  intros H. unfold enc_u8. change (be_bytes 1 x) with [(x / 256 ^ 0) mod 256].
  rewrite N.pow_0_r, N.div_1_r.
  now rewrite N.mod_small by exact H.
Qed.

(* ------------------------------------------------------------------ primitive decoders *)

Lemma dec_bytes_rt a rest : dec_bytes (length a) (a ++ rest) = ROk a rest.
Proof. unfold dec_bytes. now rewrite take_opt_app. Qed.

Lemma dec_bytes_rt' k a rest : length a = k -> dec_bytes k (a ++ rest) = ROk a rest.
Proof. intros <-. apply dec_bytes_rt. Qed.

Lemma dec_bytes_inv k inp a rest :
  dec_bytes k inp = ROk a rest -> inp = a ++ rest /\ length a = k.
Proof.
  unfold dec_bytes. destruct (take_opt k inp) as [[a' r']|] eqn:E; [|discriminate].
  intros H; inversion H; subst. now apply take_opt_inv.
Qed.

Lemma dec_be_rt k x rest : x < 256 ^ N.of_nat k -> dec_be k (be_bytes k x ++ rest) = ROk x rest.
Proof.
  intros H. unfold dec_be.
  rewrite <- (be_bytes_length k x) at 1. rewrite take_opt_app. now rewrite be_be_bytes.
Qed.

Lemma dec_be_inv k inp x rest :
  bytes_ok inp -> dec_be k inp = ROk x rest ->
  inp = be_bytes k x ++ rest /\ x < 256 ^ N.of_nat k /\ bytes_ok rest.
Proof.
  intros Hok. unfold dec_be. destruct (take_opt k inp) as [[a r]|] eqn:E; [|discriminate].
  intros H; inversion H; subst. apply take_opt_inv in E. destruct E as [-> <-].
  apply bytes_ok_app in Hok. destruct Hok as [Ha Hr].
  rewrite be_bytes_be by exact Ha. repeat split; try assumption.
  pose proof (be_lt a Ha) as B. exact B.
Qed.

Lemma dec_u8_rt x rest : x < 256 -> dec_u8 (enc_u8 x ++ rest) = ROk x rest.
Proof. intros H. now rewrite enc_u8_small. Qed.

Lemma dec_u8_inv inp x rest :
  bytes_ok inp -> dec_u8 inp = ROk x rest -> inp = enc_u8 x ++ rest /\ x < 256 /\ bytes_ok rest.
Proof.
  intros Hok. destruct inp as [|b r]; cbn [dec_u8]; [discriminate|].
  intros H; inversion H; subst. apply bytes_ok_cons in Hok. destruct Hok as [Hb Hr].
  rewrite enc_u8_small by exact Hb. auto.
Qed.

(* ------------------------------------------------------------------ generic vectors *)

Ltac bind_inv H :=
  match type of H with
  | bind ?r _ = ROk _ _ =>
      let a := fresh "v" in let rest := fresh "r" in let E := fresh "E" in
      destruct r as [a rest|?] eqn:E; cbn [bind] in H; [|discriminate H]
  end.

Section Vec.
  Context {A : Type}.
  Variable f : A -> option (list N).
  Variable d : list N -> res A.
  Variable P : A -> Prop.

  Definition RT : Prop :=
    forall x, P x -> exists bs, f x = Some bs /\ forall rest, d (bs ++ rest) = ROk x rest.
  Definition CAN : Prop :=
    forall inp x rest, bytes_ok inp -> d inp = ROk x rest ->
      exists bs, f x = Some bs /\ inp = bs ++ rest /\ P x.

  Lemma dec_n_rt : RT -> forall l, Forall P l ->
    exists bs, enc_items f l = Some bs /\ forall rest, dec_n d (length l) (bs ++ rest) = ROk l rest.
  Proof.
    intros HRT l HF. induction HF as [|x l Hx HF IH].
    - exists []. split; reflexivity.
    - destruct (HRT x Hx) as [a [Ea Da]]. destruct IH as [b [Eb Db]].
      exists (a ++ b). cbn [enc_items]. rewrite Ea. cbn [obind]. rewrite Eb. cbn [obind].
      split; [reflexivity|]. intros rest. cbn [length dec_n].
      rewrite <- app_assoc, Da. cbn [bind]. rewrite Db. reflexivity.
  Qed.

  Lemma dec_vec_rt limit : RT -> limit < 2 ^ 16 -> forall l, len l <= limit -> Forall P l ->
    exists bs, enc_vec f l = Some bs /\ forall rest, dec_vec limit d (bs ++ rest) = ROk l rest.
  Proof.
    intros HRT HL l Hl HF. destruct (dec_n_rt HRT l HF) as [b [Eb Db]].
    exists (enc_u16 (len l) ++ b). unfold enc_vec. rewrite Eb. cbn [obind]. split; [reflexivity|].
    intros rest. unfold dec_vec, enc_u16. rewrite <- app_assoc.
    rewrite dec_be_rt by (change (256 ^ N.of_nat 2) with (2 ^ 16); lia).
    cbn [bind]. destruct (N.leb_spec (len l) limit) as [_|C]; [|lia].
    rewrite len_length. apply Db.
  Qed.

  Lemma dec_n_can : CAN -> forall n inp l rest, bytes_ok inp -> dec_n d n inp = ROk l rest ->
    exists bs, enc_items f l = Some bs /\ inp = bs ++ rest /\ Forall P l /\ length l = n.
  Proof.
    intros HC n. induction n as [|n IH]; intros inp l rest Hok H; cbn [dec_n] in H.
    - inversion H; subst. exists []. repeat split; constructor.
    - bind_inv H. bind_inv H. inversion H; subst.
      destruct (HC _ _ _ Hok E) as [a [Ea [-> Px]]].
      apply bytes_ok_app in Hok. destruct Hok as [_ Hok].
      destruct (IH _ _ _ Hok E0) as [b [Eb [-> [HF HLn]]]].
      exists (a ++ b). cbn [enc_items]. rewrite Ea. cbn [obind]. rewrite Eb. cbn [obind].
      split; [reflexivity|]. split; [now rewrite app_assoc|].
      split; [constructor; assumption | cbn [length]; now rewrite HLn].
  Qed.

  Lemma dec_vec_can limit : CAN -> forall inp l rest, bytes_ok inp -> dec_vec limit d inp = ROk l rest ->
    exists bs, enc_vec f l = Some bs /\ inp = bs ++ rest /\ Forall P l /\ len l <= limit.
  Proof.
    intros HC inp l rest Hok H. unfold dec_vec in H. bind_inv H.
    apply dec_be_inv in E; [|exact Hok]. destruct E as [-> [Hv Hr]].
    destruct (N.leb_spec v limit) as [Hle|]; [|discriminate].
    destruct (dec_n_can HC _ _ _ _ Hr H) as [b [Eb [-> [HF HLn]]]].
    apply length_len in HLn. subst v.
    exists (enc_u16 (len l) ++ b). unfold enc_vec. rewrite Eb. cbn [obind].
    split; [reflexivity|]. split; [unfold enc_u16; now rewrite app_assoc|]. split; assumption.
  Qed.

  (* size of an encoded vector *)
  Lemma enc_items_len B : (forall x bs, P x -> f x = Some bs -> len bs <= B) ->
    forall l bs, Forall P l -> enc_items f l = Some bs -> len bs <= len l * B.
  Proof.
    intros HB l. induction l as [|x l IH]; intros bs HF H; cbn [enc_items] in H.
    - inversion H; subst. rewrite len_nil. lia.
    - inversion HF as [|? ? Px HF']; subst.
      destruct (f x) as [a|] eqn:Ea; cbn [obind] in H; [|discriminate].
      destruct (enc_items f l) as [b|] eqn:Eb; cbn [obind] in H; [|discriminate].
      inversion H; subst. rewrite len_app, len_cons.
      specialize (HB x a Px Ea). specialize (IH b HF' eq_refl). lia.
  Qed.

  Lemma enc_vec_len B : (forall x bs, P x -> f x = Some bs -> len bs <= B) ->
    forall l bs, Forall P l -> enc_vec f l = Some bs -> len bs <= 2 + len l * B.
  Proof.
    intros HB l bs HF H. unfold enc_vec in H.
    destruct (enc_items f l) as [b|] eqn:Eb; cbn [obind] in H; [|discriminate].
    some_inv H. rewrite len_app. unfold enc_u16. rewrite len_be_bytes.
    pose proof (enc_items_len B HB l b HF Eb). lia.
  Qed.
End Vec.

(* ------------------------------------------------------------------ fixed-width facts *)

Lemma pow256_1 : 256 ^ N.of_nat 1 = 2 ^ 8. Proof. reflexivity. Qed.
Lemma pow256_2 : 256 ^ N.of_nat 2 = 2 ^ 16. Proof. reflexivity. Qed.
Lemma pow256_8 : 256 ^ N.of_nat 8 = 2 ^ 64. Proof. reflexivity. Qed.

Lemma dec_u16_rt x rest : x < 2 ^ 16 -> dec_be 2 (enc_u16 x ++ rest) = ROk x rest.
Proof. intros H. apply dec_be_rt. now rewrite pow256_2. Qed.

Lemma dec_u64_rt x rest : x < 2 ^ 64 -> dec_be 8 (enc_u64 x ++ rest) = ROk x rest.
Proof. intros H. apply dec_be_rt. now rewrite pow256_8. Qed.

Lemma dec_u16_inv inp x rest : bytes_ok inp -> dec_be 2 inp = ROk x rest ->
  inp = enc_u16 x ++ rest /\ x < 2 ^ 16 /\ bytes_ok rest.
Proof. intros Hok H. apply dec_be_inv in H; [|exact Hok]. now rewrite pow256_2 in H. Qed.

Lemma dec_u64_inv inp x rest : bytes_ok inp -> dec_be 8 inp = ROk x rest ->
  inp = enc_u64 x ++ rest /\ x < 2 ^ 64 /\ bytes_ok rest.
Proof. intros Hok H. apply dec_be_inv in H; [|exact Hok]. now rewrite pow256_8 in H. Qed.

Lemma len_enc_u8 x : len (enc_u8 x) = 1. Proof. apply len_be_bytes. Qed.
Lemma len_enc_u16 x : len (enc_u16 x) = 2. Proof. apply len_be_bytes. Qed.
Lemma len_enc_u64 x : len (enc_u64 x) = 8. Proof. apply len_be_bytes. Qed.

(* bind with named results *)
Ltac binv H a rest E :=
  match type of H with
  | bind ?r _ = ROk _ _ =>
      destruct r as [a rest|?] eqn:E; cbn [bind] in H; [|discriminate H]
  end.

(* ------------------------------------------------------------------ oid, refs_at, timestamp, filter, zeroes *)

Lemma len_enc_oid o : len (enc_oid o) = 2 + len o.
Proof. unfold enc_oid, enc_slice. now rewrite len_app, len_enc_u16. Qed.

Lemma dec_oid_rt o rest : len o = OID_LEN -> dec_oid (enc_oid o ++ rest) = ROk o rest.
Proof.
  intros H. unfold dec_oid, enc_oid, enc_slice. rewrite <- app_assoc.
  rewrite dec_u16_rt by (rewrite H; reflexivity). cbn [bind].
  rewrite H, N.eqb_refl. apply dec_bytes_rt'. now apply len_length_eq.
Qed.

Lemma dec_oid_inv inp o rest : bytes_ok inp -> dec_oid inp = ROk o rest ->
  inp = enc_oid o ++ rest /\ len o = OID_LEN /\ bytes_ok rest.
Proof.
  intros Hok H. unfold dec_oid in H. binv H l r E.
  apply dec_u16_inv in E; [|exact Hok]. destruct E as [-> [Hl Hr]].
  destruct (N.eqb_spec l OID_LEN) as [->|]; [|discriminate].
  apply dec_bytes_inv in H. destruct H as [-> HL]. apply length_len in HL.
  apply bytes_ok_app in Hr. destruct Hr as [_ Hr].
  unfold enc_oid, enc_slice. rewrite HL, <- app_assoc. auto.
Qed.

Lemma oid_RT : RT (fun o => Some (enc_oid o)) dec_oid (fun o => len o = OID_LEN).
Proof. intros o H. exists (enc_oid o). split; [reflexivity|]. intros rest. now apply dec_oid_rt. Qed.

Lemma oid_CAN : CAN (fun o => Some (enc_oid o)) dec_oid (fun o => len o = OID_LEN).
Proof.
  intros inp o rest Hok H. apply dec_oid_inv in H; [|exact Hok]. destruct H as [-> [Hl _]].
  exists (enc_oid o). auto.
Qed.

Definition wf_refs_at' (r : refs_at) : Prop := len (ra_remote r) = PUBKEY_LEN /\ len (ra_at r) = OID_LEN.

Lemma refs_at_RT : RT (fun r => Some (enc_refs_at r)) dec_refs_at wf_refs_at'.
Proof.
  intros [n o] [Hn Ho]. cbn [ra_remote ra_at] in *. exists (enc_refs_at (mkRefsAt n o)).
  split; [reflexivity|]. intros rest. unfold dec_refs_at, enc_refs_at. cbn [ra_remote ra_at].
  rewrite <- app_assoc. rewrite dec_bytes_rt' by now apply len_length_eq. cbn [bind].
  rewrite dec_oid_rt by exact Ho. reflexivity.
Qed.

Lemma refs_at_CAN : CAN (fun r => Some (enc_refs_at r)) dec_refs_at wf_refs_at'.
Proof.
  intros inp x rest Hok H. unfold dec_refs_at in H. binv H n r E. binv H o r' E'.
  rok_inv H. apply dec_bytes_inv in E. destruct E as [-> HL]. apply length_len in HL.
  apply bytes_ok_app in Hok. destruct Hok as [_ Hok].
  apply dec_oid_inv in E'; [|exact Hok]. destruct E' as [-> [Ho _]].
  exists (enc_refs_at (mkRefsAt n o)). split; [reflexivity|].
  unfold enc_refs_at. cbn [ra_remote ra_at]. rewrite <- app_assoc. split; [reflexivity|].
  split; assumption.
Qed.

Lemma ts_max_lt : TIMESTAMP_MAX < 2 ^ 64. Proof. reflexivity. Qed.

Lemma dec_timestamp_rt t rest : t <= TIMESTAMP_MAX -> dec_timestamp (enc_u64 t ++ rest) = ROk t rest.
Proof.
  intros H. unfold dec_timestamp. pose proof ts_max_lt. rewrite dec_u64_rt by lia. cbn [bind].
  destruct (N.leb_spec t TIMESTAMP_MAX); [reflexivity|lia].
Qed.

Lemma dec_timestamp_inv inp t rest : bytes_ok inp -> dec_timestamp inp = ROk t rest ->
  inp = enc_u64 t ++ rest /\ t <= TIMESTAMP_MAX /\ bytes_ok rest.
Proof.
  intros Hok H. unfold dec_timestamp in H. binv H v r E.
  apply dec_u64_inv in E; [|exact Hok]. destruct E as [-> [Hv Hr]].
  destruct (N.leb_spec v TIMESTAMP_MAX); [|discriminate]. rok_inv H. auto.
Qed.

Lemma filter_size_lt n : In n FILTER_SIZES -> n < 2 ^ 16.
Proof. unfold FILTER_SIZES. cbn [In]. intros H. change (2 ^ 16) with 65536. lia. Qed.

Lemma dec_filter_rt f rest : In (len f) FILTER_SIZES -> dec_filter (enc_slice f ++ rest) = ROk f rest.
Proof.
  intros H. unfold dec_filter, enc_slice. rewrite <- app_assoc.
  rewrite dec_u16_rt by now apply filter_size_lt. cbn [bind].
  apply memN_In in H. rewrite H. apply dec_bytes_rt'. now rewrite len_length.
Qed.

Lemma dec_filter_inv inp f rest : bytes_ok inp -> dec_filter inp = ROk f rest ->
  inp = enc_slice f ++ rest /\ In (len f) FILTER_SIZES /\ bytes_ok rest.
Proof.
  intros Hok H. unfold dec_filter in H. binv H sz r E.
  apply dec_u16_inv in E; [|exact Hok]. destruct E as [-> [Hs Hr]].
  destruct (memN sz FILTER_SIZES) eqn:M; [|discriminate]. apply memN_In in M.
  apply dec_bytes_inv in H. destruct H as [-> HL]. apply length_len in HL. subst sz.
  apply bytes_ok_app in Hr. destruct Hr as [_ Hr].
  unfold enc_slice. rewrite <- app_assoc. auto.
Qed.

Lemma dec_zero_run_rt n rest : dec_zero_run n (repeat 0 n ++ rest) = ROk tt rest.
Proof. induction n as [|n IH]; cbn [dec_zero_run repeat app]; [reflexivity|]. rewrite N.eqb_refl. exact IH. Qed.

Lemma dec_zero_run_inv n : forall inp u rest, dec_zero_run n inp = ROk u rest -> inp = repeat 0 n ++ rest.
Proof.
  induction n as [|n IH]; intros inp u rest H; cbn [dec_zero_run] in H.
  - rok_inv H. reflexivity.
  - destruct inp as [|b r]; [discriminate|]. destruct (N.eqb_spec b 0) as [->|]; [|discriminate].
    apply IH in H. subst r. reflexivity.
Qed.

Lemma len_rpt z b : len (rpt z b) = z.
Proof. unfold rpt, len. rewrite repeat_length. apply N2Nat.id. Qed.

Lemma len_enc_zeroes z : len (enc_zeroes z) = 2 + z.
Proof. unfold enc_zeroes. now rewrite len_app, len_enc_u16, len_rpt. Qed.

Lemma dec_zeroes_rt z rest : z < 2 ^ 16 -> dec_zeroes (enc_zeroes z ++ rest) = ROk z rest.
Proof.
  intros H. unfold dec_zeroes, enc_zeroes. rewrite <- app_assoc. rewrite dec_u16_rt by exact H.
  cbn [bind]. unfold rpt. rewrite dec_zero_run_rt. reflexivity.
Qed.

Lemma dec_zeroes_inv inp z rest : bytes_ok inp -> dec_zeroes inp = ROk z rest ->
  inp = enc_zeroes z ++ rest /\ z < 2 ^ 16 /\ bytes_ok rest.
Proof.
  intros Hok H. unfold dec_zeroes in H. binv H v r E. binv H u r' E'. rok_inv H.
  apply dec_u16_inv in E; [|exact Hok]. destruct E as [-> [Hv Hr]].
  apply dec_zero_run_inv in E'. subst r. apply bytes_ok_app in Hr. destruct Hr as [_ Hr].
  unfold enc_zeroes, rpt. rewrite <- app_assoc. auto.
Qed.

(* ------------------------------------------------------------------ codecs that consult the validity predicates *)

Section Codec.
  Variable utf8_ok alias_ok agent_ok onion_ok : list N -> bool.

  Notation wf_str := (wf_str utf8_ok).
  Notation wf_host := (wf_host utf8_ok onion_ok).
  Notation wf_addr := (wf_addr utf8_ok onion_ok).
  Notation wf_node_ann_pre := (wf_node_ann_pre utf8_ok alias_ok onion_ok).
  Notation wf_node_ann := (wf_node_ann utf8_ok alias_ok agent_ok onion_ok).
  Notation wf_ann := (wf_ann utf8_ok alias_ok agent_ok onion_ok).
  Notation wf := (wf utf8_ok alias_ok agent_ok onion_ok).
  Notation dec_string := (dec_string utf8_ok).
  Notation dec_alias := (dec_alias utf8_ok alias_ok).
  Notation dec_agent := (dec_agent utf8_ok agent_ok).
  Notation dec_host := (dec_host utf8_ok onion_ok).
  Notation dec_addr := (dec_addr utf8_ok onion_ok).
  Notation dec_node_ann := (dec_node_ann utf8_ok alias_ok agent_ok onion_ok).
  Notation decode_msg := (decode_msg utf8_ok alias_ok agent_ok onion_ok).
  Notation decode_ext := (decode_ext utf8_ok alias_ok agent_ok onion_ok).
  Notation decode := (decode utf8_ok alias_ok agent_ok onion_ok).

  (* --- strings *)
  Lemma enc_str_some s : len s <= 255 -> enc_str s = Some (enc_u8 (len s) ++ s).
  Proof. intros H. unfold enc_str. destruct (N.leb_spec (len s) 255); [reflexivity|lia]. Qed.

  Lemma enc_str_inv s bs : enc_str s = Some bs -> len s <= 255 /\ bs = enc_u8 (len s) ++ s.
  Proof.
    unfold enc_str. destruct (N.leb_spec (len s) 255) as [Hle|Hgt]; [|discriminate].
    intros E. some_inv E. auto.
  Qed.

  Lemma enc_str_len s bs : enc_str s = Some bs -> len bs = 1 + len s /\ len s <= 255.
  Proof. intros H. apply enc_str_inv in H. destruct H as [Hl ->]. now rewrite len_app, len_enc_u8. Qed.

  Lemma string_RT : RT enc_str dec_string wf_str.
  Proof.
    intros s [Hl Hu]. exists (enc_u8 (len s) ++ s). split; [now apply enc_str_some|].
    intros rest. unfold WireMsg.dec_string. rewrite <- app_assoc.
    rewrite dec_u8_rt by (change 256 with (255 + 1); lia). cbn [bind].
    rewrite len_length, dec_bytes_rt. cbn [bind]. now rewrite Hu.
  Qed.

  Lemma string_CAN : CAN enc_str dec_string wf_str.
  Proof.
    intros inp s rest Hok H. unfold WireMsg.dec_string in H. binv H l r E. binv H s' r' E'.
    destruct (utf8_ok s') eqn:U; [|discriminate]. rok_inv H.
    apply dec_u8_inv in E; [|exact Hok]. destruct E as [-> [Hl Hr]].
    apply dec_bytes_inv in E'. destruct E' as [-> HL]. apply length_len in HL. subst l.
    assert (Hle : len s <= 255) by (change 256 with (255 + 1) in Hl; lia).
    exists (enc_u8 (len s) ++ s). split; [now apply enc_str_some|].
    split; [now rewrite <- app_assoc|]. split; assumption.
  Qed.

  (* a string followed by a further check (Alias::from_str / UserAgent::from_str) *)
  Lemma checked_RT (ok : list N -> bool) (e : merr) :
    RT enc_str (fun inp => bind (dec_string inp) (fun s r => if ok s then ROk s r else RErr e))
       (fun s => wf_str s /\ ok s = true).
  Proof.
    intros s [Hs Ho]. destruct (string_RT s Hs) as [bs [Eb Db]]. exists bs. split; [exact Eb|].
    intros rest. rewrite Db. cbn [bind]. now rewrite Ho.
  Qed.

  Lemma checked_CAN (ok : list N -> bool) (e : merr) :
    CAN enc_str (fun inp => bind (dec_string inp) (fun s r => if ok s then ROk s r else RErr e))
        (fun s => wf_str s /\ ok s = true).
  Proof.
    intros inp s rest Hok H. binv H s' r E. destruct (ok s') eqn:O; [|discriminate]. rok_inv H.
    destruct (string_CAN _ _ _ Hok E) as [bs [Eb [-> Hs]]]. exists bs. auto.
  Qed.

  (* --- addresses *)
  Lemma dec_host_1 inp : dec_host 1 inp = bind (dec_bytes 4 inp) (fun o r => ROk (HIp4 o) r).
  Proof. reflexivity. Qed.
  Lemma dec_host_2 inp : dec_host 2 inp = bind (dec_bytes 16 inp) (fun o r => ROk (HIp6 o) r).
  Proof. reflexivity. Qed.
  Lemma dec_host_3 inp : dec_host 3 inp = bind (dec_string inp) (fun s r => ROk (HDns s) r).
  Proof. reflexivity. Qed.
  Lemma dec_host_4 inp : dec_host 4 inp =
    bind (dec_bytes (N.to_nat ONION_RAW_LEN) inp) (fun o r =>
      if onion_ok o then ROk (HOnion o) r else RErr XInvalidOnion).
  Proof. reflexivity. Qed.

  Lemma addr_RT : RT enc_addr dec_addr wf_addr.
  Proof.
    intros [h p] [Hh Hp]. cbn [a_host a_port] in *. unfold enc_addr, WireMsg.dec_addr. cbn [a_host a_port].
    destruct h as [o|o|s|o]; cbn [WireMsg.wf_host] in Hh; cbn [enc_host obind].
    - eexists. split; [reflexivity|]. intros rest. rewrite <- !app_assoc.
      rewrite dec_u8_rt by reflexivity. cbn [bind]. rewrite dec_host_1.
      rewrite (dec_bytes_rt' 4) by (apply len_length_eq in Hh; exact Hh). cbn [bind].
      rewrite dec_u16_rt by exact Hp. reflexivity.
    - eexists. split; [reflexivity|]. intros rest. rewrite <- !app_assoc.
      rewrite dec_u8_rt by reflexivity. cbn [bind]. rewrite dec_host_2.
      rewrite (dec_bytes_rt' 16) by (apply len_length_eq in Hh; exact Hh). cbn [bind].
      rewrite dec_u16_rt by exact Hp. reflexivity.
    - destruct (string_RT s Hh) as [bs [Eb Db]]. rewrite Eb. cbn [obind].
      eexists. split; [reflexivity|]. intros rest. rewrite <- !app_assoc.
      rewrite dec_u8_rt by reflexivity. cbn [bind]. rewrite dec_host_3.
      rewrite Db. cbn [bind]. rewrite dec_u16_rt by exact Hp. reflexivity.
    - destruct Hh as [Hl Ho]. eexists. split; [reflexivity|]. intros rest. rewrite <- !app_assoc.
      rewrite dec_u8_rt by reflexivity. cbn [bind]. rewrite dec_host_4.
      rewrite dec_bytes_rt' by (apply len_length_eq in Hl; exact Hl). cbn [bind]. rewrite Ho.
      cbn [bind]. rewrite dec_u16_rt by exact Hp. reflexivity.
  Qed.

  Lemma addr_CAN : CAN enc_addr dec_addr wf_addr.
  Proof.
    intros inp a rest Hok H. unfold WireMsg.dec_addr in H. binv H t r E. binv H h r' E'. binv H p r'' E''.
    rok_inv H. apply dec_u8_inv in E; [|exact Hok]. destruct E as [-> [Ht Hr]].
    unfold enc_addr, WireMsg.wf_addr. cbn [a_host a_port].
    destruct (N.eqb_spec t 1) as [->|N1].
    { rewrite dec_host_1 in E'. binv E' o q Eo. rok_inv E'. apply dec_bytes_inv in Eo. destruct Eo as [-> HL].
      apply bytes_ok_app in Hr. destruct Hr as [_ Hr].
      apply dec_u16_inv in E''; [|exact Hr]. destruct E'' as [-> [Hp _]].
      cbn [enc_host obind WireMsg.wf_host]. eexists. split; [reflexivity|].
      split; [now rewrite <- !app_assoc|]. split; [now apply (length_len o 4)|exact Hp]. }
    destruct (N.eqb_spec t 2) as [->|N2].
    { rewrite dec_host_2 in E'. binv E' o q Eo. rok_inv E'. apply dec_bytes_inv in Eo. destruct Eo as [-> HL].
      apply bytes_ok_app in Hr. destruct Hr as [_ Hr].
      apply dec_u16_inv in E''; [|exact Hr]. destruct E'' as [-> [Hp _]].
      cbn [enc_host obind WireMsg.wf_host]. eexists. split; [reflexivity|].
      split; [now rewrite <- !app_assoc|]. split; [now apply (length_len o 16)|exact Hp]. }
    destruct (N.eqb_spec t 3) as [->|N3].
    { rewrite dec_host_3 in E'. binv E' s q Es. rok_inv E'. destruct (string_CAN _ _ _ Hr Es) as [bs [Eb [-> Hs]]].
      apply bytes_ok_app in Hr. destruct Hr as [_ Hr].
      apply dec_u16_inv in E''; [|exact Hr]. destruct E'' as [-> [Hp _]].
      cbn [enc_host WireMsg.wf_host]. rewrite Eb. cbn [obind]. eexists. split; [reflexivity|].
      split; [now rewrite <- !app_assoc|]. split; assumption. }
    destruct (N.eqb_spec t 4) as [->|N4].
    2:{ unfold WireMsg.dec_host in E'.
        apply N.eqb_neq in N1, N2, N3, N4. rewrite N1, N2, N3, N4 in E'. discriminate. }
    rewrite dec_host_4 in E'. binv E' o q Eo. destruct (onion_ok o) eqn:O; [|discriminate]. rok_inv E'.
    apply dec_bytes_inv in Eo. destruct Eo as [-> HL]. apply length_len in HL.
    apply bytes_ok_app in Hr. destruct Hr as [_ Hr].
    apply dec_u16_inv in E''; [|exact Hr]. destruct E'' as [-> [Hp _]].
    cbn [enc_host obind WireMsg.wf_host]. eexists. split; [reflexivity|].
    split; [now rewrite <- !app_assoc|]. split; [split; assumption|exact Hp].
  Qed.

  Lemma enc_addr_len a bs : wf_addr a -> enc_addr a = Some bs -> len bs <= 259.
  Proof.
    intros [Hh Hp] H. unfold enc_addr in H. destruct a as [h p]. cbn [a_host a_port] in *.
    destruct h as [o|o|s|o]; cbn [enc_host obind WireMsg.wf_host] in *.
    - some_inv H. rewrite !len_app, len_enc_u8, len_enc_u16, Hh. lia.
    - some_inv H. rewrite !len_app, len_enc_u8, len_enc_u16, Hh. lia.
    - destruct (enc_str s) as [b|] eqn:Es; cbn [obind] in H; [|discriminate]. some_inv H.
      apply enc_str_len in Es. rewrite !len_app, len_enc_u8, len_enc_u16. lia.
    - some_inv H. destruct Hh as [Hl _]. rewrite !len_app, len_enc_u8, len_enc_u16, Hl.
      unfold ONION_RAW_LEN. lia.
  Qed.

  (* --- node announcement *)
  Lemma address_limit_lt : ADDRESS_LIMIT < 2 ^ 16. Proof. reflexivity. Qed.
  Lemma inventory_limit_lt : INVENTORY_LIMIT < 2 ^ 16. Proof. reflexivity. Qed.
  Lemma ref_remote_limit_lt : REF_REMOTE_LIMIT < 2 ^ 16. Proof. reflexivity. Qed.

  Lemma node_ann_pre_rt na : wf_node_ann_pre na ->
    exists pre, enc_node_ann_pre na = Some pre /\
      forall tail, dec_node_ann (pre ++ tail) =
        match tail with
        | [] => ROk (mkNodeAnn (na_version na) (na_features na) (na_timestamp na) (na_alias na)
                               (na_addresses na) (na_nonce na) DEFAULT_AGENT, true) []
        | _ :: _ => bind (dec_agent tail) (fun agent r7 =>
                      ROk (mkNodeAnn (na_version na) (na_features na) (na_timestamp na) (na_alias na)
                                     (na_addresses na) (na_nonce na) agent, false) r7)
        end.
  Proof.
    intros [Hv [Hf [Ht [[Hal Hao] [[Hadl Had] Hn]]]]].
    destruct (checked_RT alias_ok XInvalidAlias (na_alias na) (conj Hal Hao)) as [al [Eal Dal]].
    destruct (dec_vec_rt enc_addr dec_addr wf_addr ADDRESS_LIMIT addr_RT address_limit_lt
                (na_addresses na) Hadl Had) as [ad [Ead Dad]].
    unfold enc_node_ann_pre. rewrite Eal. cbn [obind]. rewrite Ead. cbn [obind].
    eexists. split; [reflexivity|]. intros tail. unfold WireMsg.dec_node_ann.
    rewrite <- !app_assoc. rewrite dec_u8_rt by exact Hv. cbn [bind].
    rewrite dec_u64_rt by exact Hf. cbn [bind].
    rewrite dec_timestamp_rt by exact Ht. cbn [bind].
    unfold WireMsg.dec_alias. rewrite Dal. cbn [bind].
    rewrite Dad. cbn [bind]. rewrite dec_u64_rt by exact Hn. cbn [bind]. reflexivity.
  Qed.

  Lemma node_ann_rt na : wf_node_ann na ->
    exists bs, enc_node_ann na = Some bs /\
      forall rest, dec_node_ann (bs ++ rest) = ROk (na, false) rest.
  Proof.
    intros [Hpre [Hag Hago]]. destruct (node_ann_pre_rt na Hpre) as [pre [Epre Dpre]].
    destruct (checked_RT agent_ok XInvalidUserAgent (na_agent na) (conj Hag Hago)) as [ag [Eag Dag]].
    unfold enc_node_ann. rewrite Epre. cbn [obind]. rewrite Eag. cbn [obind].
    eexists. split; [reflexivity|]. intros rest. rewrite <- app_assoc, Dpre.
    pose proof Eag as Eag'. apply enc_str_inv in Eag'. destruct Eag' as [Hagl ->].
    rewrite enc_u8_small by lia. cbn [app].
    change (len (na_agent na) :: na_agent na ++ rest) with (([len (na_agent na)] ++ na_agent na) ++ rest).
    rewrite <- (enc_u8_small (len (na_agent na))) by lia.
    unfold WireMsg.dec_agent. rewrite Dag. cbn [bind]. destruct na; reflexivity.
  Qed.

  Lemma node_ann_can inp na fl rest : bytes_ok inp -> dec_node_ann inp = ROk (na, fl) rest ->
    wf_node_ann_pre na /\
    exists pre, enc_node_ann_pre na = Some pre /\
      if fl then rest = [] /\ inp = pre /\ na_agent na = DEFAULT_AGENT
      else exists ag, enc_str (na_agent na) = Some ag /\ inp = (pre ++ ag) ++ rest /\
                      wf_str (na_agent na) /\ agent_ok (na_agent na) = true.
  Proof.
    intros Hok H. unfold WireMsg.dec_node_ann in H.
    binv H version r1 E1. binv H features r2 E2. binv H ts r3 E3. binv H alias r4 E4.
    binv H addrs r5 E5. binv H nonce r6 E6.
    apply dec_u8_inv in E1; [|exact Hok]. destruct E1 as [-> [Hv Hr1]].
    apply dec_u64_inv in E2; [|exact Hr1]. destruct E2 as [-> [Hf Hr2]].
    apply dec_timestamp_inv in E3; [|exact Hr2]. destruct E3 as [-> [Ht Hr3]].
    destruct (checked_CAN alias_ok XInvalidAlias _ _ _ Hr3 E4) as [al [Eal [-> [Hal Hao]]]].
    apply bytes_ok_app in Hr3. destruct Hr3 as [_ Hr4].
    destruct (dec_vec_can enc_addr dec_addr wf_addr ADDRESS_LIMIT addr_CAN _ _ _ Hr4 E5)
      as [ad [Ead [-> [Had Hadl]]]].
    apply bytes_ok_app in Hr4. destruct Hr4 as [_ Hr5].
    apply dec_u64_inv in E6; [|exact Hr5]. destruct E6 as [-> [Hn Hr6]].
    destruct r6 as [|b r6].
    - rok_inv H. injection Hrka as <- <-.
      split; [unfold WireMsg.wf_node_ann_pre;
              cbn [na_alias na_addresses na_version na_features na_timestamp na_nonce na_agent];
              change (2 ^ 8) with 256; repeat split; try assumption; apply Hal|].
      unfold enc_node_ann_pre. cbn [na_alias na_addresses na_version na_features na_timestamp na_nonce na_agent].
      rewrite Eal. cbn [obind]. rewrite Ead. cbn [obind]. eexists. split; [reflexivity|].
      split; [reflexivity|]. split; [|reflexivity]. now rewrite app_nil_r.
    - binv H agent r7 E7. rok_inv H. injection Hrka as <- <-.
      destruct (checked_CAN agent_ok XInvalidUserAgent _ _ _ Hr6 E7) as [ag [Eag [Eq [Hag Hago]]]].
      split; [unfold WireMsg.wf_node_ann_pre;
              cbn [na_alias na_addresses na_version na_features na_timestamp na_nonce na_agent];
              change (2 ^ 8) with 256; repeat split; try assumption; apply Hal|].
      unfold enc_node_ann_pre. cbn [na_alias na_addresses na_version na_features na_timestamp na_nonce na_agent].
      rewrite Eal. cbn [obind]. rewrite Ead. cbn [obind]. eexists. split; [reflexivity|].
      exists ag. split; [exact Eag|]. split; [|split; assumption].
      rewrite Eq. rewrite <- !app_assoc. reflexivity.
  Qed.

  Lemma enc_node_ann_pre_len na pre : wf_node_ann_pre na -> enc_node_ann_pre na = Some pre ->
    len pre <= 283 + ADDRESS_LIMIT * 259.
  Proof.
    intros [_ [_ [_ [_ [[Hadl Had] _]]]]] H. unfold enc_node_ann_pre in H.
    destruct (enc_str (na_alias na)) as [al|] eqn:Eal; cbn [obind] in H; [|discriminate].
    destruct (enc_vec enc_addr (na_addresses na)) as [ad|] eqn:Ead; cbn [obind] in H; [|discriminate].
    some_inv H. apply enc_str_len in Eal.
    pose proof (enc_vec_len enc_addr wf_addr 259 (fun x bs Hx => enc_addr_len x bs Hx) _ _ Had Ead) as L.
    rewrite !len_app, len_enc_u8, !len_enc_u64. nia.
  Qed.

  (* --- announcement head (node id, signature) *)
  Lemma ann_head_rt n sg rest : len n = PUBKEY_LEN -> len sg = SIGNATURE_LEN ->
    dec_ann_head (n ++ sg ++ rest) = ROk (n, sg) rest.
  Proof.
    intros Hn Hs. unfold dec_ann_head. rewrite dec_bytes_rt' by now apply len_length_eq.
    cbn [bind]. rewrite dec_bytes_rt' by now apply len_length_eq. reflexivity.
  Qed.

  Lemma ann_head_inv inp h rest : bytes_ok inp -> dec_ann_head inp = ROk h rest ->
    inp = fst h ++ snd h ++ rest /\ len (fst h) = PUBKEY_LEN /\ len (snd h) = SIGNATURE_LEN /\ bytes_ok rest.
  Proof.
    intros Hok H. unfold dec_ann_head in H. binv H n r E. binv H sg r' E'. rok_inv H.
    apply dec_bytes_inv in E. destruct E as [-> Hn]. apply dec_bytes_inv in E'. destruct E' as [-> Hs].
    apply length_len in Hn, Hs. apply bytes_ok_app in Hok. destruct Hok as [_ Hok].
    apply bytes_ok_app in Hok. destruct Hok as [_ Hok]. cbn [fst snd]. auto.
  Qed.

  (* --- dispatch on the message type *)
  Lemma decode_msg_tag t r : t < 2 ^ 16 -> decode_msg (enc_u16 t ++ r) =
      if t =? 8 then dec_subscribe r
      else if t =? 2 then dec_node_msg utf8_ok alias_ok agent_ok onion_ok r
      else if t =? 4 then dec_inventory_msg r
      else if t =? 6 then dec_refs_msg r
      else if t =? 14 then bind (dec_info r) (fun i r1 => ROk (MInfo i, false) r1)
      else if t =? 10 then dec_ping r
      else if t =? 12 then dec_pong r
      else RErr (XUnknownMessageType t).
  Proof. intros H. unfold WireMsg.decode_msg. rewrite dec_u16_rt by exact H. reflexivity. Qed.

  Lemma vec_oid_P inv : Forall wf_oid inv -> Forall (fun o => len o = OID_LEN) inv.
  Proof. intros H; exact H. Qed.

  Theorem decode_msg_rt m : wf m ->
    exists bs, encode_raw m = Some bs /\ forall rest, decode_msg (bs ++ rest) = ROk (m, false) rest.
  Proof.
    destruct m as [f s u|n sg am|[rid at_]|p z|z]; cbn [WireMsg.wf encode_raw].
    - intros [Hf [Hs Hu]]. eexists. split; [reflexivity|]. intros rest.
      rewrite <- !app_assoc, decode_msg_tag by reflexivity.
      change (8 =? 8) with true. cbv iota. unfold dec_subscribe.
      rewrite dec_filter_rt by exact Hf. cbn [bind].
      rewrite dec_timestamp_rt by exact Hs. cbn [bind].
      rewrite dec_timestamp_rt by exact Hu. reflexivity.
    - intros [Hn [Hsg Ham]]. destruct am as [inv ts|na|rid refs ts]; cbn [WireMsg.wf_ann enc_ann ann_type] in *.
      + destruct Ham as [[Hl HF] Ht].
        destruct (dec_vec_rt _ dec_oid _ INVENTORY_LIMIT oid_RT inventory_limit_lt inv Hl HF) as [b [Eb Db]].
        rewrite Eb. cbn [obind]. eexists. split; [reflexivity|]. intros rest.
        rewrite <- !app_assoc, decode_msg_tag by reflexivity.
        change (4 =? 8) with false; change (4 =? 2) with false; change (4 =? 4) with true. cbv iota.
        unfold dec_inventory_msg. rewrite ann_head_rt by assumption. cbn [bind fst snd].
        rewrite Db. cbn [bind]. rewrite dec_timestamp_rt by exact Ht. reflexivity.
      + destruct (node_ann_rt na Ham) as [b [Eb Db]]. rewrite Eb. cbn [obind].
        eexists. split; [reflexivity|]. intros rest.
        rewrite <- !app_assoc, decode_msg_tag by reflexivity.
        change (2 =? 8) with false; change (2 =? 2) with true. cbv iota.
        unfold dec_node_msg. rewrite ann_head_rt by assumption. cbn [bind fst snd].
        rewrite Db. reflexivity.
      + destruct Ham as [Hrid [[Hl HF] Ht]].
        destruct (dec_vec_rt _ dec_refs_at _ REF_REMOTE_LIMIT refs_at_RT ref_remote_limit_lt refs Hl HF)
          as [b [Eb Db]].
        rewrite Eb. cbn [obind]. eexists. split; [reflexivity|]. intros rest.
        rewrite <- !app_assoc, decode_msg_tag by reflexivity.
        change (6 =? 8) with false; change (6 =? 2) with false; change (6 =? 4) with false;
          change (6 =? 6) with true. cbv iota.
        unfold dec_refs_msg. rewrite ann_head_rt by assumption. cbn [bind fst snd].
        rewrite dec_oid_rt by exact Hrid. cbn [bind].
        rewrite Db. cbn [bind]. rewrite dec_timestamp_rt by exact Ht. reflexivity.
    - intros [Hr Ha]. eexists. split; [reflexivity|]. intros rest. unfold enc_info.
      rewrite <- !app_assoc, decode_msg_tag by reflexivity.
      change (14 =? 8) with false; change (14 =? 2) with false; change (14 =? 4) with false;
        change (14 =? 6) with false; change (14 =? 14) with true. cbv iota.
      unfold dec_info. rewrite dec_u16_rt by reflexivity. cbn [bind]. change (1 =? 1) with true. cbv iota.
      rewrite dec_oid_rt by exact Hr. cbn [bind]. rewrite dec_oid_rt by exact Ha. reflexivity.
    - intros [Hp Hz]. eexists. split; [reflexivity|]. intros rest.
      rewrite <- !app_assoc, decode_msg_tag by reflexivity.
      change (10 =? 8) with false; change (10 =? 2) with false; change (10 =? 4) with false;
        change (10 =? 6) with false; change (10 =? 14) with false; change (10 =? 10) with true. cbv iota.
      unfold dec_ping. rewrite dec_u16_rt by exact Hp. cbn [bind].
      rewrite dec_zeroes_rt by (unfold MAX_PING_ZEROES in Hz; change (2 ^ 16) with 65536; lia). cbn [bind].
      destruct (N.leb_spec z MAX_PING_ZEROES); [reflexivity|lia].
    - intros Hz. eexists. split; [reflexivity|]. intros rest.
      rewrite <- !app_assoc, decode_msg_tag by reflexivity.
      change (12 =? 8) with false; change (12 =? 2) with false; change (12 =? 4) with false;
        change (12 =? 6) with false; change (12 =? 14) with false; change (12 =? 10) with false;
        change (12 =? 12) with true. cbv iota.
      unfold dec_pong.
      rewrite dec_zeroes_rt by (unfold MAX_PONG_ZEROES in Hz; change (2 ^ 16) with 65536; lia). cbn [bind].
      destruct (N.leb_spec z MAX_PONG_ZEROES); [reflexivity|lia].
  Qed.

  (* --- the converse: what successfully decoded bytes look like *)
  Theorem decode_msg_can inp m fl rest : bytes_ok inp -> decode_msg inp = ROk (m, fl) rest ->
    if fl then
      rest = [] /\ exists n sg na pre,
        m = MAnnouncement n sg (ANode na) /\ na_agent na = DEFAULT_AGENT /\
        len n = PUBKEY_LEN /\ len sg = SIGNATURE_LEN /\ wf_node_ann_pre na /\
        enc_node_ann_pre na = Some pre /\ inp = enc_u16 2 ++ n ++ sg ++ pre
    else exists bs, encode_raw m = Some bs /\ inp = bs ++ rest /\ wf m.
  Proof.
    intros Hok H. unfold WireMsg.decode_msg in H. binv H t r E.
    apply dec_u16_inv in E; [|exact Hok]. destruct E as [-> [Ht Hr]].
    destruct (N.eqb_spec t 8) as [->|N8].
    { unfold dec_subscribe in H. binv H f r1 E1. binv H since r2 E2. binv H until r3 E3.
      rok_inv H. injection Hrka as <- <-.
      apply dec_filter_inv in E1; [|exact Hr]. destruct E1 as [-> [Hf Hr1]].
      apply dec_timestamp_inv in E2; [|exact Hr1]. destruct E2 as [-> [Hs Hr2]].
      apply dec_timestamp_inv in E3; [|exact Hr2]. destruct E3 as [-> [Hu _]].
      eexists. split; [reflexivity|]. split; [now rewrite <- !app_assoc|]. cbn. auto. }
    destruct (N.eqb_spec t 2) as [->|N2].
    { unfold dec_node_msg in H. binv H h r1 E1. binv H nf r2 E2. rok_inv H. injection Hrka as <- <-.
      apply ann_head_inv in E1; [|exact Hr]. destruct E1 as [-> [Hn [Hs Hr1]]].
      destruct nf as [na fl']. cbn [fst snd].
      destruct (node_ann_can _ _ _ _ Hr1 E2) as [Hpre [pre [Epre Hc]]].
      destruct fl'.
      - destruct Hc as [-> [-> Hag]]. split; [reflexivity|].
        exists (fst h), (snd h), na, pre. split; [reflexivity|]. split; [exact Hag|].
        split; [exact Hn|]. split; [exact Hs|]. split; [exact Hpre|]. split; [exact Epre|reflexivity].
      - destruct Hc as [ag [Eag [-> [Hag Hago]]]].
        cbn [encode_raw enc_ann ann_type]. unfold enc_node_ann. rewrite Epre. cbn [obind].
        rewrite Eag. cbn [obind]. eexists. split; [reflexivity|].
        split; [now rewrite <- !app_assoc|]. cbn [WireMsg.wf WireMsg.wf_ann].
        split; [exact Hn|]. split; [exact Hs|]. split; [exact Hpre|]. split; assumption. }
    destruct (N.eqb_spec t 4) as [->|N4].
    { unfold dec_inventory_msg in H. binv H h r1 E1. binv H inv r2 E2. binv H ts r3 E3.
      rok_inv H. injection Hrka as <- <-.
      apply ann_head_inv in E1; [|exact Hr]. destruct E1 as [-> [Hn [Hs Hr1]]].
      destruct (dec_vec_can _ dec_oid _ INVENTORY_LIMIT oid_CAN _ _ _ Hr1 E2) as [b [Eb [-> [HF Hl]]]].
      apply bytes_ok_app in Hr1. destruct Hr1 as [_ Hr2].
      apply dec_timestamp_inv in E3; [|exact Hr2]. destruct E3 as [-> [Hts _]].
      cbn [encode_raw enc_ann ann_type]. rewrite Eb. cbn [obind]. eexists. split; [reflexivity|].
      split; [now rewrite <- !app_assoc|]. cbn [WireMsg.wf WireMsg.wf_ann]. auto. }
    destruct (N.eqb_spec t 6) as [->|N6].
    { unfold dec_refs_msg in H. binv H h r1 E1. binv H rid r2 E2. binv H refs r3 E3. binv H ts r4 E4.
      rok_inv H. injection Hrka as <- <-.
      apply ann_head_inv in E1; [|exact Hr]. destruct E1 as [-> [Hn [Hs Hr1]]].
      apply dec_oid_inv in E2; [|exact Hr1]. destruct E2 as [-> [Hrid Hr2]].
      destruct (dec_vec_can _ dec_refs_at _ REF_REMOTE_LIMIT refs_at_CAN _ _ _ Hr2 E3) as [b [Eb [-> [HF Hl]]]].
      apply bytes_ok_app in Hr2. destruct Hr2 as [_ Hr3].
      apply dec_timestamp_inv in E4; [|exact Hr3]. destruct E4 as [-> [Hts _]].
      cbn [encode_raw enc_ann ann_type]. rewrite Eb. cbn [obind]. eexists. split; [reflexivity|].
      split; [now rewrite <- !app_assoc|]. cbn [WireMsg.wf WireMsg.wf_ann].
      split; [exact Hn|]. split; [exact Hs|]. split; [exact Hrid|]. split; [|exact Hts].
      split; [exact Hl|exact HF]. }
    destruct (N.eqb_spec t 14) as [->|N14].
    { binv H i r1 E1. rok_inv H. injection Hrka as <- <-.
      unfold dec_info in E1. binv E1 it q Eit.
      apply dec_u16_inv in Eit; [|exact Hr]. destruct Eit as [-> [Hit Hq]].
      destruct (N.eqb_spec it 1) as [->|]; [|discriminate].
      binv E1 rid q1 Er. binv E1 at_ q2 Ea. rok_inv E1.
      apply dec_oid_inv in Er; [|exact Hq]. destruct Er as [-> [Hrid Hq1]].
      apply dec_oid_inv in Ea; [|exact Hq1]. destruct Ea as [-> [Hat _]].
      cbn [encode_raw enc_info]. eexists. split; [reflexivity|].
      split; [now rewrite <- !app_assoc|]. cbn [WireMsg.wf]. auto. }
    destruct (N.eqb_spec t 10) as [->|N10].
    { unfold dec_ping in H. binv H p r1 E1. binv H z r2 E2.
      destruct (N.leb_spec z MAX_PING_ZEROES) as [Hz|]; [|discriminate].
      rok_inv H. injection Hrka as <- <-.
      apply dec_u16_inv in E1; [|exact Hr]. destruct E1 as [-> [Hp Hr1]].
      apply dec_zeroes_inv in E2; [|exact Hr1]. destruct E2 as [-> _].
      cbn [encode_raw]. eexists. split; [reflexivity|].
      split; [now rewrite <- !app_assoc|]. cbn [WireMsg.wf]. auto. }
    destruct (N.eqb_spec t 12) as [->|N12]; [|discriminate].
    unfold dec_pong in H. binv H z r1 E1.
    destruct (N.leb_spec z MAX_PONG_ZEROES) as [Hz|]; [|discriminate].
    rok_inv H. injection Hrka as <- <-.
    apply dec_zeroes_inv in E1; [|exact Hr]. destruct E1 as [-> _].
    cbn [encode_raw]. eexists. split; [reflexivity|].
    split; [now rewrite <- !app_assoc|]. cbn [WireMsg.wf]. auto.
  Qed.

  (* --- sizes *)
  Theorem encode_raw_len m bs : wf m -> encode_raw m = Some bs -> len bs <= SIZE_MAX.
  Proof.
    destruct m as [f s u|n sg am|[rid at_]|p z|z]; cbn [WireMsg.wf encode_raw]; intros Hwf H.
    - some_inv H. destruct Hwf as [Hf _]. unfold enc_slice.
      rewrite !len_app, !len_enc_u16, !len_enc_u64. unfold FILTER_SIZES in Hf. cbn [In] in Hf.
      unfold SIZE_MAX. lia.
    - destruct Hwf as [Hn [Hsg Ham]].
      destruct (enc_ann am) as [body|] eqn:Eb; cbn [obind] in H; [|discriminate]. some_inv H.
      rewrite !len_app, len_enc_u16, Hn, Hsg.
      assert (len body <= SIZE_MAX - 98); [|unfold SIZE_MAX, PUBKEY_LEN, SIGNATURE_LEN in *; lia].
      destruct am as [inv ts|na|rid refs ts]; cbn [WireMsg.wf_ann enc_ann] in *.
      + destruct Ham as [[Hl HF] _].
        destruct (enc_vec _ inv) as [b|] eqn:Ev; cbn [obind] in Eb; [|discriminate]. some_inv Eb.
        assert (L : len b <= 2 + len inv * 22).
        { apply (enc_vec_len (fun o => Some (enc_oid o)) (fun o => len o = OID_LEN) 22) with (l := inv);
            [|exact HF|exact Ev].
          intros x bs0 Hx E0. some_inv E0. rewrite len_enc_oid, Hx. reflexivity. }
        rewrite len_app, len_enc_u64. unfold SIZE_MAX, INVENTORY_LIMIT in *. lia.
      + destruct Ham as [Hpre [[Hagl _] _]]. unfold enc_node_ann in Eb.
        destruct (enc_node_ann_pre na) as [pre|] eqn:Ep; cbn [obind] in Eb; [|discriminate].
        destruct (enc_str (na_agent na)) as [ag|] eqn:Ea; cbn [obind] in Eb; [|discriminate]. some_inv Eb.
        apply enc_str_len in Ea. pose proof (enc_node_ann_pre_len na pre Hpre Ep) as L.
        rewrite len_app. unfold SIZE_MAX, ADDRESS_LIMIT in *. lia.
      + destruct Ham as [Hrid [[Hl HF] _]].
        destruct (enc_vec _ refs) as [b|] eqn:Ev; cbn [obind] in Eb; [|discriminate]. some_inv Eb.
        assert (L : len b <= 2 + len refs * 54).
        { apply (enc_vec_len (fun r => Some (enc_refs_at r)) wf_refs_at' 54) with (l := refs);
            [|exact HF|exact Ev].
          intros x bs0 [Hx1 Hx2] E0. some_inv E0. unfold enc_refs_at.
          rewrite len_app, len_enc_oid, Hx1, Hx2. reflexivity. }
        rewrite !len_app, len_enc_u64, len_enc_oid, Hrid.
        unfold SIZE_MAX, REF_REMOTE_LIMIT, OID_LEN in *. lia.
    - some_inv H. destruct Hwf as [Hr Ha]. unfold enc_info.
      rewrite !len_app, !len_enc_u16, !len_enc_oid, Hr, Ha. unfold SIZE_MAX, OID_LEN. lia.
    - some_inv H. destruct Hwf as [_ Hz].
      rewrite !len_app, !len_enc_u16, len_enc_zeroes. unfold SIZE_MAX, MAX_PING_ZEROES in *. lia.
    - some_inv H. rewrite !len_app, !len_enc_u16, len_enc_zeroes.
      unfold SIZE_MAX, MAX_PONG_ZEROES in *. lia.
  Qed.

  Lemma encode_of_raw m bs : encode_raw m = Some bs -> len bs <= SIZE_MAX -> encode m = Some bs.
  Proof.
    intros E L. unfold encode, encode_res. rewrite E.
    destruct (N.leb_spec (len bs) SIZE_MAX); [reflexivity|lia].
  Qed.

  Lemma encode_inv m bs : encode m = Some bs -> encode_raw m = Some bs /\ len bs <= SIZE_MAX.
  Proof.
    unfold encode, encode_res. destruct (encode_raw m) as [b|]; [|discriminate].
    destruct (N.leb_spec (len b) SIZE_MAX) as [Hle|Hgt]; [|discriminate]. intros E. some_inv E. auto.
  Qed.

  (* --- the three properties *)
  Theorem fits_frame m : wf m -> exists bs, encode m = Some bs /\ len bs <= SIZE_MAX.
  Proof.
    intros Hwf. destruct (decode_msg_rt m Hwf) as [bs [Eb _]].
    pose proof (encode_raw_len m bs Hwf Eb) as L. exists bs. split; [now apply encode_of_raw|exact L].
  Qed.

  Theorem roundtrip m : wf m ->
    exists bs, encode m = Some bs /\ decode_ext bs = ROk (m, false) [] /\ decode bs = DecOk m.
  Proof.
    intros Hwf. destruct (decode_msg_rt m Hwf) as [bs [Eb Db]].
    pose proof (encode_raw_len m bs Hwf Eb) as L. exists bs. split; [now apply encode_of_raw|].
    specialize (Db []). rewrite app_nil_r in Db.
    unfold WireMsg.decode, WireMsg.decode_ext. rewrite Db. split; reflexivity.
  Qed.

  Lemma decode_ext_inv bs mf rest : decode_ext bs = ROk mf rest -> rest = [] /\ decode_msg bs = ROk mf [].
  Proof.
    unfold WireMsg.decode_ext. destruct (decode_msg bs) as [mf' [|b r]|e]; try discriminate.
    intros H. rok_inv H. auto.
  Qed.

  Theorem canonical bs m rest : bytes_ok bs -> decode_ext bs = ROk (m, false) rest ->
    rest = [] /\ wf m /\ encode m = Some bs.
  Proof.
    intros Hok H. apply decode_ext_inv in H. destruct H as [-> H]. split; [reflexivity|].
    pose proof (decode_msg_can _ _ _ _ Hok H) as C. cbv iota in C.
    destruct C as [b [Eb [-> Hwf]]]. rewrite app_nil_r. split; [exact Hwf|].
    apply encode_of_raw; [exact Eb|]. exact (encode_raw_len m b Hwf Eb).
  Qed.

  (* the exception: a node announcement that ends right after the nonce decodes to the
     message with the default agent, whose encoding is the input followed by the
     (length-prefixed) default agent *)
  Theorem canonical_exception bs m rest : bytes_ok bs -> decode_ext bs = ROk (m, true) rest ->
    rest = [] /\ exists n sg na,
      m = MAnnouncement n sg (ANode na) /\ na_agent na = DEFAULT_AGENT /\
      len n = PUBKEY_LEN /\ len sg = SIGNATURE_LEN /\ wf_node_ann_pre na /\
      encode m = Some (bs ++ enc_u8 (len DEFAULT_AGENT) ++ DEFAULT_AGENT).
  Proof.
    intros Hok H. apply decode_ext_inv in H. destruct H as [-> H]. split; [reflexivity|].
    pose proof (decode_msg_can _ _ _ _ Hok H) as C. cbv iota in C.
    destruct C as [_ [n [sg [na [pre [-> [Hag [Hn [Hs [Hpre [Epre ->]]]]]]]]]]].
    exists n, sg, na. split; [reflexivity|]. split; [exact Hag|]. split; [exact Hn|].
    split; [exact Hs|]. split; [exact Hpre|].
    assert (Eraw : encode_raw (MAnnouncement n sg (ANode na)) =
                   Some ((enc_u16 2 ++ n ++ sg ++ pre) ++ enc_u8 (len DEFAULT_AGENT) ++ DEFAULT_AGENT)).
    { cbn [encode_raw enc_ann ann_type]. unfold enc_node_ann. rewrite Epre. cbn [obind].
      rewrite Hag. rewrite enc_str_some by (vm_compute; discriminate). cbn [obind].
      now rewrite <- !app_assoc. }
    apply encode_of_raw; [exact Eraw|].
    pose proof (enc_node_ann_pre_len na pre Hpre Epre) as L.
    rewrite !len_app, len_enc_u16, len_enc_u8, Hn, Hs.
    change (len DEFAULT_AGENT) with 9. unfold SIZE_MAX, ADDRESS_LIMIT, PUBKEY_LEN, SIGNATURE_LEN in *. lia.
  Qed.

  (* the bytes Announcement::verify re-serialises (the AnnouncementMessage) are exactly
     the bytes that followed node id and signature on the wire *)
  Theorem signed_payload bs n sg am rest : bytes_ok bs ->
    decode_ext bs = ROk (MAnnouncement n sg am, false) rest ->
    exists body, enc_ann am = Some body /\ bs = enc_u16 (ann_type am) ++ n ++ sg ++ body.
  Proof.
    intros Hok H. destruct (canonical _ _ _ Hok H) as [_ [_ E]]. apply encode_inv in E.
    destruct E as [E _]. cbn [encode_raw] in E.
    destruct (enc_ann am) as [body|]; cbn [obind] in E; [|discriminate].
    exists body. split; [reflexivity|]. congruence.
  Qed.

  Theorem unique_encoding b1 b2 m r1 r2 : bytes_ok b1 -> bytes_ok b2 ->
    decode_ext b1 = ROk (m, false) r1 -> decode_ext b2 = ROk (m, false) r2 -> b1 = b2.
  Proof.
    intros H1 H2 D1 D2. destruct (canonical _ _ _ H1 D1) as [_ [_ E1]].
    destruct (canonical _ _ _ H2 D2) as [_ [_ E2]]. congruence.
  Qed.

  (* statements in terms of the plain result of wire::deserialize *)
  Definition agent_absent (bs : list N) : Prop := exists m rest, decode_ext bs = ROk (m, true) rest.

  Lemma decode_ok_inv bs m : decode bs = DecOk m -> exists fl rest, decode_ext bs = ROk (m, fl) rest.
  Proof.
    unfold WireMsg.decode. destruct (decode_ext bs) as [[m' fl] rest|e]; [|discriminate].
    cbn [fst]. intros H. exists fl, rest. congruence.
  Qed.

  Theorem canonical_plain bs m : bytes_ok bs -> decode bs = DecOk m -> ~ agent_absent bs ->
    encode m = Some bs.
  Proof.
    intros Hok H NA. apply decode_ok_inv in H. destruct H as [fl [rest H]]. destruct fl.
    - exfalso. apply NA. exists m, rest. exact H.
    - now destruct (canonical _ _ _ Hok H) as [_ [_ E]].
  Qed.

  (* every decoded message can be re-encoded (wire::serialize does not panic on it)
     within the frame limit *)
  Theorem decoded_reencodes bs m : bytes_ok bs -> decode bs = DecOk m ->
    exists bs', encode m = Some bs' /\ len bs' <= SIZE_MAX.
  Proof.
    intros Hok H. apply decode_ok_inv in H. destruct H as [fl [rest H]]. destruct fl.
    - destruct (canonical_exception _ _ _ Hok H) as [_ [n [sg [na [-> [_ [_ [_ [_ E]]]]]]]]].
      eexists. split; [exact E|]. now apply encode_inv in E.
    - destruct (canonical _ _ _ Hok H) as [_ [_ E]]. exists bs. split; [exact E|]. now apply encode_inv in E.
  Qed.
End Codec.

(* ------------------------------------------------------------------ the concrete string checks *)

Lemma alias_valid_spec s : alias_valid s = true ->
  utf8_valid s = true /\ len s <= MAX_ALIAS_LENGTH /\ s <> [].
Proof.
  unfold alias_valid, utf8_valid. destruct (utf8_decode s) as [cps|]; [|discriminate].
  intros H. apply andb_true_iff in H. destruct H as [H H3]. apply andb_true_iff in H. destruct H as [H1 _].
  split; [reflexivity|]. split; [now apply N.leb_le|].
  intros ->. discriminate.
Qed.

Lemma agent_valid_spec s : agent_valid s = true -> len s <= MAX_AGENT_LENGTH.
Proof. unfold agent_valid. intros H. apply andb_true_iff in H. destruct H as [H _]. now apply N.leb_le. Qed.

Lemma default_agent_valid : utf8_valid DEFAULT_AGENT = true /\ agent_valid DEFAULT_AGENT = true.
Proof. split; reflexivity. Qed.

(* ------------------------------------------------------------------ the Refs codec is not canonical *)

Definition refs_entry (name oid : list N) : list N := enc_u8 (len name) ++ name ++ enc_oid oid.
Definition ref_a : list N := [114; 101; 102; 115; 47; 104; 101; 97; 100; 115; 47; 97].   (* refs/heads/a *)
Definition ref_b : list N := [114; 101; 102; 115; 47; 104; 101; 97; 100; 115; 47; 98].   (* refs/heads/b *)
Definition refs_unsorted : list N := enc_u16 2 ++ refs_entry ref_b (rpt 20 2) ++ refs_entry ref_a (rpt 20 1).
Definition refs_duplicate : list N := enc_u16 2 ++ refs_entry ref_a (rpt 20 1) ++ refs_entry ref_a (rpt 20 2).

Lemma bytes_okb_true l : bytes_okb l = true -> bytes_ok l.
Proof.
  induction l as [|b l IH]; intros H; [constructor|].
  cbn [bytes_okb forallb] in H. apply andb_true_iff in H. destruct H as [Hb Hl].
  constructor; [now apply N.ltb_lt|now apply IH].
Qed.

Lemma refs_not_canonical (utf8_ok ref_ok : list N -> bool) :
  utf8_ok ref_a = true -> utf8_ok ref_b = true -> ref_ok ref_a = true -> ref_ok ref_b = true ->
  bytes_ok refs_unsorted /\ bytes_ok refs_duplicate /\
  decode_refs utf8_ok ref_ok refs_unsorted = RefsOk [(ref_a, rpt 20 1); (ref_b, rpt 20 2)] /\
  enc_refs [(ref_a, rpt 20 1); (ref_b, rpt 20 2)] <> Some refs_unsorted /\
  decode_refs utf8_ok ref_ok refs_duplicate = RefsOk [(ref_a, rpt 20 2)] /\
  enc_refs [(ref_a, rpt 20 2)] <> Some refs_duplicate.
Proof.
  intros Hua Hub Hra Hrb.
  split; [apply bytes_okb_true; vm_compute; reflexivity|].
  split; [apply bytes_okb_true; vm_compute; reflexivity|].
  unfold ref_a, ref_b in Hua, Hub, Hra, Hrb.
  split.
  { cbv. rewrite Hub. cbv. rewrite Hrb. cbv. rewrite Hua. cbv. rewrite Hra. cbv. reflexivity. }
  split; [vm_compute; discriminate|].
  split.
  { cbv. rewrite Hua. cbv. rewrite Hra. cbv. rewrite Hua. cbv. rewrite Hra. cbv. reflexivity. }
  vm_compute; discriminate.
Qed.
