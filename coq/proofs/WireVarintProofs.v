(* WireVarintProofs.v — proofs about coq/model/WireVarint.v: list/length helpers,
   big-endian digits, the four varint forms (minimal and non-minimal), round trip,
   prefix behaviour, and the payload reader (result in closed form, allocation
   bound). *)
From HW Require Import lib.Base model.WireVarint.
Local Open Scope N_scope.

Ltac dm := zify; Z.to_euclidean_division_equations; lia.

(* ------------------------------------------------------------------ *)
(* lengths, takeN / dropN *)

Lemma len_nil {A} : len (@nil A) = 0.
Proof. reflexivity. Qed.

Lemma len_cons {A} (x : A) l : len (x :: l) = 1 + len l.
Proof. unfold len. cbn [length]. lia. Qed.

Lemma len_app {A} (a b : list A) : len (a ++ b) = len a + len b.
Proof. unfold len. rewrite app_length. lia. Qed.

Lemma len_0 {A} (l : list A) : len l = 0 -> l = [].
Proof. destruct l; [reflexivity|]. rewrite len_cons. lia. Qed.

Lemma takeN_0 {A} (l : list A) : takeN 0 l = [].
Proof. reflexivity. Qed.

Lemma dropN_0 {A} (l : list A) : dropN 0 l = l.
Proof. reflexivity. Qed.

Lemma take_drop {A} n (l : list A) : takeN n l ++ dropN n l = l.
Proof. apply firstn_skipn. Qed.

Lemma len_takeN {A} n (l : list A) : n <= len l -> len (takeN n l) = n.
Proof. unfold len, takeN. intros H. rewrite firstn_length. lia. Qed.

Lemma len_dropN {A} n (l : list A) : len (dropN n l) = len l - n.
Proof. unfold len, dropN. rewrite skipn_length. lia. Qed.

Lemma firstn_plus {A} a b (l : list A) :
  firstn (a + b) l = firstn a l ++ firstn b (skipn a l).
Proof.
  revert l. induction a as [|a IH]; intros l; [reflexivity|].
  destruct l as [|x l]; cbn [Nat.add firstn skipn app].
  - now rewrite firstn_nil.
  - now rewrite IH.
Qed.

Lemma skipn_plus {A} a b (l : list A) : skipn b (skipn a l) = skipn (a + b) l.
Proof.
  revert l. induction a as [|a IH]; intros l; [reflexivity|].
  destruct l as [|x l]; cbn [Nat.add skipn]; [apply skipn_nil | apply IH].
Qed.

Lemma takeN_plus {A} a b (l : list A) : takeN (a + b) l = takeN a l ++ takeN b (dropN a l).
Proof. unfold takeN, dropN. rewrite N2Nat.inj_add. apply firstn_plus. Qed.

Lemma dropN_plus {A} a b (l : list A) : dropN b (dropN a l) = dropN (a + b) l.
Proof. unfold dropN. rewrite N2Nat.inj_add. apply skipn_plus. Qed.

Lemma takeN_len_app {A} (a b : list A) : takeN (len a) (a ++ b) = a.
Proof.
  unfold takeN, len. rewrite Nat2N.id.
  rewrite firstn_app, Nat.sub_diag, firstn_all. cbn. apply app_nil_r.
Qed.

Lemma dropN_len_app {A} (a b : list A) : dropN (len a) (a ++ b) = b.
Proof.
  unfold dropN, len. rewrite Nat2N.id.
  rewrite skipn_app, Nat.sub_diag, skipn_all. reflexivity.
Qed.

(* ------------------------------------------------------------------ *)
(* strict prefixes *)

Definition sprefix {A} (p l : list A) : Prop := exists s, s <> [] /\ l = p ++ s.

Lemma sprefix_nil {A} (p : list A) : ~ sprefix p [].
Proof.
  intros [s [Hs E]]. symmetry in E. apply app_eq_nil in E. destruct E; contradiction.
Qed.

Lemma sprefix_cons_inv {A} (a : A) l p :
  sprefix p (a :: l) -> p = [] \/ exists p', p = a :: p' /\ sprefix p' l.
Proof.
  intros [s [Hs E]]. destruct p as [|b p]; [left; reflexivity|right].
  cbn in E. injection E as -> E. exists p. split; [reflexivity|]. exists s. auto.
Qed.

Lemma sprefix_len {A} (p l : list A) : sprefix p l -> len p < len l.
Proof.
  intros [s [Hs ->]]. rewrite len_app. destruct s; [contradiction|]. rewrite len_cons. lia.
Qed.

Lemma sprefix_app_cases {A} (p a b : list A) :
  sprefix p (a ++ b) -> sprefix p a \/ exists p2, p = a ++ p2 /\ sprefix p2 b.
Proof.
  revert p. induction a as [|x a IH]; intros p H.
  - right. exists p. auto.
  - cbn in H. apply sprefix_cons_inv in H. destruct H as [->|[p' [-> H]]].
    + left. exists (x :: a). split; [discriminate|reflexivity].
    + apply IH in H. destruct H as [H|[p2 [-> H]]].
      * left. destruct H as [s [Hs ->]]. exists s. auto.
      * right. exists p2. auto.
Qed.

Lemma sprefix_app_r {A} (a p2 b : list A) : sprefix p2 b -> sprefix (a ++ p2) (a ++ b).
Proof. intros [s [Hs ->]]. exists s. split; [exact Hs|now rewrite app_assoc]. Qed.

(* a ++ b = c ++ d: either c is a prefix of a, or a is a strict prefix of c *)
Lemma app_eq_cases {A} (a b c d : list A) :
  a ++ b = c ++ d -> (exists t, a = c ++ t /\ d = t ++ b) \/ sprefix a c.
Proof.
  revert c. induction a as [|x a IH]; intros c E.
  - destruct c as [|y c].
    + left. exists []. cbn in *. auto.
    + right. exists (y :: c). split; [discriminate|reflexivity].
  - destruct c as [|y c].
    + left. exists (x :: a). cbn in *. auto.
    + cbn in E. injection E as -> E. apply IH in E. destruct E as [[t [-> ->]]|[s [Hs ->]]].
      * left. exists t. auto.
      * right. exists s. auto.
Qed.

(* ------------------------------------------------------------------ *)
(* big-endian digits *)

Lemma pow256_pos k : 256 ^ N.of_nat k <> 0.
Proof. apply N.pow_nonzero. discriminate. Qed.

Lemma be_from_be_bytes k x acc :
  be_from acc (be_bytes k x) = acc * 256 ^ N.of_nat k + x mod 256 ^ N.of_nat k.
Proof.
  revert acc. induction k as [|k IH]; intros acc.
  - cbn [be_bytes be_from fold_left N.of_nat]. rewrite N.pow_0_r, N.mod_1_r. lia.
  - cbn [be_bytes]. unfold be_from in *. cbn [fold_left]. rewrite IH.
    rewrite Nat2N.inj_succ, N.pow_succ_r'.
    set (P := 256 ^ N.of_nat k).
    rewrite (N.mul_comm 256 P).
    rewrite (N.mod_mul_r x P 256) by (try apply pow256_pos; discriminate).
    ring.
Qed.

Lemma be_cons h l : be (h :: l) = be_from h l.
Proof. unfold be, be_from. cbn [fold_left]. now rewrite N.mul_0_l, N.add_0_l. Qed.

Lemma be_bytes_length k x : length (be_bytes k x) = k.
Proof. induction k as [|k IH]; cbn [be_bytes length]; [reflexivity|now rewrite IH]. Qed.

Lemma be_bytes_ok k x : bytes_ok (be_bytes k x).
Proof.
  induction k as [|k IH]; cbn [be_bytes]; constructor; [|exact IH].
  apply N.mod_lt. discriminate.
Qed.

(* `(tag << k) | x` is an addition when x fits below the tag *)
Lemma lor_shiftl_small t k x : x < 2 ^ k -> N.lor (N.shiftl t k) x = t * 2 ^ k + x.
Proof.
  intros Hx. rewrite N.shiftl_mul_pow2.
  assert (Hd : N.land (t * 2 ^ k) x = 0).
  { apply N.bits_inj_0. intros n. rewrite N.land_spec.
    destruct (N.lt_ge_cases n k) as [Hn|Hn].
    - rewrite N.mul_pow2_bits_low by exact Hn. reflexivity.
    - rewrite <- (N.mod_small x (2 ^ k)) by exact Hx.
      rewrite N.mod_pow2_bits_high by exact Hn. apply andb_false_r. }
  rewrite <- N.lxor_lor by exact Hd. symmetry. apply N.add_nocarry_lxor. exact Hd.
Qed.

(* head byte of the encoding of  t * 64 * D + x  with x < 64 * D *)
Lemma head_byte t D x : D <> 0 -> t < 4 -> x < 64 * D ->
  let h := ((t * 64 * D + x) / D) mod 256 in
  N.shiftr h 6 = t /\ N.land h 63 = x / D /\ (t * 64 * D + x) mod D = x mod D.
Proof.
  intros HD Ht Hx h. subst h.
  rewrite N.div_add_l by exact HD.
  assert (Hq : x / D < 64) by (apply N.div_lt_upper_bound; lia).
  set (q := x / D) in *.
  rewrite N.shiftr_div_pow2. change 63 with (N.ones 6). rewrite N.land_ones.
  change (2 ^ 6) with 64.
  repeat split.
  - dm.
  - dm.
  - rewrite N.add_comm, N.mod_add by exact HD. reflexivity.
Qed.

(* ------------------------------------------------------------------ *)
(* the four forms of a varint: tag t in the two top bits of a 2^t-byte big-endian
   number.  [varint_form t x] exists for x below the capacity of the class, minimal
   or not. *)

Definition class_bytes (t : N) : nat :=
  match t with 0 => 1%nat | 1 => 2%nat | 2 => 4%nat | _ => 8%nat end.
Definition class_cap (t : N) : N := 64 * 256 ^ N.of_nat (pred (class_bytes t)).
Definition varint_form (t x : N) : list N := be_bytes (class_bytes t) (t * class_cap t + x).

Lemma class_cap_values : class_cap 0 = 2 ^ 6 /\ class_cap 1 = 2 ^ 14 /\ class_cap 2 = 2 ^ 30 /\ class_cap 3 = 2 ^ 62.
Proof. repeat split; reflexivity. Qed.

Lemma varint_form_length t x : length (varint_form t x) = class_bytes t.
Proof. apply be_bytes_length. Qed.

Lemma varint_form_ok t x : bytes_ok (varint_form t x).
Proof. apply be_bytes_ok. Qed.

(* decoding any form, followed by anything, yields the value and the rest *)
Lemma varint_decode_form t x rest : t < 4 -> x < class_cap t ->
  varint_decode (varint_form t x ++ rest) = DOk x rest.
Proof.
  intros Ht Hx.
  assert (Hc : t = 0 \/ t = 1 \/ t = 2 \/ t = 3) by lia.
  unfold varint_form, class_cap in *.
  destruct Hc as [-> | [-> | [-> | ->]]]; cbn [class_bytes pred] in *;
    match goal with |- context [be_bytes (S ?k) ?v] =>
      cbn [be_bytes];
      pose proof (head_byte _ (256 ^ N.of_nat k) x (pow256_pos k) Ht Hx) as Hh;
      cbv zeta in Hh; rewrite (N.mul_assoc _ 64 (256 ^ N.of_nat k)) in * ;
      destruct Hh as [Hs [Hl Hm]]
    end;
    cbn [app varint_decode]; rewrite Hs; cbv iota beta; rewrite Hl; f_equal.
  - (* 1 byte *)
    cbn [N.of_nat] in *. rewrite N.pow_0_r in *. now rewrite N.div_1_r.
  - (* 2 bytes *)
    match goal with |- be (?h :: ?tl) = _ => change tl with (be_bytes 1 (1 * 64 * 256 ^ N.of_nat 1 + x)) end.
    rewrite be_cons, be_from_be_bytes, Hm. rewrite (N.div_mod x (256 ^ N.of_nat 1)) at 3 by apply pow256_pos. lia.
  - (* 4 bytes *)
    match goal with |- be (?h :: ?tl) = _ => change tl with (be_bytes 3 (2 * 64 * 256 ^ N.of_nat 3 + x)) end.
    rewrite be_cons, be_from_be_bytes, Hm. rewrite (N.div_mod x (256 ^ N.of_nat 3)) at 3 by apply pow256_pos. lia.
  - (* 8 bytes *)
    match goal with |- be (?h :: ?tl) = _ => change tl with (be_bytes 7 (3 * 64 * 256 ^ N.of_nat 7 + x)) end.
    rewrite be_cons, be_from_be_bytes, Hm. rewrite (N.div_mod x (256 ^ N.of_nat 7)) at 3 by apply pow256_pos. lia.
Qed.

(* every strict prefix of a form is reported as end-of-file (incomplete) *)
Lemma varint_decode_form_prefix t x p : t < 4 -> x < class_cap t ->
  sprefix p (varint_form t x) -> varint_decode p = DEof.
Proof.
  intros Ht Hx Hp.
  assert (Hc : t = 0 \/ t = 1 \/ t = 2 \/ t = 3) by lia.
  unfold varint_form, class_cap in *.
  destruct Hc as [-> | [-> | [-> | ->]]]; cbn [class_bytes pred] in *;
    match goal with H : context [be_bytes (S ?k) ?v] |- _ =>
      cbn [be_bytes] in H;
      pose proof (head_byte _ (256 ^ N.of_nat k) x (pow256_pos k) Ht Hx) as Hh;
      cbv zeta in Hh; rewrite (N.mul_assoc _ 64 (256 ^ N.of_nat k)) in * ;
      destruct Hh as [Hs _]
    end;
    repeat match goal with
    | H : sprefix _ (_ :: _) |- _ =>
        apply sprefix_cons_inv in H; destruct H as [-> | [? [-> H]]]
    | H : sprefix _ [] |- _ => exfalso; exact (sprefix_nil _ H)
    end;
    try reflexivity; cbn [varint_decode]; rewrite Hs; reflexivity.
Qed.

(* the encoder produces the minimal form *)
Definition varint_tag (x : N) : N :=
  if x <? 2 ^ 6 then 0 else if x <? 2 ^ 14 then 1 else if x <? 2 ^ 30 then 2 else 3.

Lemma varint_tag_spec x : x < 2 ^ 62 -> varint_tag x < 4 /\ x < class_cap (varint_tag x).
Proof.
  intros Hx. unfold varint_tag.
  destruct (x <? 2 ^ 6) eqn:H6; [apply N.ltb_lt in H6; split; [lia|exact H6]|].
  destruct (x <? 2 ^ 14) eqn:H14; [apply N.ltb_lt in H14; split; [lia|exact H14]|].
  destruct (x <? 2 ^ 30) eqn:H30; [apply N.ltb_lt in H30; split; [lia|exact H30]|].
  split; [lia|exact Hx].
Qed.

Lemma varint_encode_form x : x < 2 ^ 62 -> varint_encode x = Some (varint_form (varint_tag x) x).
Proof.
  intros Hx. unfold varint_encode, varint_tag, varint_form.
  destruct (x <? 2 ^ 6) eqn:H6.
  { apply N.ltb_lt in H6. rewrite N.mod_small by (change (2 ^ 8) with 256; change (2 ^ 6) with 64 in H6; lia).
    reflexivity. }
  destruct (x <? 2 ^ 14) eqn:H14.
  { apply N.ltb_lt in H14. rewrite N.mod_small by (change (2 ^ 16) with 65536; change (2 ^ 14) with 16384 in H14; lia).
    rewrite lor_shiftl_small by exact H14. reflexivity. }
  destruct (x <? 2 ^ 30) eqn:H30.
  { apply N.ltb_lt in H30. rewrite N.mod_small by (change (2 ^ 32) with 4294967296; change (2 ^ 30) with 1073741824 in H30; lia).
    rewrite lor_shiftl_small by exact H30. reflexivity. }
  rewrite (proj2 (N.ltb_lt _ _) Hx). rewrite lor_shiftl_small by exact Hx. reflexivity.
Qed.

Lemma varint_encode_none x : 2 ^ 62 <= x -> varint_encode x = None.
Proof.
  intros Hx. unfold varint_encode.
  change (2 ^ 6) with 64. change (2 ^ 14) with 16384. change (2 ^ 30) with 1073741824.
  change (2 ^ 62) with 4611686018427387904 in *.
  repeat match goal with |- context [?a <? ?b] => replace (a <? b) with false by (symmetry; apply N.ltb_ge; lia) end.
  reflexivity.
Qed.

Lemma varint_encode_len x bs : varint_encode x = Some bs -> len bs = varint_len x /\ x < 2 ^ 62.
Proof.
  intros E. destruct (N.lt_ge_cases x (2 ^ 62)) as [Hx|Hx]; [|rewrite varint_encode_none in E by exact Hx; discriminate].
  split; [|exact Hx].
  rewrite varint_encode_form in E by exact Hx. injection E as <-.
  unfold len. rewrite varint_form_length. unfold varint_tag, varint_len.
  destruct (x <? 2 ^ 6); [reflexivity|]. destruct (x <? 2 ^ 14); [reflexivity|].
  destruct (x <? 2 ^ 30); reflexivity.
Qed.

(* ------------------------------------------------------------------ *)
(* varint_decode on arbitrary input *)

Lemma varint_decode_rest inp x r :
  varint_decode inp = DOk x r -> exists hd, inp = hd ++ r /\ hd <> [].
Proof.
  destruct inp as [|b0 inp]; [discriminate|]. cbn [varint_decode].
  destruct (N.shiftr b0 6) as [|[[p|p|]|[p|p|]|]]; try discriminate.
  - intros E; injection E as _ <-. exists [b0]. split; [reflexivity|discriminate].
  - destruct inp as [|b1 [|b2 [|b3 [|b4 [|b5 [|b6 [|b7 r']]]]]]]; try discriminate.
    intros E; injection E as _ <-. exists [b0; b1; b2; b3; b4; b5; b6; b7]. split; [reflexivity|discriminate].
  - destruct inp as [|b1 [|b2 [|b3 r']]]; try discriminate.
    intros E; injection E as _ <-. exists [b0; b1; b2; b3]. split; [reflexivity|discriminate].
  - destruct inp as [|b1 r']; try discriminate.
    intros E; injection E as _ <-. exists [b0; b1]. split; [reflexivity|discriminate].
Qed.

Lemma varint_decode_rest_len inp x r : varint_decode inp = DOk x r -> len r < len inp.
Proof.
  intros E. apply varint_decode_rest in E. destruct E as [hd [-> Hn]].
  rewrite len_app. destruct hd; [contradiction|]. rewrite len_cons. lia.
Qed.

Lemma varint_decode_no_err inp e : varint_decode inp <> DErr e.
Proof.
  destruct inp as [|b0 inp]; [discriminate|]. cbn [varint_decode].
  destruct (N.shiftr b0 6) as [|[[p|p|]|[p|p|]|]]; try discriminate.
  - destruct inp as [|b1 [|b2 [|b3 [|b4 [|b5 [|b6 [|b7 r']]]]]]]; discriminate.
  - destruct inp as [|b1 [|b2 [|b3 r']]]; discriminate.
  - destruct inp as [|b1 r']; discriminate.
Qed.

Lemma varint_decode_no_fuel inp : varint_decode inp <> DFuel.
Proof.
  destruct inp as [|b0 inp]; [discriminate|]. cbn [varint_decode].
  destruct (N.shiftr b0 6) as [|[[p|p|]|[p|p|]|]]; try discriminate.
  - destruct inp as [|b1 [|b2 [|b3 [|b4 [|b5 [|b6 [|b7 r']]]]]]]; discriminate.
  - destruct inp as [|b1 [|b2 [|b3 r']]]; discriminate.
  - destruct inp as [|b1 r']; discriminate.
Qed.

Lemma shiftr6_byte b : b < 256 -> N.shiftr b 6 < 4.
Proof. intros H. rewrite N.shiftr_div_pow2. change (2 ^ 6) with 64. dm. Qed.

Lemma land63_lt b : N.land b 63 < 64.
Proof. change 63 with (N.ones 6). rewrite N.land_ones. apply N.mod_lt. discriminate. Qed.

(* on real bytes: no panic, and the value is below 2^62 *)
Lemma varint_decode_bytes inp : bytes_ok inp ->
  varint_decode inp <> DUnreachable /\
  forall x r, varint_decode inp = DOk x r -> x < 2 ^ 62.
Proof.
  intros Hok. destruct inp as [|b0 inp]; [split; [discriminate|discriminate]|].
  inversion Hok as [|? ? Hb0 Hrest]; subst.
  pose proof (shiftr6_byte b0 Hb0) as Ht. pose proof (land63_lt b0) as Hl.
  cbn [varint_decode].
  destruct (N.shiftr b0 6) as [|[[p|p|]|[p|p|]|]]; try lia.
  - split; [discriminate|]. intros x r E. injection E as <- _.
    change (2 ^ 62) with 4611686018427387904. lia.
  - destruct inp as [|b1 [|b2 [|b3 [|b4 [|b5 [|b6 [|b7 r']]]]]]]; (split; [discriminate|try discriminate]).
    intros x r E. injection E as <- _.
    repeat match goal with H : Forall _ (_ :: _) |- _ => inversion H; clear H; subst end.
    unfold be, be_from. cbn [fold_left]. change (2 ^ 62) with 4611686018427387904. lia.
  - destruct inp as [|b1 [|b2 [|b3 r']]]; (split; [discriminate|try discriminate]).
    intros x r E. injection E as <- _.
    repeat match goal with H : Forall _ (_ :: _) |- _ => inversion H; clear H; subst end.
    unfold be, be_from. cbn [fold_left]. change (2 ^ 62) with 4611686018427387904. lia.
  - destruct inp as [|b1 r']; (split; [discriminate|try discriminate]).
    intros x r E. injection E as <- _.
    repeat match goal with H : Forall _ (_ :: _) |- _ => inversion H; clear H; subst end.
    unfold be, be_from. cbn [fold_left]. change (2 ^ 62) with 4611686018427387904. lia.
Qed.

(* ------------------------------------------------------------------ *)
(* the payload reader *)

Lemma read_chunks_fst fuel size acc inp al :
  len acc <= size -> (length inp < fuel)%nat ->
  fst (read_chunks fuel size acc inp al) =
    if size - len acc <=? len inp
    then DOk (acc ++ takeN (size - len acc) inp) (dropN (size - len acc) inp)
    else DEof.
Proof.
  revert acc inp al. induction fuel as [|fuel IH]; intros acc inp al Hacc Hf; [lia|].
  cbn [read_chunks]. cbv zeta. destruct (len acc <? size) eqn:Hlt.
  - apply N.ltb_lt in Hlt. set (n := N.min (size - len acc) READ_AHEAD).
    assert (Hn1 : 1 <= n <= size - len acc) by (unfold n, READ_AHEAD; lia).
    destruct (n <=? len inp) eqn:Hn.
    + apply N.leb_le in Hn.
      assert (Hla : len (acc ++ takeN n inp) = len acc + n) by (rewrite len_app, len_takeN by lia; reflexivity).
      rewrite IH.
      * rewrite Hla, len_dropN.
        replace (size - (len acc + n)) with (size - len acc - n) by lia.
        destruct (size - len acc <=? len inp) eqn:Hc.
        -- apply N.leb_le in Hc.
           replace (size - len acc - n <=? len inp - n) with true by (symmetry; apply N.leb_le; lia).
           rewrite <- app_assoc.
           replace (size - len acc) with (n + (size - len acc - n)) at 3 4 by lia.
           rewrite takeN_plus, dropN_plus. reflexivity.
        -- apply N.leb_gt in Hc.
           replace (size - len acc - n <=? len inp - n) with false by (symmetry; apply N.leb_gt; lia).
           reflexivity.
      * rewrite Hla. lia.
      * unfold dropN. rewrite skipn_length. unfold len in *. lia.
    + apply N.leb_gt in Hn. cbn [fst].
      replace (size - len acc <=? len inp) with false by (symmetry; apply N.leb_gt; lia).
      reflexivity.
  - apply N.ltb_ge in Hlt. cbn [fst].
    replace (size - len acc) with 0 by lia.
    replace (0 <=? len inp) with true by (symmetry; apply N.leb_le; lia).
    rewrite takeN_0, dropN_0, app_nil_r. reflexivity.
Qed.

Lemma read_chunks_allocs fuel size acc inp al T :
  len acc + len inp <= T ->
  Forall (fun a => a <= READ_AHEAD + T) al ->
  Forall (fun a => a <= READ_AHEAD + T) (snd (read_chunks fuel size acc inp al)).
Proof.
  revert acc inp al. induction fuel as [|fuel IH]; intros acc inp al HT Hal; [exact Hal|].
  cbn [read_chunks]. cbv zeta. destruct (len acc <? size) eqn:Hlt; [|exact Hal].
  set (n := N.min (size - len acc) READ_AHEAD).
  assert (Hal' : Forall (fun a => a <= READ_AHEAD + T) (al ++ [len acc + n])).
  { apply Forall_app. split; [exact Hal|]. constructor; [|constructor]. unfold n. lia. }
  destruct (n <=? len inp) eqn:Hn; [|exact Hal'].
  apply N.leb_le in Hn. apply IH; [|exact Hal'].
  rewrite len_app, len_takeN, len_dropN by lia. lia.
Qed.

(* payload::decode in closed form *)
Lemma payload_decode_fst inp :
  fst (payload_decode inp) =
  match varint_decode inp with
  | DOk size r => if size <=? len r then DOk (takeN size r) (dropN size r) else DEof
  | DEof => DEof
  | DErr e => DErr e
  | DUnreachable => DUnreachable
  | DFuel => DFuel
  end.
Proof.
  unfold payload_decode. destruct (varint_decode inp) as [size r| | | |]; try reflexivity.
  rewrite read_chunks_fst; [|rewrite len_nil; lia|lia].
  rewrite len_nil, N.sub_0_r. reflexivity.
Qed.

Lemma payload_decode_allocs inp :
  Forall (fun a => a <= READ_AHEAD + len inp) (snd (payload_decode inp)).
Proof.
  unfold payload_decode. destruct (varint_decode inp) as [size r| | | |] eqn:E; try constructor.
  apply read_chunks_allocs; [|constructor].
  apply varint_decode_rest_len in E. rewrite len_nil. lia.
Qed.

(* payload round trip, and every strict prefix is incomplete *)
Lemma payload_encode_some p bs : payload_encode p = Some bs ->
  exists hd, varint_encode (len p) = Some hd /\ bs = hd ++ p /\ len p < 2 ^ 62.
Proof.
  unfold payload_encode, varint_new. intros E.
  destruct (len p <=? VARINT_MAX) eqn:Hm; [|discriminate].
  destruct (varint_encode (len p)) as [hd|] eqn:Eh; [|discriminate].
  injection E as <-. exists hd. repeat split.
  apply N.leb_le in Hm. unfold VARINT_MAX in Hm. change (2 ^ 62) with 4611686018427387904 in *. lia.
Qed.

Lemma payload_encode_lt p : len p < 2 ^ 62 -> exists bs, payload_encode p = Some bs.
Proof.
  intros H. unfold payload_encode, varint_new.
  replace (len p <=? VARINT_MAX) with true
    by (symmetry; apply N.leb_le; unfold VARINT_MAX; change (2 ^ 62) with 4611686018427387904 in *; lia).
  rewrite varint_encode_form by exact H. eauto.
Qed.

Lemma payload_decode_encode p bs rest : payload_encode p = Some bs ->
  fst (payload_decode (bs ++ rest)) = DOk p rest.
Proof.
  intros E. apply payload_encode_some in E. destruct E as [hd [Eh [-> Hp]]].
  rewrite varint_encode_form in Eh by exact Hp. injection Eh as <-.
  destruct (varint_tag_spec _ Hp) as [Ht Hc].
  rewrite payload_decode_fst, <- app_assoc, varint_decode_form by assumption.
  rewrite len_app. replace (len p <=? len p + len rest) with true by (symmetry; apply N.leb_le; lia).
  now rewrite takeN_len_app, dropN_len_app.
Qed.

Lemma payload_decode_prefix p bs q : payload_encode p = Some bs -> sprefix q bs ->
  fst (payload_decode q) = DEof.
Proof.
  intros E Hq. apply payload_encode_some in E. destruct E as [hd [Eh [-> Hp]]].
  rewrite varint_encode_form in Eh by exact Hp. injection Eh as <-.
  destruct (varint_tag_spec _ Hp) as [Ht Hc].
  rewrite payload_decode_fst.
  apply sprefix_app_cases in Hq. destruct Hq as [Hq|[q2 [-> Hq]]].
  - now rewrite (varint_decode_form_prefix _ _ _ Ht Hc Hq).
  - rewrite varint_decode_form by assumption. apply sprefix_len in Hq.
    replace (len p <=? len q2) with false by (symmetry; apply N.leb_gt; lia). reflexivity.
Qed.
