(* FetchProofs.v — lemmas and invariants about model/Fetch.v (C01, C02). *)
From HW Require Import lib.Base lib.SMap model.Fetch.
From Coq Require Import Sorted.
Local Open Scope N_scope.

(* ------------------------------------------------------------------ *)
(* maps: lookups after insert / del, without any sortedness assumption *)

Lemma lookup_insert_any {V} (k : N) (v : V) (m : smap V) k0 :
  lookup k0 (insert k v m) = if k0 =? k then Some v else lookup k0 m.
Proof.
  unfold insert. induction m as [|[k' v'] m IH]; cbn [upsert lookup].
  - destruct (N.eqb_spec k0 k); reflexivity.
  - destruct (N.compare_spec k k') as [E|Hlt|Hgt].
    + subst k'. cbn [lookup]. destruct (N.eqb_spec k0 k); reflexivity.
    + cbn [lookup]. destruct (N.eqb_spec k0 k); [reflexivity|].
      reflexivity.
    + cbn [lookup]. rewrite IH.
      destruct (N.eqb_spec k0 k'); destruct (N.eqb_spec k0 k); try reflexivity. lia.
Qed.

Lemma lookup_del {V} (k : N) (m : smap V) k0 :
  lookup k0 (del k m) = if k0 =? k then None else lookup k0 m.
Proof.
  unfold del. induction m as [|[k' v'] m IH]; cbn [filter lookup fst].
  - destruct (k0 =? k); reflexivity.
  - destruct (N.eqb_spec k' k) as [E|NE]; cbn [negb].
    + subst k'. rewrite IH. destruct (N.eqb_spec k0 k); reflexivity.
    + cbn [lookup]. rewrite IH.
      destruct (N.eqb_spec k0 k'); destruct (N.eqb_spec k0 k); try reflexivity. lia.
Qed.

Lemma keys_filter_Forall {V} (P : N -> Prop) (f : N * V -> bool) (m : smap V) :
  Forall P (keys m) -> Forall P (keys (filter f m)).
Proof.
  unfold keys. induction m as [|x m IH]; cbn [filter map]; intros H; [constructor|].
  inversion H; subst. destruct (f x); cbn [map]; [constructor|]; auto.
Qed.

Lemma sorted_filter {V} (f : N * V -> bool) (m : smap V) : sorted m -> sorted (filter f m).
Proof.
  induction m as [|[k v] m IH]; cbn [filter]; intros Hs; [exact Hs|].
  apply sorted_cons_inv in Hs. destruct Hs as [Hs Hall].
  destruct (f (k, v)); [|apply IH; exact Hs].
  apply sorted_cons; [apply IH; exact Hs | apply keys_filter_Forall; exact Hall].
Qed.

Lemma sorted_del {V} k (m : smap V) : sorted m -> sorted (del k m).
Proof. apply sorted_filter. Qed.

Lemma sorted_insert {V} k (v : V) m : sorted m -> sorted (insert k v m).
Proof. apply sorted_upsert. Qed.

Lemma lookup_Some_In {V} k (v : V) m : lookup k m = Some v -> In (k, v) m.
Proof. apply lookup_In. Qed.

Lemma mem_lookup {V} k (m : smap V) : mem k m = true <-> exists v, lookup k m = Some v.
Proof.
  unfold mem. destruct (lookup k m) as [v|]; split; intros H; try discriminate.
  - exists v; reflexivity.
  - reflexivity.
  - destruct H as [v H]; discriminate.
Qed.

Lemma mem_false_lookup {V} k (m : smap V) : mem k m = false <-> lookup k m = None.
Proof. unfold mem. destruct (lookup k m); split; intros; congruence. Qed.

Lemma In_keys_lookup {V} k (m : smap V) : In k (keys m) -> exists v, lookup k m = Some v.
Proof.
  intros H. apply lookup_in_keys in H. destruct (lookup k m) as [v|]; [exists v; reflexivity | congruence].
Qed.

(* ------------------------------------------------------------------ *)
(* stores *)

Lemma ns_of_put_ns r ns L r' :
  ns_of (put_ns r ns L) r' = if r' =? r then ns else ns_of L r'.
Proof.
  unfold ns_of, put_ns. destruct ns as [|x ns].
  - rewrite lookup_del. destruct (r' =? r); reflexivity.
  - rewrite lookup_insert_any. destruct (r' =? r); reflexivity.
Qed.

(* ------------------------------------------------------------------ *)
(* update lists: the effect of the last update on a name *)

Definition upd_name (u : update) : name := match u with Direct n _ _ => n | Prune n => n end.
Definition upd_eff (u : update) : option oid := match u with Direct _ t _ => Some t | Prune _ => None end.

Fixpoint last_on (us : list update) (k : name) : option (option oid) :=
  match us with
  | [] => None
  | u :: us' =>
      match last_on us' k with
      | Some e => Some e
      | None => if upd_name u =? k then Some (upd_eff u) else None
      end
  end.

Lemma last_on_app a b k :
  last_on (a ++ b) k = match last_on b k with Some e => Some e | None => last_on a k end.
Proof.
  induction a as [|u a IH]; cbn [app last_on].
  - destruct (last_on b k); reflexivity.
  - rewrite IH. destruct (last_on b k); reflexivity.
Qed.

Lemma last_on_In u us : In u us -> last_on us (upd_name u) <> None.
Proof.
  induction us as [|u' us IH]; cbn [In last_on]; [tauto|].
  intros [E|H].
  - subst u'. destruct (last_on us (upd_name u)); [congruence|]. rewrite N.eqb_refl. congruence.
  - specialize (IH H). destruct (last_on us (upd_name u)); congruence.
Qed.

Lemma last_on_Some_In us k e : last_on us k = Some e -> exists u, In u us /\ upd_name u = k /\ upd_eff u = e.
Proof.
  induction us as [|u us IH]; cbn [last_on]; [discriminate|].
  destruct (last_on us k) as [e'|] eqn:El.
  - intros E. inversion E; subst. destruct (IH eq_refl) as [u' [Hin [Hn He]]].
    exists u'. split; [right; exact Hin | auto].
  - destruct (N.eqb_spec (upd_name u) k); [|discriminate].
    intros E. inversion E; subst. exists u. split; [left; reflexivity | auto].
Qed.

Lemma mem_update_lookup m u k :
  lookup k (mem_update m u) = if upd_name u =? k then upd_eff u else lookup k m.
Proof.
  destruct u as [n t p|n]; cbn [mem_update upd_name upd_eff].
  - rewrite lookup_insert_any. rewrite (N.eqb_sym k n). reflexivity.
  - rewrite lookup_del. rewrite (N.eqb_sym k n). reflexivity.
Qed.

Lemma fold_mem_lookup us : forall m k,
  lookup k (fold_left mem_update us m) = match last_on us k with Some e => e | None => lookup k m end.
Proof.
  induction us as [|u us IH]; intros m k; cbn [fold_left last_on]; [reflexivity|].
  rewrite IH. destruct (last_on us k); [reflexivity|].
  rewrite mem_update_lookup. destruct (upd_name u =? k); reflexivity.
Qed.

Lemma mem_of_lookup us k :
  lookup k (mem_of us) = match last_on us k with Some e => e | None => None end.
Proof. unfold mem_of. rewrite fold_mem_lookup. reflexivity. Qed.

Lemma sorted_fold_mem us : forall m, sorted m -> sorted (fold_left mem_update us m).
Proof.
  induction us as [|u us IH]; intros m H; cbn [fold_left]; [exact H|].
  apply IH. destruct u; cbn [mem_update]; [apply sorted_insert | apply sorted_del]; exact H.
Qed.

Lemma sorted_mem_of us : sorted (mem_of us).
Proof. apply sorted_fold_mem. apply sorted_nil. Qed.

(* ------------------------------------------------------------------ *)
(* applying updates *)

Section WithOracles.
Variable anc : oid -> oid -> bool.
Variable U : universe.

Notation apply_update := (apply_update anc).
Notation apply_ns := (apply_ns anc).
Notation apply_all := (apply_all anc).
Notation ancestry_of := (ancestry_of anc).

Definition free_update (u : update) : Prop :=
  match u with Direct _ _ Allow => True | Prune _ => True | _ => False end.

Lemma apply_free ns u : free_update u ->
  exists ns', apply_update ns u = Some ns' /\
    forall k, lookup k ns' = if upd_name u =? k then upd_eff u else lookup k ns.
Proof.
  destruct u as [n t p|n]; cbn [free_update]; intros Hf.
  - destruct p; try contradiction. cbn [apply_update upd_name upd_eff].
    destruct (lookup n ns) as [prev|] eqn:El.
    + unfold Fetch.ancestry_of. destruct (N.eqb_spec prev t) as [E|NE].
      * subst. exists ns. split; [reflexivity|]. intros k.
        destruct (N.eqb_spec n k); [subst; exact El | reflexivity].
      * destruct (anc prev t); [|destruct (anc t prev)];
          (eexists; split; [reflexivity|]; intros k; rewrite lookup_insert_any, (N.eqb_sym k n); reflexivity).
    + eexists; split; [reflexivity|]. intros k. rewrite lookup_insert_any, (N.eqb_sym k n). reflexivity.
  - cbn [apply_update upd_name upd_eff]. eexists; split; [reflexivity|].
    intros k. rewrite lookup_del, (N.eqb_sym k n). reflexivity.
Qed.

Lemma apply_ns_free da : Forall free_update da -> forall ns,
  exists ns', apply_ns ns da = (ns', true) /\
    forall k, lookup k ns' = match last_on da k with Some e => e | None => lookup k ns end.
Proof.
  induction da as [|u da IH]; intros Hf ns; cbn [Fetch.apply_ns last_on].
  - exists ns. split; reflexivity.
  - inversion Hf; subst.
    destruct (apply_free ns u H1) as [ns1 [E1 L1]]. rewrite E1.
    destruct (IH H2 ns1) as [ns' [E2 L2]]. exists ns'. split; [exact E2|].
    intros k. rewrite L2. destruct (last_on da k); [reflexivity|]. rewrite L1.
    destruct (upd_name u =? k); reflexivity.
Qed.

Lemma apply_ns_app a b ns :
  apply_ns ns (a ++ b) =
  let '(ns1, ok) := apply_ns ns a in if ok then apply_ns ns1 b else (ns1, false).
Proof.
  revert ns. induction a as [|u a IH]; intros ns; cbn [app Fetch.apply_ns]; [reflexivity|].
  destruct (apply_update ns u) as [ns1|]; [apply IH | reflexivity].
Qed.

(* ---------------- single guarded updates *)

Lemma apply_direct_other ns n x p ns1 :
  apply_update ns (Direct n x p) = Some ns1 -> forall k, k <> n -> lookup k ns1 = lookup k ns.
Proof.
  cbn [Fetch.apply_update]. intros H k Hk.
  assert (Hins : lookup k (insert n x ns) = lookup k ns).
  { rewrite lookup_insert_any. destruct (N.eqb_spec k n); [contradiction | reflexivity]. }
  destruct (lookup n ns) as [prev|].
  - destruct (ancestry_of prev x); destruct p; inversion H; subst; auto.
  - inversion H; subst; auto.
Qed.

Lemma apply_direct_ff ns n t p :
  (forall a, lookup n ns = Some a -> a = t \/ anc a t = true) ->
  exists ns1, apply_update ns (Direct n t p) = Some ns1 /\ lookup n ns1 = Some t.
Proof.
  intros Hanc. cbn [Fetch.apply_update].
  assert (Hins : lookup n (insert n t ns) = Some t).
  { rewrite lookup_insert_any, N.eqb_refl. reflexivity. }
  destruct (lookup n ns) as [prev|] eqn:El.
  - unfold Fetch.ancestry_of. destruct (N.eqb_spec prev t) as [E|NE].
    + subst. exists ns. split; [reflexivity | exact El].
    + destruct (Hanc prev eq_refl) as [E|Ha]; [contradiction|]. rewrite Ha.
      destruct p; (eexists; split; [reflexivity | exact Hins]).
  - eexists; split; [reflexivity | exact Hins].
Qed.

(* ---------------- the shape of the updates of one namespace *)

Definition data_part (ns : namespace) (content : smap oid) : list update :=
  map (fun nv => Direct (fst nv) (snd nv) Allow) (filter (fun nv => is_qualified (fst nv)) content)
  ++ map (fun nv => Prune (fst nv))
         (filter (fun nv => negb (is_rad (fst nv)) && negb (mem (fst nv) content)) ns).

Lemma data_updates_eq L r o : data_updates L r o = data_part (ns_of L r) (so_content o).
Proof. reflexivity. Qed.

Lemma data_part_free ns content : Forall free_update (data_part ns content).
Proof.
  unfold data_part. apply Forall_app. split; apply Forall_forall; intros u Hu;
    apply in_map_iff in Hu; destruct Hu as [x [E _]]; subst u; exact I.
Qed.

Lemma data_part_direct ns content n v :
  In (n, v) content -> is_qualified n = true -> In (Direct n v Allow) (data_part ns content).
Proof.
  intros Hin Hq. unfold data_part. apply in_or_app. left.
  apply in_map_iff. exists (n, v). split; [reflexivity|].
  apply filter_In. split; [exact Hin | exact Hq].
Qed.

Lemma data_part_prune ns content n v :
  lookup n ns = Some v -> is_rad n = false -> lookup n content = None ->
  In (Prune n) (data_part ns content).
Proof.
  intros Hl Hr Hc. unfold data_part. apply in_or_app. right.
  apply in_map_iff. exists (n, v). split; [reflexivity|].
  apply filter_In. split; [apply lookup_In; exact Hl|].
  cbn [fst]. rewrite Hr. apply mem_false_lookup in Hc. rewrite Hc. reflexivity.
Qed.

Lemma data_part_inv ns content u : In u (data_part ns content) ->
  (exists n v, u = Direct n v Allow /\ In (n, v) content /\ is_qualified n = true) \/
  (exists n, u = Prune n /\ is_rad n = false).
Proof.
  unfold data_part. intros H. apply in_app_or in H. destruct H as [H|H];
    apply in_map_iff in H; destruct H as [[n v] [E Hin]]; subst u; apply filter_In in Hin;
    destruct Hin as [Hin Hf]; cbn [fst snd] in *.
  - left. exists n, v. auto.
  - right. exists n. split; [reflexivity|]. apply andb_true_iff in Hf. destruct Hf as [Hf _].
    destruct (is_rad n); [discriminate | reflexivity].
Qed.

Definition sp_shape (p : policy) (t : oid) (sp : list update) : Prop :=
  exists a b, sp = a ++ b /\
    (a = [] \/ exists x, a = [Direct RAD_ID x p]) /\
    (b = [] \/ b = [Direct SIGREFS t p]).

Lemma sp_last_on p t sp : sp_shape p t sp ->
  (forall k, k <> RAD_ID -> k <> SIGREFS -> last_on sp k = None) /\
  (last_on sp SIGREFS = None \/ last_on sp SIGREFS = Some (Some t)) /\
  (last_on sp RAD_ID = None \/
   exists x, last_on sp RAD_ID = Some (Some x) /\ exists rest, sp = Direct RAD_ID x p :: rest).
Proof.
  intros [a [b [E [[Ha|[x Ha]] [Hb|Hb]]]]]; subst; cbn [app last_on upd_name upd_eff].
  - repeat split; auto.
  - repeat split.
    + intros k H1 H2. destruct (N.eqb_spec SIGREFS k); [congruence | reflexivity].
    + right. reflexivity.
    + left. reflexivity.
  - repeat split.
    + intros k H1 H2. destruct (N.eqb_spec RAD_ID k); [congruence | reflexivity].
    + left. reflexivity.
    + right. exists x. split; [reflexivity | exists []; reflexivity].
  - repeat split.
    + intros k H1 H2. destruct (N.eqb_spec SIGREFS k); [congruence|].
      destruct (N.eqb_spec RAD_ID k); [congruence | reflexivity].
    + right. reflexivity.
    + right. exists x. split; [reflexivity | eexists; reflexivity].
Qed.

Lemma sp_apply p t sp ns :
  sp_shape p t sp ->
  (forall a, lookup SIGREFS ns = Some a -> a = t \/ anc a t = true) ->
  exists ns1 ok, apply_ns ns sp = (ns1, ok) /\
    (ok = false -> ns1 = ns) /\
    (ok = true ->
       (forall k, k <> RAD_ID -> k <> SIGREFS -> lookup k ns1 = lookup k ns) /\
       (last_on sp SIGREFS = None -> lookup SIGREFS ns1 = lookup SIGREFS ns) /\
       (last_on sp SIGREFS <> None -> lookup SIGREFS ns1 = Some t) /\
       (last_on sp RAD_ID = None -> lookup RAD_ID ns1 = lookup RAD_ID ns)).
Proof.
  intros [a [b [E [[Ha|[x Ha]] [Hb|Hb]]]]] Hanc; subst; cbn [app Fetch.apply_ns].
  - exists ns, true. split; [reflexivity|]. split; [discriminate|]. intros _.
    cbn [last_on]. repeat split; auto. intros H; congruence.
  - destruct (apply_direct_ff ns SIGREFS t p Hanc) as [ns1 [E1 L1]]. rewrite E1.
    exists ns1, true. split; [reflexivity|]. split; [discriminate|]. intros _.
    repeat split.
    + intros k H1 H2. eapply apply_direct_other; eauto.
    + cbn [last_on upd_name]. rewrite N.eqb_refl. discriminate.
    + intros _. exact L1.
    + intros _. eapply apply_direct_other; eauto. discriminate.
  - destruct (apply_update ns (Direct RAD_ID x p)) as [ns1|] eqn:E1.
    + exists ns1, true. split; [reflexivity|]. split; [discriminate|]. intros _.
      repeat split.
      * intros k H1 H2. eapply apply_direct_other; eauto.
      * intros _. eapply apply_direct_other; eauto. discriminate.
      * cbn [last_on upd_name]. replace (RAD_ID =? SIGREFS) with false by reflexivity. congruence.
      * cbn [last_on upd_name]. rewrite N.eqb_refl. discriminate.
    + exists ns, false. split; [reflexivity|]. split; [reflexivity | discriminate].
  - destruct (apply_update ns (Direct RAD_ID x p)) as [ns1|] eqn:E1.
    + assert (Hsame : lookup SIGREFS ns1 = lookup SIGREFS ns).
      { eapply apply_direct_other; eauto. discriminate. }
      assert (Hanc1 : forall a, lookup SIGREFS ns1 = Some a -> a = t \/ anc a t = true).
      { intros a Ha. apply Hanc. rewrite <- Hsame. exact Ha. }
      destruct (apply_direct_ff ns1 SIGREFS t p Hanc1) as [ns2 [E2 L2]]. rewrite E2.
      exists ns2, true. split; [reflexivity|]. split; [discriminate|]. intros _.
      repeat split.
      * intros k H1 H2. rewrite (apply_direct_other _ _ _ _ _ E2 k H2).
        eapply apply_direct_other; eauto.
      * cbn [last_on upd_name]. rewrite N.eqb_refl. discriminate.
      * intros _. exact L2.
      * cbn [last_on upd_name]. replace (SIGREFS =? RAD_ID) with false by reflexivity.
        rewrite N.eqb_refl. discriminate.
    + exists ns, false. split; [reflexivity|]. split; [reflexivity | discriminate].
Qed.

(* ---------------- Cached::validate_remote, read off as lookups *)

Lemma validate_spec us content : validate us content = true ->
  (exists s, lookup SIGREFS (mem_of us) = Some s) /\
  lookup SIGREFS content = None /\
  (forall n, n <> SIGREFS -> lookup n (mem_of us) = lookup n content).
Proof.
  unfold validate. intros H. apply andb_true_iff in H. destruct H as [H V3].
  apply andb_true_iff in H. destruct H as [V1 V2].
  rewrite forallb_forall in V2, V3.
  split; [apply mem_lookup; exact V1|].
  split.
  - destruct (lookup SIGREFS content) as [v|] eqn:El; [|reflexivity].
    apply lookup_In in El. specialize (V3 _ El). cbn [fst] in V3.
    rewrite N.eqb_refl in V3. discriminate.
  - intros n Hn.
    destruct (lookup n (mem_of us)) as [v|] eqn:Em.
    + apply lookup_In in Em. specialize (V2 _ Em). cbn [fst snd] in V2.
      destruct (N.eqb_spec n SIGREFS); [contradiction|]. cbn [orb] in V2.
      destruct (lookup n content) as [v'|]; [|discriminate].
      apply N.eqb_eq in V2. subst. reflexivity.
    + destruct (lookup n content) as [v|] eqn:Ec; [|reflexivity].
      apply lookup_In in Ec. specialize (V3 _ Ec). cbn [fst] in V3.
      apply andb_true_iff in V3. destruct V3 as [_ V3].
      apply mem_lookup in V3. destruct V3 as [v' V3]. congruence.
Qed.

(* ---------------- the namespace after a validated set of updates *)

Definition ns_matches (ns0 ns' : namespace) (t : oid) (content : smap oid) : Prop :=
  lookup SIGREFS ns' = Some t /\
  (forall n v, lookup n content = Some v -> lookup n ns' = Some v) /\
  (forall n v, n <> SIGREFS -> lookup n ns' = Some v ->
     lookup n content = Some v \/
     (is_rad n = true /\ lookup n content = None /\ lookup n ns0 = Some v)).

Lemma ns_match ns content p t sp :
  sp_shape p t sp ->
  validate (sp ++ data_part ns content) content = true ->
  (forall a, lookup SIGREFS ns = Some a -> a = t \/ anc a t = true) ->
  exists ns' ok, apply_ns ns (sp ++ data_part ns content) = (ns', ok) /\
    (ok = false -> ns' = ns) /\
    (ok = true -> ns_matches ns ns' t content).
Proof.
  intros Hshape Hval Hanc.
  set (da := data_part ns content) in *.
  destruct (validate_spec _ _ Hval) as [[s Hs] [Hcs E1]].
  destruct (sp_last_on _ _ _ Hshape) as [Lo [Ls Li]].
  destruct (sp_apply _ _ _ ns Hshape Hanc) as [ns1 [ok [Eap [Hko Hok]]]].
  rewrite apply_ns_app, Eap.
  destruct ok.
  2:{ exists ns1, false. split; [reflexivity|]. split; [auto | discriminate]. }
  destruct (apply_ns_free da (data_part_free ns content) ns1) as [ns' [Eda Lda]].
  exists ns', true. split; [exact Eda|]. split; [discriminate|]. intros _.
  destruct (Hok eq_refl) as [Ho [Hs0 [Hs1 Hi0]]].
  (* mem lookups *)
  assert (Hmem : forall k, lookup k (mem_of (sp ++ da)) =
            match last_on da k with Some e => e | None =>
              match last_on sp k with Some e => e | None => None end end).
  { intros k. rewrite mem_of_lookup, last_on_app. destruct (last_on da k); reflexivity. }
  (* da does not touch SIGREFS *)
  assert (Hda_sig : last_on da SIGREFS = None).
  { destruct (last_on da SIGREFS) as [e|] eqn:El; [|reflexivity].
    apply last_on_Some_In in El. destruct El as [u [Hin [Hn He]]].
    apply data_part_inv in Hin. destruct Hin as [[n [v [Eu [Hc _]]]]|[n [Eu Hr]]]; subst u; cbn in Hn; subst n.
    - apply (In_lookup) in Hc.
      + congruence.
      + (* content need not be sorted: use the entry directly *)
        exfalso. clear -Hval Hc.
        unfold validate in Hval. apply andb_true_iff in Hval. destruct Hval as [_ V3].
        rewrite forallb_forall in V3. specialize (V3 _ Hc). cbn [fst] in V3.
        rewrite N.eqb_refl in V3. discriminate.
    - discriminate. }
  (* a signed rad/id update is followed by the data update of rad/id *)
  assert (Hid : last_on da RAD_ID = None -> last_on sp RAD_ID = None).
  { intros Hd. destruct Li as [Li|[x [Li _]]]; [exact Li|]. exfalso.
    assert (Em : lookup RAD_ID (mem_of (sp ++ da)) = Some x).
    { rewrite Hmem, Hd, Li. reflexivity. }
    rewrite (E1 RAD_ID) in Em by discriminate.
    apply lookup_In in Em.
    pose proof (data_part_direct ns content RAD_ID x Em eq_refl) as Hin.
    apply last_on_In in Hin. cbn [upd_name] in Hin. fold da in Hin. congruence. }
  unfold ns_matches. split; [|split].
  - (* SIGREFS *)
    rewrite Lda, Hda_sig. apply Hs1.
    rewrite Hmem, Hda_sig in Hs. destruct (last_on sp SIGREFS); congruence.
  - (* every signed reference is there *)
    intros n v Hc.
    assert (Hn : n <> SIGREFS) by (intros ->; congruence).
    assert (Em : lookup n (mem_of (sp ++ da)) = Some v) by (rewrite E1; assumption).
    rewrite Lda. rewrite Hmem in Em.
    destruct (last_on da n) as [e|] eqn:Ed; [exact Em|].
    exfalso. destruct (N.eqb_spec n RAD_ID) as [->|Hni].
    + rewrite (Hid Ed) in Em. discriminate.
    + rewrite (Lo n Hni Hn) in Em. discriminate.
  - (* nothing else, except refs/rad/* that were there before and are not signed *)
    intros n v Hn Hl. rewrite Lda in Hl.
    pose proof (Hmem n) as Em. rewrite (E1 n Hn) in Em.
    destruct (last_on da n) as [e|] eqn:Ed.
    + left. congruence.
    + right.
      assert (Hsp : last_on sp n = None).
      { destruct (N.eqb_spec n RAD_ID) as [->|Hni]; [apply Hid; exact Ed | apply Lo; assumption]. }
      rewrite Hsp in Em.
      assert (Hl0 : lookup n ns = Some v).
      { destruct (N.eqb_spec n RAD_ID) as [->|Hni]; [rewrite <- Hi0; assumption | rewrite <- Ho; assumption]. }
      split; [|split; assumption].
      destruct (is_rad n) eqn:Hr; [reflexivity|]. exfalso.
      pose proof (data_part_prune ns content n v Hl0 Hr Em) as Hin.
      apply last_on_In in Hin. cbn [upd_name] in Hin. fold da in Hin. congruence.
Qed.

(* what a passed validation says about the advertised data itself *)
Lemma validate_special_facts c r i sg ns content :
  validate (special_updates c r i sg ++ data_part ns content) content = true ->
  (exists t, sg = Some t) /\
  (forall x, i = Some x -> lookup RAD_ID content <> None) /\
  lookup SIGREFS content = None /\
  (forall n v, lookup n content = Some v -> is_qualified n = true).
Proof.
  intros Hval. set (sp := special_updates c r i sg) in *. set (da := data_part ns content) in *.
  destruct (validate_spec _ _ Hval) as [[s0 Hs] [Hcs E1]].
  assert (Hmem : forall k, lookup k (mem_of (sp ++ da)) =
            match last_on da k with Some e => e | None =>
              match last_on sp k with Some e => e | None => None end end).
  { intros k. rewrite mem_of_lookup, last_on_app. destruct (last_on da k); reflexivity. }
  assert (Hda : forall k, lookup k content = None -> is_rad k = true -> last_on da k = None).
  { intros k Hk Hr. destruct (last_on da k) as [e|] eqn:El; [|reflexivity].
    apply last_on_Some_In in El. destruct El as [u [Hin [Hn He]]].
    apply data_part_inv in Hin. destruct Hin as [[n [v [Eu [Hc _]]]]|[n [Eu Hr']]]; subst u; cbn in Hn; subst n.
    - exfalso. assert (Hk' : lookup k content <> None).
      { apply lookup_in_keys. apply in_map_iff. exists (k, v). auto. }
      congruence.
    - congruence. }
  split; [|split; [|split; [exact Hcs|]]].
  - rewrite Hmem, (Hda SIGREFS Hcs eq_refl) in Hs.
    unfold sp, special_updates in Hs. destruct sg as [t|]; [exists t; reflexivity|].
    exfalso. destruct i; cbn in Hs; discriminate.
  - intros x Ei Hnone. subst i.
    pose proof (E1 RAD_ID) as E. rewrite Hmem, (Hda RAD_ID Hnone eq_refl), Hnone in E.
    unfold sp, special_updates in E. destruct sg; cbn in E; specialize (E ltac:(discriminate)); discriminate.
  - intros n v Hc.
    assert (Hn : n <> SIGREFS) by (intros ->; congruence).
    pose proof (E1 n Hn) as E. rewrite Hc, mem_of_lookup in E.
    destruct (last_on (sp ++ da) n) as [e|] eqn:El; [|discriminate].
    apply last_on_Some_In in El. destruct El as [u [Hin [Hnm He]]].
    apply in_app_or in Hin. destruct Hin as [Hin|Hin].
    + unfold sp, special_updates in Hin.
      destruct i; destruct sg; cbn in Hin;
        repeat (destruct Hin as [Hin|Hin]; [subst u; cbn in Hnm; subst n; reflexivity|]); contradiction.
    + apply data_part_inv in Hin. destruct Hin as [[n' [v' [Eu [_ Hq]]]]|[n' [Eu _]]]; subst u; cbn in Hnm, He.
      * subst n'. exact Hq.
      * subst e. discriminate.
Qed.

End WithOracles.

(* ------------------------------------------------------------------ *)
(* building the per-remote update lists *)

Lemma sorted_NoDup_keys {V} (m : smap V) : sorted m -> NoDup (keys m).
Proof.
  induction m as [|[k v] m IH]; intros Hs; [constructor|].
  apply sorted_cons_inv in Hs. destruct Hs as [Hs Hall]. cbn [keys map fst].
  constructor; [|apply IH; exact Hs].
  intros Hin. rewrite Forall_forall in Hall. specialize (Hall _ Hin). lia.
Qed.

Lemma NoDup_map_filter {X} (key : X -> N) (P : X -> bool) l :
  NoDup (map key l) -> NoDup (map key (filter P l)).
Proof.
  induction l as [|x l IH]; cbn [filter map]; intros H; [constructor|].
  inversion H; subst. destruct (P x); cbn [map]; [|apply IH; assumption].
  constructor; [|apply IH; assumption].
  intros Hin. apply H2. apply in_map_iff in Hin. destruct Hin as [y [E Hy]].
  apply filter_In in Hy. apply in_map_iff. exists y. split; [exact E | apply Hy].
Qed.

Lemma updates_of_add_tips r us tips r' : sorted tips ->
  updates_of (add_tips r us tips) r' =
  if r' =? r then updates_of tips r ++ us else updates_of tips r'.
Proof.
  intros Hs. unfold updates_of, add_tips. rewrite lookup_upsert by exact Hs.
  destruct (r' =? r); [|reflexivity].
  destruct (lookup r tips); reflexivity.
Qed.

Lemma lookup_add_tips_none r us tips r' : sorted tips ->
  lookup r' (add_tips r us tips) = None <-> (r' <> r /\ lookup r' tips = None).
Proof.
  intros Hs. unfold add_tips. rewrite lookup_upsert by exact Hs.
  destruct (N.eqb_spec r' r).
  - split; [discriminate | intros [H _]; contradiction].
  - split; [intros H; split; assumption | intros [_ H]; exact H].
Qed.

Lemma fold_add_tips {X} (key : X -> nid) (g : X -> list update) (xs : list X) :
  NoDup (map key xs) -> forall tips, sorted tips ->
  let T := fold_left (fun m x => add_tips (key x) (g x) m) xs tips in
  sorted T /\
  (forall x, In x xs -> updates_of T (key x) = updates_of tips (key x) ++ g x) /\
  (forall r, ~ In r (map key xs) -> lookup r T = lookup r tips) /\
  (forall r, lookup r T = None -> lookup r tips = None /\ ~ In r (map key xs)).
Proof.
  induction xs as [|x xs IH]; intros Hnd tips Hs; cbn [fold_left map].
  - repeat split; auto. intros x [].
  - inversion Hnd; subst.
    assert (Hs1 : sorted (add_tips (key x) (g x) tips)) by (apply sorted_upsert; exact Hs).
    destruct (IH H2 _ Hs1) as [I1 [I2 [I3 I4]]]. cbn zeta in *.
    split; [exact I1|]. split; [|split].
    + intros y [E|Hy].
      * subst y.
        assert (E : updates_of (fold_left (fun m x0 => add_tips (key x0) (g x0) m) xs
                      (add_tips (key x) (g x) tips)) (key x)
                    = updates_of (add_tips (key x) (g x) tips) (key x)).
        { unfold updates_of. rewrite (I3 (key x) H1). reflexivity. }
        rewrite E, updates_of_add_tips by exact Hs. rewrite N.eqb_refl. reflexivity.
      * rewrite (I2 y Hy), updates_of_add_tips by exact Hs.
        destruct (N.eqb_spec (key y) (key x)) as [E|NE]; [|reflexivity].
        exfalso. apply H1. rewrite <- E. apply in_map. exact Hy.
    + intros r Hr. rewrite I3 by (intros H; apply Hr; right; exact H).
      unfold add_tips. rewrite lookup_upsert by exact Hs.
      destruct (N.eqb_spec r (key x)); [|reflexivity].
      exfalso. apply Hr. left. congruence.
    + intros r Hr. destruct (I4 r Hr) as [Hn Hni].
      apply lookup_add_tips_none in Hn; [|exact Hs]. destruct Hn as [Hne Hn].
      split; [exact Hn|]. intros [E|Hin]; [congruence | contradiction].
Qed.

Lemma fold_insert_lookup {X V} (key : X -> N) (g : X -> option V) (xs : list X) :
  NoDup (map key xs) -> forall m : smap V,
  let M := fold_left (fun m x => match g x with Some t => insert (key x) t m | None => m end) xs m in
  (forall x, In x xs -> lookup (key x) M = match g x with Some t => Some t | None => lookup (key x) m end) /\
  (forall r, ~ In r (map key xs) -> lookup r M = lookup r m).
Proof.
  induction xs as [|x xs IH]; intros Hnd m; cbn [fold_left map].
  - split; [intros x [] | auto].
  - inversion Hnd; subst.
    destruct (IH H2 (match g x with Some t => insert (key x) t m | None => m end)) as [I1 I2].
    cbn zeta in *. split.
    + intros y [E|Hy].
      * subst y. rewrite I2 by exact H1.
        destruct (g x); [rewrite lookup_insert_any, N.eqb_refl|]; reflexivity.
      * rewrite (I1 y Hy).
        destruct (g y); [reflexivity|].
        destruct (g x); [|reflexivity]. rewrite lookup_insert_any.
        destruct (N.eqb_spec (key y) (key x)) as [E|NE]; [|reflexivity].
        exfalso. apply H1. rewrite <- E. apply in_map. exact Hy.
    + intros r Hr. rewrite I2 by (intros H; apply Hr; right; exact H).
      destruct (g x); [|reflexivity]. rewrite lookup_insert_any.
      destruct (N.eqb_spec r (key x)); [|reflexivity]. exfalso. apply Hr. left. congruence.
Qed.

(* ------------------------------------------------------------------ *)
(* outcomes that leave storage alone *)

Lemma run_no_apply_unchanged anc U c L S res L' :
  run anc U c L S = (res, L') -> res <> RSuccess -> res <> RErr 4 -> L' = L.
Proof.
  unfold run. destruct (plan anc U c L S) as [e|[tips valid]].
  - intros E _ _. inversion E; reflexivity.
  - destruct (eff_threshold c <=? N.of_nat (length valid)).
    + destruct (apply_all anc L tips) as [L1 ok]. intros E H1 H2.
      inversion E; subst. destruct ok; congruence.
    + intros E _ _. inversion E; reflexivity.
Qed.

Lemma run_below_threshold anc U c L S tips valid :
  plan anc U c L S = inr (tips, valid) ->
  N.of_nat (length valid) < eff_threshold c ->
  run anc U c L S = (RFailed, L).
Proof.
  intros Hp Hlt. unfold run. rewrite Hp.
  destruct (N.leb_spec (eff_threshold c) (N.of_nat (length valid))); [lia | reflexivity].
Qed.

(* ------------------------------------------------------------------ *)
(* the stages *)

Lemma lookup_filter_key {V} (P : N -> bool) (m : smap V) k :
  lookup k (filter (fun x => P (fst x)) m) = if P k then lookup k m else None.
Proof.
  induction m as [|[k' v] m IH]; cbn [filter lookup fst].
  - destruct (P k); reflexivity.
  - destruct (P k') eqn:Ep; cbn [lookup].
    + destruct (N.eqb_spec k k'); [subst; rewrite Ep; reflexivity | exact IH].
    + rewrite IH. destruct (N.eqb_spec k k'); [subst; rewrite Ep; reflexivity | reflexivity].
Qed.

Lemma memN_filter_negb (P : N -> bool) l d :
  memN d (filter (fun x => negb (P x)) l) = true -> P d = false.
Proof.
  intros H. apply memN_In in H. apply filter_In in H. destruct H as [_ H].
  destruct (P d); [discriminate | reflexivity].
Qed.

Lemma fold_loop_inl {A B X} (f : A + B -> X -> A + B) (Hf : forall e x, f (inl e) x = inl e) xs e :
  fold_left f xs (inl e) = inl e.
Proof. induction xs as [|x xs IH]; cbn [fold_left]; [reflexivity|]. rewrite Hf. exact IH. Qed.

Section Stages.
Variable anc : oid -> oid -> bool.
Variable U : universe.

Notation load_at := (load_at U).
Notation load := (load U).
Notation load_all := (load_all U).
Notation ancestry_of := (ancestry_of anc).

Lemma load_at_Loaded t' t o : load_at t' = Loaded t o ->
  t = t' /\ lookup t U = Some o /\ so_valid o = true.
Proof.
  unfold Fetch.load_at. destruct (lookup t' U) as [o'|] eqn:El; [|discriminate].
  destruct (so_valid o') eqn:Ev; [|discriminate].
  intros E. inversion E; subst. auto.
Qed.

Lemma load_Loaded sigtips L r t o : load sigtips L r = Loaded t o ->
  lookup t U = Some o /\ so_valid o = true /\
  (lookup r sigtips = Some t \/ (lookup r sigtips = None /\ sigrefs_of L r = Some t)).
Proof.
  unfold Fetch.load. destruct (lookup r sigtips) as [t'|] eqn:Es.
  - intros H. apply load_at_Loaded in H. destruct H as [-> [H1 H2]]. auto.
  - destruct (sigrefs_of L r) as [t'|] eqn:El; [|discriminate].
    intros H. apply load_at_Loaded in H. destruct H as [-> [H1 H2]]. auto.
Qed.

Lemma load_all_spec sigtips L rs : forall acc signed,
  load_all sigtips L rs acc = Some signed -> sorted acc ->
  sorted signed /\
  forall r t o, lookup r signed = Some (t, o) ->
    lookup r acc = Some (t, o) \/ (In r rs /\ load sigtips L r = Loaded t o).
Proof.
  induction rs as [|r0 rs IH]; intros acc signed; cbn [Fetch.load_all].
  - intros E Hs. inversion E; subst. split; [exact Hs | auto].
  - destruct (load sigtips L r0) as [t0 o0| |] eqn:El; [| |discriminate].
    + intros E Hs. destruct (IH _ _ E (sorted_insert _ _ _ Hs)) as [Hs' H]. split; [exact Hs'|].
      intros r t o Hl. destruct (H r t o Hl) as [Ha|[Hin Hld]].
      * rewrite lookup_insert_any in Ha. destruct (N.eqb_spec r r0).
        -- subst. inversion Ha; subst. right. split; [left; reflexivity | exact El].
        -- left. exact Ha.
      * right. split; [right; exact Hin | exact Hld].
    + intros E Hs. destruct (IH _ _ E Hs) as [Hs' H]. split; [exact Hs'|].
      intros r t o Hl. destruct (H r t o Hl) as [Ha|[Hin Hld]]; [left; exact Ha|].
      right. split; [right; exact Hin | exact Hld].
Qed.

(* what the fetch is told about a namespace: the rad/sigrefs oid that is
   announced (refs_at) or advertised (in scope, not blocked), and the advertised rad/id *)
Definition announced (c : cfg) (S : store) (r : nid) : option oid :=
  match c_refs_at c with
  | Some ras => lookup r (clean_refs_at c ras)
  | None => if negb (is_blocked c r) && in_scope c r then lookup SIGREFS (ns_of S r) else None
  end.
Definition advertised_id (c : cfg) (S : store) (r : nid) : option oid :=
  match c_refs_at c with
  | Some _ => None
  | None => if negb (is_blocked c r) && in_scope c r then lookup RAD_ID (ns_of S r) else None
  end.

Definition signed_ok (c : cfg) (L S : store) (tips : smap (list update)) (signed : smap (oid * sigobj)) : Prop :=
  forall r t o, lookup r signed = Some (t, o) ->
    lookup t U = Some o /\ so_valid o = true /\ is_blocked c r = false /\
    updates_of tips r = special_updates c r (advertised_id c S r) (announced c S r) /\
    (announced c S r = Some t \/ (announced c S r = None /\ sigrefs_of L r = Some t)).

Definition staged_ok (c : cfg) (L S : store) (s : staged) : Prop :=
  sorted (st_tips s) /\ sorted (st_signed s) /\ signed_ok c L S (st_tips s) (st_signed s).

Lemma advertised_NoDup c S : sorted S -> NoDup (map fst (advertised c S)).
Proof.
  intros Hs. unfold advertised. apply NoDup_map_filter.
  rewrite map_map. cbn [fst]. apply sorted_NoDup_keys in Hs. exact Hs.
Qed.

Lemma advertised_In c S x : In x (advertised c S) ->
  is_blocked c (fst x) = false /\ in_scope c (fst x) = true /\
  exists ns, In (fst x, ns) S /\ fst (snd x) = lookup RAD_ID ns /\ snd (snd x) = lookup SIGREFS ns.
Proof.
  unfold advertised. intros H. apply filter_In in H. destruct H as [Hin Hf].
  apply andb_true_iff in Hf. destruct Hf as [Hf _]. apply andb_true_iff in Hf. destruct Hf as [Hb Hsc].
  apply in_map_iff in Hin. destruct Hin as [[r ns] [E Hin]]. subst x. cbn [fst snd] in *.
  split; [destruct (is_blocked c r); [discriminate | reflexivity]|].
  split; [exact Hsc|]. exists ns. auto.
Qed.

Lemma special_shape c r i t : sp_shape (pol c r) t (special_updates c r i (Some t)).
Proof.
  unfold special_updates. exists (match i with Some x => [Direct RAD_ID x (pol c r)] | None => [] end),
    [Direct SIGREFS t (pol c r)].
  split; [reflexivity|]. split; [destruct i as [x|]; [right; exists x; reflexivity | left; reflexivity]|].
  right. reflexivity.
Qed.

Lemma special_shape_none c r i t : sp_shape (pol c r) t (special_updates c r i None).
Proof.
  unfold special_updates. exists (match i with Some x => [Direct RAD_ID x (pol c r)] | None => [] end), [].
  split; [reflexivity|]. split; [destruct i as [x|]; [right; exists x; reflexivity | left; reflexivity]|].
  left. reflexivity.
Qed.

Lemma nil_shape p t : sp_shape p t [].
Proof. exists [], []. repeat split; auto. Qed.

Lemma stage_special_ok c L S s : sorted S -> c_refs_at c = None ->
  stage_special U c L S = inr s -> staged_ok c L S s.
Proof.
  intros HS Hmode. unfold stage_special. cbv zeta.
  set (adv := advertised c S).
  destruct (negb (eff_threshold c =? 0) && _ && _); [discriminate|].
  match goal with |- context [Fetch.load_all _ ?st _ _ _] => set (sigtips := st) end.
  match goal with |- context [mkStaged ?tp _] => set (tips := tp) end.
  destruct (load_all sigtips L (map fst adv ++ eff_delegates c) []) as [signed|] eqn:Ela; [|discriminate].
  intros E. inversion E; subst s. clear E.
  pose proof (advertised_NoDup c S HS) as Hnd. fold adv in Hnd.
  assert (TT : sorted tips /\
    (forall x, In x adv -> updates_of tips (fst x) = updates_of [] (fst x) ++ special_updates c (fst x) (fst (snd x)) (snd (snd x))) /\
    (forall r, ~ In r (map fst adv) -> lookup r tips = lookup r ([] : smap (list update)))).
  { destruct (fold_add_tips fst (fun x => special_updates c (fst x) (fst (snd x)) (snd (snd x))) adv Hnd [] sorted_nil)
      as [T1 [T2 [T3 _]]]. exact (conj T1 (conj T2 T3)). }
  destruct TT as [T1 [T2 T3]].
  assert (GG : (forall x, In x adv -> lookup (fst x) sigtips =
                 match snd (snd x) with Some t => Some t | None => None end) /\
               (forall r, ~ In r (map fst adv) -> lookup r sigtips = None)).
  { destruct (fold_insert_lookup fst (fun x : nid * (option oid * option oid) => snd (snd x)) adv Hnd ([] : smap oid))
      as [G1 G2]. exact (conj G1 G2). }
  destruct GG as [G1 G2].
  destruct (load_all_spec _ _ _ _ _ Ela sorted_nil) as [Hss Hsig].
  unfold staged_ok. cbn [st_tips st_signed]. split; [exact T1|]. split; [exact Hss|].
  intros r t o Hl. destruct (Hsig r t o Hl) as [Hc|[Hin Hld]]; [discriminate|].
  destruct (load_Loaded _ _ _ _ _ Hld) as [HU [Hv Hsrc]].
  split; [exact HU|]. split; [exact Hv|].
  unfold announced, advertised_id. rewrite Hmode.
  destruct (in_dec N.eq_dec r (map fst adv)) as [Hadv|Hnadv].
  - apply in_map_iff in Hadv. destruct Hadv as [x [Ex Hx]]. subst r.
    destruct (advertised_In c S x Hx) as [Hb [Hsc [ns [Hns [Ei Es]]]]]. split; [exact Hb|].
    assert (Ens : ns_of S (fst x) = ns).
    { unfold ns_of. rewrite (In_lookup _ _ _ HS Hns). reflexivity. }
    rewrite Hb, Hsc, Ens. cbn [negb andb]. rewrite <- Ei, <- Es.
    split; [rewrite (T2 x Hx); reflexivity|].
    specialize (G1 x Hx). destruct (snd (snd x)) as [t'|].
    + destruct Hsrc as [Hs|[Hs _]]; rewrite G1 in Hs; [|discriminate].
      inversion Hs; subst. left. reflexivity.
    + destruct Hsrc as [Hs|[_ Hs]]; [rewrite G1 in Hs; discriminate|]. right. auto.
  - assert (Hdel : In r (eff_delegates c)).
    { apply in_app_or in Hin. destruct Hin as [Hin|Hin]; [contradiction | exact Hin]. }
    assert (Hb : is_blocked c r = false).
    { unfold eff_delegates in Hdel. apply filter_In in Hdel. destruct Hdel as [_ Hd].
      destruct (is_blocked c r); [discriminate | reflexivity]. }
    assert (Hsc : in_scope c r = true).
    { unfold in_scope. destruct (c_followed c); [|reflexivity].
      apply orb_true_iff. right. apply memN_In. exact Hdel. }
    split; [exact Hb|]. rewrite Hb, Hsc. cbn [negb andb].
    assert (Hnone : lookup RAD_ID (ns_of S r) = None /\ lookup SIGREFS (ns_of S r) = None).
    { unfold ns_of. destruct (lookup r S) as [ns|] eqn:ES; [|split; reflexivity].
      destruct (lookup RAD_ID ns) as [i|] eqn:Ei; destruct (lookup SIGREFS ns) as [sg|] eqn:Es;
        try (split; reflexivity); exfalso; apply Hnadv; apply in_map_iff;
        exists (r, (lookup RAD_ID ns, lookup SIGREFS ns)); (split; [reflexivity|]);
        unfold adv, advertised; apply filter_In;
        (split; [apply in_map_iff; exists (r, ns); split; [reflexivity | apply lookup_In; exact ES]|]);
        cbn [fst snd]; rewrite Hb, Hsc, Ei, Es; reflexivity. }
    destruct Hnone as [Hi Hsg]. rewrite Hi, Hsg.
    split; [unfold updates_of; rewrite (T3 r Hnadv); reflexivity|].
    right. split; [reflexivity|].
    destruct Hsrc as [Hs|[_ Hs]]; [rewrite (G2 r Hnadv) in Hs; discriminate | exact Hs].
Qed.

Lemma clean_refs_at_spec c (ras0 : list (nid * oid)) : forall acc : smap oid, sorted acc ->
  (forall r a, lookup r acc = Some a -> is_blocked c r = false) ->
  let m := fold_left (fun m x => if is_blocked c (fst x) then m else insert (fst x) (snd x) m) ras0 acc in
  sorted m /\ forall r a, lookup r m = Some a -> is_blocked c r = false.
Proof.
  induction ras0 as [|x ras IH]; intros acc Hs Hb; cbn [fold_left]; [split; assumption|].
  apply IH.
  - destruct (is_blocked c (fst x)); [exact Hs | apply sorted_insert; exact Hs].
  - destruct (is_blocked c (fst x)) eqn:Eb; [exact Hb|].
    intros r a. rewrite lookup_insert_any. destruct (N.eqb_spec r (fst x)); [subst; auto | apply Hb].
Qed.

Lemma stage_sigrefs_at_ok c L S ras0 s : c_refs_at c = Some ras0 ->
  stage_sigrefs_at U c L ras0 = inr s -> staged_ok c L S s.
Proof.
  intros Hmode. unfold stage_sigrefs_at. cbv zeta. set (ras := clean_refs_at c ras0).
  match goal with |- context [forallb ?f ras] => destruct (forallb f ras) end; cbn [negb]; [|discriminate].
  match goal with |- context [mkStaged ?tp _] => set (tips := tp) end.
  destruct (load_all ras L (map fst ras) []) as [signed|] eqn:Ela; [|discriminate].
  intros E. inversion E; subst s. clear E.
  assert (Hras : sorted ras /\ forall r a, lookup r ras = Some a -> is_blocked c r = false).
  { unfold ras, clean_refs_at. apply clean_refs_at_spec; [apply sorted_nil | intros r a H; discriminate]. }
  destruct Hras as [Hrs Hrb].
  pose proof (sorted_NoDup_keys _ Hrs) as Hnd. unfold keys in Hnd.
  assert (TT : sorted tips /\
    (forall x, In x ras -> updates_of tips (fst x) = updates_of [] (fst x) ++ [Direct SIGREFS (snd x) (pol c (fst x))])).
  { destruct (fold_add_tips fst (fun x : nid * oid => [Direct SIGREFS (snd x) (pol c (fst x))]) ras Hnd [] sorted_nil)
      as [T1 [T2 [T3 _]]]. exact (conj T1 T2). }
  destruct TT as [T1 T2].
  destruct (load_all_spec _ _ _ _ _ Ela sorted_nil) as [Hss Hsig].
  unfold staged_ok. cbn [st_tips st_signed]. split; [exact T1|]. split; [exact Hss|].
  intros r t o Hl. destruct (Hsig r t o Hl) as [Hc|[Hin Hld]]; [discriminate|].
  destruct (load_Loaded _ _ _ _ _ Hld) as [HU [Hv Hsrc]].
  split; [exact HU|]. split; [exact Hv|].
  destruct (In_keys_lookup r ras Hin) as [a Ha].
  split; [eapply Hrb; exact Ha|].
  destruct Hsrc as [Hs|[Hs _]]; rewrite Ha in Hs; [|discriminate]. inversion Hs; subst a.
  unfold announced, advertised_id. rewrite Hmode. fold ras. rewrite Ha.
  pose proof (lookup_In _ _ _ Ha) as Hx. pose proof (T2 (r, t) Hx) as T2x. cbn [fst snd] in T2x.
  split; [rewrite T2x; reflexivity | left; reflexivity].
Qed.

(* after DataRefs and the removal of unsigned namespaces *)
Definition tips_ok (c : cfg) (L S : store) (signed : smap (oid * sigobj)) (tips : smap (list update)) : Prop :=
  forall r us, lookup r tips = Some us ->
    exists t o, lookup r signed = Some (t, o) /\
      lookup t U = Some o /\ so_valid o = true /\ is_blocked c r = false /\
      (announced c S r = Some t \/ (announced c S r = None /\ sigrefs_of L r = Some t)) /\
      us = special_updates c r (advertised_id c S r) (announced c S r)
           ++ data_part (ns_of L r) (so_content o).

Lemma stage_data_ok c L S s : staged_ok c L S s ->
  let s' := drop_unsigned (stage_data L s) in
  st_signed s' = st_signed s /\ sorted (st_tips s') /\ tips_ok c L S (st_signed s) (st_tips s').
Proof.
  intros [Ht [Hs Hok]]. cbn zeta. unfold drop_unsigned, stage_data. cbn [st_tips st_signed].
  split; [reflexivity|].
  pose proof (sorted_NoDup_keys _ Hs) as Hnd. unfold keys in Hnd.
  destruct (fold_add_tips fst (fun x : nid * (oid * sigobj) => data_updates L (fst x) (snd (snd x)))
              (st_signed s) Hnd (st_tips s) Ht) as [T1 [T2 [T3 _]]]. cbn zeta in *.
  split; [apply sorted_filter; exact T1|].
  intros r us Hl.
  rewrite (lookup_filter_key (fun k => mem k (st_signed s))) in Hl.
  destruct (mem r (st_signed s)) eqn:Em; [|discriminate].
  apply mem_lookup in Em. destruct Em as [[t o] Hsg].
  destruct (Hok r t o Hsg) as [HU [Hv [Hb [Hex Hsrc]]]].
  exists t, o. repeat split; try assumption.
  pose proof (lookup_In _ _ _ Hsg) as Hx. specialize (T2 _ Hx). cbn [fst snd] in T2.
  unfold updates_of in T2 at 1. rewrite Hl in T2. rewrite T2, Hex. reflexivity.
Qed.

(* ------------------------------------------------------------------ *)
(* the validation loop *)

Definition verdict_ok (L : store) (r : nid) (t : oid) (o : sigobj) (us : list update) : Prop :=
  validate us (so_content o) = true /\
  forall a, sigrefs_of L r = Some a ->
    (a = t \/ anc a t = true) /\ exists oa, lookup a U = Some oa /\ so_valid oa = true.

Lemma loop_step_inr c L tips valid x tips1 valid1 :
  loop_step anc U c L (inr (tips, valid)) x = inr (tips1, valid1) ->
  (tips1 = tips \/ tips1 = del (fst x) tips) /\
  (is_blocked c (fst x) = false -> tips1 = tips ->
     lookup (fst x) tips <> None -> verdict_ok L (fst x) (fst (snd x)) (snd (snd x)) (updates_of tips (fst x))) /\
  (valid1 = valid \/ valid1 = del (fst x) valid \/
   (valid1 = sset_add (fst x) valid /\ is_delegate c (fst x) = true /\ is_blocked c (fst x) = false /\
    tips1 = tips /\ validate (updates_of tips (fst x)) (so_content (snd (snd x))) = true)).
Proof.
  destruct x as [r [t o]]. cbn [Fetch.loop_step fst snd].
  destruct (is_blocked c r) eqn:Eb.
  { intros E. inversion E; subst. split; [left; reflexivity|].
    split; [intros H; discriminate | left; reflexivity]. }
  assert (Hcheck : forall res : result + (smap (list update) * sset),
    (if validate (updates_of tips r) (so_content o)
     then inr (tips, if is_delegate c r then sset_add r valid else valid)
     else inr (del r tips, if is_delegate c r then del r valid else valid)) = res ->
    res = inr (tips1, valid1) ->
    (tips1 = tips \/ tips1 = del r tips) /\
    (tips1 = tips -> lookup r tips <> None -> validate (updates_of tips r) (so_content o) = true) /\
    (valid1 = valid \/ valid1 = del r valid \/
     (valid1 = sset_add r valid /\ is_delegate c r = true /\ false = false /\
      tips1 = tips /\ validate (updates_of tips r) (so_content o) = true))).
  { intros res <-. destruct (validate (updates_of tips r) (so_content o)) eqn:Ev; intros E; inversion E; subst.
    - split; [left; reflexivity|]. split; [auto|].
      destruct (is_delegate c r); [right; right; auto | left; reflexivity].
    - split; [right; reflexivity|]. split.
      + intros Hd Hn. exfalso. apply Hn. rewrite <- Hd at 1. rewrite lookup_del, N.eqb_refl. reflexivity.
      + destruct (is_delegate c r); [right; left; reflexivity | left; reflexivity]. }
  destruct (sigrefs_of L r) as [a|] eqn:Ea.
  - destruct (load_at a) as [ta oa| |] eqn:Ela; try discriminate.
    apply load_at_Loaded in Ela. destruct Ela as [-> [HUa Hva]].
    unfold Fetch.ancestry_of.
    destruct (N.eqb_spec a t) as [Eat|Nat].
    + intros E. destruct (Hcheck _ eq_refl E) as [H1 [H2 H3]]. split; [exact H1|]. split; [|exact H3].
      intros _ Hk Hn. split; [auto|]. intros a' Ha'. rewrite Ea in Ha'. injection Ha' as <-.
      split; [left; exact Eat | exists oa; auto].
    + destruct (anc a t) eqn:Eanc.
      * intros E. destruct (Hcheck _ eq_refl E) as [H1 [H2 H3]]. split; [exact H1|]. split; [|exact H3].
        intros _ Hk Hn. split; [auto|]. intros a' Ha'. rewrite Ea in Ha'. injection Ha' as <-.
        split; [right; exact Eanc | exists oa; auto].
      * destruct (anc t a).
        -- intros E. inversion E; subst. split; [right; reflexivity|]. split; [|left; reflexivity].
           intros _ Hd Hn. exfalso. apply Hn. rewrite <- Hd at 1. rewrite lookup_del, N.eqb_refl. reflexivity.
        -- destruct (is_delegate c r); [discriminate|].
           intros E. inversion E; subst. split; [right; reflexivity|]. split; [|left; reflexivity].
           intros _ Hd Hn. exfalso. apply Hn. rewrite <- Hd at 1. rewrite lookup_del, N.eqb_refl. reflexivity.
  - intros E. destruct (Hcheck _ eq_refl E) as [H1 [H2 H3]]. split; [exact H1|]. split; [|exact H3].
    intros _ Hk Hn. split; [auto|]. intros a' Ha'. rewrite Ea in Ha'. discriminate.
Qed.

Lemma loop_step_inl c L e x : loop_step anc U c L (inl e) x = inl e.
Proof. reflexivity. Qed.

Lemma loop_fold c L xs : NoDup (map fst xs) -> forall tips valid tipsF validF,
  fold_left (loop_step anc U c L) xs (inr (tips, valid)) = inr (tipsF, validF) ->
  sorted valid ->
  (forall r us, lookup r tipsF = Some us -> lookup r tips = Some us) /\
  (forall x us, In x xs -> is_blocked c (fst x) = false -> lookup (fst x) tipsF = Some us ->
     verdict_ok L (fst x) (fst (snd x)) (snd (snd x)) us) /\
  sorted validF /\
  (forall d, In d (keys validF) ->
     In d (keys valid) \/
     (is_delegate c d = true /\ is_blocked c d = false /\ exists x us, In x xs /\ fst x = d /\ lookup d tipsF = Some us)).
Proof.
  induction xs as [|x xs IH]; intros Hnd tips valid tipsF validF; cbn [fold_left].
  - intros E Hsv. inversion E; subst. split; [auto|]. split; [intros y us0 []|].
    split; [exact Hsv|]. intros d Hd. left. exact Hd.
  - inversion Hnd; subst. intros E Hsv.
    destruct (loop_step anc U c L (inr (tips, valid)) x) as [e|[tips1 valid1]] eqn:Est.
    { rewrite (fold_loop_inl _ (loop_step_inl c L)) in E. discriminate. }
    destruct (loop_step_inr _ _ _ _ _ _ _ Est) as [Ht [Hv Hval]].
    assert (Hsv1 : sorted valid1).
    { destruct Hval as [Hv1|[Hv1|[Hv1 _]]]; subst valid1; [exact Hsv | apply sorted_del; exact Hsv | apply sorted_insert; exact Hsv]. }
    destruct (IH H2 _ _ _ _ E Hsv1) as [I1 [I2 [I3 I4]]].
    assert (Hsub : forall r us, lookup r tips1 = Some us -> lookup r tips = Some us).
    { intros r us. destruct Ht as [-> | ->]; [auto|]. rewrite lookup_del.
      destruct (r =? fst x); [discriminate | auto]. }
    split; [intros r us Hl; apply Hsub; apply I1; exact Hl|].
    split; [|split; [exact I3|]].
    + intros y us [Ey|Hy] Hb Hl.
      * subst y. pose proof (I1 _ _ Hl) as Hl1.
        assert (Ek : tips1 = tips).
        { destruct Ht as [-> | ->]; [reflexivity|]. rewrite lookup_del, N.eqb_refl in Hl1. discriminate. }
        subst tips1. assert (Hn : lookup (fst x) tips <> None) by congruence.
        pose proof (Hv Hb eq_refl Hn) as Hver. unfold updates_of in Hver. rewrite Hl1 in Hver. exact Hver.
      * apply (I2 y us Hy Hb Hl).
    + intros d Hd. destruct (I4 d Hd) as [Hin|[Hdel [Hb [y [us [Hy [Ey Hl]]]]]]].
      * destruct Hval as [Hv1|[Hv1|[Hv1 [Hdl [Hb [Ek Hvd]]]]]]; subst valid1.
        -- left. exact Hin.
        -- left. unfold keys, del in Hin. apply in_map_iff in Hin. destruct Hin as [z [Ez Hz]].
           apply filter_In in Hz. apply in_map_iff. exists z. split; [exact Ez | apply Hz].
        -- destruct (N.eq_dec d (fst x)) as [Ed|Nd].
           ++ right. subst d. split; [exact Hdl|]. split; [exact Hb|].
              subst tips1.
              assert (Hne : lookup (fst x) tips <> None).
              { unfold updates_of in Hvd. destruct (lookup (fst x) tips); [discriminate|].
                unfold validate, mem_of in Hvd. cbn in Hvd. discriminate. }
              destruct (lookup (fst x) tips) as [us|] eqn:El; [|congruence].
              exists x, us. split; [left; reflexivity|]. split; [reflexivity|].
              (* later steps do not touch this key *)
              remember (sset_add (fst x) valid) as v1 eqn:Ev1. clear Ev1.
              clear -E H1 El. revert tips v1 E El.
              induction xs as [|y ys IHy]; intros tips v1 E El; cbn [fold_left] in E.
              { inversion E; subst. exact El. }
              destruct (loop_step anc U c L (inr (tips, v1)) y) as [e|[tips2 valid2]] eqn:Est.
              { rewrite (fold_loop_inl _ (loop_step_inl c L)) in E. discriminate. }
              destruct (loop_step_inr _ _ _ _ _ _ _ Est) as [Ht _].
              apply (IHy (fun H => H1 (or_intror H)) tips2 valid2 E).
              destruct Ht as [-> | ->]; [exact El|]. rewrite lookup_del.
              destruct (N.eqb_spec (fst x) (fst y)) as [Exy|_]; [|exact El].
              exfalso. apply H1. left. congruence.
           ++ left. apply lookup_in_keys in Hin. apply lookup_in_keys.
              unfold sset_add in Hin. rewrite lookup_insert_any in Hin.
              destruct (N.eqb_spec d (fst x)); [contradiction | exact Hin].
      * right. split; [exact Hdel|]. split; [exact Hb|]. exists y, us. split; [right; exact Hy | auto].
Qed.

End Stages.

(* ------------------------------------------------------------------ *)
(* assembling the run *)

Section Run.
Variable anc : oid -> oid -> bool.
Variable U : universe.

Lemma loop_fold_sorted c L xs : forall tips valid tipsF validF,
  fold_left (loop_step anc U c L) xs (inr (tips, valid)) = inr (tipsF, validF) ->
  sorted tips -> sorted tipsF.
Proof.
  induction xs as [|x xs IH]; intros tips valid tipsF validF; cbn [fold_left].
  - intros E Hs. inversion E; subst. exact Hs.
  - intros E Hs.
    destruct (loop_step anc U c L (inr (tips, valid)) x) as [e|[tips1 valid1]] eqn:Est.
    { rewrite (fold_loop_inl _ (loop_step_inl anc U c L)) in E. discriminate. }
    destruct (loop_step_inr _ _ _ _ _ _ _ _ _ Est) as [Ht _].
    apply (IH _ _ _ _ E). destruct Ht as [-> | ->]; [exact Hs | apply sorted_del; exact Hs].
Qed.

Lemma sset_of_list_spec l : forall acc : sset, sorted acc ->
  let s := fold_left (fun s k => sset_add k s) l acc in
  sorted s /\ forall d, In d (keys s) -> In d l \/ In d (keys acc).
Proof.
  induction l as [|k l IH]; intros acc Hs; cbn [fold_left].
  - split; [exact Hs | auto].
  - destruct (IH (sset_add k acc) (sorted_insert _ _ _ Hs)) as [I1 I2]. cbn zeta in *.
    split; [exact I1|]. intros d Hd. destruct (I2 d Hd) as [H|H]; [left; right; exact H|].
    apply lookup_in_keys in H. unfold sset_add in H. rewrite lookup_insert_any in H.
    destruct (N.eqb_spec d k); [left; left; congruence | right; apply lookup_in_keys; exact H].
Qed.

Lemma valid0_spec c L :
  sorted (valid0 c L) /\
  forall d, In d (keys (valid0 c L)) -> is_delegate c d = true /\ sigrefs_of L d <> None.
Proof.
  unfold valid0, sset_of_list.
  destruct (sset_of_list_spec (filter (fun r => is_delegate c r && isSome (sigrefs_of L r)) (keys L)) [] sorted_nil)
    as [H1 H2]. cbn zeta in *. split; [exact H1|].
  intros d Hd. destruct (H2 d Hd) as [H|[]].
  apply filter_In in H. destruct H as [_ H]. apply andb_true_iff in H. destruct H as [Ha Hb].
  split; [exact Ha|]. destruct (sigrefs_of L d); [discriminate | discriminate].
Qed.

(* what the plan guarantees about the updates that are going to be applied *)
Definition planned (c : cfg) (L S : store) (r : nid) (us : list update) : Prop :=
  exists t o,
    lookup t U = Some o /\ so_valid o = true /\ is_blocked c r = false /\
    (announced c S r = Some t \/ (announced c S r = None /\ sigrefs_of L r = Some t)) /\
    us = special_updates c r (advertised_id c S r) (announced c S r)
         ++ data_part (ns_of L r) (so_content o) /\
    verdict_ok anc U L r t o us.

Lemma plan_spec c L S tipsF validF : sorted S ->
  plan anc U c L S = inr (tipsF, validF) ->
  sorted tipsF /\
  (forall r us, lookup r tipsF = Some us -> planned c L S r us) /\
  sorted validF /\
  (forall d, In d (keys validF) ->
     is_delegate c d = true /\ (sigrefs_of L d <> None \/ exists us, lookup d tipsF = Some us)).
Proof.
  intros HS. unfold plan.
  destruct (negb (c_srv_canon c)); [discriminate|].
  assert (Hst : forall s, match c_refs_at c with
                          | Some ras => stage_sigrefs_at U c L ras
                          | None => stage_special U c L S end = inr s -> staged_ok U c L S s).
  { intros s. destruct (c_refs_at c) as [ras|] eqn:Em;
      [apply stage_sigrefs_at_ok; exact Em | apply stage_special_ok; [exact HS | exact Em]]. }
  destruct (match c_refs_at c with Some ras => _ | None => _ end) as [e|s]; [discriminate|].
  specialize (Hst s eq_refl).
  destruct (stage_data_ok U c L S s Hst) as [Esig [Hts Htok]]. cbn zeta in *.
  set (s' := drop_unsigned (stage_data L s)) in *.
  rewrite Esig. intros E.
  destruct Hst as [_ [Hss _]].
  pose proof (sorted_NoDup_keys _ Hss) as Hnd. unfold keys in Hnd.
  destruct (valid0_spec c L) as [Hv0s Hv0].
  destruct (loop_fold anc U c L (st_signed s) Hnd _ _ _ _ E Hv0s) as [I1 [I2 [I3 I4]]].
  split; [eapply loop_fold_sorted; eauto|].
  split; [|split; [exact I3|]].
  - intros r us Hl. pose proof (I1 _ _ Hl) as Hl0.
    destruct (Htok r us Hl0) as [t [o [Hsg [HU [Hv [Hb [Hsrc Eus]]]]]]].
    exists t, o. split; [exact HU|]. split; [exact Hv|]. split; [exact Hb|].
    split; [exact Hsrc|]. split; [exact Eus|].
    apply (I2 (r, (t, o)) us (lookup_In _ _ _ Hsg) Hb Hl).
  - intros d Hd. destruct (I4 d Hd) as [H0|[Hdl [Hb [x [us [Hx [Ex Hl]]]]]]].
    + destruct (Hv0 d H0) as [Ha Hb]. split; [exact Ha | left; exact Hb].
    + split; [exact Hdl|]. right. exists us. exact Hl.
Qed.

Lemma apply_all_spec tips : sorted tips -> forall L L' ok,
  apply_all anc L tips = (L', ok) ->
  forall r,
    (ns_of L' r = ns_of L r /\ (ok = true -> lookup r tips = None)) \/
    (exists us ns' okr, lookup r tips = Some us /\ apply_ns anc (ns_of L r) us = (ns', okr) /\
       ns_of L' r = ns' /\ (ok = true -> okr = true)).
Proof.
  induction tips as [|[r0 us0] rest IH]; intros Hs L L' ok; cbn [Fetch.apply_all].
  - intros E r. inversion E; subst. left. split; reflexivity.
  - apply sorted_cons_inv in Hs. destruct Hs as [Hs Hall].
    destruct (apply_ns anc (ns_of L r0) us0) as [ns0 ok0] eqn:E0.
    destruct ok0.
    + intros E r. specialize (IH Hs _ _ _ E r). cbn [lookup].
      destruct (N.eqb_spec r r0) as [->|Hne].
      * assert (Hn : lookup r0 rest = None) by (apply lookup_none_lt; exact Hall).
        right. exists us0, ns0, true. split; [reflexivity|]. split; [exact E0|].
        destruct IH as [[Hsame _]|[us [ns' [okr [Hl _]]]]]; [|congruence].
        rewrite Hsame, ns_of_put_ns, N.eqb_refl. auto.
      * rewrite ns_of_put_ns in IH. destruct (N.eqb_spec r r0); [contradiction|]. exact IH.
    + intros E r. inversion E; subst. cbn [lookup].
      destruct (N.eqb_spec r r0) as [->|Hne].
      * right. exists us0, ns0, false. split; [reflexivity|]. split; [exact E0|].
        rewrite ns_of_put_ns, N.eqb_refl. split; [reflexivity | discriminate].
      * left. rewrite ns_of_put_ns. destruct (N.eqb_spec r r0); [contradiction|].
        split; [reflexivity | discriminate].
Qed.

Lemma planned_shape c L S r t :
  (announced c S r = Some t \/ (announced c S r = None /\ sigrefs_of L r = Some t)) ->
  sp_shape (pol c r) t (special_updates c r (advertised_id c S r) (announced c S r)).
Proof.
  intros [H|[H _]]; rewrite H; [apply special_shape | apply special_shape_none].
Qed.

(* the checks a namespace has passed when the fetch changes it *)
Definition accepted (c : cfg) (L S : store) (r : nid) (t : oid) (o : sigobj) : Prop :=
  is_blocked c r = false /\
  announced c S r = Some t /\
  lookup t U = Some o /\ so_sig_ok o = true /\ so_root_ok o = true /\
  (forall x, advertised_id c S r = Some x -> lookup RAD_ID (so_content o) <> None) /\
  lookup SIGREFS (so_content o) = None /\
  (forall n v, lookup n (so_content o) = Some v -> is_qualified n = true) /\
  (forall a, sigrefs_of L r = Some a -> a = t \/ anc a t = true).

Lemma planned_applied c L S r us ns' okr :
  planned c L S r us ->
  apply_ns anc (ns_of L r) us = (ns', okr) ->
  (okr = false -> ns' = ns_of L r) /\
  (okr = true -> exists t o, accepted c L S r t o /\ ns_matches (ns_of L r) ns' t (so_content o)).
Proof.
  intros [t [o [HU [Hv [Hb [Hsrc [Eus [Hval Hanc]]]]]]]] Eap. subst us.
  assert (Hanc' : forall a, lookup SIGREFS (ns_of L r) = Some a -> a = t \/ anc a t = true).
  { intros a Ha. apply (Hanc a Ha). }
  destruct (ns_match anc (ns_of L r) (so_content o) (pol c r) t _ (planned_shape c L S r t Hsrc) Hval Hanc')
    as [ns2 [ok2 [Eap2 [Hko Hok]]]].
  rewrite Eap in Eap2. inversion Eap2; subst ns2 ok2.
  split; [exact Hko|]. intros Eok. exists t, o. split; [|apply Hok; exact Eok].
  destruct (validate_special_facts _ _ _ _ _ _ Hval) as [[t' Ean] [Hid [Hcs Hq]]].
  unfold so_valid in Hv. apply andb_true_iff in Hv. destruct Hv as [Hv1 Hv2].
  assert (Et : announced c S r = Some t).
  { destruct Hsrc as [H|[H _]]; [exact H | congruence]. }
  unfold accepted. repeat split; try assumption.
Qed.

(* the effect of a whole run on one namespace *)
Lemma run_namespace c L S res L' r : sorted S ->
  run anc U c L S = (res, L') ->
  ns_of L' r = ns_of L r \/
  exists t o, accepted c L S r t o /\ ns_matches (ns_of L r) (ns_of L' r) t (so_content o).
Proof.
  intros HS. unfold run.
  destruct (plan anc U c L S) as [e|[tips valid]] eqn:Ep.
  { intros E. inversion E; subst. left. reflexivity. }
  destruct (eff_threshold c <=? N.of_nat (length valid)).
  2:{ intros E. inversion E; subst. left. reflexivity. }
  destruct (apply_all anc L tips) as [L1 ok] eqn:Ea. intros E. inversion E; subst L1. clear E.
  destruct (plan_spec c L S tips valid HS Ep) as [Hts [Hpl _]].
  destruct (apply_all_spec tips Hts _ _ _ Ea r) as [[Hsame _]|[us [ns' [okr [Hl [Eap [Ens _]]]]]]].
  { left. exact Hsame. }
  destruct (planned_applied c L S r us ns' okr (Hpl r us Hl) Eap) as [Hko Hok].
  destruct okr.
  - right. rewrite Ens. apply Hok. reflexivity.
  - left. rewrite Ens. apply Hko. reflexivity.
Qed.

End Run.

(* ------------------------------------------------------------------ *)
(* the statements *)

Section Statements.
Variable anc : oid -> oid -> bool.
Variable U : universe.

Lemma touched_namespaces_match c L S res L' r : sorted S ->
  run anc U c L S = (res, L') ->
  ns_of L' r <> ns_of L r ->
  exists t o,
    sigrefs_of L' r = Some t /\ lookup t U = Some o /\
    so_sig_ok o = true /\ so_root_ok o = true /\
    (forall n v, lookup n (so_content o) = Some v -> lookup n (ns_of L' r) = Some v) /\
    (forall n v, n <> SIGREFS -> lookup n (ns_of L' r) = Some v ->
       lookup n (so_content o) = Some v \/
       (is_rad n = true /\ lookup n (so_content o) = None /\ lookup n (ns_of L r) = Some v)).
Proof.
  intros HS Hrun Hch.
  destruct (run_namespace anc U c L S res L' r HS Hrun) as [Hsame|[t [o [Hacc [M1 [M2 M3]]]]]].
  { contradiction. }
  destruct Hacc as [_ [_ [HU [Hv1 [Hv2 _]]]]].
  exists t, o. repeat split; assumption.
Qed.

Lemma changed_namespace_accepted c L S res L' r : sorted S ->
  run anc U c L S = (res, L') ->
  ns_of L' r <> ns_of L r ->
  exists t o, accepted anc U c L S r t o /\ sigrefs_of L' r = Some t.
Proof.
  intros HS Hrun Hch.
  destruct (run_namespace anc U c L S res L' r HS Hrun) as [Hsame|[t [o [Hacc [M1 _]]]]].
  { contradiction. }
  exists t, o. split; assumption.
Qed.

(* when no stale refs/rad/* reference is in the way the match is exact *)
Lemma touched_namespaces_exact c L S res L' r : sorted S ->
  run anc U c L S = (res, L') ->
  ns_of L' r <> ns_of L r ->
  (forall n, is_rad n = true -> n <> SIGREFS -> lookup n (ns_of L r) = None) ->
  exists t o,
    sigrefs_of L' r = Some t /\ lookup t U = Some o /\
    so_sig_ok o = true /\ so_root_ok o = true /\
    forall n, n <> SIGREFS -> lookup n (ns_of L' r) = lookup n (so_content o).
Proof.
  intros HS Hrun Hch Hnostale.
  destruct (touched_namespaces_match c L S res L' r HS Hrun Hch) as [t [o [H1 [H2 [H3 [H4 [H5 H6]]]]]]].
  exists t, o. repeat split; try assumption.
  intros n Hn. destruct (lookup n (ns_of L' r)) as [v|] eqn:El.
  - destruct (H6 n v Hn El) as [Hc|[Hr [_ Hl]]]; [congruence|].
    rewrite (Hnostale n Hr Hn) in Hl. discriminate.
  - destruct (lookup n (so_content o)) as [v|] eqn:Ec; [|reflexivity].
    rewrite (H5 n v Ec) in El. discriminate.
Qed.

Lemma blocked_namespace_untouched c L S res L' r : sorted S ->
  run anc U c L S = (res, L') -> is_blocked c r = true -> ns_of L' r = ns_of L r.
Proof.
  intros HS Hrun Hb.
  destruct (run_namespace anc U c L S res L' r HS Hrun) as [Hsame|[t [o [[Hb' _] _]]]]; [exact Hsame | congruence].
Qed.

Lemma sigrefs_monotone c L S res L' r a : sorted S ->
  run anc U c L S = (res, L') ->
  sigrefs_of L r = Some a ->
  exists b, sigrefs_of L' r = Some b /\ (a = b \/ anc a b = true).
Proof.
  intros HS Hrun Ha.
  destruct (run_namespace anc U c L S res L' r HS Hrun) as [Hsame|[t [o [Hacc [M1 _]]]]].
  - exists a. unfold sigrefs_of. rewrite Hsame. split; [exact Ha | left; reflexivity].
  - exists t. split; [exact M1|]. destruct Hacc as [_ [_ [_ [_ [_ [_ [_ [_ Hanc]]]]]]]]. apply Hanc; exact Ha.
Qed.

Lemma loop_step_err c L st x e :
  loop_step anc U c L (inr st) x = inl e -> exists k, e = RErr k.
Proof.
  destruct st as [tips valid]. destruct x as [r [t o]]. cbn [Fetch.loop_step fst snd].
  destruct (is_blocked c r); [discriminate|].
  destruct (sigrefs_of L r) as [a|].
  - destruct (load_at U a); try (intros E; inversion E; eexists; reflexivity).
    destruct (ancestry_of anc a t); try (destruct (validate _ _); discriminate); try discriminate.
    destruct (is_delegate c r); [intros E; inversion E; eexists; reflexivity | discriminate].
  - destruct (validate _ _); discriminate.
Qed.

Lemma loop_fold_err c L xs : forall acc e,
  (forall e0, acc = inl e0 -> exists k, e0 = RErr k) ->
  fold_left (loop_step anc U c L) xs acc = inl e -> exists k, e = RErr k.
Proof.
  induction xs as [|x xs IH]; intros acc e Hacc; cbn [fold_left].
  - intros E. apply Hacc. exact E.
  - apply IH. intros e0 E0. destruct acc as [e1|st].
    + cbn in E0. inversion E0; subst. apply Hacc. reflexivity.
    + eapply loop_step_err. exact E0.
Qed.

Lemma plan_err c L S e : plan anc U c L S = inl e -> exists k, e = RErr k.
Proof.
  unfold plan. destruct (negb (c_srv_canon c)); [intros E; inversion E; eexists; reflexivity|].
  destruct (match c_refs_at c with Some ras => _ | None => _ end) as [e1|s] eqn:Est.
  - intros E. inversion E; subst e1. destruct (c_refs_at c) as [ras|].
    + unfold stage_sigrefs_at in Est. cbv zeta in Est.
      match type of Est with context [forallb ?f ?l] => destruct (forallb f l) end; cbn [negb] in Est;
        [|inversion Est; eexists; reflexivity].
      match type of Est with context [Fetch.load_all ?a ?b ?c0 ?d ?e0] => destruct (Fetch.load_all a b c0 d e0) end;
        [discriminate | inversion Est; eexists; reflexivity].
    + unfold stage_special in Est. cbv zeta in Est.
      match type of Est with (if ?b then _ else _) = _ => destruct b end; [inversion Est; eexists; reflexivity|].
      match type of Est with context [Fetch.load_all ?a ?b ?c0 ?d ?e0] => destruct (Fetch.load_all a b c0 d e0) end;
        [discriminate | inversion Est; eexists; reflexivity].
  - apply loop_fold_err. intros e0 E0. discriminate.
Qed.

Lemma success_needs_threshold c L S L' : sorted S ->
  run anc U c L S = (RSuccess, L') ->
  exists V : list nid, NoDup V /\ eff_threshold c <= N.of_nat (length V) /\
    forall d, In d V -> is_delegate c d = true /\ sigrefs_of L' d <> None.
Proof.
  intros HS Hrun. pose proof Hrun as Hrun0. unfold run in Hrun.
  destruct (plan anc U c L S) as [e|[tips valid]] eqn:Ep.
  { destruct (plan_err _ _ _ _ Ep) as [k ->]. inversion Hrun. }
  destruct (N.leb_spec (eff_threshold c) (N.of_nat (length valid))) as [Hle|Hgt].
  2:{ inversion Hrun. }
  destruct (apply_all anc L tips) as [L1 ok] eqn:Ea. destruct ok; [|discriminate].
  inversion Hrun; subst L1. clear Hrun.
  destruct (plan_spec anc U c L S tips valid HS Ep) as [Hts [Hpl [Hvs Hvd]]].
  exists (keys valid). split; [apply sorted_NoDup_keys; exact Hvs|].
  split; [unfold keys; rewrite map_length; exact Hle|].
  intros d Hd. destruct (Hvd d Hd) as [Hdel Hsrc]. split; [exact Hdel|].
  destruct Hsrc as [Hloc|[us Hl]].
  - destruct (sigrefs_of L d) as [a|] eqn:Ea0; [|congruence].
    destruct (sigrefs_monotone c L S RSuccess L' d a HS Hrun0 Ea0) as [b [Hb _]]. congruence.
  - destruct (apply_all_spec anc tips Hts _ _ _ Ea d) as [[_ Hnone]|[us' [ns' [okr [Hl' [Eap [Ens Hokr]]]]]]].
    { rewrite (Hnone eq_refl) in Hl. discriminate. }
    rewrite Hl in Hl'. inversion Hl'; subst us'.
    destruct (planned_applied anc U c L S d us ns' okr (Hpl d us Hl) Eap) as [_ Hok].
    destruct (Hok (Hokr eq_refl)) as [t [o [_ [M1 _]]]].
    unfold sigrefs_of. rewrite Ens, M1. discriminate.
Qed.

Definition check_fails (c : cfg) (L S : store) (r : nid) : Prop :=
  is_blocked c r = true \/
  announced c S r = None \/
  exists t, announced c S r = Some t /\
    (lookup t U = None \/
     exists o, lookup t U = Some o /\
       (so_sig_ok o = false \/ so_root_ok o = false \/
        (exists x, advertised_id c S r = Some x /\ lookup RAD_ID (so_content o) = None) \/
        lookup SIGREFS (so_content o) <> None \/
        (exists n v, lookup n (so_content o) = Some v /\ is_qualified n = false) \/
        (exists a, sigrefs_of L r = Some a /\ a <> t /\ anc a t = false))).

Lemma failing_namespace_untouched c L S res L' r : sorted S ->
  run anc U c L S = (res, L') ->
  check_fails c L S r ->
  ns_of L' r = ns_of L r.
Proof.
  intros HS Hrun Hf.
  assert (Hdec : {ns_of L' r = ns_of L r} + {ns_of L' r <> ns_of L r}).
  { apply list_eq_dec. intros [a1 b1] [a2 b2].
    destruct (N.eq_dec a1 a2); destruct (N.eq_dec b1 b2); subst; auto; right; congruence. }
  destruct Hdec as [E|NE]; [exact E|]. exfalso.
  destruct (changed_namespace_accepted c L S res L' r HS Hrun NE) as [t [o [Hacc _]]].
  destruct Hacc as [Hb [Han [HU [Hs1 [Hs2 [Hid [Hcs [Hq Hanc]]]]]]]].
  destruct Hf as [H|[H|[t' [Han' H]]]]; [congruence | congruence|].
  rewrite Han in Han'. inversion Han'; subst t'.
  destruct H as [H|[o' [HU' H]]]; [congruence|].
  rewrite HU in HU'. inversion HU'; subst o'.
  destruct H as [H|[H|[[x [Hx Hn]]|[H|[[n [v [Hc Hnq]]]|[a [Ha [Hne Hna]]]]]]]]; try congruence.
  - apply (Hid x Hx Hn).
  - rewrite (Hq n v Hc) in Hnq. discriminate.
  - destruct (Hanc a Ha); congruence.
Qed.

Lemma valid_delegates_sound c L S tips valid : sorted S ->
  plan anc U c L S = inr (tips, valid) ->
  NoDup (keys valid) /\
  forall d, In d (keys valid) ->
    is_delegate c d = true /\
    (sigrefs_of L d <> None \/
     exists t o, announced c S d = Some t /\ lookup t U = Some o /\
                 so_sig_ok o = true /\ so_root_ok o = true).
Proof.
  intros HS Hp. destruct (plan_spec anc U c L S tips valid HS Hp) as [_ [Hpl [Hvs Hvd]]].
  split; [apply sorted_NoDup_keys; exact Hvs|].
  intros d Hd. destruct (Hvd d Hd) as [Hdel [Hloc|[us Hl]]]; split; try exact Hdel; [left; exact Hloc|].
  right. destruct (Hpl d us Hl) as [t [o [HU [Hv [Hb [Hsrc [Eus [Hval _]]]]]]]]. subst us.
  destruct (validate_special_facts _ _ _ _ _ _ Hval) as [[t' Ean] _].
  exists t, o. unfold so_valid in Hv. apply andb_true_iff in Hv. destruct Hv as [Hv1 Hv2].
  repeat split; try assumption. destruct Hsrc as [H|[H _]]; [exact H | congruence].
Qed.

End Statements.
