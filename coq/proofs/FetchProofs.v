(* FetchProofs.v — lemmas and invariants about model/Fetch.v (C01, C02). *)
From HW Require Import lib.Base lib.SMap model.Fetch.
From Coq Require Import Sorted.
Local Open Scope N_scope.

(* ------------------------------------------------------------------ *)
(* maps: lookups after insert / del, without any sortedness assumption *)

Lemma lookup_insert_any {V} (k : N) (v : V) (m : smap V) k0 :
  lookup k0 (insert k v m) = if k0 =? k then Some v else lookup k0 m.
Proof.
  unfold insert. induction m as [|[k' v'] m IH]; cbn [upsert lookup].
  - destruct (N.eqb_spec k0 k); reflexivity.
  - destruct (N.compare_spec k k') as [E|Hlt|Hgt].
    + subst k'. cbn [lookup]. destruct (N.eqb_spec k0 k); reflexivity.
    + cbn [lookup]. destruct (N.eqb_spec k0 k); [reflexivity|].
      reflexivity.
    + cbn [lookup]. rewrite IH.
      destruct (N.eqb_spec k0 k'); destruct (N.eqb_spec k0 k); try reflexivity. lia.
Qed.

Lemma lookup_del {V} (k : N) (m : smap V) k0 :
  lookup k0 (del k m) = if k0 =? k then None else lookup k0 m.
Proof.
  unfold del. induction m as [|[k' v'] m IH]; cbn [filter lookup fst].
  - destruct (k0 =? k); reflexivity.
  - destruct (N.eqb_spec k' k) as [E|NE]; cbn [negb].
    + subst k'. rewrite IH. destruct (N.eqb_spec k0 k); reflexivity.
    + cbn [lookup]. rewrite IH.
      destruct (N.eqb_spec k0 k'); destruct (N.eqb_spec k0 k); try reflexivity. lia.
Qed.

Lemma keys_filter_Forall {V} (P : N -> Prop) (f : N * V -> bool) (m : smap V) :
  Forall P (keys m) -> Forall P (keys (filter f m)).
Proof.
  unfold keys. induction m as [|x m IH]; cbn [filter map]; intros H; [constructor|].
  inversion H; subst. destruct (f x); cbn [map]; [constructor|]; auto.
Qed.

Lemma sorted_filter {V} (f : N * V -> bool) (m : smap V) : sorted m -> sorted (filter f m).
Proof.
  induction m as [|[k v] m IH]; cbn [filter]; intros Hs; [exact Hs|].
  apply sorted_cons_inv in Hs. destruct Hs as [Hs Hall].
  destruct (f (k, v)); [|apply IH; exact Hs].
  apply sorted_cons; [apply IH; exact Hs | apply keys_filter_Forall; exact Hall].
Qed.

Lemma sorted_del {V} k (m : smap V) : sorted m -> sorted (del k m).
Proof. apply sorted_filter. Qed.

Lemma sorted_insert {V} k (v : V) m : sorted m -> sorted (insert k v m).
Proof. apply sorted_upsert. Qed.

Lemma lookup_Some_In {V} k (v : V) m : lookup k m = Some v -> In (k, v) m.
Proof. apply lookup_In. Qed.

Lemma mem_lookup {V} k (m : smap V) : mem k m = true <-> exists v, lookup k m = Some v.
Proof.
  unfold mem. destruct (lookup k m) as [v|]; split; intros H; try discriminate.
  - exists v; reflexivity.
  - reflexivity.
  - destruct H as [v H]; discriminate.
Qed.

Lemma mem_false_lookup {V} k (m : smap V) : mem k m = false <-> lookup k m = None.
Proof. unfold mem. destruct (lookup k m); split; intros; congruence. Qed.

Lemma In_keys_lookup {V} k (m : smap V) : In k (keys m) -> exists v, lookup k m = Some v.
Proof.
  intros H. apply lookup_in_keys in H. destruct (lookup k m) as [v|]; [exists v; reflexivity | congruence].
Qed.

(* ------------------------------------------------------------------ *)
(* stores *)

Lemma ns_of_put_ns r ns L r' :
  ns_of (put_ns r ns L) r' = if r' =? r then ns else ns_of L r'.
Proof.
  unfold ns_of, put_ns. destruct ns as [|x ns].
  - rewrite lookup_del. destruct (r' =? r); reflexivity.
  - rewrite lookup_insert_any. destruct (r' =? r); reflexivity.
Qed.

(* ------------------------------------------------------------------ *)
(* update lists: the effect of the last update on a name *)

Definition upd_name (u : update) : name := match u with Direct n _ _ => n | Prune n => n end.
Definition upd_eff (u : update) : option oid := match u with Direct _ t _ => Some t | Prune _ => None end.

Fixpoint last_on (us : list update) (k : name) : option (option oid) :=
  match us with
  | [] => None
  | u :: us' =>
      match last_on us' k with
      | Some e => Some e
      | None => if upd_name u =? k then Some (upd_eff u) else None
      end
  end.

Lemma last_on_app a b k :
  last_on (a ++ b) k = match last_on b k with Some e => Some e | None => last_on a k end.
Proof.
  induction a as [|u a IH]; cbn [app last_on].
  - destruct (last_on b k); reflexivity.
  - rewrite IH. destruct (last_on b k); reflexivity.
Qed.

Lemma last_on_In u us : In u us -> last_on us (upd_name u) <> None.
Proof.
  induction us as [|u' us IH]; cbn [In last_on]; [tauto|].
  intros [E|H].
  - subst u'. destruct (last_on us (upd_name u)); [congruence|]. rewrite N.eqb_refl. congruence.
  - specialize (IH H). destruct (last_on us (upd_name u)); congruence.
Qed.

Lemma last_on_Some_In us k e : last_on us k = Some e -> exists u, In u us /\ upd_name u = k /\ upd_eff u = e.
Proof.
  induction us as [|u us IH]; cbn [last_on]; [discriminate|].
  destruct (last_on us k) as [e'|] eqn:El.
  - intros E. inversion E; subst. destruct (IH eq_refl) as [u' [Hin [Hn He]]].
    exists u'. split; [right; exact Hin | auto].
  - destruct (N.eqb_spec (upd_name u) k); [|discriminate].
    intros E. inversion E; subst. exists u. split; [left; reflexivity | auto].
Qed.

Lemma mem_update_lookup m u k :
  lookup k (mem_update m u) = if upd_name u =? k then upd_eff u else lookup k m.
Proof.
  destruct u as [n t p|n]; cbn [mem_update upd_name upd_eff].
  - rewrite lookup_insert_any. rewrite (N.eqb_sym k n). reflexivity.
  - rewrite lookup_del. rewrite (N.eqb_sym k n). reflexivity.
Qed.

Lemma fold_mem_lookup us : forall m k,
  lookup k (fold_left mem_update us m) = match last_on us k with Some e => e | None => lookup k m end.
Proof.
  induction us as [|u us IH]; intros m k; cbn [fold_left last_on]; [reflexivity|].
  rewrite IH. destruct (last_on us k); [reflexivity|].
  rewrite mem_update_lookup. destruct (upd_name u =? k); reflexivity.
Qed.

Lemma mem_of_lookup us k :
  lookup k (mem_of us) = match last_on us k with Some e => e | None => None end.
Proof. unfold mem_of. rewrite fold_mem_lookup. reflexivity. Qed.

Lemma sorted_fold_mem us : forall m, sorted m -> sorted (fold_left mem_update us m).
Proof.
  induction us as [|u us IH]; intros m H; cbn [fold_left]; [exact H|].
  apply IH. destruct u; cbn [mem_update]; [apply sorted_insert | apply sorted_del]; exact H.
Qed.

Lemma sorted_mem_of us : sorted (mem_of us).
Proof. apply sorted_fold_mem. apply sorted_nil. Qed.

(* ------------------------------------------------------------------ *)
(* applying updates *)

Section WithOracles.
Variable anc : oid -> oid -> bool.
Variable U : universe.

Notation apply_update := (apply_update anc).
Notation apply_ns := (apply_ns anc).
Notation apply_all := (apply_all anc).
Notation ancestry_of := (ancestry_of anc).

Definition free_update (u : update) : Prop :=
  match u with Direct _ _ Allow => True | Prune _ => True | _ => False end.

Lemma apply_free ns u : free_update u ->
  exists ns', apply_update ns u = Some ns' /\
    forall k, lookup k ns' = if upd_name u =? k then upd_eff u else lookup k ns.
Proof.
  destruct u as [n t p|n]; cbn [free_update]; intros Hf.
  - destruct p; try contradiction. cbn [apply_update upd_name upd_eff].
    destruct (lookup n ns) as [prev|] eqn:El.
    + unfold Fetch.ancestry_of. destruct (N.eqb_spec prev t) as [E|NE].
      * subst. exists ns. split; [reflexivity|]. intros k.
        destruct (N.eqb_spec n k); [subst; exact El | reflexivity].
      * destruct (anc prev t); [|destruct (anc t prev)];
          (eexists; split; [reflexivity|]; intros k; rewrite lookup_insert_any, (N.eqb_sym k n); reflexivity).
    + eexists; split; [reflexivity|]. intros k. rewrite lookup_insert_any, (N.eqb_sym k n). reflexivity.
  - cbn [apply_update upd_name upd_eff]. eexists; split; [reflexivity|].
    intros k. rewrite lookup_del, (N.eqb_sym k n). reflexivity.
Qed.

Lemma apply_ns_free da : Forall free_update da -> forall ns,
  exists ns', apply_ns ns da = (ns', true) /\
    forall k, lookup k ns' = match last_on da k with Some e => e | None => lookup k ns end.
Proof.
  induction da as [|u da IH]; intros Hf ns; cbn [Fetch.apply_ns last_on].
  - exists ns. split; reflexivity.
  - inversion Hf; subst.
    destruct (apply_free ns u H1) as [ns1 [E1 L1]]. rewrite E1.
    destruct (IH H2 ns1) as [ns' [E2 L2]]. exists ns'. split; [exact E2|].
    intros k. rewrite L2. destruct (last_on da k); [reflexivity|]. rewrite L1.
    destruct (upd_name u =? k); reflexivity.
Qed.

Lemma apply_ns_app a b ns :
  apply_ns ns (a ++ b) =
  let '(ns1, ok) := apply_ns ns a in if ok then apply_ns ns1 b else (ns1, false).
Proof.
  revert ns. induction a as [|u a IH]; intros ns; cbn [app Fetch.apply_ns]; [reflexivity|].
  destruct (apply_update ns u) as [ns1|]; [apply IH | reflexivity].
Qed.

(* ---------------- single guarded updates *)

Lemma apply_direct_other ns n x p ns1 :
  apply_update ns (Direct n x p) = Some ns1 -> forall k, k <> n -> lookup k ns1 = lookup k ns.
Proof.
  cbn [Fetch.apply_update]. intros H k Hk.
  assert (Hins : lookup k (insert n x ns) = lookup k ns).
  { rewrite lookup_insert_any. destruct (N.eqb_spec k n); [contradiction | reflexivity]. }
  destruct (lookup n ns) as [prev|].
  - destruct (ancestry_of prev x); destruct p; inversion H; subst; auto.
  - inversion H; subst; auto.
Qed.

Lemma apply_direct_ff ns n t p :
  (forall a, lookup n ns = Some a -> a = t \/ anc a t = true) ->
  exists ns1, apply_update ns (Direct n t p) = Some ns1 /\ lookup n ns1 = Some t.
Proof.
  intros Hanc. cbn [Fetch.apply_update].
  assert (Hins : lookup n (insert n t ns) = Some t).
  { rewrite lookup_insert_any, N.eqb_refl. reflexivity. }
  destruct (lookup n ns) as [prev|] eqn:El.
  - unfold Fetch.ancestry_of. destruct (N.eqb_spec prev t) as [E|NE].
    + subst. exists ns. split; [reflexivity | exact El].
    + destruct (Hanc prev eq_refl) as [E|Ha]; [contradiction|]. rewrite Ha.
      destruct p; (eexists; split; [reflexivity | exact Hins]).
  - eexists; split; [reflexivity | exact Hins].
Qed.

(* ---------------- the shape of the updates of one namespace *)

Definition data_part (ns : namespace) (content : smap oid) : list update :=
  map (fun nv => Direct (fst nv) (snd nv) Allow) (filter (fun nv => is_qualified (fst nv)) content)
  ++ map (fun nv => Prune (fst nv))
         (filter (fun nv => negb (is_rad (fst nv)) && negb (mem (fst nv) content)) ns).

Lemma data_updates_eq L r o : data_updates L r o = data_part (ns_of L r) (so_content o).
Proof. reflexivity. Qed.

Lemma data_part_free ns content : Forall free_update (data_part ns content).
Proof.
  unfold data_part. apply Forall_app. split; apply Forall_forall; intros u Hu;
    apply in_map_iff in Hu; destruct Hu as [x [E _]]; subst u; exact I.
Qed.

Lemma data_part_direct ns content n v :
  In (n, v) content -> is_qualified n = true -> In (Direct n v Allow) (data_part ns content).
Proof.
  intros Hin Hq. unfold data_part. apply in_or_app. left.
  apply in_map_iff. exists (n, v). split; [reflexivity|].
  apply filter_In. split; [exact Hin | exact Hq].
Qed.

Lemma data_part_prune ns content n v :
  lookup n ns = Some v -> is_rad n = false -> lookup n content = None ->
  In (Prune n) (data_part ns content).
Proof.
  intros Hl Hr Hc. unfold data_part. apply in_or_app. right.
  apply in_map_iff. exists (n, v). split; [reflexivity|].
  apply filter_In. split; [apply lookup_In; exact Hl|].
  cbn [fst]. rewrite Hr. apply mem_false_lookup in Hc. rewrite Hc. reflexivity.
Qed.

Lemma data_part_inv ns content u : In u (data_part ns content) ->
  (exists n v, u = Direct n v Allow /\ In (n, v) content) \/
  (exists n, u = Prune n /\ is_rad n = false).
Proof.
  unfold data_part. intros H. apply in_app_or in H. destruct H as [H|H];
    apply in_map_iff in H; destruct H as [[n v] [E Hin]]; subst u; apply filter_In in Hin;
    destruct Hin as [Hin Hf]; cbn [fst snd] in *.
  - left. exists n, v. auto.
  - right. exists n. split; [reflexivity|]. apply andb_true_iff in Hf. destruct Hf as [Hf _].
    destruct (is_rad n); [discriminate | reflexivity].
Qed.

Definition sp_shape (p : policy) (t : oid) (sp : list update) : Prop :=
  exists a b, sp = a ++ b /\
    (a = [] \/ exists x, a = [Direct RAD_ID x p]) /\
    (b = [] \/ b = [Direct SIGREFS t p]).

Lemma sp_last_on p t sp : sp_shape p t sp ->
  (forall k, k <> RAD_ID -> k <> SIGREFS -> last_on sp k = None) /\
  (last_on sp SIGREFS = None \/ last_on sp SIGREFS = Some (Some t)) /\
  (last_on sp RAD_ID = None \/
   exists x, last_on sp RAD_ID = Some (Some x) /\ exists rest, sp = Direct RAD_ID x p :: rest).
Proof.
  intros [a [b [E [[Ha|[x Ha]] [Hb|Hb]]]]]; subst; cbn [app last_on upd_name upd_eff].
  - repeat split; auto.
  - repeat split.
    + intros k H1 H2. destruct (N.eqb_spec SIGREFS k); [congruence | reflexivity].
    + right. reflexivity.
    + left. reflexivity.
  - repeat split.
    + intros k H1 H2. destruct (N.eqb_spec RAD_ID k); [congruence | reflexivity].
    + left. reflexivity.
    + right. exists x. split; [reflexivity | exists []; reflexivity].
  - repeat split.
    + intros k H1 H2. destruct (N.eqb_spec SIGREFS k); [congruence|].
      destruct (N.eqb_spec RAD_ID k); [congruence | reflexivity].
    + right. reflexivity.
    + right. exists x. split; [reflexivity | eexists; reflexivity].
Qed.

Lemma sp_apply p t sp ns :
  sp_shape p t sp ->
  (forall a, lookup SIGREFS ns = Some a -> a = t \/ anc a t = true) ->
  exists ns1 ok, apply_ns ns sp = (ns1, ok) /\
    (ok = false -> ns1 = ns) /\
    (ok = true ->
       (forall k, k <> RAD_ID -> k <> SIGREFS -> lookup k ns1 = lookup k ns) /\
       (last_on sp SIGREFS = None -> lookup SIGREFS ns1 = lookup SIGREFS ns) /\
       (last_on sp SIGREFS <> None -> lookup SIGREFS ns1 = Some t) /\
       (last_on sp RAD_ID = None -> lookup RAD_ID ns1 = lookup RAD_ID ns)).
Proof.
  intros [a [b [E [[Ha|[x Ha]] [Hb|Hb]]]]] Hanc; subst; cbn [app Fetch.apply_ns].
  - exists ns, true. split; [reflexivity|]. split; [discriminate|]. intros _.
    cbn [last_on]. repeat split; auto. intros H; congruence.
  - destruct (apply_direct_ff ns SIGREFS t p Hanc) as [ns1 [E1 L1]]. rewrite E1.
    exists ns1, true. split; [reflexivity|]. split; [discriminate|]. intros _.
    repeat split.
    + intros k H1 H2. eapply apply_direct_other; eauto.
    + cbn [last_on upd_name]. rewrite N.eqb_refl. discriminate.
    + intros _. exact L1.
    + intros _. eapply apply_direct_other; eauto. discriminate.
  - destruct (apply_update ns (Direct RAD_ID x p)) as [ns1|] eqn:E1.
    + exists ns1, true. split; [reflexivity|]. split; [discriminate|]. intros _.
      repeat split.
      * intros k H1 H2. eapply apply_direct_other; eauto.
      * intros _. eapply apply_direct_other; eauto. discriminate.
      * cbn [last_on upd_name]. replace (RAD_ID =? SIGREFS) with false by reflexivity. congruence.
      * cbn [last_on upd_name]. rewrite N.eqb_refl. discriminate.
    + exists ns, false. split; [reflexivity|]. split; [reflexivity | discriminate].
  - destruct (apply_update ns (Direct RAD_ID x p)) as [ns1|] eqn:E1.
    + assert (Hsame : lookup SIGREFS ns1 = lookup SIGREFS ns).
      { eapply apply_direct_other; eauto. discriminate. }
      assert (Hanc1 : forall a, lookup SIGREFS ns1 = Some a -> a = t \/ anc a t = true).
      { intros a Ha. apply Hanc. rewrite <- Hsame. exact Ha. }
      destruct (apply_direct_ff ns1 SIGREFS t p Hanc1) as [ns2 [E2 L2]]. rewrite E2.
      exists ns2, true. split; [reflexivity|]. split; [discriminate|]. intros _.
      repeat split.
      * intros k H1 H2. rewrite (apply_direct_other _ _ _ _ _ E2 k H2).
        eapply apply_direct_other; eauto.
      * cbn [last_on upd_name]. rewrite N.eqb_refl. discriminate.
      * intros _. exact L2.
      * cbn [last_on upd_name]. replace (SIGREFS =? RAD_ID) with false by reflexivity.
        rewrite N.eqb_refl. discriminate.
    + exists ns, false. split; [reflexivity|]. split; [reflexivity | discriminate].
Qed.

(* ---------------- Cached::validate_remote, read off as lookups *)

Lemma validate_spec us content : validate us content = true ->
  (exists s, lookup SIGREFS (mem_of us) = Some s) /\
  lookup SIGREFS content = None /\
  (forall n, n <> SIGREFS -> lookup n (mem_of us) = lookup n content).
Proof.
  unfold validate. intros H. apply andb_true_iff in H. destruct H as [H V3].
  apply andb_true_iff in H. destruct H as [V1 V2].
  rewrite forallb_forall in V2, V3.
  split; [apply mem_lookup; exact V1|].
  split.
  - destruct (lookup SIGREFS content) as [v|] eqn:El; [|reflexivity].
    apply lookup_In in El. specialize (V3 _ El). cbn [fst] in V3.
    rewrite N.eqb_refl in V3. discriminate.
  - intros n Hn.
    destruct (lookup n (mem_of us)) as [v|] eqn:Em.
    + apply lookup_In in Em. specialize (V2 _ Em). cbn [fst snd] in V2.
      destruct (N.eqb_spec n SIGREFS); [contradiction|]. cbn [orb] in V2.
      destruct (lookup n content) as [v'|]; [|discriminate].
      apply N.eqb_eq in V2. subst. reflexivity.
    + destruct (lookup n content) as [v|] eqn:Ec; [|reflexivity].
      apply lookup_In in Ec. specialize (V3 _ Ec). cbn [fst] in V3.
      apply andb_true_iff in V3. destruct V3 as [_ V3].
      apply mem_lookup in V3. destruct V3 as [v' V3]. congruence.
Qed.

(* ---------------- the namespace after a validated set of updates *)

Definition ns_matches (ns0 ns' : namespace) (t : oid) (content : smap oid) : Prop :=
  lookup SIGREFS ns' = Some t /\
  (forall n v, lookup n content = Some v -> lookup n ns' = Some v) /\
  (forall n v, n <> SIGREFS -> lookup n ns' = Some v ->
     lookup n content = Some v \/
     (is_rad n = true /\ lookup n content = None /\ lookup n ns0 = Some v)).

Lemma ns_match ns content p t sp :
  sp_shape p t sp ->
  validate (sp ++ data_part ns content) content = true ->
  (forall a, lookup SIGREFS ns = Some a -> a = t \/ anc a t = true) ->
  exists ns' ok, apply_ns ns (sp ++ data_part ns content) = (ns', ok) /\
    (ok = false -> ns' = ns) /\
    (ok = true -> ns_matches ns ns' t content).
Proof.
  intros Hshape Hval Hanc.
  set (da := data_part ns content) in *.
  destruct (validate_spec _ _ Hval) as [[s Hs] [Hcs E1]].
  destruct (sp_last_on _ _ _ Hshape) as [Lo [Ls Li]].
  destruct (sp_apply _ _ _ ns Hshape Hanc) as [ns1 [ok [Eap [Hko Hok]]]].
  rewrite apply_ns_app, Eap.
  destruct ok.
  2:{ exists ns1, false. split; [reflexivity|]. split; [auto | discriminate]. }
  destruct (apply_ns_free da (data_part_free ns content) ns1) as [ns' [Eda Lda]].
  exists ns', true. split; [exact Eda|]. split; [discriminate|]. intros _.
  destruct (Hok eq_refl) as [Ho [Hs0 [Hs1 Hi0]]].
  (* mem lookups *)
  assert (Hmem : forall k, lookup k (mem_of (sp ++ da)) =
            match last_on da k with Some e => e | None =>
              match last_on sp k with Some e => e | None => None end end).
  { intros k. rewrite mem_of_lookup, last_on_app. destruct (last_on da k); reflexivity. }
  (* da does not touch SIGREFS *)
  assert (Hda_sig : last_on da SIGREFS = None).
  { destruct (last_on da SIGREFS) as [e|] eqn:El; [|reflexivity].
    apply last_on_Some_In in El. destruct El as [u [Hin [Hn He]]].
    apply data_part_inv in Hin. destruct Hin as [[n [v [Eu Hc]]]|[n [Eu Hr]]]; subst u; cbn in Hn; subst n.
    - apply (In_lookup) in Hc.
      + congruence.
      + (* content need not be sorted: use the entry directly *)
        exfalso. clear -Hval Hc.
        unfold validate in Hval. apply andb_true_iff in Hval. destruct Hval as [_ V3].
        rewrite forallb_forall in V3. specialize (V3 _ Hc). cbn [fst] in V3.
        rewrite N.eqb_refl in V3. discriminate.
    - discriminate. }
  (* a signed rad/id update is followed by the data update of rad/id *)
  assert (Hid : last_on da RAD_ID = None -> last_on sp RAD_ID = None).
  { intros Hd. destruct Li as [Li|[x [Li _]]]; [exact Li|]. exfalso.
    assert (Em : lookup RAD_ID (mem_of (sp ++ da)) = Some x).
    { rewrite Hmem, Hd, Li. reflexivity. }
    rewrite (E1 RAD_ID) in Em by discriminate.
    apply lookup_In in Em.
    pose proof (data_part_direct ns content RAD_ID x Em eq_refl) as Hin.
    apply last_on_In in Hin. cbn [upd_name] in Hin. fold da in Hin. congruence. }
  unfold ns_matches. split; [|split].
  - (* SIGREFS *)
    rewrite Lda, Hda_sig. apply Hs1.
    rewrite Hmem, Hda_sig in Hs. destruct (last_on sp SIGREFS); congruence.
  - (* every signed reference is there *)
    intros n v Hc.
    assert (Hn : n <> SIGREFS) by (intros ->; congruence).
    assert (Em : lookup n (mem_of (sp ++ da)) = Some v) by (rewrite E1; assumption).
    rewrite Lda. rewrite Hmem in Em.
    destruct (last_on da n) as [e|] eqn:Ed; [exact Em|].
    exfalso. destruct (N.eqb_spec n RAD_ID) as [->|Hni].
    + rewrite (Hid Ed) in Em. discriminate.
    + rewrite (Lo n Hni Hn) in Em. discriminate.
  - (* nothing else, except refs/rad/* that were there before and are not signed *)
    intros n v Hn Hl. rewrite Lda in Hl.
    pose proof (Hmem n) as Em. rewrite (E1 n Hn) in Em.
    destruct (last_on da n) as [e|] eqn:Ed.
    + left. congruence.
    + right.
      assert (Hsp : last_on sp n = None).
      { destruct (N.eqb_spec n RAD_ID) as [->|Hni]; [apply Hid; exact Ed | apply Lo; assumption]. }
      rewrite Hsp in Em.
      assert (Hl0 : lookup n ns = Some v).
      { destruct (N.eqb_spec n RAD_ID) as [->|Hni]; [rewrite <- Hi0; assumption | rewrite <- Ho; assumption]. }
      split; [|split; assumption].
      destruct (is_rad n) eqn:Hr; [reflexivity|]. exfalso.
      pose proof (data_part_prune ns content n v Hl0 Hr Em) as Hin.
      apply last_on_In in Hin. cbn [upd_name] in Hin. fold da in Hin. congruence.
Qed.

End WithOracles.

(* ------------------------------------------------------------------ *)
(* building the per-remote update lists *)

Lemma sorted_NoDup_keys {V} (m : smap V) : sorted m -> NoDup (keys m).
Proof.
  induction m as [|[k v] m IH]; intros Hs; [constructor|].
  apply sorted_cons_inv in Hs. destruct Hs as [Hs Hall]. cbn [keys map fst].
  constructor; [|apply IH; exact Hs].
  intros Hin. rewrite Forall_forall in Hall. specialize (Hall _ Hin). lia.
Qed.

Lemma NoDup_map_filter {X} (key : X -> N) (P : X -> bool) l :
  NoDup (map key l) -> NoDup (map key (filter P l)).
Proof.
  induction l as [|x l IH]; cbn [filter map]; intros H; [constructor|].
  inversion H; subst. destruct (P x); cbn [map]; [|apply IH; assumption].
  constructor; [|apply IH; assumption].
  intros Hin. apply H2. apply in_map_iff in Hin. destruct Hin as [y [E Hy]].
  apply filter_In in Hy. apply in_map_iff. exists y. split; [exact E | apply Hy].
Qed.

Lemma updates_of_add_tips r us tips r' : sorted tips ->
  updates_of (add_tips r us tips) r' =
  if r' =? r then updates_of tips r ++ us else updates_of tips r'.
Proof.
  intros Hs. unfold updates_of, add_tips. rewrite lookup_upsert by exact Hs.
  destruct (r' =? r); [|reflexivity].
  destruct (lookup r tips); reflexivity.
Qed.

Lemma lookup_add_tips_none r us tips r' : sorted tips ->
  lookup r' (add_tips r us tips) = None <-> (r' <> r /\ lookup r' tips = None).
Proof.
  intros Hs. unfold add_tips. rewrite lookup_upsert by exact Hs.
  destruct (N.eqb_spec r' r).
  - split; [discriminate | intros [H _]; contradiction].
  - split; [intros H; split; assumption | intros [_ H]; exact H].
Qed.

Lemma fold_add_tips {X} (key : X -> nid) (g : X -> list update) (xs : list X) :
  NoDup (map key xs) -> forall tips, sorted tips ->
  let T := fold_left (fun m x => add_tips (key x) (g x) m) xs tips in
  sorted T /\
  (forall x, In x xs -> updates_of T (key x) = updates_of tips (key x) ++ g x) /\
  (forall r, ~ In r (map key xs) -> lookup r T = lookup r tips) /\
  (forall r, lookup r T = None -> lookup r tips = None /\ ~ In r (map key xs)).
Proof.
  induction xs as [|x xs IH]; intros Hnd tips Hs; cbn [fold_left map].
  - repeat split; auto. intros x [].
  - inversion Hnd; subst.
    assert (Hs1 : sorted (add_tips (key x) (g x) tips)) by (apply sorted_upsert; exact Hs).
    destruct (IH H2 _ Hs1) as [I1 [I2 [I3 I4]]]. cbn zeta in *.
    split; [exact I1|]. split; [|split].
    + intros y [E|Hy].
      * subst y.
        assert (E : updates_of (fold_left (fun m x0 => add_tips (key x0) (g x0) m) xs
                      (add_tips (key x) (g x) tips)) (key x)
                    = updates_of (add_tips (key x) (g x) tips) (key x)).
        { unfold updates_of. rewrite (I3 (key x) H1). reflexivity. }
        rewrite E, updates_of_add_tips by exact Hs. rewrite N.eqb_refl. reflexivity.
      * rewrite (I2 y Hy), updates_of_add_tips by exact Hs.
        destruct (N.eqb_spec (key y) (key x)) as [E|NE]; [|reflexivity].
        exfalso. apply H1. rewrite <- E. apply in_map. exact Hy.
    + intros r Hr. rewrite I3 by (intros H; apply Hr; right; exact H).
      unfold add_tips. rewrite lookup_upsert by exact Hs.
      destruct (N.eqb_spec r (key x)); [|reflexivity].
      exfalso. apply Hr. left. congruence.
    + intros r Hr. destruct (I4 r Hr) as [Hn Hni].
      apply lookup_add_tips_none in Hn; [|exact Hs]. destruct Hn as [Hne Hn].
      split; [exact Hn|]. intros [E|Hin]; [congruence | contradiction].
Qed.

Lemma fold_insert_lookup {X V} (key : X -> N) (g : X -> option V) (xs : list X) :
  NoDup (map key xs) -> forall m : smap V,
  let M := fold_left (fun m x => match g x with Some t => insert (key x) t m | None => m end) xs m in
  (forall x, In x xs -> lookup (key x) M = match g x with Some t => Some t | None => lookup (key x) m end) /\
  (forall r, ~ In r (map key xs) -> lookup r M = lookup r m).
Proof.
  induction xs as [|x xs IH]; intros Hnd m; cbn [fold_left map].
  - split; [intros x [] | auto].
  - inversion Hnd; subst.
    destruct (IH H2 (match g x with Some t => insert (key x) t m | None => m end)) as [I1 I2].
    cbn zeta in *. split.
    + intros y [E|Hy].
      * subst y. rewrite I2 by exact H1.
        destruct (g x); [rewrite lookup_insert_any, N.eqb_refl|]; reflexivity.
      * rewrite (I1 y Hy).
        destruct (g y); [reflexivity|].
        destruct (g x); [|reflexivity]. rewrite lookup_insert_any.
        destruct (N.eqb_spec (key y) (key x)) as [E|NE]; [|reflexivity].
        exfalso. apply H1. rewrite <- E. apply in_map. exact Hy.
    + intros r Hr. rewrite I2 by (intros H; apply Hr; right; exact H).
      destruct (g x); [|reflexivity]. rewrite lookup_insert_any.
      destruct (N.eqb_spec r (key x)); [|reflexivity]. exfalso. apply Hr. left. congruence.
Qed.

(* ------------------------------------------------------------------ *)
(* outcomes that leave storage alone *)

Lemma run_no_apply_unchanged anc U c L S res L' :
  run anc U c L S = (res, L') -> res <> RSuccess -> res <> RErr 4 -> L' = L.
Proof.
  unfold run. destruct (plan anc U c L S) as [e|[tips valid]].
  - intros E _ _. inversion E; reflexivity.
  - destruct (eff_threshold c <=? N.of_nat (length valid)).
    + destruct (apply_all anc L tips) as [L1 ok]. intros E H1 H2.
      inversion E; subst. destruct ok; congruence.
    + intros E _ _. inversion E; reflexivity.
Qed.

Lemma run_below_threshold anc U c L S tips valid :
  plan anc U c L S = inr (tips, valid) ->
  N.of_nat (length valid) < eff_threshold c ->
  run anc U c L S = (RFailed, L).
Proof.
  intros Hp Hlt. unfold run. rewrite Hp.
  destruct (N.leb_spec (eff_threshold c) (N.of_nat (length valid))); [lia | reflexivity].
Qed.
