(* DagFold.v — `Dag::fold`: the nodes handed to the filter form a
   subsequence of a dependency-respecting traversal order, and a node of that
   order is skipped exactly when it is a transitive dependent of a node at
   which the filter answered Break. *)
From HW Require Import lib.Base lib.SMap model.Dag proofs.DagBase proofs.DagTraverse proofs.DagBfs.
From Coq Require Import Sorted Relations.

Inductive subseq {A} : list A -> list A -> Prop :=
| subseq_nil l : subseq [] l
| subseq_skip x s l : subseq s l -> subseq s (x :: l)
| subseq_take x s l : subseq s l -> subseq (x :: s) (x :: l).

Lemma subseq_incl {A} (s l : list A) x : subseq s l -> In x s -> In x l.
Proof.
  induction 1 as [l|y s l _ IH|y s l _ IH]; simpl; intros Hin; [tauto | auto |].
  destruct Hin; auto.
Qed.

Lemma subseq_NoDup {A} (s l : list A) : subseq s l -> NoDup l -> NoDup s.
Proof.
  induction 1 as [l|y s l Hs IH|y s l Hs IH]; intros Hnd; [constructor | |];
    inversion Hnd; subst; auto.
  constructor; auto. intros Hin. eapply subseq_incl in Hin; eauto.
Qed.

(** relative order is inherited by subsequences of duplicate-free lists *)
Lemma subseq_before (s l : list N) x y : subseq s l -> NoDup l ->
  In x s -> In y s -> before l x y -> before s x y.
Proof.
  induction 1 as [l|z s l Hs IH|z s l Hs IH]; intros Hnd Hx Hy Hb; [destruct Hx | |].
  - inversion Hnd as [|? ? Hz Hndl]; subst. apply IH; auto.
    destruct Hb as [l1 [l2 [E Hy2]]]. destruct l1 as [|w l1]; simpl in E; inversion E; subst.
    + exfalso. apply Hz. eapply subseq_incl; eauto.
    + exists l1, l2. auto.
  - inversion Hnd as [|? ? Hz Hndl]; subst. destruct Hb as [l1 [l2 [E Hy2]]].
    destruct l1 as [|w l1]; simpl in E; inversion E; subst.
    + exists [], s. split; [reflexivity|].
      destruct Hy as [Hy|Hy]; [subst; contradiction | exact Hy].
    + assert (Hxl : In x (l1 ++ x :: l2)) by (apply in_or_app; right; left; reflexivity).
      assert (Hyl : In y (l1 ++ x :: l2)) by (apply in_or_app; right; right; exact Hy2).
      assert (Hxs : In x s) by (destruct Hx as [Hx|Hx]; [subst; contradiction | exact Hx]).
      assert (Hys : In y s) by (destruct Hy as [Hy|Hy]; [subst; contradiction | exact Hy]).
      destruct (IH Hndl Hxs Hys) as [m1 [m2 [-> Hm]]]; [exists l1, l2; auto|].
      exists (w :: m1), m2. auto.
Qed.

Section Fold.
Context {V A : Type}.
Implicit Types (g : dag V) (nd : node V).

(** the log is a faithful record of successive filter calls starting from [acc] *)
Inductive log_run g (filter : A -> N -> node V -> flow * A) : A -> list (N * flow) -> A -> Prop :=
| run_nil acc : log_run g filter acc [] acc
| run_cons acc k nd log a :
    lookup k (graph g) = Some nd ->
    log_run g filter (snd (filter acc k nd)) log a ->
    log_run g filter acc ((k, fst (filter acc k nd)) :: log) a.

Definition broke (log : list (N * flow)) (b : N) : Prop := In (b, Break) log.

Lemma closed_order_head_irrefl g k l : closed_order g (k :: l) -> NoDup (k :: l) -> ~ desc g k k.
Proof.
  intros [Hk Hc] Hnd Hd. inversion Hnd as [|? ? Hnk _]; subst. apply Hnk.
  apply desc_reach in Hd. destruct Hd as [d [He Hr]].
  eapply closed_order_reach; [exact Hc | apply Hk; exact He | exact Hr].
Qed.

Lemma fold_loop_spec g filter : dag_shape g ->
  forall order skip acc, sorted skip -> NoDup order -> closed_order g order ->
  exists a log, fold_loop g filter order skip acc = Some (a, log) /\
    subseq (map fst log) order /\ log_run g filter acc log a /\
    forall k, In k order ->
      (In k (map fst log) <->
       (in_graph g k /\ sset_mem k skip = false /\ ~ exists b, broke log b /\ desc g b k)).
Proof.
  intros Hs order. induction order as [|next rest IH]; intros skip acc Hsk Hnd Hcl.
  - exists acc, []. simpl. split; [reflexivity|]. split; [constructor|]. split; [constructor | tauto].
  - pose proof Hnd as Hnd0. pose proof Hcl as Hcl0.
    inversion Hnd as [|? ? Hnext Hnd']; subst. destruct Hcl as [Hdn Hcl'].
    assert (Hlater : forall lg b, subseq (map fst lg) rest -> broke lg b -> ~ desc g b next).
    { intros lg b Hsub Hb. eapply closed_order_desc_later; [exact Hcl0 | exact Hnd0 |].
      eapply subseq_incl; [exact Hsub|]. apply in_map_iff. exists (b, Break). auto. }
    cbn [fold_loop].
    (* the two "not handed to the filter" cases share their argument *)
    assert (Hskipcase : forall (Hno : ~ (in_graph g next /\ sset_mem next skip = false)),
      exists a log, fold_loop g filter rest skip acc = Some (a, log) /\
        subseq (map fst log) (next :: rest) /\ log_run g filter acc log a /\
        forall k, In k (next :: rest) ->
          (In k (map fst log) <->
           (in_graph g k /\ sset_mem k skip = false /\ ~ exists b, broke log b /\ desc g b k))).
    { intros Hno. destruct (IH skip acc Hsk Hnd' Hcl') as [a [log [E [Hsub [Hrun Hiff]]]]].
      exists a, log. split; [exact E|]. split; [constructor; exact Hsub|]. split; [exact Hrun|].
      intros k [<-|Hk]; [|apply Hiff; exact Hk]. split.
      - intros Hin. exfalso. apply Hnext. eapply subseq_incl; eassumption.
      - intros [H1 [H2 _]]. exfalso. apply Hno. auto. }
    destruct (sset_mem next skip) eqn:Em.
    { apply Hskipcase. intros [_ H]. discriminate. }
    destruct (lookup next (graph g)) as [nd|] eqn:El.
    2:{ apply Hskipcase. intros [H _]. apply H. exact El. }
    clear Hskipcase.
    assert (Hng : in_graph g next) by (unfold in_graph; congruence).
    destruct (fst (filter acc next nd)) eqn:Ef.
    + (* Continue *)
      destruct (IH skip (snd (filter acc next nd)) Hsk Hnd' Hcl') as [a [lg [E [Hsub [Hrun Hiff]]]]].
      rewrite E. simpl. exists a, ((next, Continue) :: lg). split; [reflexivity|].
      split; [simpl; constructor; exact Hsub|].
      split; [rewrite <- Ef; econstructor; eassumption|].
      intros k Hk. simpl map. split.
      * intros [<-|Hin].
        -- split; [exact Hng|]. split; [exact Em|]. intros [b [[Hb|Hb] Hd]]; [inversion Hb|].
           eapply Hlater; eassumption.
        -- destruct Hk as [<-|Hk]; [exfalso; apply Hnext; eapply subseq_incl; eassumption|].
           apply (Hiff k Hk) in Hin. destruct Hin as [H1 [H2 H3]]. split; [exact H1|]. split; [exact H2|].
           intros [b [[Hb|Hb] Hd]]; [inversion Hb|]. apply H3. exists b. auto.
      * intros [H1 [H2 H3]]. destruct Hk as [<-|Hk]; [left; reflexivity|]. right.
        apply (Hiff k Hk). split; [exact H1|]. split; [exact H2|].
        intros [b [Hb Hd]]. apply H3. exists b. split; [right; exact Hb | exact Hd].
    + (* Break: the transitive dependents of next are added to the skip set *)
      destruct (descendants_spec g next nd Hs El) as [ds [Eds Hds]]. rewrite Eds. cbn [obind].
      assert (Hsk' : sorted (sset_extend ds skip)) by (apply sorted_sset_extend; exact Hsk).
      destruct (IH (sset_extend ds skip) (snd (filter acc next nd)) Hsk' Hnd' Hcl')
        as [a [lg [E [Hsub [Hrun Hiff]]]]].
      rewrite E. simpl. exists a, ((next, Break) :: lg). split; [reflexivity|].
      split; [simpl; constructor; exact Hsub|].
      split; [rewrite <- Ef; econstructor; eassumption|].
      assert (Hskip' : forall k, sset_mem k (sset_extend ds skip) = false <->
                                 (~ desc g next k /\ sset_mem k skip = false)).
      { intros k. rewrite <- Bool.not_true_iff_false, sset_mem_extend by exact Hsk. rewrite Hds.
        destruct (sset_mem k skip); intuition congruence. }
      intros k Hk. simpl map. split.
      * intros [<-|Hin].
        -- split; [exact Hng|]. split; [exact Em|]. intros [b [[Hb|Hb] Hd]].
           ++ inversion Hb; subst b. eapply closed_order_head_irrefl; eassumption.
           ++ eapply Hlater; eassumption.
        -- destruct Hk as [<-|Hk]; [exfalso; apply Hnext; eapply subseq_incl; eassumption|].
           apply (Hiff k Hk) in Hin. destruct Hin as [H1 [H2 H3]]. apply Hskip' in H2.
           split; [exact H1|]. split; [tauto|].
           intros [b [[Hb|Hb] Hd]]; [inversion Hb; subst b; tauto|]. apply H3. exists b. auto.
      * intros [H1 [H2 H3]]. destruct Hk as [<-|Hk]; [left; reflexivity|]. right.
        apply (Hiff k Hk). split; [exact H1|]. split.
        -- apply Hskip'. split; [|exact H2]. intros Hd. apply H3. exists next. split; [left; reflexivity | exact Hd].
        -- intros [b [Hb Hd]]. apply H3. exists b. split; [right; exact Hb | exact Hd].
Qed.

(** `fold` on a well-formed graph with sorted roots. [order] is the traversal
    order the function computes first; [log] the calls made to the filter. *)
Theorem fold_spec g rts (acc : A) filter : dag_wf g -> strictly_ascending rts = true ->
  exists order a log,
    fold_order g rts = Some order /\ dag_fold_log g rts acc filter = Done (a, log) /\
    (* the traversal order: duplicate-free, every node before all its dependents,
       made of the start nodes and everything reachable from them *)
    NoDup order /\ closed_order g order /\
    (forall k, In k order <-> exists s, In s rts /\ reach g s k) /\
    (* the filter sees a subsequence of it … *)
    subseq (map fst log) order /\ log_run g filter acc log a /\
    (* … namely every node of the graph in it that is not a transitive
       dependent of a node where the filter answered Break *)
    (forall k, In k order ->
       (In k (map fst log) <-> (in_graph g k /\ ~ exists b, broke log b /\ desc g b k))).
Proof.
  intros [Hs [r Hr]] Hasc.
  destruct (traverse_spec g visit_children r (visit_children_ok g) Hr (rev rts))
    as [order [Eo [Hnd [Hcl [Hin Hreach]]]]].
  destruct (fold_loop_spec g filter Hs order [] acc sorted_nil Hnd Hcl) as [a [log [E [Hsub [Hrun Hiff]]]]].
  exists order, a, log. unfold dag_fold_log, fold_order. rewrite Hasc. fold (fold_order g rts).
  unfold fold_order. rewrite Eo. cbn [obind]. rewrite E.
  split; [reflexivity|]. split; [reflexivity|]. split; [exact Hnd|]. split; [exact Hcl|].
  split; [|split; [exact Hsub|split; [exact Hrun|]]].
  - intros k. split.
    + intros Hk. destruct (Hreach k Hk) as [s [Hs' Hrs]]. exists s. split; [apply in_rev; exact Hs' | exact Hrs].
    + intros [s [Hs' Hrs]]. eapply closed_order_reach; [exact Hcl | apply Hin, in_rev; rewrite rev_involutive; exact Hs' | exact Hrs].
  - intros k Hk. rewrite (Hiff k Hk). split; [tauto|]. intros [H1 H2]. split; [exact H1|]. split; [reflexivity | exact H2].
Qed.

Lemma fold_panics_iff g rts (acc : A) filter :
  dag_fold_log g rts acc filter = Panicked <-> strictly_ascending rts = false.
Proof.
  unfold dag_fold_log. destruct (strictly_ascending rts); split; try congruence.
  destruct (obind _ _); discriminate.
Qed.

(** visited nodes respect dependencies: a visited node comes after each of its
    visited dependencies *)
Corollary fold_order_respects g rts (acc : A) filter a log : dag_wf g ->
  dag_fold_log g rts acc filter = Done (a, log) ->
  NoDup (map fst log) /\
  forall x y, In x (map fst log) -> In y (map fst log) -> depends g x y -> before (map fst log) y x.
Proof.
  intros Hwf E.
  assert (Hasc : strictly_ascending rts = true).
  { destruct (strictly_ascending rts) eqn:Ha; [reflexivity|].
    apply (fold_panics_iff g rts acc filter) in Ha. congruence. }
  destruct (fold_spec g rts acc filter Hwf Hasc) as [order [a' [log' [_ [E' [Hnd [Hcl [_ [Hsub _]]]]]]]]].
  rewrite E in E'. inversion E'; subst a' log'.
  split; [eapply subseq_NoDup; eassumption|].
  intros x y Hx Hy Hd. eapply subseq_before; try eassumption.
  apply (closed_order_before g order y x Hcl).
  - eapply subseq_incl; eassumption.
  - apply depends_edge; [apply Hwf | exact Hd|].
    pose proof (subseq_incl _ _ _ Hsub Hy) as Hyo.
    (* y was handed to the filter, hence is a node *)
    clear - E Hy Hwf Hasc.
    destruct (fold_spec g rts acc filter Hwf Hasc) as [order [a' [log' [_ [E' [_ [_ [_ [Hsub [_ Hiff]]]]]]]]]].
    rewrite E in E'. inversion E'; subst a' log'.
    apply (Hiff y (subseq_incl _ _ _ Hsub Hy)) in Hy. tauto.
Qed.

End Fold.
