(* CobOpsProofs.v — C06 for the object types:
   - applying an operation to a copy and committing on success is atomic,
     whatever the actions do ([commit_op_atomic]); the issue model has this
     shape: [issue_apply_atomic], and ignores its siblings: [issue_apply_blind];
   - the code as it was before the fix (actions applied in place) is not
     atomic and leaves a trace: [issue_inplace_refuted];
   - an `apply` that looks at its concurrent entries the way `Identity::op`
     does breaks the property: [sib_refuted]. *)
From HW Require Import lib.Base lib.SMap model.Dag model.ChangeGraph model.CobOps
  proofs.DagBase proofs.DagRemove proofs.DagPrune proofs.ChangeGraphBuild proofs.ChangeGraphEval.

(* ------------------------------------------------------------------ *)
(** * apply-to-a-copy is atomic, for any action semantics *)

Section Commit.
Context {S A E : Type}.
(* one action on the state: Some = Ok, None = Err (having done anything to its copy) *)
Variable step : S -> A -> E -> option S.
Variable actions : E -> list A.

Fixpoint run_steps (s : S) (acts : list A) (e : E) : option S :=
  match acts with
  | [] => Some s
  | a :: rest => match step s a e with Some s1 => run_steps s1 rest e | None => None end
  end.

(* `let mut copy = self.clone(); for a in actions { copy.action(a)?; } *self = copy; Ok(())` *)
Definition commit_op (s : S) (e : E) : bool * S :=
  match run_steps s (actions e) e with Some s1 => (true, s1) | None => (false, s) end.

Lemma commit_op_atomic s e : fst (commit_op s e) = false -> snd (commit_op s e) = s.
Proof. unfold commit_op. destruct (run_steps s (actions e) e); [discriminate | reflexivity]. Qed.
End Commit.

(* ------------------------------------------------------------------ *)
(** * the issue model *)

Lemma issue_apply_atomic : atomic issue_apply.
Proof.
  intros s k e sibs. unfold issue_apply. destruct (i_panicked s); [discriminate|].
  destruct (e_payload e) as [acts|]; [|reflexivity].
  destruct (run_actions s acts k (e_author e)) as [s1|s1]; [discriminate|].
  destruct (i_panicked s1); [discriminate | reflexivity].
Qed.

Lemma issue_apply_blind : sibling_blind issue_apply.
Proof. intros s k e l l'. reflexivity. Qed.

Local Open Scope N_scope.

(* root: comment + title 0; then one operation [title := 7; title := invalid] *)
Definition inplace_store : cstore ipayload :=
  mk_istore [(1, ([], 10, 0, true, 0, Some [AComment true 0 None; AEdit 0 true]));
             (2, ([1], 11, 0, true, 0, Some [AEdit 7 true; AEdit 8 false]))].

Lemma issue_inplace_not_atomic : ~ atomic issue_apply_inplace.
Proof.
  intros H.
  set (s := mkIssue [] 0 0 [] [(1, Some (mkComment 0 None 0 1 []))] [1] false).
  set (e := mkEntry [1] 11 0 true 0 (Some [AEdit 7 true; AEdit 8 false])).
  specialize (H s 2 e [] eq_refl). vm_compute in H. discriminate.
Qed.

(** the defect: with actions applied in place, the rejected operation 2 is
    dropped from the history but its first action stays in the state — the
    title is 7, while the history without the rejected operation gives 0 *)
Lemma issue_inplace_refuted :
  exists st tips oid m a h log a',
    get issue_init issue_apply_inplace st tips oid = GEval (EvOk m a h log) /\
    map fst (graph h) = [1] /\ i_title a = 7 /\
    (exists log', evaluate issue_init issue_apply_inplace oid h = EvOk m a' h log') /\ i_title a' = 0 /\
    a <> a'.
Proof.
  exists inplace_store, [2], 1.
  destruct (get issue_init issue_apply_inplace inplace_store [2] 1) as [| |[| | | | |m a h log]] eqn:E;
    try (vm_compute in E; discriminate).
  destruct (evaluate issue_init issue_apply_inplace 1 h) as [| | | | |m' a' h' log'] eqn:E';
    try (vm_compute in E; inversion E; subst; vm_compute in E'; discriminate).
  exists m, a, h, log, a'.
  vm_compute in E. inversion E; subst. vm_compute in E'. inversion E'; subst.
  split; [reflexivity|]. split; [reflexivity|]. split; [reflexivity|]. split; [eexists; reflexivity|].
  split; [reflexivity | discriminate].
Qed.

(** the same history under the fixed code: no trace *)
Lemma issue_fixed_example :
  exists m a h log, get issue_init issue_apply inplace_store [2] 1 = GEval (EvOk m a h log) /\
    map fst (graph h) = [1] /\ i_title a = 0.
Proof. eexists _, _, _, _. split; [vm_compute; reflexivity|]. split; reflexivity. Qed.

(* ------------------------------------------------------------------ *)
(** * sibling-dependent apply (`Identity::op`) *)

Lemma sib_apply_atomic : atomic sib_apply.
Proof.
  intros s k e sibs. unfold sib_apply. destruct (e_payload e); [discriminate|].
  destruct sibs; [reflexivity | discriminate].
Qed.

Lemma sib_not_blind : ~ sibling_blind sib_apply.
Proof.
  intros H. specialize (H [] 1 (mkEntry [] 0 0 true 0 false) [] [(2, mkEntry [] 0 0 true 0 false)]).
  vm_compute in H. discriminate.
Qed.

(* root 1; two concurrent children: 3 finds the state unexpected, 2 has an
   invalid signature.  3 is evaluated first, sees the sibling 2 and is kept;
   then 2 is rejected.  Without 2, the operation 3 is rejected. *)
Definition sib_store : cstore bool :=
  [(1, mkEntry [] 10 0 true 0 true); (2, mkEntry [1] 11 1 false 0 true); (3, mkEntry [1] 11 1 true 0 false)].

Lemma sib_refuted :
  exists st tips oid m a h log a' h',
    get sib_init sib_apply st tips oid = GEval (EvOk m a h log) /\
    a = [1; 3] /\ map fst (graph h) = [1; 3] /\
    (exists log', evaluate sib_init sib_apply oid h = EvOk m a' h' log') /\
    a' = [1] /\ map fst (graph h') = [1].
Proof.
  exists sib_store, [2; 3], 1.
  destruct (get sib_init sib_apply sib_store [2; 3] 1) as [| |[| | | | |m a h log]] eqn:E;
    try (vm_compute in E; discriminate).
  destruct (evaluate sib_init sib_apply 1 h) as [| | | | |m' a' h' log'] eqn:E';
    try (vm_compute in E; inversion E; subst; vm_compute in E'; discriminate).
  exists m, a, h, log, a', h'.
  vm_compute in E. inversion E; subst. vm_compute in E'. inversion E'; subst.
  split; [reflexivity|]. split; [reflexivity|]. split; [reflexivity|]. split; [eexists; reflexivity|].
  split; reflexivity.
Qed.

(* ------------------------------------------------------------------ *)
(** * C06 on `get`: from the store *)

Section GetEquiv.
Context {P S : Type}.
Variable init : N -> entry P -> option S.
Variable apply : S -> N -> entry P -> list (N * entry P) -> bool * S.

(** evaluating a store: the state and history equal those of the history
    without the rejected changes and their dependents, which evaluates without
    any rejection *)
Theorem get_prune_equiv r (st : cstore P) tips oid m a h log :
  store_ranked r st -> atomic apply -> sibling_blind apply ->
  get init apply st tips oid = GEval (EvOk m a h log) ->
  exists g, load st tips = Loaded g /\ dag_wf g /\ dag_wf h /\
    removed g h (rejected g log) /\
    (forall g', dag_shape g' -> removed g g' (rejected g log) -> g' = h) /\
    exists log', evaluate init apply oid h = EvOk m a h log' /\ all_continue log' /\
      pkeys log' = accepted_keys log.
Proof.
  intros Hr Ha Hb Hg. unfold get in Hg. destruct (load st tips) as [| |g] eqn:El; try discriminate.
  inversion Hg as [Hev]. clear Hg. pose proof (load_wf r st tips g Hr El) as Hwf.
  destruct (prune_equiv init apply Ha Hb oid g m a h log Hwf Hev) as [Hwfh [Hrm [log' [E [Hall Hk]]]]].
  exists g. split; [reflexivity|]. split; [exact Hwf|]. split; [exact Hwfh|]. split; [exact Hrm|]. split.
  - intros g' Hs' Hrm'. eapply removed_unique; [exact Hrm' | exact Hrm | exact Hs' | apply Hwfh].
  - exists log'. auto.
Qed.
End GetEquiv.
