(* DagBfs.v — the work-list loops `descendants_of` / `ancestors_of` ([bfs]):
   the supplied fuel always suffices, and the result is exactly the set of
   nodes reachable from the start keys.  For `descendants_of` on a graph with
   symmetric edges this is the set of transitive dependents. *)
From HW Require Import lib.Base lib.SMap model.Dag proofs.DagBase.
From Coq Require Import Sorted Relations.

Section Bfs.
Context {V : Type}.
Variable next : node V -> sset.
Variable g : dag V.

Lemma bfs_unfold fuel queue vis nodes :
  bfs next fuel g queue vis nodes =
  match queue with
  | [] => Some nodes
  | key :: q =>
      match fuel with
      | O => None
      | S f =>
          match lookup key (graph g) with
          | Some nd =>
              if sset_mem key vis then bfs next f g q vis nodes
              else bfs next f g (q ++ sset_elems (next nd)) (sset_add key vis) (nodes ++ [key])
          | None => bfs next f g q vis nodes
          end
      end
  end.
Proof. destruct fuel; destruct queue; reflexivity. Qed.

(* ---------------------------------------------------------------- fuel *)

Fixpoint pending_l (m : smap (node V)) (vis : sset) : nat :=
  match m with
  | [] => O
  | (k, n) :: m' => ((if sset_mem k vis then O else length (next n)) + pending_l m' vis)%nat
  end.

Lemma pending_nil m : pending_l m [] = fold_right (fun kn n => (length (next (snd kn)) + n)%nat) O m.
Proof. induction m as [|[k n] m IH]; simpl; [reflexivity|]. rewrite IH. reflexivity. Qed.

Lemma pending_mono m vis key : sorted vis ->
  (pending_l m (sset_add key vis) <= pending_l m vis)%nat.
Proof.
  intros Hs. induction m as [|[k n] m IH]; simpl; [lia|].
  rewrite sset_mem_add by exact Hs. destruct (N.eqb k key); simpl; destruct (sset_mem k vis); lia.
Qed.

Lemma pending_add m vis key nd : sorted vis ->
  lookup key m = Some nd -> sset_mem key vis = false ->
  (pending_l m (sset_add key vis) + length (next nd) <= pending_l m vis)%nat.
Proof.
  intros Hs. induction m as [|[k n] m IH]; simpl; intros Hl Hm; [discriminate|].
  rewrite sset_mem_add by exact Hs. destruct (N.eqb_spec key k) as [->|Hne].
  - inversion Hl; subst n. rewrite N.eqb_refl, Hm. simpl.
    pose proof (pending_mono m vis k Hs). lia.
  - destruct (N.eqb_spec k key); [congruence|]. simpl. specialize (IH Hl Hm).
    destruct (sset_mem k vis); lia.
Qed.

Lemma bfs_total : forall fuel queue vis nodes, sorted vis ->
  (length queue + pending_l (graph g) vis < fuel)%nat ->
  exists r, bfs next fuel g queue vis nodes = Some r.
Proof.
  induction fuel as [|f IH]; intros queue vis nodes Hs Hlt; [lia|].
  rewrite bfs_unfold. destruct queue as [|key q]; [eauto|]. simpl in Hlt.
  destruct (lookup key (graph g)) as [nd|] eqn:El.
  - destruct (sset_mem key vis) eqn:Em.
    + apply IH; [exact Hs | lia].
    + apply IH; [apply sorted_sset_add; exact Hs|].
      rewrite app_length. unfold sset_elems, keys. rewrite map_length.
      pose proof (pending_add (graph g) vis key nd Hs El Em). lia.
  - apply IH; [exact Hs | lia].
Qed.

(* ---------------------------------------------------------------- result *)

(** one step of the loop: from a node of the graph to a key in its [next] set
    that is itself a node *)
Definition gstep (k d : N) : Prop :=
  exists nd, lookup k (graph g) = Some nd /\ sset_mem d (next nd) = true /\ in_graph g d.
Definition greach : N -> N -> Prop := clos_refl_trans_1n N gstep.

Variable init : list N.
Definition target (x : N) : Prop := exists q0, In q0 init /\ in_graph g q0 /\ greach q0 x.

Lemma greach_step_r a b c : greach a b -> gstep b c -> greach a c.
Proof.
  intros H1 H2. induction H1 as [|a d b He _ IH]; [econstructor; [exact H2 | constructor]|].
  econstructor; [exact He | apply IH; exact H2].
Qed.

Lemma target_step x d : target x -> gstep x d -> target d.
Proof. intros [q0 [Hi [Hg Hr]]] Hs. exists q0. repeat split; auto. eapply greach_step_r; eassumption. Qed.

Record bfs_inv (queue : list N) (vis : sset) (nodes : list N) : Prop := {
  bi_sorted : sorted vis;
  bi_vis : forall x, sset_mem x vis = true <-> In x nodes;
  bi_nodes : forall x, In x nodes -> target x;
  bi_queue : forall x, In x queue -> in_graph g x -> target x;
  bi_closed : forall x d, In x nodes -> gstep x d -> In d nodes \/ In d queue;
  bi_init : forall q0, In q0 init -> in_graph g q0 -> In q0 nodes \/ In q0 queue;
}.

Lemma bfs_spec : forall fuel queue vis nodes r,
  bfs next fuel g queue vis nodes = Some r -> bfs_inv queue vis nodes ->
  forall x, In x r <-> target x.
Proof.
  induction fuel as [|f IH]; intros queue vis nodes r E Hinv.
  - rewrite bfs_unfold in E. destruct queue as [|key q]; [|discriminate]. inversion E; subst r.
    destruct Hinv as [_ _ Hn _ Hc Hi]. intros x. split; [apply Hn|].
    intros [q0 [Hq0 [Hg Hr]]].
    assert (H0 : In q0 nodes) by (destruct (Hi q0 Hq0 Hg) as [H|[]]; exact H).
    clear Hq0 Hg. induction Hr as [|a b x Hs _ IHr]; [exact H0|].
    apply IHr. destruct (Hc a b H0 Hs) as [H|[]]. exact H.
  - rewrite bfs_unfold in E. destruct queue as [|key q].
    + inversion E; subst r.
      destruct Hinv as [_ _ Hn _ Hc Hi]. intros x. split; [apply Hn|].
      intros [q0 [Hq0 [Hg Hr]]].
      assert (H0 : In q0 nodes) by (destruct (Hi q0 Hq0 Hg) as [H|[]]; exact H).
      clear Hq0 Hg. induction Hr as [|a b x Hs _ IHr]; [exact H0|].
      apply IHr. destruct (Hc a b H0 Hs) as [H|[]]. exact H.
    + destruct Hinv as [Hs Hv Hn Hq Hc Hi].
      destruct (lookup key (graph g)) as [nd|] eqn:El.
      * destruct (sset_mem key vis) eqn:Em.
        -- (* already visited: drop it *)
           apply (IH q vis nodes r E). constructor; auto.
           ++ intros x Hx. apply Hq. right. exact Hx.
           ++ intros x d Hx Hst. destruct (Hc x d Hx Hst) as [H|[<-|H]]; auto.
              left. apply Hv. exact Em.
           ++ intros q0 H0 Hg. destruct (Hi q0 H0 Hg) as [H|[<-|H]]; auto.
              left. apply Hv. exact Em.
        -- (* first visit *)
           assert (Hkg : in_graph g key) by (unfold in_graph; congruence).
           assert (Hkt : target key) by (apply Hq; [left; reflexivity | exact Hkg]).
           apply (IH _ _ _ r E). constructor.
           ++ apply sorted_sset_add. exact Hs.
           ++ intros x. rewrite sset_mem_add by exact Hs. rewrite orb_true_iff, N.eqb_eq, in_app_iff, Hv.
              simpl. intuition congruence.
           ++ intros x Hx. apply in_app_or in Hx. destruct Hx as [Hx|[<-|[]]]; [apply Hn; exact Hx | exact Hkt].
           ++ intros x Hx Hg. apply in_app_or in Hx. destruct Hx as [Hx|Hx].
              ** apply Hq; [right; exact Hx | exact Hg].
              ** apply (target_step key x Hkt). exists nd. split; [exact El|].
                 split; [apply sset_mem_elems; exact Hx | exact Hg].
           ++ intros x d Hx Hst. apply in_app_or in Hx. destruct Hx as [Hx|[<-|[]]].
              ** destruct (Hc x d Hx Hst) as [H|[<-|H]].
                 --- left. apply in_or_app. left. exact H.
                 --- left. apply in_or_app. right. left. reflexivity.
                 --- right. apply in_or_app. left. exact H.
              ** destruct Hst as [nd' [El' [Hm _]]]. rewrite El in El'. inversion El'; subst nd'.
                 right. apply in_or_app. right. apply sset_mem_elems. exact Hm.
           ++ intros q0 H0 Hg. destruct (Hi q0 H0 Hg) as [H|[<-|H]].
              ** left. apply in_or_app. left. exact H.
              ** left. apply in_or_app. right. left. reflexivity.
              ** right. apply in_or_app. left. exact H.
      * (* not a node: drop it *)
        apply (IH q vis nodes r E). constructor; auto.
        -- intros x Hx. apply Hq. right. exact Hx.
        -- intros x d Hx Hst. destruct (Hc x d Hx Hst) as [H|[<-|H]]; auto.
           destruct Hst as [_ [_ [_ Hg]]]. exfalso. apply Hg. exact El.
        -- intros q0 H0 Hg. destruct (Hi q0 H0 Hg) as [H|[<-|H]]; auto.
           exfalso. apply Hg. exact El.
Qed.

End Bfs.

Section Descendants.
Context {V : Type}.
Implicit Types (g : dag V) (nd : node V).

Lemma bfs_from_total next g nd :
  exists r, bfs next (bfs_fuel next g nd) g (sset_elems (next nd)) [] [] = Some r.
Proof.
  apply bfs_total; [apply sorted_nil|]. unfold bfs_fuel, total_size. rewrite pending_nil.
  unfold sset_elems, keys. rewrite map_length. lia.
Qed.

Lemma bfs_from_spec next g nd r :
  bfs next (bfs_fuel next g nd) g (sset_elems (next nd)) [] [] = Some r ->
  forall x, In x r <-> target next g (sset_elems (next nd)) x.
Proof.
  intros E. apply (bfs_spec next g _ _ _ _ _ r E). constructor; simpl; try tauto.
  - apply sorted_nil.
  - intros x. split; [discriminate | tauto].
  - intros x Hx Hg. exists x. repeat split; auto. constructor.
Qed.

Lemma descendants_total g nd : exists ds, descendants_of g nd = Some ds.
Proof. apply bfs_from_total. Qed.

Lemma ancestors_total g nd : exists ds, ancestors_of g nd = Some ds.
Proof. apply bfs_from_total. Qed.

Lemma siblings_total g key nd : exists l, siblings_of g key nd = Some l.
Proof.
  unfold siblings_of. destruct (ancestors_total g nd) as [a ->]. destruct (descendants_total g nd) as [d ->].
  simpl. eauto.
Qed.

Lemma gstep_dpts_edge g k d : dag_shape g -> gstep ndpts g k d <-> edge g k d.
Proof.
  intros Hs. split.
  - intros [nd [El [Hm _]]]. exists nd. auto.
  - intros He. pose proof (edge_target g k d Hs He) as Hd. destruct He as [nd [El Hm]].
    exists nd. auto.
Qed.

Lemma greach_dpts_reach g k x : dag_shape g -> greach ndpts g k x <-> reach g k x.
Proof.
  intros Hs. split; intros H; induction H as [|a b x He _ IH]; try constructor;
    (econstructor; [apply (gstep_dpts_edge g a b Hs); exact He | exact IH]).
Qed.

(** `descendants_of(node k)` is exactly the set of transitive dependents of k *)
Theorem descendants_spec g k nd : dag_shape g -> lookup k (graph g) = Some nd ->
  exists ds, descendants_of g nd = Some ds /\ forall x, In x ds <-> desc g k x.
Proof.
  intros Hs El. destruct (descendants_total g nd) as [ds E]. exists ds. split; [exact E|].
  intros x. unfold descendants_of in E. rewrite (bfs_from_spec ndpts g nd ds E x).
  rewrite desc_reach. split.
  - intros [q0 [Hq [_ Hr]]]. exists q0. split; [exists nd; split; [exact El | apply sset_mem_elems; exact Hq]|].
    apply greach_dpts_reach; assumption.
  - intros [d [He Hr]]. exists d. pose proof (edge_target g k d Hs He) as Hd.
    destruct He as [nd' [El' Hm]]. rewrite El in El'. inversion El'; subst nd'.
    split; [apply sset_mem_elems; exact Hm|]. split; [exact Hd|]. apply greach_dpts_reach; assumption.
Qed.

Lemma gstep_deps_edge g k d : dag_shape g -> gstep ndeps g k d <-> edge g d k.
Proof.
  intros Hs. rewrite (shape_dpts g Hs d k). unfold depends. split.
  - intros [nd [El [Hm Hd]]]. split; [exact Hd | exists nd; auto].
  - intros [Hd [nd [El Hm]]]. exists nd. auto.
Qed.

Lemma greach_deps_reach g k x : dag_shape g -> greach ndeps g k x <-> reach g x k.
Proof.
  intros Hs. split.
  - intros H. induction H as [|k d x He _ IH]; [constructor|].
    eapply reach_step_r; [exact IH | apply (gstep_deps_edge g k d Hs); exact He].
  - intros H. induction H as [|x y k He _ IH]; [constructor|].
    eapply greach_step_r; [exact IH | apply (gstep_deps_edge g y x Hs); exact He].
Qed.

Lemma desc_reach_r g x k : desc g x k <-> exists q, reach g x q /\ edge g q k.
Proof.
  split.
  - induction 1 as [x k He|x y k He _ IH].
    + exists x. split; [constructor | exact He].
    + destruct IH as [q [Hr Hq]]. exists q. split; [econstructor; eassumption | exact Hq].
  - intros [q [Hr He]]. induction Hr as [|x y q Hxy _ IH].
    + constructor. exact He.
    + eapply Relation_Operators.t1n_trans; [exact Hxy | apply IH; exact He].
Qed.

(** `ancestors_of(node k)`: the nodes of which k is a transitive dependent *)
Theorem ancestors_spec g k nd : dag_shape g -> lookup k (graph g) = Some nd ->
  exists anc, ancestors_of g nd = Some anc /\ forall x, In x anc <-> desc g x k.
Proof.
  intros Hs El. destruct (ancestors_total g nd) as [anc E]. exists anc. split; [exact E|].
  intros x. unfold ancestors_of in E. rewrite (bfs_from_spec ndeps g nd anc E x).
  rewrite desc_reach_r. split.
  - intros [q0 [Hq [Hg Hr]]]. exists q0. split; [apply greach_deps_reach; assumption|].
    apply (gstep_deps_edge g k q0 Hs). exists nd. split; [exact El|]. split; [apply sset_mem_elems; exact Hq | exact Hg].
  - intros [q [Hr He]]. exists q. apply (gstep_deps_edge g k q Hs) in He.
    destruct He as [nd' [El' [Hm Hg]]]. rewrite El in El'. inversion El'; subst nd'.
    split; [apply sset_mem_elems; exact Hm|]. split; [exact Hg|]. apply greach_deps_reach; assumption.
Qed.

(** `siblings_of(node k)`: the nodes that are neither k, nor above, nor below it *)
Theorem siblings_spec g k nd : dag_shape g -> lookup k (graph g) = Some nd ->
  exists sib, siblings_of g k nd = Some sib /\
    forall x, In x sib <-> (in_graph g x /\ x <> k /\ ~ desc g x k /\ ~ desc g k x).
Proof.
  intros Hs El. destruct (ancestors_spec g k nd Hs El) as [anc [Ea Ha]].
  destruct (descendants_spec g k nd Hs El) as [ds [Ed Hd]].
  unfold siblings_of. rewrite Ea, Ed. cbn [obind]. eexists. split; [reflexivity|].
  intros x. rewrite filter_In, !andb_true_iff, !negb_true_iff, <- in_graph_keys.
  rewrite <- !Bool.not_true_iff_false, !memN_In, Ha, Hd, N.eqb_eq. tauto.
Qed.

End Descendants.
