(* SshAgentProofs.v — proofs about coq/model/SshAgent.v (C27). *)
From HW Require Import lib.Base model.SshAgent.
Local Open Scope N_scope.

(* a parser result that is a value or an error: no panic, no divergence *)
Definition safe {A} (r : res A) : Prop :=
  match r with Ok _ | Err _ => True | Panic _ | OutOfFuel => False end.

Lemma safe_bind {A B} (r : res A) (f : A -> res B) :
  safe r -> (forall a, r = Ok a -> safe (f a)) -> safe (r <- r ;; f r).
Proof. destruct r; cbn; intros H K; auto. Qed.

(* ---------- lengths, slices ---------- *)

Lemma len_app a b : len (a ++ b) = len a + len b.
Proof. unfold len. rewrite app_length. lia. Qed.

Lemma len_cons x a : len (x :: a) = 1 + len a.
Proof. unfold len. cbn [length]. lia. Qed.

Lemma skipn_length_app {A} (a b : list A) : skipn (length a) (a ++ b) = b.
Proof. induction a; cbn; auto. Qed.

Lemma firstn_length_app {A} (a b : list A) : firstn (length a) (a ++ b) = a.
Proof. induction a; cbn; [destruct b; reflexivity | f_equal; auto]. Qed.

Lemma slice_some s a b : a <= b -> b <= len s ->
  exists t, slice s a b = Some t /\ len t = b - a.
Proof.
  intros H1 H2. unfold slice.
  destruct (N.leb_spec a b) as [_|H3]; [|lia]. destruct (N.leb_spec b (len s)) as [_|H3]; [|lia]. cbn [andb].
  eexists. split; [reflexivity|].
  unfold len in *. rewrite firstn_length, skipn_length. lia.
Qed.

Lemma slice_app pre x rest :
  slice (pre ++ x ++ rest) (len pre) (len pre + len x) = Some x.
Proof.
  unfold slice.
  destruct (N.leb_spec (len pre) (len pre + len x)) as [_|H0]; [|lia].
  destruct (N.leb_spec (len pre + len x) (len (pre ++ x ++ rest))) as [_|H];
    [|rewrite !len_app in H; lia].
  cbn [andb]. f_equal.
  replace (N.to_nat (len pre)) with (length pre) by (unfold len; lia).
  replace (N.to_nat (len pre + len x - len pre)) with (length x) by (unfold len; lia).
  rewrite skipn_length_app. apply firstn_length_app.
Qed.

Lemma slice_to_end pre t : slice (pre ++ t) (len pre) (len (pre ++ t)) = Some t.
Proof.
  pose proof (slice_app pre t []) as H. rewrite app_nil_r in H.
  rewrite len_app. exact H.
Qed.

(* ---------- u32 ---------- *)

Lemma be32_u32_bytes n rest : n < 4294967296 -> be32 (u32_bytes n ++ rest) = Some n.
Proof.
  intros Hn. unfold u32_bytes, be32. cbn [app]. f_equal.
  rewrite (N.mod_small n 4294967296) by exact Hn.
  pose proof (N.div_mod' n 256) as E0.
  pose proof (N.div_mod' (n / 256) 256) as E1.
  pose proof (N.div_mod' (n / 65536) 256) as E2.
  assert (D1 : n / 256 / 256 = n / 65536) by (rewrite N.div_div by lia; reflexivity).
  assert (D2 : n / 65536 / 256 = n / 16777216) by (rewrite N.div_div by lia; reflexivity).
  assert (S3 : (n / 16777216) < 256) by (apply N.div_lt_upper_bound; lia).
  rewrite D1 in E1. rewrite D2 in E2. lia.
Qed.

Lemma len_u32_bytes n : len (u32_bytes n) = 4.
Proof. reflexivity. Qed.

Lemma len_ssh_string s : len (ssh_string s) = 4 + len s.
Proof. unfold ssh_string. rewrite len_app. reflexivity. Qed.

(* ---------- the cursor never panics ---------- *)

Lemma read_u32_cases c :
  (exists u, read_u32 c = Ok (u, {| cs := cs c; pos := pos c + 4 |}) /\ pos c + 4 <= len (cs c)) \/
  read_u32 c = Err EIndex.
Proof.
  unfold read_u32.
  destruct (N.leb_spec (pos c + 4) (len (cs c))) as [H|H]; [|right; reflexivity].
  left. destruct (slice_some (cs c) (pos c) (len (cs c))) as (t & -> & Ht); [lia|lia|].
  destruct t as [|a [|b [|d [|e t]]]]; try (unfold len in *; cbn [length] in Ht; lia).
  cbn [be32]. eexists. split; [reflexivity | exact H].
Qed.

Lemma read_string_cases c :
  (exists t l, read_string c = Ok (t, {| cs := cs c; pos := pos c + 4 + l |}) /\
               len t = l /\ pos c + 4 + l <= len (cs c)) \/
  read_string c = Err EIndex.
Proof.
  unfold read_string.
  destruct (read_u32_cases c) as [(u & -> & Hu)| -> ]; [|right; reflexivity].
  cbn [bind pos cs].
  destruct (N.leb_spec (pos c + 4 + u) (len (cs c))) as [H|H]; [|right; reflexivity].
  left. destruct (slice_some (cs c) (pos c + 4) (pos c + 4 + u)) as (t & -> & Ht); [lia|lia|].
  exists t, u. split; [reflexivity|]. split; [lia | exact H].
Qed.

Lemma read_byte_cases c :
  (exists b, read_byte c = Ok (b, {| cs := cs c; pos := pos c + 1 |})) \/ read_byte c = Err EIndex.
Proof.
  unfold read_byte.
  destruct (N.ltb_spec (pos c) (len (cs c))) as [H|H]; [|right; reflexivity].
  left. destruct (nth_error (cs c) (N.to_nat (pos c))) as [b|] eqn:E; [eexists; reflexivity|].
  apply nth_error_None in E. unfold len in H. lia.
Qed.

Lemma read_u32_safe c : safe (read_u32 c).
Proof. destruct (read_u32_cases c) as [(u & -> & _)| -> ]; exact I. Qed.
Lemma read_string_safe c : safe (read_string c).
Proof. destruct (read_string_cases c) as [(t & l & -> & _)| -> ]; exact I. Qed.
Lemma read_byte_safe c : safe (read_byte c).
Proof. destruct (read_byte_cases c) as [(b & ->)| -> ]; exact I. Qed.

Lemma from_slice_safe n s : safe (from_slice n s).
Proof. unfold from_slice. destruct (_ =? _); exact I. Qed.

Ltac safe_step :=
  match goal with
  | |- safe (bind (read_string ?c) _) =>
      apply safe_bind; [apply read_string_safe | intros [? ?] _]
  | |- safe (bind (read_u32 ?c) _) =>
      apply safe_bind; [apply read_u32_safe | intros [? ?] _]
  | |- safe (bind (from_slice ?n ?s) _) =>
      apply safe_bind; [apply from_slice_safe | intros ? _]
  | |- safe (if ?b then _ else _) => destruct b
  | |- safe (Ok _) => exact I
  | |- safe (Err _) => exact I
  end.

Lemma pk_read_safe c : safe (pk_read c).
Proof. unfold pk_read. repeat safe_step. Qed.
Lemma sig_read_safe c : safe (sig_read c).
Proof. unfold sig_read. repeat safe_step. Qed.
Lemma sk_read_safe c : safe (sk_read c).
Proof. unfold sk_read. repeat safe_step. Qed.

(* ---------- the client never panics and its loop terminates ---------- *)

Lemma ids_loop_safe : forall fuel n r acc,
  pos r <= len (cs r) -> (N.to_nat (len (cs r) - pos r) < fuel)%nat ->
  safe (ids_loop fuel n r acc).
Proof.
  induction fuel as [|f IH]; intros n r acc Hp Hf; [lia|].
  cbn [ids_loop]. destruct (n =? 0); [exact I|].
  destruct (read_string_cases r) as [(k & l & -> & _ & Hl)| -> ]; [|exact I].
  cbn [bind].
  set (r1 := {| cs := cs r; pos := pos r + 4 + l |}).
  destruct (read_string_cases r1) as [(k2 & l2 & -> & _ & Hl2)| -> ]; [|exact I].
  cbn [bind]. subst r1. cbn [cs pos] in *.
  pose proof (pk_read_safe (reader k 0)) as Hs.
  destruct (pk_read (reader k 0)) as [[pk c']| | |]; try contradiction;
    apply IH; cbn [cs pos]; lia.
Qed.

Theorem request_identities_safe resp : safe (request_identities resp).
Proof.
  unfold request_identities. destruct resp as [|b resp']; [exact I|].
  destruct (b =? IDENTITIES_ANSWER); [|exact I].
  unfold ids_answer.
  destruct (read_u32_cases (reader (b :: resp') 1)) as [(u & -> & Hu)| -> ]; [|exact I].
  cbn [bind]. apply ids_loop_safe; cbn [cs pos reader] in *; [lia|].
  unfold ids_fuel, len in *. lia.
Qed.

Lemma read_signature_safe resp : safe (read_signature resp).
Proof. unfold read_signature, read_signature_with. repeat safe_step. Qed.

Theorem sign_safe resp : safe (sign resp).
Proof.
  unfold sign, sign_with. destruct resp as [|b resp']; [exact I|].
  destruct (b =? SIGN_RESPONSE); [apply read_signature_safe|].
  destruct (b =? FAILURE); exact I.
Qed.

Theorem query_extension_safe resp : safe (query_extension resp).
Proof. unfold query_extension. repeat safe_step. Qed.

(* sign returns exactly 64 bytes or an error *)
Theorem sign_ok_64 resp sg : sign resp = Ok sg -> len sg = 64.
Proof.
  unfold sign, sign_with. destruct resp as [|b resp']; [discriminate|].
  destruct (b =? SIGN_RESPONSE).
  - unfold read_signature, read_signature_with.
    destruct (read_string _) as [[i c]| | |]; cbn [bind]; try discriminate.
    destruct (read_string _) as [[t c1]| | |]; cbn [bind]; try discriminate.
    destruct (read_string _) as [[s c2]| | |]; cbn [bind]; try discriminate.
    destruct (N.eqb_spec (len s) 64); [intros H; injection H as <-; assumption | discriminate].
  - destruct (b =? FAILURE); discriminate.
Qed.

(* every key the client returns is 32 bytes long *)
Lemma pk_read_ok_32 c k c' : pk_read c = Ok (k, c') -> len k = 32.
Proof.
  unfold pk_read.
  destruct (read_string c) as [[t c1]| | |]; cbn [bind]; try discriminate.
  destruct (bytes_eqb t alg); [|discriminate].
  destruct (read_string c1) as [[s c2]| | |]; cbn [bind]; try discriminate.
  unfold from_slice. destruct (N.eqb_spec (len s) 32); cbn [bind]; [|discriminate].
  intros H. injection H as <- _. assumption.
Qed.

(* ---------- round trips ---------- *)

Lemma read_u32_at pre n rest : n < 4294967296 ->
  read_u32 {| cs := pre ++ u32_bytes n ++ rest; pos := len pre |} =
  Ok (n, {| cs := pre ++ u32_bytes n ++ rest; pos := len pre + 4 |}).
Proof.
  intros Hn. unfold read_u32. cbn [cs pos].
  destruct (N.leb_spec (len pre + 4) (len (pre ++ u32_bytes n ++ rest))) as [_|H];
    [|rewrite !len_app, len_u32_bytes in H; lia].
  rewrite slice_to_end, be32_u32_bytes by exact Hn. reflexivity.
Qed.

Lemma read_string_at pre s rest : len s < 4294967296 ->
  read_string {| cs := pre ++ ssh_string s ++ rest; pos := len pre |} =
  Ok (s, {| cs := pre ++ ssh_string s ++ rest; pos := len pre + len (ssh_string s) |}).
Proof.
  intros Hs. unfold read_string, ssh_string. rewrite <- app_assoc.
  rewrite read_u32_at by exact Hs. cbn [bind cs pos].
  destruct (N.leb_spec (len pre + 4 + len s) (len (pre ++ u32_bytes (len s) ++ s ++ rest))) as [_|H];
    [|rewrite !len_app, len_u32_bytes in H; lia].
  replace (len pre + 4) with (len (pre ++ u32_bytes (len s)))
    by (rewrite len_app, len_u32_bytes; reflexivity).
  replace (pre ++ u32_bytes (len s) ++ s ++ rest) with ((pre ++ u32_bytes (len s)) ++ s ++ rest)
    by (rewrite <- app_assoc; reflexivity).
  rewrite slice_app. f_equal. f_equal. f_equal.
  rewrite !len_app, len_u32_bytes. lia.
Qed.

Lemma read_string_at0 s rest : len s < 4294967296 ->
  read_string (reader (ssh_string s ++ rest) 0) =
  Ok (s, {| cs := ssh_string s ++ rest; pos := len (ssh_string s) |}).
Proof. intros H. exact (read_string_at [] s rest H). Qed.

Lemma bytes_eqb_refl s : bytes_eqb s s = true.
Proof. apply list_eqb_spec; [intros; apply N.eqb_eq | reflexivity]. Qed.

Lemma bytes_eqb_eq a b : bytes_eqb a b = true <-> a = b.
Proof. apply list_eqb_spec. intros; apply N.eqb_eq. Qed.

Lemma len_alg : len alg = 11.
Proof. reflexivity. Qed.

(* string: what extend_ssh_string wrote, read_string reads back *)
Theorem string_roundtrip pre s rest : len s < 4294967296 ->
  exists c, read_string {| cs := pre ++ ssh_string s ++ rest; pos := len pre |} = Ok (s, c) /\
            pos c = len pre + len (ssh_string s).
Proof. intros H. eexists. split; [apply read_string_at; exact H | reflexivity]. Qed.

(* the inside of a key blob: string(alg) string(key) *)
Lemma pk_inner_read k rest : len k = 32 ->
  exists c, pk_read (reader (ssh_string alg ++ ssh_string k ++ rest) 0) = Ok (k, c) /\
            pos c = len (ssh_string alg ++ ssh_string k).
Proof.
  intros Hk. unfold pk_read.
  rewrite read_string_at0 by (rewrite len_alg; lia). cbn [bind].
  rewrite bytes_eqb_refl.
  pose proof (read_string_at (ssh_string alg) k rest) as E. rewrite E by lia. cbn [bind].
  unfold from_slice. rewrite Hk. cbn [N.eqb Pos.eqb bind].
  eexists. split; [reflexivity|]. cbn [pos]. rewrite len_app. reflexivity.
Qed.

(* public key: write, then read the way request_identities does
   (read_string for the blob, then PublicKey::read inside the blob) *)
Theorem pk_roundtrip k rest : len k = 32 ->
  exists blob c c', read_string (reader (pk_write k ++ rest) 0) = Ok (blob, c) /\
                    pos c = len (pk_write k) /\
                    pk_read (reader blob 0) = Ok (k, c').
Proof.
  intros Hk. unfold pk_write.
  destruct (pk_inner_read k [] Hk) as (c' & H & _). rewrite !app_nil_r in H.
  rewrite read_string_at0
    by (rewrite len_app, !len_ssh_string, len_alg, Hk; reflexivity).
  do 2 eexists. exists c'. split; [reflexivity|]. split; [reflexivity|]. exact H.
Qed.

(* signature: Signature::write then Signature::read *)
Theorem sig_roundtrip s rest : len s = 64 ->
  exists c, sig_read (reader (sig_write s ++ rest) 0) = Ok (s, c) /\ pos c = len (sig_write s).
Proof.
  intros Hs. unfold sig_read, sig_write.
  rewrite read_string_at0
    by (rewrite len_app, !len_ssh_string, len_alg, Hs; reflexivity).
  cbn [bind].
  rewrite read_string_at0 by (rewrite len_alg; lia). cbn [bind].
  rewrite bytes_eqb_refl.
  pose proof (read_string_at (ssh_string alg) s []) as E. rewrite app_nil_r in E.
  rewrite E by lia. cbn [bind].
  unfold from_slice. rewrite Hs. cbn [N.eqb Pos.eqb bind].
  eexists. split; reflexivity.
Qed.

(* secret key: SecretKey::write then SecretKey::read, for every 64 bytes *)
Theorem sk_roundtrip sk rest : len sk = 64 ->
  exists c, sk_read (reader (sk_write sk ++ rest) 0) = Ok (sk, c) /\ pos c = len (sk_write sk).
Proof.
  intros Hs. unfold sk_read, sk_write.
  assert (Hp : len (sk_public sk) = 32).
  { unfold sk_public, len in *. rewrite skipn_length. lia. }
  rewrite <- !app_assoc.
  rewrite read_string_at0 by (rewrite len_alg; lia). cbn [bind].
  rewrite bytes_eqb_refl.
  pose proof (read_string_at (ssh_string alg) (sk_public sk)
                (ssh_string sk ++ ssh_string comment ++ rest)) as E1.
  rewrite E1 by lia. cbn [bind]. clear E1.
  pose proof (read_string_at (ssh_string alg ++ ssh_string (sk_public sk)) sk
                (ssh_string comment ++ rest)) as E2.
  rewrite <- !app_assoc in E2. rewrite len_app in E2. rewrite E2 by lia. cbn [bind]. clear E2.
  pose proof (read_string_at (ssh_string alg ++ ssh_string (sk_public sk) ++ ssh_string sk) comment rest) as E3.
  rewrite <- !app_assoc in E3. rewrite !len_app in E3.
  rewrite <- N.add_assoc. rewrite E3 by (cbn; lia). cbn [bind]. clear E3.
  unfold from_slice. rewrite Hs. change (64 =? 64) with true. cbn [bind].
  rewrite bytes_eqb_refl.
  eexists. split; [reflexivity|]. cbn [pos]. rewrite !len_app. lia.
Qed.

(* through the client: a SIGN_RESPONSE carrying Signature::write(s) *)
Theorem sign_roundtrip s rest : len s = 64 ->
  sign (SIGN_RESPONSE :: sig_write s ++ rest) = Ok s.
Proof.
  intros Hs. unfold sign, sign_with.
  change (SIGN_RESPONSE =? SIGN_RESPONSE) with true. cbv iota.
  unfold read_signature, read_signature_with, sig_write.
  pose proof (read_string_at [SIGN_RESPONSE] (ssh_string alg ++ ssh_string s) rest) as E.
  cbn [app] in E. change (len [SIGN_RESPONSE]) with 1 in E. unfold reader.
  rewrite E by (rewrite len_app, !len_ssh_string, len_alg, Hs; reflexivity).
  cbn [bind]. clear E.
  rewrite <- (app_nil_r (ssh_string alg ++ ssh_string s)), <- app_assoc.
  pose proof (read_string_at0 alg (ssh_string s ++ [])) as E. unfold reader in E.
  rewrite E by (rewrite len_alg; lia). cbn [bind]. clear E.
  pose proof (read_string_at (ssh_string alg) s []) as E. rewrite E by lia. cbn [bind].
  rewrite Hs. reflexivity.
Qed.

(* through the client: an IDENTITIES_ANSWER listing keys with comments *)
Definition entry (kc : bytes * bytes) : bytes := pk_write (fst kc) ++ ssh_string (snd kc).
Definition listing (es : list (bytes * bytes)) : bytes := concat (map entry es).

Definition entry_ok (kc : bytes * bytes) : Prop := len (fst kc) = 32 /\ len (snd kc) < 4294967296.

Lemma ids_loop_listing : forall es fuel pre rest acc,
  Forall entry_ok es -> (length es <= fuel)%nat ->
  ids_loop fuel (N.of_nat (length es)) {| cs := pre ++ listing es ++ rest; pos := len pre |} acc =
  Ok (rev acc ++ map fst es).
Proof.
  induction es as [|[k cm] es IH]; intros fuel pre rest acc Hok Hf.
  - destruct fuel; cbn; rewrite app_nil_r; reflexivity.
  - destruct fuel as [|f]; [cbn in Hf; lia|].
    inversion Hok as [|? ? [Hk Hc] Hok']; subst. cbn [fst snd] in *.
    cbn [ids_loop length].
    destruct (N.eqb_spec (N.of_nat (S (length es))) 0) as [E|_]; [lia|].
    unfold listing. cbn [map concat]. fold (listing es). unfold entry at 1. cbn [fst snd].
    unfold pk_write at 1.
    set (blob := ssh_string alg ++ ssh_string k).
    assert (Hblob : len blob = 51).
    { unfold blob. rewrite len_app, !len_ssh_string, len_alg, Hk. reflexivity. }
    rewrite <- !app_assoc.
    rewrite (read_string_at pre blob) by lia. cbn [bind].
    pose proof (read_string_at (pre ++ ssh_string blob) cm (listing es ++ rest)) as E.
    rewrite <- !app_assoc in E. rewrite len_app in E. rewrite E by exact Hc. cbn [bind]. clear E.
    destruct (pk_inner_read k [] Hk) as (c' & Hr & _). rewrite !app_nil_r in Hr.
    fold blob in Hr. rewrite Hr.
    replace (N.of_nat (S (length es)) - 1) with (N.of_nat (length es)) by lia.
    pose proof (IH f (pre ++ ssh_string blob ++ ssh_string cm) rest (k :: acc) Hok') as E.
    rewrite <- !app_assoc in E. rewrite !len_app in E. rewrite N.add_assoc in E.
    rewrite E by (cbn in Hf; lia).
    cbn [rev]. rewrite <- app_assoc. reflexivity.
Qed.

Theorem identities_roundtrip es rest :
  Forall entry_ok es -> N.of_nat (length es) < 4294967296 ->
  request_identities (IDENTITIES_ANSWER :: u32_bytes (N.of_nat (length es)) ++ listing es ++ rest) =
  Ok (map fst es).
Proof.
  intros Hok Hn. unfold request_identities.
  change (IDENTITIES_ANSWER =? IDENTITIES_ANSWER) with true. cbv iota.
  unfold ids_answer, reader.
  pose proof (read_u32_at [IDENTITIES_ANSWER] (N.of_nat (length es)) (listing es ++ rest) Hn) as E.
  cbn [app] in E. change (len [IDENTITIES_ANSWER]) with 1 in E. rewrite E. cbn [bind]. clear E.
  pose proof (ids_loop_listing es
    (ids_fuel (IDENTITIES_ANSWER :: u32_bytes (N.of_nat (length es)) ++ listing es ++ rest))
    (IDENTITIES_ANSWER :: u32_bytes (N.of_nat (length es))) rest [] Hok) as L.
  cbn [app] in L.
  change (len (IDENTITIES_ANSWER :: u32_bytes (N.of_nat (length es)))) with 5 in L.
  change (1 + 4) with 5.
  cbn [rev app] in L. rewrite L; [reflexivity|].
  (* the fuel covers the listing: every entry takes at least 8 bytes *)
  unfold ids_fuel. cbn [length]. rewrite !app_length.
  assert (Hl : (length es <= length (listing es))%nat).
  { clear. induction es as [|e es IH]; [cbn; lia|].
    unfold listing in *. cbn [map concat length]. rewrite app_length.
    assert (1 <= length (entry e))%nat; [|lia].
    unfold entry, pk_write, ssh_string. rewrite !app_length. cbn. lia. }
  lia.
Qed.

(* ---------- the code as found violates the property ---------- *)

Lemma request_identities_orig_panics : request_identities_orig [] = Panic 10.
Proof. reflexivity. Qed.

Lemma sign_orig_panics :
  sign_orig (SIGN_RESPONSE :: ssh_string (ssh_string alg ++ ssh_string [1])) = Panic 11.
Proof. vm_compute. reflexivity. Qed.
