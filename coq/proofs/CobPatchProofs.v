(* CobPatchProofs.v — authorization guard for patches (C07).

   [pguard priv a entry p p'] says what an op by actor [a] (privileged iff a
   delegate of the document the op refers to) with id [entry] may have done to
   a patch: nested relations for revisions, their discussions, their reviews
   and the review comment threads. Proved for every action (including the
   states failing actions leave behind), composed over the actions of an op
   and lifted to histories. *)
From HW Require Import lib.Base lib.SMap model.CobThread model.CobIssue model.CobPatch
  proofs.CobThreadProofs proofs.CobIssueProofs.
Local Open Scope N_scope.

(* review maps are keyed by reviewer; the model keeps them sorted *)
Definition wfp (p : patch) : Prop :=
  forall rid r, lookup rid (p_revisions p) = Some (Some r) -> sorted (r_reviews r).

Section PatchGuard.
Variable priv : bool.
Variables a entry : N.

Definition owner (x : N) : Prop := priv = true \/ x = a.

Definition rvguard (v v' : review) : Prop :=
  rv_author v' = rv_author v /\
  (owner (rv_author v) \/
   (rv_summary v' = rv_summary v /\ rv_verdict v' = rv_verdict v /\ rv_labels v' = rv_labels v)) /\
  tguard priv a entry (rv_comments v) (rv_comments v').

(* reviews of one revision, keyed by reviewer. Forward: a review not created by
   this op stays (same id) and is guarded, or it is gone / replaced and then the
   actor is privileged or its author. Backward: every review present afterwards
   that this op did not create was there before. *)
Definition rvmguard (m m' : smap review) : Prop :=
  (forall k v, lookup k m = Some v -> rv_id v <> entry ->
     match lookup k m' with
     | Some v' => (rv_id v' = rv_id v /\ rvguard v v') \/ (rv_id v' <> rv_id v /\ owner (rv_author v))
     | None => owner (rv_author v)
     end) /\
  (forall k v', lookup k m' = Some v' -> rv_id v' <> entry ->
     exists v, lookup k m = Some v /\ rv_id v = rv_id v').

Definition rguard (r r' : revision) : Prop :=
  r_author r' = r_author r /\
  (owner (r_author r) \/ r_descr r' = r_descr r) /\
  tguard priv a entry (r_discussion r) (r_discussion r') /\
  rvmguard (r_reviews r) (r_reviews r').

Definition rmguard (m m' : smap (option revision)) : Prop :=
  forall rid, rid <> entry ->
    match lookup rid m with
    | None => True
    | Some None => lookup rid m' = Some None
    | Some (Some r) =>
        match lookup rid m' with
        | Some (Some r') => rguard r r'
        | Some None => owner (r_author r)
        | None => False
        end
    end.

Definition pguard (p p' : patch) : Prop :=
  p_author p' = p_author p /\
  (priv = true \/
   (p_assignees p' = p_assignees p /\ p_labels p' = p_labels p /\ p_merges p' = p_merges p)) /\
  (owner (p_author p) \/ (p_title p' = p_title p /\ p_state p' = p_state p)) /\
  rmguard (p_revisions p) (p_revisions p').

(* ----- reflexivity / transitivity ----- *)

Lemma rvguard_refl v : rvguard v v.
Proof. repeat split; auto using tguard_refl. Qed.

Lemma rvguard_trans v1 v2 v3 : rvguard v1 v2 -> rvguard v2 v3 -> rvguard v1 v3.
Proof.
  intros (A1 & B1 & C1) (A2 & B2 & C2). split; [congruence|]. split.
  - destruct B1 as [?|(?&?&?)]; [auto|]. destruct B2 as [O|(?&?&?)].
    + left. rewrite A1 in O. exact O.
    + right. repeat split; congruence.
  - eapply tguard_trans; eassumption.
Qed.

Lemma rvmguard_refl m : rvmguard m m.
Proof.
  split.
  - intros k v L _. rewrite L. left. split; [reflexivity|apply rvguard_refl].
  - intros k v' L _. exists v'. auto.
Qed.

Lemma rvmguard_trans m1 m2 m3 : rvmguard m1 m2 -> rvmguard m2 m3 -> rvmguard m1 m3.
Proof.
  intros [F12 B12] [F23 B23]. split.
  - intros k v1 L1 Hid. specialize (F12 k v1 L1 Hid).
    destruct (lookup k m2) as [v2|] eqn:L2.
    + destruct F12 as [[I12 G12]|[I12 O1]].
      * assert (Hid2 : rv_id v2 <> entry) by congruence.
        specialize (F23 k v2 L2 Hid2).
        destruct (lookup k m3) as [v3|].
        -- destruct F23 as [[I23 G23]|[I23 O2]].
           ++ left. split; [congruence|eapply rvguard_trans; eassumption].
           ++ right. split; [congruence|]. destruct G12 as (A & _). rewrite A in O2. exact O2.
        -- destruct G12 as (A & _). rewrite A in F23. exact F23.
      * destruct (lookup k m3) as [v3|] eqn:L3; [|exact O1].
        destruct (N.eq_dec (rv_id v3) (rv_id v1)) as [E|NE]; [|right; auto].
        exfalso. assert (Hid3 : rv_id v3 <> entry) by congruence.
        destruct (B23 k v3 L3 Hid3) as (v2' & L2' & I2'). rewrite L2 in L2'. inversion L2'; subst v2'.
        congruence.
    + destruct (lookup k m3) as [v3|] eqn:L3; [|exact F12].
      destruct (N.eq_dec (rv_id v3) (rv_id v1)) as [E|NE]; [|right; auto].
      exfalso. assert (Hid3 : rv_id v3 <> entry) by congruence.
      destruct (B23 k v3 L3 Hid3) as (v2' & L2' & _). congruence.
  - intros k v3 L3 Hid3. destruct (B23 k v3 L3 Hid3) as (v2 & L2 & I2).
    assert (Hid2 : rv_id v2 <> entry) by congruence.
    destruct (B12 k v2 L2 Hid2) as (v1 & L1 & I1). exists v1. split; [exact L1|congruence].
Qed.

Lemma owner_eq x y : x = y -> owner x -> owner y.
Proof. intros ->. auto. Qed.

Lemma rguard_refl r : rguard r r.
Proof. repeat split; auto using tguard_refl. apply rvmguard_refl. apply rvmguard_refl. Qed.

Lemma rguard_trans r1 r2 r3 : rguard r1 r2 -> rguard r2 r3 -> rguard r1 r3.
Proof.
  intros (A1 & B1 & C1 & D1) (A2 & B2 & C2 & D2). split; [congruence|]. split; [|split].
  - destruct B1 as [?|E1]; [auto|]. destruct B2 as [O|E2].
    + left. rewrite A1 in O. exact O.
    + right. congruence.
  - eapply tguard_trans; eassumption.
  - eapply rvmguard_trans; eassumption.
Qed.

Lemma rmguard_refl m : rmguard m m.
Proof.
  intros rid _. destruct (lookup rid m) as [[r|]|]; auto using rguard_refl.
Qed.

Lemma rmguard_trans m1 m2 m3 : rmguard m1 m2 -> rmguard m2 m3 -> rmguard m1 m3.
Proof.
  intros H12 H23 rid Hne. specialize (H12 rid Hne). specialize (H23 rid Hne).
  destruct (lookup rid m1) as [[r1|]|]; [| |exact I].
  - destruct (lookup rid m2) as [[r2|]|]; [| |contradiction].
    + destruct (lookup rid m3) as [[r3|]|]; [| |contradiction].
      * eapply rguard_trans; eassumption.
      * destruct H12 as (A & _). rewrite A in H23. exact H23.
    + rewrite H23. exact H12.
  - rewrite H12 in H23. exact H23.
Qed.

Lemma pguard_refl p : pguard p p.
Proof. repeat split; auto using rmguard_refl. Qed.

Lemma pguard_trans p1 p2 p3 : pguard p1 p2 -> pguard p2 p3 -> pguard p1 p3.
Proof.
  intros (A1 & B1 & C1 & D1) (A2 & B2 & C2 & D2). split; [congruence|]. split; [|split].
  - destruct B1 as [?|(?&?&?)]; [auto|]. destruct B2 as [?|(?&?&?)]; [auto|]. right. repeat split; congruence.
  - destruct C1 as [?|[? ?]]; [auto|]. destruct C2 as [O|[? ?]].
    + left. rewrite A1 in O. exact O.
    + right. split; congruence.
  - eapply rmguard_trans; eassumption.
Qed.

(* ----- building blocks ----- *)

Lemma rmguard_one_key m m' k :
  (forall rid, rid <> k -> lookup rid m' = lookup rid m) ->
  (k <> entry ->
     match lookup k m with
     | None => True
     | Some None => lookup k m' = Some None
     | Some (Some r) =>
         match lookup k m' with
         | Some (Some r') => rguard r r'
         | Some None => owner (r_author r)
         | None => False
         end
     end) ->
  rmguard m m'.
Proof.
  intros Hother Hk rid Hne. destruct (N.eq_dec rid k) as [->|Hck].
  - apply Hk. exact Hne.
  - rewrite (Hother rid Hck). destruct (lookup rid m) as [[r|]|]; auto using rguard_refl.
Qed.

(* only the revision map changed, at one key *)
Lemma pguard_set_rev p rid (v : option revision) :
  (rid <> entry ->
     match lookup rid (p_revisions p) with
     | None => True
     | Some None => v = None
     | Some (Some r) => match v with Some r' => rguard r r' | None => owner (r_author r) end
     end) ->
  pguard p (p_set_rev p rid v).
Proof.
  intros H. unfold p_set_rev, p_set_revisions. repeat split; cbn; auto.
  apply rmguard_one_key with (k := rid).
  - intros k Hne. apply lookup_insert_other. exact Hne.
  - intros Hne. specialize (H Hne). rewrite lookup_insert_same.
    destruct (lookup rid (p_revisions p)) as [[r|]|]; [|congruence|exact I].
    destruct v; exact H.
Qed.

Lemma pguard_index p p' ix : pguard p p' -> pguard p (p_set_index p' ix).
Proof. intros (A & B & C & D). repeat split; cbn; auto. Qed.

Lemma wfp_set_rev p rid v :
  wfp p -> (forall r, v = Some r -> sorted (r_reviews r)) -> wfp (p_set_rev p rid v).
Proof.
  intros W Hv k r. unfold p_set_rev, p_set_revisions. cbn [p_revisions].
  rewrite lookup_insert_any. destruct (N.eqb_spec k rid).
  - intros E. inversion E; subst. apply Hv. reflexivity.
  - apply W.
Qed.

Lemma wfp_index p ix : wfp p -> wfp (p_set_index p ix).
Proof. intros W k r. cbn. apply W. Qed.

(* review-map updates *)
Lemma rvm_insert_new (m : smap review) v :
  lookup (rv_author v) m = None -> rv_id v = entry -> rvmguard m (insert (rv_author v) v m).
Proof.
  intros Lnone Hid. split.
  - intros k v0 L Hne. rewrite lookup_insert_any. destruct (N.eqb_spec k (rv_author v)) as [->|_].
    + congruence.
    + rewrite L. left. split; [reflexivity|apply rvguard_refl].
  - intros k v' L Hne. rewrite lookup_insert_any in L. destruct (N.eqb_spec k (rv_author v)) as [->|_].
    + inversion L; subst. contradiction.
    + exists v'. auto.
Qed.

Lemma rvm_insert_new_at (m : smap review) k v :
  lookup k m = None -> rv_id v = entry -> rvmguard m (insert k v m).
Proof.
  intros Lnone Hid. split.
  - intros k0 v0 L Hne. rewrite lookup_insert_any. destruct (N.eqb_spec k0 k) as [->|_].
    + congruence.
    + rewrite L. left. split; [reflexivity|apply rvguard_refl].
  - intros k0 v' L Hne. rewrite lookup_insert_any in L. destruct (N.eqb_spec k0 k) as [->|_].
    + inversion L; subst. contradiction.
    + exists v'. auto.
Qed.

Lemma rvm_update (m : smap review) k v v' :
  lookup k m = Some v -> rv_id v' = rv_id v -> (rv_id v <> entry -> rvguard v v') ->
  rvmguard m (insert k v' m).
Proof.
  intros L Hid G. split.
  - intros k0 v0 L0 Hne. rewrite lookup_insert_any. destruct (N.eqb_spec k0 k) as [->|_].
    + rewrite L in L0. inversion L0; subst v0. left. split; [exact Hid|apply G; exact Hne].
    + rewrite L0. left. split; [reflexivity|apply rvguard_refl].
  - intros k0 v0 L0 Hne. rewrite lookup_insert_any in L0. destruct (N.eqb_spec k0 k) as [->|_].
    + inversion L0; subst v0. exists v. auto.
    + exists v0. auto.
Qed.

Lemma rvm_remove (m : smap review) k v :
  sorted m -> lookup k m = Some v -> (rv_id v <> entry -> owner (rv_author v)) ->
  rvmguard m (remove k m).
Proof.
  intros S L O. split.
  - intros k0 v0 L0 Hne. rewrite lookup_remove by exact S. destruct (N.eqb_spec k0 k) as [->|_].
    + rewrite L in L0. inversion L0; subst v0. apply O. exact Hne.
    + rewrite L0. left. split; [reflexivity|apply rvguard_refl].
  - intros k0 v0 L0 Hne. rewrite lookup_remove in L0 by exact S. destruct (N.eqb_spec k0 k) as [->|_].
    + discriminate.
    + exists v0. auto.
Qed.

Lemma rguard_discussion r t' :
  tguard priv a entry (r_discussion r) t' -> rguard r (r_set_discussion r t').
Proof. intros H. repeat split; cbn; auto; apply rvmguard_refl. Qed.

Lemma rguard_descr r d' : owner (r_author r) -> rguard r (r_set_descr r d').
Proof. intros H. repeat split; cbn; auto using tguard_refl; apply rvmguard_refl. Qed.

Lemma rguard_reviews r m' : rvmguard (r_reviews r) m' -> rguard r (r_set_reviews r m').
Proof. intros [F B]. repeat split; cbn; auto using tguard_refl. Qed.

End PatchGuard.

(* ---------- every action ---------- *)

Section PatchActions.
Variable priv : bool.
Variables a entry : N.
Variable dbg : bool.
Variable orc : N -> N -> bres.

Definition review_at (p : patch) (rvid rid k : N) (rev : revision) (rv : review) : Prop :=
  lookup rvid (p_reviews p) = Some (Some (rid, k)) /\
  lookup rid (p_revisions p) = Some (Some rev) /\
  lookup k (r_reviews rev) = Some rv.

Lemma lookup_review_found p rvid rid rev k rv :
  lookup_review dbg p rvid = RvFound rid rev k rv -> review_at p rvid rid k rev rv.
Proof.
  unfold lookup_review, review_at.
  destruct (lookup rvid (p_reviews p)) as [[[rid0 k0]|]|] eqn:L1; try discriminate.
  destruct (lookup rid0 (p_revisions p)) as [[rev0|]|] eqn:L2; try discriminate.
  destruct (lookup k0 (r_reviews rev0)) as [rv0|] eqn:L3; try discriminate.
  destruct (dbg && negb (rv_id rv0 =? rvid)); try discriminate.
  intros E. inversion E; subst. repeat split; assumption.
Qed.

(* what the authorization step established before an action runs *)
Definition pre (p : patch) (act : paction) : Prop :=
  priv = true \/
  match act with
  | PEdit _ | PLifecycle _ => p_author p = a
  | PLabel l => sset_of_list l = p_labels p
  | PAssign _ | PMerge _ _ => False
  | PReviewEdit rvid _ _ _ | PReviewRedact rvid =>
      forall rid k rev rv, review_at p rvid rid k rev rv -> rv_author rv = a
  | PReviewCommentEdit rvid cid _ | PReviewCommentRedact rvid cid =>
      forall rid k rev rv, review_at p rvid rid k rev rv ->
        forall c, lookup cid (t_comments (rv_comments rv)) = Some (Some c) -> c_author c = a
  | PRevisionEdit rid _ | PRevisionRedact rid =>
      forall r, lookup rid (p_revisions p) = Some (Some r) -> r_author r = a
  | PRevisionCommentEdit rid cid _ | PRevisionCommentRedact rid cid =>
      forall r, lookup rid (p_revisions p) = Some (Some r) ->
        forall c, lookup cid (t_comments (r_discussion r)) = Some (Some c) -> c_author c = a
  | _ => True
  end.

Notation PG := (pguard priv a entry).

Lemma on_discussion_guard p rid f p' :
  wfp p ->
  (forall r t', lookup rid (p_revisions p) = Some (Some r) -> leaves (f (r_discussion r)) t' ->
     tguard priv a entry (r_discussion r) t') ->
  leaves (on_discussion p rid f) p' -> PG p p' /\ wfp p'.
Proof.
  intros W Hf H. unfold on_discussion, lookup_revision in H.
  destruct (lookup rid (p_revisions p)) as [[r|]|] eqn:L.
  - apply leaves_omap in H. destruct H as (t' & Ht & ->). split.
    + apply pguard_set_rev. intros _. rewrite L. apply rguard_discussion. apply Hf; [reflexivity|exact Ht].
    + apply wfp_set_rev; [exact W|]. intros r0 E. inversion E; subst. cbn. eapply W. exact L.
  - apply leaves_ok in H. subst. split; [apply pguard_refl|exact W].
  - apply leaves_err in H. subst. split; [apply pguard_refl|exact W].
Qed.

Lemma on_review_comments_guard p rvid f p' :
  wfp p ->
  (forall rid k rev rv t', review_at p rvid rid k rev rv -> leaves (f (rv_comments rv)) t' ->
     tguard priv a entry (rv_comments rv) t') ->
  leaves (on_review_comments dbg p rvid f) p' -> PG p p' /\ wfp p'.
Proof.
  intros W Hf H. unfold on_review_comments in H.
  destruct (lookup_review dbg p rvid) as [rid rev k rv| |e|s] eqn:LR.
  - apply lookup_review_found in LR. pose proof LR as (L1 & L2 & L3).
    apply leaves_omap in H. destruct H as (t' & Ht & ->). split.
    + apply pguard_set_rev. intros _. rewrite L2. apply rguard_reviews.
      apply rvm_update with (v := rv); [exact L3|reflexivity|]. intros _.
      split; [reflexivity|]. split; [right; auto|]. cbn. eapply Hf; [exact LR|exact Ht].
    + apply wfp_set_rev; [exact W|]. intros r0 E. inversion E; subst. cbn.
      apply sorted_upsert. eapply W. exact L2.
  - apply leaves_ok in H. subst. split; [apply pguard_refl|exact W].
  - apply leaves_err in H. subst. split; [apply pguard_refl|exact W].
  - exfalso. eapply leaves_panic; exact H.
Qed.

Lemma owns_of (t : thread) cid :
  (priv = true \/ forall c, lookup cid (t_comments t) = Some (Some c) -> c_author c = a) ->
  owns priv a t cid.
Proof. intros H. exact H. Qed.

Lemma p_action_guard (d : doc) p act p' :
  wfp p -> pre p act ->
  leaves (p_action dbg orc p act entry a d) p' -> PG p p' /\ wfp p'.
Proof.
  intros W Hpre H. destruct act; cbn [p_action] in H.
  - (* PEdit *) apply leaves_ok in H. subst. split; [|exact W].
    repeat split; cbn; auto using rmguard_refl.
  - (* PLabel *) apply leaves_ok in H. subst. split; [|exact W].
    repeat split; cbn; auto using rmguard_refl.
    destruct Hpre as [?|E]; [auto|]. right. repeat split; auto.
  - (* PLifecycle *)
    destruct (lifecycle_valid (p_state p)); apply leaves_ok in H; subst; (split; [|exact W]); [|apply pguard_refl].
    repeat split; cbn; auto using rmguard_refl.
  - (* PAssign *) apply leaves_ok in H. subst. split; [|exact W].
    repeat split; cbn; auto using rmguard_refl.
    destruct Hpre as [?|[]]; auto.
  - (* PMerge *)
    assert (P : priv = true) by (destruct Hpre as [?|[]]; assumption).
    unfold lookup_revision in H.
    destruct (lookup revision (p_revisions p)) as [[r|]|];
      [|apply leaves_ok in H; subst; split; [apply pguard_refl|exact W]
       |apply leaves_err in H; subst; split; [apply pguard_refl|exact W]].
    destruct (orc a commit);
      try (apply leaves_ok in H; subst; split; [apply pguard_refl|exact W]);
      try (apply leaves_err in H; subst; split; [apply pguard_refl|exact W]).
    assert (G : forall s, PG p (p_set_merges p (insert a (revision, commit) (p_merges p)) s) /\
                          wfp (p_set_merges p (insert a (revision, commit) (p_merges p)) s)).
    { intros s. split; [|exact W]. repeat split; cbn; auto using rmguard_refl. left; left; exact P. }
    destruct (winners (d_threshold d) (insert a (revision, commit) (p_merges p))) as [|[r1 c1] [|x w]];
      apply leaves_ok in H; subst; apply G.
  - (* PReview *)
    destruct (lookup revision (p_revisions p)) as [[r|]|] eqn:L;
      [|apply leaves_ok in H; subst; split; [apply pguard_refl|exact W]
       |apply leaves_ok in H; subst; split; [apply pguard_refl|exact W]].
    destruct (lookup a (r_reviews r)) as [v|] eqn:LV;
      apply leaves_ok in H; subst; [split; [apply pguard_refl|exact W]|].
    split.
    + apply pguard_index. apply pguard_set_rev. intros _. rewrite L. apply rguard_reviews.
      apply rvm_insert_new_at; [exact LV|reflexivity].
    + apply wfp_index. apply wfp_set_rev; [exact W|]. intros r0 E. inversion E; subst. cbn.
      apply sorted_upsert. eapply W. exact L.
  - (* PReviewEdit *)
    assert (H' : leaves (match lookup_review dbg p review with
                         | RvFound rid rev reviewer rv =>
                             Ok (p_set_rev p rid (Some (r_set_reviews rev
                                  (insert reviewer (mkReview (rv_id rv) (rv_author rv) summary verdict labels (rv_comments rv))
                                          (r_reviews rev)))))
                         | RvRedacted => Ok p
                         | RvErr e => Err e p
                         | RvPanic k => Panic k
                         end) p' \/ p' = p).
    { destruct summary, verdict; auto. right. apply leaves_err in H. auto. }
    clear H. destruct H' as [H| ->]; [|split; [apply pguard_refl|exact W]].
    destruct (lookup_review dbg p review) as [rid rev k rv| |e|s] eqn:LR.
    + apply lookup_review_found in LR. pose proof LR as (L1 & L2 & L3).
      apply leaves_ok in H. subst. split.
      * apply pguard_set_rev. intros _. rewrite L2. apply rguard_reviews.
        apply rvm_update with (v := rv); [exact L3|reflexivity|]. intros _.
        split; [reflexivity|]. split; [|apply tguard_refl].
        left. destruct Hpre as [?|Hp]; [left; assumption|right; eapply Hp; exact LR].
      * apply wfp_set_rev; [exact W|]. intros r0 E. inversion E; subst. cbn.
        apply sorted_upsert. eapply W. exact L2.
    + apply leaves_ok in H. subst. split; [apply pguard_refl|exact W].
    + apply leaves_err in H. subst. split; [apply pguard_refl|exact W].
    + exfalso. eapply leaves_panic; exact H.
  - (* PReviewRedact *)
    destruct (lookup review (p_reviews p)) as [[[rid k]|]|] eqn:L1;
      [|apply leaves_ok in H; subst; split; [apply pguard_refl|exact W]
       |apply leaves_err in H; subst; split; [apply pguard_refl|exact W]].
    destruct (lookup rid (p_revisions p)) as [[rev|]|] eqn:L2;
      [|apply leaves_ok in H; subst; split; [apply pguard_refl|exact W]
       |apply leaves_err in H; subst; split; [apply pguard_refl|exact W]].
    destruct (lookup k (r_reviews rev)) as [rv|] eqn:L3.
    + destruct (dbg && negb (rv_id rv =? review)); [exfalso; eapply leaves_panic; exact H|].
      apply leaves_ok in H. subst. split.
      * apply pguard_index. apply pguard_set_rev. intros _. rewrite L2. apply rguard_reviews.
        apply rvm_remove with (v := rv); [eapply W; exact L2|exact L3|]. intros _.
        destruct Hpre as [?|Hp]; [left; assumption|right; eapply Hp; repeat split; eassumption].
      * apply wfp_index. apply wfp_set_rev; [exact W|]. intros r0 E. inversion E; subst. cbn.
        apply sorted_remove. eapply W. exact L2.
    + apply leaves_ok in H. subst. split; [apply pguard_index; apply pguard_refl|apply wfp_index; exact W].
  - (* PReviewComment *)
    eapply on_review_comments_guard; [exact W| |exact H].
    intros rid k rev rv t' _ Ht. eapply t_comment_guard. exact Ht.
  - (* PReviewCommentEdit *)
    eapply on_review_comments_guard; [exact W| |exact H].
    intros rid k rev rv t' RA Ht. eapply t_edit_guard; [|exact Ht].
    destruct Hpre as [?|Hp]; [left; assumption|right; eapply Hp; exact RA].
  - (* PReviewCommentRedact *)
    eapply on_review_comments_guard; [exact W| |exact H].
    intros rid k rev rv t' RA Ht. eapply t_redact_guard; [|exact Ht].
    destruct Hpre as [?|Hp]; [left; assumption|right; eapply Hp; exact RA].
  - (* PReviewCommentReact *)
    eapply on_review_comments_guard; [exact W| |exact H].
    intros rid k rev rv t' _ Ht. eapply t_react_guard. exact Ht.
  - (* PReviewCommentResolve *)
    eapply on_review_comments_guard; [exact W| |exact H].
    intros rid k rev rv t' _ Ht. eapply t_resolve_guard. exact Ht.
  - (* PReviewCommentUnresolve *)
    eapply on_review_comments_guard; [exact W| |exact H].
    intros rid k rev rv t' _ Ht. eapply t_resolve_guard. exact Ht.
  - (* PRevision *)
    destruct (dbg && mem entry (p_revisions p)); [exfalso; eapply leaves_panic; exact H|].
    apply leaves_ok in H. subst. split.
    + apply pguard_set_rev. intros C. contradiction.
    + apply wfp_set_rev; [exact W|]. intros r0 E. inversion E; subst. cbn. apply sorted_nil.
  - (* PRevisionEdit *)
    destruct (lookup revision (p_revisions p)) as [[r|]|] eqn:L;
      [|apply leaves_ok in H; subst; split; [apply pguard_refl|exact W]
       |apply leaves_err in H; subst; split; [apply pguard_refl|exact W]].
    apply leaves_ok in H. subst. split.
    + apply pguard_set_rev. intros _. rewrite L. apply rguard_descr.
      destruct Hpre as [?|Hp]; [left; assumption|right; apply Hp; exact L].
    + apply wfp_set_rev; [exact W|]. intros r0 E. inversion E; subst. cbn. eapply W. exact L.
  - (* PRevisionRedact *)
    destruct (p_root p) as [root|]; [|exfalso; eapply leaves_panic; exact H].
    destruct (revision =? root); [apply leaves_err in H; subst; split; [apply pguard_refl|exact W]|].
    destruct (lookup revision (p_revisions p)) as [o|] eqn:L;
      [|apply leaves_err in H; subst; split; [apply pguard_refl|exact W]].
    destruct (merged_revision revision (p_merges p));
      apply leaves_ok in H; subst; [split; [apply pguard_refl|exact W]|].
    split.
    + apply pguard_set_rev. intros _. rewrite L. destruct o as [r|]; [|reflexivity].
      destruct Hpre as [?|Hp]; [left; assumption|right; apply Hp; exact L].
    + apply wfp_set_rev; [exact W|]. intros r0 E. discriminate.
  - (* PRevisionComment *)
    eapply on_discussion_guard; [exact W| |exact H].
    intros r t' _ Ht. eapply t_comment_guard. exact Ht.
  - (* PRevisionCommentEdit *)
    eapply on_discussion_guard; [exact W| |exact H].
    intros r t' L Ht. eapply t_edit_guard; [|exact Ht].
    destruct Hpre as [?|Hp]; [left; assumption|right; eapply Hp; exact L].
  - (* PRevisionCommentRedact *)
    eapply on_discussion_guard; [exact W| |exact H].
    intros r t' L Ht. eapply t_redact_guard; [|exact Ht].
    destruct Hpre as [?|Hp]; [left; assumption|right; eapply Hp; exact L].
  - (* PRevisionCommentReact *)
    eapply on_discussion_guard; [exact W| |exact H].
    intros r t' _ Ht. eapply t_react_guard. exact Ht.
Qed.


Lemma review_at_fun p rvid rid k rev rv rid' k' rev' rv' :
  review_at p rvid rid k rev rv -> review_at p rvid rid' k' rev' rv' ->
  rid' = rid /\ k' = k /\ rev' = rev /\ rv' = rv.
Proof.
  intros (A1 & A2 & A3) (B1 & B2 & B3). rewrite A1 in B1. inversion B1; subst.
  rewrite A2 in B2. inversion B2; subst. rewrite A3 in B3. inversion B3; subst. auto.
Qed.

Lemma authz_bool_allow b : AOk (authz_of_bool b) = AOk Allow -> b = true.
Proof. destruct b; [reflexivity|discriminate]. Qed.

Lemma p_authz_pre (d : doc) p act :
  priv = is_delegate d a -> p_authz dbg p act a d = AOk Allow -> pre p act.
Proof.
  intros Hpriv HA. unfold pre. unfold p_authz in HA. rewrite <- Hpriv in HA.
  destruct priv; [left; reflexivity|]. right.
  destruct act; try exact I; try discriminate.
  - apply authz_bool_allow in HA. apply N.eqb_eq in HA. auto.
  - destruct (sset_eqb (sset_of_list labels) (p_labels p)) eqn:E; [|discriminate].
    apply sset_eqb_true. exact E.
  - apply authz_bool_allow in HA. apply N.eqb_eq in HA. auto.
  - destruct (lookup_review dbg p review) as [rid0 rev0 k0 rv0| |e|s] eqn:LR; try discriminate.
    apply lookup_review_found in LR. apply authz_bool_allow in HA. apply N.eqb_eq in HA.
    intros rid k rev rv RA. destruct (review_at_fun _ _ _ _ _ _ _ _ _ _ LR RA) as (_ & _ & _ & ->). auto.
  - destruct (lookup_review dbg p review) as [rid0 rev0 k0 rv0| |e|s] eqn:LR; try discriminate.
    apply lookup_review_found in LR. apply authz_bool_allow in HA. apply N.eqb_eq in HA.
    intros rid k rev rv RA. destruct (review_at_fun _ _ _ _ _ _ _ _ _ _ LR RA) as (_ & _ & _ & ->). auto.
  - destruct (lookup_review dbg p review) as [rid0 rev0 k0 rv0| |e|s] eqn:LR; try discriminate.
    apply lookup_review_found in LR.
    destruct (t_get (rv_comments rv0) comment) as [c0|] eqn:TG; [|discriminate].
    apply t_get_some in TG. apply authz_bool_allow in HA. apply N.eqb_eq in HA.
    intros rid k rev rv RA c L. destruct (review_at_fun _ _ _ _ _ _ _ _ _ _ LR RA) as (_ & _ & _ & ->).
    rewrite TG in L. inversion L; subst. auto.
  - destruct (lookup_review dbg p review) as [rid0 rev0 k0 rv0| |e|s] eqn:LR; try discriminate.
    apply lookup_review_found in LR.
    destruct (t_get (rv_comments rv0) comment) as [c0|] eqn:TG; [|discriminate].
    apply t_get_some in TG. apply authz_bool_allow in HA. apply N.eqb_eq in HA.
    intros rid k rev rv RA c L. destruct (review_at_fun _ _ _ _ _ _ _ _ _ _ LR RA) as (_ & _ & _ & ->).
    rewrite TG in L. inversion L; subst. auto.
  - unfold lookup_revision in HA.
    destruct (lookup revision (p_revisions p)) as [[r0|]|] eqn:L0; try discriminate.
    apply authz_bool_allow in HA. apply N.eqb_eq in HA.
    intros r L. inversion L; subst. auto.
  - unfold lookup_revision in HA.
    destruct (lookup revision (p_revisions p)) as [[r0|]|] eqn:L0; try discriminate.
    apply authz_bool_allow in HA. apply N.eqb_eq in HA.
    intros r L. inversion L; subst. auto.
  - unfold lookup_revision in HA.
    destruct (lookup revision (p_revisions p)) as [[r0|]|] eqn:L0; try discriminate.
    destruct (t_get (r_discussion r0) comment) as [c0|] eqn:TG; [|discriminate].
    apply t_get_some in TG. apply authz_bool_allow in HA. apply N.eqb_eq in HA.
    intros r L c LC. inversion L; subst. rewrite TG in LC. inversion LC; subst. auto.
  - unfold lookup_revision in HA.
    destruct (lookup revision (p_revisions p)) as [[r0|]|] eqn:L0; try discriminate.
    destruct (t_get (r_discussion r0) comment) as [c0|] eqn:TG; [|discriminate].
    apply t_get_some in TG. apply authz_bool_allow in HA. apply N.eqb_eq in HA.
    intros r L c LC. inversion L; subst. rewrite TG in LC. inversion LC; subst. auto.
Qed.

Lemma p_op_action_guard (d : doc) p act p' :
  priv = is_delegate d a -> wfp p ->
  leaves (p_op_action dbg orc p act entry a d) p' -> PG p p' /\ wfp p'.
Proof.
  intros Hpriv W H. unfold p_op_action in H.
  destruct (p_authz dbg p act a d) as [[| |]|e|k] eqn:EA.
  - eapply p_action_guard; [exact W| |exact H]. eapply p_authz_pre; eassumption.
  - apply leaves_err in H. subst. split; [apply pguard_refl|exact W].
  - apply leaves_ok in H. subst. split; [apply pguard_refl|exact W].
  - apply leaves_err in H. subst. split; [apply pguard_refl|exact W].
  - exfalso. eapply leaves_panic; exact H.
Qed.

Lemma p_actions_guard (d : doc) acts : forall p p',
  priv = is_delegate d a -> wfp p ->
  leaves (p_actions dbg orc p acts entry a d) p' -> PG p p' /\ wfp p'.
Proof.
  induction acts as [|act acts IH]; intros p p' Hp W H; cbn [p_actions] in H.
  - apply leaves_ok in H. subst. split; [apply pguard_refl|exact W].
  - destruct (p_op_action dbg orc p act entry a d) as [p1|e p1|k] eqn:E.
    + destruct (p_op_action_guard d p act p1 Hp W) as [G1 W1]; [left; exact E|].
      destruct (IH p1 p' Hp W1 H) as [G2 W2]. split; [eapply pguard_trans; eassumption|exact W2].
    + apply leaves_err in H. subst p'. apply (p_op_action_guard d p act p1 Hp W). right; eexists; exact E.
    + exfalso. eapply leaves_panic; exact H.
Qed.

End PatchActions.

(* ---------- whole ops and histories ---------- *)

Lemma pguard_push_timeline priv a entry p id : pguard priv a entry p (p_push_timeline p id).
Proof. repeat split; cbn; auto using rmguard_refl. Qed.

Lemma p_apply_guard dbg atomic orc p (o : pop) p' :
  wfp p ->
  leaves (p_apply dbg atomic orc p o) p' ->
  pguard (op_priv o) (op_actor o) (op_id o) p p' /\ wfp p'.
Proof.
  intros W H. unfold p_apply, p_apply_raw in H. unfold op_priv.
  destruct (dbg && memN (op_id o) (p_timeline p)); [exfalso; eapply leaves_panic; exact H|].
  destruct (op_doc o) as [d|].
  - destruct (p_actions dbg orc (p_push_timeline p (op_id o)) (op_actions o) (op_id o) (op_actor o) d)
      as [p1|e p1|k] eqn:E.
    + apply leaves_ok in H. subst p'.
      destruct (p_actions_guard (is_delegate d (op_actor o)) (op_actor o) (op_id o) dbg orc d
                  (op_actions o) (p_push_timeline p (op_id o)) p1) as [G W1];
        [reflexivity|exact W|left; exact E|].
      split; [|exact W1]. eapply pguard_trans; [apply pguard_push_timeline|exact G].
    + apply leaves_err in H. subst p'. destruct atomic; [split; [apply pguard_refl|exact W]|].
      destruct (p_actions_guard (is_delegate d (op_actor o)) (op_actor o) (op_id o) dbg orc d
                  (op_actions o) (p_push_timeline p (op_id o)) p1) as [G W1];
        [reflexivity|exact W|right; eexists; exact E|].
      split; [|exact W1]. eapply pguard_trans; [apply pguard_push_timeline|exact G].
    + exfalso. eapply leaves_panic; exact H.
  - apply leaves_err in H. subst p'. destruct atomic; (split; [|exact W]);
      [apply pguard_refl|apply pguard_push_timeline].
Qed.

Lemma p_init_inv dbg orc (o : pop) p :
  p_init dbg orc o = Ok p ->
  wfp p /\ p_author p = op_actor o /\
  (forall d, op_doc o = Some d -> is_delegate d (op_actor o) = false ->
     p_assignees p = [] /\ p_labels p = [] /\ p_merges p = []).
Proof.
  unfold p_init. intros H. destruct (op_doc o) as [d|]; [|discriminate].
  destruct (op_actions o) as [|[]]; try discriminate.
  destruct l as [|[]]; try discriminate.
  match type of H with p_actions _ _ ?P _ _ _ _ = _ => set (p0 := P) in H end.
  assert (W0 : wfp p0).
  { intros rid r. subst p0. cbn [p_revisions lookup]. destruct (rid =? op_id o); [|discriminate].
    intros E. inversion E; subst. cbn. apply sorted_nil. }
  destruct (p_actions_guard (is_delegate d (op_actor o)) (op_actor o) (op_id o) dbg orc d l p0 p)
    as [(A & B & _) W]; [reflexivity|exact W0|left; exact H|].
  split; [exact W|]. split; [exact A|].
  intros d' E Hnd. inversion E; subst d'. destruct B as [C|(B1 & B2 & B3)]; [congruence|].
  repeat split; assumption.
Qed.

Lemma p_step_guard dbg atomic orc p (o : pop) p' :
  wfp p -> p_step dbg atomic orc p o = Some p' ->
  pguard (op_priv o) (op_actor o) (op_id o) p p' /\ wfp p'.
Proof.
  intros W S. unfold p_step in S.
  destruct (p_apply dbg atomic orc p o) as [x|e x|k] eqn:E; inversion S; subst x.
  - apply (p_apply_guard dbg atomic orc p o p' W). left; exact E.
  - apply (p_apply_guard dbg atomic orc p o p' W). right; eexists; exact E.
Qed.

Lemma p_run_wfp dbg atomic orc : forall (ops : list pop) p p',
  wfp p -> p_run dbg atomic orc p ops = Some p' -> wfp p' /\ p_author p' = p_author p.
Proof.
  induction ops as [|o ops IH]; intros p p' W R; cbn [p_run] in R.
  - inversion R; subst. auto.
  - destruct (p_step dbg atomic orc p o) as [p1|] eqn:S; [|discriminate].
    destruct (p_step_guard _ _ _ _ _ _ W S) as [(A & _) W1].
    destruct (IH p1 p' W1 R) as [W' A']. split; [exact W'|congruence].
Qed.

(* ---------- the statement of C07 for patches, in plain terms ---------- *)

Definition review_guarded (privileged : bool) (a entry : N) (m m' : smap review) : Prop :=
  forall k v, lookup k m = Some v -> rv_id v <> entry ->
    (* removed or edited only by its author or a delegate *)
    (privileged = false -> rv_author v <> a ->
       exists v', lookup k m' = Some v' /\ rv_id v' = rv_id v /\ rv_author v' = rv_author v /\
                  rv_summary v' = rv_summary v /\ rv_verdict v' = rv_verdict v /\
                  rv_labels v' = rv_labels v) /\
    (* as long as it is there, its comments are guarded *)
    (forall v', lookup k m' = Some v' -> rv_id v' = rv_id v ->
       rv_author v' = rv_author v /\
       comments_guarded privileged a entry (rv_comments v) (rv_comments v')).

Definition patch_step_guarded (o : pop) (p1 p2 : patch) : Prop :=
  p_author p2 = p_author p1 /\
  (op_priv o = false ->
     p_assignees p2 = p_assignees p1 /\ p_labels p2 = p_labels p1 /\ p_merges p2 = p_merges p1) /\
  (op_priv o = false -> op_actor o <> p_author p1 ->
     p_title p2 = p_title p1 /\ p_state p2 = p_state p1) /\
  (forall rid, rid <> op_id o ->
     match lookup rid (p_revisions p1) with
     | None => True
     | Some None => lookup rid (p_revisions p2) = Some None
     | Some (Some r) =>
         (* redacted or edited only by its author or a delegate *)
         (op_priv o = false -> r_author r <> op_actor o ->
            exists r', lookup rid (p_revisions p2) = Some (Some r') /\ r_descr r' = r_descr r) /\
         (* as long as it is there: discussion and reviews are guarded *)
         (forall r', lookup rid (p_revisions p2) = Some (Some r') ->
            r_author r' = r_author r /\
            comments_guarded (op_priv o) (op_actor o) (op_id o) (r_discussion r) (r_discussion r') /\
            review_guarded (op_priv o) (op_actor o) (op_id o) (r_reviews r) (r_reviews r'))
     end).

Lemma owner_false priv a x : owner priv a x -> priv = false -> x <> a -> False.
Proof. intros [P|E] Hp Hx; congruence. Qed.

Lemma rvmguard_review_guarded priv a entry m m' :
  rvmguard priv a entry m m' -> review_guarded priv a entry m m'.
Proof.
  intros [F _] k v L Hid. specialize (F k v L Hid). split.
  - intros Hp Hna. destruct (lookup k m') as [v'|].
    + destruct F as [[I (A & B & C)]|[_ O]]; [|exfalso; eapply owner_false; eassumption].
      destruct B as [O|(B1 & B2 & B3)]; [exfalso; eapply owner_false; eassumption|].
      exists v'. repeat split; auto.
    + exfalso; eapply owner_false; eassumption.
  - intros v' L' I. rewrite L' in F. destruct F as [[_ (A & _ & C)]|[NI _]]; [|contradiction].
    split; [exact A|]. apply tguard_comments_guarded. exact C.
Qed.

Lemma pguard_step_guarded (o : pop) p1 p2 :
  pguard (op_priv o) (op_actor o) (op_id o) p1 p2 -> patch_step_guarded o p1 p2.
Proof.
  intros (A & B & C & D). split; [exact A|]. split; [|split].
  - intros Hp. destruct B as [B|B]; [congruence|exact B].
  - intros Hp Hna. destruct C as [O|C]; [|exact C]. exfalso. eapply owner_false; eauto.
  - intros rid Hne. specialize (D rid Hne).
    destruct (lookup rid (p_revisions p1)) as [[r|]|]; [|exact D|exact I].
    split.
    + intros Hp Hna. destruct (lookup rid (p_revisions p2)) as [[r'|]|].
      * destruct D as (_ & [O|E] & _); [exfalso; eapply owner_false; eassumption|]. exists r'. auto.
      * exfalso; eapply owner_false; eassumption.
      * contradiction.
    + intros r' L'. rewrite L' in D. destruct D as (D1 & _ & D3 & D4).
      split; [exact D1|]. split; [apply tguard_comments_guarded; exact D3|].
      apply rvmguard_review_guarded. exact D4.
Qed.

Lemma patch_history_guarded dbg atomic orc (root : pop) (pre : list pop) (o : pop) p0 p1 p2 :
  p_init dbg orc root = Ok p0 ->
  p_run dbg atomic orc p0 pre = Some p1 ->
  p_step dbg atomic orc p1 o = Some p2 ->
  p_author p1 = op_actor root /\ patch_step_guarded o p1 p2.
Proof.
  intros Hinit Hrun Hstep. destruct (p_init_inv _ _ _ _ Hinit) as (W0 & A0 & _).
  destruct (p_run_wfp _ _ _ _ _ _ W0 Hrun) as [W1 A1]. split; [congruence|].
  apply pguard_step_guarded. apply (p_step_guard _ _ _ _ _ _ W1 Hstep).
Qed.

Lemma patch_history_no_delegate dbg atomic orc (root : pop) : forall (ops : list pop) p0 p,
  p_init dbg orc root = Ok p0 ->
  Forall (fun o' => op_priv o' = false) ops ->
  p_run dbg atomic orc p0 ops = Some p ->
  p_assignees p = p_assignees p0 /\ p_labels p = p_labels p0 /\ p_merges p = p_merges p0 /\
  (Forall (fun o' => op_actor o' <> op_actor root) ops -> p_title p = p_title p0 /\ p_state p = p_state p0).
Proof.
  intros ops p0 p Hinit. destruct (p_init_inv _ _ _ _ Hinit) as (W0 & A0 & _). clear Hinit.
  revert p0 W0 A0. induction ops as [|o ops IH]; intros p0 W0 A0 Hnp Hrun; cbn [p_run] in Hrun.
  - inversion Hrun; subst. auto.
  - inversion Hnp as [|? ? Hp Hnp']; subst.
    destruct (p_step dbg atomic orc p0 o) as [p1|] eqn:S; [|discriminate].
    destruct (p_step_guard _ _ _ _ _ _ W0 S) as [G W1]. apply pguard_step_guarded in G.
    destruct G as (GA & GB & GC & _). destruct (GB Hp) as (B1 & B2 & B3).
    destruct (IH p1 W1 (eq_trans GA A0) Hnp' Hrun) as (I1 & I2 & I3 & I4).
    split; [congruence|]. split; [congruence|]. split; [congruence|].
    intros Hna. inversion Hna as [|? ? Hn1 Hna']; subst.
    destruct (GC Hp) as [T1 T2]; [congruence|]. destruct (I4 Hna') as [U1 U2]. split; congruence.
Qed.

(* unknown / redacted targets *)
Lemma patch_ignored_targets dbg orc p entry actor d rid cid body descr :
  is_delegate d actor = false ->
  (lookup rid (p_revisions p) = Some None ->
     p_op_action dbg orc p (PRevisionEdit rid descr) entry actor d = Ok p /\
     p_op_action dbg orc p (PRevisionRedact rid) entry actor d = Ok p /\
     p_op_action dbg orc p (PRevisionCommentEdit rid cid body) entry actor d = Ok p /\
     p_op_action dbg orc p (PRevisionCommentRedact rid cid) entry actor d = Ok p) /\
  (lookup rid (p_revisions p) = None ->
     p_op_action dbg orc p (PRevisionEdit rid descr) entry actor d = Err EMissing p /\
     p_op_action dbg orc p (PRevisionRedact rid) entry actor d = Err EMissing p /\
     p_op_action dbg orc p (PRevisionCommentEdit rid cid body) entry actor d = Err EMissing p /\
     p_op_action dbg orc p (PRevisionCommentRedact rid cid) entry actor d = Err EMissing p) /\
  (forall r, lookup rid (p_revisions p) = Some (Some r) ->
     t_get (r_discussion r) cid = None ->
     p_op_action dbg orc p (PRevisionCommentEdit rid cid body) entry actor d = Ok p /\
     p_op_action dbg orc p (PRevisionCommentRedact rid cid) entry actor d = Ok p).
Proof.
  intros Hd. unfold p_op_action, p_authz, lookup_revision. rewrite Hd.
  split; [|split].
  - intros L. rewrite L. repeat split; reflexivity.
  - intros L. rewrite L. repeat split; reflexivity.
  - intros r L TG. rewrite L, TG. split; reflexivity.
Qed.
