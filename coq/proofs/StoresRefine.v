(* StoresRefine.v — the row-list stores of coq/model/Stores.v refine plain in-memory
   finite maps ("simple models"): the state after any operation sequence, read as maps
   key -> row, equals the fold of the map-level specification [mstep] over the sequence.

   The map-level step is deterministic given two choices the relational layer makes and
   the theorems in StoresProofs.v characterise: the rowid SQLite gives a fresh
   announcement row ([announced_spec]: larger than every rowid in use) and the set of
   routing entries a prune removes ([prune_spec]). *)
From HW Require Import lib.Base model.Stores proofs.StoresProofs.
Local Open Scope N_scope.

(* ------------------------------------------------------------------ finite maps as functions *)

Definition fmap (K V : Type) := K -> option V.

Definition mupd {K V} (eqb : K -> K -> bool) (m : fmap K V) (k : K) (v : V) : fmap K V :=
  fun k' => if eqb k' k then Some v else m k'.
Definition mdel {K V} (eqb : K -> K -> bool) (m : fmap K V) (k : K) : fmap K V :=
  fun k' => if eqb k' k then None else m k'.
Definition mkeep {K V} (p : K -> bool) (m : fmap K V) : fmap K V :=
  fun k' => if p k' then m k' else None.
Definition mvals {K V} (f : K -> V -> option V) (m : fmap K V) : fmap K V :=
  fun k' => match m k' with Some v => f k' v | None => None end.

Record mstate := {
  m_nodes : fmap N N;
  m_routing : fmap k2 N;
  m_sync : fmap k2 (N * N);
  m_refs : fmap k3 (N * N);
  m_following : fmap N (N * policy);
  m_seeding : fmap N (scope * policy);
  m_gossip : fmap k3 grow
}.

Definition abs (s : state) : mstate :=
  {| m_nodes := fun k => tget N.eqb k (nodes s);
     m_routing := fun k => tget k2_eqb k (routing s);
     m_sync := fun k => tget k2_eqb k (sync s);
     m_refs := fun k => tget k3_eqb k (refs s);
     m_following := fun k => tget N.eqb k (following s);
     m_seeding := fun k => tget N.eqb k (seeding s);
     m_gossip := fun k => tget k3_eqb k (gossip s) |}.

Definition feq {K V} (a b : fmap K V) : Prop := forall k, a k = b k.

Record meq (a b : mstate) : Prop := {
  eq_nodes : feq (m_nodes a) (m_nodes b);
  eq_routing : feq (m_routing a) (m_routing b);
  eq_sync : feq (m_sync a) (m_sync b);
  eq_refs : feq (m_refs a) (m_refs b);
  eq_following : feq (m_following a) (m_following b);
  eq_seeding : feq (m_seeding a) (m_seeding b);
  eq_gossip : feq (m_gossip a) (m_gossip b)
}.

Lemma meq_refl a : meq a a.
Proof. split; intros k; reflexivity. Qed.
Lemma meq_trans a b c : meq a b -> meq b c -> meq a c.
Proof. intros [] []. split; intros k; congruence. Qed.

Definition mset_nodes m x := {| m_nodes := x; m_routing := m_routing m; m_sync := m_sync m; m_refs := m_refs m;
  m_following := m_following m; m_seeding := m_seeding m; m_gossip := m_gossip m |}.
Definition mset_routing m x := {| m_nodes := m_nodes m; m_routing := x; m_sync := m_sync m; m_refs := m_refs m;
  m_following := m_following m; m_seeding := m_seeding m; m_gossip := m_gossip m |}.
Definition mset_sync m x := {| m_nodes := m_nodes m; m_routing := m_routing m; m_sync := x; m_refs := m_refs m;
  m_following := m_following m; m_seeding := m_seeding m; m_gossip := m_gossip m |}.
Definition mset_refs m x := {| m_nodes := m_nodes m; m_routing := m_routing m; m_sync := m_sync m; m_refs := x;
  m_following := m_following m; m_seeding := m_seeding m; m_gossip := m_gossip m |}.
Definition mset_following m x := {| m_nodes := m_nodes m; m_routing := m_routing m; m_sync := m_sync m; m_refs := m_refs m;
  m_following := x; m_seeding := m_seeding m; m_gossip := m_gossip m |}.
Definition mset_seeding m x := {| m_nodes := m_nodes m; m_routing := m_routing m; m_sync := m_sync m; m_refs := m_refs m;
  m_following := m_following m; m_seeding := x; m_gossip := m_gossip m |}.
Definition mset_gossip m x := {| m_nodes := m_nodes m; m_routing := m_routing m; m_sync := m_sync m; m_refs := m_refs m;
  m_following := m_following m; m_seeding := m_seeding m; m_gossip := x |}.

(* ------------------------------------------------------------------ the map-level specification *)

Definition m_add_one (nds : fmap N N) (rt : fmap k2 N) (rid nid time : N) : option (fmap k2 N) :=
  if N.ltb I64_MAX time then None
  else match rt (rid, nid) with
       | Some t => if N.ltb t time then Some (mupd k2_eqb rt (rid, nid) time) else Some rt
       | None => match nds nid with
                 | Some _ => Some (mupd k2_eqb rt (rid, nid) time)
                 | None => None
                 end
       end.

Fixpoint m_add_loop (nds : fmap N N) (rt : fmap k2 N) (rids : list N) (nid time : N) : option (fmap k2 N) :=
  match rids with
  | [] => Some rt
  | rid :: rest =>
      match m_add_one nds rt rid nid time with
      | None => None
      | Some rt' => m_add_loop nds rt' rest nid time
      end
  end.

(* [fresh]: rowid of a newly inserted announcement; [victim]: the entries a prune removes *)
Definition mstep (fresh : N) (victim : k2 -> bool) (m : mstate) (o : op) : mstate :=
  match o with
  | NInsert nid ts =>
      if N.ltb I64_MAX ts then m
      else match m_nodes m nid with
           | Some t => if N.ltb t ts then mset_nodes m (mupd N.eqb (m_nodes m) nid ts) else m
           | None => mset_nodes m (mupd N.eqb (m_nodes m) nid ts)
           end
  | NRemove nid =>
      match m_nodes m nid with
      | Some _ =>
          mset_sync (mset_routing (mset_nodes m (mdel N.eqb (m_nodes m) nid))
                       (mkeep (fun k => negb (N.eqb (snd k) nid)) (m_routing m)))
                    (mkeep (fun k => negb (N.eqb (snd k) nid)) (m_sync m))
      | None => m
      end
  | RAdd rids nid time =>
      match m_add_loop (m_nodes m) (m_routing m) rids nid time with
      | Some rt => mset_routing m rt
      | None => m
      end
  | RRemove rid nid => mset_routing m (mdel k2_eqb (m_routing m) (rid, nid))
  | RRemoveMany rids nid =>
      mset_routing m (fold_left (fun rt rid => mdel k2_eqb rt (rid, nid)) rids (m_routing m))
  | RPrune oldest limit ignore =>
      if N.ltb I64_MAX (match limit with Some l => l | None => I64_MAX end) then m
      else if N.ltb I64_MAX oldest then m
      else mset_routing m (mkeep (fun k => negb (victim k)) (m_routing m))
  | SSynced rid nid head ts =>
      if N.ltb I64_MAX ts then m
      else match m_sync m (rid, nid) with
           | Some (h, t) =>
               if N.ltb t ts && negb (N.eqb h head)
               then mset_sync m (mupd k2_eqb (m_sync m) (rid, nid) (head, ts)) else m
           | None =>
               match m_nodes m nid with
               | Some _ => mset_sync m (mupd k2_eqb (m_sync m) (rid, nid) (head, ts))
               | None => m
               end
           end
  | FSet repo ns rf oid ts =>
      if N.leb U64_LIM ts then m
      else if N.ltb I64_MAX ts then m
      else match m_refs m (repo, ns, rf) with
           | Some (o, t) =>
               if N.ltb t ts && negb (N.eqb o oid)
               then mset_refs m (mupd k3_eqb (m_refs m) (repo, ns, rf) (oid, ts)) else m
           | None => mset_refs m (mupd k3_eqb (m_refs m) (repo, ns, rf) (oid, ts))
           end
  | FDelete repo ns rf => mset_refs m (mdel k3_eqb (m_refs m) (repo, ns, rf))
  | PFollow id alias =>
      match m_following m id with
      | Some (a, p) => if negb (N.eqb a alias) then mset_following m (mupd N.eqb (m_following m) id (alias, p)) else m
      | None => mset_following m (mupd N.eqb (m_following m) id (alias, Allow))
      end
  | PSetFollow id p =>
      match m_following m id with
      | Some (a, p0) => if negb (policy_eqb p0 p) then mset_following m (mupd N.eqb (m_following m) id (a, p)) else m
      | None => mset_following m (mupd N.eqb (m_following m) id (0, p))
      end
  | PSeed id sc =>
      match m_seeding m id with
      | Some (sc0, p) => if negb (scope_eqb sc0 sc) then mset_seeding m (mupd N.eqb (m_seeding m) id (sc, p)) else m
      | None => mset_seeding m (mupd N.eqb (m_seeding m) id (sc, Allow))
      end
  | PSetSeed id p =>
      match m_seeding m id with
      | Some (sc, p0) => if negb (policy_eqb p0 p) then mset_seeding m (mupd N.eqb (m_seeding m) id (sc, p)) else m
      | None => mset_seeding m (mupd N.eqb (m_seeding m) id (Followed, p))
      end
  | PUnfollow id => mset_following m (mdel N.eqb (m_following m) id)
  | PUnseed id => mset_seeding m (mdel N.eqb (m_seeding m) id)
  | PUnblockRid id =>
      match m_seeding m id with
      | Some (_, Block) => mset_seeding m (mdel N.eqb (m_seeding m) id)
      | _ => m
      end
  | PUnblockNid id =>
      match m_following m id with
      | Some (_, Block) => mset_following m (mdel N.eqb (m_following m) id)
      | _ => m
      end
  | GAnnounced nid k msg sg ts =>
      if N.eqb ts 0 then m
      else if N.ltb I64_MAX ts then m
      else match m_gossip m (gkey nid k) with
           | Some r =>
               if N.ltb (g_ts r) ts
               then mset_gossip m (mupd k3_eqb (m_gossip m) (gkey nid k)
                      {| g_id := g_id r; g_msg := msg; g_sig := sg; g_ts := ts; g_relay := g_relay r |})
               else m
           | None =>
               mset_gossip m (mupd k3_eqb (m_gossip m) (gkey nid k)
                 {| g_id := fresh; g_msg := msg; g_sig := sg; g_ts := ts; g_relay := DontRelay |})
           end
  | GSetRelay id x =>
      if negb (relay_bindable x) then m
      else mset_gossip m (mvals (fun _ r => Some (if N.eqb (g_id r) id then g_with_relay r x else r)) (m_gossip m))
  | GRelays now =>
      if N.ltb I64_MAX now then m
      else mset_gossip m (mvals (fun _ r => Some (if relay_eqb (g_relay r) Relay
                                                   then g_with_relay r (RelayedAt now) else r)) (m_gossip m))
  | GPrune cutoff =>
      if N.ltb I64_MAX cutoff then m
      else mset_gossip m (mvals (fun _ r => if N.ltb (g_ts r) cutoff then None else Some r) (m_gossip m))
  | REntry _ _ | RLen | RCount _ | FGet _ _ _ | FCount | PFollowPolicy _ | PSeedPolicy _
  | GLast | GFiltered _ _ => m
  end.

(* the two choices, as made by the row-level model *)
Definition fresh_of (s : state) : N := g_next_id (gossip s).
Definition victim_of (s : state) (o : op) (k : k2) : bool :=
  match o with
  | RPrune oldest limit ignore =>
      negb (prune_p (r_prune_selected (routing s) oldest (match limit with Some l => l | None => I64_MAX end))
                    ignore k)
  | _ => false
  end.

(* fold of the map-level spec over a sequence (the row-level run only supplies the choices) *)
Fixpoint mexec (s : state) (m : mstate) (ops : list op) : mstate :=
  match ops with
  | [] => m
  | o :: rest => mexec (fst (step s o)) (mstep (fresh_of s) (victim_of s o) m o) rest
  end.

(* ------------------------------------------------------------------ simulation *)

Lemma tget_filter_val {K V} (keqb : K -> K -> bool) (p : K * V -> bool) (t : table K V) k :
  (forall a b, keqb a b = true <-> a = b) -> twf t ->
  tget keqb k (filter p t) = match tget keqb k t with
                             | Some v => if p (k, v) then Some v else None
                             | None => None
                             end.
Proof.
  intros Hspec Hwf. destruct (tget keqb k t) as [v|] eqn:E.
  - destruct (p (k, v)) eqn:Ep.
    + apply (In_tget keqb Hspec); [apply NoDup_map_filter; exact Hwf|].
      apply filter_In. split; [apply (tget_In keqb Hspec); exact E|exact Ep].
    + destruct (tget keqb k (filter p t)) as [v'|] eqn:E'; [|reflexivity].
      pose proof E' as E''. apply tget_filter_some in E''; [|exact Hwf|exact Hspec].
      rewrite E in E''. inversion E''; subst v'.
      apply (tget_In keqb Hspec) in E'. apply filter_In in E'. destruct E' as [_ E']. congruence.
  - destruct (tget keqb k (filter p t)) as [v'|] eqn:E'; [|reflexivity].
    apply tget_filter_some in E'; [|exact Hwf|exact Hspec]. congruence.
Qed.

Lemma sim_add_one nds rt rid nid time :
  match r_add_one nds rt rid nid time,
        m_add_one (fun k => tget N.eqb k nds) (fun k => tget k2_eqb k rt) rid nid time with
  | Some (rt', _), Some f => feq (fun k => tget k2_eqb k rt') f
  | None, None => True
  | _, _ => False
  end.
Proof.
  unfold r_add_one, m_add_one. destruct (N.ltb I64_MAX time); [exact I|].
  destruct (tget k2_eqb (rid, nid) rt) as [t|].
  - destruct (N.ltb t time).
    + intros k. unfold mupd. apply (tget_tset k2_eqb k2_eqb_spec).
    + intros k. reflexivity.
  - unfold tmem. destruct (tget N.eqb nid nds); [|exact I].
    intros k. unfold mupd. apply (tget_tset k2_eqb k2_eqb_spec).
Qed.

Lemma m_add_one_ext nds nds' rt rt' rid nid time :
  feq nds nds' -> feq rt rt' ->
  match m_add_one nds rt rid nid time, m_add_one nds' rt' rid nid time with
  | Some f, Some f' => feq f f'
  | None, None => True
  | _, _ => False
  end.
Proof.
  intros Hn Hr. unfold m_add_one. destruct (N.ltb I64_MAX time); [exact I|].
  rewrite <- (Hr (rid, nid)). destruct (rt (rid, nid)) as [t|].
  - destruct (N.ltb t time).
    + intros k. unfold mupd. destruct (k2_eqb k (rid, nid)); [reflexivity|apply Hr].
    + exact Hr.
  - rewrite <- (Hn nid). destruct (nds nid); [|exact I].
    intros k. unfold mupd. destruct (k2_eqb k (rid, nid)); [reflexivity|apply Hr].
Qed.

Lemma m_add_loop_ext nds nds' rids nid time : forall rt rt',
  feq nds nds' -> feq rt rt' ->
  match m_add_loop nds rt rids nid time, m_add_loop nds' rt' rids nid time with
  | Some f, Some f' => feq f f'
  | None, None => True
  | _, _ => False
  end.
Proof.
  induction rids as [|rid rids IH]; simpl; intros rt rt' Hn Hr; [exact Hr|].
  pose proof (m_add_one_ext nds nds' rt rt' rid nid time Hn Hr) as H1.
  destruct (m_add_one nds rt rid nid time) as [f|], (m_add_one nds' rt' rid nid time) as [f'|];
    try contradiction; [|exact I].
  apply IH; assumption.
Qed.

Lemma sim_add_loop nds rids nid time : forall rt acc (f : fmap k2 N),
  feq (fun k => tget k2_eqb k rt) f ->
  match r_add_loop nds rt rids nid time acc, m_add_loop (fun k => tget N.eqb k nds) f rids nid time with
  | inl (rt', _), Some f' => feq (fun k => tget k2_eqb k rt') f'
  | inr _, None => True
  | _, _ => False
  end.
Proof.
  induction rids as [|rid rids IH]; simpl; intros rt acc f Hf; [exact Hf|].
  pose proof (sim_add_one nds rt rid nid time) as H1.
  pose proof (m_add_one_ext (fun k => tget N.eqb k nds) (fun k => tget N.eqb k nds)
                (fun k => tget k2_eqb k rt) f rid nid time (fun k => eq_refl) Hf) as H2.
  destruct (r_add_one nds rt rid nid time) as [[rt1 r1]|];
    destruct (m_add_one (fun k => tget N.eqb k nds) (fun k => tget k2_eqb k rt) rid nid time) as [f1|];
    try contradiction.
  - destruct (m_add_one (fun k => tget N.eqb k nds) f rid nid time) as [f2|]; [|contradiction].
    apply IH. intros k. rewrite H1. apply H2.
  - destruct (m_add_one (fun k => tget N.eqb k nds) f rid nid time) as [f2|]; [contradiction|exact I].
Qed.

Lemma fold_mdel_sim (rids : list N) nid : forall (rt : table k2 N) (f : fmap k2 N),
  feq (fun k => tget k2_eqb k rt) f ->
  feq (fun k => tget k2_eqb k (fold_left (fun rt rid => tdel k2_eqb (rid, nid) rt) rids rt))
      (fold_left (fun rt rid => mdel k2_eqb rt (rid, nid)) rids f).
Proof.
  induction rids as [|r rids IH]; simpl; intros rt f Hf; [exact Hf|].
  apply IH. intros k. rewrite (tget_tdel k2_eqb k2_eqb_spec). unfold mdel.
  destruct (k2_eqb k (r, nid)); [reflexivity|apply Hf].
Qed.

Ltac meq_tac := split; simpl; intros ?k; try reflexivity.

Theorem step_refines s o :
  wf s -> meq (abs (fst (step s o))) (mstep (fresh_of s) (victim_of s o) (abs s) o).
Proof.
  intros Hwf. destruct o; simpl; try apply meq_refl.
  - (* NInsert *) unfold n_insert. destruct (N.ltb I64_MAX ts); [apply meq_refl|].
    destruct (tget N.eqb nid (nodes s)) as [t|].
    + destruct (N.ltb t ts); [|apply meq_refl]. meq_tac. apply (tget_tset N.eqb N.eqb_eq).
    + meq_tac. apply (tget_tset N.eqb N.eqb_eq).
  - (* NRemove *) unfold n_remove, tmem. destruct (tget N.eqb nid (nodes s)) as [t|]; [|apply meq_refl].
    meq_tac.
    + apply (tget_tdel N.eqb N.eqb_eq).
    + apply (tget_filter_key k2_eqb k2_eqb_spec (fun x => negb (N.eqb (snd x) nid))).
    + apply (tget_filter_key k2_eqb k2_eqb_spec (fun x => negb (N.eqb (snd x) nid))).
  - (* RAdd *) unfold r_add.
    pose proof (sim_add_loop (nodes s) rids nid time (routing s) [] (fun k => tget k2_eqb k (routing s))
                  (fun k => eq_refl)) as H.
    destruct (r_add_loop (nodes s) (routing s) rids nid time []) as [[rt' res]|e];
      destruct (m_add_loop (fun k => tget N.eqb k (nodes s)) (fun k => tget k2_eqb k (routing s)) rids nid time)
        as [f|]; try contradiction; [|apply meq_refl].
    meq_tac. apply H.
  - (* RRemove *) meq_tac. apply (tget_tdel k2_eqb k2_eqb_spec).
  - (* RRemoveMany *) meq_tac. apply (fold_mdel_sim rids nid (routing s)). intros k'. reflexivity.
  - (* RPrune *) unfold r_prune.
    destruct (N.ltb I64_MAX match limit with Some l => l | None => I64_MAX end); [apply meq_refl|].
    destruct (N.ltb I64_MAX oldest); [apply meq_refl|].
    meq_tac. rewrite filter_ext_keep.
    rewrite (tget_filter_key k2_eqb k2_eqb_spec). unfold mkeep. rewrite negb_involutive. reflexivity.
  - (* SSynced *) unfold s_synced. destruct (N.ltb I64_MAX ts); [apply meq_refl|].
    destruct (tget k2_eqb (rid, nid) (sync s)) as [[h t]|].
    + destruct (N.ltb t ts && negb (N.eqb h head)); [|apply meq_refl].
      meq_tac. apply (tget_tset k2_eqb k2_eqb_spec).
    + unfold tmem. destruct (tget N.eqb nid (nodes s)); [|apply meq_refl].
      meq_tac. apply (tget_tset k2_eqb k2_eqb_spec).
  - (* FSet *) unfold f_set. destruct (N.leb U64_LIM ts); [apply meq_refl|].
    destruct (N.ltb I64_MAX ts); [apply meq_refl|].
    destruct (tget k3_eqb (repo, ns, rf) (refs s)) as [[o t]|].
    + destruct (N.ltb t ts && negb (N.eqb o oid)); [|apply meq_refl].
      meq_tac. apply (tget_tset k3_eqb k3_eqb_spec).
    + meq_tac. apply (tget_tset k3_eqb k3_eqb_spec).
  - (* FDelete *) meq_tac. apply (tget_tdel k3_eqb k3_eqb_spec).
  - (* PFollow *) unfold p_follow. destruct (tget N.eqb id (following s)) as [[a p]|].
    + destruct (negb (N.eqb a alias)); [|apply meq_refl]. meq_tac. apply (tget_tset N.eqb N.eqb_eq).
    + meq_tac. apply (tget_tset N.eqb N.eqb_eq).
  - (* PSetFollow *) unfold p_set_follow. destruct (tget N.eqb id (following s)) as [[a p0]|].
    + destruct (negb (policy_eqb p0 p)); [|apply meq_refl]. meq_tac. apply (tget_tset N.eqb N.eqb_eq).
    + meq_tac. apply (tget_tset N.eqb N.eqb_eq).
  - (* PSeed *) unfold p_seed. destruct (tget N.eqb id (seeding s)) as [[sc0 p]|].
    + destruct (negb (scope_eqb sc0 sc)); [|apply meq_refl]. meq_tac. apply (tget_tset N.eqb N.eqb_eq).
    + meq_tac. apply (tget_tset N.eqb N.eqb_eq).
  - (* PSetSeed *) unfold p_set_seed. destruct (tget N.eqb id (seeding s)) as [[sc p0]|].
    + destruct (negb (policy_eqb p0 p)); [|apply meq_refl]. meq_tac. apply (tget_tset N.eqb N.eqb_eq).
    + meq_tac. apply (tget_tset N.eqb N.eqb_eq).
  - (* PUnfollow *) meq_tac. apply (tget_tdel N.eqb N.eqb_eq).
  - (* PUnseed *) meq_tac. apply (tget_tdel N.eqb N.eqb_eq).
  - (* PUnblockRid *) unfold p_unblock_rid. destruct (tget N.eqb id (seeding s)) as [[sc [|]]|]; try apply meq_refl.
    meq_tac. apply (tget_tdel N.eqb N.eqb_eq).
  - (* PUnblockNid *) unfold p_unblock_nid. destruct (tget N.eqb id (following s)) as [[a [|]]|]; try apply meq_refl.
    meq_tac. apply (tget_tdel N.eqb N.eqb_eq).
  - (* GAnnounced *) unfold g_announced. destruct (N.eqb ts 0); [apply meq_refl|].
    destruct (N.ltb I64_MAX ts); [apply meq_refl|].
    destruct (tget k3_eqb (gkey nid k) (gossip s)) as [r|].
    + destruct (N.ltb (g_ts r) ts); [|apply meq_refl]. meq_tac. apply (tget_tset k3_eqb k3_eqb_spec).
    + meq_tac. apply (tget_tset k3_eqb k3_eqb_spec).
  - (* GSetRelay *) unfold g_set_relay. destruct (negb (relay_bindable x)); [apply meq_refl|].
    meq_tac. rewrite (gget_map_relay (fun kr => N.eqb (g_id (snd kr)) id)). unfold mvals.
    destruct (tget k3_eqb k (gossip s)); reflexivity.
  - (* GRelays *) unfold g_relays. destruct (N.ltb I64_MAX now); [apply meq_refl|].
    meq_tac. rewrite (gget_map_relay (fun kr => relay_eqb (g_relay (snd kr)) Relay)). unfold mvals.
    destruct (tget k3_eqb k (gossip s)); reflexivity.
  - (* GPrune *) unfold g_prune. destruct (N.ltb I64_MAX cutoff); [apply meq_refl|].
    meq_tac. rewrite (tget_filter_val k3_eqb _ _ _ k3_eqb_spec (wf_gossip _ Hwf)). unfold mvals.
    destruct (tget k3_eqb k (gossip s)) as [r|]; [|reflexivity]. simpl.
    destruct (N.ltb (g_ts r) cutoff); reflexivity.
  - (* GFiltered *) unfold g_filtered.
    destruct (N.ltb I64_MAX from || N.ltb I64_MAX (if N.leb from to then to else from)); apply meq_refl.
Qed.

(* ------------------------------------------------------------------ the spec only looks at map contents *)

Lemma fold_mdel_ext (rids : list N) nid : forall (f f' : fmap k2 N),
  feq f f' ->
  feq (fold_left (fun rt rid => mdel k2_eqb rt (rid, nid)) rids f)
      (fold_left (fun rt rid => mdel k2_eqb rt (rid, nid)) rids f').
Proof.
  induction rids as [|r rids IH]; simpl; intros f f' Hf; [exact Hf|].
  apply IH. intros k. unfold mdel. destruct (k2_eqb k (r, nid)); [reflexivity|apply Hf].
Qed.

Ltac ext_tac H := split; simpl; try assumption; intros ?k; unfold mupd, mdel, mkeep, mvals;
  try rewrite <- H; try reflexivity.

Theorem mstep_ext fresh victim m m' o :
  meq m m' -> meq (mstep fresh victim m o) (mstep fresh victim m' o).
Proof.
  intros Hm. pose proof Hm as [Hn Hr Hs Hf Hfo Hse Hg]. destruct o; simpl; try exact Hm.
  - (* NInsert *) destruct (N.ltb I64_MAX ts); [exact Hm|]. rewrite <- (Hn nid).
    destruct (m_nodes m nid) as [t|]; [destruct (N.ltb t ts); [|exact Hm]|];
      ext_tac Hn; destruct (N.eqb k nid); reflexivity.
  - (* NRemove *) rewrite <- (Hn nid). destruct (m_nodes m nid); [|exact Hm].
    split; simpl; try assumption; intros k; unfold mdel, mkeep.
    + rewrite <- Hn. reflexivity.
    + rewrite <- Hr. reflexivity.
    + rewrite <- Hs. reflexivity.
  - (* RAdd *) pose proof (m_add_loop_ext (m_nodes m) (m_nodes m') rids nid time (m_routing m) (m_routing m') Hn Hr) as H.
    destruct (m_add_loop (m_nodes m) (m_routing m) rids nid time) as [f|],
             (m_add_loop (m_nodes m') (m_routing m') rids nid time) as [f'|]; try contradiction; [|exact Hm].
    split; simpl; assumption.
  - (* RRemove *) ext_tac Hr.
  - (* RRemoveMany *) split; simpl; try assumption. apply fold_mdel_ext. exact Hr.
  - (* RPrune *) destruct (N.ltb I64_MAX match limit with Some l => l | None => I64_MAX end); [exact Hm|].
    destruct (N.ltb I64_MAX oldest); [exact Hm|]. ext_tac Hr.
  - (* SSynced *) destruct (N.ltb I64_MAX ts); [exact Hm|]. rewrite <- (Hs (rid, nid)).
    destruct (m_sync m (rid, nid)) as [[h t]|].
    + destruct (N.ltb t ts && negb (N.eqb h head)); [|exact Hm]. ext_tac Hs.
    + rewrite <- (Hn nid). destruct (m_nodes m nid); [|exact Hm]. ext_tac Hs.
  - (* FSet *) destruct (N.leb U64_LIM ts); [exact Hm|]. destruct (N.ltb I64_MAX ts); [exact Hm|].
    rewrite <- (Hf (repo, ns, rf)). destruct (m_refs m (repo, ns, rf)) as [[o t]|].
    + destruct (N.ltb t ts && negb (N.eqb o oid)); [|exact Hm]. ext_tac Hf.
    + ext_tac Hf.
  - (* FDelete *) ext_tac Hf.
  - (* PFollow *) rewrite <- (Hfo id). destruct (m_following m id) as [[a p]|].
    + destruct (negb (N.eqb a alias)); [|exact Hm]. ext_tac Hfo.
    + ext_tac Hfo.
  - (* PSetFollow *) rewrite <- (Hfo id). destruct (m_following m id) as [[a p0]|].
    + destruct (negb (policy_eqb p0 p)); [|exact Hm]. ext_tac Hfo.
    + ext_tac Hfo.
  - (* PSeed *) rewrite <- (Hse id). destruct (m_seeding m id) as [[sc0 p]|].
    + destruct (negb (scope_eqb sc0 sc)); [|exact Hm]. ext_tac Hse.
    + ext_tac Hse.
  - (* PSetSeed *) rewrite <- (Hse id). destruct (m_seeding m id) as [[sc p0]|].
    + destruct (negb (policy_eqb p0 p)); [|exact Hm]. ext_tac Hse.
    + ext_tac Hse.
  - (* PUnfollow *) ext_tac Hfo.
  - (* PUnseed *) ext_tac Hse.
  - (* PUnblockRid *) rewrite <- (Hse id). destruct (m_seeding m id) as [[sc [|]]|]; try exact Hm. ext_tac Hse.
  - (* PUnblockNid *) rewrite <- (Hfo id). destruct (m_following m id) as [[a [|]]|]; try exact Hm. ext_tac Hfo.
  - (* GAnnounced *) destruct (N.eqb ts 0); [exact Hm|]. destruct (N.ltb I64_MAX ts); [exact Hm|].
    rewrite <- (Hg (gkey nid k)). destruct (m_gossip m (gkey nid k)) as [r|].
    + destruct (N.ltb (g_ts r) ts); [|exact Hm]. ext_tac Hg.
    + ext_tac Hg.
  - (* GSetRelay *) destruct (negb (relay_bindable x)); [exact Hm|]. ext_tac Hg.
  - (* GRelays *) destruct (N.ltb I64_MAX now); [exact Hm|]. ext_tac Hg.
  - (* GPrune *) destruct (N.ltb I64_MAX cutoff); [exact Hm|]. ext_tac Hg.
Qed.

(* ------------------------------------------------------------------ refinement over sequences *)

Lemma refinement_gen ops : forall s m,
  wf s -> meq (abs s) m -> meq (abs (exec s ops)) (mexec s m ops).
Proof.
  induction ops as [|o ops IH]; intros s m Hwf Hm; simpl.
  - exact Hm.
  - rewrite exec_cons. apply IH.
    + apply step_wf. exact Hwf.
    + eapply meq_trans; [apply step_refines; exact Hwf|]. apply mstep_ext. exact Hm.
Qed.

(* the stores after any operation sequence, read as maps, are the fold of the map spec *)
Theorem stores_refine_maps ops : forall s, wf s -> meq (abs (exec s ops)) (mexec s (abs s) ops).
Proof. intros s Hwf. apply refinement_gen; [exact Hwf|apply meq_refl]. Qed.

Corollary stores_refine_maps_from_empty ops : meq (abs (exec empty ops)) (mexec empty (abs empty) ops).
Proof. apply stores_refine_maps. apply wf_empty. Qed.

(* the map-level routing upsert does what the loop of SQL statements does, entry by entry *)
Lemma abs_empty_lookup : forall k, m_routing (abs empty) k = None.
Proof. reflexivity. Qed.
