(* ChangeGraphOrder.v — the `visit_by` traversal order and removal:
   if g' is g without a set R that is closed under dependents, then the
   traversal order of g' (from the surviving start keys) is the traversal
   order of g with the removed nodes filtered out.  Generic in the node values;
   needs the ordering to be a total preorder (slice::sort_by's contract; the
   change graph's `chronological` is one). *)
From HW Require Import lib.Base lib.SMap model.Dag proofs.DagBase proofs.DagOps proofs.DagTraverse
  proofs.DagRemove.
From Coq Require Import Sorted Permutation Relations.

(* ------------------------------------------------------------------ *)
(** * lists *)

Lemma filter_rev {A} (p : A -> bool) l : filter p (rev l) = rev (filter p l).
Proof.
  induction l as [|x l IH]; simpl; [reflexivity|].
  rewrite filter_app, IH. simpl. destruct (p x); simpl; [reflexivity | apply app_nil_r].
Qed.

Lemma filter_map_fst {A B} (p : A -> bool) (l : list (A * B)) :
  map fst (filter (fun x => p (fst x)) l) = filter p (map fst l).
Proof.
  induction l as [|[a b] l IH]; simpl; [reflexivity|]. destruct (p a); simpl; rewrite IH; reflexivity.
Qed.

Lemma sorted_lt_ext (l1 l2 : list N) : StronglySorted N.lt l1 -> StronglySorted N.lt l2 ->
  (forall x, In x l1 <-> In x l2) -> l1 = l2.
Proof.
  intros H1. revert l2. induction H1 as [|a l1 Hs1 IH Ha]; intros l2 H2 Heq.
  - destruct l2 as [|b l2]; [reflexivity|]. exfalso. apply (proj2 (Heq b)). left. reflexivity.
  - destruct H2 as [|b l2 Hs2 Hb].
    + exfalso. apply (proj1 (Heq a)). left. reflexivity.
    + rewrite Forall_forall in Ha, Hb.
      assert (a = b) as ->.
      { destruct (proj1 (Heq a) (or_introl eq_refl)) as [E|Hin]; [congruence|].
        destruct (proj2 (Heq b) (or_introl eq_refl)) as [E|Hin']; [exact E|].
        specialize (Ha _ Hin'). specialize (Hb _ Hin). lia. }
      f_equal. apply IH; [exact Hs2|]. intros x. split; intros Hx.
      * destruct (proj1 (Heq x) (or_intror Hx)) as [E|H]; [|exact H]. subst. specialize (Ha _ Hx). lia.
      * destruct (proj2 (Heq x) (or_intror Hx)) as [E|H]; [|exact H]. subst. specialize (Hb _ Hx). lia.
Qed.

Lemma sorted_lt_filter (p : N -> bool) l : StronglySorted N.lt l -> StronglySorted N.lt (filter p l).
Proof.
  induction 1 as [|a l Hs IH Ha]; simpl; [constructor|]. destruct (p a); [|exact IH].
  constructor; [exact IH|]. rewrite Forall_forall in *. intros x Hx. apply filter_In in Hx. apply Ha, Hx.
Qed.

(** the stable insertion sort commutes with filtering, for total preorders *)
Section SortFilter.
Context {A : Type} (cmp : A -> A -> comparison) (Hto : total_preorder cmp) (p : A -> bool).

Lemma sort_insert_all_le x l : (forall z, In z l -> cmp x z <> Gt) -> sort_insert cmp x l = x :: l.
Proof.
  destruct l as [|z l]; simpl; intros H; [reflexivity|].
  specialize (H z (or_introl eq_refl)). destruct (cmp x z); congruence.
Qed.

Lemma filter_sort_insert x l : StronglySorted (fun a b => cmp a b <> Gt) l ->
  filter p (sort_insert cmp x l) = if p x then sort_insert cmp x (filter p l) else filter p l.
Proof.
  destruct Hto as [Hopp Htr].
  induction 1 as [|y l Hs IH Hy]; simpl.
  - destruct (p x); reflexivity.
  - destruct (cmp x y) eqn:E.
    + (* x is placed in front: everything after is not smaller *)
      simpl. destruct (p x) eqn:Ex; [|reflexivity].
      symmetry. change (if p y then y :: filter p l else filter p l) with (filter p (y :: l)).
      apply sort_insert_all_le. intros z Hz. apply filter_In in Hz. destruct Hz as [[<-|Hz] _]; [congruence|].
      rewrite Forall_forall in Hy. apply (Htr x y z); [congruence | apply Hy; exact Hz].
    + simpl. destruct (p x) eqn:Ex; [|reflexivity].
      symmetry. change (if p y then y :: filter p l else filter p l) with (filter p (y :: l)).
      apply sort_insert_all_le. intros z Hz. apply filter_In in Hz. destruct Hz as [[<-|Hz] _]; [congruence|].
      rewrite Forall_forall in Hy. apply (Htr x y z); [congruence | apply Hy; exact Hz].
    + simpl. rewrite IH. destruct (p y) eqn:Ey; destruct (p x) eqn:Ex; simpl; try reflexivity.
      rewrite E. reflexivity.
Qed.

Lemma sort_by_filter l : sort_by cmp (filter p l) = filter p (sort_by cmp l).
Proof.
  induction l as [|x l IH]; [reflexivity|]. cbn [filter].
  change (sort_by cmp (x :: l)) with (sort_insert cmp x (sort_by cmp l)).
  rewrite filter_sort_insert by (apply sort_by_sorted; exact Hto).
  destruct (p x); [|exact IH]. change (sort_by cmp (x :: filter p l)) with (sort_insert cmp x (sort_by cmp (filter p l))).
  rewrite IH. reflexivity.
Qed.
End SortFilter.

(* ------------------------------------------------------------------ *)
(** * traversal: fuel monotonicity *)

Section Order.
Context {V : Type}.
Implicit Types (g : dag V) (nd : node V) (st : vstate).

Lemma dfs_mono children g : forall f key st r, dfs children f g key st = Some r ->
  dfs children (S f) g key st = Some r.
Proof.
  induction f as [|f IH]; intros key st r E; [discriminate|].
  rewrite dfs_unfold in E. rewrite dfs_unfold.
  destruct (sset_mem key (fst st)); [exact E|].
  destruct (lookup key (graph g)) as [nd|]; [|exact E].
  destruct (dfs_list children f g (children nd) (sset_add key (fst st), snd st)) as [s2|] eqn:E2; [|discriminate].
  assert (Hl : forall ks s s2, dfs_list children f g ks s = Some s2 -> dfs_list children (S f) g ks s = Some s2).
  { clear -IH. induction ks as [|k ks IHk]; intros s s2 H; [exact H|].
    rewrite dfs_list_cons in H. destruct (dfs children f g k s) as [s1|] eqn:E1; [|discriminate].
    rewrite dfs_list_cons. rewrite (IH _ _ _ E1). apply IHk. exact H. }
  rewrite (Hl _ _ _ E2). exact E.
Qed.

Lemma dfs_list_mono children g f ks st r : dfs_list children f g ks st = Some r ->
  forall f', (f <= f')%nat -> dfs_list children f' g ks st = Some r.
Proof.
  intros E f' Hle. induction Hle as [|f' _ IH]; [exact E|].
  clear E. revert st r IH. induction ks as [|k ks IHk]; intros st r H; [exact H|].
  rewrite dfs_list_cons in H. destruct (dfs children f' g k st) as [s1|] eqn:E1; [|discriminate].
  rewrite dfs_list_cons. rewrite (dfs_mono _ _ _ _ _ _ E1). apply IHk. exact H.
Qed.

(** what a traversal adds: new nodes, all reachable from the start key *)
Lemma dfs_new children g : children_ok g children ->
  forall f key st st2, sorted (fst st) -> dfs children f g key st = Some st2 ->
  sorted (fst st2) /\ exists new, snd st2 = new ++ snd st /\
    (forall x, sset_mem x (fst st2) = true <-> (sset_mem x (fst st) = true \/ In x new)) /\
    (forall x, In x new -> reach g key x).
Proof.
  intros Hok. induction f as [|f IH]; intros key st st2 Hs E; [discriminate|].
  rewrite dfs_unfold in E. destruct (sset_mem key (fst st)) eqn:Em.
  - inversion E; subst. split; [exact Hs|]. exists []. simpl. repeat split; tauto.
  - assert (Hs1 : sorted (sset_add key (fst st))) by (apply sorted_sset_add; exact Hs).
    destruct (lookup key (graph g)) as [nd|] eqn:El.
    + destruct (dfs_list children f g (children nd) (sset_add key (fst st), snd st)) as [s2|] eqn:E2; [|discriminate].
      inversion E; subst st2. clear E.
      assert (Hl : forall ks s s2, sorted (fst s) -> (forall d, In d ks -> edge g key d) ->
                 dfs_list children f g ks s = Some s2 ->
                 sorted (fst s2) /\ exists new, snd s2 = new ++ snd s /\
                   (forall x, sset_mem x (fst s2) = true <-> (sset_mem x (fst s) = true \/ In x new)) /\
                   (forall x, In x new -> exists d, edge g key d /\ reach g d x)).
      { clear -IH. induction ks as [|k ks IHk]; intros s s2 Hs Hed H.
        - inversion H; subst. split; [exact Hs|]. exists []. simpl. repeat split; tauto.
        - rewrite dfs_list_cons in H. destruct (dfs children f g k s) as [s1|] eqn:E1; [|discriminate].
          destruct (IH _ _ _ Hs E1) as [Hs1 [n1 [Ho1 [Hv1 Hr1]]]].
          destruct (IHk s1 s2 Hs1 (fun d Hd => Hed d (or_intror Hd)) H) as [Hs2 [n2 [Ho2 [Hv2 Hr2]]]].
          split; [exact Hs2|]. exists (n2 ++ n1). repeat split.
          + rewrite <- app_assoc. etransitivity; [exact Ho2|]. f_equal. exact Ho1.
          + rewrite Hv2, Hv1, in_app_iff. tauto.
          + rewrite Hv2, Hv1, in_app_iff. tauto.
          + intros x Hx. apply in_app_or in Hx. destruct Hx as [Hx|Hx]; [apply Hr2; exact Hx|].
            exists k. split; [apply Hed; left; reflexivity | apply Hr1; exact Hx]. }
      destruct (Hl (children nd) (sset_add key (fst st), snd st) s2 Hs1) as [Hs2 [n2 [Ho2 [Hv2 Hr2]]]]; [|exact E2|].
      { intros d Hd. exists nd. split; [exact El | apply (Hok key nd El); exact Hd]. }
      simpl in *. split; [exact Hs2|]. exists (key :: n2). repeat split.
      * rewrite Ho2. reflexivity.
      * intros Hx. apply Hv2 in Hx. rewrite sset_mem_add in Hx by exact Hs.
        rewrite orb_true_iff, N.eqb_eq in Hx. simpl. intuition (subst; auto).
      * intros Hx. apply Hv2. rewrite sset_mem_add by exact Hs. rewrite orb_true_iff, N.eqb_eq.
        simpl in Hx. intuition (subst; auto).
      * intros x [<-|Hx]; [constructor|]. destruct (Hr2 _ Hx) as [d [He Hr]]. econstructor; eassumption.
    + inversion E; subst st2. simpl. split; [exact Hs1|]. exists [key]. simpl. repeat split.
      * intros Hx. rewrite sset_mem_add in Hx by exact Hs. rewrite orb_true_iff, N.eqb_eq in Hx. intuition (subst; auto).
      * intros Hx. rewrite sset_mem_add by exact Hs. rewrite orb_true_iff, N.eqb_eq. intuition (subst; auto).
      * intros x [<-|[]]. constructor.
Qed.

(* ------------------------------------------------------------------ *)
(** * traversal of a graph and of the graph without a dependents-closed set *)

Section Removal.
Variables (g g' : dag V) (R : N -> Prop).
Variable ordering : N * V -> N * V -> comparison.
Hypothesis Hto : total_preorder ordering.
Hypothesis Hs : dag_shape g.
Hypothesis Hs' : dag_shape g'.
Hypothesis Hrm : removed g g' R.
Hypothesis Hcl : dclosed g R.

Definition keep (x : N) : bool := dag_contains g' x.

Lemma keep_spec x : keep x = true <-> in_graph g' x.
Proof. unfold keep, dag_contains, mem, in_graph. destruct (lookup x (graph g')); split; congruence. Qed.

Lemma keep_in x : keep x = true <-> (in_graph g x /\ ~ R x).
Proof. rewrite keep_spec. apply (removed_in_graph g g' R x Hrm). Qed.

Lemma keep_false x : in_graph g x -> keep x = false -> R x.
Proof.
  intros Hx Hk. destruct (rm_dec _ _ _ Hrm x Hx) as [H|H]; [exact H|].
  assert (keep x = true) by (apply keep_in; auto). congruence.
Qed.

Lemma present_filter l : (forall x, In x l -> in_graph g x) ->
  map (fun kn : N * node V => (fst kn, nvalue (snd kn))) (present g' (filter keep l)) =
  filter (fun x => keep (fst x)) (map (fun kn : N * node V => (fst kn, nvalue (snd kn))) (present g l)).
Proof.
  induction l as [|x l IH]; intros Hall; [reflexivity|].
  assert (Hx : in_graph g x) by (apply Hall; left; reflexivity).
  specialize (IH (fun y Hy => Hall y (or_intror Hy))).
  apply in_graph_lookup in Hx. destruct Hx as [nx Hnx].
  cbn [filter present flat_map]. rewrite Hnx. cbn [app map filter fst].
  destruct (keep x) eqn:Ek.
  - assert (Hrx : ~ R x) by (apply keep_in in Ek; tauto).
    destruct (rm_kept _ _ _ Hrm x nx Hnx Hrx) as [nx' [Enx' [Hvx _]]].
    cbn [present flat_map]. rewrite Enx'. cbn [app map snd fst]. rewrite Hvx. f_equal. exact IH.
  - exact IH.
Qed.

(** the dependents of a surviving node: the surviving dependents *)
Lemma dpts_filter k nd nd' : lookup k (graph g) = Some nd -> lookup k (graph g') = Some nd' ->
  nvalue nd' = nvalue nd /\ ndeps nd' = ndeps nd /\
  sset_elems (ndpts nd') = filter keep (sset_elems (ndpts nd)).
Proof.
  intros El El'.
  assert (Hk : ~ R k).
  { assert (keep k = true) by (apply keep_spec; unfold in_graph; congruence). apply keep_in in H. tauto. }
  destruct (rm_kept _ _ _ Hrm k nd El Hk) as [nd2 [El2 [Hv [Hd Hp]]]].
  rewrite El' in El2. inversion El2; subst nd2. clear El2.
  destruct (repr_nodes g (shape_repr g Hs) k nd El) as [_ Hsp].
  destruct (repr_nodes g' (shape_repr g' Hs') k nd' El') as [_ Hsp'].
  split; [exact Hv|]. split; [exact Hd|].
  apply sorted_lt_ext; [exact Hsp' | apply sorted_lt_filter; exact Hsp |].
  intros x. rewrite filter_In, <- !sset_mem_elems, Hp. split.
  - intros [H1 H2]. split; [exact H1|]. apply keep_in. split; [|exact H2].
    apply (edge_target g k x Hs). exists nd. split; [exact El | exact H1].
  - intros [H1 H2]. split; [exact H1|]. apply keep_in in H2. tauto.
Qed.

(** the children lists agree up to the removed nodes *)
Lemma children_filter k nd nd' : lookup k (graph g) = Some nd -> lookup k (graph g') = Some nd' ->
  visit_by_children ordering g' nd' = filter keep (visit_by_children ordering g nd).
Proof.
  intros El El'. destruct (dpts_filter k nd nd' El El') as [_ [_ Hel]].
  unfold visit_by_children. rewrite Hel, filter_rev. f_equal.
  rewrite <- filter_map_fst. f_equal.
  rewrite <- (sort_by_filter ordering Hto (fun x => keep (fst x))). f_equal.
  apply present_filter.
  intros x Hx. apply (edge_target g k x Hs). exists nd. split; [exact El | apply sset_mem_elems; exact Hx].
Qed.

Let c := visit_by_children ordering g.
Let c' := visit_by_children ordering g'.

Definition vrel st st' : Prop :=
  snd st' = filter keep (snd st) /\ sorted (fst st) /\ sorted (fst st') /\
  forall x, keep x = true -> sset_mem x (fst st') = sset_mem x (fst st).

Lemma dfs_sim : forall f key st st2 st', dfs c f g key st = Some st2 -> vrel st st' -> in_graph g key ->
  (keep key = true -> exists st2', dfs c' f g' key st' = Some st2' /\ vrel st2 st2') /\
  (keep key = false -> vrel st2 st').
Proof.
  induction f as [|f IH]; intros key st st2 st' E Hrel Hkey; [discriminate|].
  split.
  - (* a surviving node: both traversals take the same steps *)
    intros Hk. destruct Hrel as [Ho [Hso [Hso' Hv]]].
    rewrite dfs_unfold in E. rewrite dfs_unfold. rewrite (Hv key Hk).
    destruct (sset_mem key (fst st)) eqn:Em.
    { inversion E; subst. exists st'. split; [reflexivity|]. repeat split; assumption. }
    apply in_graph_lookup in Hkey. destruct Hkey as [nd El]. rewrite El in E.
    assert (Hk' := Hk). apply keep_spec, in_graph_lookup in Hk'. destruct Hk' as [nd' El']. rewrite El'.
    destruct (dfs_list c f g (c nd) (sset_add key (fst st), snd st)) as [s2|] eqn:E2; [|discriminate].
    inversion E; subst st2. clear E.
    unfold c' at 2. rewrite (children_filter key nd nd' El El'). fold (c nd).
    assert (Hl : forall ks s s2 s', (forall d, In d ks -> in_graph g d) ->
               dfs_list c f g ks s = Some s2 -> vrel s s' ->
               exists s2', dfs_list c' f g' (filter keep ks) s' = Some s2' /\ vrel s2 s2').
    { clear -IH. induction ks as [|k ks IHk]; intros s s2 s' Hin H Hrel.
      - inversion H; subst. exists s'. split; [reflexivity | exact Hrel].
      - rewrite dfs_list_cons in H. destruct (dfs c f g k s) as [s1|] eqn:E1; [|discriminate].
        destruct (IH k s s1 s' E1 Hrel (Hin k (or_introl eq_refl))) as [Hyes Hno].
        cbn [filter]. destruct (keep k) eqn:Ek.
        + destruct (Hyes eq_refl) as [s1' [E1' Hrel1]]. rewrite dfs_list_cons, E1'.
          apply (IHk s1 s2 s1'); auto. intros d Hd. apply Hin. right. exact Hd.
        + apply (IHk s1 s2 s'); auto. intros d Hd. apply Hin. right. exact Hd. }
    destruct (Hl (c nd) (sset_add key (fst st), snd st) s2 (sset_add key (fst st'), snd st')) as [s2' [E2' [Ho2 [Hso2 [Hso2' Hv2]]]]].
    + intros d Hd. apply (edge_target g key d Hs). exists nd. split; [exact El|].
      apply (visit_by_children_ok ordering g Hs key nd El). exact Hd.
    + exact E2.
    + repeat split; simpl; try assumption; try (apply sorted_sset_add; assumption).
      intros x Hx. rewrite !sset_mem_add by assumption. rewrite (Hv x Hx). reflexivity.
    + rewrite E2'. eexists. split; [reflexivity|]. repeat split; simpl; try assumption.
      rewrite Hk, Ho2. reflexivity.
  - (* a removed node: the traversal of g adds removed nodes only *)
    intros Hk. destruct Hrel as [Ho [Hso [Hso' Hv]]].
    destruct (dfs_new c g (visit_by_children_ok ordering g Hs) _ _ _ _ Hso E) as [Hso2 [new [Ho2 [Hv2 Hr2]]]].
    assert (Hnew : forall x, In x new -> keep x = false).
    { intros x Hx. destruct (keep x) eqn:Ex; [|reflexivity]. exfalso. apply keep_in in Ex.
      apply (proj2 Ex). apply (dclosed_reach g R key x Hcl (keep_false key Hkey Hk)). apply Hr2. exact Hx. }
    repeat split; try assumption.
    + rewrite Ho2, filter_app, Ho.
      assert (filter keep new = []) as ->; [|reflexivity].
      clear -Hnew. induction new as [|x l IHl]; [reflexivity|]. simpl.
      rewrite (Hnew x (or_introl eq_refl)). apply IHl. intros y Hy. apply Hnew. right. exact Hy.
    + intros x Hx. rewrite (Hv x Hx).
      destruct (sset_mem x (fst st)) eqn:A; destruct (sset_mem x (fst st2)) eqn:B; try reflexivity.
      * assert (sset_mem x (fst st2) = true) by (apply Hv2; auto). congruence.
      * apply Hv2 in B. destruct B as [B|B]; [congruence|]. rewrite (Hnew x B) in Hx. discriminate.
Qed.

(** the traversal order of the smaller graph is the filtered order of the larger one *)
Theorem prune_order_removed rts o : (forall s, In s rts -> in_graph g s) ->
  prune_order ordering g rts = Some o ->
  prune_order ordering g' (filter keep rts) = Some (filter keep o).
Proof.
  intros Hin. unfold prune_order.
  fold c. fold c'. destruct (dfs_list c (visit_fuel g) g rts ([], [])) as [st2|] eqn:E; [|simpl; intros Ho; discriminate Ho].
  simpl. intros Ho. inversion Ho; subst o. clear Ho.
  assert (Hl : forall f ks s s2 s', (forall d, In d ks -> in_graph g d) ->
             dfs_list c f g ks s = Some s2 -> vrel s s' ->
             exists s2', dfs_list c' f g' (filter keep ks) s' = Some s2' /\ vrel s2 s2').
  { intros f. induction ks as [|k ks IHk]; intros s s2 s' Hi H Hrel.
    - inversion H; subst. exists s'. split; [reflexivity | exact Hrel].
    - rewrite dfs_list_cons in H. destruct (dfs c f g k s) as [s1|] eqn:E1; [|discriminate].
      destruct (dfs_sim f k s s1 s' E1 Hrel (Hi k (or_introl eq_refl))) as [Hyes Hno].
      cbn [filter]. destruct (keep k) eqn:Ek.
      + destruct (Hyes eq_refl) as [s1' [E1' Hrel1]]. rewrite dfs_list_cons, E1'.
        apply (IHk s1 s2 s1'); auto. intros d Hd. apply Hi. right. exact Hd.
      + apply (IHk s1 s2 s'); auto. intros d Hd. apply Hi. right. exact Hd. }
  destruct (Hl (visit_fuel g) rts ([], []) st2 ([], []) Hin E) as [s2' [E' [Ho' _]]].
  { repeat split; try apply sorted_nil. }
  destruct (dfs_list_fuel_suffices c' g' (filter keep rts)) as [s3 E3].
  set (F := Nat.max (visit_fuel g) (visit_fuel g')).
  pose proof (dfs_list_mono c' g' _ _ _ _ E' F (Nat.le_max_l _ _)) as M1.
  pose proof (dfs_list_mono c' g' _ _ _ _ E3 F (Nat.le_max_r _ _)) as M2.
  rewrite M1 in M2. inversion M2; subst s3. fold c'. rewrite E3. simpl. rewrite Ho'. reflexivity.
Qed.

End Removal.
End Order.
