(* DagFuel.v — none of the fuel-bounded model functions ever runs out of fuel,
   on any graph the API can build (cyclic, asymmetric, with dangling edges):
   the fuel is a device to define the functions, not an assumption. *)
From HW Require Import lib.Base lib.SMap model.Dag proofs.DagBase proofs.DagOps
  proofs.DagTraverse proofs.DagBfs proofs.DagRemove.

Section Fuel.
Context {V : Type}.
Implicit Types (g : dag V).

Lemma sorted_by_total g compare : exists o, dag_sorted_by compare g = Some o.
Proof.
  unfold dag_sorted_by.
  destruct (dfs_list_fuel_suffices visit_children g
              (sort_by (fun a b => CompOpp (compare a b)) (keys (graph g)))) as [st E].
  rewrite E. simpl. eauto.
Qed.

Lemma fold_loop_total {A} g (filter : A -> N -> node V -> flow * A) order :
  forall skip acc, exists r, fold_loop g filter order skip acc = Some r.
Proof.
  induction order as [|next rest IH]; intros skip acc; cbn [fold_loop]; [eauto|].
  destruct (sset_mem next skip); [apply IH|].
  destruct (lookup next (graph g)) as [nd|]; [|apply IH].
  destruct (fst (filter acc next nd)).
  - destruct (IH skip (snd (filter acc next nd))) as [r E]. rewrite E. simpl. eauto.
  - destruct (descendants_total g nd) as [ds E]. rewrite E. cbn [obind].
    destruct (IH (sset_extend ds skip) (snd (filter acc next nd))) as [r E']. rewrite E'. simpl. eauto.
Qed.

Lemma fold_never_out_of_fuel {A} g rts (acc : A) filter :
  dag_fold_log g rts acc filter <> OutOfFuel /\ dag_fold g rts acc filter <> OutOfFuel.
Proof.
  assert (H : dag_fold_log g rts acc filter <> OutOfFuel).
  { unfold dag_fold_log, fold_order. destruct (strictly_ascending rts); [|discriminate].
    destruct (dfs_list_fuel_suffices visit_children g (rev rts)) as [st E]. rewrite E. cbn [option_map obind].
    destruct (fold_loop_total g filter (snd st) [] acc) as [r E']. rewrite E'. discriminate. }
  split; [exact H|]. unfold dag_fold. destruct (dag_fold_log g rts acc filter); congruence.
Qed.

Lemma prune_loop_total {A} (filter : prune_filter V A) order :
  forall g acc, dag_repr g -> exists r, prune_loop filter order g acc = Some r.
Proof.
  induction order as [|next rest IH]; intros g acc Hr; cbn [prune_loop]; [eauto|].
  destruct (lookup next (graph g)) as [nd|]; [|apply IH; exact Hr].
  destruct (siblings_total g next nd) as [sib E]. rewrite E. cbn [obind].
  destruct (fst (filter acc next nd (present g sib))); cbn [obind].
  - destruct (IH g (snd (filter acc next nd (present g sib))) Hr) as [r E']. rewrite E'. simpl. eauto.
  - destruct (remove_fuel_suffices g next Hr) as [g1 [E1 Hr1]]. rewrite E1. cbn [obind].
    destruct (IH g1 (snd (filter acc next nd (present g sib))) Hr1) as [r E']. rewrite E'. simpl. eauto.
Qed.

Lemma prune_by_total {A} g rts (acc : A) (filter : prune_filter V A) ordering : dag_repr g ->
  exists r, dag_prune_by g rts acc filter ordering = Some r.
Proof.
  intros Hr. unfold dag_prune_by, dag_prune_by_log, prune_order.
  destruct (dfs_list_fuel_suffices (visit_by_children ordering g) g rts) as [st E]. rewrite E.
  cbn [option_map obind]. destruct (prune_loop_total filter (snd st) g acc Hr) as [r E']. rewrite E'.
  simpl. eauto.
Qed.

End Fuel.

(** every sequence of API calls yields a graph satisfying the representation
    invariant (and never exhausts the fuel of `remove`) *)
Lemma build_from ops : forall g : dag N, dag_repr g ->
  exists g', fold_left apply_op ops (Some g) = Some g' /\ dag_repr g'.
Proof.
  induction ops as [|o ops' IH]; intros g Hr; [exists g; split; [reflexivity | exact Hr]|].
  cbn [fold_left apply_op obind]. destruct o as [k v|f t|k].
  - apply IH, node_repr, Hr.
  - apply IH, dep_repr, Hr.
  - destruct (remove_fuel_suffices g k Hr) as [g1 [E Hr1]]. rewrite E. apply IH, Hr1.
Qed.

Lemma build_repr ops : exists g, build ops = Some g /\ dag_repr g.
Proof. apply build_from, repr_new. Qed.
