(* QuorumProofs.v — proofs about model/Quorum.v (Canonical::quorum). *)
From HW Require Import lib.Base lib.SMap model.Quorum.
From Coq Require Import Sorted Permutation.
Local Open Scope N_scope.

(* ---------- what is assumed of the git history ---------- *)
Record GitHistory (anc : N -> N -> bool) (mb : N -> N -> option N) : Prop := {
  gh_refl : forall a, anc a a = true;
  gh_trans : forall a b c, anc a b = true -> anc b c = true -> anc a c = true;
  gh_antisym : forall a b, anc a b = true -> anc b a = true -> a = b;
  (* an ancestor is the merge base, whatever the argument order *)
  gh_mb_anc : forall a b, a <> b -> anc a b = true -> mb a b = Some a /\ mb b a = Some a;
  (* a merge base is a common ancestor *)
  gh_mb_common : forall a b c, mb a b = Some c -> anc c a = true /\ anc c b = true
}.

(* ---------- generic list / sorted-map facts ---------- *)
Lemma ssorted_NoDup (l : list N) : StronglySorted N.lt l -> NoDup l.
Proof.
  induction 1 as [|x l Hs IH Hall]; constructor; [|exact IH].
  intros Hin. rewrite Forall_forall in Hall. specialize (Hall _ Hin). lia.
Qed.

Lemma sorted_keys_NoDup {V} (m : smap V) : sorted m -> NoDup (keys m).
Proof. apply ssorted_NoDup. Qed.

Lemma sorted_filter {V} (f : N * V -> bool) (m : smap V) : sorted m -> sorted (filter f m).
Proof.
  induction m as [|[k v] m IH]; simpl; intros Hs; [exact Hs|].
  apply sorted_cons_inv in Hs. destruct Hs as [Hs Hall].
  destruct (f (k, v)); [|apply IH; exact Hs].
  apply sorted_cons; [apply IH; exact Hs|].
  clear IH Hs. induction m as [|[k2 v2] m IH]; simpl; [constructor|].
  inversion Hall; subst. destruct (f (k2, v2)); simpl; [constructor; auto | auto].
Qed.

Lemma lookup_filter {V} (f : N * V -> bool) (m : smap V) k v : sorted m ->
  (lookup k (filter f m) = Some v <-> lookup k m = Some v /\ f (k, v) = true).
Proof.
  intros Hs. split.
  - intros H. apply lookup_In in H. apply filter_In in H. destruct H as [H1 H2].
    split; [apply In_lookup; assumption | exact H2].
  - intros [H1 H2]. apply In_lookup; [apply sorted_filter; exact Hs|].
    apply filter_In. split; [apply lookup_In; exact H1 | exact H2].
Qed.

Lemma in_keys_lookup {V} (m : smap V) k : In k (keys m) <-> exists v, lookup k m = Some v.
Proof.
  rewrite <- lookup_in_keys. destruct (lookup k m) as [v|].
  - split; [intros _; exists v; reflexivity | congruence].
  - split; [congruence | intros [v Hv]; discriminate].
Qed.

Lemma NoDup_map_filter {A} (f : A -> bool) (g : A -> N) (l : list A) :
  NoDup (map g l) -> NoDup (map g (filter f l)).
Proof.
  induction l as [|x l IH]; simpl; intros H; [constructor|].
  inversion H as [|? ? Hnin Hnd]; subst.
  destruct (f x); simpl; [|apply IH; exact Hnd].
  constructor; [|apply IH; exact Hnd].
  intros Hin. apply Hnin. apply in_map_iff in Hin. destruct Hin as [y [E Hy]].
  apply filter_In in Hy. apply in_map_iff. exists y. tauto.
Qed.

Lemma NoDup_same_length (l1 l2 : list N) :
  NoDup l1 -> NoDup l2 -> (forall x, In x l1 <-> In x l2) -> length l1 = length l2.
Proof.
  intros H1 H2 H. apply Permutation_length. apply NoDup_Permutation; assumption.
Qed.

(* ---------- sets of delegates ---------- *)
Lemma sset_add_sorted d (s : sset) : sorted s -> sorted (sset_add d s).
Proof. apply sorted_upsert. Qed.

Lemma sset_add_keys d (s : sset) x : sorted s ->
  (In x (keys (sset_add d s)) <-> x = d \/ In x (keys s)).
Proof.
  intros Hs. rewrite <- !lookup_in_keys. unfold sset_add, insert.
  rewrite lookup_upsert by exact Hs.
  destruct (N.eqb_spec x d) as [->|Hne].
  - split; [intros _; left; reflexivity | intros _; destruct (lookup d s); congruence].
  - split; [intros H; right; exact H | intros [E|H]; [contradiction | exact H]].
Qed.

Lemma sset_add_nonempty d (s : sset) : sset_add d s <> [].
Proof.
  unfold sset_add, insert. destruct s as [|[k v] s]; simpl; [congruence|].
  destruct (N.compare d k); congruence.
Qed.

(* ---------- the candidates map ---------- *)
Definition wfc (m : cands) : Prop :=
  sorted m /\ forall c s, lookup c m = Some s -> sorted s /\ s <> [].

Definition Rel (m : cands) (c d : N) : Prop :=
  exists s, lookup c m = Some s /\ In d (keys s).

Lemma wfc_nil : wfc [].
Proof. split; [apply sorted_nil | intros c s H; discriminate]. Qed.

Lemma lookup_vote c d m c' : sorted m ->
  lookup c' (vote c d m) =
  if N.eqb c' c then Some (match lookup c m with Some o => sset_add d o | None => sset_add d [] end)
  else lookup c' m.
Proof. intros Hs. unfold vote. rewrite lookup_upsert by exact Hs. reflexivity. Qed.

Lemma vote_wfc c d m : wfc m -> wfc (vote c d m).
Proof.
  intros [Hs Hw]. split; [apply sorted_upsert; exact Hs|].
  intros c' s H. rewrite lookup_vote in H by exact Hs.
  destruct (N.eqb_spec c' c) as [->|Hne]; [|apply Hw with c'; exact H].
  inversion H; subst s; clear H.
  destruct (lookup c m) as [o|] eqn:E.
  - split; [apply sset_add_sorted; apply (Hw c o E) | apply sset_add_nonempty].
  - split; [apply sset_add_sorted; apply sorted_nil | apply sset_add_nonempty].
Qed.

Lemma vote_Rel c d m c' d' : wfc m ->
  (Rel (vote c d m) c' d' <-> Rel m c' d' \/ (c' = c /\ d' = d)).
Proof.
  intros [Hs Hw]. unfold Rel. rewrite lookup_vote by exact Hs.
  destruct (N.eqb_spec c' c) as [->|Hne].
  - destruct (lookup c m) as [o|] eqn:E.
    + split.
      * intros [s [H1 H2]]. inversion H1; subst s.
        apply sset_add_keys in H2; [|apply (Hw c o E)].
        destruct H2 as [->|H2]; [right; split; reflexivity | left; exists o; split; [reflexivity | exact H2]].
      * intros [[s [H1 H2]]|[_ ->]].
        -- inversion H1; subst s. eexists; split; [reflexivity|].
           apply sset_add_keys; [apply (Hw c o E) | right; exact H2].
        -- eexists; split; [reflexivity|]. apply sset_add_keys; [apply (Hw c o E) | left; reflexivity].
    + split.
      * intros [s [H1 H2]]. inversion H1; subst s.
        apply sset_add_keys in H2; [|apply sorted_nil].
        destruct H2 as [->|H2]; [right; split; reflexivity | destruct H2].
      * intros [[s [H1 H2]]|[_ ->]]; [discriminate|].
        eexists; split; [reflexivity|]. apply sset_add_keys; [apply sorted_nil | left; reflexivity].
  - split; [intros H; left; exact H | intros [H|[E _]]; [exact H | contradiction]].
Qed.

Section WithHistory.
Variable anc : N -> N -> bool.
Variable mb : N -> N -> option N.
Hypothesis GH : GitHistory anc mb.

Lemma mb_cases head other base : head <> other -> mb head other = Some base ->
  (base = other <-> anc other head = true) /\
  (base = head <-> anc head other = true).
Proof.
  intros Hne Hmb. destruct (gh_mb_common _ _ GH _ _ _ Hmb) as [Hb1 Hb2].
  split; split.
  - intros ->. exact Hb1.
  - intros Ha. destruct (gh_mb_anc _ _ GH other head (not_eq_sym Hne) Ha) as [_ E].
    congruence.
  - intros ->. exact Hb2.
  - intros Ha. destruct (gh_mb_anc _ _ GH head other Hne Ha) as [E _]. congruence.
Qed.

(* ---------- phase 1: who votes for what ---------- *)
Definition InnerNew (did head : N) (rest : list (N * N)) (c d : N) : Prop :=
  exists odid other, In (odid, other) rest /\ head <> other /\
    ((c = other /\ d = did /\ anc other head = true) \/
     (c = head /\ d = odid /\ anc head other = true)).

Lemma InnerNew_cons did head odid other rest c d :
  InnerNew did head ((odid, other) :: rest) c d <->
  (head <> other /\ ((c = other /\ d = did /\ anc other head = true) \/
                     (c = head /\ d = odid /\ anc head other = true))) \/
  InnerNew did head rest c d.
Proof.
  unfold InnerNew. split.
  - intros [od [ot [[E|Hin] H]]].
    + inversion E; subst. left. exact H.
    + right. exists od, ot. split; assumption.
  - intros [H|[od [ot [Hin H]]]].
    + exists odid, other. split; [left; reflexivity | exact H].
    + exists od, ot. split; [right; exact Hin | exact H].
Qed.

Lemma inner_spec did head : forall rest m m', wfc m ->
  inner mb did head rest m = Some m' ->
  wfc m' /\ forall c d, Rel m' c d <-> Rel m c d \/ InnerNew did head rest c d.
Proof.
  induction rest as [|[odid other] rest IH]; intros m m' Hw H; cbn [inner] in H.
  - inversion H; subst m'. split; [exact Hw|].
    intros c d. split; [intros Hr; left; exact Hr|].
    intros [Hr|[od [ot [[] _]]]]. exact Hr.
  - destruct (N.eqb_spec head other) as [E|Hne].
    + destruct (IH _ _ Hw H) as [Hw' Hr]. split; [exact Hw'|].
      intros c d. rewrite Hr, InnerNew_cons. split; [tauto|].
      intros [Hm|[[Hc _]|Hi]]; [left; exact Hm | contradiction | right; exact Hi].
    + destruct (mb head other) as [base|] eqn:Hmb; [|discriminate].
      destruct (mb_cases _ _ _ Hne Hmb) as [Ho Hh].
      destruct (N.eqb base other) eqn:Eo.
      * apply N.eqb_eq in Eo. subst base.
        assert (Ha : anc other head = true) by (apply Ho; reflexivity).
        assert (Hna : anc head other = true -> False).
        { intros Hx. apply Hne. apply (gh_antisym _ _ GH); assumption. }
        destruct (IH _ _ (vote_wfc other did m Hw) H) as [Hw' Hr]. split; [exact Hw'|].
        intros c d. rewrite Hr, InnerNew_cons, vote_Rel by exact Hw. split.
        -- intros [[Hm|[-> ->]]|Hi]; [left; exact Hm | | right; right; exact Hi].
           right; left. split; [exact Hne|]. left. auto.
        -- intros [Hm|[[_ [[-> [-> _]]|[_ [_ Hx]]]]|Hi]].
           ++ left; left; exact Hm.
           ++ left; right; auto.
           ++ destruct (Hna Hx).
           ++ right; exact Hi.
      * destruct (N.eqb base head) eqn:Eh.
        -- apply N.eqb_eq in Eh. subst base.
           assert (Ha : anc head other = true) by (apply Hh; reflexivity).
           assert (Hna : anc other head = true -> False).
           { intros Hx. apply Hne. apply (gh_antisym _ _ GH); assumption. }
           destruct (IH _ _ (vote_wfc head odid m Hw) H) as [Hw' Hr]. split; [exact Hw'|].
           intros c d. rewrite Hr, InnerNew_cons, vote_Rel by exact Hw. split.
           ++ intros [[Hm|[-> ->]]|Hi]; [left; exact Hm | | right; right; exact Hi].
              right; left. split; [exact Hne|]. right. auto.
           ++ intros [Hm|[[_ [[_ [_ Hx]]|[-> [-> _]]]]|Hi]].
              ** left; left; exact Hm.
              ** destruct (Hna Hx).
              ** left; right; auto.
              ** right; exact Hi.
        -- destruct (IH _ _ Hw H) as [Hw' Hr]. split; [exact Hw'|].
           intros c d. rewrite Hr, InnerNew_cons. split; [tauto|].
           intros [Hm|[[_ [[_ [_ Hx]]|[_ [_ Hx]]]]|Hi]].
           ++ left; exact Hm.
           ++ apply Ho in Hx. apply N.eqb_neq in Eo. contradiction.
           ++ apply Hh in Hx. apply N.eqb_neq in Eh. contradiction.
           ++ right; exact Hi.
Qed.

(* delegate d supports commit c: c is one of the tips and is equal to, or an
   ancestor of, d's tip *)
Definition Support (tips : list (N * N)) (c d : N) : Prop :=
  In c (map snd tips) /\ exists t, In (d, t) tips /\ anc c t = true.

Lemma Support_cons did head rest c d :
  Support ((did, head) :: rest) c d <->
  (c = head /\ d = did) \/ InnerNew did head rest c d \/ Support rest c d.
Proof.
  unfold Support. cbn [map snd In]. split.
  - intros [Hc [t [[E|Hin] Ha]]].
    + inversion E; subst d t. destruct Hc as [->|Hc]; [left; auto|].
      apply in_map_iff in Hc. destruct Hc as [[od ot] [Eo Hin]]. cbn in Eo. subst ot.
      destruct (N.eq_dec head c) as [->|Hne]; [left; auto|].
      right; left. exists od, c. split; [exact Hin|]. split; [exact Hne|]. left. auto.
    + destruct Hc as [<-|Hc].
      * destruct (N.eq_dec head t) as [<-|Hne].
        -- right; right. split; [apply in_map_iff; exists (d, head); auto|].
           exists head. auto.
        -- right; left. exists d, t. split; [exact Hin|]. split; [exact Hne|]. right. auto.
      * right; right. split; [exact Hc|]. exists t. auto.
  - intros [[-> ->]|[[od [ot [Hin [Hne [[-> [-> Ha]]|[-> [-> Ha]]]]]]]|[Hc [t [Hin Ha]]]]].
    + split; [left; reflexivity|]. exists head. split; [left; reflexivity | apply (gh_refl _ _ GH)].
    + split; [right; apply in_map_iff; exists (od, ot); auto|].
      exists head. split; [left; reflexivity | exact Ha].
    + split; [left; reflexivity|]. exists ot. split; [right; exact Hin | exact Ha].
    + split; [right; exact Hc|]. exists t. split; [right; exact Hin | exact Ha].
Qed.

Lemma outer_spec : forall tips m m', wfc m -> outer mb tips m = Some m' ->
  wfc m' /\ forall c d, Rel m' c d <-> Rel m c d \/ Support tips c d.
Proof.
  induction tips as [|[did head] rest IH]; intros m m' Hw H; cbn [outer] in H.
  - inversion H; subst m'. split; [exact Hw|].
    intros c d. split; [intros Hr; left; exact Hr|].
    intros [Hr|[[] _]]. exact Hr.
  - destruct (inner mb did head rest (vote head did m)) as [m1|] eqn:Hin; [|discriminate].
    destruct (inner_spec _ _ _ _ _ (vote_wfc head did m Hw) Hin) as [Hw1 Hr1].
    destruct (IH _ _ Hw1 H) as [Hw' Hr]. split; [exact Hw'|].
    intros c d. rewrite Hr, Hr1, vote_Rel, Support_cons by exact Hw. tauto.
Qed.

(* the delegates whose tip descends from (or is) c, with their tips *)
Definition supporters (tips : list (N * N)) (c : N) : list (N * N) :=
  filter (fun dt => anc c (snd dt)) tips.

Definition supported (tips : list (N * N)) (thr c : N) : Prop :=
  In c (map snd tips) /\ thr <= N.of_nat (length (supporters tips c)).

Lemma supporters_In tips c d : In c (map snd tips) ->
  (In d (map fst (supporters tips c)) <-> Support tips c d).
Proof.
  intros Hc. unfold Support, supporters. rewrite in_map_iff. split.
  - intros [[d' t] [E H]]. cbn in E. subst d'. apply filter_In in H. cbn in H.
    split; [exact Hc|]. exists t. exact H.
  - intros [_ [t [Hin Ha]]]. exists (d, t). split; [reflexivity|].
    apply filter_In. split; assumption.
Qed.

Lemma voters_length tips m c s : NoDup (map fst tips) ->
  outer mb tips [] = Some m -> lookup c m = Some s ->
  In c (map snd tips) /\ length s = length (supporters tips c).
Proof.
  intros Hnd Ho Hl. destruct (outer_spec _ _ _ wfc_nil Ho) as [[Hs Hw] Hr].
  destruct (Hw _ _ Hl) as [Hss Hne].
  assert (Hrel : forall d, In d (keys s) <-> Support tips c d).
  { intros d. split.
    - intros Hd. assert (R : Rel m c d) by (exists s; auto).
      apply Hr in R. destruct R as [[s0 [Hs0 _]]|R]; [discriminate | exact R].
    - intros Hd. assert (R : Rel m c d) by (apply Hr; right; exact Hd).
      destruct R as [s0 [Hs0 Hd0]]. congruence. }
  assert (Hc : In c (map snd tips)).
  { destruct s as [|[d u] s]; [congruence|].
    assert (Hd : In d (keys ((d, u) :: s))) by (left; reflexivity).
    apply Hrel in Hd. apply Hd. }
  split; [exact Hc|].
  rewrite <- (map_length fst s), <- (map_length fst (supporters tips c)).
  apply NoDup_same_length.
  - apply sorted_keys_NoDup. exact Hss.
  - apply NoDup_map_filter. exact Hnd.
  - intros d. fold (keys s). rewrite Hrel, supporters_In by exact Hc. tauto.
Qed.

Lemma tip_has_voters tips m c : outer mb tips [] = Some m ->
  In c (map snd tips) -> exists s, lookup c m = Some s.
Proof.
  intros Ho Hc. destruct (outer_spec _ _ _ wfc_nil Ho) as [_ Hr].
  pose proof Hc as Hc'. apply in_map_iff in Hc'. destruct Hc' as [[d t] [E Hin]]. cbn in E. subst t.
  assert (R : Rel m c d).
  { apply Hr. right. split; [exact Hc|]. exists c. split; [exact Hin | apply (gh_refl _ _ GH)]. }
  destruct R as [s [Hs _]]. exists s. exact Hs.
Qed.

(* the candidates that survive `retain` are exactly the sufficiently
   supported tips *)
Lemma cand_iff tips thr m c : NoDup (map fst tips) -> outer mb tips [] = Some m ->
  (In c (keys (retain thr m)) <-> supported tips thr c).
Proof.
  intros Hnd Ho. destruct (outer_spec _ _ _ wfc_nil Ho) as [[Hs _] _].
  rewrite in_keys_lookup. unfold retain, supported. split.
  - intros [s Hl]. apply lookup_filter in Hl; [|exact Hs]. destruct Hl as [Hl Hf]. cbn in Hf.
    destruct (voters_length _ _ _ _ Hnd Ho Hl) as [Hc Hlen]. split; [exact Hc|].
    apply N.leb_le in Hf. rewrite <- Hlen. exact Hf.
  - intros [Hc Hthr]. destruct (tip_has_voters _ _ _ Ho Hc) as [s Hl].
    exists s. apply lookup_filter; [exact Hs|]. split; [exact Hl|]. cbn.
    destruct (voters_length _ _ _ _ Hnd Ho Hl) as [_ Hlen].
    apply N.leb_le. rewrite Hlen. exact Hthr.
Qed.

Lemma retain_keys_NoDup tips thr m : outer mb tips [] = Some m -> NoDup (keys (retain thr m)).
Proof.
  intros Ho. destruct (outer_spec _ _ _ wfc_nil Ho) as [[Hs _] _].
  apply sorted_keys_NoDup. apply sorted_filter. exact Hs.
Qed.

(* ---------- phase 2: the longest supported branch ---------- *)
Lemma fold_ok : forall rest longest h, ~ In longest rest -> NoDup rest ->
  longest_fold mb longest rest = QOk h ->
  (h = longest \/ In h rest) /\ anc longest h = true /\ forall c, In c rest -> anc c h = true.
Proof.
  induction rest as [|head rest IH]; intros longest h Hnin Hnd H; cbn [longest_fold] in H.
  - inversion H; subst h. split; [left; reflexivity|]. split; [apply (gh_refl _ _ GH)|].
    intros c [].
  - assert (Hne : head <> longest) by (intros ->; apply Hnin; left; reflexivity).
    inversion Hnd as [|? ? Hnh Hnd']; subst.
    destruct (mb head longest) as [base|] eqn:Hmb; [|discriminate].
    destruct (mb_cases _ _ _ Hne Hmb) as [Hl Hh].
    destruct (N.eqb base longest) eqn:El.
    + assert (Ha : anc longest head = true) by (apply Hl; apply N.eqb_eq; exact El).
      destruct (IH head h Hnh Hnd' H) as [Hin [Hah Hall]].
      split; [destruct Hin as [->|Hin]; right; [left; reflexivity | right; exact Hin]|].
      split; [apply (gh_trans _ _ GH) with head; assumption|].
      intros c [<-|Hc]; [exact Hah | apply Hall; exact Hc].
    + destruct (N.eqb_spec head longest) as [E|_]; [contradiction|].
      rewrite orb_false_r in H.
      destruct (N.eqb base head) eqn:Eh; [|discriminate].
      assert (Ha : anc head longest = true) by (apply Hh; apply N.eqb_eq; exact Eh).
      assert (Hnin' : ~ In longest rest) by (intros Hx; apply Hnin; right; exact Hx).
      destruct (IH longest h Hnin' Hnd' H) as [Hin [Hah Hall]].
      split; [destruct Hin as [->|Hin]; [left; reflexivity | right; right; exact Hin]|].
      split; [exact Hah|].
      intros c [<-|Hc]; [apply (gh_trans _ _ GH) with longest; assumption | apply Hall; exact Hc].
Qed.

Lemma fold_diverging : forall rest longest b l x, ~ In longest rest -> NoDup rest ->
  longest_fold mb longest rest = QDiverging b l x ->
  (l = longest \/ In l rest) /\ In x rest /\ l <> x /\
  anc l x = false /\ anc x l = false /\ mb x l = Some b.
Proof.
  induction rest as [|head rest IH]; intros longest b l x Hnin Hnd H; cbn [longest_fold] in H.
  - discriminate.
  - assert (Hne : head <> longest) by (intros ->; apply Hnin; left; reflexivity).
    inversion Hnd as [|? ? Hnh Hnd']; subst.
    destruct (mb head longest) as [base|] eqn:Hmb; [|discriminate].
    destruct (mb_cases _ _ _ Hne Hmb) as [Hl Hh].
    destruct (N.eqb base longest) eqn:El.
    + destruct (IH head b l x Hnh Hnd' H) as [Hin [Hx Hrest]].
      split; [destruct Hin as [->|Hin]; right; [left; reflexivity | right; exact Hin]|].
      split; [right; exact Hx | exact Hrest].
    + destruct (N.eqb_spec head longest) as [E|_]; [contradiction|].
      rewrite orb_false_r in H.
      destruct (N.eqb base head) eqn:Eh.
      * assert (Hnin' : ~ In longest rest) by (intros Hx; apply Hnin; right; exact Hx).
        destruct (IH longest b l x Hnin' Hnd' H) as [Hin [Hx Hrest]].
        split; [destruct Hin as [->|Hin]; [left; reflexivity | right; right; exact Hin]|].
        split; [right; exact Hx | exact Hrest].
      * inversion H; subst b l x.
        split; [left; reflexivity|]. split; [left; reflexivity|].
        split; [apply not_eq_sym; exact Hne|].
        split; [|split; [|exact Hmb]].
        -- destruct (anc longest head) eqn:Ea; [|reflexivity].
           assert (Hx : base = longest) by (apply Hl; reflexivity). apply N.eqb_neq in El. contradiction.
        -- destruct (anc head longest) eqn:Ea; [|reflexivity].
           assert (Hx : base = head) by (apply Hh; reflexivity). apply N.eqb_neq in Eh. contradiction.
Qed.

Lemma fold_not_nocand : forall rest longest, longest_fold mb longest rest <> QNoCandidates.
Proof.
  induction rest as [|head rest IH]; intros longest; cbn [longest_fold]; [congruence|].
  destruct (mb head longest) as [base|]; [|congruence].
  destruct (N.eqb base longest); [apply IH|].
  destruct (N.eqb base head || N.eqb head longest); [apply IH | congruence].
Qed.

Lemma fold_git : forall rest longest, ~ In longest rest -> NoDup rest ->
  longest_fold mb longest rest = QGit ->
  exists a b, In a (longest :: rest) /\ In b (longest :: rest) /\ a <> b /\ mb a b = None.
Proof.
  induction rest as [|head rest IH]; intros longest Hnin Hnd H; cbn [longest_fold] in H; [discriminate|].
  assert (Hne : head <> longest) by (intros ->; apply Hnin; left; reflexivity).
  inversion Hnd as [|? ? Hnh Hnd']; subst.
  assert (Hnin' : ~ In longest rest) by (intros Hx; apply Hnin; right; exact Hx).
  destruct (mb head longest) as [base|] eqn:Hmb.
  - destruct (N.eqb base longest).
    + destruct (IH _ Hnh Hnd' H) as [a [b [Ha [Hb Hn]]]]. exists a, b.
      split; [right; exact Ha|]. split; [right; exact Hb | exact Hn].
    + destruct (N.eqb base head || N.eqb head longest); [|discriminate].
      destruct (IH _ Hnin' Hnd' H) as [a [b [Ha [Hb Hn]]]]. exists a, b.
      split; [destruct Ha as [<-|Ha]; [left; reflexivity | right; right; exact Ha]|].
      split; [destruct Hb as [<-|Hb]; [left; reflexivity | right; right; exact Hb] | exact Hn].
  - exists head, longest. split; [right; left; reflexivity|]. split; [left; reflexivity | auto].
Qed.

(* ---------- phase 1 never fails when every pair of tips has a merge base ---------- *)
Definition git_ok (tips : list (N * N)) : Prop :=
  forall a b, In a (map snd tips) -> In b (map snd tips) -> a <> b -> mb a b <> None.

Lemma inner_some did head : forall rest m,
  (forall other, In other (map snd rest) -> head <> other -> mb head other <> None) ->
  exists m', inner mb did head rest m = Some m'.
Proof.
  induction rest as [|[odid other] rest IH]; intros m H; cbn [inner]; [eexists; reflexivity|].
  assert (H' : forall o, In o (map snd rest) -> head <> o -> mb head o <> None).
  { intros o Ho. apply H. right. exact Ho. }
  destruct (N.eqb_spec head other) as [E|Hne]; [apply IH; exact H'|].
  destruct (mb head other) as [base|] eqn:Hmb; [apply IH; exact H'|].
  exfalso. apply (H other); [left; reflexivity | exact Hne | exact Hmb].
Qed.

Lemma outer_some : forall tips m, git_ok tips -> exists m', outer mb tips m = Some m'.
Proof.
  induction tips as [|[did head] rest IH]; intros m H; cbn [outer]; [eexists; reflexivity|].
  destruct (inner_some did head rest (vote head did m)) as [m1 Hm1].
  { intros other Ho Hne. apply H; [left; reflexivity | right; exact Ho | exact Hne]. }
  rewrite Hm1. apply IH. intros a b Ha Hb. apply H; right; assumption.
Qed.

Lemma inner_none did head : forall rest m, inner mb did head rest m = None ->
  exists other, In other (map snd rest) /\ head <> other /\ mb head other = None.
Proof.
  induction rest as [|[odid other] rest IH]; intros m H; cbn [inner] in H; [discriminate|].
  destruct (N.eqb_spec head other) as [E|Hne].
  - destruct (IH _ H) as [o [Ho Hx]]. exists o. split; [right; exact Ho | exact Hx].
  - destruct (mb head other) as [base|] eqn:Hmb.
    + destruct (IH _ H) as [o [Ho Hx]]. exists o. split; [right; exact Ho | exact Hx].
    + exists other. split; [left; reflexivity | auto].
Qed.

Lemma outer_none : forall tips m, outer mb tips m = None ->
  exists a b, In a (map snd tips) /\ In b (map snd tips) /\ a <> b /\ mb a b = None.
Proof.
  induction tips as [|[did head] rest IH]; intros m H; cbn [outer] in H; [discriminate|].
  destruct (inner mb did head rest (vote head did m)) as [m1|] eqn:Hin.
  - destruct (IH _ H) as [a [b [Ha [Hb Hx]]]]. exists a, b.
    split; [right; exact Ha|]. split; [right; exact Hb | exact Hx].
  - destruct (inner_none _ _ _ _ Hin) as [o [Ho [Hne Hx]]]. exists head, o.
    split; [left; reflexivity|]. split; [right; exact Ho | auto].
Qed.

(* ---------- the theorems ---------- *)
Section Main.
Variable tips : tipmap.
Variable thr : N.
Hypothesis Hsorted : sorted tips.

Let Hnd : NoDup (map fst tips) := sorted_keys_NoDup tips Hsorted.

Lemma quorum_ok_inv h : quorum mb tips thr = QOk h ->
  supported tips thr h /\ forall c, supported tips thr c -> anc c h = true.
Proof.
  unfold quorum. destruct (outer mb tips []) as [m|] eqn:Ho; [|discriminate].
  pose proof (retain_keys_NoDup tips thr m Ho) as Hk.
  destruct (keys (retain thr m)) as [|first rest] eqn:Ek; [discriminate|].
  intros H. inversion Hk as [|? ? Hnin Hnd']; subst.
  destruct (fold_ok _ _ _ Hnin Hnd' H) as [Hin [Hah Hall]].
  assert (Hc : forall c, In c (first :: rest) <-> supported tips thr c).
  { intros c. rewrite <- Ek. apply cand_iff; assumption. }
  split.
  - apply Hc. destruct Hin as [->|Hin]; [left; reflexivity | right; exact Hin].
  - intros c Hs. apply Hc in Hs. destruct Hs as [<-|Hs]; [exact Hah | apply Hall; exact Hs].
Qed.

Lemma supporters_distinct c :
  NoDup (map fst (supporters tips c)) /\
  forall d, In d (map fst (supporters tips c)) ->
    exists t, lookup d tips = Some t /\ anc c t = true.
Proof.
  split; [apply NoDup_map_filter; exact Hnd|].
  intros d Hd. apply in_map_iff in Hd. destruct Hd as [[d' t] [E H]]. cbn in E. subst d'.
  apply filter_In in H. cbn in H. destruct H as [Hin Ha].
  exists t. split; [apply In_lookup; assumption | exact Ha].
Qed.

Lemma head_sound h : quorum mb tips thr = QOk h ->
  In h (map snd tips) /\
  (exists ds : list N, NoDup ds /\ thr <= N.of_nat (length ds) /\
     forall d, In d ds -> exists t, lookup d tips = Some t /\ anc h t = true) /\
  (forall c, supported tips thr c -> anc c h = true) /\
  (forall c, supported tips thr c -> anc h c = true -> c = h).
Proof.
  intros H. destruct (quorum_ok_inv h H) as [[Hin Hthr] Hmax].
  split; [exact Hin|]. split; [|split; [exact Hmax|]].
  - exists (map fst (supporters tips h)). destruct (supporters_distinct h) as [H1 H2].
    split; [exact H1|]. split; [rewrite map_length; exact Hthr | exact H2].
  - intros c Hs Ha. apply (gh_antisym _ _ GH); [apply Hmax; exact Hs | exact Ha].
Qed.

Lemma no_candidates_only_if : quorum mb tips thr = QNoCandidates ->
  forall c, ~ supported tips thr c.
Proof.
  unfold quorum. destruct (outer mb tips []) as [m|] eqn:Ho; [|discriminate].
  destruct (keys (retain thr m)) as [|first rest] eqn:Ek.
  - intros _ c Hs. apply (cand_iff tips thr m c Hnd Ho) in Hs. rewrite Ek in Hs. destruct Hs.
  - intros H. exfalso. exact (fold_not_nocand _ _ H).
Qed.

Lemma no_supported_no_head : (forall c, ~ supported tips thr c) ->
  quorum mb tips thr = QNoCandidates \/ quorum mb tips thr = QGit.
Proof.
  intros Hno. unfold quorum. destruct (outer mb tips []) as [m|] eqn:Ho; [|right; reflexivity].
  destruct (keys (retain thr m)) as [|first rest] eqn:Ek; [left; reflexivity|].
  exfalso. apply (Hno first). apply (cand_iff tips thr m first Hnd Ho). rewrite Ek. left; reflexivity.
Qed.

Lemma git_error_only_if : quorum mb tips thr = QGit ->
  exists a b, In a (map snd tips) /\ In b (map snd tips) /\ a <> b /\ mb a b = None.
Proof.
  unfold quorum. destruct (outer mb tips []) as [m|] eqn:Ho.
  - pose proof (retain_keys_NoDup tips thr m Ho) as Hk.
    destruct (keys (retain thr m)) as [|first rest] eqn:Ek; [discriminate|].
    intros H. inversion Hk as [|? ? Hnin Hnd']; subst.
    destruct (fold_git _ _ Hnin Hnd' H) as [a [b [Ha [Hb Hn]]]].
    assert (Hc : forall c, In c (first :: rest) -> In c (map snd tips)).
    { intros c Hc. rewrite <- Ek in Hc. apply (cand_iff tips thr m c Hnd Ho) in Hc. apply Hc. }
    exists a, b. split; [apply Hc; exact Ha|]. split; [apply Hc; exact Hb | exact Hn].
  - intros _. apply outer_none with (m := []). exact Ho.
Qed.

Lemma quorum_not_git : git_ok tips -> quorum mb tips thr <> QGit.
Proof.
  intros Hg H. destruct (git_error_only_if H) as [a [b [Ha [Hb [Hne Hn]]]]].
  exact (Hg a b Ha Hb Hne Hn).
Qed.

Lemma no_candidates_iff : git_ok tips ->
  (quorum mb tips thr = QNoCandidates <-> forall c, ~ supported tips thr c).
Proof.
  intros Hg. split; [apply no_candidates_only_if|].
  intros Hno. destruct (no_supported_no_head Hno) as [H|H]; [exact H|].
  destruct (quorum_not_git Hg H).
Qed.

Lemma diverging_sound b l x : quorum mb tips thr = QDiverging b l x ->
  supported tips thr l /\ supported tips thr x /\ l <> x /\
  anc l x = false /\ anc x l = false /\ mb x l = Some b.
Proof.
  unfold quorum. destruct (outer mb tips []) as [m|] eqn:Ho; [|discriminate].
  pose proof (retain_keys_NoDup tips thr m Ho) as Hk.
  destruct (keys (retain thr m)) as [|first rest] eqn:Ek; [discriminate|].
  intros H. inversion Hk as [|? ? Hnin Hnd']; subst.
  destruct (fold_diverging _ _ _ _ _ Hnin Hnd' H) as [Hl [Hx Hrest]].
  assert (Hc : forall c, In c (first :: rest) -> supported tips thr c).
  { intros c Hc. rewrite <- Ek in Hc. apply (cand_iff tips thr m c Hnd Ho). exact Hc. }
  split; [apply Hc; destruct Hl as [->|Hl]; [left; reflexivity | right; exact Hl]|].
  split; [apply Hc; right; exact Hx | exact Hrest].
Qed.

Lemma divergent_is_error :
  (exists c, supported tips thr c) ->
  (forall c, supported tips thr c -> exists c', supported tips thr c' /\ anc c' c = false) ->
  (exists b l x, quorum mb tips thr = QDiverging b l x /\
     supported tips thr l /\ supported tips thr x /\ anc l x = false /\ anc x l = false) \/
  quorum mb tips thr = QGit.
Proof.
  intros [c0 Hc0] Hdiv. destruct (quorum mb tips thr) as [h|b l x| |] eqn:Hq.
  - exfalso. destruct (quorum_ok_inv h Hq) as [Hs Hmax].
    destruct (Hdiv h Hs) as [c' [Hs' Hn]]. rewrite (Hmax c' Hs') in Hn. discriminate.
  - left. exists b, l, x. split; [reflexivity|].
    destruct (diverging_sound _ _ _ Hq) as [H1 [H2 [_ [H3 [H4 _]]]]]. auto.
  - exfalso. exact (no_candidates_only_if Hq c0 Hc0).
  - right. reflexivity.
Qed.

(* when the sufficiently supported tips form a chain (and git answers), the
   head is returned *)
Lemma chain_returns_head : git_ok tips ->
  (exists c, supported tips thr c) ->
  (forall c c', supported tips thr c -> supported tips thr c' ->
     anc c c' = true \/ anc c' c = true) ->
  exists h, quorum mb tips thr = QOk h.
Proof.
  intros Hg [c0 Hc0] Hchain. destruct (quorum mb tips thr) as [h|b l x| |] eqn:Hq.
  - exists h. reflexivity.
  - exfalso. destruct (diverging_sound _ _ _ Hq) as [H1 [H2 [_ [H3 [H4 _]]]]].
    destruct (Hchain l x H1 H2) as [E|E]; congruence.
  - exfalso. exact (no_candidates_only_if Hq c0 Hc0).
  - exfalso. exact (quorum_not_git Hg Hq).
Qed.

End Main.
End WithHistory.

(* ---------- the tips map is a sorted map ---------- *)
Lemma tips_of_list_sorted l : sorted (tips_of_list l).
Proof.
  unfold tips_of_list, insert.
  apply (sorted_fold_upsert (fun _ n : N => n) l []). apply sorted_nil.
Qed.

(* ---------- finite histories given as tables ---------- *)
Lemma pair_eqb_eq p q : pair_eqb p q = true <-> p = q.
Proof.
  destruct p as [a b], q as [c d]. unfold pair_eqb. cbn [fst snd].
  rewrite andb_true_iff, !N.eqb_eq. split; [intros [-> ->]; reflexivity | intros E; inversion E; auto].
Qed.

Lemma existsb_pair ancp a b : existsb (pair_eqb (a, b)) ancp = true <-> In (a, b) ancp.
Proof.
  rewrite existsb_exists. split.
  - intros [q [Hq E]]. apply pair_eqb_eq in E. subst q. exact Hq.
  - intros H. exists (a, b). split; [exact H | apply pair_eqb_eq; reflexivity].
Qed.

Lemma tab_anc_spec ancp a b : tab_anc ancp a b = true <-> a = b \/ In (a, b) ancp.
Proof. unfold tab_anc. rewrite orb_true_iff, N.eqb_eq, existsb_pair. tauto. Qed.

Lemma mb_find_In mbt a b c : mb_find mbt a b = Some c -> In (a, b, c) mbt.
Proof.
  induction mbt as [|[[a' b'] c'] t IH]; cbn [mb_find]; [discriminate|].
  destruct (N.eqb_spec a a') as [->|Ha]; cbn [andb].
  - destruct (N.eqb_spec b b') as [->|Hb].
    + intros E; inversion E; subst. left; reflexivity.
    + intros E. right. apply IH; exact E.
  - intros E. right. apply IH; exact E.
Qed.

Lemma tables_history ancp mbt : hist_okb ancp mbt = true ->
  GitHistory (tab_anc ancp) (tab_mb mbt).
Proof.
  unfold hist_okb. rewrite !andb_true_iff. intros [[[HT HA] HM1] HM2].
  rewrite forallb_forall in HT, HA, HM1, HM2.
  assert (Hstrict : forall a b, In (a, b) ancp -> a <> b /\ ~ In (b, a) ancp).
  { intros a b Hin. specialize (HA _ Hin). cbn [fst snd] in HA.
    apply andb_true_iff in HA. destruct HA as [H1 H2].
    apply negb_true_iff in H1, H2. apply N.eqb_neq in H1. split; [exact H1|].
    intros Hx. apply existsb_pair in Hx. congruence. }
  constructor.
  - intros a. apply tab_anc_spec. left; reflexivity.
  - intros a b c Hab Hbc. apply tab_anc_spec in Hab, Hbc.
    destruct Hab as [->|Hab]; [apply tab_anc_spec; exact Hbc|].
    destruct Hbc as [<-|Hbc]; [apply tab_anc_spec; right; exact Hab|].
    specialize (HT _ Hab). rewrite forallb_forall in HT. specialize (HT _ Hbc).
    cbn [fst snd] in HT. rewrite N.eqb_refl in HT. exact HT.
  - intros a b Hab Hba. apply tab_anc_spec in Hab, Hba.
    destruct Hab as [->|Hab]; [reflexivity|]. destruct Hba as [->|Hba]; [reflexivity|].
    destruct (Hstrict _ _ Hab) as [_ Hn]. contradiction.
  - intros a b Hne Hab. apply tab_anc_spec in Hab. destruct Hab as [E|Hab]; [contradiction|].
    specialize (HM1 _ Hab). cbn [fst snd] in HM1. apply andb_true_iff in HM1.
    destruct HM1 as [H1 H2].
    apply (option_eqb_spec N.eqb N.eqb_eq) in H1, H2.
    unfold tab_mb. destruct (N.eqb_spec a b) as [E|_]; [contradiction|].
    destruct (N.eqb_spec b a) as [E|_]; [symmetry in E; contradiction|]. auto.
  - intros a b c Hmb. unfold tab_mb in Hmb. destruct (N.eqb_spec a b) as [->|Hne].
    + inversion Hmb; subst c. split; apply tab_anc_spec; left; reflexivity.
    + apply mb_find_In in Hmb. specialize (HM2 _ Hmb). cbn in HM2.
      apply andb_true_iff in HM2. exact HM2.
Qed.
