(* CanonJsonProofs.v — proofs about model/CanonJson.v (canonical JSON). *)
From HW Require Import lib.Base model.CanonJson.
From Coq Require Import Sorted Setoid.
Local Open Scope N_scope.

(* lia understands division and remainder by constants *)
Ltac Zify.zify_post_hook ::= Z.to_euclidean_division_equations.

(* ------------------------------------------------------------------ tactics *)

Lemma ltb_false a b : (a <? b) = false <-> b <= a.
Proof. apply N.ltb_ge. Qed.
Lemma leb_false a b : (a <=? b) = false <-> b < a.
Proof. apply N.leb_gt. Qed.

Ltac b2p :=
  repeat match goal with
  | H : _ && _ = true |- _ => apply andb_true_iff in H; destruct H
  | H : _ || _ = false |- _ => apply orb_false_iff in H; destruct H
  | H : negb _ = true |- _ => apply negb_true_iff in H
  | H : negb _ = false |- _ => apply negb_false_iff in H
  | H : (_ <? _) = true |- _ => apply N.ltb_lt in H
  | H : (_ <? _) = false |- _ => apply N.ltb_ge in H
  | H : (_ <=? _) = true |- _ => apply N.leb_le in H
  | H : (_ <=? _) = false |- _ => apply N.leb_gt in H
  | H : (_ =? _) = true |- _ => apply N.eqb_eq in H
  | H : (_ =? _) = false |- _ => apply N.eqb_neq in H
  end.

(* decide a boolean made of N comparisons *)
Ltac bsolve :=
  repeat first
    [ rewrite andb_true_iff | rewrite orb_true_iff | rewrite andb_false_iff | rewrite orb_false_iff
    | rewrite negb_true_iff | rewrite negb_false_iff
    | rewrite N.ltb_lt | rewrite N.ltb_ge | rewrite N.leb_le | rewrite N.leb_gt
    | rewrite N.eqb_eq | rewrite N.eqb_neq ];
  b2p; lia.

(* resolve the outermost [if] of the goal by arithmetic *)
Ltac ifdec :=
  match goal with
  | |- context [if ?b then _ else _] =>
      first [ replace b with true by (symmetry; bsolve)
            | replace b with false by (symmetry; bsolve) ]
  end.

(* ------------------------------------------------------------------ induction on values *)

Section ValueInd.
Variable P : value -> Prop.
Hypothesis HNull : P Null.
Hypothesis HBool : forall b, P (Bool b).
Hypothesis HInt : forall z, P (Int z).
Hypothesis HFloat : P Float.
Hypothesis HStr : forall s, P (Str s).
Hypothesis HArr : forall l, Forall P l -> P (Arr l).
Hypothesis HObj : forall m, Forall (fun kx => P (snd kx)) m -> P (Obj m).

Fixpoint value_ind' (v : value) : P v :=
  match v with
  | Null => HNull
  | Bool b => HBool b
  | Int z => HInt z
  | Float => HFloat
  | Str s => HStr s
  | Arr l =>
      HArr l ((fix go (l : list value) : Forall P l :=
                 match l with
                 | [] => Forall_nil _
                 | x :: l' => Forall_cons x (value_ind' x) (go l')
                 end) l)
  | Obj m =>
      HObj m ((fix go (m : list (list N * value)) : Forall (fun kx => P (snd kx)) m :=
                 match m with
                 | [] => Forall_nil _
                 | kx :: m' => Forall_cons kx (value_ind' (snd kx)) (go m')
                 end) m)
  end.
End ValueInd.

(* ------------------------------------------------------------------ lex order, binsert *)

Lemma lex_cmp_refl a : lex_cmp a a = Eq.
Proof. induction a as [|x a IH]; simpl; [reflexivity|]. rewrite N.compare_refl. exact IH. Qed.

Lemma lex_cmp_eq a : forall b, lex_cmp a b = Eq -> a = b.
Proof.
  induction a as [|x a IH]; intros [|y b]; simpl; try discriminate; [reflexivity|].
  destruct (N.compare_spec x y) as [E|E|E]; try discriminate.
  intros H. subst. f_equal. apply IH; exact H.
Qed.

Lemma lex_cmp_antisym a : forall b, lex_cmp b a = CompOpp (lex_cmp a b).
Proof.
  induction a as [|x a IH]; intros [|y b]; simpl; try reflexivity.
  rewrite (N.compare_antisym x y).
  destruct (N.compare x y); simpl; try reflexivity. apply IH.
Qed.

Lemma lex_cmp_gt_lt a b : lex_cmp a b = Gt -> lex_cmp b a = Lt.
Proof. intros H. rewrite lex_cmp_antisym, H. reflexivity. Qed.

Lemma lex_cmp_trans a : forall b c, lex_cmp a b = Lt -> lex_cmp b c = Lt -> lex_cmp a c = Lt.
Proof.
  induction a as [|x a IH]; intros [|y b] [|z c]; simpl; try discriminate; try reflexivity.
  destruct (N.compare_spec x y) as [E1|E1|E1]; try discriminate;
  destruct (N.compare_spec y z) as [E2|E2|E2]; try discriminate; intros H1 H2; subst.
  - rewrite N.compare_refl. eapply IH; eassumption.
  - destruct (N.compare_spec y z); try lia. reflexivity.
  - destruct (N.compare_spec x z); try lia. reflexivity.
  - destruct (N.compare_spec x z); try lia. reflexivity.
Qed.

Definition klt (a b : list N) : Prop := lex_cmp a b = Lt.
Definition ksorted {A} (m : list (list N * A)) : Prop := StronglySorted klt (map fst m).

Lemma binsert_keys_in {A} k (x : A) m k0 :
  In k0 (map fst (binsert k x m)) -> k0 = k \/ In k0 (map fst m).
Proof.
  induction m as [|[k' x'] m IH]; simpl.
  - intros [H|[]]; auto.
  - destruct (lex_cmp k k') eqn:E; simpl.
    + intros [H|H]; auto.
    + intros [H|[H|H]]; auto.
    + intros [H|H]; auto. destruct (IH H); auto.
Qed.

Lemma binsert_sorted {A} k (x : A) m : ksorted m -> ksorted (binsert k x m).
Proof.
  unfold ksorted. induction m as [|[k' x'] m IH]; simpl; intros H.
  - repeat constructor.
  - inversion H as [|? ? Hs Hf]; subst.
    destruct (lex_cmp k k') eqn:E; simpl.
    + constructor; assumption.
    + constructor; [exact H|]. constructor; [exact E|].
      eapply Forall_impl; [|exact Hf]. intros a Ha. eapply lex_cmp_trans; eassumption.
    + constructor; [apply IH; exact Hs|].
      apply Forall_forall. intros k0 Hin. apply binsert_keys_in in Hin. destruct Hin as [->|Hin].
      * apply lex_cmp_gt_lt; exact E.
      * rewrite Forall_forall in Hf. apply Hf; exact Hin.
Qed.

Lemma binsert_map {A B} (g : A -> B) k x m :
  map (fun e => (fst e, g (snd e))) (binsert k x m) =
  binsert k (g x) (map (fun e => (fst e, g (snd e))) m).
Proof.
  induction m as [|[k' x'] m IH]; simpl; [reflexivity|].
  destruct (lex_cmp k k'); simpl; try reflexivity. rewrite IH. reflexivity.
Qed.

Lemma binsert_Forall {A} (P : list N * A -> Prop) k x m :
  P (k, x) -> (forall k' x', P (k', x') -> lex_cmp k k' = Eq -> P (k', x)) ->
  Forall P m -> Forall P (binsert k x m).
Proof.
  intros Hk Heq. induction m as [|[k' x'] m IH]; simpl; intros H.
  - constructor; [exact Hk|constructor].
  - inversion H; subst. destruct (lex_cmp k k') eqn:E.
    + constructor; [|assumption]. eapply Heq; eassumption.
    + constructor; assumption.
    + constructor; [assumption|]. apply IH; assumption.
Qed.

(* inserting the members of a strictly sorted list in order rebuilds it *)
Lemma binsert_snoc {A} k (x : A) m :
  Forall (fun k' => klt k' k) (map fst m) -> binsert k x m = m ++ [(k, x)].
Proof.
  induction m as [|[k' x'] m IH]; simpl; intros H; [reflexivity|].
  inversion H as [|? ? Hlt Hf]; subst. unfold klt in Hlt.
  rewrite (lex_cmp_antisym k' k), Hlt. simpl. rewrite IH by exact Hf. reflexivity.
Qed.

Lemma ksorted_klt_irrefl a : ~ klt a a.
Proof. unfold klt. rewrite lex_cmp_refl. discriminate. Qed.

(* ------------------------------------------------------------------ raw emitter
   [emit] is the plain compact writer: no normalisation, no sorting.  The
   encoder is [emit] after [norm]. *)

Definition plain (c : N) : Prop := is_esc c = false.
Definition scalar (c : N) : Prop := c < 1114112 /\ ~ (55296 <= c <= 57343).

Definition raw_char (c : N) : list N := if is_esc c then escape c else utf8 c.
Definition raw_body (s : list N) : list N := flat_map raw_char s.
Definition emit_str (s : list N) : list N := 34 :: raw_body s ++ [34].

Fixpoint emit (v : value) : list N :=
  match v with
  | Null => [110; 117; 108; 108]
  | Bool true => [116; 114; 117; 101]
  | Bool false => [102; 97; 108; 115; 101]
  | Int z => enc_int z
  | Float => []
  | Str s => emit_str s
  | Arr l => emit_array (map emit l)
  | Obj m => emit_object (map (fun kx => (emit_str (fst kx), emit (snd kx))) m)
  end.

Lemma raw_body_app a b : raw_body (a ++ b) = raw_body a ++ raw_body b.
Proof. unfold raw_body. apply flat_map_app. Qed.

Lemma raw_body_plain s : Forall plain s -> raw_body s = utf8s s.
Proof.
  induction 1 as [|c s Hc _ IH]; simpl; [reflexivity|].
  unfold raw_char. rewrite Hc, IH. reflexivity.
Qed.

Section Strings.
Variable nfc : list N -> list N.
Hypothesis nfc_idem : forall s, nfc (nfc s) = nfc s.
Hypothesis nfc_plain : forall s, Forall plain s -> Forall plain (nfc s).

Lemma flush_raw acc : Forall plain acc -> flush_frag nfc acc = raw_body (flush_norm nfc acc).
Proof.
  intros H. destruct acc as [|c acc]; [reflexivity|].
  unfold flush_frag, flush_norm. rewrite raw_body_plain; [reflexivity|].
  apply nfc_plain. apply Forall_rev. exact H.
Qed.

Lemma enc_body_raw s : forall acc, Forall plain acc ->
  enc_body nfc acc s = raw_body (norm_body nfc acc s).
Proof.
  induction s as [|c s IH]; intros acc Hacc; simpl.
  - apply flush_raw; exact Hacc.
  - destruct (is_esc c) eqn:E.
    + rewrite raw_body_app. change (raw_body (c :: norm_body nfc [] s)) with (raw_char c ++ raw_body (norm_body nfc [] s)).
      unfold raw_char. rewrite E.
      rewrite flush_raw by exact Hacc. rewrite IH by constructor. reflexivity.
    + apply IH. constructor; assumption.
Qed.

Lemma enc_str_emit s : enc_str nfc s = emit_str (norm_str nfc s).
Proof. unfold enc_str, emit_str, norm_str. rewrite enc_body_raw by constructor. reflexivity. Qed.

Lemma flush_norm_plain acc : Forall plain acc -> Forall plain (flush_norm nfc acc).
Proof.
  intros H. destruct acc; [constructor|]. unfold flush_norm. apply nfc_plain, Forall_rev, H.
Qed.

Lemma norm_body_plain_prefix g : Forall plain g -> forall acc rest,
  norm_body nfc acc (g ++ rest) = norm_body nfc (rev g ++ acc) rest.
Proof.
  induction 1 as [|c g Hc _ IH]; intros acc rest; simpl; [reflexivity|].
  rewrite Hc. rewrite IH. rewrite <- app_assoc. reflexivity.
Qed.

Lemma flush_norm_rev_idem acc :
  flush_norm nfc (rev (flush_norm nfc acc)) = flush_norm nfc acc.
Proof.
  destruct acc as [|c acc]; [reflexivity|].
  change (flush_norm nfc (c :: acc)) with (nfc (rev (c :: acc))).
  assert (Hg : nfc (nfc (rev (c :: acc))) = nfc (rev (c :: acc))) by apply nfc_idem.
  revert Hg. generalize (nfc (rev (c :: acc))). intros g Hg.
  destruct (rev g) as [|x t] eqn:Er.
  - apply (f_equal (@rev N)) in Er. rewrite rev_involutive in Er. simpl in Er. subst g. reflexivity.
  - change (flush_norm nfc (x :: t)) with (nfc (rev (x :: t))).
    rewrite <- Er, rev_involutive. exact Hg.
Qed.

Lemma norm_body_idem s : forall acc, Forall plain acc ->
  norm_body nfc [] (norm_body nfc acc s) = norm_body nfc acc s.
Proof.
  induction s as [|c s IH]; intros acc Hacc; simpl.
  - rewrite <- (app_nil_r (flush_norm nfc acc)) at 1.
    rewrite norm_body_plain_prefix by (apply flush_norm_plain; exact Hacc).
    rewrite app_nil_r. simpl. apply flush_norm_rev_idem.
  - destruct (is_esc c) eqn:E.
    + rewrite norm_body_plain_prefix by (apply flush_norm_plain; exact Hacc).
      rewrite app_nil_r. simpl. rewrite E. rewrite flush_norm_rev_idem.
      rewrite IH by constructor. reflexivity.
    + apply IH. constructor; assumption.
Qed.

Lemma norm_str_idem s : norm_str nfc (norm_str nfc s) = norm_str nfc s.
Proof. unfold norm_str. apply norm_body_idem. constructor. Qed.

Lemma norm_body_Forall (Q : N -> Prop) :
  (forall s, Forall Q s -> Forall Q (nfc s)) ->
  forall s acc, Forall Q acc -> Forall Q s -> Forall Q (norm_body nfc acc s).
Proof.
  intros HQ. induction s as [|c s IH]; intros acc Hacc Hs; simpl.
  - destruct acc; [constructor|]. unfold flush_norm. apply HQ, Forall_rev, Hacc.
  - inversion Hs; subst. destruct (is_esc c).
    + apply Forall_app. split.
      * destruct acc; [constructor|]. unfold flush_norm. apply HQ, Forall_rev, Hacc.
      * constructor; [assumption|]. apply IH; [constructor|assumption].
    + apply IH; [constructor|]; assumption.
Qed.

End Strings.

(* ------------------------------------------------------------------ encode = emit after norm *)

Section Encode.
Variable nfc : list N -> list N.
Hypothesis nfc_idem : forall s, nfc (nfc s) = nfc s.
Hypothesis nfc_plain : forall s, Forall plain s -> Forall plain (nfc s).

(* the local loops of [encode] / [norm], named *)
Fixpoint enc_elems (l : list value) : option (list (list N)) :=
  match l with
  | [] => Some []
  | x :: l' =>
      match encode nfc x with
      | Some b => match enc_elems l' with Some bs => Some (b :: bs) | None => None end
      | None => None
      end
  end.

Fixpoint enc_members (m : list (list N * value)) (acc : list (list N * list N)) :=
  match m with
  | [] => Some acc
  | (k, x) :: m' =>
      match encode nfc x with
      | Some b => enc_members m' (binsert (enc_str nfc k) b acc)
      | None => None
      end
  end.

Fixpoint norm_members (m : list (list N * value)) (acc : list (list N * (list N * value))) :=
  match m with
  | [] => acc
  | (k, x) :: m' => norm_members m' (binsert (enc_str nfc k) (norm_str nfc k, norm nfc x) acc)
  end.

Lemma encode_Arr l :
  encode nfc (Arr l) = match enc_elems l with Some bs => Some (emit_array bs) | None => None end.
Proof.
  simpl. match goal with |- match ?f l with _ => _ end = _ => replace (f l) with (enc_elems l) end; [reflexivity|].
  induction l as [|x l IH]; simpl; [reflexivity|]. rewrite IH. reflexivity.
Qed.

Lemma encode_Obj m :
  encode nfc (Obj m) = match enc_members m [] with Some kbs => Some (emit_object kbs) | None => None end.
Proof.
  simpl. match goal with |- match ?f m [] with _ => _ end = _ => replace (f m []) with (enc_members m []) end; [reflexivity|].
  generalize (@nil (list N * list N)). induction m as [|[k x] m IH]; intros acc; simpl; [reflexivity|].
  destruct (encode nfc x); [apply IH|reflexivity].
Qed.

Lemma norm_Obj m : norm nfc (Obj m) = Obj (map snd (norm_members m [])).
Proof.
  simpl. apply f_equal. apply f_equal.
  generalize (@nil (list N * (list N * value))). induction m as [|[k x] m IH]; intros acc; simpl; [reflexivity|].
  apply IH.
Qed.

Lemma norm_Arr l : norm nfc (Arr l) = Arr (map (norm nfc) l).
Proof. reflexivity. Qed.

Lemma emit_Obj l :
  emit (Obj l) = emit_object (map (fun kx => (emit_str (fst kx), emit (snd kx))) l).
Proof. reflexivity. Qed.

(* invariant tying the byte map built by [encode] to the entry map built by [norm] *)
Definition entry_ok (e : list N * (list N * value)) : Prop := fst e = emit_str (fst (snd e)).
Definition entry_bytes (e : list N * (list N * value)) : list N * list N :=
  (fst e, emit (snd (snd e))).

Lemma enc_members_spec m : 
  Forall (fun kx => has_float (snd kx) = false -> encode nfc (snd kx) = Some (emit (norm nfc (snd kx)))) m ->
  forallb (fun kx => negb (has_float (snd kx))) m = true ->
  forall accN, Forall entry_ok accN ->
  enc_members m (map entry_bytes accN) = Some (map entry_bytes (norm_members m accN)) /\
  Forall entry_ok (norm_members m accN).
Proof.
  induction m as [|[k x] m IH]; intros HF Hnf accN Hok; simpl.
  - split; [reflexivity|exact Hok].
  - inversion HF as [|? ? Hx HF']; subst. simpl in Hx, Hnf.
    apply andb_true_iff in Hnf. destruct Hnf as [Hnx Hnf]. apply negb_true_iff in Hnx.
    rewrite (Hx Hnx).
    specialize (IH HF' Hnf (binsert (enc_str nfc k) (norm_str nfc k, norm nfc x) accN)).
    assert (Hok' : Forall entry_ok (binsert (enc_str nfc k) (norm_str nfc k, norm nfc x) accN)).
    { apply binsert_Forall; [| |exact Hok].
      - unfold entry_ok. simpl. apply enc_str_emit; assumption.
      - intros k' x' _ E. apply lex_cmp_eq in E. subst k'. unfold entry_ok. simpl.
        apply enc_str_emit; assumption. }
    destruct (IH Hok') as [IH1 IH2]. split; [|exact IH2].
    rewrite <- IH1. f_equal. unfold entry_bytes.
    rewrite (binsert_map (fun p => emit (snd p))). reflexivity.
Qed.

Lemma entry_bytes_emit accN : Forall entry_ok accN ->
  map entry_bytes accN = map (fun kx => (emit_str (fst kx), emit (snd kx))) (map snd accN).
Proof.
  induction 1 as [|[kb [nk nv]] accN H _ IH]; simpl; [reflexivity|].
  unfold entry_ok in H. simpl in H. rewrite IH. unfold entry_bytes at 1. simpl. rewrite H. reflexivity.
Qed.

Lemma encode_emit : forall v, has_float v = false -> encode nfc v = Some (emit (norm nfc v)).
Proof.
  induction v as [| [|] | z | | s | l IH | m IH] using value_ind'; intros Hf; try reflexivity; try discriminate.
  - simpl. f_equal. apply enc_str_emit; assumption.
  - rewrite encode_Arr, norm_Arr. simpl in Hf.
    assert (E : enc_elems l = Some (map emit (map (norm nfc) l))).
    { induction l as [|x l IHl]; simpl; [reflexivity|].
      inversion IH; subst. simpl in Hf. apply orb_false_iff in Hf. destruct Hf as [Hx Hl].
      rewrite (H1 Hx), (IHl H2 Hl). reflexivity. }
    rewrite E. reflexivity.
  - rewrite encode_Obj, norm_Obj, emit_Obj. simpl in Hf.
    assert (Hnf : forallb (fun kx => negb (has_float (snd kx))) m = true).
    { clear IH. induction m as [|kx m IHm]; simpl; [reflexivity|]. simpl in Hf.
      apply orb_false_iff in Hf. destruct Hf as [Hx Hm]. rewrite Hx, (IHm Hm). reflexivity. }
    destruct (enc_members_spec m IH Hnf [] (Forall_nil _)) as [E Hok].
    simpl in E. rewrite E. rewrite entry_bytes_emit by exact Hok. reflexivity.
Qed.

Lemma encode_float : forall v, has_float v = true -> encode nfc v = None.
Proof.
  induction v as [| [|] | z | | s | l IH | m IH] using value_ind'; intros Hf; try discriminate; try reflexivity.
  - rewrite encode_Arr. simpl in Hf.
    assert (E : enc_elems l = None).
    { induction l as [|x l IHl]; simpl in *; [discriminate|].
      inversion IH; subst. destruct (has_float x) eqn:Hx.
      - rewrite (H1 eq_refl). reflexivity.
      - simpl in Hf. destruct (encode nfc x); [|reflexivity]. rewrite (IHl H2 Hf). reflexivity. }
    rewrite E. reflexivity.
  - rewrite encode_Obj. simpl in Hf. generalize (@nil (list N * list N)).
    induction m as [|[k x] m IHm]; intros acc; simpl in *; [discriminate|].
    inversion IH; subst. simpl in H1. destruct (has_float x) eqn:Hx.
    + rewrite (H1 eq_refl). reflexivity.
    + simpl in Hf. destruct (encode nfc x); [|reflexivity].
      specialize (IHm H2 Hf (binsert (enc_str nfc k) l acc)).
      destruct (enc_members m (binsert (enc_str nfc k) l acc)); [discriminate|reflexivity].
Qed.

Lemma encode_some_iff v : (exists bs, encode nfc v = Some bs) <-> has_float v = false.
Proof.
  split.
  - intros [bs H]. destruct (has_float v) eqn:E; [|reflexivity]. rewrite encode_float in H by exact E. discriminate.
  - intros H. eexists. apply encode_emit; exact H.
Qed.

End Encode.

(* ------------------------------------------------------------------ parsing what [emit] writes *)

Lemma small_cases (P : N -> Prop) :
  P 0 -> P 1 -> P 2 -> P 3 -> P 4 -> P 5 -> P 6 -> P 7 -> P 8 -> P 9 -> P 10 -> P 11 -> P 12 ->
  P 13 -> P 14 -> P 15 -> P 16 -> P 17 -> P 18 -> P 19 -> P 20 -> P 21 -> P 22 -> P 23 -> P 24 ->
  P 25 -> P 26 -> P 27 -> P 28 -> P 29 -> P 30 -> P 31 -> forall c, c < 32 -> P c.
Proof.
  intros. 
  assert (E : c = 0 \/ c = 1 \/ c = 2 \/ c = 3 \/ c = 4 \/ c = 5 \/ c = 6 \/ c = 7 \/ c = 8 \/ c = 9 \/
          c = 10 \/ c = 11 \/ c = 12 \/ c = 13 \/ c = 14 \/ c = 15 \/ c = 16 \/ c = 17 \/ c = 18 \/
          c = 19 \/ c = 20 \/ c = 21 \/ c = 22 \/ c = 23 \/ c = 24 \/ c = 25 \/ c = 26 \/ c = 27 \/
          c = 28 \/ c = 29 \/ c = 30 \/ c = 31) by lia.
  repeat (destruct E as [->|E]; [assumption|]). subst; assumption.
Qed.

Lemma is_esc_cases c : is_esc c = true -> c < 32 \/ c = 34 \/ c = 92.
Proof. unfold is_esc. intros H. apply orb_true_iff in H. destruct H as [H|H]; [apply orb_true_iff in H; destruct H as [H|H]|]; b2p; lia. Qed.

Lemma parse_escape c r : is_esc c = true ->
  parse_str_body (escape c ++ r) = scons c (parse_str_body r).
Proof.
  intros H. apply is_esc_cases in H. destruct H as [H|[->| ->]]; [|reflexivity|reflexivity].
  revert c H. apply small_cases; reflexivity.
Qed.

Lemma plain_ge c : plain c -> 32 <= c /\ c <> 34 /\ c <> 92.
Proof. unfold plain, is_esc. intros H. b2p. lia. Qed.

Lemma parse_utf8 c r : plain c -> scalar c ->
  parse_str_body (utf8 c ++ r) = scons c (parse_str_body r).
Proof.
  intros Hp [Hlt Hsur]. apply plain_ge in Hp. destruct Hp as (H32 & H34 & H92).
  unfold utf8.
  destruct (c <? 128) eqn:E1; b2p.
  { simpl. repeat ifdec. reflexivity. }
  destruct (c <? 2048) eqn:E2; b2p.
  { simpl. repeat ifdec. unfold is_cont. repeat ifdec.
    replace ((192 + c / 64 - 192) * 64 + (128 + c mod 64 - 128)) with c by lia. reflexivity. }
  destruct (c <? 65536) eqn:E3; b2p.
  { simpl. repeat ifdec. unfold is_cont.
    replace ((224 + c / 4096 - 224) * 4096 + (128 + (c / 64) mod 64 - 128) * 64 + (128 + c mod 64 - 128)) with c by lia.
    repeat ifdec. reflexivity. }
  simpl. repeat ifdec. unfold is_cont.
  replace ((240 + c / 262144 - 240) * 262144 + (128 + (c / 4096) mod 64 - 128) * 4096 +
           (128 + (c / 64) mod 64 - 128) * 64 + (128 + c mod 64 - 128)) with c by lia.
  repeat ifdec. reflexivity.
Qed.

Lemma parse_raw_body s : Forall scalar s -> forall rest,
  parse_str_body (raw_body s ++ 34 :: rest) = Some (s, rest).
Proof.
  induction 1 as [|c s Hc _ IH]; intros rest; simpl; [reflexivity|].
  rewrite <- app_assoc. unfold raw_char. destruct (is_esc c) eqn:E.
  - rewrite parse_escape by exact E. rewrite IH. reflexivity.
  - rewrite parse_utf8 by assumption. rewrite IH. reflexivity.
Qed.

(* ---- integers *)

Definition val_of (ds : list N) : N := fold_left (fun a d => 10 * a + (d - 48)) ds 0.

Lemma take_digits_app ds : Forall (fun d => is_digit d = true) ds ->
  forall rest acc, (match rest with b :: _ => is_digit b = false | [] => True end) ->
  take_digits (ds ++ rest) acc = (fold_left (fun a d => 10 * a + (d - 48)) ds acc, rest).
Proof.
  induction 1 as [|d ds Hd _ IH]; intros rest acc Hr; simpl.
  - destruct rest as [|b r]; [reflexivity|]. simpl. rewrite Hr. reflexivity.
  - rewrite Hd. apply IH. exact Hr.
Qed.

Lemma pow2_succ f : 2 ^ N.of_nat (S f) = 2 * 2 ^ N.of_nat f.
Proof. rewrite Nat2N.inj_succ, N.pow_succ_r'. reflexivity. Qed.

Lemma dec_f_digits fuel : forall n, Forall (fun d => is_digit d = true) (dec_f fuel n).
Proof.
  induction fuel as [|f IH]; intros n; simpl; [constructor|].
  destruct (n <? 10) eqn:E; b2p.
  - constructor; [|constructor]. unfold is_digit. bsolve.
  - apply Forall_app. split; [apply IH|]. constructor; [|constructor]. unfold is_digit. bsolve.
Qed.

Lemma dec_f_val fuel : forall n, n < 2 ^ N.of_nat fuel -> val_of (dec_f fuel n) = n.
Proof.
  unfold val_of. induction fuel as [|f IH]; intros n Hn.
  - simpl in Hn. assert (n = 0) by lia. subst. reflexivity.
  - rewrite pow2_succ in Hn. simpl. destruct (n <? 10) eqn:E; b2p.
    + simpl. lia.
    + rewrite fold_left_app. simpl. rewrite IH by lia. lia.
Qed.

Lemma dec_f_head fuel : forall n, 0 < n -> n < 2 ^ N.of_nat fuel ->
  exists d ds, dec_f fuel n = d :: ds /\ is_digit d = true /\ d <> 48.
Proof.
  induction fuel as [|f IH]; intros n Hpos Hn.
  - simpl in Hn. lia.
  - rewrite pow2_succ in Hn. simpl. destruct (n <? 10) eqn:E; b2p.
    + exists (48 + n), []. split; [reflexivity|]. split; [unfold is_digit; bsolve|lia].
    + destruct (IH (n / 10)) as (d & ds & E1 & E2 & E3); [lia|lia|].
      rewrite E1. exists d, (ds ++ [48 + n mod 10]). auto.
Qed.

Lemma dec_bound n : n < 2 ^ N.of_nat (S (N.to_nat (N.log2 n))).
Proof.
  rewrite Nat2N.inj_succ, N2Nat.id.
  destruct (N.eq_dec n 0) as [->|Hn]; [reflexivity|].
  apply N.log2_spec. lia.
Qed.

Definition no_digit_next (rest : list N) : Prop :=
  match rest with b :: _ => is_digit b = false | [] => True end.

Lemma parse_nat_dec n rest : no_digit_next rest -> parse_nat (dec n ++ rest) = Some (n, rest).
Proof.
  intros Hr. unfold dec. pose proof (dec_bound n) as Hb.
  destruct (N.eq_dec n 0) as [->|Hn].
  - simpl. destruct rest as [|b r]; [reflexivity|]. simpl in Hr. rewrite Hr. reflexivity.
  - destruct (dec_f_head _ n ltac:(lia) Hb) as (d & ds & E & Hd & H48).
    pose proof (dec_f_val _ n Hb) as Hv. pose proof (dec_f_digits (S (N.to_nat (N.log2 n))) n) as Hds.
    unfold parse_nat. rewrite E in *. simpl app. cbv beta iota.
    replace (d =? 48) with false by (symmetry; apply N.eqb_neq; exact H48). rewrite Hd.
    change (d :: ds ++ rest) with ((d :: ds) ++ rest).
    rewrite take_digits_app by assumption. unfold val_of in Hv. rewrite Hv. reflexivity.
Qed.

(* what may follow a value inside canonical output *)
Definition delim (rest : list N) : Prop :=
  match rest with [] => True | b :: _ => b = 44 \/ b = 93 \/ b = 125 end.

Lemma delim_no_digit rest : delim rest -> no_digit_next rest.
Proof. destruct rest as [|b r]; simpl; [auto|]. intros [->|[->| ->]]; reflexivity. Qed.

Lemma delim_follows rest : delim rest -> follows_number rest = true.
Proof. destruct rest as [|b r]; simpl; [auto|]. intros [->|[->| ->]]; reflexivity. Qed.

Definition int_range (z : Z) : Prop := (-9223372036854775808 <= z <= 18446744073709551615)%Z.

Lemma dec_head n : exists d ds, dec n = d :: ds /\ is_digit d = true.
Proof.
  unfold dec. destruct (N.eq_dec n 0) as [->|Hn].
  - exists 48, []. split; reflexivity.
  - destruct (dec_f_head _ n ltac:(lia) (dec_bound n)) as (d & ds & E & Hd & _). eauto.
Qed.

Lemma parse_int_enc z rest : int_range z -> delim rest ->
  parse_int (enc_int z ++ rest) = Some (z, rest).
Proof.
  intros Hz Hr. unfold int_range in Hz. destruct z as [|p|p]; unfold enc_int.
  - simpl. destruct rest as [|b r]; [reflexivity|]. simpl in Hr.
    destruct Hr as [->|[->| ->]]; reflexivity.
  - change (Z.to_N (Z.pos p)) with (N.pos p).
    destruct (dec_head (N.pos p)) as (d & ds & E & Hd).
    unfold parse_int. pose proof (parse_nat_dec (N.pos p) rest (delim_no_digit _ Hr)) as HP.
    rewrite E in *. simpl app in *. cbv beta iota.
    replace (d =? 45) with false by (symmetry; unfold is_digit in Hd; bsolve).
    rewrite HP. rewrite (delim_follows _ Hr).
    replace (N.pos p <=? u64_max) with true by (symmetry; unfold u64_max; apply N.leb_le; lia).
    reflexivity.
  - simpl app. unfold parse_int. cbv beta iota. replace (45 =? 45) with true by reflexivity.
    rewrite (parse_nat_dec (N.pos p) rest (delim_no_digit _ Hr)). rewrite (delim_follows _ Hr).
    replace (1 <=? N.pos p) with true by (symmetry; apply N.leb_le; lia).
    replace (N.pos p <=? i64_min_abs) with true by (symmetry; unfold i64_min_abs; apply N.leb_le; lia).
    reflexivity.
Qed.

(* ---- values *)

(* well-formed in-memory/normalised value: no float, Unicode scalar values,
   integers in the i64/u64 range, distinct keys in every object *)
Fixpoint wfv (v : value) : Prop :=
  match v with
  | Null | Bool _ => True
  | Int z => int_range z
  | Float => False
  | Str s => Forall scalar s
  | Arr l => (fix go (l : list value) : Prop :=
                match l with [] => True | x :: l' => wfv x /\ go l' end) l
  | Obj m => NoDup (map fst m) /\
             (fix go (m : list (list N * value)) : Prop :=
                match m with
                | [] => True
                | kx :: m' => (Forall scalar (fst kx) /\ wfv (snd kx)) /\ go m'
                end) m
  end.

Lemma wfv_Arr l : wfv (Arr l) <-> Forall wfv l.
Proof.
  simpl. induction l as [|x l IH]; [split; constructor|].
  split.
  - intros [H1 H2]. constructor; [exact H1|apply IH; exact H2].
  - intros H. inversion H; subst. split; [assumption|apply IH; assumption].
Qed.

Lemma wfv_Obj m : wfv (Obj m) <->
  NoDup (map fst m) /\ Forall (fun kx => Forall scalar (fst kx) /\ wfv (snd kx)) m.
Proof.
  simpl. apply and_iff_compat_l. induction m as [|x m IH]; [split; constructor|].
  split.
  - intros [H1 H2]. constructor; [exact H1|apply IH; exact H2].
  - intros H. inversion H; subst. split; [assumption|apply IH; assumption].
Qed.

Fixpoint sz (v : value) : nat :=
  match v with
  | Arr l => S ((fix go (l : list value) : nat :=
                   match l with [] => O | x :: l' => S (sz x + go l') end) l)
  | Obj m => S ((fix go (m : list (list N * value)) : nat :=
                   match m with [] => O | kx :: m' => S (sz (snd kx) + go m') end) m)
  | _ => 1%nat
  end.

Definition szl (l : list value) : nat := fold_right (fun x a => S (sz x + a)) O l.
Definition szm (m : list (list N * value)) : nat := fold_right (fun kx a => S (sz (snd kx) + a)) O m.

Lemma sz_Arr l : sz (Arr l) = S (szl l).
Proof. reflexivity. Qed.
Lemma sz_Obj m : sz (Obj m) = S (szm m).
Proof. reflexivity. Qed.
Lemma sz_pos v : (1 <= sz v)%nat.
Proof. destruct v; simpl; lia. Qed.

(* one-step unfoldings of the parser *)
Lemma pv_str f r : parse_value (S f) (34 :: r) =
  match parse_str_body r with Some (s, r') => Some (Str s, r') | None => None end.
Proof. reflexivity. Qed.

Lemma pv_arr f b1 r1 : parse_value (S f) (91 :: b1 :: r1) =
  if b1 =? 93 then Some (Arr [], r1)
  else match parse_elems f (b1 :: r1) with Some (l, r') => Some (Arr l, r') | None => None end.
Proof. reflexivity. Qed.

Lemma pv_obj f b1 r1 : parse_value (S f) (123 :: b1 :: r1) =
  if b1 =? 125 then Some (Obj [], r1)
  else match parse_members f (b1 :: r1) with
       | Some (m, r') => Some (Obj (imap_of_list m), r') | None => None end.
Proof. reflexivity. Qed.

Lemma pv_int f b r : b <> 110 -> b <> 116 -> b <> 102 -> b <> 34 -> b <> 91 -> b <> 123 ->
  parse_value (S f) (b :: r) =
  match parse_int (b :: r) with Some (z, r') => Some (Int z, r') | None => None end.
Proof.
  intros. cbn [parse_value].
  repeat match goal with |- context [b =? ?k] =>
    replace (b =? k) with false by (symmetry; apply N.eqb_neq; assumption) end.
  reflexivity.
Qed.

Lemma pe_step f bs : parse_elems (S f) bs =
  match parse_value f bs with
  | Some (v, b :: r) =>
      if b =? 44 then match parse_elems f r with Some (l, r') => Some (v :: l, r') | None => None end
      else if b =? 93 then Some ([v], r) else None
  | _ => None
  end.
Proof. reflexivity. Qed.

Lemma pm_step f r0 : parse_members (S f) (34 :: r0) =
  match parse_str_body r0 with
  | Some (k, c :: r1) =>
      if c =? 58 then
        match parse_value f r1 with
        | Some (v, b :: r) =>
            if b =? 44 then
              match parse_members f r with Some (m, r') => Some ((k, v) :: m, r') | None => None end
            else if b =? 125 then Some ([(k, v)], r) else None
        | _ => None
        end
      else None
  | _ => None
  end.
Proof. reflexivity. Qed.

Lemma enc_int_head z : exists b r, enc_int z = b :: r /\ (b = 45 \/ is_digit b = true).
Proof.
  destruct z as [|p|p]; unfold enc_int.
  - destruct (dec_head (Z.to_N 0)) as (d & ds & E & Hd). eauto.
  - destruct (dec_head (Z.to_N (Z.pos p))) as (d & ds & E & Hd). eauto.
  - eauto.
Qed.

(* first byte of an emitted value: never a closing bracket *)
Lemma emit_head w : wfv w -> exists b r, emit w = b :: r /\ b <> 93 /\ b <> 125.
Proof.
  destruct w as [| [|] | z | | s | l | m]; simpl; intros H; try (do 2 eexists; split; [reflexivity|]; lia).
  - destruct (enc_int_head z) as (b & r & E & Hb). exists b, r. split; [exact E|].
    destruct Hb as [->|Hb]; [lia|]. unfold is_digit in Hb. b2p. lia.
  - contradiction.
Qed.

Lemma imap_insert_fresh k v acc : ~ In k (map fst acc) -> imap_insert k v acc = acc ++ [(k, v)].
Proof.
  induction acc as [|[k' v'] acc IH]; simpl; intros H; [reflexivity|].
  destruct (list_eqb N.eqb k k') eqn:E.
  - apply (proj1 (list_eqb_spec N.eqb N.eqb_eq k k')) in E. subst. tauto.
  - rewrite IH by tauto. reflexivity.
Qed.

Lemma imap_of_list_nodup m : NoDup (map fst m) -> imap_of_list m = m.
Proof.
  unfold imap_of_list.
  assert (G : forall acc, NoDup (map fst (acc ++ m)) ->
            fold_left (fun a kv => imap_insert (fst kv) (snd kv) a) m acc = acc ++ m).
  { induction m as [|[k v] m IH]; intros acc H; simpl; [rewrite app_nil_r; reflexivity|].
    rewrite imap_insert_fresh.
    - rewrite IH; rewrite <- app_assoc; [reflexivity|exact H].
    - rewrite map_app in H. simpl in H. apply NoDup_remove_2 in H.
      intros Hin. apply H. apply in_or_app. left. exact Hin. }
  intros H. apply (G [] H).
Qed.

Lemma join_comma_cons2 a b l : join_comma (a :: b :: l) = a ++ 44 :: join_comma (b :: l).
Proof. reflexivity. Qed.

Definition parses (x : value) : Prop :=
  forall fuel rest, (sz x <= fuel)%nat -> delim rest ->
  parse_value fuel (emit x ++ rest) = Some (x, rest).

Lemma parse_elems_ok l : l <> [] -> Forall wfv l -> Forall parses l ->
  forall fuel rest, (szl l <= fuel)%nat ->
  parse_elems fuel (join_comma (map emit l) ++ 93 :: rest) = Some (l, rest).
Proof.
  induction l as [|x l IH]; intros Hne Hwf HP fuel rest Hf; [congruence|].
  inversion HP as [|? ? Hx HP']; subst. inversion Hwf as [|? ? Hwx Hwl]; subst.
  simpl in Hf. destruct fuel as [|f]; [lia|]. rewrite pe_step.
  destruct l as [|y l].
  - simpl. rewrite Hx; [|lia|simpl; auto]. reflexivity.
  - change (join_comma (map emit (x :: y :: l))) with (emit x ++ 44 :: join_comma (map emit (y :: l))).
    rewrite <- app_assoc. simpl app. rewrite Hx; [|lia|simpl; auto].
    replace (44 =? 44) with true by reflexivity.
    rewrite IH; [reflexivity|discriminate|assumption|assumption|].
    simpl in *. lia.
Qed.

Lemma parse_members_ok m : m <> [] ->
  Forall (fun kx => Forall scalar (fst kx) /\ wfv (snd kx)) m ->
  Forall (fun kx => parses (snd kx)) m ->
  forall fuel rest, (szm m <= fuel)%nat ->
  parse_members fuel
    (join_comma (map emit_member (map (fun kx => (emit_str (fst kx), emit (snd kx))) m)) ++ 125 :: rest)
  = Some (m, rest).
Proof.
  induction m as [|[k x] m IH]; intros Hne Hwf HP fuel rest Hf; [congruence|].
  inversion HP as [|? ? Hx HP']; subst. inversion Hwf as [|? ? [Hk Hwx] Hwl]; subst.
  simpl in Hf, Hx, Hk. destruct fuel as [|f]; [lia|].
  destruct m as [|[k2 y] m].
  - simpl. unfold emit_member, emit_str. simpl.
    rewrite <- !app_assoc. simpl.
    rewrite parse_raw_body by exact Hk.
    replace (58 =? 58) with true by reflexivity.
    rewrite Hx; [|lia|simpl; auto]. reflexivity.
  - assert (IH' := fun H1 H2 H3 => IH H1 H2 H3 f rest). clear IH.
    cbn [map] in *. rewrite join_comma_cons2.
    match goal with |- context [44 :: join_comma ?l] => set (J := join_comma l) in * end.
    unfold emit_member at 1, emit_str at 1. simpl fst. simpl snd.
    simpl app. rewrite <- ?app_assoc. simpl app. rewrite pm_step. rewrite <- ?app_assoc. simpl app.
    rewrite parse_raw_body by exact Hk.
    replace (58 =? 58) with true by reflexivity.
    rewrite Hx; [|lia|simpl; auto].
    replace (44 =? 44) with true by reflexivity.
    rewrite IH'; [reflexivity|discriminate|assumption|assumption|].
    simpl in *. lia.
Qed.

Theorem parse_emit : forall w, wfv w -> parses w.
Proof.
  induction w as [| [|] | z | | s | l IH | m IH] using value_ind'; intros Hw fuel rest Hf Hr;
    (destruct fuel as [|f]; [pose proof (sz_pos Null); simpl in Hf; try lia|]).
  - reflexivity.
  - reflexivity.
  - reflexivity.
  - simpl in Hw. simpl emit.
    destruct (enc_int_head z) as (b & r & E & Hb).
    pose proof (parse_int_enc z rest Hw Hr) as HP. rewrite E in *. simpl app in *.
    rewrite pv_int; [rewrite HP; reflexivity| | | | | |];
      (destruct Hb as [->|Hb]; [lia|unfold is_digit in Hb; b2p; lia]).
  - destruct Hw.
  - simpl in Hw. simpl emit. unfold emit_str. simpl app. rewrite <- app_assoc. simpl app.
    rewrite pv_str. rewrite parse_raw_body by exact Hw. reflexivity.
  - rewrite sz_Arr in Hf. apply wfv_Arr in Hw.
    destruct l as [|x l].
    + reflexivity.
    + assert (HP : Forall parses (x :: l)).
      { rewrite Forall_forall in *. intros y Hy. apply IH; [exact Hy|apply Hw; exact Hy]. }
      change (emit (Arr (x :: l)) ++ rest) with (91 :: (join_comma (map emit (x :: l)) ++ [93]) ++ rest).
      rewrite <- app_assoc. change ([93] ++ rest) with (93 :: rest).
      pose proof (parse_elems_ok (x :: l) ltac:(discriminate) Hw HP f rest ltac:(lia)) as HE.
      inversion Hw as [|? ? Hwx _]; subst.
      destruct (emit_head x Hwx) as (b & r & E & Hb1 & Hb2).
      assert (EJ : exists r', join_comma (map emit (x :: l)) ++ 93 :: rest = b :: r').
      { destruct l; simpl; rewrite E; simpl; eauto. }
      destruct EJ as (r' & EJ). rewrite EJ in *.
      rewrite pv_arr. replace (b =? 93) with false by (symmetry; apply N.eqb_neq; exact Hb1).
      rewrite HE. reflexivity.
  - rewrite sz_Obj in Hf. apply wfv_Obj in Hw. destruct Hw as [Hnd Hw].
    destruct m as [|[k x] m].
    + reflexivity.
    + assert (HP : Forall (fun kx => parses (snd kx)) ((k, x) :: m)).
      { rewrite Forall_forall in *. intros y Hy. apply IH; [exact Hy|apply Hw; exact Hy]. }
      rewrite emit_Obj. unfold emit_object.
      match goal with |- context [(123 :: ?J ++ [125]) ++ rest] =>
        change ((123 :: J ++ [125]) ++ rest) with (123 :: (J ++ [125]) ++ rest) end.
      rewrite <- app_assoc. change ([125] ++ rest) with (125 :: rest).
      pose proof (parse_members_ok ((k, x) :: m) ltac:(discriminate) Hw HP f rest ltac:(lia)) as HE.
      assert (EJ : exists r', join_comma (map emit_member
                 (map (fun kx => (emit_str (fst kx), emit (snd kx))) ((k, x) :: m))) ++ 125 :: rest = 34 :: r').
      { destruct m; simpl; unfold emit_member, emit_str; simpl; eauto. }
      destruct EJ as (r' & EJ). rewrite EJ in *.
      rewrite pv_obj. replace (34 =? 125) with false by reflexivity.
      rewrite HE. rewrite imap_of_list_nodup by exact Hnd. reflexivity.
Qed.

(* ---- fuel: the length of the input is enough *)

Lemma szl_len l : Forall (fun x => (sz x <= length (emit x))%nat) l ->
  (szl l <= length (join_comma (map emit l)) + 1)%nat.
Proof.
  induction l as [|x l IH]; intros H; [simpl; lia|].
  inversion H as [|? ? Hx Hl]; subst. specialize (IH Hl).
  destruct l as [|y l].
  - simpl in *. lia.
  - cbn [map]. rewrite join_comma_cons2. rewrite app_length. cbn [length].
    change (szl (x :: y :: l)) with (S (sz x + szl (y :: l))). cbn [map] in IH. lia.
Qed.

Lemma szm_len m : Forall (fun kx => (sz (snd kx) <= length (emit (snd kx)))%nat) m ->
  (szm m <= length (join_comma (map emit_member
              (map (fun kx => (emit_str (fst kx), emit (snd kx))) m))) + 1)%nat.
Proof.
  induction m as [|[k x] m IH]; intros H; [simpl; lia|].
  inversion H as [|? ? Hx Hl]; subst. specialize (IH Hl). simpl in Hx.
  assert (Hm : (sz x + 1 <= length (emit_member (emit_str k, emit x)))%nat).
  { unfold emit_member. simpl fst. simpl snd. rewrite app_length. cbn [length]. lia. }
  destruct m as [|[k2 y] m].
  - change (szm [(k, x)]) with (S (sz x + 0)). cbn [map join_comma fst snd]. lia.
  - cbn [map fst snd]. rewrite join_comma_cons2. rewrite app_length. cbn [length].
    change (szm ((k, x) :: (k2, y) :: m)) with (S (sz x + szm ((k2, y) :: m))). cbn [map fst snd] in IH. lia.
Qed.

Lemma sz_le_len : forall w, wfv w -> (sz w <= length (emit w))%nat.
Proof.
  induction w as [| [|] | z | | s | l IH | m IH] using value_ind'; intros Hw; try (simpl; lia).
  - simpl. destruct (enc_int_head z) as (b & r & E & _). rewrite E. simpl. lia.
  - destruct Hw.
  - rewrite sz_Arr. apply wfv_Arr in Hw.
    change (emit (Arr l)) with (91 :: join_comma (map emit l) ++ [93]).
    cbn [length]. rewrite app_length. cbn [length].
    assert (H : Forall (fun x => (sz x <= length (emit x))%nat) l).
    { rewrite Forall_forall in *. intros x Hx. apply IH; [exact Hx|apply Hw; exact Hx]. }
    pose proof (szl_len l H). lia.
  - rewrite sz_Obj. apply wfv_Obj in Hw. destruct Hw as [_ Hw].
    rewrite emit_Obj. unfold emit_object. cbn [length]. rewrite app_length. cbn [length].
    assert (H : Forall (fun kx => (sz (snd kx) <= length (emit (snd kx)))%nat) m).
    { rewrite Forall_forall in *. intros x Hx. apply IH; [exact Hx|apply Hw; exact Hx]. }
    pose proof (szm_len m H). lia.
Qed.

Theorem parse_emit_top w : wfv w -> parse (emit w) = Some w.
Proof.
  intros Hw. unfold parse.
  pose proof (parse_emit w Hw (S (length (emit w))) [] ltac:(pose proof (sz_le_len w Hw); lia) I) as P.
  rewrite app_nil_r in P. rewrite P. reflexivity.
Qed.

(* ------------------------------------------------------------------ norm produces well-formed,
   sorted, duplicate-free values and is idempotent *)

(* input values: anything serde_json::Value can hold *)
Fixpoint wfi (v : value) : Prop :=
  match v with
  | Null | Bool _ | Float => True
  | Int z => int_range z
  | Str s => Forall scalar s
  | Arr l => (fix go (l : list value) : Prop :=
                match l with [] => True | x :: l' => wfi x /\ go l' end) l
  | Obj m => (fix go (m : list (list N * value)) : Prop :=
                match m with
                | [] => True
                | kx :: m' => (Forall scalar (fst kx) /\ wfi (snd kx)) /\ go m'
                end) m
  end.

Lemma wfi_Arr l : wfi (Arr l) <-> Forall wfi l.
Proof.
  simpl. induction l as [|x l IH]; [split; constructor|].
  split.
  - intros [H1 H2]. constructor; [exact H1|apply IH; exact H2].
  - intros H. inversion H; subst. split; [assumption|apply IH; assumption].
Qed.

Lemma wfi_Obj m : wfi (Obj m) <-> Forall (fun kx => Forall scalar (fst kx) /\ wfi (snd kx)) m.
Proof.
  simpl. induction m as [|x m IH]; [split; constructor|].
  split.
  - intros [H1 H2]. constructor; [exact H1|apply IH; exact H2].
  - intros H. inversion H; subst. split; [assumption|apply IH; assumption].
Qed.

Lemma ksorted_nodup_nk (acc : list (list N * (list N * value))) :
  ksorted acc -> Forall entry_ok acc -> NoDup (map fst (map snd acc)).
Proof.
  unfold ksorted. induction acc as [|[kb [nk nv]] acc IH]; simpl; intros Hs Hok; [constructor|].
  inversion Hs as [|? ? Hs' Hlt]; subst. inversion Hok as [|? ? Hk Hok']; subst.
  constructor; [|apply IH; assumption].
  intros Hin. apply in_map_iff in Hin. destruct Hin as ([nk' nv'] & E & Hin). simpl in E. subst nk'.
  apply in_map_iff in Hin. destruct Hin as ([kb' [nk'' nv'']] & E & Hin). simpl in E. inversion E; subst.
  rewrite Forall_forall in Hlt, Hok'.
  pose proof (Hok' _ Hin) as Hk'. unfold entry_ok in Hk, Hk'. simpl in Hk, Hk'.
  assert (Hl : klt kb kb') by (apply Hlt; apply in_map_iff; exists (kb', (nk, nv')); auto).
  subst. exact (ksorted_klt_irrefl _ Hl).
Qed.

Section Norm.
Variable nfc : list N -> list N.
Hypothesis nfc_idem : forall s, nfc (nfc s) = nfc s.
Hypothesis nfc_plain : forall s, Forall plain s -> Forall plain (nfc s).
Hypothesis nfc_scalar : forall s, Forall scalar s -> Forall scalar (nfc s).

Lemma norm_str_scalar s : Forall scalar s -> Forall scalar (norm_str nfc s).
Proof. intros H. apply norm_body_Forall; [exact nfc_scalar|constructor|exact H]. Qed.

Definition entry_wf (e : list N * (list N * value)) : Prop :=
  entry_ok e /\ Forall scalar (fst (snd e)) /\ wfv (snd (snd e)).

Lemma norm_members_inv m :
  Forall (fun kx => Forall scalar (fst kx) /\ wfv (norm nfc (snd kx))) m ->
  forall acc, ksorted acc -> Forall entry_wf acc ->
  ksorted (norm_members nfc m acc) /\ Forall entry_wf (norm_members nfc m acc).
Proof.
  induction m as [|[k x] m IH]; intros H acc Hs Hw; simpl; [auto|].
  inversion H as [|? ? [Hk Hx] H']; subst. simpl in Hk, Hx.
  apply IH; [exact H'|apply binsert_sorted; exact Hs|].
  assert (Hnew : entry_wf (enc_str nfc k, (norm_str nfc k, norm nfc x))).
  { split; [unfold entry_ok; simpl; apply enc_str_emit; assumption|].
    split; [apply norm_str_scalar; exact Hk|exact Hx]. }
  apply binsert_Forall; [exact Hnew| |exact Hw].
  intros k' x' _ E. apply lex_cmp_eq in E. subst k'. exact Hnew.
Qed.

Lemma norm_wfv : forall v, wfi v -> has_float v = false -> wfv (norm nfc v).
Proof.
  induction v as [| [|] | z | | s | l IH | m IH] using value_ind'; intros Hw Hf; try exact I; try discriminate.
  - exact Hw.
  - simpl. apply norm_str_scalar. exact Hw.
  - rewrite norm_Arr. apply wfv_Arr. apply wfi_Arr in Hw. simpl in Hf.
    induction l as [|x l IHl]; [constructor|]. simpl in Hf. apply orb_false_iff in Hf. destruct Hf.
    inversion IH; subst. inversion Hw; subst. constructor; [auto|]. apply IHl; assumption.
  - rewrite norm_Obj. apply wfv_Obj. apply wfi_Obj in Hw. simpl in Hf.
    assert (H : Forall (fun kx => Forall scalar (fst kx) /\ wfv (norm nfc (snd kx))) m).
    { clear -IH Hw Hf. induction m as [|kx m IHm]; [constructor|]. simpl in Hf.
      apply orb_false_iff in Hf. destruct Hf. inversion IH; subst. inversion Hw as [|? ? [Hk Hx] ?]; subst.
      constructor; [split; auto|]. apply IHm; assumption. }
    destruct (norm_members_inv m H [] ltac:(constructor) ltac:(constructor)) as [Hs Hwf].
    split.
    + apply ksorted_nodup_nk; [exact Hs|]. eapply Forall_impl; [|exact Hwf]. intros e He. apply He.
    + rewrite Forall_forall in *. intros [nk nv] Hin. apply in_map_iff in Hin.
      destruct Hin as ([kb [nk' nv']] & E & Hin). simpl in E. inversion E; subst.
      destruct (Hwf _ Hin) as (_ & H1 & H2). split; assumption.
Qed.

(* the members of a normalised object are listed in strictly increasing order
   of their encoded key *)
Lemma norm_members_keys m : forall acc, Forall entry_ok acc ->
  Forall entry_ok (norm_members nfc m acc).
Proof.
  induction m as [|[k x] m IH]; intros acc H; simpl; [exact H|].
  apply IH. apply binsert_Forall; [| |exact H].
  - unfold entry_ok. simpl. apply enc_str_emit; assumption.
  - intros k' x' _ E. apply lex_cmp_eq in E. subst. unfold entry_ok. simpl. apply enc_str_emit; assumption.
Qed.

Lemma norm_members_sorted m : forall acc, ksorted acc -> ksorted (norm_members nfc m acc).
Proof.
  induction m as [|[k x] m IH]; intros acc H; simpl; [exact H|]. apply IH, binsert_sorted, H.
Qed.

Lemma strictly_sorted_iff ks : strictly_sorted ks = true <-> StronglySorted klt ks.
Proof.
  induction ks as [|k ks IH]; [split; [constructor|reflexivity]|].
  destruct ks as [|k' ks].
  - split; [repeat constructor|reflexivity].
  - cbn [strictly_sorted]. split.
    + intros H. destruct (lex_cmp k k') eqn:E; try discriminate.
      apply IH in H. constructor; [exact H|]. constructor; [exact E|].
      inversion H; subst. eapply Forall_impl; [|eassumption]. intros a Ha. eapply lex_cmp_trans; eassumption.
    + intros H. inversion H as [|? ? Hs Hf]; subst. inversion Hf; subst.
      unfold klt in *. rewrite H2. apply IH. exact Hs.
Qed.

Lemma norm_objs_sorted : forall v, objs_sorted emit_str (norm nfc v) = true.
Proof.
  induction v as [| [|] | z | | s | l IH | m IH] using value_ind'; try reflexivity.
  - rewrite norm_Arr. simpl. rewrite forallb_forall. intros y Hy. apply in_map_iff in Hy.
    destruct Hy as (x & <- & Hx). rewrite Forall_forall in IH. apply IH; exact Hx.
  - rewrite norm_Obj. cbn [objs_sorted]. apply andb_true_iff. split.
    + apply strictly_sorted_iff.
      pose proof (norm_members_sorted m [] ltac:(constructor)) as Hs.
      pose proof (norm_members_keys m [] ltac:(constructor)) as Hk.
      unfold ksorted in Hs. revert Hs Hk. generalize (norm_members nfc m []). intros acc Hs Hk.
      replace (map (fun kx => emit_str (fst kx)) (map snd acc)) with (map fst acc); [exact Hs|].
      clear Hs. induction Hk as [|[kb [nk nv]] acc H _ IHk]; [reflexivity|].
      simpl. unfold entry_ok in H. simpl in H. rewrite H, IHk. reflexivity.
    + assert (G : forall acc, Forall (fun e => objs_sorted emit_str (snd (snd e)) = true) acc ->
                  Forall (fun e => objs_sorted emit_str (snd (snd e)) = true) (norm_members nfc m acc)).
      { clear -IH. induction m as [|[k x] m IHm]; intros acc H; simpl; [exact H|].
        inversion IH; subst. apply IHm; [assumption|].
        apply binsert_Forall; [simpl; assumption| |exact H]. intros; simpl; assumption. }
      specialize (G [] ltac:(constructor)). rewrite forallb_forall. intros [nk nv] Hin.
      apply in_map_iff in Hin. destruct Hin as (e & E & Hin). rewrite Forall_forall in G.
      specialize (G e Hin). rewrite E in G. exact G.
Qed.

End Norm.

(* ------------------------------------------------------------------ norm is idempotent *)

Lemma sorted_app_lt {A} (l1 : list (list N * A)) e l2 :
  ksorted (l1 ++ e :: l2) -> Forall (fun k' => klt k' (fst e)) (map fst l1).
Proof.
  unfold ksorted. induction l1 as [|a l1 IH]; simpl; intros H; [constructor|].
  inversion H as [|? ? Hs Hf]; subst. constructor; [|apply IH; exact Hs].
  rewrite Forall_forall in Hf. apply Hf. rewrite map_app. apply in_or_app. right. left. reflexivity.
Qed.

Section NormIdem.
Variable nfc : list N -> list N.
Hypothesis nfc_idem : forall s, nfc (nfc s) = nfc s.
Hypothesis nfc_plain : forall s, Forall plain s -> Forall plain (nfc s).

Definition entry_fix (e : list N * (list N * value)) : Prop :=
  entry_ok e /\ norm_str nfc (fst (snd e)) = fst (snd e) /\ norm nfc (snd (snd e)) = snd (snd e).

Lemma norm_members_rebuild l2 : forall l1, ksorted (l1 ++ l2) -> Forall entry_fix l2 ->
  norm_members nfc (map snd l2) l1 = l1 ++ l2.
Proof.
  induction l2 as [|[kb [nk nv]] l2 IH]; intros l1 Hs Hf; simpl; [rewrite app_nil_r; reflexivity|].
  inversion Hf as [|? ? (Hok & Hk & Hv) Hf']; subst. unfold entry_ok in Hok. simpl in Hok, Hk, Hv.
  rewrite Hk, Hv. rewrite enc_str_emit by assumption. rewrite Hk, <- Hok.
  rewrite binsert_snoc by (apply (sorted_app_lt l1 (kb, (nk, nv)) l2 Hs)).
  rewrite IH; [rewrite <- app_assoc; reflexivity| |exact Hf'].
  rewrite <- app_assoc. exact Hs.
Qed.

Lemma norm_members_fix m :
  Forall (fun kx => norm nfc (norm nfc (snd kx)) = norm nfc (snd kx)) m ->
  forall acc, Forall entry_fix acc -> Forall entry_fix (norm_members nfc m acc).
Proof.
  induction m as [|[k x] m IH]; intros H acc Ha; simpl; [exact Ha|].
  inversion H as [|? ? Hx H']; subst. simpl in Hx.
  assert (Hnew : entry_fix (enc_str nfc k, (norm_str nfc k, norm nfc x))).
  { split; [unfold entry_ok; simpl; apply enc_str_emit; assumption|]. simpl.
    split; [apply norm_str_idem; assumption|exact Hx]. }
  apply IH; [exact H'|]. apply binsert_Forall; [exact Hnew| |exact Ha].
  intros k' x' _ E. apply lex_cmp_eq in E. subst. exact Hnew.
Qed.

Theorem norm_idem : forall v, norm nfc (norm nfc v) = norm nfc v.
Proof.
  induction v as [| [|] | z | | s | l IH | m IH] using value_ind'; try reflexivity.
  - simpl. f_equal. apply norm_str_idem; assumption.
  - rewrite norm_Arr, norm_Arr. f_equal. rewrite map_map. apply map_ext_in.
    intros x Hx. rewrite Forall_forall in IH. apply IH; exact Hx.
  - rewrite norm_Obj. rewrite norm_Obj. do 2 f_equal.
    pose proof (norm_members_sorted nfc m [] ltac:(constructor)) as Hs.
    pose proof (norm_members_fix m IH [] ltac:(constructor)) as Hf.
    apply (norm_members_rebuild (norm_members nfc m []) [] Hs Hf).
Qed.

Lemma binsert_In {A} k (x : A) acc kb y :
  In (kb, y) (binsert k x acc) -> y = x \/ In (kb, y) acc.
Proof.
  induction acc as [|[k' x'] acc IHa]; simpl; intros H1.
  - destruct H1 as [H1|[]]. inversion H1; auto.
  - destruct (lex_cmp k k'); simpl in H1.
    + destruct H1 as [H1|H1]; [inversion H1; auto|right; right; exact H1].
    + destruct H1 as [H1|H1]; [inversion H1; auto|right; exact H1].
    + destruct H1 as [H1|H1]; [right; left; exact H1|].
      destruct (IHa H1); [left; assumption|right; right; assumption].
Qed.

Lemma norm_members_In m kb nk nv : forall acc, In (kb, (nk, nv)) (norm_members nfc m acc) ->
  In (kb, (nk, nv)) acc \/ exists kx, In kx m /\ nv = norm nfc (snd kx).
Proof.
  induction m as [|[k x] m IHm]; intros acc H; simpl in H; [auto|].
  destruct (IHm _ H) as [H1|(kx & H1 & H2)].
  - apply binsert_In in H1. destruct H1 as [G|G].
    + inversion G; subst. right. exists (k, x). split; [left; reflexivity|reflexivity].
    + left; exact G.
  - right. exists kx. split; [right; exact H1|exact H2].
Qed.

(* a float in the normal form comes from a float in the value (the converse
   fails: a member that is overwritten may have held the float) *)
Lemma norm_float_free : forall v, has_float v = false -> has_float (norm nfc v) = false.
Proof.
  induction v as [| [|] | z | | s | l IH | m IH] using value_ind'; intros Hf; try reflexivity; try discriminate.
  - rewrite norm_Arr. simpl in *. induction l as [|x l IHl]; [reflexivity|]. inversion IH; subst.
    simpl in *. apply orb_false_iff in Hf. destruct Hf as [H3 H4]. rewrite (H1 H3), (IHl H2 H4). reflexivity.
  - rewrite norm_Obj. simpl has_float.
    destruct (existsb (fun kx => has_float (snd kx)) (map snd (norm_members nfc m []))) eqn:E; [|reflexivity].
    exfalso. apply existsb_exists in E. destruct E as ([nk nv] & Hin & Hfl).
    apply in_map_iff in Hin. destruct Hin as ([kb [nk' nv']] & E & Hin).
    simpl in E. inversion E; subst. simpl in Hfl.
    destruct (norm_members_In m kb nk nv [] Hin) as [[]|(kx & Hkx & ->)].
    rewrite Forall_forall in IH. rewrite IH in Hfl; [discriminate|exact Hkx|].
    simpl in Hf. destruct (has_float (snd kx)) eqn:E2; [|reflexivity].
    assert (existsb (fun kx0 => has_float (snd kx0)) m = true) by (apply existsb_exists; eauto). congruence.
Qed.

End NormIdem.

(* ------------------------------------------------------------------ direct statements on the bytes *)

Definition str_byte (b : N) : Prop := b <> 34 /\ b <> 92 /\ 32 <= b.
Definition tok_byte (b : N) : Prop := b <> 34 /\ b <> 32 /\ b <> 9 /\ b <> 10 /\ b <> 13 /\ 32 <= b.

Lemma utf8_bytes c : plain c -> Forall str_byte (utf8 c).
Proof.
  intros Hp. apply plain_ge in Hp. destruct Hp as (H32 & H34 & H92). unfold utf8, str_byte.
  destruct (c <? 128) eqn:E1; b2p; [repeat constructor; lia|].
  destruct (c <? 2048) eqn:E2; b2p; [repeat constructor; lia|].
  destruct (c <? 65536) eqn:E3; b2p; repeat constructor; lia.
Qed.

Lemma ws_in_str bs : Forall str_byte bs -> forall R,
  no_ws_outside true (bs ++ R) = no_ws_outside true R.
Proof.
  induction 1 as [|b bs (H1 & H2 & _) _ IH]; intros R; [reflexivity|].
  simpl. replace (b =? 92) with false by (symmetry; apply N.eqb_neq; exact H2).
  replace (b =? 34) with false by (symmetry; apply N.eqb_neq; exact H1). apply IH.
Qed.

Lemma ws_escape c R : is_esc c = true ->
  no_ws_outside true (escape c ++ R) = no_ws_outside true R.
Proof.
  intros H. apply is_esc_cases in H. destruct H as [H|[->| ->]]; [|reflexivity|reflexivity].
  revert c H. apply small_cases; reflexivity.
Qed.

Lemma ws_raw_body s : forall R,
  no_ws_outside true (raw_body s ++ 34 :: R) = no_ws_outside false R.
Proof.
  induction s as [|c s IH]; intros R; [reflexivity|].
  simpl. rewrite <- app_assoc. unfold raw_char. destruct (is_esc c) eqn:E.
  - rewrite ws_escape by exact E. apply IH.
  - rewrite ws_in_str by (apply utf8_bytes; exact E). apply IH.
Qed.

Lemma ws_emit_str s R : no_ws_outside false (emit_str s ++ R) = no_ws_outside false R.
Proof.
  unfold emit_str. simpl app. rewrite <- app_assoc. simpl app.
  change (no_ws_outside false (34 :: raw_body s ++ 34 :: R)) with (no_ws_outside true (raw_body s ++ 34 :: R)).
  apply ws_raw_body.
Qed.

Lemma ws_tok bs : Forall tok_byte bs -> forall R,
  no_ws_outside false (bs ++ R) = no_ws_outside false R.
Proof.
  induction 1 as [|b bs (H1 & H2 & H3 & H4 & H5 & _) _ IH]; intros R; [reflexivity|].
  simpl.
  replace (b =? 32) with false by (symmetry; apply N.eqb_neq; assumption).
  replace (b =? 9) with false by (symmetry; apply N.eqb_neq; assumption).
  replace (b =? 10) with false by (symmetry; apply N.eqb_neq; assumption).
  replace (b =? 13) with false by (symmetry; apply N.eqb_neq; assumption).
  replace (b =? 34) with false by (symmetry; apply N.eqb_neq; assumption).
  simpl. apply IH.
Qed.

Lemma digit_tok d : is_digit d = true -> tok_byte d.
Proof. unfold is_digit, tok_byte. intros H. b2p. lia. Qed.

Lemma enc_int_tok z : Forall tok_byte (enc_int z).
Proof.
  assert (D : forall n, Forall tok_byte (dec n)).
  { intros n. unfold dec. eapply Forall_impl; [|apply dec_f_digits]. intros a Ha. apply digit_tok, Ha. }
  destruct z; unfold enc_int; [apply D|apply D|].
  constructor; [unfold tok_byte; lia|apply D].
Qed.

Lemma ws_emit : forall w, has_float w = false -> forall R,
  no_ws_outside false (emit w ++ R) = no_ws_outside false R.
Proof.
  induction w as [| [|] | z | | s | l IH | m IH] using value_ind'; intros Hf R; try reflexivity; try discriminate.
  - simpl emit. apply ws_tok, enc_int_tok.
  - simpl emit. apply ws_emit_str.
  - change (emit (Arr l) ++ R) with (91 :: (join_comma (map emit l) ++ [93]) ++ R).
    rewrite <- app_assoc. change ([93] ++ R) with (93 :: R).
    change (no_ws_outside false (91 :: join_comma (map emit l) ++ 93 :: R))
      with (no_ws_outside false (join_comma (map emit l) ++ 93 :: R)).
    simpl in Hf. induction l as [|x l IHl]; [reflexivity|].
    inversion IH as [|? ? Hx IH']; subst. simpl in Hf. apply orb_false_iff in Hf. destruct Hf as [Hfx Hfl].
    destruct l as [|y l].
    + simpl. rewrite Hx by exact Hfx. reflexivity.
    + cbn [map]. rewrite join_comma_cons2. rewrite <- app_assoc. rewrite Hx by exact Hfx.
      simpl app. change (no_ws_outside false (44 :: ?X)) with (no_ws_outside false X).
      apply IHl; assumption.
  - rewrite emit_Obj. unfold emit_object.
    match goal with |- context [(123 :: ?J ++ [125]) ++ R] =>
      change ((123 :: J ++ [125]) ++ R) with (123 :: (J ++ [125]) ++ R) end.
    rewrite <- app_assoc. change ([125] ++ R) with (125 :: R).
    match goal with |- no_ws_outside false (123 :: ?X) = _ =>
      change (no_ws_outside false (123 :: X)) with (no_ws_outside false X) end.
    simpl in Hf. induction m as [|[k x] m IHm]; [reflexivity|].
    inversion IH as [|? ? Hx IH']; subst. simpl in Hx, Hf. apply orb_false_iff in Hf. destruct Hf as [Hfx Hfl].
    assert (Hmem : forall R', no_ws_outside false (emit_member (emit_str k, emit x) ++ R') = no_ws_outside false R').
    { intros R'. unfold emit_member. simpl fst. simpl snd. rewrite <- app_assoc. rewrite ws_emit_str.
      simpl app. change (no_ws_outside false (58 :: ?X)) with (no_ws_outside false X). apply Hx; exact Hfx. }
    destruct m as [|[k2 y] m].
    + cbn [map join_comma fst snd]. rewrite Hmem. reflexivity.
    + cbn [map fst snd]. rewrite join_comma_cons2. rewrite <- app_assoc. rewrite Hmem.
      simpl app. change (no_ws_outside false (44 :: ?X)) with (no_ws_outside false X).
      apply IHm; assumption.
Qed.

(* no raw control byte anywhere *)
Lemma escape_bytes c : is_esc c = true -> Forall (fun b => 32 <= b) (escape c).
Proof.
  intros H. apply is_esc_cases in H. destruct H as [H|[->| ->]]; [|repeat constructor; lia|repeat constructor; lia].
  revert c H. apply small_cases; repeat constructor; vm_compute; discriminate.
Qed.

Lemma raw_body_bytes s : Forall (fun b => 32 <= b) (raw_body s).
Proof.
  induction s as [|c s IH]; [constructor|]. simpl. apply Forall_app. split; [|exact IH].
  unfold raw_char. destruct (is_esc c) eqn:E; [apply escape_bytes; exact E|].
  eapply Forall_impl; [|apply utf8_bytes; exact E]. intros a Ha. apply Ha.
Qed.

Lemma emit_str_bytes s : Forall (fun b => 32 <= b) (emit_str s).
Proof.
  unfold emit_str. constructor; [lia|]. apply Forall_app. split; [apply raw_body_bytes|repeat constructor; lia].
Qed.

Lemma join_comma_Forall (P : N -> Prop) l : P 44 -> Forall (Forall P) l -> Forall P (join_comma l).
Proof.
  intros H44. induction 1 as [|x l Hx Hl IH]; [constructor|].
  destruct l as [|y l]; [exact Hx|]. rewrite join_comma_cons2. apply Forall_app. split; [exact Hx|].
  constructor; [exact H44|exact IH].
Qed.

Lemma emit_bytes : forall w, Forall (fun b => 32 <= b) (emit w).
Proof.
  induction w as [| [|] | z | | s | l IH | m IH] using value_ind'; try (repeat constructor; lia).
  - simpl. eapply Forall_impl; [|apply enc_int_tok]. intros a Ha. apply Ha.
  - apply emit_str_bytes.
  - change (emit (Arr l)) with (91 :: join_comma (map emit l) ++ [93]).
    constructor; [lia|]. apply Forall_app. split; [|repeat constructor; lia].
    apply join_comma_Forall; [lia|]. rewrite Forall_forall in *. intros bs Hin.
    apply in_map_iff in Hin. destruct Hin as (x & <- & Hx). apply IH; exact Hx.
  - rewrite emit_Obj. unfold emit_object. constructor; [lia|]. apply Forall_app. split; [|repeat constructor; lia].
    apply join_comma_Forall; [lia|]. rewrite Forall_forall in *. intros bs Hin.
    apply in_map_iff in Hin. destruct Hin as ([kb vb] & <- & Hin).
    apply in_map_iff in Hin. destruct Hin as ([k x] & E & Hx). inversion E; subst.
    unfold emit_member. cbn [fst snd]. apply Forall_app. split; [apply emit_str_bytes|].
    constructor; [lia|]. apply (IH _ Hx).
Qed.

(* ------------------------------------------------------------------ order of keys: encoded bytes
   vs. the bytes of the key itself *)

(* keys on which both orders agree: every character is above the double quote (0x22) and
   is not a backslash, i.e. nothing is escaped and nothing sorts below the
   closing quote *)
Definition high_char (c : N) : Prop := 35 <= c /\ c <> 92.
Definition high_key (k : list N) : Prop := Forall high_char k.

Fixpoint keys_all (P : list N -> Prop) (v : value) : Prop :=
  match v with
  | Arr l => (fix go (l : list value) : Prop :=
                match l with [] => True | x :: l' => keys_all P x /\ go l' end) l
  | Obj m => (fix go (m : list (list N * value)) : Prop :=
                match m with
                | [] => True
                | kx :: m' => (P (fst kx) /\ keys_all P (snd kx)) /\ go m'
                end) m
  | _ => True
  end.

Lemma keys_all_Arr P l : keys_all P (Arr l) <-> Forall (keys_all P) l.
Proof.
  simpl. induction l as [|x l IH]; [split; constructor|].
  split.
  - intros [H1 H2]. constructor; [exact H1|apply IH; exact H2].
  - intros H. inversion H; subst. split; [assumption|apply IH; assumption].
Qed.

Lemma keys_all_Obj P m : keys_all P (Obj m) <-> Forall (fun kx => P (fst kx) /\ keys_all P (snd kx)) m.
Proof.
  simpl. induction m as [|x m IH]; [split; constructor|].
  split.
  - intros [H1 H2]. constructor; [exact H1|apply IH; exact H2].
  - intros H. inversion H; subst. split; [assumption|apply IH; assumption].
Qed.

Lemma high_plain c : high_char c -> plain c.
Proof. unfold high_char, plain, is_esc. intros [H1 H2]. bsolve. Qed.

Lemma utf8_high c : high_char c -> Forall (fun b => 34 < b) (utf8 c).
Proof.
  intros [H1 H2]. unfold utf8.
  destruct (c <? 128) eqn:E1; b2p; [repeat constructor; lia|].
  destruct (c <? 2048) eqn:E2; b2p; [repeat constructor; lia|].
  destruct (c <? 65536) eqn:E3; b2p; repeat constructor; lia.
Qed.

Lemma utf8s_high k : high_key k -> Forall (fun b => 34 < b) (utf8s k).
Proof.
  induction 1 as [|c k Hc _ IH]; [constructor|]. simpl. apply Forall_app. split; [apply utf8_high; exact Hc|exact IH].
Qed.

Lemma emit_str_high k : high_key k -> emit_str k = 34 :: utf8s k ++ [34].
Proof.
  intros H. unfold emit_str. rewrite raw_body_plain; [reflexivity|].
  eapply Forall_impl; [|exact H]. intros a Ha. apply high_plain, Ha.
Qed.

Lemma lex_cmp_quote A : Forall (fun b => 34 < b) A -> forall B, Forall (fun b => 34 < b) B ->
  lex_cmp (A ++ [34]) (B ++ [34]) = lex_cmp A B.
Proof.
  induction 1 as [|a A Ha _ IH]; intros B HB.
  - destruct HB as [|b B Hb _]; [reflexivity|]. simpl.
    destruct (N.compare_spec 34 b); try lia. reflexivity.
  - destruct HB as [|b B Hb HB]; simpl.
    + destruct (N.compare_spec a 34); try lia. reflexivity.
    + destruct (N.compare a b); try reflexivity. apply IH; exact HB.
Qed.

Lemma lex_cmp_emit_str_high a b : high_key a -> high_key b ->
  lex_cmp (emit_str a) (emit_str b) = lex_cmp (utf8s a) (utf8s b).
Proof.
  intros Ha Hb. rewrite !emit_str_high by assumption. simpl. 
  apply lex_cmp_quote; apply utf8s_high; assumption.
Qed.

Lemma strictly_sorted_cong (f g : list N -> list N) (ks : list (list N)) :
  (forall a b, In a ks -> In b ks -> lex_cmp (f a) (f b) = lex_cmp (g a) (g b)) ->
  strictly_sorted (map f ks) = strictly_sorted (map g ks).
Proof.
  induction ks as [|k ks IH]; intros H; [reflexivity|].
  destruct ks as [|k' ks]; [reflexivity|].
  cbn [map strictly_sorted]. rewrite (H k k') by (simpl; auto).
  destruct (lex_cmp (g k) (g k')); try reflexivity.
  apply IH. intros a b Ha Hb. apply H; right; assumption.
Qed.

Lemma objs_sorted_high : forall w, keys_all high_key w ->
  objs_sorted utf8s w = objs_sorted emit_str w.
Proof.
  induction w as [| [|] | z | | s | l IH | m IH] using value_ind'; intros Hk; try reflexivity.
  - apply keys_all_Arr in Hk. simpl. induction l as [|x l IHl]; [reflexivity|].
    inversion IH; subst. inversion Hk; subst. simpl. rewrite H1, IHl by assumption. reflexivity.
  - apply keys_all_Obj in Hk. cbn [objs_sorted]. f_equal.
    + rewrite <- !(map_map fst). symmetry. apply strictly_sorted_cong.
      intros a b Ha Hb. apply lex_cmp_emit_str_high.
      * apply in_map_iff in Ha. destruct Ha as (kx & <- & Ha). rewrite Forall_forall in Hk. apply (Hk _ Ha).
      * apply in_map_iff in Hb. destruct Hb as (kx & <- & Hb). rewrite Forall_forall in Hk. apply (Hk _ Hb).
    + induction m as [|kx m IHm]; [reflexivity|].
      inversion IH; subst. inversion Hk as [|? ? [_ Hx] ?]; subst. simpl. rewrite H1, IHm by assumption. reflexivity.
Qed.

(* ------------------------------------------------------------------ the theorems of C18 *)

Section Main.
Variable nfc : list N -> list N.
Hypothesis nfc_idem : forall s, nfc (nfc s) = nfc s.
Hypothesis nfc_plain : forall s, Forall plain s -> Forall plain (nfc s).
Hypothesis nfc_scalar : forall s, Forall scalar s -> Forall scalar (nfc s).

Theorem encode_is_emit_norm v bs : encode nfc v = Some bs ->
  has_float v = false /\ bs = emit (norm nfc v).
Proof.
  intros H. assert (Hf : has_float v = false) by (apply (encode_some_iff nfc nfc_plain); eauto).
  split; [exact Hf|]. rewrite (encode_emit nfc nfc_plain v Hf) in H. congruence.
Qed.

Theorem parse_encode v bs : wfi v -> encode nfc v = Some bs -> parse bs = Some (norm nfc v).
Proof.
  intros Hw H. destruct (encode_is_emit_norm v bs H) as [Hf ->].
  apply parse_emit_top. apply norm_wfv; assumption.
Qed.

Theorem reencode v bs : encode nfc v = Some bs -> encode nfc (norm nfc v) = Some bs.
Proof.
  intros H. destruct (encode_is_emit_norm v bs H) as [Hf ->].
  rewrite (encode_emit nfc nfc_plain) by (apply norm_float_free; assumption).
  rewrite norm_idem by assumption. reflexivity.
Qed.

Theorem idempotent v bs : wfi v -> encode nfc v = Some bs ->
  exists w, parse bs = Some w /\ encode nfc w = Some bs.
Proof.
  intros Hw H. exists (norm nfc v). split; [apply parse_encode; assumption|apply reencode; exact H].
Qed.

Theorem floats_rejected v : encode nfc v = None <-> has_float v = true.
Proof.
  split.
  - intros H. destruct (has_float v) eqn:E; [reflexivity|].
    rewrite (encode_emit nfc nfc_plain v E) in H. discriminate.
  - apply encode_float.
Qed.

Theorem keys_sorted_no_ws v bs : wfi v -> encode nfc v = Some bs ->
  no_ws_outside false bs = true /\
  exists w, parse bs = Some w /\ objs_sorted emit_str w = true.
Proof.
  intros Hw H. split.
  - destruct (encode_is_emit_norm v bs H) as [Hf ->].
    rewrite <- (app_nil_r (emit (norm nfc v))). rewrite ws_emit; [reflexivity|].
    apply norm_float_free; assumption.
  - exists (norm nfc v). split; [apply parse_encode; assumption|apply norm_objs_sorted; assumption].
Qed.

Theorem plain_keys_byte_order v bs w : wfi v -> encode nfc v = Some bs -> parse bs = Some w ->
  keys_all high_key w -> objs_sorted utf8s w = true.
Proof.
  intros Hw H Hp Hk. rewrite (parse_encode v bs Hw H) in Hp. inversion Hp; subst.
  rewrite objs_sorted_high by exact Hk. apply norm_objs_sorted; assumption.
Qed.

Theorem control_escaped v bs : encode nfc v = Some bs -> Forall (fun b => 32 <= b) bs.
Proof. intros H. destruct (encode_is_emit_norm v bs H) as [_ ->]. apply emit_bytes. Qed.

Theorem single_representation v1 v2 b1 b2 : wfi v1 -> wfi v2 ->
  encode nfc v1 = Some b1 -> encode nfc v2 = Some b2 ->
  (b1 = b2 <-> norm nfc v1 = norm nfc v2).
Proof.
  intros W1 W2 E1 E2. split.
  - intros ->. pose proof (parse_encode v1 b2 W1 E1) as P1. pose proof (parse_encode v2 b2 W2 E2) as P2. congruence.
  - intros Hn. destruct (encode_is_emit_norm v1 b1 E1) as [_ ->].
    destruct (encode_is_emit_norm v2 b2 E2) as [_ ->]. rewrite Hn. reflexivity.
Qed.

End Main.

(* What the theorems assume about Unicode NFC (tested by the harness on every
   fragment it generates, against the unicode-normalization crate):
   idempotent; never produces a character that JSON escapes (C0 control, the
   double quote, the backslash) from a fragment that has none; maps Unicode
   scalar values to Unicode scalar values. *)
Definition nfc_ok (nfc : list N -> list N) : Prop :=
  (forall s, nfc (nfc s) = nfc s) /\
  (forall s, Forall plain s -> Forall plain (nfc s)) /\
  (forall s, Forall scalar s -> Forall scalar (nfc s)).

(* the hypotheses are satisfiable: the identity, and a normaliser that really
   rewrites (the singleton U+212B ANGSTROM SIGN -> U+00C5) *)
Definition toy_nfc (s : list N) : list N := map (fun c => if c =? 8491 then 197 else c) s.

Lemma id_nfc_ok : nfc_ok (fun s => s).
Proof. repeat split; auto. Qed.

Lemma toy_nfc_ok : nfc_ok toy_nfc.
Proof.
  unfold toy_nfc. repeat split.
  - intros s. rewrite map_map. apply map_ext. intros c.
    destruct (c =? 8491) eqn:E; [reflexivity|rewrite E; reflexivity].
  - intros s H. apply Forall_map. eapply Forall_impl; [|exact H]. intros c Hc.
    destruct (c =? 8491); [reflexivity|exact Hc].
  - intros s H. apply Forall_map. eapply Forall_impl; [|exact H]. intros c Hc.
    destruct (c =? 8491); [unfold scalar; lia|exact Hc].
Qed.
