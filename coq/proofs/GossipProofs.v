(* GossipProofs.v — invariants of model/Gossip.v, for every configuration,
   every state satisfying the invariant and every event sequence. *)
From HW Require Import lib.Base lib.SMap model.Gossip.
From Coq Require Import Sorted Permutation.
Local Open Scope N_scope.

(* ------------------------------------------------------------------ *)
(* basic facts about the record setters *)

Ltac unf_set := unfold set_gossip, set_routing, set_sessions, set_relayed_by, set_known,
  set_delivered, set_inventory, set_times in *; cbn [clock last_ts node_ts inv_ts inv_rids
  last_inventory last_gossip last_announce sessions gossip relayed_by known routing delivered] in *.

Lemma draw_spec s : forall s' t, draw s = (s', t) ->
  last_ts s < t /\ t <> 0 /\ last_ts s' = t /\ clock s' = clock s /\ node_ts s' = node_ts s /\
  inv_ts s' = inv_ts s /\ inv_rids s' = inv_rids s /\ gossip s' = gossip s /\
  routing s' = routing s /\ sessions s' = sessions s /\ relayed_by s' = relayed_by s /\
  delivered s' = delivered s /\ known s' = known s /\ last_inventory s' = last_inventory s.
Proof.
  unfold draw. intros s' t E. inversion E; subst; clear E. cbn.
  destruct (N.ltb_spec (last_ts s) (clock s)); repeat split; try reflexivity; lia.
Qed.

Lemma next_cfg_me c e : c_me (next_cfg c e) = c_me c.
Proof. destruct e; cbn; try reflexivity. destruct (lookup rid (c_storage c)); reflexivity. Qed.

Definition no_setdoc (e : event) : Prop := match e with ESetDoc _ _ => False | _ => True end.
Lemma next_cfg_static c e : no_setdoc e -> next_cfg c e = c.
Proof. destruct e; cbn; intros H; try reflexivity. destruct H. Qed.

(* ------------------------------------------------------------------ *)
(* announced *)

Lemma announced_nonzero g a now : a_ts a <> 0 -> announced g a now <> APanic.
Proof.
  unfold announced. intros H. destruct (N.eqb_spec (a_ts a) 0); [contradiction|].
  destruct (find_row a g) as [r|]; [destruct (N.ltb _ _)|]; discriminate.
Qed.

(* ------------------------------------------------------------------ *)
(* C13 (message part): no event can make the service panic *)

Definition Inv13 (s : state) : Prop := inv_ts s <> 0.

Lemma announce_own_ok c s a peers : a_ts a <> 0 ->
  exists s' o, announce_own c s a peers = Ok s' o /\ inv_ts s' = inv_ts s.
Proof.
  intros H. unfold announce_own.
  pose proof (announced_nonzero (gossip s) a (clock s) H) as NP.
  destruct (announced (gossip s) a (clock s)) as [| |id g]; [contradiction| |];
    eexists; eexists; split; try reflexivity; unf_set; reflexivity.
Qed.

Lemma announce_inventory_ok c s : Inv13 s ->
  exists s' o, announce_inventory c s = Ok s' o /\ inv_ts s' = inv_ts s.
Proof.
  intros H. unfold announce_inventory.
  destruct (N.eqb (last_inventory s) (inv_ts s)); [eexists; eexists; split; reflexivity|].
  destruct (announce_own_ok c s (own_inv_ann c s) (connected_peers s)) as (s1 & o & E & Ei);
    [exact H|].
  rewrite E. eexists; eexists; split; [reflexivity|]. unf_set. exact Ei.
Qed.

Lemma handle_announcement_no_panic c s p a :
  forall n, handle_announcement c s p a <> HPanic n.
Proof.
  intros n. unfold handle_announcement.
  destruct (negb (a_sig a)); [discriminate|].
  destruct (N.eqb (a_node a) (c_me c)); [discriminate|].
  destruct (N.ltb MAX_TIME_DELTA (sat_sub (a_ts a) (clock s))); [discriminate|].
  destruct (N.eqb_spec (a_ts a) 0) as [|NZ]; [discriminate|].
  destruct (_ && _); [discriminate|].
  pose proof (announced_nonzero (gossip s) a (clock s) NZ) as NP.
  destruct (announced (gossip s) a (clock s)) as [| |id g]; [contradiction|discriminate|].
  destruct (a_kind a).
  - destruct (negb (a_seed a)); discriminate.
  - destruct (sync_routing _ _ _ _) as [rt ch]. destruct (negb ch); [discriminate|].
    destruct (lookup _ _) as [ss|]; [destruct (s_sub ss)|]; discriminate.
  - destruct (negb (a_nonempty a)); [discriminate|].
    destruct (negb (memN _ _)); discriminate.
Qed.

Lemma handle_announcement_inv_ts c s p a s' st r :
  handle_announcement c s p a = HDone s' st r -> inv_ts s' = inv_ts s.
Proof.
  unfold handle_announcement.
  destruct (negb (a_sig a)); [discriminate|].
  destruct (N.eqb (a_node a) (c_me c)); [intros E; inversion E; reflexivity|].
  destruct (N.ltb MAX_TIME_DELTA _); [discriminate|].
  destruct (N.eqb (a_ts a) 0); [discriminate|].
  destruct (_ && _); [intros E; inversion E; reflexivity|].
  destruct (announced _ _ _) as [| |id g]; [discriminate|intros E; inversion E; reflexivity|].
  destruct (a_kind a).
  - destruct (negb (a_seed a)); intros E; inversion E; reflexivity.
  - destruct (sync_routing _ _ _ _) as [rt ch]. destruct (negb ch); [intros E; inversion E; reflexivity|].
    destruct (lookup _ _) as [ss|]; [destruct (s_sub ss)|]; intros E; inversion E; reflexivity.
  - destruct (negb (a_nonempty a)); [intros E; inversion E; reflexivity|].
    destruct (negb (memN _ _)); intros E; inversion E; reflexivity.
Qed.

Lemma wake_ok c s : Inv13 s -> exists s' o, wake c s = Ok s' o /\ Inv13 s'.
Proof.
  intros H. unfold wake.
  match goal with |- context [let '(s1, o1) := ?X in _] => destruct X as [s1 o1] eqn:E1 end.
  assert (Inv13 s1) as H1.
  { destruct (N.leb GOSSIP_INTERVAL _); inversion E1; subst; unfold Inv13; unf_set; exact H. }
  destruct (N.leb ANNOUNCE_INTERVAL _); [|eexists; eexists; split; [reflexivity|exact H1]].
  destruct (announce_inventory_ok c s1 H1) as (s2 & o2 & E2 & Ei). rewrite E2.
  eexists; eexists; split; [reflexivity|]. unfold Inv13 in *. unf_set. rewrite Ei. exact H1.
Qed.

Theorem step_no_panic c s e : Inv13 s -> exists s' o, step c s e = Ok s' o /\ Inv13 s'.
Proof.
  intros H. destruct e as [p|p|p a|p sub since until|dt|rid|rid|tnow| |srid sd]; cbn [step].
  - eexists; eexists; split; [reflexivity|]. unfold Inv13; unf_set; exact H.
  - eexists; eexists; split; [reflexivity|]. unfold Inv13; unf_set; exact H.
  - destruct (lookup p (sessions s)); [|eexists; eexists; split; [reflexivity|exact H]].
    destruct (handle_announcement c s p a) as [n| |s1 st r] eqn:E.
    + exfalso. eapply handle_announcement_no_panic; exact E.
    + eexists; eexists; split; [reflexivity|]. unfold Inv13; unf_set; exact H.
    + apply handle_announcement_inv_ts in E.
      destruct r as [id|].
      * destruct (c_relay c); [destruct (a_kind a)|];
          eexists; eexists; split; try reflexivity; unfold Inv13; unf_set; rewrite E; exact H.
      * eexists; eexists; split; [reflexivity|]. unfold Inv13; unf_set; rewrite E; exact H.
  - destruct (lookup p (sessions s)); eexists; eexists; split; try reflexivity;
      unfold Inv13; unf_set; exact H.
  - apply wake_ok. unfold Inv13; unf_set; exact H.
  - destruct (lookup rid (c_storage c)) as [d|]; [|eexists; eexists; split; [reflexivity|exact H]].
    destruct (draw s) as [s1 ts] eqn:Ed. apply draw_spec in Ed.
    destruct Ed as (Hlt & Hnz & Hl & Hc & Hn & Hi & _).
    destruct (negb (memN rid (c_own_refs c))).
    + eexists; eexists; split; [reflexivity|]. unfold Inv13. rewrite Hi. exact H.
    + destruct (announce_own_ok c s1 (own_refs_ann c rid ts)
                  (filter (fun p => visible d p) (connected_peers s1))) as (s2 & o & E & Ei);
        [exact Hnz|].
      rewrite E. eexists; eexists; split; [reflexivity|]. unfold Inv13. rewrite Ei, Hi. exact H.
  - destruct (draw s) as [s1 ts] eqn:Ed. apply draw_spec in Ed.
    destruct Ed as (Hlt & Hnz & Hl & Hc & Hn & Hi & _).
    destruct (lookup rid (c_storage c)) as [d|].
    + match goal with |- context [announce_inventory c ?S] => set (s3 := S) end.
      assert (Inv13 s3) as H3 by (unfold Inv13, s3; unf_set; exact Hnz).
      destruct (announce_inventory_ok c s3 H3) as (s4 & o & E & Ei). rewrite E.
      eexists; eexists; split; [reflexivity|]. unfold Inv13. rewrite Ei. exact H3.
    + eexists; eexists; split; [reflexivity|]. unfold Inv13. rewrite Hi. exact H.
  - eexists; eexists; split; [reflexivity|]. unfold Inv13; unf_set; exact H.
  - destruct (draw _) as [s1 ts] eqn:Ed. apply draw_spec in Ed. destruct Ed as (_ & Hnz & _).
    eexists; eexists; split; [reflexivity|]. unfold Inv13; unf_set. exact Hnz.
  - eexists; eexists; split; [reflexivity|exact H].
Qed.

Theorem run_no_panic : forall es c s, Inv13 s -> run c s es <> None.
Proof.
  induction es as [|e es IH]; intros c s H; cbn [run]; [discriminate|].
  destruct (step_no_panic c s e H) as (s1 & o & E & H1). rewrite E.
  specialize (IH (next_cfg c e) s1 H1). destruct (run (next_cfg c e) s1 es) as [[s2 os]|]; [discriminate|contradiction].
Qed.

Lemma init_state_inv13 c now nts inv known0 : Inv13 (init_state c now nts inv known0).
Proof.
  unfold Inv13, init_state; cbn. destruct (N.ltb_spec nts now); lia.
Qed.

(* ------------------------------------------------------------------ *)
(* the gossip table under announced / update_row *)

Definition anns (g : list row) : list ann := map r_ann g.

Lemma update_row_anns id f g : (forall r, r_ann (f r) = r_ann r) -> anns (update_row id f g) = anns g.
Proof.
  intros Hf. unfold anns. induction g as [|r g IH]; cbn; [reflexivity|].
  destruct (N.eqb (r_id r) id); cbn; [rewrite Hf|rewrite IH]; reflexivity.
Qed.

Lemma update_row_ids id f g : (forall r, r_id (f r) = r_id r) -> map r_id (update_row id f g) = map r_id g.
Proof.
  intros Hf. induction g as [|r g IH]; cbn; [reflexivity|].
  destruct (N.eqb (r_id r) id); cbn; [rewrite Hf|rewrite IH]; reflexivity.
Qed.

Lemma update_row_in id f g r : In r (update_row id f g) -> In r g \/ exists r0, In r0 g /\ r_id r0 = id /\ r = f r0.
Proof.
  induction g as [|x g IH]; cbn; [tauto|].
  destruct (N.eqb_spec (r_id x) id).
  - intros [<-|H]; [right; exists x; auto | left; right; exact H].
  - intros [<-|H]; [left; left; reflexivity|].
    destruct (IH H) as [H1|(r0 & H1 & H2 & H3)]; [left; right; exact H1|right; exists r0; auto].
Qed.

Lemma find_row_in a g r : find_row a g = Some r -> In r g /\ same_key (r_ann r) a = true.
Proof.
  induction g as [|x g IH]; cbn; [discriminate|].
  destruct (same_key (r_ann x) a) eqn:E.
  - intros H; inversion H; subst. split; [left; reflexivity|exact E].
  - intros H. destruct (IH H). split; [right; assumption|assumption].
Qed.

Lemma announced_rows g a now id g' r :
  announced g a now = AStored id g' -> In r g' -> In r g \/ r_ann r = a.
Proof.
  unfold announced. destruct (N.eqb (a_ts a) 0); [discriminate|].
  destruct (find_row a g) as [r0|] eqn:F.
  - destruct (N.ltb _ _); [|discriminate]. intros E; inversion E; subst; clear E.
    intros H. apply update_row_in in H. destruct H as [H|(x & H1 & H2 & H3)]; [left; exact H|].
    right. subst r. reflexivity.
  - intros E; inversion E; subst; clear E. intros H. apply in_app_or in H.
    destruct H as [H|[<-|[]]]; [left; exact H|right; reflexivity].
Qed.

Lemma announced_has g a now id g' :
  announced g a now = AStored id g' -> exists r, In r g' /\ r_ann r = a /\ r_id r = id /\ r_recv r = now.
Proof.
  unfold announced. destruct (N.eqb (a_ts a) 0); [discriminate|].
  destruct (find_row a g) as [r0|] eqn:F.
  - destruct (N.ltb _ _); [|discriminate]. intros E; inversion E; subst; clear E.
    apply find_row_in in F. destruct F as [F _].
    clear - F. induction g as [|x g IH]; cbn in *; [tauto|].
    destruct (N.eqb_spec (r_id x) (r_id r0)) as [E|NE].
    + eexists. split; [left; reflexivity|]. cbn. auto.
    + destruct F as [->|F]; [congruence|].
      destruct (IH F) as (r & H1 & H2). exists r. split; [right; exact H1|exact H2].
  - intros E; inversion E; subst; clear E.
    exists (mkRow (next_id g) a RDont now). repeat split. apply in_or_app. right. left. reflexivity.
Qed.

(* ------------------------------------------------------------------ *)
(* what receiving an announcement can change *)

Definition me_routes (c : config) (s : state) : list N := route_inventory (c_me c) (routing s).

Lemma route_inventory_add_other me rid n ts rt : n <> me ->
  route_inventory me (fst (route_add rid n ts rt)) = route_inventory me rt.
Proof.
  intros Hn. unfold route_add. destruct (route_find rid n rt) as [old|].
  - destruct (N.ltb old ts); [|reflexivity]. cbn [fst].
    unfold route_inventory. induction rt as [|e rt IH]; cbn; [reflexivity|].
    destruct (route_eqb rid n e) eqn:E.
    + unfold route_eqb in E. apply andb_true_iff in E. destruct E as [E1 E2].
      apply N.eqb_eq in E1, E2. cbn.
      destruct (N.eqb_spec n me); [contradiction|].
      destruct (N.eqb_spec (snd (fst e)) me); [congruence|]. exact IH.
    + destruct (N.eqb (snd (fst e)) me); cbn; rewrite IH; reflexivity.
  - cbn [fst]. unfold route_inventory. rewrite filter_app, map_app. cbn.
    destruct (N.eqb_spec n me); [contradiction|]. cbn. apply app_nil_r.
Qed.

Lemma route_inventory_remove_other me rid n rt : n <> me ->
  route_inventory me (route_remove rid n rt) = route_inventory me rt.
Proof.
  intros Hn. unfold route_inventory, route_remove.
  induction rt as [|e rt IH]; cbn; [reflexivity|].
  destruct (route_eqb rid n e) eqn:E; cbn.
  - unfold route_eqb in E. apply andb_true_iff in E. destruct E as [_ E2]. apply N.eqb_eq in E2.
    destruct (N.eqb_spec (snd (fst e)) me); [congruence|]. exact IH.
  - destruct (N.eqb (snd (fst e)) me); cbn; rewrite IH; reflexivity.
Qed.

Lemma sync_routing_other me inv n ts rt : n <> me ->
  route_inventory me (fst (sync_routing inv n ts rt)) = route_inventory me rt.
Proof.
  intros Hn. unfold sync_routing.
  assert (forall l acc, route_inventory me (fst (fold_left (fun acc rid =>
      let '(t, c) := route_add rid n ts (fst acc) in (t, c || snd acc)) l acc))
      = route_inventory me (fst acc)) as G.
  { induction l as [|x l IH]; intros acc; cbn [fold_left]; [reflexivity|].
    rewrite IH. destruct (route_add x n ts (fst acc)) as [t ch] eqn:E. cbn [fst].
    replace t with (fst (route_add x n ts (fst acc))) by (rewrite E; reflexivity).
    apply route_inventory_add_other. exact Hn. }
  destruct (fold_left _ (dedupN inv) (rt, false)) as [rt1 ch1] eqn:E1.
  cbn [fst].
  assert (route_inventory me rt1 = route_inventory me rt) as H1.
  { specialize (G (dedupN inv) (rt, false)). rewrite E1 in G. exact G. }
  assert (forall l rt2, route_inventory me (fold_left (fun t rid => route_remove rid n t) l rt2)
                        = route_inventory me rt2) as G2.
  { induction l as [|y l IH2]; intros rt2; cbn [fold_left]; [reflexivity|].
    rewrite IH2. apply route_inventory_remove_other. exact Hn. }
  rewrite G2. exact H1.
Qed.

Record handled_frame (c : config) (s s' : state) : Prop := {
  hf_clock : clock s' = clock s;
  hf_last : last_ts s' = last_ts s;
  hf_node : node_ts s' = node_ts s;
  hf_inv : inv_ts s' = inv_ts s;
  hf_rids : inv_rids s' = inv_rids s;
  hf_deliv : delivered s' = delivered s;
  hf_linv : last_inventory s' = last_inventory s;
  hf_keys : keys (sessions s') = keys (sessions s);
  hf_routes : me_routes c s' = me_routes c s;
}.

Lemma keys_insert_present {V} k (v : V) m : sorted m -> lookup k m <> None -> keys (insert k v m) = keys m.
Proof.
  unfold insert. induction m as [|[k' v'] m IH]; cbn; intros Hs H; [congruence|].
  apply sorted_cons_inv in Hs. destruct Hs as [Hs Hall].
  destruct (N.compare_spec k k').
  - subst. reflexivity.
  - exfalso. destruct (N.eqb_spec k k'); [lia|]. apply H.
    apply lookup_none_le with (k0 := k'); [lia|assumption].
  - cbn. f_equal. apply IH; [assumption|]. destruct (N.eqb_spec k k'); [lia|exact H].
Qed.

Definition stored_facts (c : config) (s s' : state) (p : N) (a : ann) : Prop :=
  a_sig a = true /\ a_node a <> c_me c /\ a_ts a <> 0 /\ a_ts a <= clock s + MAX_TIME_DELTA /\
  (a_kind a <> KNode -> memN (a_node a) (known s) = true) /\
  exists id, announced (gossip s) a (clock s) = AStored id (gossip s') /\
             relayed_by s' = insert id (relayers s id ++ [p]) (relayed_by s).

Lemma handle_announcement_spec c s p a s' st r : sorted (sessions s) ->
  handle_announcement c s p a = HDone s' st r ->
  handled_frame c s s' /\ sorted (sessions s') /\
  (st = false -> s' = s /\ r = None) /\
  (st = true -> stored_facts c s s' p a /\
     forall id, r = Some id -> announced (gossip s) a (clock s) = AStored id (gossip s')).
Proof.
  intros Hsorted. unfold handle_announcement.
  assert (handled_frame c s s) as F0 by (constructor; reflexivity).
  destruct (a_sig a) eqn:Esig; cbn [negb]; [|discriminate].
  destruct (N.eqb_spec (a_node a) (c_me c)) as [|Hme];
    [intros E; inversion E; subst; repeat split; auto; discriminate|].
  destruct (N.ltb_spec MAX_TIME_DELTA (sat_sub (a_ts a) (clock s))) as [|Hfut]; [discriminate|].
  destruct (N.eqb_spec (a_ts a) 0) as [|Hnz]; [discriminate|].
  destruct ((match a_kind a with KNode => false | _ => true end) && negb (memN (a_node a) (known s))) eqn:Ek;
    [intros E; inversion E; subst; repeat split; auto; discriminate|].
  destruct (announced (gossip s) a (clock s)) as [| |id g] eqn:Ea;
    [discriminate|intros E; inversion E; subst; repeat split; auto; discriminate|].
  assert (a_ts a <= clock s + MAX_TIME_DELTA) as Hfresh by (unfold sat_sub in Hfut; lia).
  assert (a_kind a <> KNode -> memN (a_node a) (known s) = true) as Hknown.
  { intros Hk. destruct (a_kind a); try contradiction; cbn in Ek;
      destruct (memN (a_node a) (known s)); try reflexivity; discriminate. }
  set (rel := if _ || _ then Some id else None).
  assert (forall id', rel = Some id' -> id' = id) as Hrel.
  { unfold rel. intros id'. destruct (_ || _); intros E; inversion E; reflexivity. }
  assert (forall s2, gossip s2 = g ->
            relayed_by s2 = insert id (relayers s id ++ [p]) (relayed_by s) ->
            stored_facts c s s2 p a) as SF.
  { intros s2 Hg Hr. repeat split; auto. exists id. rewrite Hg. split; [exact Ea|exact Hr]. }
  destruct (a_kind a) eqn:Ekind.
  - (* node *)
    destruct (negb (a_seed a)); intros E; inversion E; subst; clear E;
      (split; [constructor; reflexivity|]); (split; [exact Hsorted|]);
      (split; [discriminate|]); intros _; (split; [apply SF; reflexivity|]);
      intros id' Hid; apply Hrel in Hid; subst; reflexivity.
  - (* inventory *)
    destruct (sync_routing (a_inv a) (a_node a) (a_ts a) _) as [rt ch] eqn:Esr.
    assert (route_inventory (c_me c) rt = me_routes c s) as Hrt.
    { unfold me_routes. replace rt with (fst (sync_routing (a_inv a) (a_node a) (a_ts a) (routing s))).
      - apply sync_routing_other. exact Hme.
      - unf_set. rewrite Esr. reflexivity. }
    destruct (negb ch).
    + intros E; inversion E; subst; clear E.
      split; [constructor; try reflexivity; unfold me_routes; unf_set; exact Hrt|].
      split; [exact Hsorted|]. split; [discriminate|]. intros _.
      split; [apply SF; reflexivity|]. discriminate.
    + unf_set.
      destruct (lookup (a_node a) (sessions s)) as [ss|] eqn:Els.
      * destruct (s_sub ss) as [sub|].
        -- intros E; inversion E; subst; clear E. unf_set.
           split; [constructor; try reflexivity; unf_set|].
           ++ apply keys_insert_present; [exact Hsorted|congruence].
           ++ unfold me_routes; unf_set; exact Hrt.
           ++ split; [unf_set; unfold insert; apply sorted_upsert; exact Hsorted|].
              split; [discriminate|]. intros _. split; [apply SF; reflexivity|].
              intros id' Hid; apply Hrel in Hid; subst; reflexivity.
        -- intros E; inversion E; subst; clear E.
           split; [constructor; try reflexivity; unfold me_routes; unf_set; exact Hrt|].
           split; [exact Hsorted|]. split; [discriminate|]. intros _.
           split; [apply SF; reflexivity|].
           intros id' Hid; apply Hrel in Hid; subst; reflexivity.
      * intros E; inversion E; subst; clear E.
        split; [constructor; try reflexivity; unfold me_routes; unf_set; exact Hrt|].
        split; [exact Hsorted|]. split; [discriminate|]. intros _.
        split; [apply SF; reflexivity|].
        intros id' Hid; apply Hrel in Hid; subst; reflexivity.
  - (* refs *)
    destruct (negb (a_nonempty a)).
    + intros E; inversion E; subst; clear E.
      split; [constructor; reflexivity|]. split; [exact Hsorted|].
      split; [discriminate|]. intros _. split; [apply SF; reflexivity|]. discriminate.
    + assert (route_inventory (c_me c) (fst (route_add (a_rid a) (a_node a) (a_ts a) (routing s)))
              = me_routes c s) as Hrt by (apply route_inventory_add_other; exact Hme).
      destruct (negb (memN (a_rid a) (c_seeded c))); intros E; inversion E; subst; clear E;
        (split; [constructor; try reflexivity; unfold me_routes; unf_set; exact Hrt|]);
        (split; [exact Hsorted|]); (split; [discriminate|]); intros _;
        (split; [apply SF; reflexivity|]);
        try discriminate; intros id' Hid; apply Hrel in Hid; subst; reflexivity.
Qed.

(* ------------------------------------------------------------------ *)
(* C29: announcement timestamps drawn by the node strictly increase, and
   every announcement the node sends under its own name carries the cached
   node/inventory timestamp or one of the drawn timestamps *)

Definition draws (o : list out) : list N :=
  flat_map (fun x => match x with ODraw t => [t] | _ => [] end) o.
Definition own_ts (c : config) (o : list out) : list N :=
  flat_map (fun x => match x with
                     | OWrite _ a _ => if N.eqb (a_node a) (c_me c) then [a_ts a] else []
                     | _ => [] end) o.

Definition own_rows_ok (c : config) (H : list N) (g : list row) : Prop :=
  forall r, In r g -> a_node (r_ann r) = c_me c -> In (a_ts (r_ann r)) H.

Definition Inv29 (c : config) (H : list N) (s : state) : Prop :=
  (forall t, In t H -> t <= last_ts s) /\ In (inv_ts s) H /\ In (node_ts s) H /\
  own_rows_ok c H (gossip s).

Lemma own_rows_ok_mono c H H' g : incl H H' -> own_rows_ok c H g -> own_rows_ok c H' g.
Proof. intros Hi Ho r Hr Hm. apply Hi. apply Ho; assumption. Qed.

Lemma own_rows_ok_announced c H g a now id g' :
  announced g a now = AStored id g' -> (a_node a = c_me c -> In (a_ts a) H) ->
  own_rows_ok c H g -> own_rows_ok c H g'.
Proof.
  intros Ea Ha Ho r Hr Hm. destruct (announced_rows _ _ _ _ _ _ Ea Hr) as [Hin|Heq].
  - apply Ho; assumption.
  - subst a. apply Ha. exact Hm.
Qed.

Lemma own_rows_ok_update c H id f g : (forall r, r_ann (f r) = r_ann r) ->
  own_rows_ok c H g -> own_rows_ok c H (update_row id f g).
Proof.
  intros Hf Ho r Hr Hm. apply update_row_in in Hr. destruct Hr as [Hr|(r0 & H1 & H2 & H3)].
  - apply Ho; assumption.
  - subst r. rewrite Hf in *. apply Ho; assumption.
Qed.

Lemma own_rows_ok_map c H f g : (forall r, r_ann (f r) = r_ann r) ->
  own_rows_ok c H g -> own_rows_ok c H (map f g).
Proof.
  intros Hf Ho r Hr Hm. apply in_map_iff in Hr. destruct Hr as (r0 & <- & Hr0).
  rewrite Hf in *. apply Ho; assumption.
Qed.

Lemma own_ts_app c o1 o2 : own_ts c (o1 ++ o2) = own_ts c o1 ++ own_ts c o2.
Proof. unfold own_ts. apply flat_map_app. Qed.
Lemma draws_app o1 o2 : draws (o1 ++ o2) = draws o1 ++ draws o2.
Proof. unfold draws. apply flat_map_app. Qed.

Lemma own_ts_map_write c (f : N -> ann) (pth : path) l :
  own_ts c (map (fun p => OWrite p (f p) pth) l) =
  flat_map (fun p => if N.eqb (a_node (f p)) (c_me c) then [a_ts (f p)] else []) l.
Proof. unfold own_ts. induction l as [|x l IH]; cbn; [reflexivity|]. rewrite IH. reflexivity. Qed.

Lemma draws_map_write (f : N -> ann) pth l : draws (map (fun p => OWrite p (f p) pth) l) = [].
Proof. unfold draws. induction l as [|x l IH]; cbn; [reflexivity|exact IH]. Qed.

Lemma relay_out_own c s id a : a_node a <> c_me c -> own_ts c (relay_out c s id a) = [].
Proof.
  intros Hn. unfold relay_out. rewrite own_ts_map_write.
  induction (relay_targets c s id a) as [|x l IH]; cbn; [reflexivity|].
  destruct (N.eqb_spec (a_node a) (c_me c)); [contradiction|exact IH].
Qed.
Lemma relay_out_draws c s id a : draws (relay_out c s id a) = [].
Proof. unfold relay_out. apply draws_map_write. Qed.

Lemma Forall_flat_map_const {A} (P : N -> Prop) (l : list A) (b : A -> bool) (t : N) :
  P t -> Forall P (flat_map (fun p => if b p then [t] else []) l).
Proof.
  intros Ht. induction l as [|x l IH]; cbn; [constructor|].
  destruct (b x); cbn; [constructor; assumption|assumption].
Qed.

Lemma announce_own_29 c H s a peers s' o :
  Inv29 c H s -> In (a_ts a) H -> announce_own c s a peers = Ok s' o ->
  Inv29 c H s' /\ last_ts s' = last_ts s /\ draws o = [] /\ Forall (fun t => In t H) (own_ts c o) /\
  inv_ts s' = inv_ts s /\ inv_rids s' = inv_rids s /\ last_inventory s' = last_inventory s.
Proof.
  intros (H1 & H2 & H3 & H4) Ha. unfold announce_own.
  destruct (announced (gossip s) a (clock s)) as [| |id g] eqn:Ea; [discriminate| |];
    intros E; inversion E; subst; clear E; unf_set.
  - repeat split; auto.
    + apply draws_map_write.
    + rewrite own_ts_map_write. apply Forall_flat_map_const with (b := fun _ => N.eqb (a_node a) (c_me c)). exact Ha.
  - repeat split; auto.
    + eapply own_rows_ok_announced; [exact Ea|intros _; exact Ha|exact H4].
    + apply draws_map_write.
    + rewrite own_ts_map_write. apply Forall_flat_map_const with (b := fun _ => N.eqb (a_node a) (c_me c)). exact Ha.
Qed.

Lemma announce_inventory_29 c H s s' o :
  Inv29 c H s -> announce_inventory c s = Ok s' o ->
  Inv29 c H s' /\ last_ts s' = last_ts s /\ draws o = [] /\ Forall (fun t => In t H) (own_ts c o).
Proof.
  intros HI. unfold announce_inventory.
  destruct (N.eqb (last_inventory s) (inv_ts s)).
  - intros E; inversion E; subst. destruct HI as (H1 & H2 & H3 & H4).
    split; [repeat split; assumption|]. split; [reflexivity|]. split; [reflexivity|]. cbn. constructor.
  - destruct (announce_own c s (own_inv_ann c s) (connected_peers s)) as [s1 o1|] eqn:E1; [|discriminate].
    intros E; inversion E; subst; clear E.
    destruct HI as (H1 & H2 & H3 & H4).
    destruct (announce_own_29 c H s (own_inv_ann c s) _ _ _ (conj H1 (conj H2 (conj H3 H4))) H2 E1)
      as ((I1 & I2 & I3 & I4) & L & D & F & Ei & _).
    unfold Inv29. unf_set. repeat split; auto.
Qed.

Lemma replay_out_draws c s p sub since until : draws (replay_out c s p sub since until) = [].
Proof.
  unfold replay_out. induction (gossip s) as [|r g IH]; cbn [flat_map]; [reflexivity|].
  rewrite draws_app, IH, app_nil_r.
  match goal with |- context [if ?b then _ else _] => destruct b end; reflexivity.
Qed.

Lemma pending_relay_quiet c s' (l : list row) :
  draws (flat_map (fun r => if N.eqb (a_node (r_ann r)) (c_me c) then []
                            else relay_out c s' (r_id r) (r_ann r)) l) = [] /\
  own_ts c (flat_map (fun r => if N.eqb (a_node (r_ann r)) (c_me c) then []
                               else relay_out c s' (r_id r) (r_ann r)) l) = [].
Proof.
  induction l as [|r g [IH1 IH2]]; cbn [flat_map]; [split; reflexivity|].
  rewrite draws_app, own_ts_app, IH1, IH2, !app_nil_r.
  destruct (N.eqb_spec (a_node (r_ann r)) (c_me c)); [split; reflexivity|].
  rewrite relay_out_draws, relay_out_own by assumption. split; reflexivity.
Qed.

Definition step29_result (c : config) (H : list N) (s s' : state) (o : list out) : Prop :=
  ((draws o = [] /\ last_ts s' = last_ts s) \/
   (exists t, draws o = [t] /\ last_ts s < t /\ last_ts s' = t)) /\
  Inv29 c (H ++ draws o) s' /\ Forall (fun t => In t (H ++ draws o)) (own_ts c o).

Lemma Inv29_extend c H s s1 t :
  Inv29 c H s -> last_ts s < t -> last_ts s1 = t -> inv_ts s1 = inv_ts s -> node_ts s1 = node_ts s ->
  gossip s1 = gossip s -> Inv29 c (H ++ [t]) s1.
Proof.
  intros (H1 & H2 & H3 & H4) Hlt Hl Hi Hn Hg. unfold Inv29. rewrite Hl, Hi, Hn, Hg.
  repeat split.
  - intros x Hx. apply in_app_or in Hx. destruct Hx as [Hx|[<-|[]]]; [specialize (H1 _ Hx); lia|lia].
  - apply in_or_app; left; exact H2.
  - apply in_or_app; left; exact H3.
  - eapply own_rows_ok_mono; [|exact H4]. intros x Hx. apply in_or_app; left; exact Hx.
Qed.

Lemma step_29 c H s e s' o : sorted (sessions s) ->
  Inv29 c H s -> step c s e = Ok s' o -> step29_result c H s s' o.
Proof.
  intros Hsorted HI. pose proof HI as (H1 & H2 & H3 & H4).
  assert (forall s2, last_ts s2 = last_ts s -> inv_ts s2 = inv_ts s -> node_ts s2 = node_ts s ->
                     own_rows_ok c H (gossip s2) -> Inv29 c (H ++ []) s2) as Keep.
  { intros s2 E1 E2 E3 E4. rewrite app_nil_r. unfold Inv29. rewrite E1, E2, E3. auto. }
  destruct e as [p|p|p a|p sub since until|dt|rid|rid|tnow| |srid sd]; cbn [step].
  - (* connect *)
    intros E; inversion E; subst; clear E. unfold step29_result. cbn [draws flat_map app].
    split; [left; split; reflexivity|]. split; [apply Keep; unf_set; auto|].
    cbn. rewrite N.eqb_refl. cbn. rewrite app_nil_r. constructor; [exact H3|constructor; [exact H2|constructor]].
  - intros E; inversion E; subst; clear E. unfold step29_result. cbn.
    split; [left; split; reflexivity|]. split; [apply Keep; unf_set; auto|constructor].
  - (* announcement received *)
    destruct (lookup p (sessions s)).
    2:{ intros E; inversion E; subst. unfold step29_result; cbn.
        split; [left; split; reflexivity|]. split; [apply Keep; auto|constructor]. }
    destruct (handle_announcement c s p a) as [n| |s1 st r] eqn:Eh; [discriminate| |].
    { intros E; inversion E; subst; clear E. unfold step29_result; cbn.
      split; [left; split; reflexivity|]. split; [apply Keep; unf_set; auto|constructor]. }
    destruct (handle_announcement_spec c s p a s1 st r Hsorted Eh) as (Fr & _ & Hf & Ht).
    assert (own_rows_ok c H (gossip s1)) as Hg1.
    { destruct st.
      - destruct (Ht eq_refl) as ((_ & Hme & _ & _ & _ & id & Ea & _) & _).
        eapply own_rows_ok_announced; [exact Ea|intros Hc; contradiction|exact H4].
      - destruct (Hf eq_refl) as [-> _]. exact H4. }
    destruct Fr.
    destruct r as [id|].
    + assert (a_node a <> c_me c) as Hme.
      { destruct st; [destruct (Ht eq_refl) as ((_ & Hme & _) & _); exact Hme|].
        destruct (Hf eq_refl) as [_ Hr]. discriminate. }
      destruct (c_relay c); [destruct (a_kind a)|]; intros E; inversion E; subst; clear E;
        unfold step29_result; rewrite ?relay_out_draws, ?relay_out_own by exact Hme; cbn [draws flat_map own_ts];
        (split; [left; split; [reflexivity|unf_set; assumption]|]);
        (split; [apply Keep; unf_set; auto|constructor]).
      apply own_rows_ok_update; [reflexivity|exact Hg1].
    + intros E; inversion E; subst; clear E. unfold step29_result; cbn.
      split; [left; split; [reflexivity|unf_set; assumption]|].
      split; [apply Keep; unf_set; auto|constructor].
  - (* subscribe: replay *)
    destruct (lookup p (sessions s)).
    2:{ intros E; inversion E; subst. unfold step29_result; cbn.
        split; [left; split; reflexivity|]. split; [apply Keep; auto|constructor]. }
    intros E; inversion E; subst; clear E. unfold step29_result.
    pose proof (replay_out_draws c s p sub since until) as Hd.
    rewrite Hd. split; [left; split; reflexivity|]. split; [apply Keep; unf_set; auto|].
    rewrite app_nil_r. unfold replay_out, own_ts.
    assert (forall g, own_rows_ok c H g -> Forall (fun t => In t H)
       (flat_map (fun x => match x with
                     | OWrite _ a _ => if N.eqb (a_node a) (c_me c) then [a_ts a] else []
                     | _ => [] end)
          (flat_map (fun r => let a := r_ann r in
             if in_range since until (a_ts a)
                && (match a_kind a with KRefs => sub_matches sub (a_rid a) | _ => true end)
                && negb (N.eqb (a_node a) p)
                && (c_relay c || N.eqb (a_node a) (c_me c))
                && (match a_kind a with
                    | KRefs => match lookup (a_rid a) (c_storage c) with
                               | Some d => visible d p | None => true end
                    | _ => true end)
             then [OWrite p a PReplay] else []) g))) as G.
    { induction g as [|r g IH]; intros Hg; cbn; [constructor|].
      rewrite flat_map_app. apply Forall_app. split.
      - destruct (_ && _); cbn; [|constructor].
        destruct (N.eqb_spec (a_node (r_ann r)) (c_me c)); cbn; [|constructor].
        constructor; [|constructor]. apply Hg; [left; reflexivity|assumption].
      - apply IH. intros r' Hr'. apply Hg. right. exact Hr'. }
    apply G. exact H4.
  - (* elapse / wake *)
    unfold wake.
    match goal with |- context [let '(s1, o1) := ?X in _] => destruct X as [s1 o1] eqn:E1 end.
    assert (Inv29 c H s1 /\ last_ts s1 = last_ts s /\ draws o1 = [] /\ own_ts c o1 = []) as (I1 & L1 & D1 & O1).
    { destruct (N.leb GOSSIP_INTERVAL _); inversion E1; subst; clear E1; unf_set.
      - split; [|split; [reflexivity|]].
        + unfold Inv29; unf_set. repeat split; auto. apply own_rows_ok_map; [|exact H4].
          intros r; destruct (r_relay r); reflexivity.
        + apply pending_relay_quiet.
      - repeat split; auto. }
    destruct (N.leb ANNOUNCE_INTERVAL _).
    + destruct (announce_inventory c s1) as [s2 o2|] eqn:E2; [|discriminate].
      intros E; inversion E; subst; clear E.
      destruct (announce_inventory_29 c H s1 s2 o2 I1 E2) as ((J1 & J2 & J3 & J4) & L2 & D2 & F2).
      unfold step29_result. rewrite draws_app, D1, D2, own_ts_app, O1. cbn [app].
      split; [left; split; [reflexivity|unf_set; congruence]|].
      split; [rewrite app_nil_r; unfold Inv29; unf_set; repeat split; auto|]. rewrite app_nil_r. exact F2.
    + intros E; inversion E; subst; clear E. unfold step29_result. rewrite D1, O1.
      split; [left; split; [reflexivity|exact L1]|]. split; [rewrite app_nil_r; exact I1|constructor].
  - (* announce refs *)
    destruct (lookup rid (c_storage c)) as [d|].
    2:{ intros E; inversion E; subst. unfold step29_result; cbn.
        split; [left; split; reflexivity|]. split; [apply Keep; auto|constructor]. }
    destruct (draw s) as [s1 ts] eqn:Ed. apply draw_spec in Ed.
    destruct Ed as (Hlt & Hnz & Hl & Hc & Hn & Hi & Hr & Hg & _).
    pose proof (Inv29_extend c H s s1 ts HI Hlt Hl Hi Hn Hg) as I1.
    destruct (negb (memN rid (c_own_refs c))).
    + intros E; inversion E; subst; clear E. unfold step29_result. cbn [draws flat_map app own_ts].
      split; [right; exists (last_ts s'); repeat split; auto|]. split; [exact I1|constructor].
    + destruct (announce_own c s1 _ _) as [s2 o2|] eqn:E2; [|discriminate].
      intros E; inversion E; subst; clear E.
      assert (In (a_ts (own_refs_ann c rid (last_ts s1))) (H ++ [last_ts s1])) as Hin
        by (cbn; apply in_or_app; right; left; reflexivity).
      destruct (announce_own_29 c _ s1 _ _ _ _ I1 Hin E2) as (I2 & L2 & D2 & F2 & _).
      unfold step29_result. cbn [draws flat_map own_ts]. fold (draws o2). fold (own_ts c o2).
      rewrite D2. cbn [app].
      split; [right; exists (last_ts s1); repeat split; auto|]. split; [exact I2|exact F2].
  - (* add inventory *)
    destruct (draw s) as [s1 ts] eqn:Ed. apply draw_spec in Ed.
    destruct Ed as (Hlt & Hnz & Hl & Hc & Hn & Hi & Hr & Hg & _).
    pose proof (Inv29_extend c H s s1 ts HI Hlt Hl Hi Hn Hg) as I1.
    destruct (lookup rid (c_storage c)) as [d|].
    + match goal with |- context [announce_inventory c ?S] => set (s3 := S) end.
      assert (Inv29 c (H ++ [ts]) s3) as I3.
      { destruct I1 as (J1 & J2 & J3 & J4). unfold Inv29, s3; unf_set. repeat split; auto.
        apply in_or_app; right; left; reflexivity. }
      destruct (announce_inventory c s3) as [s4 o4|] eqn:E4; [|discriminate].
      intros E; injection E as <- <-.
      destruct (announce_inventory_29 c _ s3 s4 o4 I3 E4) as (I4 & L4 & D4 & F4).
      unfold step29_result. cbn [draws flat_map own_ts]. fold (draws o4). fold (own_ts c o4).
      rewrite D4. cbn [app].
      split; [right; exists ts; repeat split; auto; rewrite L4; unfold s3; unf_set; exact Hl|].
      split; [exact I4|exact F4].
    + intros E; inversion E; subst; clear E. unfold step29_result. cbn [draws flat_map app own_ts].
      split; [right; exists (last_ts s'); repeat split; auto|]. split; [exact I1|constructor].
  - intros E; inversion E; subst; clear E. unfold step29_result. cbn.
    split; [left; split; reflexivity|]. split; [apply Keep; unf_set; auto|constructor].
  - destruct (draw _) as [s1 ts] eqn:Ed. apply draw_spec in Ed.
    destruct Ed as (Hlt & Hnz & Hl & Hc & Hn & Hi & Hr & Hg & _). unf_set.
    pose proof (Inv29_extend c H s s1 ts HI Hlt Hl Hi Hn Hg) as (J1 & J2 & J3 & J4).
    intros E; inversion E; subst; clear E. unfold step29_result. cbn [draws flat_map app own_ts].
    split; [right; exists (last_ts s1); repeat split; auto|]. split; [|constructor].
    unfold Inv29; unf_set. split; [exact J1|]. split; [apply in_or_app; right; left; reflexivity|].
    split; [exact J3|exact J4].
  - intros E; inversion E; subst; clear E. unfold step29_result. cbn.
    split; [left; split; reflexivity|]. split; [apply Keep; auto|constructor].
Qed.

Lemma step_sorted c s e s' o : sorted (sessions s) -> step c s e = Ok s' o -> sorted (sessions s').
Proof.
  intros Hs. destruct e as [p|p|p a|p sub since until|dt|rid|rid|tnow| |srid sd]; cbn [step].
  - intros E; inversion E; subst; unf_set. unfold insert. apply sorted_upsert. exact Hs.
  - intros E; inversion E; subst; unf_set. apply sorted_remove. exact Hs.
  - destruct (lookup p (sessions s)); [|intros E; inversion E; subst; exact Hs].
    destruct (handle_announcement c s p a) as [n| |s1 st r] eqn:Eh; [discriminate| |].
    + intros E; inversion E; subst; unf_set; exact Hs.
    + destruct (handle_announcement_spec c s p a s1 st r Hs Eh) as (_ & Hs1 & _).
      destruct r as [id|]; [destruct (c_relay c); [destruct (a_kind a)|]|];
        intros E; inversion E; subst; unf_set; exact Hs1.
  - destruct (lookup p (sessions s)); intros E; inversion E; subst; unf_set; [|exact Hs].
    unfold insert. apply sorted_upsert. exact Hs.
  - unfold wake.
    match goal with |- context [let '(s1, o1) := ?X in _] => destruct X as [s1 o1] eqn:E1 end.
    assert (sessions s1 = sessions s) as Hs1.
    { destruct (N.leb GOSSIP_INTERVAL _); inversion E1; subst; unf_set; reflexivity. }
    assert (forall s2 o2, announce_inventory c s1 = Ok s2 o2 -> sessions s2 = sessions s1) as Hai.
    { intros s2 o2. unfold announce_inventory, announce_own.
      destruct (N.eqb _ _); [intros E; inversion E; reflexivity|].
      destruct (announced _ _ _); [discriminate| |]; intros E; inversion E; subst; unf_set; reflexivity. }
    destruct (N.leb ANNOUNCE_INTERVAL _).
    + destruct (announce_inventory c s1) as [s2 o2|] eqn:E2; [|discriminate].
      intros E; inversion E; subst; unf_set. rewrite (Hai _ _ eq_refl), Hs1. exact Hs.
    + intros E; inversion E; subst. rewrite Hs1. exact Hs.
  - destruct (lookup rid (c_storage c)) as [d|]; [|intros E; inversion E; subst; exact Hs].
    destruct (draw s) as [s1 ts] eqn:Ed. apply draw_spec in Ed.
    destruct Ed as (_ & _ & _ & _ & _ & _ & _ & _ & _ & Hss & _).
    destruct (negb _); [intros E; inversion E; subst; rewrite Hss; exact Hs|].
    unfold announce_own. destruct (announced _ _ _); [discriminate| |];
      intros E; inversion E; subst; unf_set; rewrite Hss; exact Hs.
  - destruct (draw s) as [s1 ts] eqn:Ed. apply draw_spec in Ed.
    destruct Ed as (_ & _ & _ & _ & _ & _ & _ & _ & _ & Hss & _).
    destruct (lookup rid (c_storage c)) as [d|]; [|intros E; inversion E; subst; rewrite Hss; exact Hs].
    unfold announce_inventory, announce_own. unf_set.
    destruct (N.eqb _ _); [intros E; inversion E; subst; unf_set; rewrite Hss; exact Hs|].
    destruct (announced _ _ _); [discriminate| |]; intros E; inversion E; subst; unf_set;
      rewrite Hss; exact Hs.
  - intros E; inversion E; subst; unf_set; exact Hs.
  - destruct (draw _) as [s1 ts] eqn:Ed. apply draw_spec in Ed.
    destruct Ed as (_ & _ & _ & _ & _ & _ & _ & _ & _ & Hss & _). unf_set.
    intros E; inversion E; subst; unf_set. rewrite Hss. exact Hs.
  - intros E; inversion E; subst; exact Hs.
Qed.

Fixpoint incr_from (b : N) (l : list N) : Prop :=
  match l with [] => True | t :: l' => b < t /\ incr_from t l' end.
Definition all_draws (os : list (list out)) : list N := flat_map draws os.

Lemma Inv29_cfg c c' H s : c_me c' = c_me c -> Inv29 c H s -> Inv29 c' H s.
Proof. unfold Inv29, own_rows_ok. intros E. rewrite E. tauto. Qed.
Lemma own_ts_cfg c c' o : c_me c' = c_me c -> own_ts c' o = own_ts c o.
Proof. unfold own_ts. intros E. rewrite E. reflexivity. Qed.

Theorem run_29 : forall es c H s s' os, sorted (sessions s) -> Inv29 c H s ->
  run c s es = Some (s', os) ->
  incr_from (last_ts s) (all_draws os) /\
  Forall (fun t => In t (H ++ all_draws os)) (flat_map (own_ts c) os).
Proof.
  induction es as [|e es IH]; intros c H s s' os Hs HI; cbn [run].
  - intros E; inversion E; subst. cbn. split; [exact I|constructor].
  - destruct (step c s e) as [s1 o|] eqn:Es; [|discriminate].
    destruct (run (next_cfg c e) s1 es) as [[s2 os2]|] eqn:Er; [|discriminate].
    intros E; inversion E; subst; clear E.
    destruct (step_29 c H s e s1 o Hs HI Es) as (Hd & I1 & Fo).
    specialize (IH (next_cfg c e) (H ++ draws o) s1 s' os2 (step_sorted c s e s1 o Hs Es)
                   (Inv29_cfg c _ _ _ (next_cfg_me c e) I1) Er).
    destruct IH as (Hinc & Fown).
    unfold all_draws in *. cbn [flat_map]. split.
    + destruct Hd as [[D L]|(t & D & Hlt & L)]; rewrite D; cbn [app].
      * rewrite <- L. exact Hinc.
      * cbn [incr_from]. split; [exact Hlt|]. rewrite <- L. exact Hinc.
    + apply Forall_app. split.
      * eapply Forall_impl; [|exact Fo]. cbn. intros t Ht. rewrite app_assoc.
        apply in_or_app. left. exact Ht.
      * assert (flat_map (own_ts (next_cfg c e)) os2 = flat_map (own_ts c) os2) as Eo.
        { apply flat_map_ext. intros o'. apply own_ts_cfg, next_cfg_me. }
        rewrite <- Eo. eapply Forall_impl; [|exact Fown]. cbn. intros t Ht. rewrite app_assoc. exact Ht.
Qed.

Lemma init_state_inv29 c now nts inv known0 :
  let s := init_state c now nts inv known0 in
  Inv29 c [node_ts s; inv_ts s] s /\ sorted (sessions s) /\ node_ts s < inv_ts s /\ inv_ts s = last_ts s.
Proof.
  cbn. unfold Inv29. cbn. repeat split.
  - intros t [<-|[<-|[]]]; destruct (N.ltb_spec nts now); lia.
  - right; left; reflexivity.
  - left; reflexivity.
  - intros r [].
  - constructor.
  - destruct (N.ltb_spec nts now); lia.
Qed.

(* ------------------------------------------------------------------ *)
(* C11: refs announcements of private repositories stay confined; the node's
   own inventory lists public repositories only *)

Lemma relay_out_in c s id a p a' pth :
  In (OWrite p a' pth) (relay_out c s id a) -> a' = a /\ pth = PRelay /\ In p (relay_targets c s id a).
Proof.
  unfold relay_out. intros H. apply in_map_iff in H. destruct H as (q & E & Hq).
  inversion E; subst. auto.
Qed.

Lemma relay_targets_spec c s id a p : In p (relay_targets c s id a) ->
  In p (connected_peers s) /\ ~ In p (relayers s id) /\ p <> a_node a /\
  (a_kind a = KRefs -> exists d, lookup (a_rid a) (c_storage c) = Some d /\ visible d p = true).
Proof.
  unfold relay_targets. intros H. apply filter_In in H. destruct H as [Hc H].
  apply andb_true_iff in H. destruct H as [H H3]. apply andb_true_iff in H. destruct H as [H1 H2].
  split; [exact Hc|]. split.
  - intros Hin. apply memN_In in Hin. rewrite Hin in H1. discriminate.
  - split.
    + intros ->. rewrite N.eqb_refl in H2. discriminate.
    + intros Hk. rewrite Hk in H3. apply andb_true_iff in H3. destruct H3 as [H3 _].
      destruct (lookup (a_rid a) (c_storage c)) as [d|]; [|discriminate]. exists d. auto.
Qed.

Lemma announce_own_in c s a peers s' o p a' pth :
  announce_own c s a peers = Ok s' o -> In (OWrite p a' pth) o -> a' = a /\ pth = POwn /\ In p peers.
Proof.
  unfold announce_own. destruct (announced _ _ _); [discriminate| |];
    intros E; inversion E; subst; clear E; intros H; apply in_map_iff in H;
    destruct H as (q & E & Hq); inversion E; subst; apply filter_In in Hq; destruct Hq; auto.
Qed.

Lemma announce_inventory_in c s s' o p a' pth :
  announce_inventory c s = Ok s' o -> In (OWrite p a' pth) o -> a' = own_inv_ann c s /\ pth = POwn.
Proof.
  unfold announce_inventory. destruct (N.eqb _ _); [intros E; inversion E; subst; intros []|].
  destruct (announce_own c s (own_inv_ann c s) (connected_peers s)) as [s1 o1|] eqn:E1; [|discriminate].
  intros E; inversion E; subst; clear E. intros H.
  destruct (announce_own_in _ _ _ _ _ _ _ _ _ E1 H) as (-> & -> & _). auto.
Qed.

Lemma replay_out_in c s p sub since until q a pth :
  In (OWrite q a pth) (replay_out c s p sub since until) ->
  q = p /\ pth = PReplay /\ (exists r, In r (gossip s) /\ r_ann r = a) /\ a_node a <> p /\
  (a_kind a = KRefs -> forall d, lookup (a_rid a) (c_storage c) = Some d -> visible d p = true).
Proof.
  unfold replay_out. intros H. apply in_flat_map in H. destruct H as (r & Hr & H).
  match type of H with In _ (if ?b then _ else _) => destruct b eqn:Eb end; [|destruct H].
  destruct H as [E|[]]. inversion E; subst; clear E.
  repeat (apply andb_true_iff in Eb; destruct Eb as [Eb ?]).
  repeat split; auto.
  - exists r. auto.
  - intros Heq.
    match goal with Hn : negb (N.eqb (a_node (r_ann r)) _) = true |- _ =>
      rewrite Heq, N.eqb_refl in Hn; discriminate end.
  - intros Hk d Hd.
    match goal with Hv : context [lookup (a_rid (r_ann r)) (c_storage c)] |- _ =>
      rewrite Hk, Hd in Hv; exact Hv end.
Qed.

Definition wake_outputs_spec (c : config) (s : state) (o : list out) : Prop :=
  forall p a pth, In (OWrite p a pth) o ->
    (pth = PRelay /\ exists r s', In r (gossip s) /\ r_relay r = RRelay /\ r_ann r = a /\
        a_node a <> c_me c /\ In p (relay_targets c s' (r_id r) a) /\
        relayed_by s' = relayed_by s /\ sessions s' = sessions s) \/
    (pth = POwn /\ a_node a = c_me c /\ a_kind a = KInv /\ a_inv a = inv_rids s).

Lemma wake_outputs c s s' o : wake c s = Ok s' o -> wake_outputs_spec c s o.
Proof.
  unfold wake.
  match goal with |- context [let '(s1, o1) := ?X in _] => destruct X as [s1 o1] eqn:E1 end.
  assert (inv_rids s1 = inv_rids s /\ inv_ts s1 = inv_ts s /\
          forall p a pth, In (OWrite p a pth) o1 ->
            pth = PRelay /\ exists r s', In r (gossip s) /\ r_relay r = RRelay /\ r_ann r = a /\
              a_node a <> c_me c /\ In p (relay_targets c s' (r_id r) a) /\
              relayed_by s' = relayed_by s /\ sessions s' = sessions s) as (Hr & Ht & H1).
  { destruct (N.leb GOSSIP_INTERVAL _); inversion E1; subst; clear E1; unf_set;
      (split; [reflexivity|]); (split; [reflexivity|]); [|intros p a pth []].
    intros p a pth H. apply in_flat_map in H. destruct H as (r & Hr & H).
    apply filter_In in Hr. destruct Hr as [Hr Hrel].
    destruct (N.eqb_spec (a_node (r_ann r)) (c_me c)) as [|Hme]; [destruct H|].
    apply relay_out_in in H. destruct H as (-> & -> & Hp).
    split; [reflexivity|]. eexists r, _. repeat split; try exact Hp; auto.
    destruct (r_relay r); try discriminate; reflexivity. }
  destruct (N.leb ANNOUNCE_INTERVAL _).
  - destruct (announce_inventory c s1) as [s2 o2|] eqn:E2; [|discriminate].
    intros E; inversion E; subst; clear E. intros p a pth H. apply in_app_or in H.
    destruct H as [H|H]; [left; apply H1; exact H|].
    right. destruct (announce_inventory_in _ _ _ _ _ _ _ E2 H) as (-> & ->).
    cbn. rewrite Hr. auto.
  - intros E; inversion E; subst; clear E. intros p a pth H. left. apply H1. exact H.
Qed.

Definition confined (c : config) (p : N) (a : ann) (pth : path) : Prop :=
  a_kind a = KRefs ->
  match lookup (a_rid a) (c_storage c) with
  | Some d => visible d p = true
  | None => pth = PReplay
  end.

Theorem step_refs_confined c s e s' o : step c s e = Ok s' o ->
  forall p a pth, In (OWrite p a pth) o -> confined c p a pth.
Proof.
  unfold confined. destruct e as [q|q|q b|q sub since until|dt|rid|rid|tnow| |srid sd]; cbn [step].
  - intros E; inversion E; subst; clear E. intros p a pth [H|[H|[]]] Hk; inversion H; subst; discriminate.
  - intros E; inversion E; subst. intros p a pth [].
  - destruct (lookup q (sessions s)); [|intros E; inversion E; subst; intros p a pth []].
    destruct (handle_announcement c s q b) as [n| |s1 st r]; [discriminate| |].
    + intros E; inversion E; subst. intros p a pth [H|[]]. discriminate.
    + destruct r as [id|]; [|intros E; inversion E; subst; intros p a pth []].
      destruct (c_relay c); [|intros E; inversion E; subst; intros p a pth []].
      destruct (a_kind b) eqn:Ekb; intros E; inversion E; subst; clear E; intros p a pth H Hk;
        try destruct H.
      * apply relay_out_in in H. destruct H as (-> & -> & Hp). congruence.
      * apply relay_out_in in H. destruct H as (-> & -> & Hp).
        apply relay_targets_spec in Hp. destruct Hp as (_ & _ & _ & Hv).
        destruct (Hv Hk) as (d & Hd & Hvis). rewrite Hd. exact Hvis.
  - destruct (lookup q (sessions s)); intros E; inversion E; subst; clear E; intros p a pth H Hk;
      [|destruct H].
    apply replay_out_in in H. destruct H as (-> & -> & _ & _ & Hv).
    destruct (lookup (a_rid a) (c_storage c)) as [d|] eqn:Hd; [|reflexivity].
    apply (Hv Hk d eq_refl).
  - intros E. apply wake_outputs in E. intros p a pth H Hk.
    destruct (E p a pth H) as [(-> & r & s2 & _ & _ & _ & _ & Hp & _)|(_ & _ & Hki & _)]; [|congruence].
    apply relay_targets_spec in Hp. destruct Hp as (_ & _ & _ & Hv).
    destruct (Hv Hk) as (d & Hd & Hvis). rewrite Hd. exact Hvis.
  - destruct (lookup rid (c_storage c)) as [d|] eqn:Hd; [|intros E; inversion E; subst; intros p a pth []].
    destruct (draw s) as [s1 ts]. destruct (negb _).
    + intros E; inversion E; subst. intros p a pth [H|[]]. discriminate.
    + destruct (announce_own c s1 _ _) as [s2 o2|] eqn:E2; [|discriminate].
      intros E; inversion E; subst; clear E. intros p a pth [H|H] Hk; [discriminate|].
      destruct (announce_own_in _ _ _ _ _ _ _ _ _ E2 H) as (-> & -> & Hp).
      cbn. rewrite Hd. apply filter_In in Hp. destruct Hp as [_ Hp]. exact Hp.
  - destruct (draw s) as [s1 ts]. destruct (lookup rid (c_storage c)) as [d|].
    + destruct (announce_inventory c _) as [s4 o4|] eqn:E4; [|discriminate].
      intros E; inversion E; subst; clear E. intros p a pth [H|H] Hk; [discriminate|].
      destruct (announce_inventory_in _ _ _ _ _ _ _ E4 H) as (-> & _). discriminate.
    + intros E; inversion E; subst. intros p a pth [H|[]]. discriminate.
  - intros E; inversion E; subst. intros p a pth [].
  - destruct (draw _) as [s1 ts]. intros E; inversion E; subst. intros p a pth [H|[]]. discriminate.
  - intros E; inversion E; subst. intros p a pth [].
Qed.

(* the same for whole traces; the configuration (identity documents) may change
   between events ([ESetDoc]): each step is judged against the documents in
   force at that step *)
Fixpoint all_confined (c : config) (s : state) (es : list event) : Prop :=
  match es with
  | [] => True
  | e :: es' =>
      match step c s e with
      | Ok s1 o => (forall p a pth, In (OWrite p a pth) o -> confined c p a pth) /\
                   all_confined (next_cfg c e) s1 es'
      | Panic _ => True
      end
  end.

Theorem run_refs_confined : forall es c s, all_confined c s es.
Proof.
  induction es as [|e es IH]; intros c s; cbn [all_confined]; [exact I|].
  destruct (step c s e) as [s1 o|] eqn:Es; [|exact I].
  split; [eapply step_refs_confined; exact Es|apply IH].
Qed.

(* ---- the node's own inventory announcements list public repositories only ---- *)

Definition public (c : config) (rid : N) : Prop :=
  exists d, lookup rid (c_storage c) = Some d /\ d_public d = true.

Definition own_inv_public (c : config) (a : ann) : Prop :=
  a_node a = c_me c -> a_kind a = KInv -> forall rid, In rid (a_inv a) -> public c rid.

Definition InvPub (c : config) (s : state) : Prop :=
  (forall rid, In rid (me_routes c s) -> public c rid) /\
  (forall rid, In rid (inv_rids s) -> public c rid) /\
  (forall r, In r (gossip s) -> own_inv_public c (r_ann r)).

(* callers of AddInventory only pass public repositories (radicle-cli checks doc.is_public()) *)
Definition cmd_ok (c : config) (e : event) : Prop :=
  match e with
  | ECmdAddInventory rid => forall d, lookup rid (c_storage c) = Some d -> d_public d = true
  | _ => True
  end.

Lemma route_inventory_add_self me rid ts rt x :
  In x (route_inventory me (fst (route_add rid me ts rt))) -> x = rid \/ In x (route_inventory me rt).
Proof.
  unfold route_add. destruct (route_find rid me rt) as [old|].
  - destruct (N.ltb old ts); [|right; assumption]. cbn [fst]. unfold route_inventory.
    intros H. apply in_map_iff in H. destruct H as (e & <- & He). apply filter_In in He.
    destruct He as [He Hm]. apply in_map_iff in He. destruct He as (e0 & Hee & He0).
    destruct (route_eqb rid me e0) eqn:Eq.
    + subst e. left. reflexivity.
    + subst e. right. apply in_map_iff. exists e0. split; [reflexivity|].
      apply filter_In. split; assumption.
  - cbn [fst]. unfold route_inventory. rewrite filter_app, map_app. intros H.
    apply in_app_or in H. destruct H as [H|H]; [right; exact H|].
    cbn in H. destruct (N.eqb me me); cbn in H; [destruct H as [<-|[]]; left; reflexivity|destruct H].
Qed.

Lemma gossip_rows_announced_pub c g a now id g' :
  announced g a now = AStored id g' -> own_inv_public c a ->
  (forall r, In r g -> own_inv_public c (r_ann r)) -> (forall r, In r g' -> own_inv_public c (r_ann r)).
Proof.
  intros Ea Ha Hg r Hr. destruct (announced_rows _ _ _ _ _ _ Ea Hr) as [H|H]; [apply Hg; exact H|rewrite H; exact Ha].
Qed.

Lemma announce_own_pub c s a peers s' o :
  InvPub c s -> own_inv_public c a -> announce_own c s a peers = Ok s' o ->
  InvPub c s' /\ inv_rids s' = inv_rids s /\ inv_ts s' = inv_ts s.
Proof.
  intros (P1 & P2 & P3) Ha. unfold announce_own.
  destruct (announced (gossip s) a (clock s)) as [| |id g] eqn:Ea; [discriminate| |];
    intros E; inversion E; subst; clear E; unfold InvPub, me_routes; unf_set; repeat split; auto.
  eapply gossip_rows_announced_pub; eassumption.
Qed.

Lemma announce_inventory_pub c s s' o :
  InvPub c s -> announce_inventory c s = Ok s' o -> InvPub c s'.
Proof.
  intros HP. unfold announce_inventory. destruct (N.eqb _ _); [intros E; inversion E; subst; exact HP|].
  destruct (announce_own c s (own_inv_ann c s) (connected_peers s)) as [s1 o1|] eqn:E1; [|discriminate].
  intros E; inversion E; subst; clear E.
  assert (own_inv_public c (own_inv_ann c s)) as Ha.
  { intros _ _ rid Hr. cbn in Hr. destruct HP as (_ & P2 & _). apply P2. exact Hr. }
  destruct (announce_own_pub c s _ _ _ _ HP Ha E1) as ((P1 & P2 & P3) & _).
  unfold InvPub, me_routes in *. unf_set. auto.
Qed.

Lemma local_repos_public c rid : sorted (c_storage c) -> In rid (local_repos c true) -> public c rid.
Proof.
  intros Hs H. unfold local_repos in H. apply in_map_iff in H. destruct H as ([k d] & <- & H).
  apply filter_In in H. destruct H as [Hin Hc]. apply andb_true_iff in Hc. destruct Hc as [_ Hp].
  apply Bool.eqb_prop in Hp. exists d. split; [apply In_lookup; assumption|exact Hp].
Qed.

Lemma route_inv_remove_subset me rid n rt x :
  In x (route_inventory me (route_remove rid n rt)) -> In x (route_inventory me rt).
Proof.
  unfold route_inventory, route_remove. intros H. apply in_map_iff in H. destruct H as (e & <- & He).
  apply filter_In in He. destruct He as [He Hm]. apply filter_In in He. destruct He as [He _].
  apply in_map_iff. exists e. split; [reflexivity|]. apply filter_In. split; assumption.
Qed.

Lemma route_inv_fold_remove me l : forall rt x,
  In x (route_inventory me (fold_left (fun t rid => route_remove rid me t) l rt)) ->
  In x (route_inventory me rt).
Proof.
  induction l as [|y l IH]; intros rt x; cbn [fold_left]; [auto|].
  intros H. apply IH in H. eapply route_inv_remove_subset. exact H.
Qed.

Lemma route_inv_fold_add me ts l : forall rt x,
  In x (route_inventory me (fold_left (fun t rid => fst (route_add rid me ts t)) l rt)) ->
  In x l \/ In x (route_inventory me rt).
Proof.
  induction l as [|y l IH]; intros rt x; cbn [fold_left]; [auto|].
  intros H. apply IH in H. destruct H as [H|H]; [left; right; exact H|].
  apply route_inventory_add_self in H. destruct H as [->|H]; [left; left; reflexivity|right; exact H].
Qed.

Theorem step_inventory_public c s e s' o : sorted (c_storage c) -> sorted (sessions s) ->
  InvPub c s -> cmd_ok c e -> step c s e = Ok s' o ->
  InvPub c s' /\ forall p a pth, In (OWrite p a pth) o -> own_inv_public c a.
Proof.
  intros Hcs Hsorted HP Hcmd. pose proof HP as (P1 & P2 & P3).
  assert (own_inv_public c (own_inv_ann c s)) as Hown.
  { intros _ _ rid Hr. cbn in Hr. apply P2. exact Hr. }
  destruct e as [q|q|q b|q sub since until|dt|rid|rid|tnow| |srid sd]; cbn [step].
  - intros E; inversion E; subst; clear E. split; [unfold InvPub, me_routes; unf_set; auto|].
    intros p a pth [H|[H|[]]]; inversion H; subst; [|exact Hown].
    intros _ Hk. discriminate.
  - intros E; inversion E; subst. split; [unfold InvPub, me_routes; unf_set; auto|intros p a pth []].
  - destruct (lookup q (sessions s)); [|intros E; inversion E; subst; split; [exact HP|intros p a pth []]].
    destruct (handle_announcement c s q b) as [n| |s1 st r] eqn:Eh; [discriminate| |].
    + intros E; inversion E; subst. split; [unfold InvPub, me_routes; unf_set; auto|].
      intros p a pth [H|[]]. discriminate.
    + destruct (handle_announcement_spec c s q b s1 st r Hsorted Eh) as (Fr & _ & Hf & Ht).
      assert (InvPub c s1 /\ (r <> None -> a_node b <> c_me c)) as (HP1 & Hnme).
      { destruct st.
        - destruct (Ht eq_refl) as ((_ & Hme & _ & _ & _ & id & Ea & _) & _).
          destruct Fr. split; [|intros _; exact Hme]. unfold InvPub. rewrite hf_routes0, hf_rids0.
          repeat split; auto. eapply gossip_rows_announced_pub; [exact Ea| |exact P3].
          intros Hc; contradiction.
        - destruct (Hf eq_refl) as [-> ->]. split; [exact HP|]. intros Hc; contradiction. }
      destruct HP1 as (Q1 & Q2 & Q3).
      destruct r as [id|].
      * assert (a_node b <> c_me c) as Hme by (apply Hnme; discriminate).
        assert (forall o', (forall p a pth, In (OWrite p a pth) o' -> a = b) ->
                  forall p a pth, In (OWrite p a pth) o' -> own_inv_public c a) as Hrel.
        { intros o' Ho p a pth H. rewrite (Ho p a pth H). intros Hc; contradiction. }
        destruct (c_relay c); [destruct (a_kind b)|]; intros E; inversion E; subst; clear E.
        -- split; [unfold InvPub, me_routes in *; unf_set; repeat split; auto|].
           apply Hrel. intros p a pth H. apply relay_out_in in H. tauto.
        -- split; [|intros p a pth []].
           unfold InvPub, me_routes in *; unf_set; repeat split; auto.
           intros r Hr. apply update_row_in in Hr.
           destruct Hr as [Hr|(r0 & Hr0 & _ & Hrf)]; [apply Q3; exact Hr|]. subst r.
           cbn. apply Q3. exact Hr0.
        -- split; [unfold InvPub, me_routes in *; unf_set; repeat split; auto|].
           apply Hrel. intros p a pth H. apply relay_out_in in H. tauto.
        -- split; [unfold InvPub, me_routes in *; unf_set; repeat split; auto|intros p a pth []].
      * intros E; inversion E; subst; clear E.
        split; [unfold InvPub, me_routes in *; unf_set; repeat split; auto|intros p a pth []].
  - destruct (lookup q (sessions s)); intros E; inversion E; subst; clear E;
      (split; [unfold InvPub, me_routes in *; unf_set; repeat split; auto|]); [|intros p a pth []].
    intros p a pth H. apply replay_out_in in H. destruct H as (_ & _ & (r & Hr & <-) & _).
    apply P3. exact Hr.
  - intros E. pose proof (wake_outputs _ _ _ _ E) as Hw. split.
    + revert E. unfold wake.
      match goal with |- context [let '(s1, o1) := ?X in _] => destruct X as [s1 o1] eqn:E1 end.
      assert (InvPub c s1) as HP1.
      { destruct (N.leb GOSSIP_INTERVAL _); inversion E1; subst; clear E1;
          unfold InvPub, me_routes in *; unf_set; repeat split; auto.
        intros r Hr. apply in_map_iff in Hr. destruct Hr as (r0 & <- & Hr0).
        destruct (r_relay r0); cbn; apply P3; exact Hr0. }
      destruct (N.leb ANNOUNCE_INTERVAL _).
      * destruct (announce_inventory c s1) as [s2 o2|] eqn:E2; [|discriminate].
        intros E; inversion E; subst; clear E.
        pose proof (announce_inventory_pub c s1 s2 o2 HP1 E2) as (Q1 & Q2 & Q3).
        unfold InvPub, me_routes in *; unf_set; repeat split; auto.
      * intros E; inversion E; subst. exact HP1.
    + intros p a pth H. destruct (Hw p a pth H) as [(_ & r & s2 & _ & _ & _ & Hme & _)|(_ & _ & _ & Hinv)].
      * intros Hc; contradiction.
      * intros _ _ rid Hr. rewrite Hinv in Hr. unf_set. apply P2. exact Hr.
  - destruct (lookup rid (c_storage c)) as [d|] eqn:Hd; [|intros E; inversion E; subst; split; [exact HP|intros p a pth []]].
    destruct (draw s) as [s1 ts] eqn:Ed. apply draw_spec in Ed.
    destruct Ed as (_ & _ & _ & _ & _ & _ & Hr & Hg & Hrt & _).
    assert (InvPub c s1) as HP1 by (unfold InvPub, me_routes; rewrite Hr, Hg, Hrt; auto).
    destruct (negb _).
    + intros E; inversion E; subst. split; [exact HP1|]. intros p a pth [H|[]]. discriminate.
    + destruct (announce_own c s1 _ _) as [s2 o2|] eqn:E2; [|discriminate].
      intros E; inversion E; subst; clear E.
      assert (own_inv_public c (own_refs_ann c rid ts)) as Ha by (intros _ Hk; discriminate).
      destruct (announce_own_pub c s1 _ _ _ _ HP1 Ha E2) as (HP2 & _). split; [exact HP2|].
      intros p a pth [H|H]; [discriminate|].
      destruct (announce_own_in _ _ _ _ _ _ _ _ _ E2 H) as (-> & _). exact Ha.
  - destruct (draw s) as [s1 ts] eqn:Ed. apply draw_spec in Ed.
    destruct Ed as (_ & _ & _ & _ & _ & _ & Hr & Hg & Hrt & _).
    assert (InvPub c s1) as HP1 by (unfold InvPub, me_routes; rewrite Hr, Hg, Hrt; auto).
    destruct (lookup rid (c_storage c)) as [d|] eqn:Hd.
    + match goal with |- context [announce_inventory c ?S] => set (s3 := S) end.
      assert (InvPub c s3) as HP3.
      { destruct HP1 as (Q1 & Q2 & Q3).
        assert (forall x, In x (route_inventory (c_me c) (fst (route_add rid (c_me c) ts (routing s1)))) -> public c x) as Hnew.
        { intros x Hx. apply route_inventory_add_self in Hx. destruct Hx as [->|Hx]; [|apply Q1; exact Hx].
          exists d. split; [exact Hd|]. apply Hcmd. exact Hd. }
        unfold InvPub, me_routes, s3; unf_set. repeat split; auto. }
      destruct (announce_inventory c s3) as [s4 o4|] eqn:E4; [|discriminate].
      intros E; injection E as <- <-. split; [eapply announce_inventory_pub; eassumption|].
      intros p a pth [H|H]; [discriminate|].
      destruct (announce_inventory_in _ _ _ _ _ _ _ E4 H) as (-> & _).
      intros _ _ x Hx. cbn in Hx. destruct HP3 as (_ & Q2 & _). apply Q2. exact Hx.
    + intros E; inversion E; subst. split; [exact HP1|]. intros p a pth [H|[]]. discriminate.
  - intros E; inversion E; subst. split; [unfold InvPub, me_routes; unf_set; auto|intros p a pth []].
  - destruct (draw _) as [s1 ts] eqn:Ed. apply draw_spec in Ed.
    destruct Ed as (_ & _ & _ & _ & _ & _ & Hr & Hg & Hrt & _). unf_set.
    intros E; inversion E; subst; clear E. split; [|intros p a pth [H|[]]; discriminate].
    unfold InvPub, me_routes; unf_set. split; [|split].
    + intros x Hx. apply route_inv_fold_remove in Hx. rewrite Hrt in Hx.
      apply route_inv_fold_add in Hx. destruct Hx as [Hx|Hx]; [apply local_repos_public; assumption|apply P1; exact Hx].
    + intros x Hx. apply local_repos_public; assumption.
    + rewrite Hg. exact P3.
  - intros E; inversion E; subst. split; [exact HP|intros p a pth []].
Qed.

(* static identity documents: no ESetDoc in the trace *)
Theorem run_inventory_public c : sorted (c_storage c) -> forall es s s' os, sorted (sessions s) -> InvPub c s ->
  Forall (fun e => cmd_ok c e /\ no_setdoc e) es -> run c s es = Some (s', os) ->
  forall o p a pth, In o os -> In (OWrite p a pth) o -> own_inv_public c a.
Proof.
  intros Hcs. induction es as [|e es IH]; intros s s' os Hs HP Hc; cbn [run].
  - intros E; inversion E; subst. intros o p a pth [].
  - inversion Hc as [|e0 es0 [H1 Hns] H2]; subst. rewrite (next_cfg_static c e Hns).
    destruct (step c s e) as [s1 o1|] eqn:Es; [|discriminate].
    destruct (run c s1 es) as [[s2 os2]|] eqn:Er; [|discriminate].
    intros E; inversion E; subst; clear E.
    destruct (step_inventory_public c s e s1 o1 Hcs Hs HP H1 Es) as (HP1 & Ho).
    intros o p a pth [<-|Hin] Hw; [eapply Ho; exact Hw|].
    eapply (IH s1 s' os2 (step_sorted c s e s1 o1 Hs Es) HP1 H2 Er); eassumption.
Qed.

(* a restart re-establishes the inventory from the documents in force, whatever happened before *)
Theorem restart_inventory_public c s s' o : sorted (c_storage c) ->
  step c s ERestart = Ok s' o -> forall rid, In rid (inv_rids s') -> public c rid.
Proof.
  intros Hcs. cbn [step]. destruct (draw _) as [s1 ts]. intros E; inversion E; subst; clear E.
  unf_set. intros rid H. apply local_repos_public; assumption.
Qed.

Lemma init_state_invpub c now nts inv known0 :
  (forall rid, In rid inv -> public c rid) -> InvPub c (init_state c now nts inv known0).
Proof.
  intros H. unfold InvPub, me_routes, init_state; cbn. repeat split; auto.
  - intros rid Hr. unfold route_inventory in Hr. apply in_map_iff in Hr.
    destruct Hr as (e & <- & He). apply filter_In in He. destruct He as [He _].
    apply in_map_iff in He. destruct He as (x & <- & Hx). cbn. apply H. exact Hx.
  - intros r [].
Qed.

(* ------------------------------------------------------------------ *)
(* C10: what is stored or relayed is authentic, fresh, strictly newer; no echo *)

Lemma kind_eqb_eq a b : kind_eqb a b = true <-> a = b.
Proof. destruct a, b; cbn; split; congruence. Qed.

Lemma same_key_iff a b : same_key a b = true <->
  a_node a = a_node b /\ a_kind a = a_kind b /\ a_rid a = a_rid b.
Proof.
  unfold same_key. rewrite !andb_true_iff, !N.eqb_eq, kind_eqb_eq. tauto.
Qed.
Lemma same_key_refl a : same_key a a = true.
Proof. apply same_key_iff. auto. Qed.
Lemma same_key_sym a b : same_key a b = true -> same_key b a = true.
Proof. rewrite !same_key_iff. intuition congruence. Qed.
Lemma same_key_trans a b c : same_key a b = true -> same_key b c = true -> same_key a c = true.
Proof. rewrite !same_key_iff. intuition congruence. Qed.

Lemma find_row_none a g : find_row a g = None -> forall r, In r g -> same_key (r_ann r) a = false.
Proof.
  induction g as [|x g IH]; cbn; [intros _ r []|].
  destruct (same_key (r_ann x) a) eqn:E; [discriminate|].
  intros H r [<-|Hr]; [exact E|apply IH; assumption].
Qed.

Lemma next_id_fresh g r : In r g -> r_id r < next_id g.
Proof.
  intros H. unfold next_id.
  pose proof (fold_left_max_in (map r_id g) 0 (r_id r) (in_map r_id g r H)). lia.
Qed.

Lemma announced_rows' g a now id g' r :
  announced g a now = AStored id g' -> In r g' ->
  In r g \/ (r_ann r = a /\ r_recv r = now /\ r_id r = id).
Proof.
  unfold announced. destruct (N.eqb (a_ts a) 0); [discriminate|].
  destruct (find_row a g) as [r0|] eqn:F.
  - destruct (N.ltb _ _); [|discriminate]. intros E; inversion E; subst; clear E.
    intros H. apply update_row_in in H. destruct H as [H|(x & H1 & H2 & H3)]; [left; exact H|].
    right. subst r. cbn. auto.
  - intros E; inversion E; subst; clear E. intros H. apply in_app_or in H.
    destruct H as [H|[<-|[]]]; [left; exact H|right; cbn; auto].
Qed.

Lemma announced_newer g a now id g' r0 :
  announced g a now = AStored id g' -> find_row a g = Some r0 ->
  a_ts (r_ann r0) < a_ts a /\ id = r_id r0.
Proof.
  unfold announced. destruct (N.eqb (a_ts a) 0); [discriminate|].
  intros E F. rewrite F in E. destruct (N.ltb_spec (a_ts (r_ann r0)) (a_ts a)); [|discriminate].
  inversion E; subst. auto.
Qed.

(* ---- structural invariant of the gossip table: unique ids, unique keys ---- *)

Definition ids_unique (g : list row) : Prop := NoDup (map r_id g).
Definition keys_unique (g : list row) : Prop :=
  forall r1 r2, In r1 g -> In r2 g -> same_key (r_ann r1) (r_ann r2) = true -> r1 = r2.

Lemma ids_unique_eq g r1 r2 : ids_unique g -> In r1 g -> In r2 g -> r_id r1 = r_id r2 -> r1 = r2.
Proof.
  unfold ids_unique. induction g as [|x g IH]; cbn; [intros _ []|].
  intros Hn H1 H2 E. inversion Hn; subst.
  destruct H1 as [<-|H1], H2 as [<-|H2]; try reflexivity.
  - exfalso. apply H3. rewrite E. apply in_map. exact H2.
  - exfalso. apply H3. rewrite <- E. apply in_map. exact H1.
  - apply IH; assumption.
Qed.

Lemma update_row_map id f g : ids_unique g -> (forall r, r_id (f r) = r_id r) ->
  update_row id f g = map (fun r => if N.eqb (r_id r) id then f r else r) g.
Proof.
  unfold ids_unique. intros Hn Hf. induction g as [|x g IH]; cbn; [reflexivity|].
  inversion Hn; subst. destruct (N.eqb_spec (r_id x) id) as [E|NE].
  - f_equal. symmetry. rewrite <- (map_id g) at 2. apply map_ext_in. intros r Hr.
    destruct (N.eqb_spec (r_id r) id); [|reflexivity].
    exfalso. apply H1. rewrite E, <- e. apply in_map. exact Hr.
  - f_equal. apply IH. exact H2.
Qed.

Lemma announced_inv g a now id g' :
  ids_unique g -> keys_unique g -> announced g a now = AStored id g' ->
  ids_unique g' /\ keys_unique g' /\
  (forall r, In r g -> exists r', In r' g' /\ r_id r' = r_id r /\ same_key (r_ann r') (r_ann r) = true) /\
  (forall r', In r' g' -> same_key (r_ann r') a = true -> r_id r' = id /\ r_ann r' = a) /\
  (forall r, In r g -> same_key (r_ann r) a = true -> r_id r = id).
Proof.
  intros Hid Hk. unfold announced. destruct (N.eqb (a_ts a) 0); [discriminate|].
  destruct (find_row a g) as [r0|] eqn:F.
  - destruct (N.ltb _ _); [|discriminate]. intros E; inversion E; subst; clear E.
    apply find_row_in in F. destruct F as [F0 Fk].
    rewrite update_row_map by (try assumption; reflexivity).
    set (h := fun r : row => if N.eqb (r_id r) (r_id r0) then mkRow (r_id r) a (r_relay r) now else r).
    assert (forall r, r_id (h r) = r_id r) as Hhid by (intros r; unfold h; destruct (N.eqb _ _); reflexivity).
    assert (forall r, In r g -> same_key (r_ann (h r)) (r_ann r) = true) as Hhk.
    { intros r Hr. unfold h. destruct (N.eqb_spec (r_id r) (r_id r0)) as [E|NE]; [|apply same_key_refl].
      cbn. rewrite (ids_unique_eq g r r0 Hid Hr F0 E). apply same_key_sym. exact Fk. }
    split; [unfold ids_unique; rewrite map_map; erewrite map_ext; [exact Hid|exact Hhid]|].
    split; [|split; [|split]].
    + intros r1 r2 H1 H2 Hs. apply in_map_iff in H1, H2.
      destruct H1 as (o1 & <- & Ho1), H2 as (o2 & <- & Ho2).
      assert (o1 = o2) as ->; [|reflexivity].
      apply Hk; try assumption. eapply same_key_trans; [apply same_key_sym, Hhk; exact Ho1|].
      eapply same_key_trans; [exact Hs|]. apply Hhk. exact Ho2.
    + intros r Hr. exists (h r). split; [apply in_map; exact Hr|]. split; [apply Hhid|apply Hhk; exact Hr].
    + intros r' Hr' Hs. apply in_map_iff in Hr'. destruct Hr' as (r & <- & Hr).
      assert (r = r0) as ->.
      { apply Hk; try assumption. eapply same_key_trans; [apply same_key_sym, Hhk; exact Hr|].
        eapply same_key_trans; [exact Hs|]. apply same_key_sym. exact Fk. }
      unfold h. rewrite N.eqb_refl. cbn. auto.
    + intros r Hr Hs. f_equal. apply Hk; try assumption.
      eapply same_key_trans; [exact Hs|apply same_key_sym; exact Fk].
  - intros E; inversion E; subst; clear E.
    pose proof (find_row_none a g F) as Hnone.
    split; [|split; [|split; [|split]]].
    + unfold ids_unique. rewrite map_app. cbn.
      apply Permutation_NoDup with (l := next_id g :: map r_id g).
      * apply Permutation_cons_append.
      * constructor; [|exact Hid]. intros Hin. apply in_map_iff in Hin.
        destruct Hin as (r & E & Hr). pose proof (next_id_fresh g r Hr). lia.
    + intros r1 r2 H1 H2 Hs. apply in_app_or in H1, H2.
      destruct H1 as [H1|[<-|[]]], H2 as [H2|[<-|[]]]; try reflexivity.
      * apply Hk; assumption.
      * cbn in Hs. rewrite (Hnone r1 H1) in Hs. discriminate.
      * cbn in Hs. apply same_key_sym in Hs. rewrite (Hnone r2 H2) in Hs. discriminate.
    + intros r Hr. exists r. split; [apply in_or_app; left; exact Hr|]. split; [reflexivity|apply same_key_refl].
    + intros r' Hr' Hs. apply in_app_or in Hr'. destruct Hr' as [Hr'|[<-|[]]]; [|cbn; auto].
      rewrite (Hnone r' Hr') in Hs. discriminate.
    + intros r Hr Hs. rewrite (Hnone r Hr) in Hs. discriminate.
Qed.

Definition InvStore (c : config) (s : state) : Prop :=
  forall r, In r (gossip s) -> a_node (r_ann r) <> c_me c ->
    a_sig (r_ann r) = true /\ a_ts (r_ann r) <> 0 /\
    a_ts (r_ann r) <= r_recv r + MAX_TIME_DELTA /\ r_recv r <= clock s.

Definition InvEcho (s : state) : Prop :=
  forall p a, In (p, a, true) (delivered s) ->
    exists r, In r (gossip s) /\ same_key (r_ann r) a = true /\ In p (relayers s (r_id r)).

Definition Inv10 (c : config) (s : state) : Prop :=
  ids_unique (gossip s) /\ keys_unique (gossip s) /\ sorted (relayed_by s) /\
  sorted (sessions s) /\ InvStore c s /\ InvEcho s.

(* changes of the relay status leave (id, content, receipt time) of every row alone *)
Definition core (r : row) := (r_id r, r_ann r, r_recv r).
Definition cores (g : list row) := map core g.

Lemma cores_in g g' r' : cores g' = cores g -> In r' g' -> exists r, In r g /\ core r = core r'.
Proof.
  intros E H. assert (In (core r') (cores g)) as Hc by (rewrite <- E; apply in_map; exact H).
  apply in_map_iff in Hc. destruct Hc as (r & Er & Hr). exists r. auto.
Qed.

Lemma cores_update id f g : (forall r, core (f r) = core r) -> cores (update_row id f g) = cores g.
Proof.
  intros Hf. unfold cores. induction g as [|x g IH]; cbn; [reflexivity|].
  destruct (N.eqb (r_id x) id); cbn; [rewrite Hf|rewrite IH]; reflexivity.
Qed.

Lemma cores_map f g : (forall r, core (f r) = core r) -> cores (map f g) = cores g.
Proof. intros Hf. unfold cores. rewrite map_map. apply map_ext. exact Hf. Qed.

Lemma core_fields r r' : core r = core r' -> r_id r = r_id r' /\ r_ann r = r_ann r' /\ r_recv r = r_recv r'.
Proof. unfold core. intros E; inversion E; auto. Qed.

Lemma ids_unique_cores g g' : cores g' = cores g -> ids_unique g -> ids_unique g'.
Proof.
  unfold ids_unique. intros E H.
  replace (map r_id g') with (map (fun t => fst (fst t)) (cores g')) by (unfold cores; rewrite map_map; reflexivity).
  rewrite E. unfold cores. rewrite map_map. exact H.
Qed.

(* keys_unique needs rows to be determined by their cores within one table: we
   carry it through status updates with a direct argument instead *)
Lemma keys_unique_map f g : (forall r, core (f r) = core r) -> ids_unique g ->
  keys_unique g -> keys_unique (map f g).
Proof.
  intros Hf Hid Hk r1 r2 H1 H2 Hs. apply in_map_iff in H1, H2.
  destruct H1 as (o1 & <- & Ho1), H2 as (o2 & <- & Ho2).
  destruct (core_fields _ _ (Hf o1)) as (_ & E1 & _). destruct (core_fields _ _ (Hf o2)) as (_ & E2 & _).
  rewrite E1, E2 in Hs. rewrite (Hk o1 o2 Ho1 Ho2 Hs). reflexivity.
Qed.

Lemma Inv10_status c s g' :
  (exists f, (forall r, core (f r) = core r) /\ g' = map f (gossip s)) ->
  Inv10 c s -> Inv10 c (set_gossip s g').
Proof.
  intros (f & Hf & ->) (I1 & I2 & I3 & I4 & I5 & I6).
  unfold Inv10. unf_set. refine (conj _ (conj _ (conj I3 (conj I4 (conj _ _))))).
  - eapply ids_unique_cores; [apply cores_map; exact Hf|exact I1].
  - apply keys_unique_map; assumption.
  - intros r Hr Hme. apply in_map_iff in Hr. destruct Hr as (o & <- & Ho).
    destruct (core_fields _ _ (Hf o)) as (_ & Ea & Er). rewrite Ea, Er in *. apply I5; assumption.
  - intros p a Hd. destruct (I6 p a Hd) as (r & Hr & Hs & Hp). exists (f r).
    destruct (core_fields _ _ (Hf r)) as (Ei & Ea & _). unfold relayers in *. unf_set.
    rewrite Ei, Ea. split; [apply in_map; exact Hr|auto].
Qed.

Lemma update_row_as_map id f g : ids_unique g -> (forall r, r_id (f r) = r_id r) ->
  exists h, (forall r, (forall r, core (f r) = core r) -> core (h r) = core r) /\
            update_row id f g = map h g.
Proof.
  intros Hid Hf. exists (fun r => if N.eqb (r_id r) id then f r else r). split.
  - intros r Hc. destruct (N.eqb _ _); [apply Hc|reflexivity].
  - apply update_row_map; assumption.
Qed.

Lemma relayers_insert s id l id' : sorted (relayed_by s) ->
  (match lookup id' (insert id l (relayed_by s)) with Some x => x | None => [] end) =
  if N.eqb id' id then l else relayers s id'.
Proof.
  intros Hs. unfold insert. rewrite lookup_upsert by exact Hs. unfold relayers.
  destruct (N.eqb id' id); [|reflexivity]. destruct (lookup id (relayed_by s)); reflexivity.
Qed.

(* our own announcements enter the table without disturbing the invariant *)
Lemma announce_own_10 c s a peers s' o : a_node a = c_me c ->
  Inv10 c s -> announce_own c s a peers = Ok s' o ->
  Inv10 c s' /\ delivered s' = delivered s /\ clock s' = clock s /\ relayed_by s' = relayed_by s /\
  sessions s' = sessions s.
Proof.
  intros Hme (I1 & I2 & I3 & I4 & I5 & I6). unfold announce_own.
  destruct (announced (gossip s) a (clock s)) as [| |id g] eqn:Ea; [discriminate| |];
    intros E; inversion E; subst; clear E; unf_set.
  - split; [exact (conj I1 (conj I2 (conj I3 (conj I4 (conj I5 I6)))))|auto].
  - destruct (announced_inv _ _ _ _ _ I1 I2 Ea) as (J1 & J2 & J3 & J4 & J5).
    split; [|auto]. unfold Inv10; unf_set. refine (conj J1 (conj J2 (conj I3 (conj I4 (conj _ _))))).
    + intros r Hr Hn. destruct (announced_rows' _ _ _ _ _ _ Ea Hr) as [Hin|(Hra & _)].
      * apply I5; assumption.
      * rewrite Hra in Hn. contradiction.
    + intros p b Hd. destruct (I6 p b Hd) as (r & Hr & Hs & Hp).
      destruct (J3 r Hr) as (r' & Hr' & Hi & Hk). exists r'. unfold relayers in *; unf_set.
      rewrite Hi. split; [exact Hr'|]. split; [eapply same_key_trans; eassumption|exact Hp].
Qed.

Lemma announce_inventory_10 c s s' o :
  Inv10 c s -> announce_inventory c s = Ok s' o ->
  Inv10 c s' /\ delivered s' = delivered s /\ clock s' = clock s /\ relayed_by s' = relayed_by s.
Proof.
  intros HI. unfold announce_inventory. destruct (N.eqb _ _); [intros E; inversion E; subst; auto|].
  destruct (announce_own c s (own_inv_ann c s) (connected_peers s)) as [s1 o1|] eqn:E1; [|discriminate].
  intros E; inversion E; subst; clear E.
  destruct (announce_own_10 c s (own_inv_ann c s) _ _ _ eq_refl HI E1) as ((J1 & J2 & J3 & J4 & J5 & J6) & Hd & Hc & Hr & Hss).
  split; [|auto]. unfold Inv10, InvStore, InvEcho, relayers in *. unf_set.
  exact (conj J1 (conj J2 (conj J3 (conj J4 (conj J5 J6))))).
Qed.

Definition out_ok10 (c : config) (s' : state) (o : list out) : Prop :=
  forall p a pth, In (OWrite p a pth) o ->
    (pth = PRelay -> p <> a_node a /\ ~ In (p, a, true) (delivered s')) /\
    ((pth = PRelay \/ pth = PReplay) -> a_node a <> c_me c ->
       a_sig a = true /\ a_ts a <> 0 /\ exists t, t <= clock s' /\ a_ts a <= t + MAX_TIME_DELTA).

Lemma out_ok10_nil c s : out_ok10 c s [].
Proof. intros p a pth []. Qed.

Lemma Inv10_frame c s s' :
  gossip s' = gossip s -> relayed_by s' = relayed_by s -> delivered s' = delivered s ->
  sorted (sessions s') -> clock s <= clock s' -> Inv10 c s -> Inv10 c s'.
Proof.
  intros Eg Er Ed Hs Hc (I1 & I2 & I3 & I4 & I5 & I6).
  unfold Inv10, InvStore, InvEcho, relayers. rewrite Eg, Er, Ed.
  refine (conj I1 (conj I2 (conj I3 (conj Hs (conj _ I6))))).
  intros r Hr Hn. destruct (I5 r Hr Hn) as (A & B & C & D). repeat split; auto. lia.
Qed.

Lemma wake_frame c s s' o : wake c s = Ok s' o -> Inv10 c s ->
  Inv10 c s' /\ delivered s' = delivered s /\ clock s' = clock s.
Proof.
  unfold wake.
  match goal with |- context [let '(s1, o1) := ?X in _] => destruct X as [s1 o1] eqn:E1 end.
  intros E HI.
  assert (Inv10 c s1 /\ delivered s1 = delivered s /\ clock s1 = clock s) as (I1 & D1 & C1).
  { destruct (N.leb GOSSIP_INTERVAL _); inversion E1; subst; clear E1; [|auto].
    unf_set. split; [|auto].
    match goal with |- Inv10 c ?S => change S with
      (set_times (set_gossip s (map (fun r => match r_relay r with
         | RRelay => mkRow (r_id r) (r_ann r) (RRelayedAt (clock s)) (r_recv r) | _ => r end) (gossip s)))
         (clock s) (last_inventory s) (clock s) (last_announce s)) end.
    eapply Inv10_frame with (s := set_gossip s _); [reflexivity|reflexivity|reflexivity| |unf_set; lia|].
    - unf_set. destruct HI as (_ & _ & _ & H & _). exact H.
    - apply Inv10_status; [|exact HI]. eexists. split; [|reflexivity].
      intros r. cbn beta. destruct (r_relay r); reflexivity. }
  destruct (N.leb ANNOUNCE_INTERVAL _).
  - destruct (announce_inventory c s1) as [s2 o2|] eqn:E2; [|discriminate].
    inversion E; subst; clear E.
    destruct (announce_inventory_10 c s1 s2 o2 I1 E2) as (I2 & D2 & C2 & R2).
    split; [|unf_set; split; congruence].
    eapply Inv10_frame with (s := s2); [reflexivity|reflexivity|reflexivity| |unf_set; lia|exact I2].
    unf_set. destruct I2 as (_ & _ & _ & H & _). exact H.
  - inversion E; subst. auto.
Qed.

Theorem step_10 c s e s' o : Inv10 c s -> step c s e = Ok s' o -> Inv10 c s' /\ out_ok10 c s' o.
Proof.
  intros HI. pose proof HI as (I1 & I2 & I3 & I4 & I5 & I6).
  destruct e as [q|q|q b|q sub since until|dt|rid|rid|tnow| |srid sd]; cbn [step].
  - intros E; inversion E; subst; clear E. split.
    + eapply Inv10_frame with (s := s); [reflexivity|reflexivity|reflexivity| |unf_set; lia|exact HI].
      unf_set. unfold insert. apply sorted_upsert. exact I4.
    + intros p a pth [H|[H|[]]]; inversion H; subst; split; intros Hp; try discriminate;
        destruct Hp; discriminate.
  - intros E; inversion E; subst; clear E. split; [|apply out_ok10_nil].
    eapply Inv10_frame with (s := s); [reflexivity|reflexivity|reflexivity| |unf_set; lia|exact HI].
    unf_set. apply sorted_remove. exact I4.
  - destruct (lookup q (sessions s)); [|intros E; inversion E; subst; split; [exact HI|apply out_ok10_nil]].
    destruct (handle_announcement c s q b) as [n| |s1 st r] eqn:Eh; [discriminate| |].
    { intros E; inversion E; subst; clear E. split.
      - unfold Inv10, InvStore, InvEcho, relayers; unf_set.
        refine (conj I1 (conj I2 (conj I3 (conj I4 (conj I5 _))))).
        intros p a Hd. apply in_app_or in Hd. destruct Hd as [Hd|[Hd|[]]]; [apply I6; exact Hd|discriminate].
      - intros p a pth [H|[]]. discriminate. }
    destruct (handle_announcement_spec c s q b s1 st r I4 Eh) as (Fr & Hs1 & Hf & Ht).
    destruct st.
    2:{ destruct (Hf eq_refl) as [-> ->]. intros E; inversion E; subst; clear E.
        split; [|apply out_ok10_nil].
        unfold Inv10, InvStore, InvEcho, relayers; unf_set.
        refine (conj I1 (conj I2 (conj I3 (conj I4 (conj I5 _))))).
        intros p a Hd. apply in_app_or in Hd. destruct Hd as [Hd|[Hd|[]]]; [apply I6; exact Hd|discriminate]. }
    destruct (Ht eq_refl) as ((Hsig & Hme & Hnz & Hfresh & Hknown & id & Ea & Erb) & Hrid).
    destruct Fr.
    destruct (announced_inv _ _ _ _ _ I1 I2 Ea) as (J1 & J2 & J3 & J4 & J5).
    set (s2 := set_delivered s1 (delivered s1 ++ [(q, b, true)])).
    assert (forall id', relayers s2 id' = if N.eqb id' id then relayers s id ++ [q] else relayers s id') as Hrel.
    { intros id'. unfold relayers at 1, s2. unf_set. rewrite Erb. apply relayers_insert. exact I3. }
    assert (Inv10 c s2) as HI2.
    { unfold Inv10, s2. unf_set.
      refine (conj J1 (conj J2 (conj _ (conj Hs1 (conj _ _))))).
      - rewrite Erb. unfold insert. apply sorted_upsert. exact I3.
      - intros r1 Hr Hn. unf_set. rewrite hf_clock0.
        destruct (announced_rows' _ _ _ _ _ _ Ea Hr) as [Hin|(Hra & Hrr & _)].
        + apply I5; assumption.
        + rewrite Hra, Hrr. repeat split; auto. lia.
      - intros p a Hd. fold s2. unf_set. rewrite hf_deliv0 in Hd. apply in_app_or in Hd.
        destruct Hd as [Hd|[Hd|[]]].
        + destruct (I6 p a Hd) as (r0 & Hr0 & Hk0 & Hp0).
          destruct (J3 r0 Hr0) as (r' & Hr' & Hi' & Hk'). exists r'.
          split; [exact Hr'|]. split; [eapply same_key_trans; eassumption|].
          change (In p (relayers s2 (r_id r'))). rewrite Hrel, Hi'.
          destruct (N.eqb_spec (r_id r0) id) as [<-|]; [apply in_or_app; left|]; exact Hp0.
        + inversion Hd; subst p a; clear Hd.
          destruct (announced_has _ _ _ _ _ Ea) as (r' & Hr' & Hra & Hri & _). exists r'.
          split; [exact Hr'|]. split; [rewrite Hra; apply same_key_refl|].
          change (In q (relayers s2 (r_id r'))). rewrite Hrel, Hri, N.eqb_refl.
          apply in_or_app. right. left. reflexivity. }
    assert (out_ok10 c s2 (relay_out c s2 id b)) as Hout.
    { intros p a pth H. apply relay_out_in in H. destruct H as (-> & -> & Hp).
      apply relay_targets_spec in Hp. destruct Hp as (_ & Hnr & Hna & _). split.
      - intros _. split; [exact Hna|]. intros Hd.
        destruct HI2 as (_ & _ & _ & _ & _ & K6). destruct (K6 p b Hd) as (r0 & Hr0 & Hk0 & Hp0).
        unfold s2 in Hr0. unf_set. destruct (J4 r0 Hr0 Hk0) as (Hid & _). rewrite Hid in Hp0.
        apply Hnr. exact Hp0.
      - intros _ _. repeat split; auto. exists (clock s). unfold s2; unf_set. rewrite hf_clock0. split; [lia|exact Hfresh]. }
    destruct r as [id'|].
    + pose proof (Hrid id' eq_refl) as Ea'. rewrite Ea in Ea'. inversion Ea'; subst id'.
      destruct (c_relay c); [destruct (a_kind b)|]; intros E; inversion E; subst; clear E.
      * split; [exact HI2|exact Hout].
      * split; [|apply out_ok10_nil].
        destruct (update_row_as_map id (fun r => mkRow (r_id r) (r_ann r) RRelay (r_recv r)) (gossip s2))
          as (h & Hh & Eh2); [destruct HI2 as (K & _); exact K|reflexivity|].
        fold s2. change (Inv10 c (set_gossip s2 (update_row id (fun r => mkRow (r_id r) (r_ann r) RRelay (r_recv r)) (gossip s2)))).
        rewrite Eh2. apply Inv10_status; [|exact HI2]. exists h. split; [|reflexivity].
        intros r. apply Hh. reflexivity.
      * split; [exact HI2|exact Hout].
      * split; [exact HI2|apply out_ok10_nil].
    + intros E; inversion E; subst; clear E. split; [exact HI2|apply out_ok10_nil].
  - destruct (lookup q (sessions s)); intros E; inversion E; subst; clear E;
      [|split; [exact HI|apply out_ok10_nil]].
    split.
    + eapply Inv10_frame with (s := s); [reflexivity|reflexivity|reflexivity| |unf_set; lia|exact HI].
      unf_set. unfold insert. apply sorted_upsert. exact I4.
    + intros p a pth H. apply replay_out_in in H. destruct H as (-> & -> & (r & Hr & <-) & _ & _).
      split; [discriminate|]. intros _ Hn. unf_set.
      destruct (I5 r Hr Hn) as (A & B & C & D). repeat split; auto. exists (r_recv r). auto.
  - intros E.
    set (s0 := set_times s (clock s + dt) (last_inventory s) (last_gossip s) (last_announce s)) in *.
    assert (Inv10 c s0) as HI0.
    { eapply Inv10_frame with (s := s); [reflexivity|reflexivity|reflexivity|exact I4|unfold s0; unf_set; lia|exact HI]. }
    destruct (wake_frame c s0 s' o E HI0) as (HI' & Hd' & Hc').
    split; [exact HI'|].
    pose proof (wake_outputs c s0 s' o E) as Hw.
    intros p a pth H. destruct (Hw p a pth H) as
      [(-> & r & s2 & Hr & Hrel & <- & Hme & Hp & Erb & _)|(-> & _)].
    + apply relay_targets_spec in Hp. destruct Hp as (_ & Hnr & Hna & _).
      destruct HI0 as (K1 & K2 & K3 & K4 & K5 & K6). split.
      * intros _. split; [exact Hna|]. rewrite Hd'. intros Hd.
        destruct (K6 p (r_ann r) Hd) as (r0 & Hr0 & Hk0 & Hp0).
        rewrite (K2 r0 r Hr0 Hr Hk0) in Hp0. apply Hnr.
        unfold relayers in *. rewrite Erb. exact Hp0.
      * intros _ _. destruct (K5 r Hr Hme) as (A & B & C & D). repeat split; auto.
        exists (r_recv r). rewrite Hc'. auto.
    + split; [discriminate|]. intros [Hx|Hx]; discriminate.
  - destruct (lookup rid (c_storage c)) as [d|]; [|intros E; inversion E; subst; split; [exact HI|apply out_ok10_nil]].
    destruct (draw s) as [s1 ts] eqn:Ed. apply draw_spec in Ed.
    destruct Ed as (_ & _ & _ & Hc & _ & _ & _ & Hg & _ & Hss & Hrb & Hdl & _).
    assert (Inv10 c s1) as HI1.
    { eapply Inv10_frame with (s := s); [exact Hg|exact Hrb|exact Hdl|rewrite Hss; exact I4|lia|exact HI]. }
    destruct (negb _).
    + intros E; inversion E; subst. split; [exact HI1|]. intros p a pth [H|[]]. discriminate.
    + destruct (announce_own c s1 _ _) as [s2 o2|] eqn:E2; [|discriminate].
      intros E; inversion E; subst; clear E.
      destruct (announce_own_10 c s1 (own_refs_ann c rid ts) _ _ _ eq_refl HI1 E2) as (HI2 & _).
      split; [exact HI2|]. intros p a pth [H|H]; [discriminate|].
      destruct (announce_own_in _ _ _ _ _ _ _ _ _ E2 H) as (-> & -> & _).
      split; [discriminate|]. intros [Hx|Hx]; discriminate.
  - destruct (draw s) as [s1 ts] eqn:Ed. apply draw_spec in Ed.
    destruct Ed as (_ & _ & _ & Hc & _ & _ & _ & Hg & _ & Hss & Hrb & Hdl & _).
    assert (Inv10 c s1) as HI1.
    { eapply Inv10_frame with (s := s); [exact Hg|exact Hrb|exact Hdl|rewrite Hss; exact I4|lia|exact HI]. }
    destruct (lookup rid (c_storage c)) as [d|].
    + match goal with |- context [announce_inventory c ?S] => set (s3 := S) end.
      assert (Inv10 c s3) as HI3.
      { eapply Inv10_frame with (s := s1); [reflexivity|reflexivity|reflexivity| |unfold s3; unf_set; lia|exact HI1].
        unfold s3; unf_set. destruct HI1 as (_ & _ & _ & K & _). exact K. }
      destruct (announce_inventory c s3) as [s4 o4|] eqn:E4; [|discriminate].
      intros E; injection E as <- <-.
      destruct (announce_inventory_10 c s3 s4 o4 HI3 E4) as (HI4 & _).
      split; [exact HI4|]. intros p a pth [H|H]; [discriminate|].
      destruct (announce_inventory_in _ _ _ _ _ _ _ E4 H) as (-> & ->).
      split; [discriminate|]. intros [Hx|Hx]; discriminate.
    + intros E; inversion E; subst. split; [exact HI1|]. intros p a pth [H|[]]. discriminate.
  - intros E; inversion E; subst; clear E. split; [|apply out_ok10_nil].
    eapply Inv10_frame with (s := s); [reflexivity|reflexivity|reflexivity|exact I4| |exact HI].
    unf_set. destruct (N.leb_spec (clock s) tnow); lia.
  - destruct (draw _) as [s1 ts] eqn:Ed. apply draw_spec in Ed.
    destruct Ed as (_ & _ & _ & Hc & _ & _ & _ & Hg & _ & Hss & Hrb & Hdl & _). unf_set.
    intros E; inversion E; subst; clear E. split; [|intros p a pth [H|[]]; discriminate].
    eapply Inv10_frame with (s := s); [exact Hg|exact Hrb|exact Hdl|unf_set; rewrite Hss; exact I4|unf_set; lia|exact HI].
  - intros E; inversion E; subst; clear E. split; [exact HI|apply out_ok10_nil].
Qed.

(* every step of every trace: no panic, and the outputs are fine with respect
   to the state right after the step (the ghost list [delivered] only grows) *)
Fixpoint all_steps_ok (c : config) (s : state) (es : list event) : Prop :=
  match es with
  | [] => True
  | e :: es' =>
      match step c s e with
      | Ok s1 o => out_ok10 c s1 o /\ all_steps_ok (next_cfg c e) s1 es'
      | Panic _ => False
      end
  end.

Lemma Inv10_cfg c c' s : c_me c' = c_me c -> Inv10 c s -> Inv10 c' s.
Proof. unfold Inv10, InvStore. intros E. rewrite E. tauto. Qed.

Theorem run_10 : forall es c s, Inv10 c s -> Inv13 s -> all_steps_ok c s es.
Proof.
  induction es as [|e es IH]; intros c s HI H13; cbn [all_steps_ok]; [exact I|].
  destruct (step_no_panic c s e H13) as (s1 & o & E & H13'). rewrite E.
  destruct (step_10 c s e s1 o HI E) as (HI1 & Ho). split; [exact Ho|].
  apply IH; [|assumption]. eapply Inv10_cfg; [apply next_cfg_me|exact HI1].
Qed.

Lemma init_state_inv10 c now nts inv known0 : Inv10 c (init_state c now nts inv known0).
Proof.
  unfold Inv10, init_state, ids_unique, keys_unique, InvStore, InvEcho; cbn.
  repeat split; try constructor; try (intros; contradiction).
Qed.

(* receiving an announcement changes the stored announcements only under the
   conditions the property lists *)
Theorem recv_stores_only_if c s q b s' o : sorted (sessions s) ->
  step c s (ERecvAnn q b) = Ok s' o ->
  gossip s' = gossip s \/
  (a_sig b = true /\ a_node b <> c_me c /\ a_ts b <> 0 /\ a_ts b <= clock s + MAX_TIME_DELTA /\
   (a_kind b <> KNode -> In (a_node b) (known s)) /\
   (forall r0, find_row b (gossip s) = Some r0 -> a_ts (r_ann r0) < a_ts b) /\
   (forall r, In r (gossip s') -> In r (gossip s) \/ r_ann r = b \/
        exists r0, In r0 (gossip s) /\ core r0 = core r)).
Proof.
  intros Hs. cbn [step]. destruct (lookup q (sessions s)); [|intros E; inversion E; left; reflexivity].
  destruct (handle_announcement c s q b) as [n| |s1 st r] eqn:Eh; [discriminate| |].
  - intros E; inversion E; subst. left. reflexivity.
  - destruct (handle_announcement_spec c s q b s1 st r Hs Eh) as (Fr & _ & Hf & Ht).
    destruct st.
    2:{ destruct (Hf eq_refl) as [-> ->]. intros E; inversion E; subst. left. reflexivity. }
    destruct (Ht eq_refl) as ((Hsig & Hme & Hnz & Hfresh & Hknown & id & Ea & _) & _).
    intros E. right. repeat split; auto.
    + intros Hk. apply memN_In. apply Hknown. exact Hk.
    + intros r0 F. destruct (announced_newer _ _ _ _ _ _ Ea F) as [H _]. exact H.
    + assert (forall r, In r (gossip s1) -> In r (gossip s) \/ r_ann r = b) as H1.
      { intros r1 Hr. destruct (announced_rows' _ _ _ _ _ _ Ea Hr) as [H|(H & _)]; auto. }
      destruct r as [id'|]; [destruct (c_relay c); [destruct (a_kind b)|]|];
        inversion E; subst; clear E; unf_set; intros r1 Hr;
        try (destruct (H1 r1 Hr) as [H|H]; [left; exact H|right; left; exact H]).
      apply update_row_in in Hr. destruct Hr as [Hr|(r0 & Hr0 & _ & Hrf)].
      * destruct (H1 r1 Hr) as [H|H]; [left; exact H|right; left; exact H].
      * subst r1. cbn. destruct (H1 r0 Hr0) as [H|H]; [|right; left; exact H].
        right. right. exists r0. split; [exact H|reflexivity].
Qed.
