(* DagPrune.v — `Dag::prune_by` / `prune`: the filter is called on a
   dependency-respecting subsequence of the traversal order; the nodes removed
   are exactly the nodes where it answered Break together with their
   transitive dependents; the result is well-formed. *)
From HW Require Import lib.Base lib.SMap model.Dag proofs.DagBase proofs.DagOps
  proofs.DagTraverse proofs.DagBfs proofs.DagRemove proofs.DagFold.
From Coq Require Import Sorted Relations.

Section Prune.
Context {V A : Type}.
Implicit Types (g : dag V) (nd : node V).

Definition plog := list (N * list N * flow).
Definition pkeys (log : plog) : list N := map (fun e => fst (fst e)) log.
Definition pbroke (log : plog) (b : N) : Prop := exists sib, In (b, sib, Break) log.

Lemma pbroke_cons_continue k sib (log : plog) b : pbroke ((k, sib, Continue) :: log) b <-> pbroke log b.
Proof.
  split; [intros [s [H|H]]; [inversion H | exists s; exact H] | intros [s H]; exists s; right; exact H].
Qed.

Lemma pbroke_cons_break k sib (log : plog) b : pbroke ((k, sib, Break) :: log) b <-> (b = k \/ pbroke log b).
Proof.
  split.
  - intros [s [H|H]]; [inversion H; auto | right; exists s; exact H].
  - intros [->|[s H]]; [exists sib; left; reflexivity | exists s; right; exact H].
Qed.

Lemma pbroke_keys (log : plog) b : pbroke log b -> In b (pkeys log).
Proof. intros [s H]. unfold pkeys. apply in_map_iff. exists (b, s, Break). auto. Qed.

(** the log replayed: the filter sees, at each call, the node as it is in the
    graph pruned so far and the siblings computed in that graph *)
Inductive prune_run (filter : prune_filter V A) : dag V -> A -> plog -> A -> dag V -> Prop :=
| pr_nil g acc : prune_run filter g acc [] acc g
| pr_cons g acc k nd sib g1 log a gfin :
    lookup k (graph g) = Some nd ->
    siblings_of g k nd = Some sib ->
    (match fst (filter acc k nd (present g sib)) with
     | Continue => g1 = g
     | Break => dag_remove g k = Some g1
     end) ->
    prune_run filter g1 (snd (filter acc k nd (present g sib))) log a gfin ->
    prune_run filter g acc ((k, sib, fst (filter acc k nd (present g sib))) :: log) a gfin.

Lemma pr_cons' (filter : prune_filter V A) g acc k nd sib fl g1 log a gfin :
  lookup k (graph g) = Some nd ->
  siblings_of g k nd = Some sib ->
  fst (filter acc k nd (present g sib)) = fl ->
  (match fl with Continue => g1 = g | Break => dag_remove g k = Some g1 end) ->
  prune_run filter g1 (snd (filter acc k nd (present g sib))) log a gfin ->
  prune_run filter g acc ((k, sib, fl) :: log) a gfin.
Proof. intros H1 H2 H3 H4 H5. subst fl. econstructor; eauto. Qed.

Lemma closed_order_sub g g1 l : (forall k d, edge g1 k d -> edge g k d) ->
  closed_order g l -> closed_order g1 l.
Proof.
  intros Hsub. induction l as [|x l IH]; simpl; [auto|]. intros [Hx Hc]. split; [|apply IH; exact Hc].
  intros d He. apply Hx, Hsub, He.
Qed.

Lemma removed_desc g g' R k x : removed g g' R -> dclosed g R -> ~ R k -> ~ R x ->
  desc g' k x <-> desc g k x.
Proof.
  intros Hrm Hcl Hk Hx. rewrite !desc_reach. split.
  - intros [d [He Hr]]. exists d. split.
    + apply (removed_edge g g' R k d Hrm) in He. tauto.
    + eapply removed_reach_sub; eassumption.
  - intros [d [He Hr]]. exists d.
    assert (Hd : ~ R d) by (intros Hd; apply Hx; eapply dclosed_reach; eassumption).
    split; [apply (removed_edge g g' R k d Hrm); tauto|].
    apply (removed_reach g g' R d x Hrm Hcl Hd). tauto.
Qed.

Lemma prune_loop_spec (filter : prune_filter V A) :
  forall order gc acc, dag_shape gc -> NoDup order -> closed_order gc order ->
  exists a g' log, prune_loop filter order gc acc = Some (a, g', log) /\
    dag_shape g' /\ subseq (pkeys log) order /\ prune_run filter gc acc log a g' /\
    removed gc g' (fun x => exists b, pbroke log b /\ reach gc b x) /\
    forall k, In k order ->
      (In k (pkeys log) <-> (in_graph gc k /\ ~ exists b, pbroke log b /\ desc gc b k)).
Proof.
  induction order as [|next rest IH]; intros gc acc Hs Hnd Hcl.
  - exists acc, gc, []. simpl. split; [reflexivity|]. split; [exact Hs|]. split; [constructor|].
    split; [constructor|]. split; [|tauto].
    eapply removed_ext; [|apply removed_refl]. intros x. split; [tauto|]. intros [b [[s []] _]].
  - pose proof Hnd as Hnd0. pose proof Hcl as Hcl0.
    inversion Hnd as [|? ? Hnext Hnd']; subst. destruct Hcl as [Hdn Hcl'].
    assert (Hlater : forall (lg : plog) b, subseq (pkeys lg) rest -> pbroke lg b -> ~ desc gc b next).
    { intros lg b Hsub Hb. eapply closed_order_desc_later; [exact Hcl0 | exact Hnd0 |].
      eapply subseq_incl; [exact Hsub | apply pbroke_keys; exact Hb]. }
    cbn [prune_loop]. destruct (lookup next (graph gc)) as [nd|] eqn:El.
    2:{ (* not (or no longer) a node: skipped *)
      destruct (IH gc acc Hs Hnd' Hcl') as [a [g' [log [E [Hs' [Hsub [Hrun [Hrm Hiff]]]]]]]].
      exists a, g', log. split; [exact E|]. split; [exact Hs'|]. split; [constructor; exact Hsub|].
      split; [exact Hrun|]. split; [exact Hrm|].
      intros k [<-|Hk]; [|apply Hiff; exact Hk]. split.
      - intros Hin. exfalso. apply Hnext. eapply subseq_incl; eassumption.
      - intros [H _]. exfalso. apply H. exact El. }
    assert (Hng : in_graph gc next) by (unfold in_graph; congruence).
    destruct (siblings_total gc next nd) as [sib Esib]. rewrite Esib. cbn [obind].
    set (r := filter acc next nd (present gc sib)).
    destruct (fst r) eqn:Ef; cbn [obind].
    + (* Continue *)
      destruct (IH gc (snd r) Hs Hnd' Hcl') as [a [g' [lg [E [Hs' [Hsub [Hrun [Hrm Hiff]]]]]]]].
      rewrite E. simpl. exists a, g', ((next, sib, Continue) :: lg).
      split; [reflexivity|]. split; [exact Hs'|]. split; [simpl; constructor; exact Hsub|].
      split.
      { eapply pr_cons'; [exact El | exact Esib | exact Ef | reflexivity | exact Hrun]. }
      split.
      { eapply removed_ext; [|exact Hrm]. intros x.
        split; intros [b [Hb Hr]]; exists b; (split; [|exact Hr]).
        - apply pbroke_cons_continue. exact Hb.
        - apply (proj1 (pbroke_cons_continue _ _ _ _)) in Hb. exact Hb. }
      intros k Hk. simpl pkeys. split.
      * intros [<-|Hin].
        -- split; [exact Hng|]. intros [b [Hb Hd]]. apply (proj1 (pbroke_cons_continue _ _ _ _)) in Hb.
           eapply Hlater; eassumption.
        -- destruct Hk as [<-|Hk]; [exfalso; apply Hnext; eapply subseq_incl; eassumption|].
           apply (Hiff k Hk) in Hin. destruct Hin as [H1 H3]. split; [exact H1|].
           intros [b [Hb Hd]]. apply (proj1 (pbroke_cons_continue _ _ _ _)) in Hb. apply H3. exists b. auto.
      * intros [H1 H3]. destruct Hk as [<-|Hk]; [left; reflexivity|]. right.
        apply (Hiff k Hk). split; [exact H1|].
        intros [b [Hb Hd]]. apply H3. exists b. split; [apply pbroke_cons_continue; exact Hb | exact Hd].
    + (* Break: remove next and its transitive dependents, continue in the smaller graph *)
      destruct (remove_exact gc next Hs) as [g1 [E1 [Hs1 [Hrm1 _]]]]. rewrite E1. cbn [obind].
      set (R0 := removal gc next) in *.
      assert (Hcl0' : dclosed gc R0) by apply removal_dclosed.
      assert (Hsub1 : forall k d, edge g1 k d -> edge gc k d).
      { intros k d He. apply (removed_edge gc g1 R0 k d Hrm1) in He. tauto. }
      destruct (IH g1 (snd r) Hs1 Hnd' (closed_order_sub gc g1 rest Hsub1 Hcl'))
        as [a [g' [lg [E [Hs' [Hsub [Hrun [Hrm Hiff]]]]]]]].
      rewrite E. simpl. exists a, g', ((next, sib, Break) :: lg).
      split; [reflexivity|]. split; [exact Hs'|]. split; [simpl; constructor; exact Hsub|].
      split.
      { eapply pr_cons'; [exact El | exact Esib | exact Ef | exact E1 | exact Hrun]. }
      assert (Hlg1 : forall b, pbroke lg b -> in_graph g1 b).
      { intros b Hb. pose proof (pbroke_keys lg b Hb) as Hk.
        apply (Hiff b (subseq_incl _ _ _ Hsub Hk)) in Hk. tauto. }
      assert (HR0a : forall x, R0 x -> reach gc next x) by (intros x; unfold R0, removal; tauto).
      assert (HR0b : forall x, reach gc next x -> R0 x) by (intros x; unfold R0, removal; tauto).
      split.
      { eapply removed_ext; [|eapply removed_trans; [exact Hrm1 | exact Hrm]].
        intros x. split.
        - intros [Hx|[b [Hb Hr]]].
          + exists next. split; [apply pbroke_cons_break; left; reflexivity | apply HR0a; exact Hx].
          + exists b. split; [apply pbroke_cons_break; right; exact Hb |].
            eapply removed_reach_sub; eassumption.
        - intros [b [Hb Hr]]. apply (proj1 (pbroke_cons_break _ _ _ _)) in Hb. destruct Hb as [->|Hb]; [left; apply HR0b; exact Hr|].
          pose proof (Hlg1 b Hb) as Hb1. apply (removed_in_graph gc g1 R0 b Hrm1) in Hb1.
          destruct Hb1 as [Hbg Hnb].
          assert (Hxg : in_graph gc x) by (eapply reach_in_graph; eassumption).
          destruct (rm_dec _ _ _ Hrm1 x Hxg) as [Hx|Hx]; [left; exact Hx|]. right.
          exists b. split; [exact Hb|]. apply (removed_reach gc g1 R0 b x Hrm1 Hcl0' Hnb). tauto. }
      intros k Hk. simpl pkeys. split.
      * intros [<-|Hin].
        -- split; [exact Hng|]. intros [b [Hb Hd]]. apply (proj1 (pbroke_cons_break _ _ _ _)) in Hb. destruct Hb as [->|Hb].
           ++ eapply closed_order_head_irrefl; eassumption.
           ++ eapply Hlater; eassumption.
        -- destruct Hk as [<-|Hk]; [exfalso; apply Hnext; eapply subseq_incl; eassumption|].
           apply (Hiff k Hk) in Hin. destruct Hin as [H1 H3].
           apply (removed_in_graph gc g1 R0 k Hrm1) in H1. destruct H1 as [Hkg Hnk].
           split; [exact Hkg|]. intros [b [Hb Hd]]. apply (proj1 (pbroke_cons_break _ _ _ _)) in Hb. destruct Hb as [->|Hb].
           ++ apply Hnk. apply HR0b. apply reach_desc. right. exact Hd.
           ++ apply H3. exists b. split; [exact Hb|].
              pose proof (Hlg1 b Hb) as Hb1. apply (removed_in_graph gc g1 R0 b Hrm1) in Hb1.
              apply (removed_desc gc g1 R0 b k Hrm1 Hcl0'); tauto.
      * intros [H1 H3]. destruct Hk as [<-|Hk]; [left; reflexivity|]. right.
        assert (Hnk : ~ R0 k).
        { intros Hr0. apply HR0a, reach_desc in Hr0. destruct Hr0 as [<-|Hd]; [contradiction|].
          apply H3. exists next. split; [apply pbroke_cons_break; left; reflexivity | exact Hd]. }
        apply (Hiff k Hk). split; [apply (removed_in_graph gc g1 R0 k Hrm1); tauto|].
        intros [b [Hb Hd]]. apply H3. exists b. split; [apply pbroke_cons_break; right; exact Hb|].
        pose proof (Hlg1 b Hb) as Hb1. apply (removed_in_graph gc g1 R0 b Hrm1) in Hb1.
        apply (removed_desc gc g1 R0 b k Hrm1 Hcl0') in Hd; tauto.
Qed.

(** `prune_by` on a well-formed graph, for any start keys (in any order), any
    stateful filter and any ordering function. *)
Theorem prune_by_spec g rts (acc : A) (filter : prune_filter V A) ordering : dag_wf g ->
  exists order a g' log,
    prune_order ordering g rts = Some order /\
    dag_prune_by_log g rts acc filter ordering = Some (a, g', log) /\
    (* the traversal order *)
    NoDup order /\ closed_order g order /\
    (forall k, In k order <-> exists s, In s rts /\ reach g s k) /\
    (* the calls to the filter *)
    subseq (pkeys log) order /\ prune_run filter g acc log a g' /\
    (forall k, In k order ->
       (In k (pkeys log) <-> (in_graph g k /\ ~ exists b, pbroke log b /\ desc g b k))) /\
    (* the result: exactly the broken nodes and their transitive dependents are gone *)
    dag_wf g' /\ removed g g' (fun x => exists b, pbroke log b /\ reach g b x).
Proof.
  intros [Hs [r Hr]].
  destruct (traverse_spec g (visit_by_children ordering g) r (visit_by_children_ok ordering g Hs) Hr rts)
    as [order [Eo [Hnd [Hcl [Hin Hreach]]]]].
  destruct (prune_loop_spec filter order g acc Hs Hnd Hcl) as [a [g' [log [E [Hs' [Hsub [Hrun [Hrm Hiff]]]]]]]].
  exists order, a, g', log. unfold dag_prune_by_log, prune_order. rewrite Eo. cbn [obind].
  split; [reflexivity|]. split; [exact E|]. split; [exact Hnd|]. split; [exact Hcl|].
  split.
  { intros k. split; [apply Hreach|]. intros [s [Hs0 Hrs]].
    eapply closed_order_reach; [exact Hcl | apply Hin; exact Hs0 | exact Hrs]. }
  split; [exact Hsub|]. split; [exact Hrun|]. split; [exact Hiff|]. split; [|exact Hrm].
  constructor; [exact Hs'|]. exists r. eapply removed_ranked; eassumption.
Qed.

End Prune.
